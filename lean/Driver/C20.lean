/- Line-protocol ops for the configuration-file model (C20). -/
import DulwichModel.Model.Config
import Driver.Util
namespace DriverC20
open Dulwich Dulwich.Config DriverUtil

/-- optional bytes: `~` is None -/
def obytes? (s : String) : Option (Option Bytes) :=
  if s = "~" then some none else (bytes? s).map some

def showOpt : Option Bytes → String
  | none => "~"
  | some b => hex b

def showEntries (d : Entries) : String :=
  ",".intercalate (d.map (fun e => hex e.1 ++ "=" ++ hex e.2))

def showCfg (cfg : Cfg) : String :=
  " ".intercalate (cfg.map (fun e => hex e.1.1 ++ ":" ++ showOpt e.1.2 ++ ":" ++ showEntries e.2))

def showCfgE : Except Err Cfg → String
  | .ok cfg => if cfg.isEmpty then "ok" else "ok " ++ showCfg cfg
  | .error e => "err " ++ toString e

/-- tokens `S:<name>:<sub|~>` start a section, `E:<key>:<value>` add an entry to the last one -/
def parseCfg (toks : List String) : Option Cfg :=
  toks.foldlM (init := ([] : Cfg)) fun cfg t =>
    match t.splitOn ":" with
    | ["S", n, s] => do
        let n ← bytes? n
        let s ← obytes? s
        some (cfg ++ [((n, s), [])])
    | ["E", k, v] => do
        let k ← bytes? k
        let v ← bytes? v
        match cfg.reverse with
        | [] => none
        | (sec, d) :: before => some (before.reverse ++ [(sec, d ++ [(k, v)])])
    | _ => none

def runOp (st : Cfg × List String) (t : String) : Option (Cfg × List String) :=
  let (cfg, out) := st
  match t.splitOn ":" with
  | ["set", n, s, k, v] => do
      let sec : Section := (← bytes? n, ← obytes? s)
      some (cfgSet cfg sec (← bytes? k) (← bytes? v), out ++ ["."])
  | ["add", n, s, k, v] => do
      let sec : Section := (← bytes? n, ← obytes? s)
      some (cfgAdd cfg sec (← bytes? k) (← bytes? v), out ++ ["."])
  | ["rm", n, s, k] => do
      let sec : Section := (← bytes? n, ← obytes? s)
      match cfgRemove cfg sec (← bytes? k) with
      | .ok cfg' => some (cfg', out ++ ["."])
      | .error _ => some (cfg, out ++ ["KeyError"])
  | ["get", n, s, k] => do
      let sec : Section := (← bytes? n, ← obytes? s)
      match cfgGet cfg sec (← bytes? k) with
      | some v => some (cfg, out ++ [hex v])
      | none => some (cfg, out ++ ["KeyError"])
  | ["all", n, s, k] => do
      let sec : Section := (← bytes? n, ← obytes? s)
      match cfgGetAll cfg sec (← bytes? k) with
      | some vs => some (cfg, out ++ ["[" ++ ",".intercalate (vs.map hex) ++ "]"])
      | none => some (cfg, out ++ ["KeyError"])
  | _ => none

def handle (op : String) (args : List String) : Option String :=
  match op, args with
  | "c20.format", [v] => some <| match bytes? v with
      | some v => hex (formatString v) | none => "bad-arg"
  | "c20.parse", [s] => some <| match bytes? s with
      | some s => showExcept (parseString s) | none => "bad-arg"
  | "c20.rt", [v] => some <| match bytes? v with
      | some v => s!"{hex (formatString v)} {showExcept (parseString (formatString v))}"
      | none => "bad-arg"
  | "c20.escsub", [s] => some <| match bytes? s with
      | some s => showExcept (escapeSubsection s) | none => "bad-arg"
  | "c20.unescsub", [s] => some <| match bytes? s with
      | some s => hex (unescapeSubsection s) | none => "bad-arg"
  | "c20.wfsub", [s] => some <| match bytes? s with
      | some s => showBool (wfSubsection s) | none => "bad-arg"
  | "c20.header", [l] => some <| match bytes? l with
      | some l => (match parseHeader l with
          | .ok (sec, rest) => s!"ok {hex sec.1} {showOpt sec.2} {hex rest}"
          | .error e => "err " ++ toString e)
      | none => "bad-arg"
  | "c20.cont", [l] => some <| match bytes? l with
      | some l => showBool (isLineContinuation l) | none => "bad-arg"
  | "c20.stripc", [l] => some <| match bytes? l with
      | some l => hex (stripComments l) | none => "bad-arg"
  | "c20.read", [d] => some <| match bytes? d with
      | some d => showCfgE (readFile d) | none => "bad-arg"
  | "c20.write", toks => some <| match parseCfg toks with
      | some cfg => s!"{showBool (wfCfg cfg)} {showExcept (writeFile cfg)}"
      | none => "bad-arg"
  | "c20.ops", toks => some <| match toks.foldlM runOp (([] : Cfg), ([] : List String)) with
      | some (cfg, out) => "|".intercalate out ++ " ; " ++ showCfgE (.ok cfg)
      | none => "bad-arg"
  | _, _ => none

end DriverC20

def main : IO Unit := DriverUtil.run DriverC20.handle
