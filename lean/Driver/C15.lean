/- Line-protocol ops for the Rust-vs-Python models (C15).
   The `c03.*` ops are the ones of Driver/C03.lean (same model functions of Model/Delta.lean); they are
   repeated here because importing Driver.C03 would import its top-level `main` as well. -/
import DulwichModel.Model.RsPy
import DulwichModel.Model.RsPyPack
import DulwichModel.Model.RsPyDiff
import Driver.Util
namespace DriverC15
open Dulwich Dulwich.RsPy DriverUtil

namespace C03Ops
open Dulwich.Delta

def parseOp (s : String) : Option Op :=
  match s.splitOn ":" with
  | ["c", o, l] => do some (.copy (← nat? o) (← nat? l))
  | ["i", h] => do some (.insert (← bytes? h))
  | _ => none

def handle (op : String) (args : List String) : Option String :=
  match op, args with
  | "c03.encsize", [n] => some <| match nat? n with
      | some n => hex (encodeSize n) | none => "bad-arg"
  | "c03.enccopy", [o, l] => some <| match nat? o, nat? l with
      | some o, some l => hex (encodeCopy o l) | _, _ => "bad-arg"
  | "c03.create", b :: ops => some <| match bytes? b, ops.mapM parseOp with
      | some b, some ops => s!"{hex (createDelta b ops)} {hex (opsTarget b ops)}"
      | _, _ => "bad-arg"
  | "c03.apply", [b, d] => some <| match bytes? b, bytes? d with
      | some b, some d => showExcept (applyDelta b d) | _, _ => "bad-arg"
  | "c03.applyrs", [b, d] => some <| match bytes? b, bytes? d with
      | some b, some d => showExcept (applyDeltaRs b d) | _, _ => "bad-arg"
  | _, _ => none

end C03Ops

/-- entry token `<hex name>:<mode>:<hex of the hexsha bytes>` -/
def entry? (s : String) : Option TreeEntry :=
  match s.splitOn ":" with
  | [n, m, h] => do some ⟨← bytes? n, ← int? m, ← bytes? h⟩
  | _ => none

def showEntry (e : TreeEntry) : String := s!"{hex e.name}:{e.mode}:{hex e.hexsha}"

def showEntries (r : Except Exc (List TreeEntry)) : String :=
  match r with
  | .ok es => es.foldl (fun acc e => acc ++ " " ++ showEntry e) "ok"
  | .error e => s!"err {e}"

/-- tree token: `N` (None) | `T` (empty tree) | `T;e1;e2;…` -/
def tree? (s : String) : Option (Option (List TreeEntry)) :=
  if s = "N" then some none else
  match s.splitOn ";" with
  | "T" :: es => do some (some (← es.mapM entry?))
  | _ => none

def showOptEntry : Option TreeEntry → String
  | none => "N"
  | some e => showEntry e

def showMerge (r : Except Exc MergeResult) : String :=
  match r with
  | .ok ps => ps.foldl (fun acc p => acc ++ " " ++ showOptEntry p.1 ++ "~" ++ showOptEntry p.2) "ok"
  | .error e => s!"err {e}"

def shaLen? (s : String) : Option (Option Nat) :=
  if s = "N" then some none else (nat? s).map some

def showOptInt (r : Except Exc (Option Int)) : String :=
  match r with
  | .ok none => "ok none"
  | .ok (some i) => s!"ok {i}"
  | .error e => s!"err {e}"

def showBoolR (r : Except Exc Bool) : String :=
  match r with
  | .ok b => "ok " ++ showBool b
  | .error e => s!"err {e}"

def unpack? : List String → Option (Int → Except Exc Bytes)
  | "strict" :: t => do some (unpackStrict (← t.mapM bytes?))
  | "wrap" :: t => do some (unpackWrap (← t.mapM bytes?))
  | ["synth", off, w] => do some (unpackSynth (← nat? off) (← nat? w))
  | _ => none

def isTreeArg? (s : String) : Option IsTreeArg :=
  if s = "N" then some .noEntry else if s = "M" then some .noMode else (int? s).map .mode

def showBlocks (bs : List Bytes) : String := bs.foldl (fun acc b => acc ++ " " ++ hex b) "ok"

def showOptI : Option Int → String
  | none => "none"
  | some v => s!"some {v}"

def handle (op : String) (args : List String) : Option String :=
  match op, args with
  | "c15.intpy", [t] => some <| match bytes? t with
      | some t => showOptI (pyInt Gen.pyModeBase t) | none => "bad-arg"
  | "c15.intrs", [t] => some <| match bytes? t with
      | some t => showOptI ((rsFromStrRadix Gen.rsModeRadix Gen.rsModeBits t).map Int.ofNat) | none => "bad-arg"
  | "c15.parsepy", [n, s, t] => some <| match shaLen? n, bool? s, bytes? t with
      | some n, some s, some t => showEntries (parseTreePy t n s) | _, _, _ => "bad-arg"
  | "c15.parsers", [n, s, t] => some <| match shaLen? n, bool? s, bytes? t with
      | some n, some s, some t => showEntries (parseTreeRs t n s) | _, _, _ => "bad-arg"
  | "c15.sortpy", no :: es => some <| match bool? no, es.mapM entry? with
      | some no, some es => showEntries (sortedTreeItemsPy es no) | _, _ => "bad-arg"
  | "c15.sortrs", no :: es => some <| match bool? no, es.mapM entry? with
      | some no, some es => showEntries (sortedTreeItemsRs es no) | _, _ => "bad-arg"
  | "c15.bisectpy", s :: e :: sha :: cb => some <| match int? s, int? e, bytes? sha, unpack? cb with
      | some s, some e, some sha, some f => showOptInt (bisectPy f sha s e) | _, _, _, _ => "bad-arg"
  | "c15.bisectrs", s :: e :: sha :: cb => some <| match int? s, int? e, bytes? sha, unpack? cb with
      | some s, some e, some sha, some f => showOptInt (bisectRs f sha s e) | _, _, _, _ => "bad-arg"
  | "c15.mergepy", [p, a, b] => some <| match bytes? p, tree? a, tree? b with
      | some p, some a, some b => showMerge (mergeEntriesPy p a b) | _, _, _ => "bad-arg"
  | "c15.mergers", [p, a, b] => some <| match bytes? p, tree? a, tree? b with
      | some p, some a, some b => showMerge (mergeEntriesRs p a b) | _, _, _ => "bad-arg"
  | "c15.istreepy", [a] => some <| match isTreeArg? a with
      | some a => showBoolR (isTreePy a) | none => "bad-arg"
  | "c15.istreers", [a] => some <| match isTreeArg? a with
      | some a => showBoolR (isTreeRs a) | none => "bad-arg"
  | "c15.blockspy", chunks => some <| match chunks.mapM bytes? with
      | some cs => showBlocks (countBlocksPy Gen.blockSize cs) | none => "bad-arg"
  | "c15.blocksrs", chunks => some <| match chunks.mapM bytes? with
      | some cs => showBlocks (countBlocksRs Gen.blockSize cs) | none => "bad-arg"
  | "c15.creaters", b :: ops => some <| match bytes? b, ops.mapM C03Ops.parseOp with
      | some b, some ops => s!"{hex (rsCreateDelta b ops)} {hex (Delta.opsTarget b ops)}"
      | _, _ => "bad-arg"
  | _, _ => C03Ops.handle op args

end DriverC15

def main : IO Unit := DriverUtil.run DriverC15.handle
