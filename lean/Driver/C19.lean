/- Line-protocol ops for the pkt-line / side-band framing model (C19). -/
import DulwichModel.Model.PktLine
import Driver.Util
namespace DriverC19
open Dulwich Dulwich.PktLine DriverUtil

def showPkt : Pkt → String
  | none => "N"
  | some d => "d:" ++ hex d

def pkt? (s : String) : Option Pkt :=
  if s = "N" then some none else (bytes? s).map some

def showEnd : End → String
  | .hangup => "H" | .protoErr => "P" | .otherErr => "O" | .fuel => "F"

def showPEnd : PEnd → String
  | .tail t => "T:" ++ hex t | .protoErr => "P" | .otherErr => "O"

def joinSp (l : List String) : String := " ".intercalate l

def showList (l : List Bytes) : String := "[" ++ ",".intercalate (l.map hex) ++ "]"

def list? (s : String) : Option (List Bytes) :=
  if s = "[]" then some []
  else if s.startsWith "[" && s.endsWith "]" then
    (((s.drop 1).dropEnd 1).toString.splitOn ",").mapM bytes?
  else none

def blobs (l : List Bytes) : String := if l.isEmpty then "none" else joinSp (l.map hex)

/-- one step of the `c19.script` op over a plain blocking stream -/
def scriptStep (ps : PState Bytes) (op : String) : Option (String × Option (PState Bytes)) :=
  if op = "r" then
    some <| match readPktLine bytesRead ps with
      | .pkt p s => (showPkt p, some s)
      | .hangup s => ("H", some s)
      | .protoErr => ("P", none)
      | .otherErr => ("O", none)
  else if op = "e" then
    some <| match eof bytesRead ps with
      | .ok b s => (showBool b, some s)
      | .protoErr => ("P", none)
      | .otherErr => ("O", none)
  else if op = "s" then
    some <| match readPktSeq bytesRead (ps.st.length + 8) ps with
      | (l, none, s) => (showList l, some s)
      | (l, some .hangup, s) => (showList l ++ "H", some s)
      | (l, some e, _) => (showList l ++ showEnd e, none)
  else match op.splitOn ":" with
    | ["u", p] => (pkt? p).map fun p =>
        match unreadPktLine p ps with
        | some s => ("ok", some s)
        | none => ("V", some ps)
    | _ => none

def runScript : PState Bytes → List String → Option (List String)
  | _, [] => some []
  | ps, op :: ops =>
    match scriptStep ps op with
    | none => none
    | some (o, some ps') => (runScript ps' ops).map (o :: ·)
    | some (o, none) => some [o]

def rpOps (rbufsize : Nat) : RP → List String → Option (List String)
  | _, [] => some []
  | st, op :: ops =>
    let n? := (op.drop 1).toString.toNat?
    match n? with
    | none => none
    | some n =>
      let r := if op.startsWith "r" then some (rpRead n st)
               else if op.startsWith "v" then some (rpRecv rbufsize n st) else none
      match r with
      | none => none
      | some none => some ["A"]
      | some (some (out, st')) => (rpOps rbufsize st' ops).map (hex out :: ·)

def handle (op : String) (args : List String) : Option String :=
  match op, args with
  | "c19.prefix", [n] => some <| match nat? n with
      | some n => if n > Gen.PktLine.maxDataLen then "V"
                  else hex (fmtHex Gen.PktLine.fmtWidth (n + Gen.PktLine.fmtHdr))
      | none => "bad-arg"
  | "c19.pktline", [p] => some <| match pkt? p with
      | some p => (match pktLine p with | some f => hex f | none => "V") | none => "bad-arg"
  | "c19.pktseq", ps => some <| match ps.mapM pkt? with
      | some ps => (match pktSeq ps with | some f => hex f | none => "V") | none => "bad-arg"
  | "c19.parselen", [h] => some <| match bytes? h with
      | some s => (match parseLen s with | .ok n => s!"ok {n}" | .protocol => "P" | .other => "O")
      | none => "bad-arg"
  | "c19.read", [h] => some <| match bytes? h with
      | some s => let (l, e) := readAll bytesRead (s.length + 2) ⟨none, s⟩
                  joinSp (l.map showPkt ++ [showEnd e])
      | none => "bad-arg"
  | "c19.rpread", chunks => some <| match chunks.mapM bytes? with
      | some cs => let (l, e) := readAll rpRead (cs.flatten.length + 2) ⟨none, ⟨[], cs⟩⟩
                   joinSp (l.map showPkt ++ [showEnd e])
      | none => "bad-arg"
  | "c19.rpops", rb :: ops :: chunks => some <| match nat? rb, chunks.mapM bytes? with
      | some rb, some cs => (match rpOps rb ⟨[], cs⟩ (ops.splitOn ",") with
          | some outs => joinSp outs | none => "bad-arg")
      | _, _ => "bad-arg"
  | "c19.parse", chunks => some <| match chunks.mapM bytes? with
      | some cs => let (l, e) := feedAll [] cs
                   joinSp (l.map showPkt ++ [showPEnd e])
      | none => "bad-arg"
  | "c19.script", [h, ops] => some <| match bytes? h with
      | some s => (match runScript ⟨none, s⟩ (ops.splitOn ",") with
          | some outs => joinSp outs | none => "bad-arg")
      | none => "bad-arg"
  | "c19.sideband", [ch, h] => some <| match nat? ch, bytes? h with
      | some ch, some b => (match writeSideband (UInt8.ofNat ch) b with | some l => blobs l | none => "V")
      | _, _ => "bad-arg"
  | "c19.demux", pkts => some <| match pkts.mapM bytes? with
      | some ps => (match sidebandDemux ps with
          | some l => if l.isEmpty then "none" else joinSp (l.map fun (c, d) => s!"{c.toNat}:{hex d}")
          | none => "T")
      | none => "bad-arg"
  | "c19.bufwriter", bs :: datas => some <| match nat? bs, datas.mapM bytes? with
      | some bs, some ds => (match bwRun bs ⟨[], 0⟩ ds with | some l => blobs l | none => "V")
      | _, _ => "bad-arg"
  | "c19.caps.extract", [h] => some <| match bytes? h with
      | some t => (match extractCapabilities t with
          | some (t', caps) => s!"{hex t'} {showList caps}" | none => "V")
      | none => "bad-arg"
  | "c19.caps.want", [h] => some <| match bytes? h with
      | some t => let (t', caps) := extractWantLineCapabilities t; s!"{hex t'} {showList caps}"
      | none => "bad-arg"
  | "c19.caps.refline", [r, s, c] => some <| match bytes? r, bytes? s with
      | some r, some s =>
        if c = "N" then hex (formatRefLine r s none)
        else (match list? c with | some caps => hex (formatRefLine r s (some caps)) | none => "bad-arg")
      | _, _ => "bad-arg"
  | "c19.trailer", h :: chunks => some <| match nat? h, chunks.mapM bytes? with
      | some h, some cs => let t := trailerRun h ⟨[], []⟩ cs; s!"{hex t.hashed} {hex t.trailer}"
      | _, _ => "bad-arg"
  | _, _ => none

end DriverC19

def main : IO Unit := DriverUtil.run DriverC19.handle
