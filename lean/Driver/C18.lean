/- Line-protocol ops for the work-tree model (C18).

  c18.cleanup <st_mode>            -> cleanup_mode
  c18.kind <st_mode>               -> r|x|l|none   (kind of cleanup_mode(st_mode))
  c18.utf8 <hexpath>               -> 1|0
  c18.valid <hexpath>              -> 1|0
  c18.changes <tree> <tree>        -> d:<p>|a:<p>|m:<p> …  (tree = `p=kC,p=kC…` or `.`)
  c18.statmatch <trust> <st ctime mtime size> <entry ctime mtime size>  -> 1|0   (times in ns)
  c18.run <step> <step> …          -> one output token per step

  steps of c18.run (fields separated by `:`; lists by `,`; `.` = empty list; paths in hex):
    env:<commitTime>:<cid>=<size>,…       scenario constants                         -> ok
    tree:<name>:<p>=<k><cid>,…             define a tree (k = r|x|l)                   -> ok
    obs:<p>=<ctime>/<mtime>/<size>/<res>,… what the file system reports after the next
                                           writing operation (res = m|f|d[p<hexpath>])    -> ok
    fresh:<name>                           build_index_from_tree into an empty dir     -> ok|err:<E>
    wd:<p>=<k><cid>/<ctime>/<mtime>/<size>/<res>,…  the working directory now is …    -> ok
    stage:<p> addpath:<p> unstage:<p> rmc:<p> addall clearidx switch:<name>                        -> ok|err:<E>
    e_create:<p>:<wfile> e_modify:<p>:<wfile> e_chmod:<p>:<wfile> e_delete:<p> e_rmtree:<p> e_mkdir:<p>
                                           the named working-directory edits (Edit) of the model   -> ok
    reset:<name> forceco:<name>            porcelain.reset(hard) / checkout(force=True) to the tree      -> ok|err:<E>
    idx:<p>=<k><cid>/<ctime>/<mtime>/<size>,…  head:<name>   what C git made of the index / of HEAD     -> ok
    status                                 -> S:a=<p,…>|d=…|m=…|u=…|t=…   or err:<E>
    statusn                                -> the same with untracked_files="normal" (directories end in 2f)
    index                                  -> I:<p>=<k><cid>/<ctime>/<mtime>/<size>,…
    files                                  -> W:<p>=<k><cid>,…
-/
import DulwichModel.Model.WorkTree
import Driver.Util
namespace DriverC18
open Dulwich Dulwich.WorkTree DriverUtil

def parseList (s : String) : List String :=
  if s = "." ∨ s = "" then [] else s.splitOn ","

def kind? (c : Char) : Option Kind :=
  if c = 'r' then some .regular else if c = 'x' then some .executable
  else if c = 'l' then some .symlink else none

def kindChar : Kind → String
  | .regular => "r" | .executable => "x" | .symlink => "l"

/-- `<k><cid>` -/
def entry? (s : String) : Option Entry :=
  match s.toList with
  | c :: rest => do
    let k ← kind? c
    let n ← nat? (String.ofList rest)
    some ⟨k, n⟩
  | [] => none

def target? (c : Char) : Option Target :=
  if c = 'm' then some .missing else if c = 'f' then some .file else if c = 'd' then some .dir else none

/-- `<m|f|d>` optionally followed by `p<hexpath>` (the work-tree path the link resolves to) -/
def res? (s : String) : Option LinkRes :=
  match s.toList with
  | [t] => do some ⟨← target? t, none⟩
  | t :: 'p' :: rest => do some ⟨← target? t, some (← bytes? (String.ofList rest))⟩
  | _ => none

def tree? (s : String) : Option (FMap Entry) :=
  (parseList s).mapM (fun item =>
    match item.splitOn "=" with
    | [p, e] => do some ((← bytes? p), (← entry? e))
    | _ => none)

def obs? (s : String) : Option Obs :=
  (parseList s).mapM (fun item =>
    match item.splitOn "=" with
    | [p, v] =>
      match v.splitOn "/" with
      | [c, m, z, r] => do some ((← bytes? p), (⟨← nat? c, ← nat? m, ← nat? z⟩, ← res? r))
      | _ => none
    | _ => none)

def wd? (s : String) : Option (FMap WFile) :=
  (parseList s).mapM (fun item =>
    match item.splitOn "=" with
    | [p, v] =>
      match v.splitOn "/" with
      | [e, c, m, z, r] => do
        let en ← entry? e
        some ((← bytes? p), ⟨en.kind, en.cid, ⟨← nat? c, ← nat? m, ← nat? z⟩, ← res? r⟩)
      | _ => none
    | _ => none)

def sizes? (s : String) : Option (List (Cid × Nat)) :=
  (parseList s).mapM (fun item =>
    match item.splitOn "=" with
    | [c, z] => do some ((← nat? c), (← nat? z))
    | _ => none)

def showPaths (ps : List Path) : String := ",".intercalate (ps.map hex)

def showStatus : Except WErr Status → String
  | .error e => s!"err:{e}"
  | .ok s => s!"S:a={showPaths s.add}|d={showPaths s.del}|m={showPaths s.mod}|u={showPaths s.unstaged}|t={showPaths s.untracked}"

def showIndex (m : FMap IEntry) : String :=
  "I:" ++ ",".intercalate (m.keys.eraseDups.filterMap (fun p =>
    (m.get p).map (fun e => s!"{hex p}={kindChar e.kind}{e.cid}/{e.stat.ctime}/{e.stat.mtime}/{e.stat.size}")))

def showFiles (m : FMap WFile) : String :=
  "W:" ++ ",".intercalate (m.keys.eraseDups.filterMap (fun p =>
    match lstatView m p with
    | .file f => some s!"{hex p}={kindChar f.kind}{f.cid}"
    | _ => none))

structure St where
  env : Env := ⟨[], 0⟩
  trees : List (String × FMap Entry) := []
  obs : Obs := []
  w : World := ⟨[], [], []⟩

def opResult (st : St) (r : Except WErr World) : St × String :=
  match r with
  | .ok w => ({ st with w := w }, "ok")
  | .error e => (st, s!"err:{e}")

def step (st : St) (tok : String) : St × String :=
  match tok.splitOn ":" with
  | ["env", t, sz] =>
    match nat? t, sizes? sz with
    | some t, some sz => ({ st with env := ⟨sz, t⟩ }, "ok")
    | _, _ => (st, "bad-arg")
  | ["tree", name, t] =>
    match tree? t with
    | some t => ({ st with trees := (name, t) :: st.trees }, "ok")
    | none => (st, "bad-arg")
  | ["obs", o] =>
    match obs? o with
    | some o => ({ st with obs := o }, "ok")
    | none => (st, "bad-arg")
  | ["fresh", name] =>
    match st.trees.lookup name with
    | some t => opResult st (checkoutFresh t st.obs)
    | none => (st, "bad-arg")
  | ["wd", s] =>
    match wd? s with
    | some wd => ({ st with w := { st.w with wd := wd } }, "ok")
    | none => (st, "bad-arg")
  | ["e_create", p, f] =>                                   -- named working-directory edits of the quantifier
    match wd? (p ++ "=" ++ f) with
    | some [(p, f)] => ({ st with w := applyEdit cur st.env st.w (.create p f) }, "ok")
    | _ => (st, "bad-arg")
  | ["e_chmod", p, f] =>
    match wd? (p ++ "=" ++ f) with
    | some [(p, f)] => ({ st with w := applyEdit cur st.env st.w (.chmod p f.kind f.stat) }, "ok")
    | _ => (st, "bad-arg")
  | ["e_modify", p, f] =>
    match wd? (p ++ "=" ++ f) with
    | some [(p, f)] => ({ st with w := applyEdit cur st.env st.w (.modify p f.cid f.stat) }, "ok")
    | _ => (st, "bad-arg")
  | ["e_delete", p] =>
    match bytes? p with
    | some p => ({ st with w := applyEdit cur st.env st.w (.delete p) }, "ok")
    | none => (st, "bad-arg")
  | ["e_rmtree", p] =>
    match bytes? p with
    | some p => ({ st with w := applyEdit cur st.env st.w (.rmtree p) }, "ok")
    | none => (st, "bad-arg")
  | ["e_mkdir", p] =>
    match bytes? p with
    | some p => ({ st with w := applyEdit cur st.env st.w (.mkdir p) }, "ok")
    | none => (st, "bad-arg")
  | ["stage", p] =>
    match bytes? p with
    | some p => ({ st with w := stage st.w p }, "ok")
    | none => (st, "bad-arg")
  | ["addpath", p] =>
    match bytes? p with
    | some p => opResult st (addPath cur st.w p)
    | none => (st, "bad-arg")
  | ["unstage", p] =>
    match bytes? p with
    | some p => opResult st (unstage cur st.env st.w p)
    | none => (st, "bad-arg")
  | ["rmc", p] =>
    match bytes? p with
    | some p => opResult st (rmCached st.w p)
    | none => (st, "bad-arg")
  | ["addall"] => opResult st (stageAll cur st.w)
  | ["clearidx"] => ({ st with w := clearIndex st.w }, "ok")
  | ["switch", name] =>
    match st.trees.lookup name with
    | some t =>
      let r := switchTo cur st.w t st.obs
      ({ st with w := r.world }, match r.err with | none => "ok" | some e => s!"err:{e}")
    | none => (st, "bad-arg")
  | ["reset", name] =>
    match st.trees.lookup name with
    | some t =>
      let r := resetHard cur st.w t st.obs
      ({ st with w := r.world }, match r.err with | none => "ok" | some e => s!"err:{e}")
    | none => (st, "bad-arg")
  | ["forceco", name] =>
    match st.trees.lookup name with
    | some t =>
      let r := switchForce cur st.w t st.obs
      ({ st with w := r.world }, match r.err with | none => "ok" | some e => s!"err:{e}")
    | none => (st, "bad-arg")
  | ["idx", s] =>                                              -- the index now is … (written by C git)
    match (parseList s).mapM (fun item =>
        match item.splitOn "=" with
        | [p, v] =>
          match v.splitOn "/" with
          | [e, c, m, z] => do
            let en ← entry? e
            some ((← bytes? p), (⟨en.kind, en.cid, ⟨← nat? c, ← nat? m, ← nat? z⟩⟩ : IEntry))
          | _ => none
        | _ => none) with
    | some idx => ({ st with w := { st.w with index := idx } }, "ok")
    | none => (st, "bad-arg")
  | ["head", name] =>                                          -- HEAD now is … (moved by C git)
    match st.trees.lookup name with
    | some t => ({ st with w := { st.w with head := t } }, "ok")
    | none => (st, "bad-arg")
  | ["status"] => (st, showStatus (status cur st.w))
  | ["statusn"] => (st, showStatus (statusNormal cur st.w))
  | ["index"] => (st, showIndex st.w.index)
  | ["files"] => (st, showFiles st.w.wd)
  | _ => (st, "bad-step")

def run (toks : List String) : String :=
  let (_, outs) := toks.foldl (fun (acc : St × List String) tok =>
    let (st, o) := step acc.1 tok
    (st, o :: acc.2)) (({} : St), [])
  " ".intercalate outs.reverse

def showChange : Change → String
  | .delete p _ => s!"d:{hex p}"
  | .add p _ => s!"a:{hex p}"
  | .modify p _ _ => s!"m:{hex p}"

def handle (op : String) (args : List String) : Option String :=
  match op, args with
  | "c18.cleanup", [m] => some <| match nat? m with
      | some m => toString (cleanupMode m) | none => "bad-arg"
  | "c18.kind", [m] => some <| match nat? m with
      | some m => (match kindOfMode (cleanupMode m) with
          | some k => kindChar k | none => "none")
      | none => "bad-arg"
  | "c18.utf8", [p] => some <| match bytes? p with
      | some p => showBool (validUtf8 p) | none => "bad-arg"
  | "c18.valid", [p] => some <| match bytes? p with
      | some p => showBool (validPath p) | none => "bad-arg"
  | "c18.changes", [a, b] => some <| match tree? a, tree? b with
      | some a, some b => "|".intercalate ((changes a b).map showChange)
      | _, _ => "bad-arg"
  | "c18.statmatch", [t, sc, sm, sz, ec, em, ez] => some <| match bool? t, [sc, sm, sz, ec, em, ez].mapM nat? with
      | some t, some [sc, sm, sz, ec, em, ez] => showBool (statMatchesWith t ⟨sc, sm, sz⟩ ⟨ec, em, ez⟩)
      | _, _ => "bad-arg"
  | "c18.run", toks => some (run toks)
  | _, _ => none

end DriverC18

def main : IO Unit := DriverUtil.run DriverC18.handle
