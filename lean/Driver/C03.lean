/- Line-protocol ops for the delta codec model (C03, shared by C15). -/
import DulwichModel.Model.Delta
import Driver.Util
namespace DriverC03
open Dulwich Dulwich.Delta DriverUtil

def parseOp (s : String) : Option Op :=
  match s.splitOn ":" with
  | ["c", o, l] => do some (.copy (← nat? o) (← nat? l))
  | ["i", h] => do some (.insert (← bytes? h))
  | _ => none

def handle (op : String) (args : List String) : Option String :=
  match op, args with
  | "c03.encsize", [n] => some <| match nat? n with
      | some n => hex (encodeSize n) | none => "bad-arg"
  | "c03.decsize", [h] => some <| match bytes? h with
      | some d => (match decodeSize d with
          | some (n, r) => s!"{n} {hex r}" | none => "none")
      | none => "bad-arg"
  | "c03.enccopy", [o, l] => some <| match nat? o, nat? l with
      | some o, some l => hex (encodeCopy o l) | _, _ => "bad-arg"
  | "c03.create", b :: ops => some <| match bytes? b, ops.mapM parseOp with
      | some b, some ops => s!"{hex (createDelta b ops)} {hex (opsTarget b ops)}"
      | _, _ => "bad-arg"
  | "c03.apply", [b, d] => some <| match bytes? b, bytes? d with
      | some b, some d => showExcept (applyDelta b d) | _, _ => "bad-arg"
  | "c03.applyrs", [b, d] => some <| match bytes? b, bytes? d with
      | some b, some d => showExcept (applyDeltaRs b d) | _, _ => "bad-arg"
  | _, _ => none

end DriverC03

def main : IO Unit := DriverUtil.run DriverC03.handle
