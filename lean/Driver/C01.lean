/- Line-protocol ops for the object model (C01).
   Tokens: hex byte strings (`-` = empty), `~` = None, decimal integers, lists joined by `,` (`.` = empty
   list), tree entries `name:mode:sha`, extra headers `key=value`. -/
import DulwichModel.Model.Objects
import Driver.Util
namespace DriverC01
open Dulwich Dulwich.Objects DriverUtil

def optBytes? (s : String) : Option (Option Bytes) :=
  if s = "~" then some none else (bytes? s).map some

def optInt? (s : String) : Option (Option Int) :=
  if s = "~" then some none else (int? s).map some

def optBool? (s : String) : Option (Option Bool) :=
  if s = "~" then some none else (bool? s).map some

def list? {α : Type} (f : String → Option α) (s : String) : Option (List α) :=
  if s = "." then some [] else (s.splitOn ",").mapM f

def kv? (s : String) : Option (Bytes × Bytes) :=
  match s.splitOn "=" with
  | [k, v] => do some (← bytes? k, ← bytes? v)
  | _ => none

def entry? (s : String) : Option Entry :=
  match s.splitOn ":" with
  | [n, m, h] => do some ⟨← bytes? n, ← int? m, ← bytes? h⟩
  | _ => none

def showOptBytes : Option Bytes → String
  | none => "~" | some b => hex b

def showOptInt : Option Int → String
  | none => "~" | some i => toString i

def showOptBool : Option Bool → String
  | none => "~" | some b => showBool b

def showList {α : Type} (f : α → String) (l : List α) : String :=
  if l.isEmpty then "." else ",".intercalate (l.map f)

def showEntry (e : Entry) : String := s!"{hex e.name}:{e.mode}:{hex e.sha}"

def showEntries (r : Except Err (List Entry)) : String :=
  match r with
  | .ok es => "ok " ++ showList showEntry es
  | .error e => "err " ++ toString e

def showTag (t : Tag) : String :=
  " ".intercalate [showOptBytes t.objectSha, showOptBytes t.objectType, showOptBytes t.name,
    showOptBytes t.tagger, showOptInt t.tagTime, showOptInt t.tagTz, showOptBool t.tagNeg,
    showOptBytes t.message, showOptBytes t.signature]

def tag? : List String → Option Tag
  | [a, b, c, d, e, f, g, h, i] => do
    some ⟨← optBytes? a, ← optBytes? b, ← optBytes? c, ← optBytes? d, ← optInt? e, ← optInt? f,
          ← optBool? g, ← optBytes? h, ← optBytes? i⟩
  | _ => none

def showTi (t : TimeInfo) : String :=
  " ".intercalate [showOptBytes t.person, showOptInt t.time, showOptInt t.tz, showOptBool t.neg]

def ti? : List String → Option TimeInfo
  | [a, b, c, d] => do some ⟨← optBytes? a, ← optInt? b, ← optInt? c, ← optBool? d⟩
  | _ => none

def showCommit (c : Commit) : String :=
  " ".intercalate [showOptBytes c.tree, showList hex c.parents, showTi c.author, showTi c.committer,
    showOptBytes c.encoding, showList hex c.mergetag,
    showList (fun kv => hex kv.1 ++ "=" ++ hex kv.2) c.extra, showOptBytes c.gpgsig, showOptBytes c.message]

def commit? : List String → Option Commit
  | [t, ps, a1, a2, a3, a4, c1, c2, c3, c4, enc, mt, ex, sig, msg] => do
    some ⟨← optBytes? t, ← list? bytes? ps, ← ti? [a1, a2, a3, a4], ← ti? [c1, c2, c3, c4],
          ← optBytes? enc, ← list? bytes? mt, ← list? kv? ex, ← optBytes? sig, ← optBytes? msg⟩
  | _ => none

def pairs? : List String → Option Headers
  | [] => some []
  | k :: v :: r => do some ((← bytes? k, ← bytes? v) :: (← pairs? r))
  | _ => none

/-! ### cache machine, executed with `F := Option Bytes` (the serialisation of the current field
values, `none` = `_serialize` raises), `H := id` (the harness hashes the returned hash input). -/

inductive MStep where
  | set (kind : Nat) (ser : Option Bytes)
  | setRaw (b : Bytes) (reser : Option (Option Bytes))   -- outer none: `_deserialize` raises
  | getId
  | asRaw

def mstep? (s : String) : Option MStep :=
  match s.splitOn ":" with
  | ["I"] => some .getId
  | ["R"] => some .asRaw
  | ["S", k, b] => do some (.set (← nat? k) (← optBytes? b))
  | ["W", b, "!"] => do some (.setRaw (← bytes? b) none)
  | ["W", b, r] => do some (.setRaw (← bytes? b) (some (← optBytes? r)))
  | _ => none

def machineCls (blob : Bool) (num : Nat) (table : List (Bytes × Option (Option Bytes))) : Cls (Option Bytes) :=
  { typeNum := num, ser := id, alias := blob,
    deser := fun _ b => if blob then some (some b) else
      match table.find? (·.1 == b) with
      | some (_, r) => r
      | none => none }

def runMachine (blob : Bool) (num : Nat) (steps : List MStep) : String :=
  let table := steps.filterMap fun | .setRaw b r => some (b, r) | _ => none
  let C := machineCls blob num table
  let init : St (Option Bytes) :=
    if blob then { fields := some [], needs := false, sha := none, chunks := some [] } else freshInit none
  let (_, outs) := steps.foldl (fun (acc : St (Option Bytes) × List String) st =>
    let (s, outs) := acc
    match st with
    | .set k b => (setStep C k (fun _ => b) s, outs)
    | .setRaw b _ => (setRawStep C b s, outs)
    | .getId => let r := shaStep id C s; (r.2, showOptBytes r.1 :: outs)
    | .asRaw => let r := asRawChunks C s; (r.2, showOptBytes r.1 :: outs)) (init, [])
  if outs.isEmpty then "." else " ".intercalate outs.reverse

def showExceptUnit {α : Type} (f : α → String) (r : Except Err α) : String :=
  match r with
  | .ok a => "ok " ++ f a
  | .error e => "err " ++ toString e

def handle (op : String) (args : List String) : Option String :=
  match op, args with
  | "c01.dec", [i] => some <| match int? i with
      | some i => hex (intToDec i) | none => "bad-arg"
  | "c01.pyint", [b, h] => some <| match nat? b, bytes? h with
      | some b, some h => (match pyInt b h with | some i => toString i | none => "none")
      | _, _ => "bad-arg"
  | "c01.rsoct", [h] => some <| match bytes? h with
      | some h => (match rsOctU32 h with | some i => toString i | none => "none")
      | none => "bad-arg"
  | "c01.hashinput", [n, h] => some <| match nat? n, bytes? h with
      | some n, some h => showOptBytes (hashInput n h) | _, _ => "bad-arg"
  | "c01.fmtmsg", b :: kvs => some <| match optBytes? b, pairs? kvs with
      | some b, some hs => hex (formatMessage hs b) | _, _ => "bad-arg"
  | "c01.parsemsg", [h] => some <| match bytes? h with
      | some h => showExceptUnit (fun (r : Headers × Option Bytes) =>
          " ".intercalate (showOptBytes r.2 :: r.1.flatMap fun kv => [hex kv.1, hex kv.2])) (parseMessage h)
      | none => "bad-arg"
  | "c01.fmttz", [o, n] => some <| match int? o, bool? n with
      | some o, some n => showExcept (formatTimezone o n) | _, _ => "bad-arg"
  | "c01.parsetz", [h] => some <| match bytes? h with
      | some h => showExceptUnit (fun (r : Int × Bool) => s!"{r.1} {showBool r.2}") (parseTimezone h)
      | none => "bad-arg"
  | "c01.fmtte", [p, t, z, n] => some <| match bytes? p, int? t, int? z, bool? n with
      | some p, some t, some z, some n => showExcept (formatTimeEntry p t z n) | _, _, _, _ => "bad-arg"
  | "c01.parsete", [h] => some <| match bytes? h with
      | some h => showExceptUnit showTi (parseTimeEntry h) | none => "bad-arg"
  | "c01.tree.sort", [v, es] => some <| match list? entry? es with
      | some es =>
        if v = "py" then showEntries (sortedTreeItemsE es)
        else if v = "rs" then showEntries (sortedTreeItemsRsE es)
        else if v = "name" then "ok " ++ showList showEntry (sortedTreeItemsNameOrder es)
        else "bad-arg"
      | none => "bad-arg"
  | "c01.tree.ser", [v, es] => some <| match list? entry? es with
      | some es =>
        if v = "py" then showExcept (serializeTreeObj es)
        else if v = "rs" then showExcept (serializeTreeObjRs es)
        else if v = "raw" then showExcept (serializeTree es)
        else "bad-arg"
      | none => "bad-arg"
  | "c01.tree.parse", [v, n, h] => some <| match nat? n, bytes? h with
      | some n, some h =>
        if v = "py" then showEntries (parseTreePy n h)
        else if v = "rs" then showEntries (parseTreeRs n h)
        else if v = "pydict" then showEntries (deserializeTreeObj n h)
        else if v = "rsdict" then showEntries (deserializeTreeObjRs n h)
        else "bad-arg"
      | _, _ => "bad-arg"
  | "c01.tag.ser", fs => some <| match tag? fs with
      | some t => showExcept (serializeTag t) | none => "bad-arg"
  | "c01.tag.deser", [h] => some <| match bytes? h with
      | some h => showExceptUnit showTag (deserializeTag Tag.empty h) | none => "bad-arg"
  | "c01.tag.refill", [h1, h2] => some <| match bytes? h1, bytes? h2 with
      | some h1, some h2 => (match deserializeTag Tag.empty h1 with
          | .ok t => showExceptUnit showTag (deserializeTag t h2) | .error e => "perr " ++ toString e)
      | _, _ => "bad-arg"
  | "c01.tag.reser", [h] => some <| match bytes? h with
      | some h => (match deserializeTag Tag.empty h with
          | .ok t => showExcept (serializeTag t) | .error e => "perr " ++ toString e)
      | none => "bad-arg"
  | "c01.commit.ser", fs => some <| match commit? fs with
      | some c => showExcept (serializeCommit c) | none => "bad-arg"
  | "c01.commit.deser", [h] => some <| match bytes? h with
      | some h => showExceptUnit showCommit (deserializeCommit h) | none => "bad-arg"
  | "c01.commit.reser", [h] => some <| match bytes? h with
      | some h => (match deserializeCommit h with
          | .ok c => showExcept (serializeCommit c) | .error e => "perr " ++ toString e)
      | none => "bad-arg"
  | "c01.machine", cls :: n :: steps => some <| match nat? n, steps.mapM mstep? with
      | some n, some steps =>
        if cls = "blob" then runMachine true n steps
        else if cls = "other" then runMachine false n steps
        else "bad-arg"
      | _, _ => "bad-arg"
  | "c01.setterkind", [c, n] => some <| match setterKind c n with
      | some k => toString k | none => "none"
  | _, _ => none

end DriverC01

def main : IO Unit := DriverUtil.run DriverC01.handle
