/- Line-protocol ops for the maintenance / concurrent-reader models (C10).

   Encodings (no spaces inside an argument; `-` = empty):
     ids      1,2,3
     graph    1:2,3;2:-;3:4            (id : children)
     loose    5:100,6:200              (id : mtime)
     packs    100:1,2;200:3            (mtime : ids)
     packids  1:7,8;2:9                (pack name : ids)
     fs       1,2/2,1/7,8              (idx names / data names / loose ids)
     prog     0:1,1:1,5:3              (action tag : argument, see `Act.ofCode`)
-/
import DulwichModel.Model.GC
import DulwichModel.Model.Reader
import Driver.Util
namespace DriverC10
open Dulwich DriverUtil

def splitNE (s : String) (sep : String) : List String :=
  if s = "-" || s = "" then [] else s.splitOn sep

def ids? (s : String) : Option (List Nat) := (splitNE s ",").mapM nat?

def pair? (s : String) : Option (Nat × Nat) :=
  match s.splitOn ":" with
  | [a, b] => do some ((← nat? a), (← nat? b))
  | _ => none

def pairs? (s : String) : Option (List (Nat × Nat)) := (splitNE s ",").mapM pair?

/-- `k:ids;k:ids` -/
def keyed? (s : String) : Option (List (Nat × List Nat)) :=
  (splitNE s ";").mapM fun e =>
    match e.splitOn ":" with
    | [k, v] => do some ((← nat? k), (← ids? v))
    | _ => none

def lookupFn (tbl : List (Nat × List Nat)) (x : Nat) : List Nat := (tbl.lookup x).getD []

def showIds (l : List Nat) : String :=
  if l.isEmpty then "-" else ",".intercalate (l.map toString)

def sortNat (l : List Nat) : List Nat := l.mergeSort (fun a b => a ≤ b)

def sortDedup (l : List Nat) : List Nat := (sortNat l).eraseDups

def grace? (s : String) : Option (Option Nat) :=
  if s = "none" then some none else (nat? s).map some

/-! ### logical store -/

def store? (l p a : String) : Option GC.Store := do
  let loose ← pairs? l
  let packs ← keyed? p
  let alts ← ids? a
  some { loose := loose, packs := packs.map (fun e => { ids := e.2, mtime := e.1 }), alts := alts }

def showStore (s : GC.Store) : String :=
  let packs := (s.packs.map (fun p => showIds (sortDedup p.ids))).mergeSort (fun a b => a ≤ b)
  s!"L={showIds (sortDedup s.looseIds)}|P={if packs.isEmpty then "-" else ";".intercalate packs}"

def fuelFor (s : GC.Store) (G : Nat → List Nat) (roots : List Nat) : Nat :=
  (roots ++ s.allIds.flatMap G).length

def opOf (name : String) (grace : Option Nat) (now : Nat) : Option GC.Op :=
  match name with
  | "packloose" => some (.packLoose now)
  | "repack" => some (.repack now)
  | "prune" => some (.prune grace now)
  | "gc" => some (.gc true grace now)
  | "gcnoprune" => some (.gc false grace now)
  | "noop" => some .noop
  | _ => none

def stepLine (g r l p a opn gr now : String) : String :=
  match keyed? g, ids? r, store? l p a, grace? gr, nat? now with
  | some g, some roots, some s, some grace, some now =>
    let G := lookupFn g
    match opOf opn grace now with
    | none => "bad-arg"
    | some op =>
      let fuel := fuelFor s G roots
      match GC.apply GC.Variant.current G roots fuel op s with
      | none => "fuel"
      | some s' =>
        let pruned : List Nat :=
          match op, GC.findReachable s G roots fuel with
          | .prune grace now, some reach => GC.prunedLoose GC.Variant.current s reach grace now
          | .gc true grace now, some reach => GC.toPrune GC.Variant.current s reach grace now
          | _, _ => []
        s!"{showStore s'}|pruned={showIds (sortDedup pruned)}"
  | _, _, _, _, _ => "bad-arg"

/-- like `stepLine`, from a handle with the given view of the packs (`vw`: packs as in `p`; an entry that is not one of
the packs of `p` is a cached pack whose files are gone) -/
def stepvLine (g r l p a vw ex opn gr now : String) : String :=
  match keyed? g, ids? r, store? l p a, keyed? vw, ids? ex, grace? gr, nat? now with
  | some g, some roots, some s, some vw, some extra, some grace, some now =>
    let G := lookupFn g
    let view : List GC.Pack := vw.map (fun e => { ids := e.2, mtime := e.1 })
    match opOf opn grace now with
    | none => "bad-arg"
    | some op =>
      match GC.applyV GC.Variant.current G roots (fuelFor (s.withStale extra) G roots) view extra op s with
      | none => "fuel"
      | some (s', raised) => s!"{showStore s'}|raised={showBool raised}"
  | _, _, _, _, _, _, _ => "bad-arg"

/-! ### reader replay -/

def fs? (s : String) : Option Reader.FS :=
  match s.splitOn "/" with
  | [i, d, l] => do some { idx := (← ids? i), data := (← ids? d), loose := (← ids? l) }
  | _ => none

def noFS : Reader.FS := { idx := [], data := [], loose := [] }

def okStr (b : Bool) : String := if b then "ok" else "gone"

/-- Run a lookup, consuming one file-system state per system call; steps without a system call consume none.
Emits the predicted system calls with their outcomes, then the result. -/
def replay (c : Reader.Cfg) : Nat → Reader.RState → List Reader.FS → List String → List String × Reader.RState
  | 0, r, _, acc => (acc ++ ["fuel"], r)
  | fuel + 1, r, fss, acc =>
    match r.phase with
    | .done b => (acc ++ [if b then "found" else "missing"] ++ (if fss.isEmpty then [] else ["extra-fs"]), r)
    | _ =>
      match Reader.nextCall c r with
      | none => replay c fuel (Reader.step c noFS r) fss acc
      | some call =>
        match fss with
        | [] => (acc ++ ["need-fs"], r)
        | f :: rest =>
          let tok := match call with
            | .idx p => s!"idx:{p}:{okStr (f.idx.contains p)}"
            | .data p => s!"data:{p}:{okStr (f.data.contains p)}"
            | .listdir => "listdir"
            | .loose => s!"loose:{okStr (f.loose.contains c.x)}"
          replay c fuel (Reader.step c f r) rest (acc ++ [tok])

def ireplay (ra : Bool) (ids : Nat → List Nat) (alts : List Nat) :
    Nat → Reader.IState → List Reader.FS → List String → List String × Reader.IState
  | 0, r, _, acc => (acc ++ ["fuel"], r)
  | fuel + 1, r, fss, acc =>
    match r.phase with
    | .done => (acc ++ (if fss.isEmpty then [] else ["extra-fs"]), r)
    | _ =>
      match Reader.inextCall r with
      | none => ireplay ra ids alts fuel (Reader.istep ra ids alts noFS r) fss acc
      | some call =>
        match fss with
        | [] => (acc ++ ["need-fs"], r)
        | f :: rest =>
          let tok := match call with
            | .idx p => s!"idx:{p}:{okStr (f.idx.contains p)}"
            | .data p => s!"data:{p}:?"
            | .listdir => "listdir"
            | .loose => "loose"
          ireplay ra ids alts fuel (Reader.istep ra ids alts f r) rest (acc ++ [tok])

def lookupLine (kind x n reprobe alts packids cache idxL dataL : String) (fss : List String) : String :=
  match nat? x, nat? n, bool? reprobe, ids? alts, keyed? packids, ids? cache, ids? idxL, ids? dataL, fss.mapM fs? with
  | some x, some n, some rp, some alts, some pk, some cache, some il, some dl, some fss =>
    if kind ≠ "get" ∧ kind ≠ "in" then "bad-arg" else
    let c : Reader.Cfg := { ids := lookupFn pk, x := x, needData := kind = "get", alts := alts,
                            maxAttempts := n, reprobe := rp }
    let (toks, r) := replay c (20 * (cache.length + pk.length + fss.length + 5) * (n + 2)) (Reader.RState.init cache il dl) fss []
    s!"{";".intercalate toks}|cache={showIds r.cache}|idx={showIds (sortDedup r.idxLoaded)}|data={showIds (sortDedup r.dataLoaded)}"
  | _, _, _, _, _, _, _, _, _ => "bad-arg"

def iterLine (ra alts packids cache idxL : String) (fss : List String) : String :=
  match bool? ra, ids? alts, keyed? packids, ids? cache, ids? idxL, fss.mapM fs? with
  | some ra, some alts, some pk, some cache, some il, some fss =>
    let (toks, r) := ireplay ra (lookupFn pk) alts (20 * (cache.length + pk.length + fss.length + 5))
      (Reader.IState.init cache il) fss []
    s!"{";".intercalate toks}|ids={showIds (sortDedup r.acc)}|cache={showIds r.cache}|idx={showIds (sortDedup r.idxLoaded)}"
  | _, _, _, _, _, _ => "bad-arg"

/-- `repack()` as a procedure against a writer: tokens `m` (the repacker's next step) / `i<q>` (the writer's pack `q`
becomes complete).  Prints the complete packs at the end and whether the procedure finished. -/
def mexecLine (relist newp init : String) (toks : List String) : String :=
  match bool? relist, nat? newp, ids? init with
  | some rl, some np, some init =>
    let sched? : Option (List (List (Option Reader.Act))) := toks.mapM fun t =>
      if t = "m" then some [none]
      else if t.startsWith "i" then (nat? (t.drop 1).toString).map (fun q => [some (.installData q), some (.installIdx q)])
      else none
    match sched? with
    | none => "bad-arg"
    | some sc =>
      let f0 : Reader.FS := { idx := init, data := init, loose := [] }
      let r := Reader.mexec rl np f0 .start sc.flatten
      s!"{showIds (sortDedup r.1.visible)}|{if r.2 = .done then "done" else "running"}"
  | _, _, _ => "bad-arg"

def handle (op : String) (args : List String) : Option String :=
  match op, args with
  | "c10.reach", [g, r, l, p, a] => some <|
      match keyed? g, ids? r, store? l p a with
      | some g, some roots, some s =>
        (match GC.findReachable s (lookupFn g) roots (fuelFor s (lookupFn g) roots) with
         | some reach => showIds (sortDedup reach)
         | none => "fuel")
      | _, _, _ => "bad-arg"
  | "c10.step", [g, r, l, p, a, opn, gr, now] => some (stepLine g r l p a opn gr now)
  | "c10.stepv", [g, r, l, p, a, vw, ex, opn, gr, now] => some (stepvLine g r l p a vw ex opn gr now)
  | "c10.lookup", kind :: x :: n :: rp :: alts :: pk :: cache :: il :: dl :: fss =>
      some (lookupLine kind x n rp alts pk cache il dl fss)
  | "c10.iter", ra :: alts :: pk :: cache :: il :: fss => some (iterLine ra alts pk cache il fss)
  | "c10.check", [pstar, prot, prog] => some <|
      match nat? pstar, ids? prot, pairs? prog with
      | some ps, some pt, some pr => showBool (Reader.checkProgram ps pt false false (pr.map Reader.Act.ofCode))
      | _, _, _ => "bad-arg"
  | "c10.mexec", relist :: newp :: init :: toks => some (mexecLine relist newp init toks)
  | "c10.grace", [now, kind, arg] => some <|
      match nat? now with
      | none => "bad-arg"
      | some now =>
        let v? : Option GC.ConfigValue :=
          if kind = "unset" then some .unset
          else if kind = "kw" then some (.keyword arg)
          else if kind = "ago" then (nat? arg).map .secondsAgo
          else if kind = "abs" then (nat? arg).map .absolute
          else if kind = "other" then some .other
          else none
        match v? with
        | none => "bad-arg"
        | some v =>
          let g := match GC.graceOf Gen.GC.pruneExpireKeywords Gen.GC.pruneExpireUnsetDefault now v with
            | .refuse => "refuse" | .secs n => s!"secs:{n}" | .noAgeCheck => "none"
          let e := match GC.expiryOf now v with | some t => s!"{t}" | none => "-"
          s!"{g}|{e}"
  | "c10.roots", [init, prog, i, j] => some <|
      match ids? prog, nat? i, nat? j with
      | some pr, some i, some j =>
        let s0 : GC.RefAt := (init = "l" || init = "b", init = "p" || init = "b")
        showBool (GC.rootSeen (GC.refTrace s0 (pr.map GC.RefAct.ofCode)) i j)
      | _, _, _ => "bad-arg"
  | "c10.consts", [] => some
      s!"{Gen.GC.maxPackRescanAttempts} {Gen.GC.defaultGracePeriod} {Gen.GC.defaultPruneExpire} {Gen.GC.defaultTempfileGracePeriod} {showBool Gen.GC.getRawReprobesPacks} {showBool Gen.GC.containsReprobesPacks} {showBool Gen.GC.iterRescansAfterLoose} {showBool Gen.GC.getObjectMtimeUsesMax} {showBool Gen.GC.completePackRefreshesMtime}"
  | _, _ => none

end DriverC10

def main : IO Unit := DriverUtil.run DriverC10.handle
