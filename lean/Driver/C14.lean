/- Line-protocol ops for the acceleration-data models (C14). -/
import DulwichModel.Model.Accel
import DulwichModel.Model.Ewah
import DulwichModel.Model.CommitGraphFmt
import DulwichModel.Model.Midx
import Driver.Util
namespace DriverC14
open Dulwich DriverUtil

def csvNat? (s : String) : Option (List Nat) :=
  if s = "-" then some [] else (s.splitOn ",").mapM nat?

def csvBytes? (s : String) : Option (List Bytes) :=
  if s = "-" then some [] else (s.splitOn ",").mapM bytes?

def showCsvNat (l : List Nat) : String :=
  if l.isEmpty then "-" else ",".intercalate (l.map toString)

def showCsvBytes (l : List Bytes) : String :=
  if l.isEmpty then "-" else ",".intercalate (l.map hex)

/-- dense bit list from a list of set positions -/
def denseOf (ps : List Nat) : List Bool :=
  let n := ps.foldl (fun a p => max a (p + 1)) 0
  let arr := ps.foldl (fun (a : Array Bool) p => a.set! p true) (Array.replicate n false)
  arr.toList

def parseEntry (s : String) : Option CommitGraphFmt.Entry :=
  match s.splitOn ":" with
  | [c, t, g, tm, ps] => do
    some { cid := ← bytes? c, tree := ← bytes? t, gen := ← nat? g, time := ← nat? tm,
           parents := ← (if ps = "?" then some none else (csvBytes? ps).map some) }
  | _ => none

def showEntry (e : CommitGraphFmt.Entry) : String :=
  s!"{hex e.cid}:{hex e.tree}:{e.gen}:{e.time}:{match e.parents with | none => "?" | some ps => showCsvBytes ps}"

def parseMap (s : String) : Option (List (String × String)) :=
  if s = "-" then some [] else
  (s.splitOn ";").mapM (fun kv => match kv.splitOn "=" with
    | [k, v] => some (k, v) | _ => none)

def mapFn (m : List (String × String)) : String → Option String :=
  fun k => (m.find? (·.1 = k)).map (·.2)

def natOfBytes (b : Bytes) : Nat := Ewah.beVal b

def handle (op : String) (args : List String) : Option String :=
  match op, args with
  | "c14.ewah.enc", [ps] => some <| match csvNat? ps with
      | some ps => showExcept (Ewah.encode (denseOf ps)) | none => "bad-arg"
  | "c14.ewah.dec", [h] => some <| match bytes? h with
      | some d => (match Ewah.decode d with
          | .ok (bc, ws) => s!"ok {bc} {showCsvNat (Ewah.positions ws)}"
          | .error e => s!"err {e}")
      | none => "bad-arg"
  | "c14.ewah.encwords", [ws] => some <| match csvNat? ws with
      | some ws => showCsvNat (Ewah.encodeWords ws) | none => "bad-arg"
  | "c14.ewah.decwords", [mx, ws] => some <| match nat? mx, csvNat? ws with
      | some mx, some ws => (match Ewah.decodeWords mx ws with
          | .ok r => s!"ok {showCsvNat r}" | .error e => s!"err {e}")
      | _, _ => "bad-arg"
  | "c14.cg.write", hv :: es => some <| match nat? hv, es.mapM parseEntry with
      | some hv, some es => showExcept (CommitGraphFmt.writeFile hv es) | _, _ => "bad-arg"
  | "c14.cg.read", [h] => some <| match bytes? h with
      | some f => (match CommitGraphFmt.readFile f with
          | .ok es => "ok" ++ String.join (es.map (fun e => " " ++ showEntry e))
          | .error e => s!"err {e}")
      | none => "bad-arg"
  | "c14.cg.getparents", h :: oids => some <| match bytes? h, oids.mapM bytes? with
      | some f, some oids => (match CommitGraphFmt.readFile f with
          | .ok es => "ok" ++ String.join (oids.map (fun o => match CommitGraphFmt.getParents es o with
              | none => " none" | some ps => " " ++ showCsvBytes ps))
          | .error e => s!"err {e}")
      | _, _ => "bad-arg"
  | "c14.cg.encall", oids :: pss => some <|
      match csvBytes? oids, pss.mapM (fun x => if x = "?" then some none else (csvBytes? x).map some) with
      | some oids, some pss =>
        let r := CommitGraphFmt.encodeAll oids pss 0
        "ok " ++ showCsvNat (r.1.flatMap (fun s => [s.1, s.2])) ++ " " ++ showCsvNat r.2
      | _, _ => "bad-arg"
  | "c14.cg.decpar", [oids, edges, p1, p2] => some <|
      match csvBytes? oids, (if edges = "none" then some none else (csvNat? edges).map some), nat? p1, nat? p2 with
      | some oids, some edges, some p1, some p2 =>
        (match CommitGraphFmt.decodeParents oids edges p1 p2 with
          | .ok none => "ok ?"
          | .ok (some ps) => s!"ok {showCsvBytes ps}" | .error e => s!"err {e}")
      | _, _, _, _ => "bad-arg"
  | "c14.midx.lookups", [fan, oids, shas] => some <| match csvNat? fan, csvBytes? oids, csvBytes? shas with
      | some fan, some oids, some shas =>
        let os := oids.map natOfBytes
        " ".intercalate (shas.map (fun s =>
          match Midx.lookup fan os (s.headD 0).toNat (natOfBytes s) with
          | .ok none => "none" | .ok (some i) => toString i | .error e => s!"err-{e}"))
      | _, _, _ => "bad-arg"
  | "c14.midx.fanout", [oids] => some <| match csvBytes? oids with
      | some oids => showCsvNat (Midx.writeFanout (oids.map (fun o => (o.headD 0).toNat))) | none => "bad-arg"
  | "c14.midx.offsets", [offs] => some <| match csvNat? offs with
      | some offs =>
        let r := Midx.encodeOffsets offs 0
        let loff := if r.2.isEmpty then none else some r.2
        let dec := r.1.map (fun w => match Midx.decodeOffset w loff with | .ok v => toString v | .error e => s!"err-{e}")
        s!"{showCsvNat r.1} {showCsvNat r.2} {",".intercalate dec}"
      | none => "bad-arg"
  | "c14.midx.decoff", [w, loff] => some <|
      match nat? w, (if loff = "none" then some none else (csvNat? loff).map some) with
      | some w, some loff => (match Midx.decodeOffset w loff with | .ok v => s!"ok {v}" | .error e => s!"err {e}")
      | _, _ => "bad-arg"
  | "c14.refs.read", [loose, packed, name] => some <| match parseMap loose, parseMap packed with
      | some l, some p => (Accel.readRef (mapFn l) (mapFn p) name).getD "none" | _, _ => "bad-arg"
  | "c14.refs.pack", [loose, packed, sel, name] => some <| match parseMap loose, parseMap packed with
      | some l, some p =>
        let selS := sel.splitOn ","
        let r := Accel.packRefs (fun n => selS.contains n) (mapFn l) (mapFn p)
        s!"{(r.1 name).getD "none"} {(r.2 name).getD "none"} {(Accel.readRef r.1 r.2 name).getD "none"}"
      | _, _ => "bad-arg"
  | "c14.reach.collect", [g, common, heads] => some <|
      match parseMap g, csvNat? common, csvNat? heads with
      | some g, some common, some heads =>
        let tbl := g.filterMap (fun (k, v) => match nat? k, csvNat? v with
          | some k, some v => some (k, v) | _, _ => none)
        if tbl.length ≠ g.length then "bad-arg" else
        let parents := fun c => ((tbl.find? (·.1 = c)).map (·.2)).getD []
        let fuel := 4 * (tbl.length + heads.length + 4) * (tbl.length + heads.length + 4)
        let r := Accel.collectAncestors parents common fuel heads []
        showCsvNat (r.toArray.qsort (· < ·)).toList
      | _, _, _ => "bad-arg"
  | "c14.reach.collectsh", [g, common, shallow, heads] => some <|
      match parseMap g, csvNat? common, csvNat? shallow, csvNat? heads with
      | some g, some common, some shallow, some heads =>
        let tbl := g.filterMap (fun (k, v) => match nat? k, csvNat? v with
          | some k, some v => some (k, v) | _, _ => none)
        if tbl.length ≠ g.length then "bad-arg" else
        let parents := fun c => ((tbl.find? (·.1 = c)).map (·.2)).getD []
        let fuel := 4 * (tbl.length + heads.length + 4) * (tbl.length + heads.length + 4)
        let r := Accel.collectAncestorsSh parents common shallow fuel heads []
        showCsvNat (r.toArray.qsort (· < ·)).toList
      | _, _, _, _ => "bad-arg"
  | "c14.gate", [a, b] => some <| match bytes? a, bytes? b with
      | some a, some b => showBool (Accel.bitmapGate a b) | _, _ => "bad-arg"
  | _, _ => none

end DriverC14

def main : IO Unit := DriverUtil.run DriverC14.handle
