/- Line-protocol ops for the pack-ingestion model (C04).

   The model's parameters are instantiated here: the hash is SHA-1 (implemented below, validated against
   hashlib by the `c04.sha1` stream); zlib is a TABLE supplied by the harness with every request — for each
   start position of the given input at which the system zlib finds a complete stream: bytes consumed and
   output (`pos:consumed:outhex`) — so the model decides framing, zlib decides inflation. -/
import DulwichModel.Model.Ingest
import Driver.Util
namespace DriverC04
open Dulwich Dulwich.Ingest DriverUtil

/-! ### SHA-1 (driver side only; no theorem depends on it) -/
namespace Sha1

def rotl (x : UInt32) (n : UInt32) : UInt32 := (x <<< n) ||| (x >>> (32 - n))

def be32 (n : Nat) : Bytes :=
  [UInt8.ofNat (n / 16777216 % 256), UInt8.ofNat (n / 65536 % 256), UInt8.ofNat (n / 256 % 256), UInt8.ofNat (n % 256)]

def pad (msg : Bytes) : Bytes :=
  let l := msg.length
  let k := (119 - l % 64) % 64
  msg ++ [0x80] ++ List.replicate k 0 ++ be32 (l * 8 / 4294967296 % 4294967296) ++ be32 (l * 8 % 4294967296)

def words : Bytes → List UInt32
  | a :: b :: c :: d :: rest =>
    ((a.toUInt32 <<< 24) ||| (b.toUInt32 <<< 16) ||| (c.toUInt32 <<< 8) ||| d.toUInt32) :: words rest
  | _ => []

def schedule (w : Array UInt32) : Array UInt32 := Id.run do
  let mut w := w
  for t in [16:80] do
    w := w.push (rotl (w.getD (t - 3) 0 ^^^ w.getD (t - 8) 0 ^^^ w.getD (t - 14) 0 ^^^ w.getD (t - 16) 0) 1)
  return w

structure St where
  a : UInt32
  b : UInt32
  c : UInt32
  d : UInt32
  e : UInt32

def round (t : Nat) (w : UInt32) (s : St) : St :=
  let fk : UInt32 × UInt32 :=
    if t < 20 then ((s.b &&& s.c) ||| ((~~~ s.b) &&& s.d), 0x5A827999)
    else if t < 40 then (s.b ^^^ s.c ^^^ s.d, 0x6ED9EBA1)
    else if t < 60 then ((s.b &&& s.c) ||| (s.b &&& s.d) ||| (s.c &&& s.d), 0x8F1BBCDC)
    else (s.b ^^^ s.c ^^^ s.d, 0xCA62C1D6)
  { a := rotl s.a 5 + fk.1 + s.e + fk.2 + w, b := s.a, c := rotl s.b 30, d := s.c, e := s.d }

def block (h : St) (blk : Bytes) : St := Id.run do
  let w := schedule (words blk).toArray
  let mut s := h
  for t in [0:80] do
    s := round t (w.getD t 0) s
  return { a := h.a + s.a, b := h.b + s.b, c := h.c + s.c, d := h.d + s.d, e := h.e + s.e }

def blocks : Nat → St → Bytes → St
  | 0, h, _ => h
  | n + 1, h, d => blocks n (block h (d.take 64)) (d.drop 64)

def sha1 (msg : Bytes) : Bytes :=
  let p := pad msg
  let h := blocks (p.length / 64) ⟨0x67452301, 0xEFCDAB89, 0x98BADCFE, 0x10325476, 0xC3D2E1F0⟩ p
  be32 h.a.toNat ++ be32 h.b.toNat ++ be32 h.c.toNat ++ be32 h.d.toNat ++ be32 h.e.toNat

end Sha1

/-! ### zlib as a table -/

structure ZEntry where
  pos : Nat
  consumed : Nat
  out : Bytes

def parseZ (s : String) : Option ZEntry :=
  match s.splitOn ":" with
  | [p, c, o] => do some ⟨← nat? p, ← nat? c, ← bytes? o⟩
  | _ => none

/-- `inflate` for suffixes of an input of length `total`. -/
def tableInflate (total : Nat) (tbl : List ZEntry) : Inflate := fun rest =>
  match tbl.find? (fun z => z.pos + rest.length == total) with
  | none => none
  | some z => some (z.out, rest.drop z.consumed)

/-- `inflate` for suffixes of `inp` (table `t1`) and of the file `extend_pack` turns it into (table `t2`). -/
def tableInflate2 (inp final : Bytes) (t1 t2 : List ZEntry) : Inflate := fun rest =>
  if rest.length ≤ inp.length && rest == inp.drop (inp.length - rest.length) then tableInflate inp.length t1 rest
  else if rest.length ≤ final.length && rest == final.drop (final.length - rest.length) then tableInflate final.length t2 rest
  else none

def splitBar (xs : List String) : List String × List String :=
  (xs.takeWhile (· ≠ "|"), (xs.dropWhile (· ≠ "|")).drop 1)

/-! ### formatting -/

def errStr (e : Err) : String := "err " ++ toString e

def showKind : Kind → String
  | .full ty d => s!"f{ty}:{hex (Sha1.sha1 d)}"
  | .ofs k d => s!"o{k}:{hex (Sha1.sha1 d)}"
  | .ref n d => s!"r{hex n}:{hex (Sha1.sha1 d)}"

def showEntry (e : Entry) : String := s!"{e.off}:{showKind e.kind}"

def showEntries (r : Except Err (List Entry)) : String :=
  match r with
  | .error e => errStr e
  | .ok es => String.intercalate " " (s!"ok {es.length}" :: es.map showEntry)

def splitList (s : String) : List String := if s = "-" then [] else s.splitOn ","

/-- store objects `ty:datahex[:zlibhex],…` named by SHA-1 as the real store would; the optional third field is
`zlib.compress(data)` at the store's level (the `deflate` parameter, needed when the object is appended to a thin pack) -/
def parseStoreZ (s : String) : Option (List (Obj × Bytes)) :=
  (splitList s).mapM fun t =>
    match t.splitOn ":" with
    | [ty, d] => do
      let ty ← nat? ty
      let d ← bytes? d
      some (← mkObj Sha1.sha1 ty d, [])
    | [ty, d, z] => do
      let ty ← nat? ty
      let d ← bytes? d
      some (← mkObj Sha1.sha1 ty d, ← bytes? z)
    | _ => none

def parseStore (s : String) : Option Store := (parseStoreZ s).map (·.map (·.1))

def tableDeflate (sz : List (Obj × Bytes)) : Bytes → Bytes := fun d =>
  match sz.find? (fun p => p.1.data == d) with
  | some p => p.2
  | none => []

def insertName (x : Bytes) : List Bytes → List Bytes
  | [] => [x]
  | y :: ys => if x == y then y :: ys else if bytesLt x y then x :: y :: ys else y :: insertName x ys

def sortedNames (s : Store) : String :=
  let ns := s.foldl (fun acc o => insertName o.name acc) []
  if ns.isEmpty then "-" else String.intercalate "," (ns.map hex)

def showYield (o : Obj) : String :=
  if o.ty == Gen.Ingest.blobType then s!"{o.ty}:{hex o.name}" else s!"{o.ty}:{hex o.name}:{hex o.data}"

def fsOpName : FsOp → String
  | .createTmp => "createTmp" | .writeTmp => "writeTmp" | .renameTmpToPack => "renameTmpToPack"
  | .openIdxLock => "openIdxLock" | .renameIdxLock => "renameIdxLock" | .removePack => "removePack"
  | .removeIdx => "removeIdx" | .removeTmp => "removeTmp" | .abortIdxLock => "abortIdxLock"

def parseIdx (s : String) : Option (List (Bytes × Nat)) :=
  (splitList s).mapM fun t =>
    match t.splitOn "=" with
    | [n, o] => do some (← bytes? n, ← nat? o)
    | _ => none

def handle (op : String) (args : List String) : Option String :=
  match op, args with
  | "c04.sha1", [h] => some <| match bytes? h with
      | some b => hex (Sha1.sha1 b) | none => "bad-arg"
  | "c04.parse", variant :: h :: tbl => some <| match bytes? h, tbl.mapM parseZ with
      | some inp, some tbl =>
        let inf := tableInflate inp.length tbl
        if variant = "stream" then showEntries (parsePackStream inf Sha1.sha1 inp)
        else if variant = "data" then showEntries (parsePackData inf inp)
        else "bad-arg"
      | _, _ => "bad-arg"
  | "c04.final", path :: h :: store :: tbl => some <|
      -- the file `_complete_pack` installs, if the first pass of a disk ingest succeeds (the harness then supplies
      -- zlib's behaviour on THAT file as the second table of `c04.ingest`)
      match bytes? h, parseStoreZ store, tbl.mapM parseZ with
      | some inp, some sz, some t1 =>
        let s : Store := sz.map (·.1)
        let inf := tableInflate inp.length t1
        let p? : Option Path := if path = "thin" then some .thin else if path = "addpack" then some .addPack else none
        match p? with
        | none => "bad-arg"
        | some p =>
          match diskFirstPass Cfg.current inf Sha1.sha1 p s inp with
          | .ok (some (file, _, bases)) => "final " ++ hex (extendPack Sha1.sha1 (tableDeflate sz) file bases)
          | _ => "-"
      | _, _, _ => "bad-arg"
  | "c04.ingest", kind :: path :: h :: store :: invalid :: tbl => some <|
      match bytes? h, parseStoreZ store, (splitList invalid).mapM bytes?, (splitBar tbl).1.mapM parseZ, (splitBar tbl).2.mapM parseZ with
      | some inp, some sz, some inv, some t1, some t2 =>
        let s : Store := sz.map (·.1)
        let valid := fun (o : Obj) => !(inv.contains o.name)
        let p? : Option Path := if path = "thin" then some .thin else if path = "addpack" then some .addPack else none
        match p? with
        | none => "bad-arg"
        | some p =>
          let inf1 := tableInflate inp.length t1
          let final := match diskFirstPass Cfg.current inf1 Sha1.sha1 p s inp with
            | .ok (some (file, _, bases)) => extendPack Sha1.sha1 (tableDeflate sz) file bases
            | _ => []
          let inf := tableInflate2 inp final t1 t2
          let r := if kind = "disk" then some (ingestDisk inf Sha1.sha1 (tableDeflate sz) valid p s inp)
                   else if kind = "mem" then some (ingestMem inf Sha1.sha1 valid p s inp) else none
          match r with
          | none => "bad-arg"
          | some (s', e) =>
            -- the yields (for the harness' validity pass): what forward chaining produced, in order
            let ys := match (match p with | .thin => parsePackStream inf Sha1.sha1 inp | .addPack => parsePackData inf inp) with
              | .ok es => (resolveAll Cfg.current.rejectDeltaCycles Sha1.sha1 (if kind = "disk" then fun _ => true else valid) s.lookup es).objs
              | .error _ => []
            let st := match e with | none => "ok" | some e => errStr e
            let yl := if ys.isEmpty then "-" else String.intercalate "," (ys.map showYield)
            s!"{st} names={sortedNames s'} yields={yl}"
      | _, _, _, _, _ => "bad-arg"
  | "c04.resolveat", h :: idx :: ext :: name :: fuel :: tbl => some <|
      match bytes? h, parseIdx idx, parseStore ext, bytes? name, nat? fuel, tbl.mapM parseZ with
      | some inp, some idx, some ext, some name, some fuel, some tbl =>
        let inf := tableInflate inp.length tbl
        let entryAt : Nat → Except Err Kind := entryAtOf inf inp
        let idxf := fun (n : Bytes) => (idx.find? (fun p => p.1 == n)).map (·.2)
        match idxf name with
        | none => "err key"
        | some off =>
          match resolveAt entryAt idxf (Store.lookup ext) fuel off with
          | none => "fuel"
          | some (.error e) => errStr e
          | some (.ok (ty, d)) => s!"ok {ty} {hex (Sha1.sha1 d)}"
      | _, _, _, _, _, _ => "bad-arg"
  | "c04.refscache", n :: e :: ops => some <|
      -- a packed-refs file whose parse yields `n` entries and then (e = 1) an error; `g` = get_packed_refs, `a` = a rewrite
      -- adding one new ref; answers `ok <count>` / `err` per op
      match nat? n, nat? e with
      | some n, some e =>
        let ent := fun (i : Nat) => (⟨[UInt8.ofNat i], [], none⟩ : RefEntry)
        let file0 : Option RFile := some ⟨(List.range n).map ent, if e = 0 then none else some .format, 1⟩
        let step := fun (st : Option RFile × RCache × Nat × List String) (op : String) =>
          let (file, c, k, out) := st
          if op = "g" then
            match getPackedNow file c with
            | (.ok r, c') => (file, c', k, out ++ [s!"ok {r.length}"])
            | (.error _, c') => (file, c', k, out ++ ["err"])
          else
            match rewritePackedNow file c (k + 1) (fun r => r ++ [ent (100 + k)]) with
            | (.ok _, file', c') => (file', c', k + 1, out ++ ["done"])
            | (.error _, file', c') => (file', c', k, out ++ ["err"])
        let (_, _, _, out) := ops.foldl step (file0, RCache.empty, 1, [])
        String.intercalate " | " out
      | _, _ => "bad-arg"
  | "c04.fsprog", [path, fail] => some <|
      let f? : Option FailAt := if fail = "never" then some .never else if fail = "copy" then some .copy
        else if fail = "validate" then some .validate else if fail = "validatezlib" then some .validateZlib else none
      match f? with
      | none => "bad-arg"
      | some f =>
        let prog? := if path = "thin" then some (diskProgram .thin f) else if path = "addpack" then some (diskProgram .addPack f)
          else if path = "abort" then some abortProgram else none
        match prog? with
        | none => "bad-arg"
        | some prog =>
          let final := runOps {} prog
          String.intercalate " " (prog.map fsOpName) ++
            s!" | visible={showBool final.visible} tmp={showBool final.tmp} pack={showBool final.pack} idx={showBool final.idx}"
  | _, _ => none

end DriverC04

def main : IO Unit := DriverUtil.run DriverC04.handle
