/- Line-protocol ops for the index-file model (C11).

   Tokens (no spaces inside a token):
     time   := t<nat> | <sec>,<nsec>
     entry  := <name-hex>:<ctime>:<mtime>:<dev>:<ino>:<mode>:<uid>:<gid>:<size>:<sha-hex>:<flags>:<ext>
     item   := <key-hex>|N|<entry>  |  <key-hex>|C|<entry or _>|<entry or _>|<entry or _>
     ext    := <sig-hex>:<data-hex>
     ver    := <nat> | -            (- = None)
-/
import DulwichModel.Model.Index
import Driver.Util
namespace DriverC11
open Dulwich Dulwich.Index DriverUtil

def parseTime (s : String) : Option Time :=
  if s.startsWith "t" then (nat? (s.drop 1).toString).map Time.int
  else match s.splitOn "," with
    | [a, b] => do some (.pair (← nat? a) (← nat? b))
    | _ => none

def showTime : Time → String
  | .int t => s!"t{t}"
  | .pair s n => s!"{s},{n}"

def parseEntry (s : String) : Option Entry :=
  match s.splitOn ":" with
  | [name, ct, mt, dev, ino, mode, uid, gid, size, sha, flags, ext] => do
    some { name := ← bytes? name, ctime := ← parseTime ct, mtime := ← parseTime mt,
           dev := ← nat? dev, ino := ← nat? ino, mode := ← nat? mode, uid := ← nat? uid,
           gid := ← nat? gid, size := ← nat? size, sha := ← bytes? sha, flags := ← nat? flags,
           ext := ← nat? ext }
  | _ => none

def showEntry (e : Entry) : String :=
  s!"{hex e.name}:{showTime e.ctime}:{showTime e.mtime}:{e.dev}:{e.ino}:{e.mode}:{e.uid}:{e.gid}:{e.size}:{hex e.sha}:{e.flags}:{e.ext}"

def parseOptEntry (s : String) : Option (Option Entry) :=
  if s = "_" then some none else (parseEntry s).map some

def showOptEntry : Option Entry → String
  | none => "_"
  | some e => showEntry e

def parseItem (s : String) : Option (Bytes × Val) :=
  match s.splitOn "|" with
  | [k, "N", e] => do some (← bytes? k, .normal (← parseEntry e))
  | [k, "C", a, t, o] => do
    some (← bytes? k, .conflict (← parseOptEntry a) (← parseOptEntry t) (← parseOptEntry o))
  | _ => none

def showItem (kv : Bytes × Val) : String :=
  match kv.2 with
  | .normal e => s!"{hex kv.1}|N|{showEntry e}"
  | .conflict a t o => s!"{hex kv.1}|C|{showOptEntry a}|{showOptEntry t}|{showOptEntry o}"

def parseExt (s : String) : Option Ext :=
  match s.splitOn ":" with
  | [a, b] => do some (← bytes? a, ← bytes? b)
  | _ => none

def showExt (x : Ext) : String := s!"{hex x.1}:{hex x.2}"

def parseVer (s : String) : Option (Option Nat) :=
  if s = "-" then some none else (nat? s).map some

def showR (r : R Bytes) : String :=
  match r with
  | .ok b => "ok " ++ hex b
  | .error e => "err " ++ toString e

def showRead (r : R (Dict × Nat × List Ext)) : String :=
  match r with
  | .error e => "err " ++ toString e
  | .ok (d, v, xs) =>
    s!"ok {v} {d.length}" ++ String.join (d.map fun kv => " " ++ showItem kv) ++ s!" {xs.length}" ++
      String.join (xs.map fun x => " " ++ showExt x)

/-- `mode nexts ext… item…` -/
def splitExtsItems (n : Nat) (rest : List String) : Option (List Ext × Dict) := do
  if rest.length < n then none
  let xs ← (rest.take n).mapM parseExt
  let items ← (rest.drop n).mapM parseItem
  some (xs, items)

def handle (op : String) (args : List String) : Option String :=
  match op, args with
  | "c11.encvarint", [n] => some <| match nat? n with
      | some n => hex (encodeVarint n) | none => "bad-arg"
  | "c11.decvarint", [h] => some <| match bytes? h with
      | some d => (match decodeVarint d with
          | .ok (n, r) => s!"ok {n} {hex r}" | .error e => s!"err {e}")
      | none => "bad-arg"
  | "c11.readvarint", [h] => some <| match bytes? h with
      | some d => (match readVarint d with
          | .ok (n, r) => s!"ok {n} {hex r}" | .error e => s!"err {e}")
      | none => "bad-arg"
  | "c11.gitencvarint", [n] => some <| match nat? n with
      | some n => hex (gitEncodeVarint n) | none => "bad-arg"
  | "c11.gitdecvarint", [h] => some <| match bytes? h with
      | some d => (match gitDecodeVarint d with
          | some (n, r) => s!"ok {n} {hex r}" | none => "none")
      | none => "bad-arg"
  | "c11.compress", [p, q] => some <| match bytes? p, bytes? q with
      | some p, some q => hex (compressPath p q) | _, _ => "bad-arg"
  | "c11.decompress", [q, d] => some <| match bytes? q, bytes? d with
      | some q, some d => (match decompressPathStream q d with
          | .ok (p, r) => s!"ok {hex p} {hex r}" | .error e => s!"err {e}")
      | _, _ => "bad-arg"
  | "c11.decompress2", [q, d] => some <| match bytes? q, bytes? d with
      | some q, some d => (match decompressPath q d with
          | .ok (p, r) => s!"ok {hex p} {hex r}" | .error e => s!"err {e}")
      | _, _ => "bad-arg"
  | "c11.wentry", [v, q, e] => some <| match nat? v, bytes? q, parseEntry e with
      | some v, some q, some e => showR (writeCacheEntry v q e) | _, _, _ => "bad-arg"
  | "c11.rentry", [v, q, d] => some <| match nat? v, bytes? q, bytes? d with
      | some v, some q, some d => (match readCacheEntry v q d with
          | .ok (e, r) => s!"ok {showEntry e} {hex r}" | .error e => s!"err {e}")
      | _, _, _ => "bad-arg"
  -- mode: 0 = write_index_dict (no trailer, extensions as given), 1 = Index.write, 2 = Index.write skip_hash
  | "c11.windex", mode :: ver :: n :: rest => some <|
      match nat? mode, parseVer ver, nat? n with
      | some mode, some ver, some n =>
        (match splitExtsItems n rest with
         | some (xs, items) =>
           if mode = 0 then showR (writeIndexDict ver items xs)
           else if mode = 1 then showR (indexWrite Sha1.sha1 false ver items xs)
           else if mode = 2 then showR (indexWrite Sha1.sha1 true ver items xs)
           else "bad-arg"
         | none => "bad-arg")
      | _, _, _ => "bad-arg"
  | "c11.rindex", [h] => some <| match bytes? h with
      | some d => showRead (indexRead Sha1.sha1 d) | none => "bad-arg"
  | "c11.sha1", [h] => some <| match bytes? h with
      | some d => hex (Sha1.sha1 d) | none => "bad-arg"
  | "c11.fromstat", [c, m, dev, ino, mode, uid, gid, size] => some <|
      match nat? c, nat? m, nat? dev, nat? ino, nat? mode, nat? uid, nat? gid, nat? size with
      | some c, some m, some dev, some ino, some mode, some uid, some gid, some size =>
        showEntry (entryFromStat c m dev ino mode uid gid size [])
      | _, _, _, _, _, _, _, _ => "bad-arg"
  | "c11.timespec", [n] => some <| match int? n with
      | some ns =>
        let t := timespecOfNs ns
        let w := timeWords t
        s!"{t.1} {t.2} {w.1} {w.2}"
      | none => "bad-arg"
  | "c11.sort", keys => some <| match keys.mapM bytes? with
      | some ks =>
        let d : Dict := ks.map fun k => (k, Val.conflict none none none)
        String.intercalate " " ((sortDict d).map fun kv => hex kv.1)
      | none => "bad-arg"
  | _, _ => none

end DriverC11

def main : IO Unit := DriverUtil.run DriverC11.handle
