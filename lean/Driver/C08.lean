/- Line-protocol driver for the ref-update transition system (C08).

   c08.run <variant> <order> <heads> <nrefs> <init> <actors> <schedule>
     variant   coded | repaired | v:<rmLooseFirst>:<packLooseFirst>:<addChecksName>:<commitReads>[:<packRecheck>]
     order     0,1,2            iteration order of a Python set of ref names
     heads     1,2              refs living in refs/heads
     nrefs     3                refs 0..nrefs-1 are printed in the final state
     init      pf0|0=@1/s2|1=s5/s1    packed-refs file exists?; per ref loose/packed (sN sha, @N symref, - none)
     actors    cas:1:s1:s5+read:1/pack   actors separated by '/', operations of one actor by '+'
     schedule  0,1,1,0 (or -)  actor released at each step; finished actors are skipped; afterwards the
                               lowest-numbered unfinished actor runs
   → <events> # <outcomes> # <final state>
   c08.mem <reads> <init> <cids> <schedule>   the abstract commit protocol over an atomic register
-/
import DulwichModel.Model.RefsFS
import Driver.Util
namespace DriverC08
open Dulwich Dulwich.RefsFS DriverUtil

def splitNonEmpty (s : String) (sep : String) : List String :=
  if s = "-" ∨ s = "" then [] else (s.splitOn sep).filter (· ≠ "")

def natList? (s : String) : Option (List Nat) := (splitNonEmpty s ",").mapM nat?

def val? (s : String) : Option (Option Val) :=
  if s = "-" then some none
  else if s.startsWith "s" then (nat? (s.drop 1).toString).map fun n => some (.sha n)
  else if s.startsWith "@" then (nat? (s.drop 1).toString).map fun n => some (.sym n)
  else none

def showVal : Option Val → String
  | none => "-"
  | some (.sha n) => s!"s{n}"
  | some (.sym r) => s!"@{r}"

/-- old value of a conditional op: `*` unconditional, `Z` ZERO_SHA, else a value -/
def old? (s : String) : Option (Option (Option Val)) :=
  if s = "*" then some none
  else if s = "Z" then some (some none)
  else match val? s with
    | some (some v) => some (some (some v))
    | _ => none

def op? (s : String) : Option Op :=
  match s.splitOn ":" with
  | ["read", r] => do some (.read (← nat? r))
  | ["get", r] => do some (.get (← nat? r))
  | ["cas", r, o, n] => do
      let v ← val? n
      match v with
      | some v => some (.cas (← nat? r) (← old? o) v)
      | none => none
  | ["add", r, n] => do
      match ← val? n with
      | some v => some (.add (← nat? r) v)
      | none => none
  | ["rm", r, o] => do some (.rm (← nat? r) (← old? o))
  | ["symref", r, t] => do some (.symref (← nat? r) (← nat? t))
  | ["pack"] => some .pack
  | ["unpack", r] => do some (.unpack (← nat? r))
  | ["list"] => some .list
  | ["keys"] => some .keys
  | ["commit", r, c] => do some (.commit (← nat? r) (← nat? c))
  | ["commit1", r, c] => do some (.commit1 (← nat? r) (← nat? c))
  | _ => none

def variant? (s : String) : Option Variant :=
  if s = "coded" then some Variant.coded
  else if s = "repaired" then some Variant.repaired
  else match s.splitOn ":" with
    | ["v", a, b, c, d] => do
        some { rmLooseFirst := ← bool? a, packRemovesLooseFirst := ← bool? b, addChecksName := ← bool? c,
               commitReads := ← nat? d }
    | ["v", a, b, c, d, e] => do
        some { rmLooseFirst := ← bool? a, packRemovesLooseFirst := ← bool? b, addChecksName := ← bool? c,
               commitReads := ← nat? d, packRecheck := ← bool? e }
    | _ => none

structure Init where
  pf : Bool
  refs : List (Ref × Option Val × Option Sha)

def init? (s : String) : Option Init :=
  match s.splitOn "|" with
  | [] => none
  | pf :: rest => do
    let pf ← if pf = "pf1" then some true else if pf = "pf0" then some false else none
    let refs ← rest.mapM fun e =>
      match e.splitOn "=" with
      | [r, lp] =>
        match lp.splitOn "/" with
        | [l, p] => do
          let pv ← val? p
          let ps ← match pv with
            | none => some none
            | some (.sha n) => some (some n)
            | some (.sym _) => none
          some (← nat? r, ← val? l, ps)
        | _ => none
      | _ => none
    some { pf := pf, refs := refs }

def Init.fs (i : Init) : FS :=
  let loose : Ref → Option Val := fun r => (i.refs.lookup r).bind (·.1)
  let pm : PMap := i.refs.filterMap fun e => e.2.2.map fun s => (e.1, s)
  FS.init loose (if i.pf || !pm.isEmpty then some pm else none)

def sb (b : Bool) (t f : String) : String := if b then t else f
def so {α : Type} (o : Option α) : String := match o with | some _ => "ok" | none => "enoent"

def showCall : (c : Call) → ResT c → String
  | .start, _ => "start::ok"
  | .openR r, res => s!"openr:{r}:" ++ so (α := Val) res
  | .statR r, res => s!"stat:{r}:" ++ sb res "ok" "enoent"
  | .lstatR r, res => s!"lstat:{r}:" ++ sb res "ok" "enoent"
  | .openX r, res => s!"openx:{r}:" ++ sb res "ok" "eexist"
  | .fsyncL r, _ => s!"fsync:{r}:ok"
  | .replaceL r _, _ => s!"replace:{r}:ok"
  | .removeL r, _ => s!"rmlock:{r}:ok"
  | .removeR r, res => s!"rm:{r}:" ++ sb res "ok" "enoent"
  | .statP, res => "statp::" ++ so (α := Nat) res
  | .openRP, res => "openrp::" ++ so (α := Nat × PMap) res
  | .openXP, res => "openxp::" ++ sb res "ok" "eexist"
  | .fsyncP, _ => "fsyncp::ok"
  | .replaceP _, _ => "replacep::ok"
  | .removeLP, _ => "rmlockp::ok"
  | .scan, _ => "scan::ok"

def showExc : Exc → String
  | .locked => "locked" | .key => "key" | .symloop => "symloop" | .commit => "commit"
  | .notfound => "notfound"

def showOutcome : Outcome → String
  | .unit => "none"
  | .bool b => if b then "T" else "F"
  | .val v => "v:" ++ showVal v
  | .dict d => "dict:" ++ ",".intercalate (d.map fun e => s!"{e.1}={showVal (some e.2)}")
  | .keys l => "keys:" ++ ",".intercalate (l.map toString)
  | .committed c p => s!"commit:{c}:" ++ (match p with | some p => toString p | none => "-")
  | .exc e => "exc:" ++ showExc e

/-- one step with its printable label -/
def stepShow (env : Env) (vr : Variant) (cfg : Config) (a : Actor) : Option (Config × String) :=
  match cfg.actors[a]? with
  | none => none
  | some st =>
    match st.prog with
    | .ret _ _ => none
    | .call c k =>
      let r := exec env cfg.fs a c
      let st' := settle env vr st.todo (k r.2) st.outs
      some ({ fs := r.1, actors := cfg.actors.set a st' }, s!"{a}:" ++ showCall c r.2)

def firstUnfinished (cfg : Config) : Option Actor :=
  (List.range cfg.actors.length).find? fun a =>
    match cfg.actors[a]? with
    | some st => !st.finished
    | none => false

partial def drain (env : Env) (vr : Variant) (cfg : Config) (acc : Array String) : Config × Array String :=
  match firstUnfinished cfg with
  | none => (cfg, acc)
  | some a =>
    match stepShow env vr cfg a with
    | some (cfg', l) => drain env vr cfg' (acc.push l)
    | none => (cfg, acc)

def runShow (env : Env) (vr : Variant) (cfg : Config) (sched : List Actor) : Config × Array String := Id.run do
  let mut cfg := cfg
  let mut acc : Array String := #[]
  for a in sched do
    match stepShow env vr cfg a with
    | some (cfg', l) =>
      cfg := cfg'
      acc := acc.push l
    | none => pure ()
  drain env vr cfg acc

def showFinal (cfg : Config) (nrefs : Nat) : String :=
  let refs := (List.range nrefs).map fun r =>
    let p : Option Val := match cfg.fs.packed with
      | some (_, m) => (pmGet m r).map Val.sha
      | none => none
    s!"{r}={showVal (cfg.fs.loose r)}/{showVal p}"
  let locks := (List.range nrefs).filter fun r => (cfg.fs.lock r).isSome
  "|".intercalate refs ++ " locks=" ++ ",".intercalate (locks.map toString) ++
    (if cfg.fs.plock.isSome then ",P" else "") ++ (if cfg.fs.packed.isSome then " pf1" else " pf0")


/-! the abstract commit protocol (MemoryRepo.do_commit over DictRefsContainer) -/
open Proto in
def memShowEv (a : Nat) : PEvent → String
  | .read => s!"{a}:mread::ok"
  | .cas _ => s!"{a}:mcas::ok"
  | .add _ => s!"{a}:madd::ok"

open Proto in
partial def memDrain (reads : Nat) (s : PState) (acc : Array String) : PState × Array String :=
  let next := (List.range s.actors.length).find? fun a =>
    match s.actors[a]? with
    | some st => (match st.pc with | .done _ _ => false | _ => true)
    | none => false
  match next with
  | none => (s, acc)
  | some a =>
    match pstep reads s a with
    | some (s', e) => memDrain reads s' (acc.push (memShowEv a e))
    | none => (s, acc)

open Proto in
def memRun (reads : Nat) (s : PState) (sched : List Nat) : PState × Array String := Id.run do
  let mut s := s
  let mut acc : Array String := #[]
  let mut started : List Nat := []
  for a in sched do
    -- the scheduler's first release of an actor is its `start` step (no call)
    if !started.contains a then
      started := a :: started
    else
      match pstep reads s a with
      | some (s', e) =>
        s := s'
        acc := acc.push (memShowEv a e)
      | none => pure ()
  memDrain reads s acc

open Proto in
def memOutcome (st : PActor) : String :=
  match st.pc with
  | .done true p => s!"commit:{st.cid}:" ++ (match p with | some p => toString p | none => "-")
  | .done false _ => "exc:commit"
  | _ => "unfinished"

def handle (op : String) (args : List String) : Option String :=
  match op, args with
  | "c08.run", [v, order, heads, nrefs, init, actors, sched] => some <|
    match variant? v, natList? order, natList? heads, nat? nrefs, init? init,
          (splitNonEmpty actors "/").mapM (fun a => (splitNonEmpty a "+").mapM op?), natList? sched with
    | some vr, some order, some heads, some nrefs, some init, some progs, some sched =>
      let env : Env := { heads := heads, order := order }
      let cfg := Config.init env vr init.fs progs
      let (cfg', ev) := runShow env vr cfg sched
      let outs := (List.range progs.length).map fun a => "+".intercalate ((cfg'.outs a).map showOutcome)
      ";".intercalate (ev.toList.filter fun e => !e.endsWith ":start::ok") ++ " # " ++
        "/".intercalate outs ++ " # " ++ showFinal cfg' nrefs
    | _, _, _, _, _, _, _ => "bad-arg"
  | "c08.mem", [reads, init, cids, sched] => some <|
    match (if reads = "coded" then some Gen.RefsFS.memoryCommitHeadReads else nat? reads), val? init, natList? cids,
          natList? sched with
    | some reads, some init, some cids, some sched =>
      let reg : Option Sha := match init with
        | some (.sha n) => some n
        | _ => none
      let (s, ev) := memRun reads (Proto.PState.init reg cids) sched
      ";".intercalate ev.toList ++ " # " ++ "/".intercalate (s.actors.map memOutcome) ++ " # " ++
        (match s.reg with | some n => s!"s{n}" | none => "-")
    | _, _, _, _ => "bad-arg"
  | _, _ => none

end DriverC08

def main : IO Unit := DriverUtil.run DriverC08.handle
