/- Line-protocol ops for the path-safety / checkout model (C17). -/
import DulwichModel.Model.PathSafe
import Driver.Util
namespace DriverC17
open Dulwich Dulwich.PathSafe DriverUtil

/-- `<filtered>=<folded>` (hex of UTF-8) pairs: the value of the `fold` parameter on the inputs that occur,
computed by the harness with the real `unicodedata`. -/
def parseFold (args : List String) : Option (List (List Nat × List Nat)) :=
  args.mapM fun a =>
    match a.splitOn "=" with
    | [k, v] => do
      let k ← bytes? k
      let v ← bytes? v
      some (← utf8Decode k, ← utf8Decode v)
    | _ => none

def foldOf (tbl : List (List Nat × List Nat)) (cs : List Nat) : List Nat :=
  match tbl.find? (fun p => p.1 == cs) with
  | some p => p.2
  | none => foldAscii cs

def validator? (s : String) : Option Validator :=
  match s with
  | "d" => some .default | "n" => some .ntfs | "h" => some .hfs | "b" => some .both | _ => none

def handle (op : String) (args : List String) : Option String :=
  match op, args with
  | "c17.elem", v :: h :: tbl => some <| match validator? v, bytes? h, parseFold tbl with
      | some v, some e, some tbl => showBool (v.run (foldOf tbl) e)
      | _, _, _ => "bad-arg"
  | "c17.path", v :: h :: tbl => some <| match validator? v, bytes? h, parseFold tbl with
      | some v, some p, some tbl => showBool (validatePath (v.run (foldOf tbl)) p)
      | _, _, _ => "bad-arg"
  | "c17.hfsfilter", [h] => some <| match bytes? h with
      | some e => (match utf8Decode e with
          | some cs => "ok " ++ hex (utf8Encode (hfsFilter cs))
          | none => "err")
      | none => "bad-arg"
  | "c17.dotgit", [h] => some <| match bytes? h with
      | some e => showBool (isNtfsDotgit e) | none => "bad-arg"
  | "c17.select", [a, b] => some <| match bool? a, bool? b with
      | some a, some b => (match select a b with
          | .default => "d" | .ntfs => "n" | .hfs => "h" | .both => "b")
      | _, _ => "bad-arg"
  | "c17.cleanup", [m] => some <| match nat? m with
      | some m => toString (cleanupMode m) | none => "bad-arg"
  | _, _ => none

end DriverC17

def main : IO Unit := DriverUtil.run DriverC17.handle
