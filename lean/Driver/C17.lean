/- Line-protocol ops for the path-safety / checkout model (C17). -/
import DulwichModel.Model.PathSafe
import DulwichModel.Model.Checkout
import Driver.Util
namespace DriverC17
open Dulwich Dulwich.PathSafe Dulwich.Checkout DriverUtil

/-- `<filtered>=<folded>` (hex of UTF-8) pairs: the value of the `fold` parameter on the inputs that occur,
computed by the harness with the real `unicodedata`. -/
def parseFold (args : List String) : Option (List (List Nat × List Nat)) :=
  args.mapM fun a =>
    match a.splitOn "=" with
    | [k, v] => do
      let k ← bytes? k
      let v ← bytes? v
      some (← utf8Decode k, ← utf8Decode v)
    | _ => none

def foldOf (tbl : List (List Nat × List Nat)) (cs : List Nat) : List Nat :=
  match tbl.find? (fun p => p.1 == cs) with
  | some p => p.2
  | none => foldAscii cs

def validator? (s : String) : Option Validator :=
  match s with
  | "d" => some .default | "n" => some .ntfs | "h" => some .hfs | "b" => some .both | _ => none

/-! checkout model: `c17.bift <validator> <root> <nfs> <node>… <nent> <entry>… <query>…`
  root / node paths / queries: hex of the `/`-joined physical path from the sandbox root;
  node = `<path>:d` | `<path>:f:<mode>:<content>` | `<path>:l:<target>`; entry = `<path>:<mode>:<content>`. -/

def ppath? (h : String) : Option PPath := do
  let b ← bytes? h
  some (if b.isEmpty then [] else splitOn 47 b)

def node? (s : String) : Option (PPath × Node) :=
  match s.splitOn ":" with
  | [p, "d"] => do some (← ppath? p, .dir)
  | [p, "f", m, c] => do some (← ppath? p, .file (← bytes? c) (← nat? m))
  | [p, "l", t] => do some (← ppath? p, .link (← bytes? t))
  | _ => none

def entry? (s : String) : Option Entry :=
  match s.splitOn ":" with
  | [p, m, c] => do some { path := ← bytes? p, mode := ← nat? m, content := ← bytes? c }
  | _ => none

def showPPath (p : PPath) : String := hex (p.foldl (fun acc c => if acc.isEmpty then c else acc ++ [47] ++ c) [])

def showNode : Option Node → String
  | none => "-"
  | some .dir => "d"
  | some (.file c m) => s!"f:{m}:{hex c}"
  | some (.link t) => s!"l:{hex t}"

def dedup (l : List PPath) : List PPath := l.foldl (fun acc p => if acc.contains p then acc else acc ++ [p]) []

def runBift (v : Validator) (root : PPath) (nodes : List (PPath × Node)) (entries : List Entry)
    (queries : List PPath) : String :=
  let fs : FS := nodes.foldl (fun fs pn => fs.set pn.1 (some pn.2)) (fun _ => none)
  let (st, err) := buildIndexFromTree (v.run foldAscii) root entries fs
  let status := match err with | none => "ok" | some e => e.toString
  let qs := dedup (queries ++ st.log.map Mut.target)
  let body := qs.map (fun p => showPPath p ++ "=" ++ showNode (st.fs p))
  let safe := hex (st.safe.foldl (fun acc c => if acc.isEmpty then c else acc ++ [47] ++ c) [])
  status ++ " " ++ toString st.log.length ++ " " ++ safe ++ " " ++ " ".intercalate body

/-- `c17.del <validator> <root> <nfs> <node>… <path> <query>…`: one `CHANGE_DELETE` of update_working_tree -/
def runDel (v : Validator) (root : PPath) (nodes : List (PPath × Node)) (path : Bytes) (queries : List PPath) : String :=
  let fs : FS := nodes.foldl (fun fs pn => fs.set pn.1 (some pn.2)) (fun _ => none)
  let (st, err) := deleteOld (v.run foldAscii) root path { fs := fs, log := [], safe := [] }
  let status := match err with | none => "ok" | some e => e.toString
  let qs := dedup (queries ++ st.log.map Mut.target)
  let body := qs.map (fun p => showPPath p ++ "=" ++ showNode (st.fs p))
  status ++ " " ++ toString st.log.length ++ " " ++ " ".intercalate body

/-- emptiness of a directory on the driver's finite file system: no candidate path directly below `p` exists -/
def isEmptyIn (cand : List PPath) (fs : FS) (p : PPath) : Bool :=
  cand.all fun q => !(q != [] && q.dropLast == p && (fs q).isSome)

def prefixesOf (root : PPath) (comps : List Name) : List PPath :=
  (List.range (comps.length + 1)).map fun i => root ++ comps.take i

/-- `c17.uwtw <validator> <root> <nfs> <node>… <nent> <entry>… <query>…`: the write phase of update_working_tree -/
def runUwtWrite (v : Validator) (root : PPath) (nodes : List (PPath × Node)) (entries : List Entry)
    (queries : List PPath) : String :=
  let fs : FS := nodes.foldl (fun fs pn => fs.set pn.1 (some pn.2)) (fun _ => none)
  let cand := dedup (nodes.map (·.1) ++ queries ++ entries.flatMap (fun e => prefixesOf root (splitOn 47 e.path ++ [dotGit])))
  let (st, err) := uwtPhaseAllG Gen.PathSafe.uwtFreshCache Gen.PathSafe.gitlinkDirTestFollows (isEmptyIn cand)
    (v.run foldAscii) root entries
    { fs := fs, log := [], safe := [] }
  let status := match err with | none => "ok" | some e => e.toString
  let qs := dedup (queries ++ st.log.map Mut.target)
  let body := qs.map (fun p => showPPath p ++ "=" ++ showNode (st.fs p))
  status ++ " " ++ toString st.log.length ++ " " ++ " ".intercalate body

/-- `c17.sparse <validator> <root> <nfs> <node>… <nent> <entry>:<0|1 excluded>… <query>…`: step 2 of apply_included_paths -/
def sparseEntry? (s : String) : Option (Entry × Bool) :=
  match s.splitOn ":" with
  | [p, m, c, x] => do some ({ path := ← bytes? p, mode := ← nat? m, content := ← bytes? c }, ← bool? x)
  | _ => none

def runSparse (v : Validator) (root : PPath) (nodes : List (PPath × Node)) (entries : List (Entry × Bool))
    (queries : List PPath) : String :=
  let fs : FS := nodes.foldl (fun fs pn => fs.set pn.1 (some pn.2)) (fun _ => none)
  let (st, err) := sparseApply (v.run foldAscii) root entries { fs := fs, log := [], safe := [] }
  let status := match err with | none => "ok" | some e => e.toString
  let qs := dedup (queries ++ st.log.map Mut.target)
  let body := qs.map (fun p => showPPath p ++ "=" ++ showNode (st.fs p))
  status ++ " " ++ toString st.log.length ++ " " ++ " ".intercalate body

def handle (op : String) (args : List String) : Option String :=
  match op, args with
  | "c17.elem", v :: h :: tbl => some <| match validator? v, bytes? h, parseFold tbl with
      | some v, some e, some tbl => showBool (v.run (foldOf tbl) e)
      | _, _, _ => "bad-arg"
  | "c17.path", v :: h :: tbl => some <| match validator? v, bytes? h, parseFold tbl with
      | some v, some p, some tbl => showBool (validatePath (v.run (foldOf tbl)) p)
      | _, _, _ => "bad-arg"
  | "c17.hfsfilter", [h] => some <| match bytes? h with
      | some e => (match utf8Decode e with
          | some cs => "ok " ++ hex (utf8Encode (hfsFilter cs))
          | none => "err")
      | none => "bad-arg"
  | "c17.dotgit", [h] => some <| match bytes? h with
      | some e => showBool (isNtfsDotgit e) | none => "bad-arg"
  | "c17.select", [a, b] => some <| match bool? a, bool? b with
      | some a, some b => (match select a b with
          | .default => "d" | .ntfs => "n" | .hfs => "h" | .both => "b")
      | _, _ => "bad-arg"
  | "c17.bift", v :: root :: nfs :: rest => some <| (do
      let v ← validator? v
      let root ← ppath? root
      let nfs ← nat? nfs
      let nodes ← (rest.take nfs).mapM node?
      let rest := rest.drop nfs
      let nent ← nat? (← rest.head?)
      let entries ← ((rest.drop 1).take nent).mapM entry?
      let queries ← ((rest.drop 1).drop nent).mapM ppath?
      some (runBift v root nodes entries queries)).getD "bad-arg"
  | "c17.uwtw", v :: root :: nfs :: rest => some <| (do
      let v ← validator? v
      let root ← ppath? root
      let nfs ← nat? nfs
      let nodes ← (rest.take nfs).mapM node?
      let rest := rest.drop nfs
      let nent ← nat? (← rest.head?)
      let entries ← ((rest.drop 1).take nent).mapM entry?
      let queries ← ((rest.drop 1).drop nent).mapM ppath?
      some (runUwtWrite v root nodes entries queries)).getD "bad-arg"
  | "c17.sparse", v :: root :: nfs :: rest => some <| (do
      let v ← validator? v
      let root ← ppath? root
      let nfs ← nat? nfs
      let nodes ← (rest.take nfs).mapM node?
      let rest := rest.drop nfs
      let nent ← nat? (← rest.head?)
      let entries ← ((rest.drop 1).take nent).mapM sparseEntry?
      let queries ← ((rest.drop 1).drop nent).mapM ppath?
      some (runSparse v root nodes entries queries)).getD "bad-arg"
  | "c17.del", v :: root :: nfs :: rest => some <| (do
      let v ← validator? v
      let root ← ppath? root
      let nfs ← nat? nfs
      let nodes ← (rest.take nfs).mapM node?
      let rest := rest.drop nfs
      let path ← bytes? (← rest.head?)
      let queries ← (rest.drop 1).mapM ppath?
      some (runDel v root nodes path queries)).getD "bad-arg"
  | "c17.cleanup", [m] => some <| match nat? m with
      | some m => toString (cleanupMode m) | none => "bad-arg"
  | _, _ => none

end DriverC17

def main : IO Unit := DriverUtil.run DriverC17.handle
