/- Line-protocol ops for the receive-pack / push-status model (C06).

   Every token is `-` (empty) or a comma-separated list; byte strings are hex.
   c06.wire  <coded|unrepaired|repaired> <pre 0|1> <caps> <ok:ids | exc:classes> <refs n=v,..> <store ids>
             <hooks n=msg,..> <faults n=cls;cls,..> <cmds old:new:name,..>
   c06.parse <hex|flush> ...
   c06.local <atomic 0|1> <snap n=v,..> <cur n=v,..> <packed names> <store ids> <pack ids> <cmds n=new,..>
-/
import DulwichModel.Model.ReceivePack
import Driver.Util
namespace DriverC06
open Dulwich Dulwich.ReceivePack DriverUtil

def items (s : String) : List String := if s = "-" then [] else s.splitOn ","

def bytesList? (s : String) : Option (List Bytes) := (items s).mapM bytes?

def pair? (sep : String) (s : String) : Option (Bytes × Bytes) :=
  match s.splitOn sep with
  | [a, b] => do some (← bytes? a, ← bytes? b)
  | _ => none

def pairs? (s : String) : Option (List (Bytes × Bytes)) := (items s).mapM (pair? "=")

def cmd? (s : String) : Option Cmd :=
  match s.splitOn ":" with
  | [o, n, r] => do some ⟨← bytes? o, ← bytes? n, ← bytes? r⟩
  | _ => none

def fault? (s : String) : Option (Bytes × List Bytes) :=
  match s.splitOn "=" with
  | [n, cls] => do some (← bytes? n, ← (cls.splitOn ";").mapM bytes?)
  | _ => none

def unpack? (s : String) : Option Unpack :=
  match s.splitOn ":" with
  | ["ok", ids] => do some (.ok (← bytesList? ids))
  | ["exc", cls] => do some (.raises (← bytesList? cls))
  | _ => none

def flags? : String → Option Flags
  | "coded" => some Flags.coded
  | "unrepaired" => some Flags.unrepaired
  | "repaired" => some Flags.repaired
  | _ => none

def refsOf (l : List (Bytes × Bytes)) : Refs := fun n => l.lookup n
def setOf (l : List Bytes) : Bytes → Bool := fun i => l.contains i

def join (sep : String) (l : List String) : String :=
  if l.isEmpty then "-" else sep.intercalate l

def showRefs (r : Refs) (names : List Bytes) : String :=
  join "," (names.eraseDups.filterMap (fun n => (r n).map (fun v => s!"{hex n}={hex v}")))

def showLines (l : List (Option Bytes)) : String :=
  join ";" (l.map (fun x => match x with | some b => hex b | none => "flush"))

def showParsed : Except ParseErr (List (Bytes × Option Bytes)) → String
  | .error e => "err:" ++ e.toString
  | .ok l => "ok:" ++ join "," (l.map (fun p => s!"{hex p.1}=" ++ (match p.2 with | some e => hex e | none => "ok")))

def wire (fl : Flags) (pre : Bool) (caps : List Bytes) (u : Unpack) (refs : List (Bytes × Bytes))
    (store : List Bytes) (hooks : List (Bytes × Bytes)) (faults : List (Bytes × List Bytes))
    (cmds : List Cmd) : String :=
  let env : Env := ⟨fun n => faults.lookup n, fun c => hooks.lookup c.name⟩
  let s : Srv := ⟨refsOf refs, setOf store⟩
  let h := handle fl env pre caps s u cmds
  let o := h.out
  let names := refs.map (·.1) ++ cmds.map (·.name)
  let raised := match o.raised with | some e => e.toString | none => "-"
  let status := join "," (o.status.map (fun p => s!"{hex p.1}:{hex p.2}"))
  let report := match h.report with
    | some l => if h.fatal then "-" else showLines l    -- after a fatal packet nothing reaches the parser
    | none => "none"
  let parsed := match clientTail h with
    | some r => showParsed r
    | none => "none"
  let instore := join "," (cmds.map (fun c => showBool (o.srv.store c.new)))
  s!"raised={raised} status={status} refs={showRefs o.srv.refs names} report={report} parsed={parsed} instore={instore}"

def localCmd? (s : String) : Option (Bytes × Bytes) := pair? "=" s

def localOp (atomic : Bool) (snap cur : List (Bytes × Bytes)) (packed store packIds : List Bytes)
    (cmds : List (Bytes × Bytes)) : String :=
  let t : LocalRepo := ⟨refsOf cur, setOf store, setOf packed⟩
  let have_ := (snap.map (·.2)).filter (fun v => !isZero v)
  let (tf, st) := localSendPack LocalFlags.coded (refsOf snap) t atomic packIds have_ cmds
  let names := cur.map (·.1) ++ snap.map (·.1) ++ cmds.map (·.1)
  let status := match st with
    | none => "early"
    | some l => join "," (l.map (fun (p : Bytes × Option LocalMsg) =>
        s!"{hex p.1}:" ++ (match p.2 with | some m => LocalMsg.toString m | none => "ok")))
  let instore := join "," (cmds.map (fun c => showBool (tf.store c.2)))
  s!"status={status} refs={showRefs tf.refs names} instore={instore}"

def handle (op : String) (args : List String) : Option String :=
  match op, args with
  | "c06.wire", [fl, pre, caps, u, refs, store, hooks, faults, cmds] => some <|
      match flags? fl, bool? pre, bytesList? caps, unpack? u, pairs? refs, bytesList? store, pairs? hooks,
            (items faults).mapM fault?, (items cmds).mapM cmd? with
      | some fl, some pre, some caps, some u, some refs, some store, some hooks, some faults, some cmds =>
        wire fl pre caps u refs store hooks faults cmds
      | _, _, _, _, _, _, _, _, _ => "bad-arg"
  | "c06.parse", lines => some <|
      match lines.mapM (fun s => if s = "flush" then some none else (bytes? s).map some) with
      | some l => showParsed (clientParse l)
      | none => "bad-arg"
  | "c06.local", [atomic, snap, cur, packed, store, packIds, cmds] => some <|
      match bool? atomic, pairs? snap, pairs? cur, bytesList? packed, bytesList? store, bytesList? packIds,
            (items cmds).mapM localCmd? with
      | some a, some snap, some cur, some packed, some store, some packIds, some cmds =>
        localOp a snap cur packed store packIds cmds
      | _, _, _, _, _, _, _ => "bad-arg"
  | "c06.zerosha", [] => some (hex zeroSha)
  | _, _ => none

end DriverC06

def main : IO Unit := DriverUtil.run DriverC06.handle
