/- Helpers for the per-property driver files. Core Lean only. -/
import DulwichModel.Model.Basic
namespace DriverUtil
open Dulwich

def nat? (s : String) : Option Nat := s.toNat?

def int? (s : String) : Option Int := s.toInt?

def bytes? (s : String) : Option Bytes := bytesOfHex s

def hex (b : Bytes) : String := hexOfBytes b

def showExcept (r : Except Err Bytes) : String :=
  match r with
  | .ok b => "ok " ++ hex b
  | .error e => "err " ++ toString e

def bool? (s : String) : Option Bool :=
  if s = "1" then some true else if s = "0" then some false else none

def showBool (b : Bool) : String := if b then "1" else "0"

end DriverUtil

/-- The line-protocol loop shared by all per-property drivers: `<op> <arg>…` per line in,
one line out; an op the handler does not know is answered `bad-op` (never a default). -/
partial def DriverUtil.loop (handle : String → List String → Option String)
    (h : IO.FS.Stream) (out : IO.FS.Stream) : IO Unit := do
  let line ← h.getLine
  if line.isEmpty then return ()
  let toks := (line.trimAscii.toString.splitOn " ").filter (· ≠ "")
  match toks with
  | [] => out.putStrLn "bad-op"
  | op :: args => out.putStrLn ((handle op args).getD "bad-op")
  DriverUtil.loop handle h out

def DriverUtil.run (handle : String → List String → Option String) : IO Unit := do
  let out ← IO.getStdout
  DriverUtil.loop handle (← IO.getStdin) out
  out.flush
