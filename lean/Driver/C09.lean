/- Line-protocol ops for the crash-safety model (C09).

   `c09.trace <token>…` — tokens describe a spec and a program (see harness/props/c09.py `Canon.tok_*`):
     e<o>:<o,…>:<o,…>      object graph entry: non-parent references, commit parents
     K<path>=<content>     fact about the start state
     R<r>=<-|s<o>|y<r>>    intended new ref value
     N<n>=<content>        intended new plain-file content
     g<o>                  garbage object
     w:<path>=<content>  mv:<path>:<path>  rm:<path>  mk:<path>  rd:<path>  sk:<o>:<path>     calls
   paths: l<o> p<p> i<p> r<r> P S n<n> t<n> x<n>;  contents: - o<o> k<k> i<k>:<o,…> s<o> y<r> m<r>:<o>,… h<o,…> b<k> j d
   Answer (one line): `check=<0|1> first=<i|-> pre=<0|1>` followed, for every prefix j = 0…len, by
   ` | rec=<0|1> fs=<path>=<content>;… vis=<o,…> refs=<r>:<v>,…` (the model's file system after j calls, the
   objects it reads as visible, the ref map it reads, and the closed-world `recoverableK` verdict). -/
import DulwichModel.Model.Crash
import Driver.Util
namespace DriverC09
open Dulwich Dulwich.Crash DriverUtil

def splitC (sep : Char) : List Char → List (List Char)
  | [] => [[]]
  | c :: cs =>
    if c = sep then [] :: splitC sep cs
    else match splitC sep cs with
      | [] => [[c]]
      | h :: t => (c :: h) :: t

def natC (cs : List Char) : Option Nat := (String.ofList cs).toNat?

def csvNat (cs : List Char) : Option (List Nat) :=
  if cs.isEmpty then some [] else (splitC ',' cs).mapM natC

def pathC : List Char → Option Path
  | ['P'] => some .packedRefs
  | ['S'] => some .shallow
  | 'l' :: r => (natC r).map .loose
  | 'p' :: r => (natC r).map .pack
  | 'i' :: r => (natC r).map .idx
  | 'r' :: r => (natC r).map .ref
  | 'n' :: r => (natC r).map .plain
  | 't' :: r => (natC r).map .tmp
  | 'x' :: r => (natC r).map .other
  | _ => none

def pairC (cs : List Char) : Option (Nat × Nat) :=
  match splitC ':' cs with
  | [a, b] => do some ((← natC a), (← natC b))
  | _ => none

/-- `-` is "absent" (outer `some none`); a malformed token is `none`. -/
def contentC : List Char → Option (Option Content)
  | ['-'] => some none
  | ['j'] => some (some .junk)
  | ['d'] => some (some .dir)
  | 'o' :: r => (natC r).map (fun n => some (.obj n))
  | 'k' :: r => (natC r).map (fun n => some (.packData n))
  | 's' :: r => (natC r).map (fun n => some (.refSha n))
  | 'y' :: r => (natC r).map (fun n => some (.refSym n))
  | 'b' :: r => (natC r).map (fun n => some (.blob n))
  | 'h' :: r => (csvNat r).map (fun l => some (.shallowSet l))
  | 'i' :: r =>
    (match splitC ':' r with
     | [k, l] => do some (some (.idxData (← natC k) (← csvNat l)))
     | _ => none)
  | 'm' :: r =>
    if r.isEmpty then some (some (.packed []))
    else ((splitC ',' r).mapM pairC).map (fun m => some (.packed m))
  | _ => none

def entryC (cs : List Char) : Option (Path × Option Content) :=
  match splitC '=' cs with
  | [p, c] => do some ((← pathC p), (← contentC c))
  | _ => none

structure Acc where
  spec : Spec := { edges := [], known := [], newRefs := [], newPlain := [], garbage := [] }
  prog : List Call := []

def refvC : List Char → Option (Option RefV)
  | ['-'] => some none
  | 's' :: r => (natC r).map (fun n => some (.sha n))
  | 'y' :: r => (natC r).map (fun n => some (.sym n))
  | _ => none

/-- tokens are consumed right-to-left (foldr), so lists come out in input order -/
def tokenC (t : String) (a : Acc) : Option Acc :=
  match t.toList with
  | 'w' :: ':' :: r => do
      let (p, c) ← entryC r
      match c with
      | some c => some { a with prog := .write p c :: a.prog }
      | none => none
  | 'm' :: 'v' :: ':' :: r =>
      (match splitC ':' r with
       | [x, y] => do some { a with prog := .rename (← pathC x) (← pathC y) :: a.prog }
       | _ => none)
  | 'r' :: 'm' :: ':' :: r => do some { a with prog := .unlink (← pathC r) :: a.prog }
  | 's' :: 'k' :: ':' :: r =>
      (match splitC ':' r with
       | [o, y] => do some { a with prog := .skip (← natC o) (← pathC y) :: a.prog }
       | _ => none)
  | 'm' :: 'k' :: ':' :: r => do some { a with prog := .mkdir (← pathC r) :: a.prog }
  | 'r' :: 'd' :: ':' :: r => do some { a with prog := .rmdir (← pathC r) :: a.prog }
  | 'e' :: r =>
      (match splitC ':' r with
       | [o, l, ps] => do
          let e := ((← natC o), (← csvNat l), (← csvNat ps))
          some { a with spec := { a.spec with edges := e :: a.spec.edges } }
       | _ => none)
  | 'K' :: r => do
      let e ← entryC r
      some { a with spec := { a.spec with known := e :: a.spec.known } }
  | 'R' :: r =>
      (match splitC '=' r with
       | [x, v] => do
          let e := ((← natC x), (← refvC v))
          some { a with spec := { a.spec with newRefs := e :: a.spec.newRefs } }
       | _ => none)
  | 'N' :: r =>
      (match splitC '=' r with
       | [x, v] => do
          let e := ((← natC x), (← contentC v))
          some { a with spec := { a.spec with newPlain := e :: a.spec.newPlain } }
       | _ => none)
  | 'g' :: r => do
      let o ← natC r
      some { a with spec := { a.spec with garbage := o :: a.spec.garbage } }
  | _ => none

def parse (toks : List String) : Option Acc :=
  toks.foldr (fun t acc => acc.bind (tokenC t)) (some {})

def showPath : Path → String
  | .loose o => s!"l{o}" | .pack p => s!"p{p}" | .idx p => s!"i{p}" | .ref r => s!"r{r}"
  | .packedRefs => "P" | .shallow => "S" | .plain n => s!"n{n}" | .tmp n => s!"t{n}" | .other n => s!"x{n}"

def csv (l : List Nat) : String := ",".intercalate (l.map toString)

def showContent : Content → String
  | .obj o => s!"o{o}" | .packData k => s!"k{k}" | .idxData k l => s!"i{k}:{csv l}"
  | .refSha o => s!"s{o}" | .refSym r => s!"y{r}"
  | .packed m => "m" ++ ",".intercalate (m.map (fun e => s!"{e.1}:{e.2}"))
  | .blob k => s!"b{k}" | .shallowSet l => s!"h{csv l}" | .junk => "j" | .dir => "d"

def showRefV : Option RefV → String
  | none => "-" | some (.sha o) => s!"s{o}" | some (.sym r) => s!"y{r}" | some .bad => "bad"

/-- effective listing of a `Known` (first entry wins; absent paths omitted) -/
def listing (K : Known) : List String :=
  let rec go (seen : List Path) : Known → List String
    | [] => []
    | (p, _) :: rest =>
      if seen.contains p then go seen rest
      else match lk K p with
        | some (some c) => s!"{showPath p}={showContent c}" :: go (p :: seen) rest
        | _ => go (p :: seen) rest
  go [] K

def objIds (spec : Spec) (prog : List Call) : List Nat :=
  let fromC : Option Content → List Nat
    | some (.obj o) => [o] | some (.idxData _ l) => l | some (.refSha o) => [o]
    | some (.packed m) => m.map Prod.snd | some (.shallowSet l) => l | _ => []
  let fromP : Path → List Nat
    | .loose o => [o] | _ => []
  (spec.edges.flatMap (fun e => e.1 :: (e.2.1 ++ e.2.2)) ++
   spec.known.flatMap (fun e => fromP e.1 ++ fromC e.2) ++
   prog.flatMap (fun c => match c with
     | .write p d => fromP p ++ fromC (some d)
     | _ => [])).eraseDups

def describe (spec : Spec) (ids : List Nat) (K : Known) : String :=
  let refs := (refIds spec.known ++ refIds K ++ spec.newRefs.map Prod.fst).eraseDups
  s!"rec={showBool (recoverableK spec spec.known K)} fs={";".intercalate (listing K)} " ++
  s!"vis={csv (ids.filter (visK K))} " ++
  s!"refs={",".intercalate (refs.map (fun r => s!"{r}:{showRefV (rawRefC K r)}"))}"

def trace (a : Acc) : String :=
  let spec := a.spec
  let ids := objIds spec a.prog
  let first := match firstUnsafe spec a.prog with
    | some i => toString i | none => "-"
  let head := s!"check={showBool (checkProgram spec a.prog)} first={first} pre={showBool (preK spec)}"
  let rec go (K : Known) : List Call → List String
    | [] => [describe spec ids K]
    | c :: cs => describe spec ids K ::
        (match stepK c K with
         | some K' => go K' cs
         | none => ["stuck"])
  " | ".intercalate (head :: go spec.known a.prog)

def handle (op : String) (args : List String) : Option String :=
  match op with
  | "c09.trace" => some <| match parse args with
      | some a => trace a
      | none => "bad-arg"
  | _ => none

end DriverC09

def main : IO Unit := DriverUtil.run DriverC09.handle
