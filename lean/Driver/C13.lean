/- Line-protocol ops for the merge-base / history-walk models (C13).

   `c13.q <parents> <stamps> <query>…`  → the answers joined by `;`
     parents : per commit `0..n-1`, separated by `;`, a comma list of parent ids or `-`   e.g. `-;0;1;0,2`
     stamps  : comma list of integers                                                     e.g. `0,0,0,0`
     query   : `L:c1:c2s:min`   `_find_lcas(c1, c2s, min_stamp=min)` (`min` = `d` for the default)
               `S:c1:c2s:min`   the final `cstates` words of that call, per commit
               `F:c1:c2`        `can_fast_forward`
               `M:ids`          `find_merge_base`
               `O:ids`          `find_octopus_base`
               `I:ids`          `independent`
               `W:incl:excl:topo:rev:max:since:until`  `list(Walker(...))`  (`n` = None, booleans 0/1)
               `T:entries`      `_topo_reorder` of an arbitrary entry list
     answer  : comma list of ids (`-` = empty), `1`/`0`, or `!fuel` / `!key` / `!empty`
-/
import DulwichModel.Model.LCA
import DulwichModel.Model.Walk
import Driver.Util
namespace DriverC13
open Dulwich Dulwich.LCA DriverUtil

def natList? (s : String) : Option (List Nat) :=
  if s = "-" then some [] else (s.splitOn ",").mapM nat?

def intList? (s : String) : Option (List Int) :=
  if s = "-" then some [] else (s.splitOn ",").mapM int?

def optNat? (s : String) : Option (Option Nat) :=
  if s = "n" then some none else (nat? s).map some

def optInt? (s : String) : Option (Option Int) :=
  if s = "n" then some none else (int? s).map some

def showList (l : List Nat) : String :=
  if l.isEmpty then "-" else ",".intercalate (l.map toString)

def showFail : Fail → String
  | .fuel => "!fuel" | .key => "!key" | .empty => "!empty"

def showRes (r : Except Fail (List Nat)) : String :=
  match r with
  | .ok l => showList l
  | .error e => showFail e

def showResB (r : Except Fail Bool) : String :=
  match r with
  | .ok b => showBool b
  | .error e => showFail e

def showOpt (r : Option (List Nat)) : String :=
  match r with
  | some l => showList l
  | none => "!fuel"

/-- `d` = the default of `min_stamp` (generated: `None` = no cut since the C13 fix), else an explicit stamp -/
def minStamp? (s : String) : Option (Option Int) :=
  if s = "d" then some Gen.lcaDefaultMinStamp else (int? s).map some

def query (g : Graph) (q : String) : Option String :=
  match q.splitOn ":" with
  | ["L", c1, c2s, m] => do
      let c1 ← nat? c1; let c2s ← natList? c2s; let m ← minStamp? m
      some (showRes (findLcas g c1 c2s (cutBelow g m)))
  | ["S", c1, c2s, m] => do
      let c1 ← nat? c1; let c2s ← natList? c2s; let m ← minStamp? m
      some (showRes (finalFlags g c1 c2s (cutBelow g m)))
  | ["F", c1, c2] => do
      let c1 ← nat? c1; let c2 ← nat? c2
      some (showResB (canFastForward g c1 c2))
  | ["M", ids] => do some (showRes (findMergeBase g (← natList? ids)))
  | ["O", ids] => do some (showRes (findOctopusBase g (← natList? ids)))
  | ["I", ids] => do some (showRes (independent g (← natList? ids)))
  | ["W", incl, excl, topo, rev, mx, since, untl] => do
      let o : Walk.Opts := { incl := ← natList? incl, excl := ← natList? excl, topo := ← bool? topo,
                             reverse := ← bool? rev, maxEntries := ← optNat? mx,
                             since := ← optInt? since, untl := ← optInt? untl }
      some (showOpt (Walk.walk g o))
  | ["T", entries] => do some (showOpt (Walk.topoReorder g.parents (← natList? entries)))
  | _ => none

def handle (op : String) (args : List String) : Option String :=
  match op, args with
  | "c13.q", ps :: ts :: qs => some <|
      match (ps.splitOn ";").mapM natList?, intList? ts with
      | some ps, some ts =>
        if ps.length ≠ ts.length then "bad-arg" else
        let g := Graph.ofLists ps ts
        match qs.mapM (query g) with
        | some rs => if rs.isEmpty then "-" else ";".intercalate rs
        | none => "bad-arg"
      | _, _ => "bad-arg"
  | _, _ => none

end DriverC13

def main : IO Unit := DriverUtil.run DriverC13.handle
