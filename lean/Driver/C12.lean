/- Line-protocol ops for the tree-operations model (C12).

  tokens:  listing   `.` (empty) | `~` (no tree) | entry(,entry)*      entry  = pathhex:mode:idhex
           changes   `.` | change(,change)*    change = type:old:new    old/new = `~` | pathhex;mode;idhex
           tchanges  `.` | item(,item)*        item   = pathhex:mode:idhex | pathhex:~
           filter    `~` (None) | f(,pathhex)*
           flags     three 0/1 digits: want_unchanged include_trees change_type_same
  a path is the raw byte path (`a/b`), hex encoded, `-` when empty. -/
import DulwichModel.Model.TreeOps
import Driver.Util
namespace DriverC12
open Dulwich Dulwich.TreeOps DriverUtil

def H : Bytes → Id := gitTreeHash

def parsePath (b : Bytes) : Path := if b = [] then [] else splitPath b

def showPath (p : Path) : String := hex (joinPath p)

def parseEntryWith (sep : String) (s : String) : Option Entry :=
  match s.splitOn sep with
  | [p, m, i] => do some ⟨parsePath (← bytes? p), ← nat? m, ← bytes? i⟩
  | _ => none

def parseListing (s : String) : Option (List Entry) :=
  if s = "." then some [] else (s.splitOn ",").mapM (parseEntryWith ":")

def showEntryWith (sep : String) (e : Entry) : String := s!"{showPath e.path}{sep}{e.mode}{sep}{hex e.id}"

def showListing (l : List Entry) : String :=
  if l.isEmpty then "." else ",".intercalate (l.map (showEntryWith ":"))

def parseOptEntry (s : String) : Option (Option Entry) :=
  if s = "~" then some none else (parseEntryWith ";" s).map some

def parseCType (s : String) : Option CType :=
  [CType.add, .modify, .delete, .rename, .copy, .unchanged].find? (fun t => t.toString == s)

def parseChange (s : String) : Option Change :=
  match s.splitOn ":" with
  | [t, o, n] => do some ⟨← parseCType t, ← parseOptEntry o, ← parseOptEntry n⟩
  | _ => none

def parseChanges (s : String) : Option (List Change) :=
  if s = "." then some [] else (s.splitOn ",").mapM parseChange

def showOptEntry : Option Entry → String
  | none => "~"
  | some e => showEntryWith ";" e

def showChanges (cs : List Change) : String :=
  if cs.isEmpty then "." else
    ",".intercalate (cs.map (fun c => s!"{c.type.toString}:{showOptEntry c.old}:{showOptEntry c.new}"))

def parseTChange (s : String) : Option TChange :=
  match s.splitOn ":" with
  | [p, "~"] => do some (parsePath (← bytes? p), none)
  | [p, m, i] => do some (parsePath (← bytes? p), some ⟨← nat? m, ← bytes? i⟩)
  | _ => none

def parseTChanges (s : String) : Option (List TChange) :=
  if s = "." then some [] else (s.splitOn ",").mapM parseTChange

def parseFilter (s : String) : Option (Option (List Bytes)) :=
  if s = "~" then some none else
    match s.splitOn "," with
    | "f" :: ps => (ps.mapM bytes?).map some
    | _ => none

def parseFlags (s : String) : Option Flags :=
  match s.toList with
  | [a, b, c] => do some ⟨← bool? (String.singleton a), ← bool? (String.singleton b), ← bool? (String.singleton c)⟩
  | _ => none

/-- `~` = no tree; otherwise the tree commit_tree builds from the listing -/
def parseTree (s : String) : Option (Except String (Option Tree)) :=
  if s = "~" then some (.ok none) else do
    let l ← parseListing s
    if !l.all validEntry then some (.error "invalid") else
    match commitTree l with
    | none => some (.error "conflict")
    | some t => some (.ok (some t))

def parseTEntry (s : String) : Option (Name × (Nat × Id)) :=
  match s.splitOn ":" with
  | [p, m, i] => do some (← bytes? p, ← nat? m, ← bytes? i)
  | _ => none

def parseTEntries (s : String) : Option (List (Name × (Nat × Id))) :=
  if s = "." then some [] else (s.splitOn ",").mapM parseTEntry

def showSide : Option (Nat × Id) → String
  | none => "~"
  | some (m, i) => s!"{m};{hex i}"

def showLookupErr : LookupErr → String
  | .key => "key" | .notTree => "nottree" | .submodule => "submodule" | .value => "value"

def showCtcErr : CtcErr → String
  | .key => "key" | .notTree => "nottree" | .fuel => "fuel"

def withTree (s : String) (k : Option Tree → String) : String :=
  match parseTree s with
  | none => "bad-arg"
  | some (.error e) => e
  | some (.ok t) => k t

def handle (op : String) (args : List String) : Option String :=
  match op, args with
  | "c12.sha1", [h] => some <| match bytes? h with
      | some b => hex (Sha1.sha1 b) | none => "bad-arg"
  | "c12.commit", [l] => some <| withTree l fun
      | none => "bad-arg"
      | some t => s!"ok {hex (t.id H)} {",".intercalate ((t.allIds H).map hex)} {showBool t.WF}"
  | "c12.body", [l] => some <| withTree l fun
      | none => "bad-arg"
      | some t => s!"ok {hex (t.body H)}"
  | "c12.flatten", [l, inc] => some <| withTree l fun
      | none => "ok ."
      | some t => match bool? inc with
        | some inc => "ok " ++ showListing (iterTreeContents H inc t)
        | none => "bad-arg"
  | "c12.lookup", [l, p] => some <| withTree l fun
      | none => "bad-arg"
      | some t => match bytes? p with
        | none => "bad-arg"
        | some p => match lookupPath H t p with
          | .ok (m, i) => s!"ok {m} {hex i}"
          | .error e => "err " ++ showLookupErr e
  | "c12.merge", [a, b] => some <| match parseTEntries a, parseTEntries b with
      | some a, some b =>
        let r := mergeEntries a b
        if r.isEmpty then "." else
          ",".intercalate (r.map (fun e => s!"{hex e.1}:{showSide e.2.1}:{showSide e.2.2}"))
      | _, _ => "bad-arg"
  | "c12.changes", [a, b, fl, flt] => some <| withTree a fun ta => withTree b fun tb =>
      match parseFlags fl, parseFilter flt with
      | some f, some filters => "ok " ++ showChanges (treeChanges H f filters ta tb)
      | _, _ => "bad-arg"
  | "c12.apply", [l, cs] => some <| match parseListing l, parseChanges cs with
      | some l, some cs => "ok " ++ showListing (applyChanges cs l)
      | _, _ => "bad-arg"
  | "c12.sort", [l] => some <| match parseListing l with
      | some l => "ok " ++ showListing (sortListing l)
      | none => "bad-arg"
  | "c12.tchanges", [cs] => some <| match parseChanges cs with
      | some cs =>
        let r := toTChanges cs
        if r.isEmpty then "." else ",".intercalate (r.map (fun c => match c.2 with
          | none => s!"{showPath c.1}:~"
          | some l => s!"{showPath c.1}:{l.mode}:{hex l.id}"))
      | none => "bad-arg"
  | "c12.ctc", [l, cs] => some <| withTree l fun
      | none => "bad-arg"
      | some t => match parseTChanges cs with
        | none => "bad-arg"
        | some cs => match commitTreeChanges t cs with
          | .ok t' => s!"ok {hex (t'.id H)} {showListing t'.flatten}"
          | .error e => "err " ++ showCtcErr e
  | _, _ => none

end DriverC12

def main : IO Unit := DriverUtil.run DriverC12.handle
