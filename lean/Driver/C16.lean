/- Line-protocol ops for the ref models (C16).

  c16.fmt <hex>            check_ref_format        -> 1 | 0 | raise
  c16.refname <hex>        _check_refname          -> 1 | 0
  c16.seq <kind> <state…> -- <op…>                 -> <step>;<step>;…   (one per op)
     kind   disk | dict | reftable | nsdisk:<hex namespace> | nsdict:<hex namespace>
     state  F <name> <val> | D <dir> | P <name> <sha> | L <name> <peeled>
     op     S n old new | I n v | A n v | R n old | X n | Y n target | K 0|1 | O
            | G n | W n | Q n | C n | E n | T | M | U          (old: `~` = None)
     step   <ret>|<state>   ret: ok:1 ok:0 ok err:<exc> val:<hex> none map:k=v,… list:k,… chain:k,…>v
                            state: F:k=v,…/D:k,…/P:k=v,…/L:k=v,…
  c16.packed.write <n> <name sha peeled|~>…        -> hex of the file
  c16.packed.read <hex file>                       -> ok <name>=<sha>=<peeled|~>,… | err
-/
import DulwichModel.Model.Refs
import DulwichModel.Model.PackedRefs
import Driver.Util
namespace DriverC16
open Dulwich Dulwich.RefFormat Dulwich.Refs DriverUtil

def showExc : Exc → String
  | .refFormat => "refformat" | .value => "value" | .symrefLoop => "symrefloop"
  | .os => "os" | .key => "key" | .notImpl => "notimpl"

def showMap (m : List (Bytes × Bytes)) : String := ",".intercalate (m.map fun (k, v) => hex k ++ "=" ++ hex v)
def showList (l : List Bytes) : String := ",".intercalate (l.map hex)

def showResBool (r : Res Bool) : String :=
  match r with | .ok b => "ok:" ++ showBool b | .error e => "err:" ++ showExc e
def showResUnit (r : Res Unit) : String :=
  match r with | .ok _ => "ok" | .error e => "err:" ++ showExc e
def showOptVal (v : Option Val) : String := match v with | some v => "val:" ++ hex v | none => "none"

inductive Op where
  | S (n : Name) (old : Option Val) (new : Val) | I (n : Name) (v : Val) | A (n : Name) (v : Val)
  | R (n : Name) (old : Option Val) | X (n : Name) | Y (n t : Name) | K (all : Bool) | O
  | G (n : Name) | W (n : Name) | Q (n : Name) | C (n : Name) | E (n : Name) | T | M | U

def old? (s : String) : Option (Option Val) := if s = "~" then some none else (bytes? s).map some

def parseOps : Nat → List String → Option (List Op)
  | 0, _ => none
  | _, [] => some []
  | f + 1, "S" :: n :: o :: v :: r => do some (.S (← bytes? n) (← old? o) (← bytes? v) :: (← parseOps f r))
  | f + 1, "I" :: n :: v :: r => do some (.I (← bytes? n) (← bytes? v) :: (← parseOps f r))
  | f + 1, "A" :: n :: v :: r => do some (.A (← bytes? n) (← bytes? v) :: (← parseOps f r))
  | f + 1, "R" :: n :: o :: r => do some (.R (← bytes? n) (← old? o) :: (← parseOps f r))
  | f + 1, "X" :: n :: r => do some (.X (← bytes? n) :: (← parseOps f r))
  | f + 1, "Y" :: n :: t :: r => do some (.Y (← bytes? n) (← bytes? t) :: (← parseOps f r))
  | f + 1, "K" :: a :: r => do some (.K (← bool? a) :: (← parseOps f r))
  | f + 1, "O" :: r => do some (.O :: (← parseOps f r))
  | f + 1, "G" :: n :: r => do some (.G (← bytes? n) :: (← parseOps f r))
  | f + 1, "W" :: n :: r => do some (.W (← bytes? n) :: (← parseOps f r))
  | f + 1, "Q" :: n :: r => do some (.Q (← bytes? n) :: (← parseOps f r))
  | f + 1, "C" :: n :: r => do some (.C (← bytes? n) :: (← parseOps f r))
  | f + 1, "E" :: n :: r => do some (.E (← bytes? n) :: (← parseOps f r))
  | f + 1, "T" :: r => do some (.T :: (← parseOps f r))
  | f + 1, "M" :: r => do some (.M :: (← parseOps f r))
  | f + 1, "U" :: r => do some (.U :: (← parseOps f r))
  | _, _ => none

/-- state tokens up to `--`; returns the state and the remaining tokens -/
def parseState : Nat → List String → Disk → Option (Disk × List String)
  | 0, _, _ => none
  | _, [], _ => none
  | _, "--" :: r, d => some (d, r)
  | f + 1, "F" :: n :: v :: r, d => do
      parseState f r { d with files := d.files ++ [(← bytes? n, ← bytes? v)] }
  | f + 1, "D" :: n :: r, d => do parseState f r { d with dirs := d.dirs ++ [← bytes? n] }
  | f + 1, "P" :: n :: v :: r, d => do
      parseState f r { d with packed := d.packed ++ [(← bytes? n, ← bytes? v)] }
  | f + 1, "L" :: n :: v :: r, d => do
      parseState f r { d with peeled := d.peeled ++ [(← bytes? n, ← bytes? v)] }
  | _, _, _ => none

/-- one step on a container with the full interface -/
def stepOps {σ : Type} (o : Ops σ) (s : σ) : Op → String × σ
  | .S n old new => let r := o.setIfEquals s n old new; (showResBool r.1, r.2)
  | .I n v => let r := o.setItem s n v; (showResUnit r.1, r.2)
  | .A n v => let r := o.addIfNew s n v; (showResBool r.1, r.2)
  | .R n old => let r := o.removeIfEquals s n old; (showResBool r.1, r.2)
  | .X n => let r := o.delItem s n; (showResUnit r.1, r.2)
  | .Y n t => let r := o.setSymbolicRef s n t; (showResUnit r.1, r.2)
  | .K all => let r := o.packRefs s all; (showResUnit r.1, r.2)
  | .O => ("ok", s)
  | .G n => ((match o.getItem s n with | .ok v => "val:" ++ hex v | .error e => "err:" ++ showExc e), s)
  | .W n => ((match follow (o.readRef s) n with
      | .ok (names, v) => "chain:" ++ showList names ++ ">" ++ showOptVal v
      | .error e => "err:" ++ showExc e), s)
  | .Q n => (showOptVal (o.readRef s n), s)
  | .C n => ("ok:" ++ showBool (match o.readRef s n with | some c => !c.isEmpty | none => false), s)
  | .E n => ((match o.getPeeled s n with | .ok v => showOptVal v | .error e => "err:" ++ showExc e), s)
  | .T => ("map:" ++ showMap (o.asDict s), s)
  | .M => ("map:" ++ showMap (o.getSymrefs s), s)
  | .U => ("list:" ++ showList (o.allKeys s), s)

/-- reftable: only the four mutators (+ `__setitem__`/`__delitem__` through the base class) -/
def stepReftable (m : Map) : Op → Option (String × Map)
  | .S n old new => let r := Reftable.setIfEquals m n old new; some (showResBool r.1, r.2)
  | .I n v => if !validRefValue v then some ("err:value", m) else
      let r := Reftable.setIfEquals m n none v
      some ((match r.1 with | .ok _ => "ok" | .error e => "err:" ++ showExc e), r.2)
  | .A n v => let r := Reftable.addIfNew m n v; some (showResBool r.1, r.2)
  | .R n old => let r := Reftable.removeIfEquals m n old; some (showResBool r.1, r.2)
  | .X n => let r := Reftable.removeIfEquals m n none
      some ((match r.1 with | .ok _ => "ok" | .error e => "err:" ++ showExc e), r.2)
  | .Y n t => let r := Reftable.setSymbolicRef m n t; some (showResUnit r.1, r.2)
  | .O => some ("ok", m)
  | _ => none

def showDisk (d : Disk) : String :=
  "F:" ++ showMap d.files ++ "/D:" ++ showList d.dirs ++ "/P:" ++ showMap d.packed ++ "/L:" ++ showMap d.peeled

def runSeq {σ : Type} (step : σ → Op → Option (String × σ)) (showSt : σ → String) :
    σ → List Op → List String → Option (List String)
  | _, [], acc => some acc.reverse
  | s, op :: ops, acc =>
    match step s op with
    | none => none
    | some (r, s') => runSeq step showSt s' ops ((r ++ "|" ++ showSt s') :: acc)

def handleSeq (kind : String) (toks : List String) : Option String := do
  let (d, rest) ← parseState (toks.length + 1) toks { files := [], dirs := [], packed := [], peeled := [] }
  let ops ← parseOps (rest.length + 1) rest
  let join := fun (l : List String) => ";".intercalate l
  match kind.splitOn ":" with
  | ["disk"] => (runSeq (fun s op => some (stepOps diskOps s op)) showDisk d ops []).map join
  | ["dict"] => (runSeq (fun s op => some (stepOps dictOps s op)) (fun m => "F:" ++ showMap m) d.files ops []).map join
  | ["reftable"] => (runSeq stepReftable (fun m => "F:" ++ showMap m) d.files ops []).map join
  | ["nsdisk", ns] => do
      let o := namespaced diskOps (nsPrefix (← bytes? ns))
      (runSeq (fun s op => some (stepOps o s op)) showDisk d ops []).map join
  | ["nsdict", ns] => do
      let o := namespaced dictOps (nsPrefix (← bytes? ns))
      (runSeq (fun s op => some (stepOps o s op)) (fun m => "F:" ++ showMap m) d.files ops []).map join
  | _ => none

def parseEntries : Nat → List String → Option (List PackedRefs.Entry)
  | 0, _ => none
  | _, [] => some []
  | f + 1, n :: s :: p :: r => do
      some ({ name := ← bytes? n, sha := ← bytes? s, peeled := ← old? p } :: (← parseEntries f r))
  | _, _ => none

def handle (op : String) (args : List String) : Option String :=
  match op, args with
  | "c16.fmt", [h] => some <| match bytes? h with
      | some n => (match checkRefFormat n with | some b => showBool b | none => "raise")
      | none => "bad-arg"
  | "c16.refname", [h] => some <| match bytes? h with
      | some n => showBool (checkRefname n) | none => "bad-arg"
  | "c16.seq", kind :: toks => some <| (handleSeq kind toks).getD "bad-arg"
  | "c16.packed.write", toks => some <| match parseEntries (toks.length + 1) toks with
      | some es => hex (PackedRefs.writeFile (PackedRefs.sortEntries es))
      | none => "bad-arg"
  | "c16.packed.read", [h] => some <| match bytes? h with
      | some f => (match PackedRefs.readFile f with
          | some es => "ok " ++ ",".intercalate (es.map fun e =>
              hex e.name ++ "=" ++ hex e.sha ++ "=" ++ (match e.peeled with | some p => hex p | none => "~"))
          | none => "err")
      | none => "bad-arg"
  | _, _ => none

end DriverC16

def main : IO Unit := DriverUtil.run DriverC16.handle
