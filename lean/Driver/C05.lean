/- Line-protocol ops for the object-graph / MissingObjectFinder / negotiation models (C05).

   A graph is a sequence of object tokens
     B<id>                      blob
     C<id>:<tree>:<p>,<p>,…     commit (parents may be empty)
     T<id>:<mode>.<id>,…        tree; <mode> is the decimal numeric mode of the entry
     G<id>:<target>             annotated tag
   followed by parameter tokens  H:<ids> (haves)  W:<ids> (wants)  S:<ids> (shallow)
   X:<sha>=<tag>,… (get_tagged)  O:<n> (pop order: 0 = newest first, 1 = oldest first,
   n ≥ 2 = pseudo-random with seed n)  R:<ids> (roots for c05.closure).  Id lists are comma separated, `-` = empty.
-/
import DulwichModel.Model.Missing
import DulwichModel.Model.Negotiate
import DulwichModel.Model.Shallow
import Driver.Util
namespace DriverC05
open Dulwich Dulwich.Graph Dulwich.Missing Dulwich.Negotiate Dulwich.Shallow DriverUtil

def ids? (s : String) : Option (List Nat) :=
  if s = "-" || s = "" then some [] else (s.splitOn ",").mapM nat?

def entry? (s : String) : Option (Kind × Id) :=
  match s.splitOn "." with
  | [m, i] => do some (kindOfMode (← nat? m), ← nat? i)
  | _ => none

def entries? (s : String) : Option (List (Kind × Id)) :=
  if s = "-" || s = "" then some [] else (s.splitOn ",").mapM entry?

def pair? (s : String) : Option (Nat × Nat) :=
  match s.splitOn "=" with
  | [a, b] => do some (← nat? a, ← nat? b)
  | _ => none

def pairs? (s : String) : Option (List (Nat × Nat)) :=
  if s = "-" || s = "" then some [] else (s.splitOn ",").mapM pair?

structure Case where
  objs : List (Id × Obj) := []
  haves : List Id := []
  wants : List Id := []
  shallow : List Id := []
  tagged : List (Id × Id) := []
  order : Nat := 0
  roots : List Id := []
  mode : AckMode := .detailed
  stateless : Bool := false
  noDone : Bool := false
  lines : List CLine := []
  depth : Option Nat := none
  v2 : Bool := false
  since : Bool := false
  exclude : Bool := false

def cline? (s : String) : Option CLine :=
  if s = "f" then some .flush
  else if s = "d" then some .done
  else if s.front = 'h' then (nat? (s.drop 1).toString).map CLine.have_
  else none

def clines? (s : String) : Option (List CLine) :=
  if s = "-" || s = "" then some [] else (s.splitOn ",").mapM cline?

def mode? (s : String) : Option AckMode :=
  if s = "single" then some .single else if s = "multi" then some .multi
  else if s = "detailed" then some .detailed else none

def tok (c : Case) (t : String) : Option Case :=
  let body := (t.drop 1).toString
  match t.front with
  | 'B' => do some { c with objs := (← nat? body, Obj.blob) :: c.objs }
  | 'C' => match body.splitOn ":" with
    | [i, tr, ps] => do some { c with objs := (← nat? i, Obj.commit (← nat? tr) (← ids? ps)) :: c.objs }
    | _ => none
  | 'T' => match body.splitOn ":" with
    | [i, es] => do some { c with objs := (← nat? i, Obj.tree (← entries? es)) :: c.objs }
    | _ => none
  | 'G' => match body.splitOn ":" with
    | [i, tg] => do some { c with objs := (← nat? i, Obj.tag (← nat? tg)) :: c.objs }
    | _ => none
  | 'H' => do some { c with haves := ← ids? (body.drop 1).toString }
  | 'W' => do some { c with wants := ← ids? (body.drop 1).toString }
  | 'S' => do some { c with shallow := ← ids? (body.drop 1).toString }
  | 'R' => do some { c with roots := ← ids? (body.drop 1).toString }
  | 'X' => do some { c with tagged := ← pairs? (body.drop 1).toString }
  | 'O' => do some { c with order := ← nat? (body.drop 1).toString }
  | 'M' => do some { c with mode := ← mode? (body.drop 1).toString }
  | 'L' => do some { c with stateless := ← bool? (body.drop 1).toString }
  | 'N' => do some { c with noDone := ← bool? (body.drop 1).toString }
  | 'Q' => do some { c with lines := ← clines? (body.drop 1).toString }
  | 'D' => let v := (body.drop 1).toString
           if v = "-" then some { c with depth := none } else do some { c with depth := some (← nat? v) }
  | 'V' => do some { c with v2 := (← nat? (body.drop 1).toString) == 2 }
  | 'E' => match (body.drop 1).toString.toList with
    | [a, b] => some { c with since := a == '1', exclude := b == '1' }
    | _ => none
  | _ => none

def parse (args : List String) : Option Case :=
  args.foldlM tok {}

/-- Array-backed store (ids are small numbers). -/
def storeOf (objs : List (Id × Obj)) : Store :=
  let n := objs.foldl (fun m p => max m (p.1 + 1)) 0
  let arr : Array (Option Obj) := objs.foldr (fun p a => if p.1 < a.size then a.set! p.1 (some p.2) else a)
    (Array.replicate n none)
  fun x => if h : x < arr.size then arr[x] else none

def edgeCount (objs : List (Id × Obj)) : Nat :=
  objs.foldl (fun n p => n + (match p.2 with
    | .commit _ ps => 2 + ps.length
    | .tree es => 1 + es.length
    | _ => 2)) 0

/-- Fuel that is always enough: every loop of the model consumes one unit per queue entry, and no
queue ever receives more entries than (initial entries) + (edges of the graph) + (tagged entries). -/
def fuelFor (c : Case) : Nat :=
  2 * (edgeCount c.objs + c.objs.length + c.haves.length + c.wants.length + c.tagged.length) + 8

def pickOf (order : Nat) : Nat → List (Id × Bool) → Nat :=
  match order with
  | 0 => fun _ _ => 0
  | 1 => fun _ todo => todo.length - 1
  | seed => fun n todo => (seed * 1103515245 + 12345 * (n + 1) + 7919 * todo.length) / 65536

def showIds (l : List Nat) : String :=
  let a := (l.toArray.qsort (· < ·)).toList.eraseDups
  if a.isEmpty then "-" else ",".intercalate (a.map toString)

def showRes (r : Except MErr (List Id)) : String :=
  match r with
  | .ok l => "ok " ++ showIds l
  | .error e => "err " ++ toString e

def showSLine : SLine → String
  | .ack x => s!"A{x}" | .ackContinue x => s!"C{x}" | .ackCommon x => s!"M{x}" | .ackReady x => s!"R{x}"
  | .nak => "N"

def showSLines (l : List SLine) : String :=
  if l.isEmpty then "-" else ",".intercalate (l.map showSLine)

def showOrdered (l : List Nat) : String :=
  if l.isEmpty then "-" else ",".intercalate (l.map toString)

def runNego (c : Case) : String :=
  let s := storeOf c.objs
  let has : Id → Bool := fun x => (s x).isSome
  let sat : List Id → Bool := wantsSatisfied s (fuelFor c) c.wants
  match negotiate c.mode c.stateless has sat c.lines with
  | .error e => "err " ++ toString e
  | .ok r =>
    s!"ok haves={showOrdered r.haves} out={showSLines r.out} done={showBool r.doneReceived} " ++
    s!"pack={showBool (sendsPack c.mode r c.noDone)} final={showSLines (finalLines c.mode r c.noDone)}"

def showReq : ReqLine → String
  | .want x => s!"W{x}" | .shallow x => s!"S{x}" | .deepen n => s!"D{n}" | .deepenSince => "DS"
  | .deepenNot => "DN" | .flush => "F" | .done => "X"

def runShallowAns (c : Case) : String :=
  match shallowAnswer (storeOf c.objs) (fuelFor c + 4 * c.objs.length * c.objs.length) c.wants c.shallow
      (c.depth.getD 0) with
  | .error e => "err " ++ toString e
  | .ok a => s!"ok new={showIds a.newShallow} un={showIds a.unshallow} boundary={showIds a.boundary}"

def handle (op : String) (args : List String) : Option String :=
  match op with
  | "c05.mof" => some <| match parse args with
    | none => "bad-arg"
    | some c => showRes (mof (storeOf c.objs) c.tagged (pickOf c.order) (fuelFor c) c.haves c.wants c.shallow)
  | "c05.remotehas" => some <| match parse args with
    | none => "bad-arg"
    | some c => showRes (mofRemoteHas (storeOf c.objs) (fuelFor c) c.haves c.wants c.shallow)
  | "c05.closure" => some <| match parse args with
    | none => "bad-arg"
    | some c => match closure (storeOf c.objs) (fuelFor c) c.roots with
      | some l => "ok " ++ showIds l
      | none => "err fuel"
  | "c05.welltyped" => some <| match parse args with
    | none => "bad-arg"
    | some c => showBool (wellTypedB c.objs)
  | "c05.nego" => some <| match parse args with
    | none => "bad-arg"
    | some c => runNego c
  | "c05.request" => some <| match parse args with
    | none => "bad-arg"
    | some c => " ".intercalate ((mkRequest { shallow := c.shallow } c.wants c.depth c.since c.exclude c.v2).map showReq)
  | "c05.shallowans" => some <| match parse args with
    | none => "bad-arg"
    | some c => runShallowAns c
  | "c05.kind" => some <| match args with
    | [m] => (match nat? m with
      | some m => (match kindOfMode m with | .file => "file" | .dir => "dir" | .gitlink => "gitlink")
      | none => "bad-arg")
    | _ => "bad-arg"
  | _ => none

end DriverC05

def main : IO Unit := DriverUtil.run DriverC05.handle
