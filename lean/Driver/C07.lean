/- Line-protocol ops for the lock-protocol transition system (C07).

   c07.run <prog> <target> <dir> <actors> <schedule>
     prog     : `gen` (the program the translator read off the source) | `old` (before dd7ffc5)
     target   : `x` (no file at `f`) or the hex content of the initial file (`-` = empty)
     dir      : `1` / `0` — does the parent directory of `f` exist initially
     actors   : `|`-separated  <fsync 0/1><perm 0/1><mkdirFirst 0/1>:<body>:<hW>:<hC>;  op lists are `.`-separated
                `w<hex>` / `c` / `a`, `_` = empty list;  `R` = a pruner (one rmdir of the parent directory)
     schedule : `,`-separated  <actor index>[!]   (`!` = the call fails with an injected error), `_` = empty
   answer: one `call:outcome:content-of-f:lock-creator:dir` per step, joined by `;`, then
           ` | done=<bits> owns=<bits> closed=<bits> committed=<hex|x per actor>`
   c07.program  ->  the generated program, for the evidence file
-/
import DulwichModel.Model.Lock
import Driver.Util
namespace DriverC07
open Dulwich Dulwich.Lock DriverUtil

def parseOp (s : String) : Option Op :=
  match s.toList with
  | ['c'] => some .close
  | ['a'] => some .abort
  | 'w' :: h => (bytes? (String.ofList h)).map .write
  | _ => none

def parseOps (s : String) : Option (List Op) :=
  if s = "_" then some [] else (s.splitOn ".").mapM parseOp

def parseActor (s : String) : Option Actor :=
  if s = "R" then some Actor.pruner else
  match s.splitOn ":" with
  | [flags, body, hW, hC] =>
    match flags.toList with
    | [f, p, m] => do
      let f ← bool? (String.ofList [f])
      let p ← bool? (String.ofList [p])
      let m ← bool? (String.ofList [m])
      some { Actor.init f p (← parseOps body) (← parseOps hW) (← parseOps hC) with mkdirFirst := m }
    | _ => none
  | _ => none

def parseStep (s : String) : Option (Nat × Bool) :=
  match s.toList.reverse with
  | '!' :: r => (nat? (String.ofList r.reverse)).map (·, true)
  | _ => (nat? s).map (·, false)

def parseSched (s : String) : Option Sched :=
  if s = "_" then some [] else (s.splitOn ",").mapM parseStep

def parseProg (s : String) : Option Program :=
  if s = "gen" then some gitFile else if s = "old" then some gitFileOld else none

def showContent (c : Option Bytes) : String :=
  match c with | none => "x" | some b => hex b

def showLock (l : Option Nat) : String :=
  match l with | none => "x" | some i => toString i

def bits (n : Nat) (f : Nat → Bool) : String :=
  String.ofList ((List.range n).map (fun i => if f i then '1' else '0'))

def mkState (tgt : Option Bytes) (as : List Actor) (dir : Bool) : State := State.ofList tgt.isSome as dir

def runTrace (P : Program) (init : Bytes) : State → Sched → List String → State × List String
  | s, [], acc => (s, acc.reverse)
  | s, (i, f) :: rest, acc =>
    let call := stepCall P s i
    let out := stepOut P s i f
    let s' := step P s i f
    runTrace P init s' rest
      (s!"{call}:{out.name}:{showContent (content s' init)}:{showLock s'.fs.lock}:{showBool s'.fs.dir}" :: acc)

def handle (op : String) (args : List String) : Option String :=
  match op, args with
  | "c07.run", [prog, tgt, dir, actors, sch] => some <|
    let tgt? : Option (Option Bytes) := if tgt = "x" then some none else (bytes? tgt).map some
    match parseProg prog, tgt?, (actors.splitOn "|").mapM parseActor, parseSched sch, bool? dir with
    | some P, some t, some as, some sc, some d =>
      let n := as.length
      if sc.any (fun p => p.1 ≥ n) then "bad-arg" else
      let init := t.getD []
      let (s, tr) := runTrace P init (mkState t as d) sc []
      let fin := s!"done={bits n (fun i => (s.actors i).pc == .done)} owns={bits n (fun i => (s.actors i).owns)} closed={bits n (fun i => (s.actors i).closed)} committed={",".intercalate ((List.range n).map (fun i => showContent (s.actors i).committed))}"
      ";".intercalate tr ++ " | " ++ fin
    | _, _, _, _, _ => "bad-arg"
  | "c07.program", [] => some <|
    s!"opens={gitFile.opens} guardClose={gitFile.guardClose} closePre={gitFile.closePre.map (fun p => (p.1.name, p.2))} finallyAbort={gitFile.finallyAbort} markClosedOnReplace={gitFile.markClosedOnReplace} guardAbort={gitFile.guardAbort} abortRemoves={gitFile.abortRemoves} abortCloseInTry={gitFile.abortCloseInTry} wellBehaved={gitFile.wellBehaved} abortsOnAnyCloseFailure={gitFile.abortsOnAnyCloseFailure}"
  | _, _ => none

end DriverC07

def main : IO Unit := DriverUtil.run DriverC07.handle
