/- Line-protocol driver for property C02 (pack + pack index).  Core Lean only.

   zlib and the hashes are parameters of the model.  Here they are instantiated from tables the harness
   computes with Python's `zlib` independently of dulwich: `inflate` by the table "a complete zlib stream of
   `clen` bytes starts at pack offset `off` and inflates to `data`", `deflate` by "data ↦ compressed bytes".
   The trailer hash is left out of the emitted files (`H := fun _ => []`); the harness appends
   `hashlib`'s digest of the emitted body before comparing byte for byte. -/
import Driver.Util
import DulwichModel.Model.Pack
import DulwichModel.Model.PackIndex

namespace DriverC02
open Dulwich Dulwich.Pack Dulwich.PackIndex DriverUtil

def showErr (e : Err) : String := "err:" ++ toString e

def parseIdxEntry (s : String) : Option IdxEntry :=
  match s.splitOn ":" with
  | [n, o, c] => do some ⟨← bytes? n, ← nat? o, ← nat? c⟩
  | _ => none

/-- `off:clen:datahex,off:clen:datahex,…` or `-` -/
def parseZTable (s : String) : Option (List (Nat × Nat × Bytes)) :=
  if s = "-" then some [] else
  (s.splitOn ",").mapM fun t =>
    match t.splitOn ":" with
    | [o, l, d] => do some (← nat? o, ← nat? l, ← bytes? d)
    | _ => none

def inflateTab (tab : List (Nat × Nat × Bytes)) (total : Nat) (buf : Bytes) : Option (Bytes × Bytes) :=
  match tab.find? (fun t => t.1 = total - buf.length) with
  | some (_, clen, data) => some (data, buf.drop clen)
  | none => none

def showBase : BaseRef → String
  | .none => "-"
  | .ofs d => s!"o{d}"
  | .ref n => "r" ++ hex n

def showEntry (p : Nat × Entry) : String := s!"{p.1}:{p.2.ty}:{showBase p.2.base}:{hex p.2.data}"

/-- `name:ty:base:datahex:comphex` -/
def parseRec (s : String) : Option (Rec × Bytes) :=
  match s.splitOn ":" with
  | [n, t, b, d, c] => do
    let base ← if b = "-" then some none else (bytes? b).map some
    some (⟨← bytes? n, ← nat? t, base, ← bytes? d⟩, ← bytes? c)
  | _ => none

def deflateTab (tab : List (Rec × Bytes)) (d : Bytes) : Bytes :=
  match tab.find? (fun t => t.1.data = d) with
  | some (_, c) => c
  | none => []

def noHash : Bytes → Bytes := fun _ => []

def showLookup : Except Err Nat → String
  | .ok o => s!"ok:{o}"
  | .error e => showErr e

def showCrc : Option Nat → String
  | none => "-"
  | some c => toString c

def handle (op : String) (args : List String) : Option String :=
  match op, args with
  | "c02.enchdr", [t, n] => some <| match nat? t, nat? n with
      | some t, some n => hex (encodeObjHeader t n) | _, _ => "bad-arg"
  | "c02.dechdr", [h] => some <| match bytes? h with
      | some d => (match takeMsb d with
          | none => "none"
          | some (raw, rest) => (match decodeObjHeaderRaw raw with
              | none => "none"
              | some (ty, size) => s!"{ty} {size} {hex rest}"))
      | none => "bad-arg"
  | "c02.encofs", [n] => some <| match nat? n with
      | some n => hex (encodeOfs n) | none => "bad-arg"
  | "c02.decofs", [h] => some <| match bytes? h with
      | some d => (match takeMsb d with
          | none => "none"
          | some (raw, rest) => (match decodeOfsRaw raw with
              | .ok v => s!"ok {v} {hex rest}"
              | .error e => showErr e))
      | none => "bad-arg"
  | "c02.idxwrite", v :: fmt :: cs :: es => some <|
      match nat? v, nat? fmt, bytes? cs, es.mapM parseIdxEntry with
      | some v, some fmt, some cs, some es =>
        let r := if v = 1 then writeIndexV1 noHash es cs
                 else if v = 2 then writeIndexV2 noHash es cs
                 else writeIndexV3 noHash es cs fmt
        (match r with | .ok b => "ok " ++ hex b | .error e => showErr e)
      | _, _, _, _ => "bad-arg"
  | "c02.idxload", [hs, c] => some <| match nat? hs, bytes? c with
      | some hs, some c => (match loadIndex hs c with
          | .ok x => s!"ok {x.version} {x.n}" | .error e => showErr e)
      | _, _ => "bad-arg"
  | "c02.idxlookup", hs :: c :: names => some <| match nat? hs, bytes? c, names.mapM bytes? with
      | some hs, some c, some names => (match loadIndex hs c with
          | .ok x => " ".intercalate (names.map fun n => showLookup (x.lookup n))
          | .error e => showErr e)
      | _, _, _ => "bad-arg"
  | "c02.idxentries", [hs, c] => some <| match nat? hs, bytes? c with
      | some hs, some c => (match loadIndex hs c with
          | .ok x => (match x.entries with
              | .ok es => " ".intercalate ("ok" :: es.map fun e => s!"{hex e.1}:{e.2.1}:{showCrc e.2.2}")
              | .error e => showErr e)
          | .error e => showErr e)
      | _, _ => "bad-arg"
  | "c02.idxname", hs :: c :: offs => some <| match nat? hs, bytes? c, offs.mapM nat? with
      | some hs, some c, some offs => (match loadIndex hs c with
          | .ok x => " ".intercalate (offs.map fun o => match x.nameOfOffset o with
              | .ok n => "ok:" ++ hex n | .error e => showErr e)
          | .error e => showErr e)
      | _, _, _ => "bad-arg"
  | "c02.packparse", [hs, p, zt] => some <| match nat? hs, bytes? p, parseZTable zt with
      | some hs, some p, some zt => (match readPackSeq (inflateTab zt p.length) hs p with
          | .ok es => " ".intercalate ("ok" :: es.map showEntry)
          | .error e => showErr e)
      | _, _, _ => "bad-arg"
  | "c02.getraw", hs :: p :: zt :: ix :: names => some <|
      match nat? hs, bytes? p, parseZTable zt, bytes? ix, names.mapM bytes? with
      | some hs, some p, some zt, some ix, some names => (match loadIndex hs ix with
          | .error e => showErr e
          | .ok x =>
            " ".intercalate (names.map fun n =>
              match x.lookup n with
              | .error e => showErr e
              | .ok off =>
                match resolveAt (inflateTab zt p.length) hs x.lookup p (x.n + 1) off with
                | .ok (ty, data) => s!"ok:{ty}:{hex data}"
                | .error e => showErr e))
      | _, _, _, _, _ => "bad-arg"
  | "c02.packwrite", recs => some <| match recs.mapM parseRec with
      | some tab =>
        let w := writePack (deflateTab tab) noHash (tab.map (·.1))
        " ".intercalate (hex w.1 :: w.2.reverse.map fun e => s!"{hex e.name}:{e.offset}:{e.raw.length}")
      | none => "bad-arg"
  | "c02.zat", [b, l, buf] => some <| match nat? b, nat? l, bytes? buf with
      | some b, some l, some buf =>
        (match zlibWalkAt Gen.Pack.zlibAtEndsOnUnused b l buf (l + 2) 0 [] with
          | some (fed, e) => s!"ok {hex fed} {e}" | none => "err")
      | _, _, _ => "bad-arg"
  | "c02.zstream", l :: chunks => some <| match nat? l, chunks.mapM bytes? with
      | some l, some chunks =>
        (match zlibWalkStream l chunks 0 [] with
          | some (fed, un) => s!"ok {hex fed} {hex un}" | none => "err")
      | _, _ => "bad-arg"
  | "c02.trailer", hs :: chunks => some <| match nat? hs, chunks.mapM bytes? with
      | some hs, some chunks =>
        let s := feedAll hs chunks
        s!"{hex s.hashed} {hex s.trailer}"
      | _, _ => "bad-arg"
  | _, _ => none

end DriverC02

def main : IO Unit := DriverUtil.run DriverC02.handle
