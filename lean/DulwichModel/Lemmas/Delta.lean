/- Helper lemmas for the delta codec (C03).  Property theorems live in Props/C03.lean. -/
import DulwichModel.Model.Delta
import Mathlib.Tactic.Ring

namespace Dulwich.Delta
open Dulwich

/-! ### size varint -/

theorem u8_toNat_ofNat {n : Nat} (h : n < 256) : (UInt8.ofNat n).toNat = n := by
  simp [UInt8.toNat_ofNat']; omega

theorem decodeSizeAux_encodeSize (n : Nat) : ∀ (shift acc : Nat) (rest : Bytes),
    decodeSizeAux shift acc (encodeSize n ++ rest) = some (acc + n * 2 ^ shift, rest) := by
  induction n using Nat.strongRecOn with
  | _ n ih =>
    intro shift acc rest
    unfold encodeSize
    split
    · rename_i h
      have h1 : (UInt8.ofNat n).toNat = n := u8_toNat_ofNat (by omega)
      simp [decodeSizeAux, h1, h, Nat.mod_eq_of_lt h]
    · rename_i h
      have h1 : (UInt8.ofNat (n % 128 + 128)).toNat = n % 128 + 128 := u8_toNat_ofNat (by omega)
      have h2 : ¬ (n % 128 + 128 < 128) := by omega
      have h3 : (n % 128 + 128) % 128 = n % 128 := by omega
      simp only [List.cons_append, decodeSizeAux, h1, h2, h3, if_false]
      rw [ih (n / 128) (by omega)]
      have : n % 128 * 2 ^ shift + n / 128 * 2 ^ (shift + 7) = n * 2 ^ shift := by
        have hn : n = 128 * (n / 128) + n % 128 := (Nat.div_add_mod n 128).symm
        generalize n / 128 = q at *
        generalize n % 128 = r at *
        subst hn
        ring
      rw [Nat.add_assoc, this]

/-! ### copy operation -/

theorem emitLE_flags_length (k n : Nat) : (emitLE k n).1.length = k := by
  induction k generalizing n with
  | zero => simp [emitLE]
  | succ k ih => simp only [emitLE]; split <;> simp [ih]

theorem readLE_emitLE (k : Nat) : ∀ (n : Nat) (r : Bytes), n < 256 ^ k →
    readLE (emitLE k n).1 ((emitLE k n).2 ++ r) = some (n, r) := by
  induction k with
  | zero => intro n r h; simp at h; simp [emitLE, readLE, h]
  | succ k ih =>
    intro n r h
    have hq : n / 256 < 256 ^ k := by
      rw [Nat.pow_succ] at h
      exact Nat.div_lt_of_lt_mul (by rw [Nat.mul_comm]; exact h)
    simp only [emitLE]
    split
    · rename_i h0
      simp only [readLE, ih (n / 256) r hq, Option.map_some]
      congr 2; omega
    · rename_i h0
      have hb : (UInt8.ofNat (n % 256)).toNat = n % 256 := u8_toNat_ofNat (Nat.mod_lt _ (by decide))
      simp only [List.cons_append, readLE, ih (n / 256) r hq, Option.map_some, hb]
      congr 2; omega

theorem readLE_append_false (fl : List Bool) (d : Bytes) :
    readLE (fl ++ [false]) d = readLE fl d := by
  induction fl generalizing d with
  | nil => simp [readLE]
  | cons b fl ih =>
    cases b with
    | false => simp [readLE, ih]
    | true =>
      cases d with
      | nil => simp [readLE]
      | cons x d => simp [readLE, ih]

theorem bitsVal_lt (fl : List Bool) : bitsVal fl < 2 ^ fl.length := by
  induction fl with
  | nil => simp [bitsVal]
  | cons b fl ih => simp only [bitsVal, List.length_cons, Nat.pow_succ]; split <;> omega

theorem bitsOf_bitsVal (fl : List Bool) (m : Nat) :
    bitsOf fl.length (bitsVal fl + 2 ^ fl.length * m) = fl := by
  induction fl generalizing m with
  | nil => simp [bitsOf]
  | cons b fl ih =>
    simp only [List.length_cons, bitsOf, bitsVal]
    have e : 2 ^ (fl.length + 1) * m = 2 * (2 ^ fl.length * m) := by ring
    rw [e]
    have hdiv : ((if b = true then 1 else 0) + 2 * bitsVal fl + 2 * (2 ^ fl.length * m)) / 2
        = bitsVal fl + 2 ^ fl.length * m := by
      generalize 2 ^ fl.length * m = P
      split <;> omega
    have hmod : (((if b = true then 1 else 0) + 2 * bitsVal fl + 2 * (2 ^ fl.length * m)) % 2 = 1) = (b = true) := by
      generalize 2 ^ fl.length * m = P
      cases b <;> simp
    rw [hdiv, ih]
    congr 1
    simp only [hmod]
    cases b <;> simp

theorem readLE_length {fl : List Bool} : ∀ {d r : Bytes} {v : Nat}, readLE fl d = some (v, r) →
    r.length ≤ d.length := by
  induction fl with
  | nil => intro d r v h; simp [readLE] at h; rw [h.2]
  | cons b fl ih =>
    intro d r v h
    cases b with
    | false =>
      simp only [readLE, Option.map_eq_some_iff] at h
      obtain ⟨⟨v', r'⟩, h1, h2⟩ := h
      simp only [Prod.mk.injEq] at h2
      obtain ⟨_, rfl⟩ := h2
      exact ih h1
    | true =>
      cases d with
      | nil => simp [readLE] at h
      | cons x d =>
        simp only [readLE, Option.map_eq_some_iff] at h
        obtain ⟨⟨v', r'⟩, h1, h2⟩ := h
        simp only [Prod.mk.injEq] at h2
        obtain ⟨_, rfl⟩ := h2
        have := ih h1
        simp only [List.length_cons]
        omega

end Dulwich.Delta
