/-
  Helper lemmas for C06 (Model/ReceivePack.lean): the specification of one ref update, and what the two
  update loops preserve.  The property theorems themselves are in Props/C06.lean.
-/
import DulwichModel.Model.ReceivePack

namespace Dulwich.ReceivePack
open Dulwich
open Dulwich.Gen.ReceivePack (okMsg staleMsg missingMsg failedDeleteMsg failedWriteMsg badRefMsg
  atomicFailedMsg unpackName atomicCap)

instance {ε α : Type} [DecidableEq ε] [DecidableEq α] : DecidableEq (Except ε α) := fun a b =>
  match a, b with
  | .ok x, .ok y => if h : x = y then isTrue (by rw [h]) else isFalse (fun e => h (Except.ok.inj e))
  | .error x, .error y => if h : x = y then isTrue (by rw [h]) else isFalse (fun e => h (Except.error.inj e))
  | .ok _, .error _ => isFalse (fun e => by cases e)
  | .error _, .ok _ => isFalse (fun e => by cases e)

/-! ### the status literals are pairwise what the proofs need (re-checked against the source every run) -/

theorem failedDelete_ne_ok : failedDeleteMsg ≠ okMsg := by decide
theorem failedWrite_ne_ok : failedWriteMsg ≠ okMsg := by decide
theorem badRef_ne_ok : badRefMsg ≠ okMsg := by decide
theorem stale_ne_ok : staleMsg ≠ okMsg := by decide
theorem missing_ne_ok : missingMsg ≠ okMsg := by decide
theorem atomicFailed_ne_ok : atomicFailedMsg ≠ okMsg := by decide
theorem failedLock_ne_ok : Gen.ReceivePack.failedLockMsg ≠ okMsg := by decide

/-- update hooks never "decline" with the literal message `ok` -/
def HookSane (env : Env) : Prop := ∀ c, env.hook c ≠ some okMsg

/-- the refs after a successful compare-and-swap for `c` -/
def Cmd.applyTo (c : Cmd) (r : Refs) : Refs :=
  if isZero c.new then r.del c.name else r.set c.name c.new

theorem Cmd.applyTo_self (c : Cmd) (r : Refs) : c.applyTo r c.name = c.target := by
  unfold Cmd.applyTo Cmd.target Refs.del Refs.set
  split <;> simp

theorem Cmd.applyTo_other (c : Cmd) (r : Refs) {n : Name} (h : n ≠ c.name) : c.applyTo r n = r n := by
  unfold Cmd.applyTo Refs.del Refs.set
  split <;> simp [h]

/-- Specification of one iteration of an update loop: either the refs are untouched (and if the status is
nevertheless `ok`, the old value did not match and the CAS result was dropped), or the compare-and-swap
happened: old matched, the ref now holds the requested value, the status is `ok`. -/
def StepOutcome (fl : Flags) (env : Env) (s : Srv) (c : Cmd) (s' : Srv) (m : Bytes) : Prop :=
  s'.store = s.store ∧
  ((s'.refs = s.refs ∧ (m = okMsg → cur s.refs c.name ≠ c.old ∧ fl.useCas = false)) ∨
   (cur s.refs c.name = c.old ∧ s'.refs = c.applyTo s.refs ∧ m = okMsg ∧ env.fault c.name = none ∧
    (isZero c.new = false → fl.checkNew = true → s.store c.new = true)))

def StepSpec (fl : Flags) (env : Env) (step : Srv → Cmd → Except Exc (Srv × Bytes)) : Prop :=
  ∀ s c s' m, step s c = .ok (s', m) → StepOutcome fl env s c s' m

theorem guarded_spec {fl : Flags} {env : Env} {s s' : Srv} {c : Cmd} {m failMsg : Bytes}
    {r' : Refs} {b : Bool} (hf : failMsg ≠ okMsg)
    (hb : b = true ↔ cur s.refs c.name = c.old)
    (hr : b = true → r' = c.applyTo s.refs) (hr' : b = false → r' = s.refs)
    (hnew : isZero c.new = false → fl.checkNew = true → s.store c.new = true)
    (h : guarded env s c.name failMsg (fun _ => (r', b)) fl = .ok (s', m)) :
    StepOutcome fl env s c s' m := by
  unfold guarded at h
  split at h
  · -- the container raised
    split at h
    · cases h
      exact ⟨rfl, Or.inl ⟨rfl, fun e => absurd e failedLock_ne_ok⟩⟩
    · split at h
      · cases h
        exact ⟨rfl, Or.inl ⟨rfl, fun e => absurd e hf⟩⟩
      · split at h
        · cases h
          exact ⟨rfl, Or.inl ⟨rfl, fun e => absurd e badRef_ne_ok⟩⟩
        · cases h
  · rename_i hfault
    simp only [Except.ok.injEq, Prod.mk.injEq] at h
    obtain ⟨rfl, rfl⟩ := h
    refine ⟨rfl, ?_⟩
    cases b with
    | true =>
      right
      refine ⟨hb.mp rfl, hr rfl, by simp, hfault, hnew⟩
    | false =>
      left
      refine ⟨hr' rfl, ?_⟩
      have hne : cur s.refs c.name ≠ c.old := fun e => by simpa using hb.mpr e
      cases hu : fl.useCas with
      | true => simp [stale_ne_ok]
      | false => simp [hne]

theorem updateRef_spec (fl : Flags) (env : Env) (caps : List Bytes) (dc : Bool) :
    StepSpec fl env (updateRef fl env caps dc) := by
  intro s c s' m h
  unfold updateRef at h
  split at h
  · rename_i hz
    split at h
    · cases h
    · unfold removeIfEquals at h
      by_cases hc : cur s.refs c.name = c.old
      · simp only [hc, if_true] at h
        exact guarded_spec failedDelete_ne_ok (by simp [hc]) (by simp [Cmd.applyTo, hz]) (by simp)
          (by simp [hz]) h
      · simp only [hc, if_false] at h
        exact guarded_spec failedDelete_ne_ok (by simp [hc]) (by simp) (by simp) (by simp [hz]) h
  · rename_i hz
    have hz' : isZero c.new = false := by simpa using hz
    split at h
    · rename_i hmiss
      cases h
      exact ⟨rfl, Or.inl ⟨rfl, fun e => absurd e missing_ne_ok⟩⟩
    · rename_i hmiss
      have hnew : isZero c.new = false → fl.checkNew = true → s.store c.new = true := by
        intro _ hck
        simpa [hck] using hmiss
      unfold setIfEquals at h
      by_cases hc : cur s.refs c.name = c.old
      · simp only [hc, if_true] at h
        exact guarded_spec failedWrite_ne_ok (by simp [hc]) (by simp [Cmd.applyTo, hz']) (by simp) hnew h
      · simp only [hc, if_false] at h
        exact guarded_spec failedWrite_ne_ok (by simp [hc]) (by simp) (by simp) hnew h

theorem hookError_ne_ok {env : Env} (hs : HookSane env) {c : Cmd} {m : Bytes}
    (h : hookError env c = some m) : m ≠ okMsg := by
  unfold hookError at h
  split at h
  · rename_i m' hm
    split at h
    · cases h
    · cases h
      intro e
      exact hs c (by rw [hm, e])
  · cases h

theorem plainStep_spec (fl : Flags) (env : Env) (caps : List Bytes) (hs : HookSane env) :
    StepSpec fl env (plainStep fl env caps) := by
  intro s c s' m h
  unfold plainStep at h
  split at h
  · rename_i msg hm
    cases h
    exact ⟨rfl, Or.inl ⟨rfl, fun e => absurd e (hookError_ne_ok hs hm)⟩⟩
  · exact updateRef_spec fl env caps true s c s' m h

/-! ### consequences of one step -/

theorem StepOutcome.frame {fl env s c s' m} (h : StepOutcome fl env s c s' m) {n : Name} (hn : n ≠ c.name) :
    s'.refs n = s.refs n := by
  obtain ⟨_, h | h⟩ := h
  · rw [h.1]
  · rw [h.2.1, Cmd.applyTo_other c s.refs hn]

/-- what the step means for the commanded ref itself -/
def CmdResult (fl : Flags) (before : Refs) (after : Option Id) (c : Cmd) (m : Bytes) : Prop :=
  (after = before c.name ∧ (m = okMsg → cur before c.name ≠ c.old ∧ fl.useCas = false)) ∨
  (cur before c.name = c.old ∧ after = c.target ∧ m = okMsg)

theorem StepOutcome.result {fl env s c s' m} (h : StepOutcome fl env s c s' m) :
    CmdResult fl s.refs (s'.refs c.name) c m := by
  obtain ⟨_, h | h⟩ := h
  · exact Or.inl ⟨by rw [h.1], h.2⟩
  · exact Or.inr ⟨h.1, by rw [h.2.1, Cmd.applyTo_self], h.2.2.1⟩

/-! ### the loops -/

theorem runLoop_store {fl env step} (hs : StepSpec fl env step) (s : Srv) (cmds : List Cmd) :
    (runLoop step s cmds).srv.store = s.store := by
  induction cmds generalizing s with
  | nil => rfl
  | cons c cs ih =>
    unfold runLoop
    split
    · rfl
    · rename_i s' m hst
      simp only
      rw [ih s', (hs s c s' m hst).1]

theorem runLoop_frame {fl env step} (hs : StepSpec fl env step) (s : Srv) (cmds : List Cmd) (n : Name)
    (hn : n ∉ cmds.map (·.name)) : (runLoop step s cmds).srv.refs n = s.refs n := by
  induction cmds generalizing s with
  | nil => rfl
  | cons c cs ih =>
    simp only [List.map_cons, List.mem_cons, not_or] at hn
    unfold runLoop
    split
    · rfl
    · rename_i s' m hst
      simp only
      rw [ih s' hn.2, (hs s c s' m hst).frame hn.1]

/-- (ii) a ref only ever changes to the value some command asked for -/
theorem runLoop_only_commanded {fl env step} (hs : StepSpec fl env step) (s : Srv) (cmds : List Cmd) (n : Name) :
    (runLoop step s cmds).srv.refs n = s.refs n ∨
      ∃ c ∈ cmds, c.name = n ∧ (runLoop step s cmds).srv.refs n = c.target := by
  induction cmds generalizing s with
  | nil => exact Or.inl rfl
  | cons c cs ih =>
    unfold runLoop
    split
    · exact Or.inl rfl
    · rename_i s' m hst
      simp only
      rcases ih s' with h | ⟨c', hc', hn, hv⟩
      · by_cases hn : n = c.name
        · have := (hs s c s' m hst).result
          rcases this with ⟨h1, _⟩ | ⟨_, h1, _⟩
          · left; rw [h, hn, h1]
          · right; exact ⟨c, List.mem_cons_self, hn.symm, by rw [h, hn, h1]⟩
        · left; rw [h, (hs s c s' m hst).frame hn]
      · right; exact ⟨c', List.mem_cons_of_mem _ hc', hn, hv⟩

theorem runLoop_status_names {step} (s : Srv) (cmds : List Cmd)
    (hr : (runLoop step s cmds).raised = none) :
    (runLoop step s cmds).status.map (·.1) = cmds.map (·.name) := by
  induction cmds generalizing s with
  | nil => rfl
  | cons c cs ih =>
    unfold runLoop at hr ⊢
    split
    · rename_i e he
      rw [he] at hr
      cases hr
    · rename_i s' m hst
      rw [hst] at hr
      simp only at hr ⊢
      rw [List.map_cons, List.map_cons, ih s' hr]

/-- Main loop lemma: with distinct names and no escaping exception every command has exactly its own
status entry, related to the ref before/after as `CmdResult` says. -/
theorem runLoop_cmd {fl env step} (hs : StepSpec fl env step) (s : Srv) (cmds : List Cmd)
    (hnd : (cmds.map (·.name)).Nodup) (hr : (runLoop step s cmds).raised = none) :
    ∀ c ∈ cmds, ∃ m, (runLoop step s cmds).status.lookup c.name = some m ∧
      CmdResult fl s.refs ((runLoop step s cmds).srv.refs c.name) c m := by
  induction cmds generalizing s with
  | nil => intro c hc; cases hc
  | cons c0 cs ih =>
    simp only [List.map_cons, List.nodup_cons] at hnd
    intro c hc
    unfold runLoop at hr ⊢
    split
    · rename_i e he
      rw [he] at hr
      cases hr
    · rename_i s' m0 hst
      rw [hst] at hr
      simp only at hr ⊢
      have hso := hs s c0 s' m0 hst
      rcases List.mem_cons.mp hc with rfl | hc
      · refine ⟨m0, by simp [List.lookup], ?_⟩
        rw [runLoop_frame hs s' cs c.name hnd.1]
        exact hso.result
      · have hne : c.name ≠ c0.name := by
          intro e
          exact hnd.1 (e ▸ List.mem_map_of_mem hc)
        obtain ⟨m, hm, hres⟩ := ih s' hnd.2 hr c hc
        refine ⟨m, ?_, ?_⟩
        · have : (c.name == c0.name) = false := by simpa using hne
          simp [List.lookup, this, hm]
        · unfold CmdResult cur at hres ⊢
          rw [hso.frame hne] at hres
          exact hres

/-- without the status (also when an exception escaped): a stale command leaves its ref untouched, a ref
that did change holds the requested value -/
theorem runLoop_ref {fl env step} (hs : StepSpec fl env step) (s : Srv) (cmds : List Cmd)
    (hnd : (cmds.map (·.name)).Nodup) :
    ∀ c ∈ cmds, (runLoop step s cmds).srv.refs c.name = s.refs c.name ∨
      (cur s.refs c.name = c.old ∧ (runLoop step s cmds).srv.refs c.name = c.target) := by
  induction cmds generalizing s with
  | nil => intro c hc; cases hc
  | cons c0 cs ih =>
    simp only [List.map_cons, List.nodup_cons] at hnd
    intro c hc
    unfold runLoop
    split
    · exact Or.inl rfl
    · rename_i s' m0 hst
      simp only
      have hso := hs s c0 s' m0 hst
      rcases List.mem_cons.mp hc with rfl | hc
      · rw [runLoop_frame hs s' cs c.name hnd.1]
        rcases hso.result with ⟨h1, _⟩ | ⟨h0, h1, _⟩
        · exact Or.inl h1
        · exact Or.inr ⟨h0, h1⟩
      · have hne : c.name ≠ c0.name := by
          intro e
          exact hnd.1 (e ▸ List.mem_map_of_mem hc)
        have := ih s' hnd.2 c hc
        unfold cur at this ⊢
        rw [hso.frame hne] at this
        exact this

/-! ### invariant: every ref target is in the object store -/

def RefsInStore (s : Srv) : Prop := ∀ n v, s.refs n = some v → s.store v = true

theorem applyTo_inStore {s : Srv} {c : Cmd} (hi : RefsInStore s)
    (hnew : isZero c.new = false → s.store c.new = true) :
    ∀ n v, c.applyTo s.refs n = some v → s.store v = true := by
  intro n v h
  unfold Cmd.applyTo Refs.del Refs.set at h
  split at h
  · simp only at h
    split at h
    · cases h
    · exact hi n v h
  · rename_i hz
    simp only at h
    split at h
    · cases h
      exact hnew (by simpa using hz)
    · exact hi n v h

theorem runLoop_inStore {fl env step} (hs : StepSpec fl env step) (s : Srv) (cmds : List Cmd)
    (hnew : ∀ c ∈ cmds, isZero c.new = false → fl.checkNew = false → s.store c.new = true)
    (hi : RefsInStore s) : RefsInStore (runLoop step s cmds).srv := by
  induction cmds generalizing s with
  | nil => exact hi
  | cons c cs ih =>
    unfold runLoop
    split
    · exact hi
    · rename_i s' m hst
      simp only
      have hso := hs s c s' m hst
      apply ih s'
      · intro c' hc' hz hck
        rw [hso.1]
        exact hnew c' (List.mem_cons_of_mem _ hc') hz hck
      · intro n v hv
        rw [hso.1]
        obtain ⟨_, h | h⟩ := hso
        · rw [h.1] at hv; exact hi n v hv
        · rw [h.2.1] at hv
          refine applyTo_inStore hi ?_ n v hv
          intro hz
          cases hck : fl.checkNew with
          | true => exact h.2.2.2.2 hz hck
          | false => exact hnew c List.mem_cons_self hz hck

/-! ### when every command is applicable, every command is applied (used for `atomic`) -/

theorem updateRef_success {fl : Flags} {env : Env} {caps : List Bytes} {s : Srv} {c : Cmd}
    (hf : env.fault c.name = none) (hold : cur s.refs c.name = c.old)
    (hnew : isZero c.new = false → s.store c.new = true) :
    updateRef fl env caps false s c = .ok (⟨c.applyTo s.refs, s.store⟩, okMsg) := by
  unfold updateRef guarded Cmd.applyTo
  cases hz : isZero c.new with
  | true => simp [hf, removeIfEquals, hold]
  | false => simp [hf, setIfEquals, hold, hnew hz]

theorem atomicApply_all {fl : Flags} {env : Env} {caps : List Bytes} (s : Srv) (cmds : List Cmd)
    (hnd : (cmds.map (·.name)).Nodup)
    (hok : ∀ c ∈ cmds, env.fault c.name = none ∧ cur s.refs c.name = c.old ∧
      (isZero c.new = false → s.store c.new = true)) :
    (atomicApply fl env caps s cmds).raised = none ∧
    (∀ c ∈ cmds, (atomicApply fl env caps s cmds).srv.refs c.name = c.target) ∧
    (∀ p ∈ (atomicApply fl env caps s cmds).status, p.2 = okMsg) := by
  unfold atomicApply
  induction cmds generalizing s with
  | nil => exact ⟨rfl, (fun c hc => by cases hc), (fun p hp => by cases hp)⟩
  | cons c0 cs ih =>
    simp only [List.map_cons, List.nodup_cons] at hnd
    obtain ⟨hf0, hold0, hnew0⟩ := hok c0 List.mem_cons_self
    have hstep := updateRef_success (fl := fl.noCheck) (caps := caps) hf0 hold0 hnew0
    have hs := updateRef_spec fl.noCheck env caps false
    have hrest : ∀ c ∈ cs, env.fault c.name = none ∧
        cur (⟨c0.applyTo s.refs, s.store⟩ : Srv).refs c.name = c.old ∧
        (isZero c.new = false → (⟨c0.applyTo s.refs, s.store⟩ : Srv).store c.new = true) := by
      intro c hc
      obtain ⟨a, b, d⟩ := hok c (List.mem_cons_of_mem _ hc)
      have hne : c.name ≠ c0.name := by
        intro e
        exact hnd.1 (e ▸ List.mem_map_of_mem hc)
      refine ⟨a, ?_, d⟩
      unfold cur at b ⊢
      simp only
      rw [Cmd.applyTo_other c0 s.refs hne]
      exact b
    obtain ⟨ih1, ih2, ih3⟩ := ih ⟨c0.applyTo s.refs, s.store⟩ hnd.2 hrest
    unfold runLoop
    rw [hstep]
    simp only
    refine ⟨ih1, ?_, ?_⟩
    · intro c hc
      rcases List.mem_cons.mp hc with rfl | hc
      · rw [runLoop_frame hs _ cs c.name hnd.1]
        exact Cmd.applyTo_self c s.refs
      · exact ih2 c hc
    · intro p hp
      rcases List.mem_cons.mp hp with rfl | hp
      · rfl
      · exact ih3 p hp

/-! ### the atomic validation loop -/

theorem validateAll_names {fl env caps s} (cmds : List Cmd) {rs f}
    (h : validateAll fl env caps s cmds = .ok (rs, f)) : rs.map (·.1) = cmds.map (·.name) := by
  induction cmds generalizing rs f with
  | nil => simp only [validateAll, Except.ok.injEq, Prod.mk.injEq] at h; obtain ⟨rfl, _⟩ := h; rfl
  | cons c cs ih =>
    unfold validateAll at h
    split at h
    · cases h
    · split at h
      · cases h
      · rename_i rs' f' hv
        simp only [Except.ok.injEq, Prod.mk.injEq] at h
        obtain ⟨rfl, _⟩ := h
        simp [ih hv]

/-- one validated command that did not fail -/
theorem validate_pass {fl : Flags} {env caps s} {c : Cmd} {m : Bytes}
    (h : validate fl env caps s c = .ok (m, false)) :
    (fl.atomicOld = true → cur s.refs c.name = c.old) ∧
    (fl.atomicNew = true → isZero c.new = false → s.store c.new = true) := by
  unfold validate at h
  split at h
  · cases h
  · split at h
    · cases h
    · split at h
      · cases h
      · rename_i hmiss
        split at h
        · cases h
        · rename_i hstale
          refine ⟨fun ha => by simpa [ha] using hstale, fun hn hz => by simpa [hn, hz] using hmiss⟩

/-- a validation without failure means every command passed its own validation -/
theorem validateAll_pass {fl : Flags} {env caps s}
    (cmds : List Cmd) {rs} (h : validateAll fl env caps s cmds = .ok (rs, false)) :
    ∀ c ∈ cmds, (fl.atomicOld = true → cur s.refs c.name = c.old) ∧
      (fl.atomicNew = true → isZero c.new = false → s.store c.new = true) := by
  induction cmds generalizing rs with
  | nil => intro c hc; cases hc
  | cons c0 cs ih =>
    unfold validateAll at h
    split at h
    · cases h
    · rename_i m f hv0
      split at h
      · cases h
      · rename_i rs' f' hv
        simp only [Except.ok.injEq, Prod.mk.injEq, Bool.or_eq_false_iff] at h
        obtain ⟨_, rfl, rfl⟩ := h
        intro c hc
        rcases List.mem_cons.mp hc with rfl | hc
        · exact validate_pass hv0
        · exact ih hv c hc

theorem lookup_isSome_of_mem {l : List (Bytes × Bytes)} {n : Bytes} (h : n ∈ l.map (·.1)) :
    ∃ m, l.lookup n = some m ∧ (n, m) ∈ l := by
  induction l with
  | nil => cases h
  | cons p l ih =>
    obtain ⟨a, b⟩ := p
    by_cases e : n = a
    · subst e
      exact ⟨b, by simp [List.lookup], List.mem_cons_self⟩
    · have : n ∈ l.map (·.1) := by
        simp only [List.map_cons, List.mem_cons] at h
        rcases h with h | h
        · exact absurd h e
        · exact h
      obtain ⟨m, hm, hmem⟩ := ih this
      have hb : (n == a) = false := by simpa using e
      exact ⟨m, by simp [List.lookup, hb, hm], List.mem_cons_of_mem _ hmem⟩

theorem failAll_names (rs : List (Bytes × Bytes)) : (failAll rs).map (·.1) = rs.map (·.1) := by
  unfold failAll
  induction rs with
  | nil => rfl
  | cons p rs ih =>
    simp only [List.map_cons, ih]
    split <;> rfl

theorem failAll_ne_ok (rs : List (Bytes × Bytes)) : ∀ p ∈ failAll rs, p.2 ≠ okMsg := by
  unfold failAll
  intro p hp
  obtain ⟨q, _, rfl⟩ := List.mem_map.mp hp
  split
  · exact atomicFailed_ne_ok
  · assumption

/-! ### `refLoop`: both branches -/

theorem refLoop_store (fl : Flags) (env : Env) (caps : List Bytes) (hs : HookSane env) (s : Srv)
    (cmds : List Cmd) : (refLoop fl env caps s cmds).srv.store = s.store := by
  unfold refLoop
  split
  · split
    · rfl
    · rfl
    · exact runLoop_store (updateRef_spec fl.noCheck env caps false) s cmds
  · exact runLoop_store (plainStep_spec fl env caps hs) s cmds

theorem refLoop_only_commanded (fl : Flags) (env : Env) (caps : List Bytes) (hs : HookSane env) (s : Srv)
    (cmds : List Cmd) (n : Name) :
    (refLoop fl env caps s cmds).srv.refs n = s.refs n ∨
      ∃ c ∈ cmds, c.name = n ∧ (refLoop fl env caps s cmds).srv.refs n = c.target := by
  unfold refLoop
  split
  · split
    · exact Or.inl rfl
    · exact Or.inl rfl
    · exact runLoop_only_commanded (updateRef_spec fl.noCheck env caps false) s cmds n
  · exact runLoop_only_commanded (plainStep_spec fl env caps hs) s cmds n

theorem refLoop_ref (fl : Flags) (env : Env) (caps : List Bytes) (hs : HookSane env) (s : Srv)
    (cmds : List Cmd) (hnd : (cmds.map (·.name)).Nodup) :
    ∀ c ∈ cmds, (refLoop fl env caps s cmds).srv.refs c.name = s.refs c.name ∨
      (cur s.refs c.name = c.old ∧ (refLoop fl env caps s cmds).srv.refs c.name = c.target) := by
  unfold refLoop
  split
  · split
    · exact fun _ _ => Or.inl rfl
    · exact fun _ _ => Or.inl rfl
    · exact runLoop_ref (updateRef_spec fl.noCheck env caps false) s cmds hnd
  · exact runLoop_ref (plainStep_spec fl env caps hs) s cmds hnd

theorem refLoop_cmd (fl : Flags) (env : Env) (caps : List Bytes) (hs : HookSane env) (s : Srv)
    (cmds : List Cmd) (hnd : (cmds.map (·.name)).Nodup)
    (hr : (refLoop fl env caps s cmds).raised = none) :
    ∀ c ∈ cmds, ∃ m, (refLoop fl env caps s cmds).status.lookup c.name = some m ∧
      CmdResult fl s.refs ((refLoop fl env caps s cmds).srv.refs c.name) c m := by
  unfold refLoop at hr ⊢
  by_cases hat : caps.contains Gen.ReceivePack.atomicCap = true
  · rw [if_pos hat] at hr ⊢
    split
    · rename_i e he
      simp only [he] at hr
      cases hr
    · rename_i rs hv
      intro c hc
      have hmem : c.name ∈ (failAll rs).map (·.1) := by
        rw [failAll_names, validateAll_names cmds hv]
        exact List.mem_map_of_mem hc
      obtain ⟨m, hm, hin⟩ := lookup_isSome_of_mem hmem
      exact ⟨m, hm, Or.inl ⟨rfl, fun e => absurd e (failAll_ne_ok rs _ hin)⟩⟩
    · rename_i rs hv
      simp only [hv] at hr
      exact runLoop_cmd (updateRef_spec fl.noCheck env caps false) s cmds hnd hr
  · rw [if_neg hat] at hr ⊢
    exact runLoop_cmd (plainStep_spec fl env caps hs) s cmds hnd hr

theorem refLoop_status_names (fl : Flags) (env : Env) (caps : List Bytes) (s : Srv) (cmds : List Cmd)
    (hr : (refLoop fl env caps s cmds).raised = none) :
    (refLoop fl env caps s cmds).status.map (·.1) = cmds.map (·.name) := by
  unfold refLoop at hr ⊢
  by_cases hat : caps.contains Gen.ReceivePack.atomicCap = true
  · rw [if_pos hat] at hr ⊢
    split
    · rename_i e he
      simp only [he] at hr
      cases hr
    · rename_i rs hv
      simp only
      rw [failAll_names, validateAll_names cmds hv]
    · rename_i rs hv
      simp only [hv] at hr
      exact runLoop_status_names s cmds hr
  · rw [if_neg hat] at hr ⊢
    exact runLoop_status_names s cmds hr

theorem refLoop_inStore (fl : Flags) (env : Env) (caps : List Bytes) (hs : HookSane env) (s : Srv)
    (cmds : List Cmd)
    (hplain : ∀ c ∈ cmds, isZero c.new = false → fl.checkNew = false → s.store c.new = true)
    (hatomic : ∀ c ∈ cmds, isZero c.new = false → fl.atomicNew = false → s.store c.new = true)
    (hi : RefsInStore s) : RefsInStore (refLoop fl env caps s cmds).srv := by
  unfold refLoop
  split
  · split
    · exact hi
    · exact hi
    · rename_i rs hv
      apply runLoop_inStore (updateRef_spec fl.noCheck env caps false) s cmds _ hi
      intro c hc hz _
      cases han : fl.atomicNew with
      | true => exact (validateAll_pass cmds hv c hc).2 han hz
      | false => exact hatomic c hc hz han
  · exact runLoop_inStore (plainStep_spec fl env caps hs) s cmds hplain hi

/-- all-or-nothing under `atomic`, provided the commands that reach the apply loop are applicable:
either by hypothesis (`happ`, any flags) or because the repaired validation loop established it. -/
theorem refLoop_atomic (fl : Flags) (env : Env) (caps : List Bytes) (s : Srv) (cmds : List Cmd)
    (hat : caps.contains Gen.ReceivePack.atomicCap = true)
    (hnd : (cmds.map (·.name)).Nodup) (hf : ∀ c ∈ cmds, env.fault c.name = none)
    (happ : (fl.atomicOld = true ∧ fl.atomicNew = true) ∨
      ∀ c ∈ cmds, cur s.refs c.name = c.old ∧ (isZero c.new = false → s.store c.new = true)) :
    (refLoop fl env caps s cmds).srv.refs = s.refs ∨
      ∀ c ∈ cmds, (refLoop fl env caps s cmds).srv.refs c.name = c.target := by
  unfold refLoop
  rw [if_pos hat]
  split
  · exact Or.inl rfl
  · exact Or.inl rfl
  · rename_i rs hv
    right
    have hall : ∀ c ∈ cmds, cur s.refs c.name = c.old ∧ (isZero c.new = false → s.store c.new = true) := by
      rcases happ with ⟨ha, hn⟩ | h
      · exact fun c hc => ⟨(validateAll_pass cmds hv c hc).1 ha, (validateAll_pass cmds hv c hc).2 hn⟩
      · exact h
    exact (atomicApply_all s cmds hnd (fun c hc => ⟨hf c hc, hall c hc⟩)).2.1

/-! ### `_apply_pack`: the unpack step in front of the ref loop -/

/-- the object store the ref loop sees -/
def storeAfterUnpack (s : Srv) (u : Unpack) (cmds : List Cmd) : Store :=
  if willSendPack cmds then
    match u with
    | .ok ids => s.store.add ids
    | .raises _ => s.store
  else s.store

theorem storeAfterUnpack_mono (s : Srv) (u : Unpack) (cmds : List Cmd) (i : Id) (h : s.store i = true) :
    storeAfterUnpack s u cmds i = true := by
  unfold storeAfterUnpack
  split
  · split
    · simp [Store.add, h]
    · exact h
  · exact h

/-- `_apply_pack` either runs the ref loop on the refs it was given (store grown by the pack), prefixing the
`unpack ok` entry, or stops after a failed unpack with the server untouched and no ref entry. -/
theorem applyPack_cases (fl : Flags) (env : Env) (caps : List Bytes) (s : Srv) (u : Unpack) (cmds : List Cmd) :
    (applyPack fl env caps s u cmds =
      ⟨(refLoop fl env caps ⟨s.refs, storeAfterUnpack s u cmds⟩ cmds).srv,
       (unpackName, okMsg) :: (refLoop fl env caps ⟨s.refs, storeAfterUnpack s u cmds⟩ cmds).status,
       (refLoop fl env caps ⟨s.refs, storeAfterUnpack s u cmds⟩ cmds).raised⟩) ∨
    ((applyPack fl env caps s u cmds).srv = s ∧ (applyPack fl env caps s u cmds).status.drop 1 = []) := by
  unfold applyPack storeAfterUnpack
  by_cases hw : willSendPack cmds = true
  · simp only [hw, if_true]
    cases u with
    | ok ids => exact Or.inl rfl
    | raises mro =>
      simp only
      split
      · exact Or.inr ⟨rfl, rfl⟩
      · exact Or.inr ⟨rfl, rfl⟩
  · simp only [hw]
    exact Or.inl rfl

/-! ### `LocalGitClient.send_pack`: the status comes from the compare-and-swap -/

/-- the value a local command `(name, new)` asks for -/
def localTarget (c : Name × Id) : Option Id := if isZero c.2 then none else some c.2

/-- refs after a successful local update -/
def localApplied (r : Refs) (c : Name × Id) : Refs := if isZero c.2 then r.del c.1 else r.set c.1 c.2

theorem localApplied_self (r : Refs) (c : Name × Id) : localApplied r c c.1 = localTarget c := by
  unfold localApplied localTarget Refs.del Refs.set
  split <;> simp

theorem localApplied_other (r : Refs) (c : Name × Id) {n : Name} (h : n ≠ c.1) : localApplied r c n = r n := by
  unfold localApplied Refs.del Refs.set
  split <;> simp [h]

/-- One iteration, for every behaviour that takes the status from the compare-and-swap: success is recorded
only when the current value equals the old value the client read (and, with `checksNew`, the target has the
new object); then the ref holds the requested value.  Otherwise a failure is recorded and nothing changed. -/
theorem localStep_spec (lf : LocalFlags) (hcas : lf.usesCas = true) (snap : Refs) (t : LocalRepo) (c : Name × Id) :
    (localStep lf snap t c).1.store = t.store ∧
    ((cur t.refs c.1 = snapOld snap c.1 ∧ (localStep lf snap t c).2 = none ∧
        (localStep lf snap t c).1.refs = localApplied t.refs c ∧
        (isZero c.2 = false → lf.checksNew = true → t.store c.2 = true)) ∨
     ((localStep lf snap t c).2 ≠ none ∧ (localStep lf snap t c).1.refs = t.refs ∧
        (lf.checksNew = false → cur t.refs c.1 ≠ snapOld snap c.1))) := by
  unfold localStep localApplied removeIfEquals setIfEquals
  by_cases hz : isZero c.2 = true <;> by_cases hc : cur t.refs c.1 = snapOld snap c.1 <;>
    by_cases hk : lf.checksNew = true <;> by_cases hst : t.store c.2 = true <;>
    simp [hz, hc, hcas, hk, hst]

theorem localApply_store (lf : LocalFlags) (hcas : lf.usesCas = true) (snap : Refs) (t : LocalRepo)
    (cmds : List (Name × Id)) : (localApply lf snap t cmds).1.store = t.store := by
  induction cmds generalizing t with
  | nil => rfl
  | cons c cs ih =>
    unfold localApply
    simp only
    rw [ih, (localStep_spec lf hcas snap t c).1]

theorem localStep_frame (lf : LocalFlags) (hcas : lf.usesCas = true) (snap : Refs) (t : LocalRepo)
    (c : Name × Id) {n : Name} (h : n ≠ c.1) : (localStep lf snap t c).1.refs n = t.refs n := by
  rcases (localStep_spec lf hcas snap t c).2 with ⟨_, _, h3, _⟩ | ⟨_, h3, _⟩
  · rw [h3, localApplied_other _ _ h]
  · rw [h3]

theorem localApply_frame (lf : LocalFlags) (hcas : lf.usesCas = true) (snap : Refs) (t : LocalRepo)
    (cmds : List (Name × Id)) (n : Name)
    (hn : n ∉ cmds.map (·.1)) : (localApply lf snap t cmds).1.refs n = t.refs n := by
  induction cmds generalizing t with
  | nil => rfl
  | cons c cs ih =>
    simp only [List.map_cons, List.mem_cons, not_or] at hn
    unfold localApply
    simp only
    rw [ih _ hn.2, localStep_frame lf hcas snap t c hn.1]

/-- the status of a local command, as `LocalGitClient.send_pack` records it, is exact -/
def LocalExact (snap : Refs) (before : Refs) (after : Option Id) (c : Name × Id) (m : Option LocalMsg) : Prop :=
  (cur before c.1 = snapOld snap c.1 ∧ m = none ∧ after = localTarget c) ∨
  (m ≠ none ∧ after = before c.1)

theorem lookup_cons_self {β : Type} (n : Bytes) (v : β) (l : List (Bytes × β)) :
    ((n, v) :: l).lookup n = some v := by simp [List.lookup]

theorem lookup_cons_ne {β : Type} {n k : Bytes} (v : β) (l : List (Bytes × β)) (h : n ≠ k) :
    ((k, v) :: l).lookup n = l.lookup n := by
  have : (n == k) = false := by simpa using h
  simp [List.lookup, this]

theorem localApply_exact (lf : LocalFlags) (hcas : lf.usesCas = true) (snap : Refs) (t : LocalRepo)
    (cmds : List (Name × Id)) (hnd : (cmds.map (·.1)).Nodup) :
    ∀ c ∈ cmds, ∃ m, (localApply lf snap t cmds).2.lookup c.1 = some m ∧
      LocalExact snap t.refs ((localApply lf snap t cmds).1.refs c.1) c m := by
  induction cmds generalizing t with
  | nil => intro c hc; cases hc
  | cons c0 cs ih =>
    simp only [List.map_cons, List.nodup_cons] at hnd
    intro c hc
    unfold localApply
    simp only
    rcases List.mem_cons.mp hc with rfl | hc
    · refine ⟨(localStep lf snap t c).2, lookup_cons_self _ _ _, ?_⟩
      rw [localApply_frame lf hcas snap _ cs c.1 hnd.1]
      rcases (localStep_spec lf hcas snap t c).2 with ⟨h1, h2, h3, _⟩ | ⟨h2, h3, _⟩
      · exact Or.inl ⟨h1, h2, by rw [h3, localApplied_self]⟩
      · exact Or.inr ⟨h2, by rw [h3]⟩
    · have hne : c.1 ≠ c0.1 := by
        intro e
        exact hnd.1 (e ▸ List.mem_map_of_mem hc)
      obtain ⟨m, hm, hres⟩ := ih (localStep lf snap t c0).1 hnd.2 c hc
      refine ⟨m, by rw [lookup_cons_ne _ _ hne]; exact hm, ?_⟩
      unfold LocalExact cur at hres ⊢
      rw [localStep_frame lf hcas snap t c0 hne] at hres
      exact hres

/-- a stale local command is always rejected when the status comes from the compare-and-swap -/
theorem localApply_stale (lf : LocalFlags) (hcas : lf.usesCas = true) (snap : Refs) (t : LocalRepo)
    (cmds : List (Name × Id)) (hnd : (cmds.map (·.1)).Nodup) :
    ∀ c ∈ cmds, cur t.refs c.1 ≠ snapOld snap c.1 →
      ∃ m, (localApply lf snap t cmds).2.lookup c.1 = some (some m) ∧
        (localApply lf snap t cmds).1.refs c.1 = t.refs c.1 := by
  intro c hc hst
  obtain ⟨m, hm, hres⟩ := localApply_exact lf hcas snap t cmds hnd c hc
  rcases hres with ⟨h1, _, _⟩ | ⟨h2, h3⟩
  · exact absurd h1 hst
  · cases m with
    | none => exact absurd rfl h2
    | some m => exact ⟨m, hm, h3⟩

/-- invariant of the target: every ref target is in its object store -/
def LocalInStore (t : LocalRepo) : Prop := ∀ n v, t.refs n = some v → t.store v = true

theorem localApply_inStore (lf : LocalFlags) (hcas : lf.usesCas = true) (hk : lf.checksNew = true)
    (snap : Refs) (t : LocalRepo) (cmds : List (Name × Id)) (hi : LocalInStore t) :
    LocalInStore (localApply lf snap t cmds).1 := by
  induction cmds generalizing t with
  | nil => exact hi
  | cons c cs ih =>
    unfold localApply
    simp only
    apply ih
    intro n v hv
    obtain ⟨hs, h⟩ := localStep_spec lf hcas snap t c
    rw [hs]
    rcases h with ⟨_, _, h3, h4⟩ | ⟨_, h3, _⟩
    · rw [h3] at hv
      unfold localApplied Refs.del Refs.set at hv
      split at hv
      · simp only at hv
        split at hv
        · cases hv
        · exact hi n v hv
      · rename_i hz
        simp only at hv
        split at hv
        · cases hv
          exact h4 (by simpa using hz) hk
        · exact hi n v hv
    · rw [h3] at hv
      exact hi n v hv

/-- when every command is applicable, the apply loop applies every command -/
theorem localApply_all (lf : LocalFlags) (hcas : lf.usesCas = true) (snap : Refs) (t : LocalRepo)
    (cmds : List (Name × Id)) (hnd : (cmds.map (·.1)).Nodup)
    (hok : ∀ c ∈ cmds, cur t.refs c.1 = snapOld snap c.1 ∧ (isZero c.2 = false → t.store c.2 = true)) :
    ∀ c ∈ cmds, (localApply lf snap t cmds).1.refs c.1 = localTarget c := by
  induction cmds generalizing t with
  | nil => intro c hc; cases hc
  | cons c0 cs ih =>
    simp only [List.map_cons, List.nodup_cons] at hnd
    obtain ⟨hold0, hnew0⟩ := hok c0 List.mem_cons_self
    obtain ⟨hs, h⟩ := localStep_spec lf hcas snap t c0
    have happ : (localStep lf snap t c0).1.refs = localApplied t.refs c0 := by
      rcases h with ⟨_, _, h3, _⟩ | ⟨h2, _, h4⟩
      · exact h3
      · -- a failure was recorded although the command is applicable: impossible
        exfalso
        revert h2
        unfold localStep removeIfEquals setIfEquals
        by_cases hz : isZero c0.2 = true
        · simp [hz, hold0]
        · have hz' : isZero c0.2 = false := by simpa using hz
          simp [hz, hold0, hnew0 hz']
    intro c hc
    unfold localApply
    simp only
    rcases List.mem_cons.mp hc with rfl | hc
    · rw [localApply_frame lf hcas snap _ cs c.1 hnd.1, happ, localApplied_self]
    · apply ih _ hnd.2 _ c hc
      intro c' hc'
      obtain ⟨a, b⟩ := hok c' (List.mem_cons_of_mem _ hc')
      have hne : c'.1 ≠ c0.1 := by
        intro e
        exact hnd.1 (e ▸ List.mem_map_of_mem hc')
      refine ⟨?_, fun hz => by rw [hs]; exact b hz⟩
      unfold cur at a ⊢
      rw [localStep_frame lf hcas snap t c0 hne]
      exact a

/-- with the pre-check that reads the current value (and tests the object store), a pre-check without
failure means every command is applicable -/
theorem localPrecheck_pass (lf : LocalFlags) (hp : lf.precheckPeeled = false) (hn : lf.precheckNew = true)
    (snap : Refs) (t : LocalRepo) (c : Name × Id) (h : localPrecheck lf snap t c = none) :
    cur t.refs c.1 = snapOld snap c.1 ∧ (isZero c.2 = false → t.store c.2 = true) := by
  unfold localPrecheck at h
  simp only [hp, hn, Bool.true_and, Bool.false_eq_true, if_false] at h
  split at h
  · cases h
  · rename_i hmiss
    split at h
    · cases h
    · rename_i hst
      exact ⟨by simpa using hst, fun hz => by simpa [hz] using hmiss⟩

/-! ### status report: what the server writes is what the client reads -/

open Dulwich.Gen.ReceivePack in
/-- a ref name as it can occur in a status line: non-empty, no whitespace byte, not the word `unpack` -/
def CleanName (n : Bytes) : Prop := n ≠ [] ∧ (∀ b ∈ n, isWs b = false) ∧ n ≠ rsUnpackName

/-- a status message: non-empty, first and last byte not whitespace (inner spaces allowed) -/
def CleanMsg (m : Bytes) : Prop :=
  ∃ a mid z, (m = [a] ∨ m = a :: (mid ++ [z])) ∧ isWs a = false ∧ isWs z = false

theorem rstrip_snoc_nl (l : Bytes) (z : UInt8) (hz : isWs z = false) (w : UInt8) (hw : isWs w = true) :
    rstrip ((l ++ [z]) ++ [w]) = l ++ [z] := by
  unfold rstrip
  simp [List.reverse_append, List.dropWhile, hz, hw]

theorem lstrip_cons (a : UInt8) (l : Bytes) (ha : isWs a = false) : lstrip (a :: l) = a :: l := by
  simp [lstrip, List.dropWhile, ha]

theorem splitOnce_append (sep : UInt8) (n r : Bytes) (h : ∀ b ∈ n, b ≠ sep) :
    splitOnce sep (n ++ sep :: r) = some (n, r) := by
  induction n with
  | nil => simp [splitOnce]
  | cons a n ih =>
    have ha : a ≠ sep := h a List.mem_cons_self
    have := ih (fun b hb => h b (List.mem_cons_of_mem _ hb))
    simp [splitOnce, ha, this]

theorem isWs_sep_of_clean {n : Bytes} (h : ∀ b ∈ n, isWs b = false) : ∀ b ∈ n, b ≠ (32 : UInt8) := by
  intro b hb e
  have := h b hb
  rw [e] at this
  revert this
  decide

/-- a line `a :: body ++ [z]` with non-blank ends, followed by a newline, strips to itself -/
theorem strip_line (a z : UInt8) (body : Bytes) (ha : isWs a = false) (hz : isWs z = false) :
    strip ((a :: (body ++ [z])) ++ [10]) = a :: (body ++ [z]) := by
  unfold strip
  rw [List.cons_append, lstrip_cons _ _ ha]
  have := rstrip_snoc_nl (a :: body) z hz 10 (by decide)
  simpa using this

theorem snoc_of_ne_nil (l : Bytes) (h : l ≠ []) : ∃ l' z, l = l' ++ [z] ∧ z ∈ l :=
  ⟨l.dropLast, l.getLast h, (List.dropLast_concat_getLast h).symm, List.getLast_mem h⟩

/-- the status value the client derives from a server-side message -/
def clientStatus (p : Bytes × Bytes) : Bytes × Option Bytes :=
  (p.1, if p.2 = Gen.ReceivePack.okMsg then none else some p.2)

/-- One status line through `pkt.strip()` and the `check()` splitting: an `ok` entry. -/
theorem line_ok (n : Bytes) (hn : CleanName n) (rest : List Bytes) :
    checkStatuses (strip (statusLine (n, Gen.ReceivePack.okMsg)) :: rest) =
      (match checkStatuses rest with
       | .error e => .error e
       | .ok l => .ok ((n, none) :: l)) := by
  obtain ⟨hne, hws, hun⟩ := hn
  obtain ⟨n', z, rfl, hz⟩ := snoc_of_ne_nil n hne
  have hzw : isWs z = false := hws z hz
  have hline : statusLine (n' ++ [z], Gen.ReceivePack.okMsg) = (111 :: ((107 :: 32 :: n') ++ [z])) ++ [10] := by
    have h1 : ¬ (n' ++ [z] = Gen.ReceivePack.rsUnpackName) := hun
    simp [statusLine, h1, renderParts, Gen.ReceivePack.fmtOk, Gen.ReceivePack.rsOkMsg, Gen.ReceivePack.okMsg]
  rw [hline, strip_line 111 z _ (by decide) hzw]
  have hs : splitOnce Gen.ReceivePack.parserSep (111 :: ((107 :: 32 :: n') ++ [z])) = some ([111, 107], n' ++ [z]) := by
    have := splitOnce_append 32 [111, 107] (n' ++ [z]) (by decide)
    simpa [Gen.ReceivePack.parserSep] using this
  simp only [checkStatuses, hs]
  cases checkStatuses rest <;> simp [Gen.ReceivePack.parserNg, Gen.ReceivePack.parserOk]

/-- One status line: an `ng` entry. -/
theorem line_ng (n m : Bytes) (hn : CleanName n) (hm : CleanMsg m) (hne : m ≠ Gen.ReceivePack.okMsg)
    (rest : List Bytes) :
    checkStatuses (strip (statusLine (n, m)) :: rest) =
      (match checkStatuses rest with
       | .error e => .error e
       | .ok l => .ok ((n, some m) :: l)) := by
  obtain ⟨hnn, hws, hun⟩ := hn
  obtain ⟨a, mid, z, hm, ha, hz⟩ := hm
  have h1 : ¬ (n = Gen.ReceivePack.rsUnpackName) := hun
  have h2 : ¬ (m = Gen.ReceivePack.rsOkMsg) := hne
  -- the message as `m' ++ [z']` with a non-blank last byte
  obtain ⟨m', z', hmz, hz'⟩ : ∃ m' z', m = m' ++ [z'] ∧ isWs z' = false := by
    rcases hm with rfl | rfl
    · exact ⟨[], a, rfl, ha⟩
    · exact ⟨a :: mid, z, rfl, hz⟩
  have hline : statusLine (n, m) = (110 :: ((103 :: 32 :: (n ++ 32 :: m')) ++ [z'])) ++ [10] := by
    subst hmz
    simp [statusLine, h1, h2, renderParts, Gen.ReceivePack.fmtNg]
  rw [hline, strip_line 110 z' _ (by decide) hz']
  have hs : splitOnce Gen.ReceivePack.parserSep (110 :: ((103 :: 32 :: (n ++ 32 :: m')) ++ [z'])) =
      some ([110, 103], n ++ 32 :: m) := by
    have := splitOnce_append 32 [110, 103] (n ++ 32 :: m) (by decide)
    subst hmz
    simpa [Gen.ReceivePack.parserSep] using this
  have hs2 : splitOnce Gen.ReceivePack.parserSep (n ++ 32 :: m) = some (n, m) := by
    have := splitOnce_append 32 n m (isWs_sep_of_clean hws)
    simpa [Gen.ReceivePack.parserSep] using this
  simp only [checkStatuses, hs]
  cases checkStatuses rest <;> simp [Gen.ReceivePack.parserNg, hs2]

theorem checkStatuses_report (st : List (Bytes × Bytes))
    (h : ∀ p ∈ st, CleanName p.1 ∧ (p.2 = Gen.ReceivePack.okMsg ∨ CleanMsg p.2)) :
    checkStatuses (st.map (fun p => strip (statusLine p))) = .ok (st.map clientStatus) := by
  induction st with
  | nil => rfl
  | cons p st ih =>
    obtain ⟨n, m⟩ := p
    have hp := h (n, m) List.mem_cons_self
    have ih' := ih (fun q hq => h q (List.mem_cons_of_mem _ hq))
    simp only [List.map_cons]
    by_cases hm : m = Gen.ReceivePack.okMsg
    · subst hm
      rw [line_ok n hp.1, ih']
      simp [clientStatus]
    · have hc : CleanMsg m := by
        rcases hp.2 with h | h
        · exact absurd h hm
        · exact h
      rw [line_ng n m hp.1 hc hm, ih']
      simp [clientStatus, hm]

theorem handlePacket_line (p : Parser) (x l : Bytes) (hd : p.done = false) (hp : p.packStatus = some x) :
    p.handlePacket (some l) = .ok { p with refStatuses := p.refStatuses ++ [strip l] } := by
  simp [Parser.handlePacket, hd, hp]

theorem feed_lines (p : Parser) (x : Bytes) (hd : p.done = false) (hp : p.packStatus = some x)
    (ls : List Bytes) :
    p.feed (ls.map some ++ [none]) =
      .ok { done := true, packStatus := some x, refStatuses := p.refStatuses ++ ls.map strip } := by
  induction ls generalizing p with
  | nil =>
    simp [Parser.feed, Parser.handlePacket, hd, hp]
  | cons l ls ih =>
    simp only [List.map_cons, List.cons_append, Parser.feed]
    rw [handlePacket_line p x l hd hp]
    simp only
    rw [ih ⟨p.done, p.packStatus, p.refStatuses ++ [strip l]⟩ hd hp]
    simp

theorem lookup_map_some {α β : Type} (g : α → β) (pre : List (Bytes × α)) (n : Bytes)
    (h : n ∈ pre.map (·.1)) : ∃ m, (pre.map (fun p => (p.1, some (g p.2)))).lookup n = some (some m) := by
  induction pre with
  | nil => cases h
  | cons p pre ih =>
    by_cases e : n = p.1
    · exact ⟨g p.2, by simp only [List.map_cons]; rw [e]; exact lookup_cons_self _ _ _⟩
    · have : n ∈ pre.map (·.1) := by
        simp only [List.map_cons, List.mem_cons] at h
        rcases h with h | h
        · exact absurd h e
        · exact h
      obtain ⟨m, hm⟩ := ih this
      exact ⟨m, by simp only [List.map_cons]; rw [lookup_cons_ne _ _ e]; exact hm⟩

/-! ### when no exception escapes -/

/-- Input-side condition under which `_apply_pack` runs to completion: deletions are not refused for lack of
the capability, and every exception the ref container raises for a commanded name is caught by one of the
two handlers. -/
def NoEscape (env : Env) (caps : List Bytes) (cmds : List Cmd) : Prop :=
  deleteRefused caps = false ∧
  ∀ c ∈ cmds, ∀ mro, env.fault c.name = some mro →
    catches Gen.ReceivePack.lockCatches mro = true ∨
    catches Gen.ReceivePack.allExceptions mro = true ∨ catches Gen.ReceivePack.badRefCatches mro = true

theorem guarded_no_error {env : Env} {s : Srv} {n : Name} {failMsg : Bytes} {call : Unit → Refs × Bool}
    {fl : Flags}
    (hf : ∀ mro, env.fault n = some mro →
      catches Gen.ReceivePack.lockCatches mro = true ∨
      catches Gen.ReceivePack.allExceptions mro = true ∨ catches Gen.ReceivePack.badRefCatches mro = true) :
    ∃ r, guarded env s n failMsg call fl = .ok r := by
  unfold guarded
  split
  · rename_i mro hm
    by_cases h0 : catches Gen.ReceivePack.lockCatches mro = true
    · simp [h0]
    · by_cases h1 : catches Gen.ReceivePack.allExceptions mro = true
      · simp [h0, h1]
      · rcases hf mro hm with h | h | h
        · exact absurd h h0
        · exact absurd h h1
        · simp [h0, h1, h]
  · exact ⟨_, rfl⟩

theorem updateRef_no_error {fl : Flags} {env : Env} {caps : List Bytes} {dc : Bool} {s : Srv} {c : Cmd}
    (hd : deleteRefused caps = false)
    (hf : ∀ mro, env.fault c.name = some mro →
      catches Gen.ReceivePack.lockCatches mro = true ∨
      catches Gen.ReceivePack.allExceptions mro = true ∨ catches Gen.ReceivePack.badRefCatches mro = true) :
    ∃ r, updateRef fl env caps dc s c = .ok r := by
  unfold updateRef
  split
  · simp only [hd, Bool.and_false, Bool.false_eq_true, if_false]
    exact guarded_no_error hf
  · split
    · exact ⟨_, rfl⟩
    · exact guarded_no_error hf

theorem runLoop_no_raise {step : Srv → Cmd → Except Exc (Srv × Bytes)} (s : Srv) (cmds : List Cmd)
    (h : ∀ s, ∀ c ∈ cmds, ∃ r, step s c = .ok r) : (runLoop step s cmds).raised = none := by
  induction cmds generalizing s with
  | nil => rfl
  | cons c cs ih =>
    obtain ⟨r, hr⟩ := h s c List.mem_cons_self
    unfold runLoop
    rw [hr]
    exact ih _ (fun s c hc => h s c (List.mem_cons_of_mem _ hc))

theorem validateAll_no_error {fl : Flags} {env : Env} {caps : List Bytes} {s : Srv}
    (hd : deleteRefused caps = false) (cmds : List Cmd) :
    ∃ r, validateAll fl env caps s cmds = .ok r := by
  induction cmds with
  | nil => exact ⟨_, rfl⟩
  | cons c cs ih =>
    obtain ⟨r, hr⟩ := ih
    have hv : ∃ v, validate fl env caps s c = .ok v := by
      unfold validate
      split
      · exact ⟨_, rfl⟩
      · simp only [hd, Bool.and_false, Bool.false_eq_true, if_false]
        split
        · exact ⟨_, rfl⟩
        · split <;> exact ⟨_, rfl⟩
    obtain ⟨v, hv⟩ := hv
    unfold validateAll
    rw [hv, hr]
    exact ⟨_, rfl⟩

theorem refLoop_no_raise (fl : Flags) (env : Env) (caps : List Bytes) (s : Srv) (cmds : List Cmd)
    (h : NoEscape env caps cmds) : (refLoop fl env caps s cmds).raised = none := by
  obtain ⟨hd, hf⟩ := h
  unfold refLoop
  split
  · obtain ⟨r, hr⟩ := validateAll_no_error (fl := fl) (env := env) (s := s) hd cmds
    rw [hr]
    obtain ⟨rs, f⟩ := r
    cases f with
    | true => rfl
    | false =>
      exact runLoop_no_raise s cmds (fun s c hc => updateRef_no_error hd (hf c hc))
  · apply runLoop_no_raise s cmds
    intro s c hc
    unfold plainStep
    split
    · exact ⟨_, rfl⟩
    · exact updateRef_no_error hd (hf c hc)

theorem applyPack_no_raise (fl : Flags) (env : Env) (caps : List Bytes) (s : Srv) (u : Unpack) (cmds : List Cmd)
    (h : NoEscape env caps cmds)
    (hu : ∀ mro, u = .raises mro → catches Gen.ReceivePack.allExceptions mro = true) :
    (applyPack fl env caps s u cmds).raised = none := by
  unfold applyPack
  split
  · cases u with
    | ok ids => exact refLoop_no_raise fl env caps _ cmds h
    | raises mro =>
      simp only [hu mro rfl, if_true]
  · exact refLoop_no_raise fl env caps _ cmds h

/-! ### `_apply_pack` level (used by Props/C06.lean) -/

/-- "the push reports success for ref `n`": no exception escaped the handler and the status entry for `n`
(after the `unpack` entry) is `ok`. -/
abbrev reportedOk (o : Outcome) (n : Name) : Prop :=
  o.raised = none ∧ (o.status.drop 1).lookup n = some okMsg

abbrev distinctNames (cmds : List Cmd) : Prop := (cmds.map (·.name)).Nodup


/-- per-command relation between status, ref before and ref after, for `_apply_pack` -/
theorem applyPack_cmd (fl : Flags) (env : Env) (caps : List Bytes) (s : Srv) (u : Unpack) (cmds : List Cmd)
    (hs : HookSane env) (hnd : distinctNames cmds) (hr : (applyPack fl env caps s u cmds).raised = none) :
    ∀ c ∈ cmds,
      ((applyPack fl env caps s u cmds).srv.refs c.name = s.refs c.name ∧
        ¬ reportedOk (applyPack fl env caps s u cmds) c.name) ∨
      ∃ m, ((applyPack fl env caps s u cmds).status.drop 1).lookup c.name = some m ∧
        CmdResult fl s.refs ((applyPack fl env caps s u cmds).srv.refs c.name) c m := by
  intro c hc
  rcases applyPack_cases fl env caps s u cmds with h | ⟨h1, h2⟩
  · right
    rw [h] at hr ⊢
    simp only at hr
    exact refLoop_cmd fl env caps hs ⟨s.refs, storeAfterUnpack s u cmds⟩ cmds hnd hr c hc
  · left
    refine ⟨by rw [h1], ?_⟩
    rintro ⟨_, h⟩
    rw [h2] at h
    cases h

theorem target_ne_of_match {r : Refs} {c : Cmd} (hm : cur r c.name = c.old) (hne : c.old ≠ c.new) :
    r c.name ≠ c.target := by
  intro e
  unfold cur at hm
  unfold Cmd.target at e
  split at e
  · rename_i hz
    rw [e] at hm
    simp only at hm
    exact hne (by rw [← hm]; exact (by simpa [isZero] using hz : c.new = zeroSha).symm)
  · rw [e] at hm
    simp only at hm
    exact hne hm.symm


theorem quiet_sane : HookSane Env.quiet := fun _ => by simp [Env.quiet]


/-- general form: the invariant is preserved when every new value that is not checked by the code is in the
store after unpacking -/
theorem applyPack_inStore_gen (fl : Flags) (env : Env) (caps : List Bytes) (s : Srv) (u : Unpack)
    (cmds : List Cmd) (hs : HookSane env) (hi : RefsInStore s)
    (hplain : ∀ c ∈ cmds, isZero c.new = false → fl.checkNew = false → storeAfterUnpack s u cmds c.new = true)
    (hatomic : ∀ c ∈ cmds, isZero c.new = false → fl.atomicNew = false → storeAfterUnpack s u cmds c.new = true) :
    RefsInStore (applyPack fl env caps s u cmds).srv := by
  rcases applyPack_cases fl env caps s u cmds with h | ⟨h1, _⟩
  · rw [h]
    apply refLoop_inStore fl env caps hs ⟨s.refs, storeAfterUnpack s u cmds⟩ cmds hplain hatomic
    intro n v hv
    exact storeAfterUnpack_mono s u cmds v (hi n v hv)
  · rw [h1]; exact hi


theorem applyPack_atomic_gen (fl : Flags) (env : Env) (caps : List Bytes) (s : Srv) (u : Unpack) (cmds : List Cmd)
    (hat : caps.contains atomicCap = true) (hnd : distinctNames cmds) (hf : ∀ c ∈ cmds, env.fault c.name = none)
    (happ : (fl.atomicOld = true ∧ fl.atomicNew = true) ∨
      ∀ c ∈ cmds, cur s.refs c.name = c.old ∧ (isZero c.new = false → storeAfterUnpack s u cmds c.new = true)) :
    (applyPack fl env caps s u cmds).srv.refs = s.refs ∨
      ∀ c ∈ cmds, (applyPack fl env caps s u cmds).srv.refs c.name = c.target := by
  rcases applyPack_cases fl env caps s u cmds with h | ⟨h1, _⟩
  · rw [h]
    exact refLoop_atomic fl env caps ⟨s.refs, storeAfterUnpack s u cmds⟩ cmds hat hnd hf happ
  · left; rw [h1]



end Dulwich.ReceivePack
