/- Helper lemmas for the pack index model (C02).  Property theorems live in Props/C02.lean. -/
import DulwichModel.Model.PackIndex
import DulwichModel.Lemmas.Pack

namespace Dulwich.PackIndex
open Dulwich Dulwich.Pack Dulwich.Delta

/-! ### the order on names (`bytes.__lt__`) -/

theorem bytesLt_irrefl : ∀ (a : Bytes), bytesLt a a = false
  | [] => rfl
  | a :: as => by simp [bytesLt, bytesLt_irrefl as]

theorem bytesLt_trans : ∀ {a b c : Bytes}, bytesLt a b = true → bytesLt b c = true → bytesLt a c = true
  | [], [], _, h, _ => by simp [bytesLt] at h
  | [], _ :: _, [], _, h => by simp [bytesLt] at h
  | [], _ :: _, _ :: _, _, _ => by simp [bytesLt]
  | _ :: _, [], _, h, _ => by simp [bytesLt] at h
  | _ :: _, _ :: _, [], _, h => by simp [bytesLt] at h
  | a :: as, b :: bs, c :: cs, h1, h2 => by
    simp only [bytesLt] at h1 h2 ⊢
    by_cases hab : a.toNat < b.toNat
    · by_cases hbc : b.toNat < c.toNat
      · have : a.toNat < c.toNat := by omega
        simp [this]
      · by_cases hcb : c.toNat < b.toNat
        · simp [hbc, hcb] at h2
        · have : a.toNat < c.toNat := by omega
          simp [this]
    · by_cases hba : b.toNat < a.toNat
      · simp [hab, hba] at h1
      · simp only [hab, hba, if_false] at h1
        by_cases hbc : b.toNat < c.toNat
        · have : a.toNat < c.toNat := by omega
          simp [this]
        · by_cases hcb : c.toNat < b.toNat
          · simp [hbc, hcb] at h2
          · simp only [hbc, hcb, if_false] at h2
            have h3 : ¬ a.toNat < c.toNat := by omega
            have h4 : ¬ c.toNat < a.toNat := by omega
            simp only [h3, h4, if_false]
            exact bytesLt_trans h1 h2

theorem bytesLt_asymm : ∀ {a b : Bytes}, bytesLt a b = true → bytesLt b a = false
  | [], [], h => by simp [bytesLt] at h
  | [], _ :: _, _ => by simp [bytesLt]
  | _ :: _, [], h => by simp [bytesLt] at h
  | a :: as, b :: bs, h => by
    simp only [bytesLt] at h ⊢
    by_cases hab : a.toNat < b.toNat
    · have : ¬ b.toNat < a.toNat := by omega
      simp [this, hab]
    · by_cases hba : b.toNat < a.toNat
      · simp [hab, hba] at h
      · simp only [hab, hba, if_false] at h ⊢
        exact bytesLt_asymm h

theorem bytesLt_total : ∀ {a b : Bytes}, bytesLt a b = false → bytesLt b a = false → a = b
  | [], [], _, _ => rfl
  | [], _ :: _, h, _ => by simp [bytesLt] at h
  | _ :: _, [], _, h => by simp [bytesLt] at h
  | a :: as, b :: bs, h1, h2 => by
    simp only [bytesLt] at h1 h2
    by_cases hab : a.toNat < b.toNat
    · simp [hab] at h1
    · by_cases hba : b.toNat < a.toNat
      · simp [hba] at h2
      · simp only [hab, hba, if_false] at h1 h2
        have : a = b := UInt8.toNat_inj.mp (by omega)
        rw [this, bytesLt_total h1 h2]

theorem bytesLt_ne {a b : Bytes} (h : bytesLt a b = true) : a ≠ b := by
  intro e; subst e; rw [bytesLt_irrefl] at h; cases h

theorem bytesLt_firstByte : ∀ {a b : Bytes}, bytesLt a b = true → firstByte a ≤ firstByte b
  | [], _, _ => by simp [firstByte]
  | _ :: _, [], h => by simp [bytesLt] at h
  | a :: as, b :: bs, h => by
    simp only [bytesLt] at h
    simp only [firstByte]
    by_cases hab : a.toNat < b.toNat
    · omega
    · by_cases hba : b.toNat < a.toNat
      · simp [hab, hba] at h
      · omega

/-! ### the bisection, abstractly -/

/-- What a correct search of `[lo, e)` returns. -/
def BisectOk (name : Nat → Bytes) (sha : Bytes) (lo e : Nat) (r : Option Nat) : Prop :=
  (∀ i, r = some i → lo ≤ i ∧ i < e ∧ name i = sha) ∧
  (r = none → ∀ k, lo ≤ k → k < e → name k ≠ sha)

/-- Binary search over `[start, hi)` of a table that is strictly sorted on `[lo, e)`.  Either the search
never reaches slot `e` (`hi ≤ e`: the repaired call site) or it may (`hi = e + 1`: the old call site) and
then slot `e`, one past the group, must hold anything but the probe.  Finds the probe iff it is in `[lo, e)`. -/
theorem bisect_spec (name : Nat → Bytes) (sha : Bytes) (lo e : Nat)
    (hsorted : ∀ i j, lo ≤ i → i < j → j < e → bytesLt (name i) (name j) = true) :
    ∀ (fuel start hi : Nat), lo ≤ start → hi ≤ e + 1 → hi - start ≤ fuel →
      (hi ≤ e ∨ name e ≠ sha) →
      (∀ k, lo ≤ k → k < start → k < e → bytesLt (name k) sha = true) →
      (∀ k, hi ≤ k → k < e → bytesLt sha (name k) = true) →
      BisectOk name sha lo e (bisect name sha fuel start hi) := by
  intro fuel
  have hnone : ∀ (start hi : Nat), ¬ start < hi →
      (∀ k, lo ≤ k → k < start → k < e → bytesLt (name k) sha = true) →
      (∀ k, hi ≤ k → k < e → bytesLt sha (name k) = true) →
      BisectOk name sha lo e none := by
    intro start hi hlt hA hB
    refine ⟨fun i h => (by cases h), fun _ k hk1 hk2 => ?_⟩
    by_cases hks : k < start
    · exact bytesLt_ne (hA k hk1 hks hk2)
    · exact (bytesLt_ne (hB k (by omega) hk2)).symm
  induction fuel with
  | zero =>
    intro start hi _ _ hf _ hA hB
    simp only [bisect]
    exact hnone start hi (by omega) hA hB
  | succ fuel ih =>
    intro start hi hlo hhi hf hend hA hB
    simp only [bisect]
    by_cases hlt : start < hi
    · simp only [hlt, if_true, Gen.Pack.bisectDiv, Gen.Pack.bisectUp, Gen.Pack.bisectDown]
      have hi1 : start ≤ (start + (hi - 1)) / 2 := by omega
      have hi2 : (start + (hi - 1)) / 2 ≤ hi - 1 := by omega
      refine (?_ : ∀ i, i = (start + (hi - 1)) / 2 → start ≤ i → i ≤ hi - 1 → BisectOk name sha lo e
        (if bytesLt (name i) sha = true then bisect name sha fuel (i + 1) hi
         else if bytesLt sha (name i) = true then bisect name sha fuel start (i + 1 - 1) else some i)) _ rfl hi1 hi2
      intro i hmid hi1 hi2
      by_cases h1 : bytesLt (name i) sha = true
      · simp only [h1, if_true]
        apply ih (i + 1) hi (by omega) hhi (by omega) hend _ hB
        intro k hk1 hk2 hk3
        by_cases hki : k = i
        · subst hki; exact h1
        · by_cases hks : k < start
          · exact hA k hk1 hks hk3
          · by_cases hie : i < e
            · exact bytesLt_trans (hsorted k i hk1 (by omega) hie) h1
            · exfalso; omega
      · simp only [h1, Bool.false_eq_true, if_false]
        by_cases h2 : bytesLt sha (name i) = true
        · simp only [h2, if_true]
          have e1 : i + 1 - 1 = i := by omega
          rw [e1]
          apply ih start i hlo (by omega) (by omega) (by rcases hend with h | h; exact Or.inl (by omega); exact Or.inr h) hA
          intro k hk1 hk2
          by_cases hki : k = i
          · subst hki; exact h2
          · by_cases hkh : hi ≤ k
            · exact hB k hkh hk2
            · exact bytesLt_trans h2 (hsorted i k (by omega) (by omega) hk2)
        · simp only [h2, Bool.false_eq_true, if_false]
          have heq : name i = sha := bytesLt_total (by simpa using h1) (by simpa using h2)
          refine ⟨fun j hj => ?_, fun h => (by cases h)⟩
          cases hj
          refine ⟨by omega, ?_, heq⟩
          by_cases hie : i = e
          · subst hie
            rcases hend with h | h
            · omega
            · exact absurd heq h
          · omega
    · simp only [hlt, if_false]
      exact hnone start hi hlt hA hB

/-! ### slices and fixed-width big-endian fields -/

theorem slice_skip (a b : Bytes) (n o k : Nat) (h : a.length = n) :
    slice (a ++ b) (n + o) k = slice b o k := by
  subst h
  unfold slice
  rw [List.drop_length_add_append]

theorem slice_within (a b : Bytes) (o k : Nat) (h : o + k ≤ a.length) :
    slice (a ++ b) o k = slice a o k := by
  unfold slice
  rw [List.drop_append_of_le_length (by omega)]
  rw [List.take_append_of_le_length (by simp; omega)]

theorem slice_full (a : Bytes) : slice a 0 a.length = a := by simp [slice]

theorem slice_prefix (a b : Bytes) : slice (a ++ b) 0 a.length = a := by
  rw [slice_within a b 0 a.length (by omega), slice_full]

theorem beBytes_length (k n : Nat) : (beBytes k n).length = k := by
  induction k generalizing n with
  | zero => rfl
  | succ k ih => simp [beBytes, ih]

theorem beVal_snoc (xs : Bytes) (b : UInt8) : beVal (xs ++ [b]) = beVal xs * 256 + b.toNat := by
  simp [beVal, List.foldl_append]

theorem beVal_beBytes (k : Nat) : ∀ n, n < 256 ^ k → beVal (beBytes k n) = n := by
  induction k with
  | zero => intro n h; simp at h; subst h; rfl
  | succ k ih =>
    intro n h
    have hq : n / 256 < 256 ^ k := by
      rw [Nat.pow_succ] at h
      exact Nat.div_lt_of_lt_mul (by rw [Nat.mul_comm]; exact h)
    simp only [beBytes, beVal_snoc, ih _ hq]
    rw [u8_toNat_ofNat (Nat.mod_lt _ (by decide))]
    omega

theorem beAt_beBytes (w n : Nat) (a b : Bytes) (off : Nat) (ha : a.length = off) (hn : n < 256 ^ w) :
    beAt w (a ++ (beBytes w n ++ b)) off = some n := by
  unfold beAt
  have h0 : slice (a ++ (beBytes w n ++ b)) off w = beBytes w n := by
    have := slice_skip a (beBytes w n ++ b) off 0 w ha
    rw [Nat.add_zero] at this
    rw [this]
    have := slice_prefix (beBytes w n) b
    rw [beBytes_length] at this
    exact this
  rw [h0, beBytes_length, beVal_beBytes w n hn]
  simp

/-- The `i`-th item of a table of `w`-byte items. -/
theorem slice_flatMap {α : Type} (f : α → Bytes) (w : Nat) : ∀ (l : List α) (i : Nat) (hi : i < l.length),
    (∀ x ∈ l, (f x).length = w) → slice (l.flatMap f) (i * w) w = f l[i] := by
  intro l
  induction l with
  | nil => intro i hi; simp at hi
  | cons x xs ih =>
    intro i hi hw
    have hx : (f x).length = w := hw x (List.mem_cons_self)
    cases i with
    | zero =>
      simp only [List.flatMap_cons, Nat.zero_mul, List.getElem_cons_zero]
      have := slice_prefix (f x) (xs.flatMap f)
      rw [hx] at this
      exact this
    | succ i =>
      simp only [List.flatMap_cons, List.getElem_cons_succ]
      have e : (i + 1) * w = w + i * w := by rw [Nat.succ_mul, Nat.add_comm]
      rw [e, slice_skip _ _ w _ _ hx]
      exact ih i (by simpa using hi) (fun y hy => hw y (List.mem_cons_of_mem _ hy))

theorem length_flatMap_fixed {α : Type} (f : α → Bytes) (w : Nat) : ∀ (l : List α),
    (∀ x ∈ l, (f x).length = w) → (l.flatMap f).length = w * l.length := by
  intro l
  induction l with
  | nil => intro _; simp
  | cons x xs ih =>
    intro hw
    simp only [List.flatMap_cons, List.length_append, List.length_cons]
    rw [ih (fun y hy => hw y (List.mem_cons_of_mem _ hy)), hw x (List.mem_cons_self), Nat.mul_succ]
    omega

/-! ### fan-out: cumulative bucket counts are "number of names with first byte ≤ b" -/

def countLt (es : List IdxEntry) (b : Nat) : Nat := (es.filter (fun e => decide (firstByte e.name < b))).length

theorem countLe_succ (es : List IdxEntry) (b : Nat) :
    countLe es (b + 1) = countLe es b + bucketCount es (b + 1) := by
  unfold countLe bucketCount
  induction es with
  | nil => rfl
  | cons e es ih =>
    simp only [List.filter_cons]
    by_cases h1 : firstByte e.name ≤ b
    · have d1 : decide (firstByte e.name ≤ b) = true := decide_eq_true h1
      have d2 : decide (firstByte e.name ≤ b + 1) = true := decide_eq_true (by omega)
      have d3 : decide (firstByte e.name = b + 1) = false := decide_eq_false (by omega)
      simp only [d1, d2, d3, if_true, Bool.false_eq_true, if_false, List.length_cons]
      omega
    · have d1 : decide (firstByte e.name ≤ b) = false := decide_eq_false h1
      by_cases h2 : firstByte e.name = b + 1
      · have d2 : decide (firstByte e.name ≤ b + 1) = true := decide_eq_true (by omega)
        have d3 : decide (firstByte e.name = b + 1) = true := decide_eq_true h2
        simp only [d1, d2, d3, if_true, Bool.false_eq_true, if_false, List.length_cons]
        omega
      · have d2 : decide (firstByte e.name ≤ b + 1) = false := decide_eq_false (by omega)
        have d3 : decide (firstByte e.name = b + 1) = false := decide_eq_false h2
        simp only [d1, d2, d3, Bool.false_eq_true, if_false]
        exact ih

theorem cumul_eq_countLe (es : List IdxEntry) : ∀ b, cumul es b = countLe es b := by
  intro b
  induction b with
  | zero =>
    unfold cumul countLe bucketCount
    congr 1
    apply List.filter_congr
    intro e _
    by_cases h : firstByte e.name = 0 <;> simp [h]
  | succ b ih => rw [cumul, ih, countLe_succ]

theorem countLe_le (es : List IdxEntry) (b : Nat) : countLe es b ≤ es.length := List.length_filter_le _ _

theorem firstByte_lt (n : Bytes) : firstByte n < 256 := by
  cases n with
  | nil => simp [firstByte]
  | cons b _ => simp only [firstByte]; exact UInt8.toNat_lt b

theorem countLe_255 (es : List IdxEntry) : countLe es 255 = es.length := by
  unfold countLe
  rw [List.filter_eq_self.mpr]
  intro e _
  have := firstByte_lt e.name
  simp; omega

theorem countLe_eq_countLt (es : List IdxEntry) (b : Nat) : countLe es b = countLt es (b + 1) := by
  unfold countLe countLt
  congr 1
  apply List.filter_congr
  intro e _
  by_cases h : firstByte e.name ≤ b
  · have : firstByte e.name < b + 1 := by omega
    simp [h, this]
  · have : ¬ firstByte e.name < b + 1 := by omega
    simp [h, this]

theorem countLt_zero (es : List IdxEntry) : countLt es 0 = 0 := by
  unfold countLt; simp

/-- In a list whose first bytes never decrease, the entries with first byte `< v` are exactly the
first `countLt es v` ones. -/
theorem countLt_iff : ∀ (es : List IdxEntry) (v i : Nat) (hi : i < es.length),
    es.Pairwise (fun a b => firstByte a.name ≤ firstByte b.name) →
    (i < countLt es v ↔ firstByte es[i].name < v) := by
  intro es
  induction es with
  | nil => intro v i hi; simp at hi
  | cons e es ih =>
    intro v i hi hp
    rw [List.pairwise_cons] at hp
    unfold countLt
    simp only [List.filter_cons]
    by_cases h : firstByte e.name < v
    · simp only [h, decide_true, if_true, List.length_cons]
      cases i with
      | zero => simp [h]
      | succ i =>
        simp only [List.getElem_cons_succ]
        have := ih v i (by simpa using hi) hp.2
        unfold countLt at this
        omega
    · simp only [h, decide_false, Bool.false_eq_true, if_false]
      have hnil : es.filter (fun e => decide (firstByte e.name < v)) = [] := by
        rw [List.filter_eq_nil_iff]
        intro x hx
        have := hp.1 x hx
        simp; omega
      rw [hnil]
      simp only [List.length_nil, Nat.not_lt_zero, false_iff]
      cases i with
      | zero => simpa using h
      | succ i =>
        simp only [List.getElem_cons_succ]
        have hi' : i < es.length := by simpa using hi
        have := hp.1 es[i] (List.getElem_mem hi')
        omega

/-! ### the v2 file, table by table -/

theorem Sorted.firstBytes {es : List IdxEntry} (h : Sorted es) :
    es.Pairwise (fun a b => firstByte a.name ≤ firstByte b.name) :=
  List.Pairwise.imp (fun hab => bytesLt_firstByte hab) h

theorem fanoutBytes_length (es : List IdxEntry) : (fanoutBytes es).length = 1024 := by
  unfold fanoutBytes
  rw [length_flatMap_fixed _ 4 _ (fun x _ => by simp [Gen.Pack.fanEntryBytes, beBytes_length])]
  simp [Gen.Pack.fanoutSize]

theorem nameTable_length (es : List IdxEntry) (hs : Nat) (h : ∀ e ∈ es, e.name.length = hs) :
    (nameTable es).length = hs * es.length := length_flatMap_fixed _ hs es h

theorem crcTable_length (es : List IdxEntry) : (crcTable es).length = 4 * es.length :=
  length_flatMap_fixed _ 4 es (fun _ _ => beBytes_length _ _)

theorem ofsWords_length (es : List IdxEntry) : ∀ k, (ofsWords k es).length = 4 * es.length := by
  induction es with
  | nil => intro k; rfl
  | cons e es ih =>
    intro k
    simp only [ofsWords]
    split <;> simp [beBytes_length, ih] <;> omega

/-- Number of large offsets (≥ 2^31) among the entries. -/
def countLarge (es : List IdxEntry) : Nat := (es.filter (fun e => decide (Gen.Pack.largeFlag ≤ e.offset))).length

theorem countLarge_le (es : List IdxEntry) : countLarge es ≤ es.length := List.length_filter_le _ _

theorem countLarge_cons_small (e : IdxEntry) (es : List IdxEntry) (h : e.offset < Gen.Pack.largeFlag) :
    countLarge (e :: es) = countLarge es := by
  unfold countLarge
  have d : decide (Gen.Pack.largeFlag ≤ e.offset) = false := decide_eq_false (by omega)
  simp only [List.filter_cons, d, Bool.false_eq_true, if_false]

theorem countLarge_cons_large (e : IdxEntry) (es : List IdxEntry) (h : ¬ e.offset < Gen.Pack.largeFlag) :
    countLarge (e :: es) = countLarge es + 1 := by
  unfold countLarge
  have d : decide (Gen.Pack.largeFlag ≤ e.offset) = true := decide_eq_true (by omega)
  simp only [List.filter_cons, d, if_true, List.length_cons]

theorem largeWords_length (es : List IdxEntry) : (largeWords es).length = 8 * countLarge es := by
  induction es with
  | nil => rfl
  | cons e es ih =>
    simp only [largeWords]
    by_cases h : e.offset < Gen.Pack.largeFlag
    · simp only [h, if_true, countLarge_cons_small e es h, ih]
    · simp only [h, if_false, countLarge_cons_large e es h, List.length_append, beBytes_length, ih]
      omega

/-- The 4-byte word of entry `i` in the offset table. -/
theorem ofsWords_slice : ∀ (es : List IdxEntry) (k i : Nat) (hi : i < es.length),
    slice (ofsWords k es) (i * 4) 4 =
      if es[i].offset < Gen.Pack.largeFlag then beBytes 4 es[i].offset
      else beBytes 4 (Gen.Pack.largeFlag + (k + countLarge (es.take i))) := by
  intro es
  induction es with
  | nil => intro k i hi; simp at hi
  | cons e es ih =>
    intro k i hi
    cases i with
    | zero =>
      simp only [List.getElem_cons_zero, Nat.zero_mul, List.take_zero, ofsWords]
      have hc : countLarge [] = 0 := rfl
      rw [hc, Nat.add_zero]
      split
      · have := slice_prefix (beBytes 4 e.offset) (ofsWords k es)
        rwa [beBytes_length] at this
      · have := slice_prefix (beBytes 4 (Gen.Pack.largeFlag + k)) (ofsWords (k + 1) es)
        rwa [beBytes_length] at this
    | succ i =>
      have e4 : (i + 1) * 4 = 4 + i * 4 := by omega
      simp only [List.getElem_cons_succ, List.take_succ_cons, ofsWords]
      rw [e4]
      by_cases h : e.offset < Gen.Pack.largeFlag
      · simp only [h, if_true]
        rw [slice_skip _ _ 4 _ _ (beBytes_length _ _), ih k i (by simpa using hi)]
        rw [countLarge_cons_small e _ h]
      · simp only [h, if_false]
        rw [slice_skip _ _ 4 _ _ (beBytes_length _ _), ih (k + 1) i (by simpa using hi)]
        rw [countLarge_cons_large e _ h]
        have : k + 1 + countLarge (es.take i) = k + (countLarge (es.take i) + 1) := by omega
        rw [this]

/-- The 8-byte word of a large entry `i` sits at position `countLarge (es.take i)` of the large table. -/
theorem largeWords_slice : ∀ (es : List IdxEntry) (i : Nat) (hi : i < es.length),
    ¬ es[i].offset < Gen.Pack.largeFlag →
    slice (largeWords es) (countLarge (es.take i) * 8) 8 = beBytes 8 es[i].offset := by
  intro es
  induction es with
  | nil => intro i hi; simp at hi
  | cons e es ih =>
    intro i hi hl
    cases i with
    | zero =>
      simp only [List.getElem_cons_zero] at hl
      simp only [List.getElem_cons_zero, List.take_zero, largeWords, hl, if_false]
      have hc : countLarge [] = 0 := rfl
      rw [hc, Nat.zero_mul]
      have := slice_prefix (beBytes 8 e.offset) (largeWords es)
      rwa [beBytes_length] at this
    | succ i =>
      simp only [List.getElem_cons_succ] at hl
      simp only [List.getElem_cons_succ, List.take_succ_cons, largeWords]
      by_cases h : e.offset < Gen.Pack.largeFlag
      · have hc := countLarge_cons_small e (es.take i) h
        simp only [h, if_true, hc]
        exact ih i (by simpa using hi) hl
      · have hc := countLarge_cons_large e (es.take i) h
        simp only [h, if_false, hc]
        have e8 : (countLarge (es.take i) + 1) * 8 = 8 + countLarge (es.take i) * 8 := by omega
        rw [e8, slice_skip _ _ 8 _ _ (beBytes_length _ _)]
        exact ih i (by simpa using hi) hl

theorem countLarge_take_lt : ∀ (es : List IdxEntry) (i : Nat) (hi : i < es.length),
    ¬ es[i].offset < Gen.Pack.largeFlag → countLarge (es.take i) < countLarge es := by
  intro es
  induction es with
  | nil => intro i hi; simp at hi
  | cons e es ih =>
    intro i hi hl
    cases i with
    | zero =>
      simp only [List.getElem_cons_zero] at hl
      rw [countLarge_cons_large e es hl]
      simp [countLarge]
    | succ i =>
      simp only [List.getElem_cons_succ] at hl
      have := ih i (by simpa using hi) hl
      simp only [List.take_succ_cons]
      by_cases h : e.offset < Gen.Pack.largeFlag
      · rw [countLarge_cons_small e _ h, countLarge_cons_small e _ h]; exact this
      · rw [countLarge_cons_large e _ h, countLarge_cons_large e _ h]; omega

theorem slice_skip' (a b : Bytes) (n o off k : Nat) (h : a.length = n) (ho : off = n + o) :
    slice (a ++ b) off k = slice b o k := by
  subst ho; exact slice_skip a b n o k h

theorem readFanFrom_ok (a b : Bytes) (g : Nat → Nat) (N start : Nat) (ha : a.length = start)
    (hg : ∀ j, g j < 256 ^ 4) : ∀ (k i : Nat), i + k ≤ N →
    readFanFrom (a ++ ((List.range N).flatMap (fun j => beBytes 4 (g j)) ++ b)) start k i
      = .ok ((List.range' i k).map g) := by
  intro k
  induction k with
  | zero => intro i _; simp [readFanFrom]
  | succ k ih =>
    intro i hik
    have hlen : ((List.range N).flatMap (fun j => beBytes 4 (g j))).length = 4 * N := by
      rw [length_flatMap_fixed _ 4 _ (fun x _ => beBytes_length _ _)]; simp
    have hs : slice (a ++ ((List.range N).flatMap (fun j => beBytes 4 (g j)) ++ b)) (start + i * 4) 4
        = beBytes 4 (g i) := by
      rw [slice_skip _ _ start _ _ ha, slice_within _ _ _ _ (by omega)]
      have := slice_flatMap (fun j => beBytes 4 (g j)) 4 (List.range N) i (by simp; omega)
        (fun x _ => beBytes_length _ _)
      rw [this]
      simp
    simp only [readFanFrom, Gen.Pack.fanEntryBytes, beAt, hs, beBytes_length, if_true, beVal_beBytes 4 _ (hg i)]
    rw [ih (i + 1) (by omega)]
    simp [List.range'_succ]

theorem cumul_lt (es : List IdxEntry) (hn : es.length < 2 ^ 31) (b : Nat) : cumul es b < 256 ^ 4 := by
  have := countLe_le es b
  rw [← cumul_eq_countLe] at this
  omega

/-- A file made of a header prefix, the fan-out table, the name, CRC, offset and large-offset tables and a
tail: the common shape of index versions 2 and 3. -/
def tabled (pre : Bytes) (es : List IdxEntry) (tail : Bytes) : Bytes :=
  pre ++ (fanoutBytes es ++ (nameTable es ++ (crcTable es ++ (ofsWords 0 es ++ (largeWords es ++ tail)))))

/-- The field values of a loaded v2/v3 index, as hypotheses on an abstract `x` (keeps the kernel away
from projections of a literal structure). -/
structure IsTabled (x : Idx) (es : List IdxEntry) (hs : Nat) (pre tail : Bytes) : Prop where
  version : ¬ x.version = 1
  hs : x.hs = hs
  c : x.c = tabled pre es tail
  n : x.n = es.length
  nameOff : x.nameOff = pre.length + 1024
  fan : x.fan = (List.range' 0 256).map (cumul es)

theorem nameAt_tabled (x : Idx) (es : List IdxEntry) (hs : Nat) (pre tail : Bytes) (hx : IsTabled x es hs pre tail)
    (hnames : ∀ e ∈ es, e.name.length = hs) (i : Nat) (hi : i < es.length) :
    x.nameAt i = es[i].name := by
  unfold Idx.nameAt
  rw [if_neg hx.version, hx.c, hx.nameOff, hx.hs]
  unfold tabled
  rw [slice_skip' _ _ pre.length (1024 + i * hs) _ _ rfl (by omega)]
  rw [slice_skip' _ _ 1024 (i * hs) _ _ (fanoutBytes_length es) (by omega)]
  have h2 : (i + 1) * hs ≤ es.length * hs := Nat.mul_le_mul_right hs (by omega)
  rw [slice_within _ _ _ _ (by rw [nameTable_length es hs hnames, Nat.mul_comm hs]; rw [Nat.succ_mul] at h2; exact h2)]
  exact slice_flatMap (fun e => e.name) hs es i hi hnames

/-- `_unpack_name(len(index))`: the `hs` bytes that follow the name table. -/
theorem nameAt_tabled_phantom (x : Idx) (es : List IdxEntry) (hs : Nat) (pre tail : Bytes)
    (hx : IsTabled x es hs pre tail) (hnames : ∀ e ∈ es, e.name.length = hs) :
    x.nameAt es.length = (crcTable es ++ (ofsWords 0 es ++ (largeWords es ++ tail))).take hs := by
  unfold Idx.nameAt
  rw [if_neg hx.version, hx.c, hx.nameOff, hx.hs]
  unfold tabled
  rw [slice_skip' _ _ pre.length (1024 + es.length * hs) _ _ rfl (by omega)]
  rw [slice_skip' _ _ 1024 (es.length * hs) _ _ (fanoutBytes_length es) (by omega)]
  rw [slice_skip' _ _ (es.length * hs) 0 _ _ (by rw [nameTable_length es hs hnames, Nat.mul_comm]) (by omega)]
  simp [slice]

theorem offsetAt_tabled (x : Idx) (es : List IdxEntry) (hs : Nat) (pre tail : Bytes)
    (hx : IsTabled x es hs pre tail)
    (hnames : ∀ e ∈ es, e.name.length = hs) (hn : es.length < 2 ^ 31)
    (hoff : ∀ e ∈ es, e.offset < 2 ^ 64) (i : Nat) (hi : i < es.length) :
    x.offsetAt i = .ok es[i].offset := by
  have hN := nameTable_length es hs hnames
  have hC := crcTable_length es
  have hO := ofsWords_length es 0
  have hL := largeWords_length es
  -- the 4-byte word
  have hword : slice (tabled pre es tail) (pre.length + 1024 + hs * es.length + Gen.Pack.v2CrcWidth * es.length
      + i * Gen.Pack.ofsEntryWidth) 4
      = if es[i].offset < Gen.Pack.largeFlag then beBytes 4 es[i].offset
        else beBytes 4 (Gen.Pack.largeFlag + (0 + countLarge (es.take i))) := by
    simp only [Gen.Pack.v2CrcWidth, Gen.Pack.ofsEntryWidth]
    unfold tabled
    rw [slice_skip' _ _ pre.length (1024 + hs * es.length + 4 * es.length + i * 4) _ _ rfl (by omega)]
    rw [slice_skip' _ _ 1024 (hs * es.length + 4 * es.length + i * 4) _ _ (fanoutBytes_length es) (by omega)]
    rw [slice_skip' _ _ (hs * es.length) (4 * es.length + i * 4) _ _ hN (by omega)]
    rw [slice_skip' _ _ (4 * es.length) (i * 4) _ _ hC (by omega)]
    rw [slice_within _ _ _ _ (by rw [hO]; omega)]
    exact ofsWords_slice es 0 i hi
  have hOO : x.ofsOff = pre.length + 1024 + hs * es.length + Gen.Pack.v2CrcWidth * es.length := by
    unfold Idx.ofsOff Idx.crcOff
    rw [hx.hs, hx.n, hx.nameOff]
  have hLO : x.largeOff = pre.length + 1024 + hs * es.length + Gen.Pack.v2CrcWidth * es.length
      + Gen.Pack.v2OfsWidth * es.length := by
    unfold Idx.largeOff
    rw [hOO, hx.n]
  unfold Idx.offsetAt
  rw [if_neg hx.version]
  unfold Idx.offsetAtV2
  rw [hx.c, hOO]
  by_cases hsmall : es[i].offset < Gen.Pack.largeFlag
  · have hlt : es[i].offset < 256 ^ 4 := by simp only [Gen.Pack.largeFlag] at hsmall; omega
    have h4 : beAt 4 (tabled pre es tail) (pre.length + 1024 + hs * es.length + Gen.Pack.v2CrcWidth * es.length
        + i * Gen.Pack.ofsEntryWidth) = some es[i].offset := by
      unfold beAt
      rw [hword, if_pos hsmall, beBytes_length, if_pos rfl, beVal_beBytes 4 _ hlt]
    rw [h4]
    simp only [hsmall, if_true]
  · have hK := countLarge_le (es.take i)
    have hKi : (es.take i).length ≤ i := by simp
    have hKlt := countLarge_take_lt es i hi hsmall
    have hv : Gen.Pack.largeFlag + (0 + countLarge (es.take i)) < 256 ^ 4 := by
      simp only [Gen.Pack.largeFlag]; omega
    have hge : ¬ Gen.Pack.largeFlag + (0 + countLarge (es.take i)) < Gen.Pack.largeFlag := by omega
    have h4 : beAt 4 (tabled pre es tail) (pre.length + 1024 + hs * es.length + Gen.Pack.v2CrcWidth * es.length
        + i * Gen.Pack.ofsEntryWidth) = some (Gen.Pack.largeFlag + (0 + countLarge (es.take i))) := by
      unfold beAt
      rw [hword, if_neg hsmall, beBytes_length, if_pos rfl, beVal_beBytes 4 _ hv]
    rw [h4]
    simp only [hge, if_false]
    have hsub : (Gen.Pack.largeFlag + (0 + countLarge (es.take i))) % Gen.Pack.largeFlag = countLarge (es.take i) := by
      simp only [Gen.Pack.largeFlag]; omega
    have hbig : slice (tabled pre es tail) (pre.length + 1024 + hs * es.length + Gen.Pack.v2CrcWidth * es.length
        + Gen.Pack.v2OfsWidth * es.length + countLarge (es.take i) * Gen.Pack.largeEntryWidth) 8
        = beBytes 8 es[i].offset := by
      simp only [Gen.Pack.v2CrcWidth, Gen.Pack.v2OfsWidth, Gen.Pack.largeEntryWidth]
      unfold tabled
      rw [slice_skip' _ _ pre.length (1024 + hs * es.length + 4 * es.length + 4 * es.length + countLarge (es.take i) * 8)
        _ _ rfl (by omega)]
      rw [slice_skip' _ _ 1024 (hs * es.length + 4 * es.length + 4 * es.length + countLarge (es.take i) * 8)
        _ _ (fanoutBytes_length es) (by omega)]
      rw [slice_skip' _ _ (hs * es.length) (4 * es.length + 4 * es.length + countLarge (es.take i) * 8) _ _ hN (by omega)]
      rw [slice_skip' _ _ (4 * es.length) (4 * es.length + countLarge (es.take i) * 8) _ _ hC (by omega)]
      rw [slice_skip' _ _ (4 * es.length) (countLarge (es.take i) * 8) _ _ hO (by omega)]
      rw [slice_within _ _ _ _ (by rw [hL]; omega)]
      exact largeWords_slice es i hi hsmall
    have h64 : es[i].offset < 256 ^ 8 := hoff _ (List.getElem_mem hi)
    have h8 : beAt 8 (tabled pre es tail) (pre.length + 1024 + hs * es.length + Gen.Pack.v2CrcWidth * es.length
        + Gen.Pack.v2OfsWidth * es.length + countLarge (es.take i) * Gen.Pack.largeEntryWidth) = some es[i].offset := by
      unfold beAt
      rw [hbig, beBytes_length, if_pos rfl, beVal_beBytes 8 _ h64]
    have hlarge : ∀ v, v % Gen.Pack.largeFlag = countLarge (es.take i) →
        x.largeOffsetAt v = .ok es[i].offset := by
      intro v hv'
      unfold Idx.largeOffsetAt
      rw [hv', hx.c, hLO, h8]
    exact hlarge _ hsub

theorem countLt_le_countLe (es : List IdxEntry) (b : Nat) : countLt es b ≤ countLe es b := by
  unfold countLt countLe
  induction es with
  | nil => simp
  | cons e es ih =>
    simp only [List.filter_cons]
    by_cases h1 : firstByte e.name < b
    · have d1 : decide (firstByte e.name < b) = true := decide_eq_true h1
      have d2 : decide (firstByte e.name ≤ b) = true := decide_eq_true (by omega)
      simp only [d1, d2, if_true, List.length_cons]; omega
    · have d1 : decide (firstByte e.name < b) = false := decide_eq_false h1
      simp only [d1, Bool.false_eq_true, if_false]
      split
      · simp only [List.length_cons]; omega
      · exact ih

/-- In a strictly sorted list the first entry with a given name is the only one. -/
theorem find_sorted : ∀ (es : List IdxEntry) (i : Nat) (hi : i < es.length), Sorted es →
    es.find? (fun e => decide (e.name = es[i].name)) = some es[i] := by
  intro es
  induction es with
  | nil => intro i hi; simp at hi
  | cons e es ih =>
    intro i hi hs
    have hp := List.pairwise_cons.mp hs
    cases i with
    | zero => simp
    | succ i =>
      have hi' : i < es.length := by simpa using hi
      simp only [List.getElem_cons_succ]
      have hne : e.name ≠ es[i].name := bytesLt_ne (hp.1 es[i] (List.getElem_mem hi'))
      rw [List.find?_cons]
      have d : decide (e.name = es[i].name) = false := decide_eq_false hne
      rw [d]
      exact ih i hi' hp.2

/-- The lookup over the loaded file, given what the bisection returns. -/
theorem fan_get (es : List IdxEntry) (b : Nat) (hb : b < 256) :
    ((List.range' 0 256).map (cumul es))[b]? = some (cumul es b) := by
  simp [List.getElem?_map, List.getElem?_range', hb]

/-- The writer accepts well-formed input and writes `v2File`. -/
theorem write_v2_ok (H : Bytes → Bytes) (es : List IdxEntry) (cs : Bytes) (hs : Nat)
    (hhs : hs = 20 ∨ hs = 32) (hcs : cs.length = hs) (hnames : ∀ e ∈ es, e.name.length = hs)
    (hfield : ∀ e ∈ es, e.crc < 2 ^ 32 ∧ e.offset < 2 ^ 64) :
    writeIndexV2 H es cs = .ok (v2File H es cs) := by
  unfold writeIndexV2
  have h1 : ¬ (cs.length ≠ Gen.Pack.v2CsLenA ∧ cs.length ≠ Gen.Pack.v2CsLenB) := by
    simp only [Gen.Pack.v2CsLenA, Gen.Pack.v2CsLenB]; omega
  have h2 : es.any (fun e => e.name.isEmpty) = false := by
    rw [List.any_eq_false]
    intro e he
    have := hnames e he
    cases hn' : e.name with
    | nil => rw [hn'] at this; simp at this; omega
    | cons _ _ => simp
  have h3 : es.any (fun e => decide (e.name.length ≠ v2HashSize es cs)) = false := by
    rw [List.any_eq_false]
    intro e he
    have hv : v2HashSize es cs = hs := by
      cases es with
      | nil => exact hcs
      | cons a _ => exact hnames a (List.mem_cons_self)
    simp [hv, hnames e he]
  have h4 : structOk es = true := by
    unfold structOk
    rw [List.all_eq_true]
    intro e he
    simpa using hfield e he
  simp only [h1, if_false, h2, Bool.false_eq_true, h3, h4, not_true_eq_false, v2File]

/-! ### the lookup, for any index version: all it needs from the file -/

/-- What the lookup needs to know about a loaded index `x` of the entries `es`. -/
structure IdxFacts (x : Idx) (es : List IdxEntry) (hs : Nat) : Prop where
  hs : x.hs = hs
  fan : x.fan = (List.range' 0 256).map (cumul es)
  name : ∀ i (hi : i < es.length), x.nameAt i = es[i].name
  offset : ∀ i (hi : i < es.length), x.offsetAt i = .ok es[i].offset

/-- No entry of a sorted list has first byte `b` iff the group `[countLt b, countLe b)` is empty, and the
entries named `sha` lie in the group of `sha`'s first byte. -/
theorem group_of_name (es : List IdxEntry) (hsorted : Sorted es) (sha : Bytes) (j : Nat) (hj : j < es.length)
    (heq : es[j].name = sha) :
    countLt es (firstByte sha) ≤ j ∧ j < countLe es (firstByte sha) := by
  have hmono := hsorted.firstBytes
  have hfj : firstByte es[j].name = firstByte sha := by rw [heq]
  have h1 := (countLt_iff es (firstByte sha) j hj hmono).not.mpr (by omega)
  have h2 := (countLt_iff es (firstByte sha + 1) j hj hmono).mpr (by omega)
  rw [← countLe_eq_countLt] at h2
  omega

/-- **The repaired lookup is exact**: `bisect_find_sha(start, end - 1)` after `if start == end: KeyError`. -/
theorem lookup_correct (x : Idx) (es : List IdxEntry) (hs : Nat) (sha : Bytes) (hx : IdxFacts x es hs)
    (hsha : sha.length = hs) (hsorted : Sorted es) :
    x.lookupWith 1 1 sha = match es.find? (fun e => decide (e.name = sha)) with
                           | some e => .ok e.offset
                           | none => .error .key := by
  have hfb := firstByte_lt sha
  have hstart : (if firstByte sha = 0 then some 0 else ((List.range' 0 256).map (cumul es))[firstByte sha - 1]?)
      = some (countLt es (firstByte sha)) := by
    by_cases h0 : firstByte sha = 0
    · rw [if_pos h0, h0, countLt_zero]
    · rw [if_neg h0, fan_get es _ (by omega), cumul_eq_countLe, countLe_eq_countLt]
      congr 2; omega
  have hend : ((List.range' 0 256).map (cumul es))[firstByte sha]? = some (countLe es (firstByte sha)) := by
    rw [fan_get es _ hfb, cumul_eq_countLe]
  have hle : countLt es (firstByte sha) ≤ countLe es (firstByte sha) := countLt_le_countLe es _
  have hen : countLe es (firstByte sha) ≤ es.length := countLe_le es _
  have hnofind : (∀ k, countLt es (firstByte sha) ≤ k → k < countLe es (firstByte sha) → x.nameAt k ≠ sha) →
      es.find? (fun e => decide (e.name = sha)) = none := by
    intro hnone
    rw [List.find?_eq_none]
    intro e he
    obtain ⟨j, hj, rfl⟩ := List.getElem_of_mem he
    simp only [decide_eq_true_eq]
    intro heq
    obtain ⟨h1, h2⟩ := group_of_name es hsorted sha j hj heq
    have := hnone j h1 h2
    rw [hx.name j hj] at this
    exact this heq
  unfold Idx.lookupWith
  rw [hx.hs, hx.fan]
  simp only [hsha, ne_eq, not_true_eq_false, if_false, hstart, hend, Gen.Pack.bisectInclusive]
  rw [if_neg (by omega)]
  by_cases hempty : countLe es (firstByte sha) < countLt es (firstByte sha) + 1
  · rw [if_pos hempty]
    simp only [if_true]
    rw [hnofind (by intro k h1 h2; omega)]
  · rw [if_neg hempty]
    have hbis := bisect_spec x.nameAt sha (countLt es (firstByte sha)) (countLe es (firstByte sha))
      (by
        intro i j hi hij hj
        rw [hx.name i (by omega), hx.name j (by omega)]
        exact (List.pairwise_iff_getElem.mp hsorted) i j (by omega) (by omega) hij)
      (countLe es (firstByte sha) + 1 - 1 - countLt es (firstByte sha)) (countLt es (firstByte sha))
      (countLe es (firstByte sha) + 1 - 1) (Nat.le_refl _) (by omega) (Nat.le_refl _) (Or.inl (by omega))
      (by intro k h1 h2; omega) (by intro k h1 h2; omega)
    generalize hr : bisect x.nameAt sha
      (countLe es (firstByte sha) + 1 - 1 - countLt es (firstByte sha)) (countLt es (firstByte sha))
      (countLe es (firstByte sha) + 1 - 1) = r at hbis
    cases r with
    | some i =>
      obtain ⟨hi1, hi2, hi3⟩ := hbis.1 i rfl
      have hin : i < es.length := by omega
      rw [hx.name i hin] at hi3
      simp only
      rw [hx.offset i hin, ← hi3, find_sorted es i hin hsorted]
    | none =>
      have hnone := hbis.2 rfl
      simp only
      rw [hnofind hnone]

/-! ### version 2 -/

def v2Pre : Bytes := Gen.Pack.idxMagic ++ beBytes 4 Gen.Pack.idxV2Version

theorem v2Pre_length : v2Pre.length = 8 := by simp [v2Pre, Gen.Pack.idxMagic, beBytes_length]

theorem v2_file (H : Bytes → Bytes) (es : List IdxEntry) (cs : Bytes) :
    v2File H es cs = tabled v2Pre es (cs ++ H (v2Body es cs)) := by
  simp [v2File, v2Body, v2Pre, tabled, List.append_assoc]

theorem lastOr0_fan (es : List IdxEntry) : lastOr0 ((List.range' 0 256).map (cumul es)) = es.length := by
  unfold lastOr0
  simp only [Gen.Pack.fanoutSize]
  have : ((List.range' 0 256).map (cumul es))[256 - 1]? = some (cumul es 255) := by
    simp [List.getElem?_map]
  rw [this]
  simp only
  rw [cumul_eq_countLe, countLe_255]

theorem readFan_tabled (pre tail : Bytes) (es : List IdxEntry) (hn : es.length < 2 ^ 31) :
    readFan (tabled pre es tail) pre.length = .ok ((List.range' 0 256).map (cumul es)) := by
  unfold readFan tabled fanoutBytes
  simp only [Gen.Pack.fanEntryBytes, Gen.Pack.fanoutSize]
  exact readFanFrom_ok pre _ (cumul es) 256 _ rfl (cumul_lt es hn) 256 0 (by omega)

/-- Loading the written file. -/
theorem load_v2 (H : Bytes → Bytes) (es : List IdxEntry) (cs : Bytes) (hs : Nat) (hn : es.length < 2 ^ 31) :
    loadIndex hs (v2File H es cs) = .ok (v2Idx H es cs hs) := by
  have hmagic : (v2File H es cs).take Gen.Pack.loadMagicLen = Gen.Pack.idxMagic := by
    rw [v2_file]; simp [tabled, v2Pre, Gen.Pack.idxMagic, Gen.Pack.loadMagicLen]
  have hver : beAt 4 (v2File H es cs) Gen.Pack.loadVersionAt = some Gen.Pack.idxV2Version := by
    rw [v2_file, tabled, v2Pre, List.append_assoc]
    exact beAt_beBytes 4 _ _ _ _ (by simp [Gen.Pack.idxMagic, Gen.Pack.loadVersionAt]) (by decide)
  have hfan : readFan (v2File H es cs) Gen.Pack.v2FanAt = .ok ((List.range' 0 256).map (cumul es)) := by
    rw [v2_file]
    have := readFan_tabled v2Pre (cs ++ H (v2Body es cs)) es hn
    rw [v2Pre_length] at this
    exact this
  unfold loadIndex
  simp only [hmagic, if_true, hver, hfan, lastOr0_fan, v2Idx]

theorem v2Idx_tabled (H : Bytes → Bytes) (es : List IdxEntry) (cs : Bytes) (hs : Nat) :
    IsTabled (v2Idx H es cs hs) es hs v2Pre (cs ++ H (v2Body es cs)) :=
  ⟨show ¬ (2 : Nat) = 1 by decide, rfl, v2_file H es cs, rfl, by rw [v2Pre_length]; rfl, rfl⟩

theorem facts_of_tabled (x : Idx) (es : List IdxEntry) (hs : Nat) (pre tail : Bytes) (hx : IsTabled x es hs pre tail)
    (hnames : ∀ e ∈ es, e.name.length = hs) (hn : es.length < 2 ^ 31) (hoff : ∀ e ∈ es, e.offset < 2 ^ 64) :
    IdxFacts x es hs :=
  ⟨hx.hs, hx.fan, fun i hi => nameAt_tabled x es hs pre tail hx hnames i hi,
    fun i hi => offsetAt_tabled x es hs pre tail hx hnames hn hoff i hi⟩

/-! ### version 3 (SHA-1; `write_pack_index_v3` raises `NotImplementedError` for SHA-256) -/

def v3Pre : Bytes :=
  Gen.Pack.idxMagic ++ beBytes 4 Gen.Pack.idxV3Version ++ beBytes 4 Gen.Pack.v3FmtSha1 ++ beBytes 4 Gen.Pack.v3LenSha1

theorem v3Pre_length : v3Pre.length = 16 := by simp [v3Pre, Gen.Pack.idxMagic, beBytes_length]

theorem v3_file (H : Bytes → Bytes) (es : List IdxEntry) (cs : Bytes) :
    v3File H es cs = tabled v3Pre es (cs ++ H (v3Body es cs Gen.Pack.v3FmtSha1 Gen.Pack.v3LenSha1)) := by
  simp [v3File, v3Body, v3Pre, tabled, List.append_assoc]

theorem load_v3 (H : Bytes → Bytes) (es : List IdxEntry) (cs : Bytes) (hn : es.length < 2 ^ 31) :
    loadIndex Gen.Pack.sha1Len (v3File H es cs) = .ok (v3Idx H es cs) := by
  have hmagic : (v3File H es cs).take Gen.Pack.loadMagicLen = Gen.Pack.idxMagic := by
    rw [v3_file]; simp [tabled, v3Pre, Gen.Pack.idxMagic, Gen.Pack.loadMagicLen]
  have hver : beAt 4 (v3File H es cs) Gen.Pack.loadVersionAt = some Gen.Pack.idxV3Version := by
    rw [v3_file, tabled, v3Pre]
    simp only [List.append_assoc]
    exact beAt_beBytes 4 _ _ _ _ (by simp [Gen.Pack.idxMagic, Gen.Pack.loadVersionAt]) (by decide)
  have hfmt : beAt 4 (v3File H es cs) Gen.Pack.v3FmtAt = some Gen.Pack.v3FmtSha1 := by
    rw [v3_file, tabled, v3Pre]
    simp only [List.append_assoc]
    rw [← List.append_assoc Gen.Pack.idxMagic]
    exact beAt_beBytes 4 _ _ _ _ (by simp [Gen.Pack.idxMagic, Gen.Pack.v3FmtAt, beBytes_length]) (by decide)
  have hshort : beAt 4 (v3File H es cs) Gen.Pack.v3ShortLenAt = some Gen.Pack.v3LenSha1 := by
    rw [v3_file, tabled, v3Pre]
    simp only [List.append_assoc]
    rw [← List.append_assoc (beBytes 4 Gen.Pack.idxV3Version), ← List.append_assoc Gen.Pack.idxMagic]
    exact beAt_beBytes 4 _ _ _ _ (by simp [Gen.Pack.idxMagic, Gen.Pack.v3ShortLenAt, beBytes_length]) (by decide)
  have hfan : readFan (v3File H es cs) Gen.Pack.v3FanAt = .ok ((List.range' 0 256).map (cumul es)) := by
    rw [v3_file]
    have := readFan_tabled v3Pre (cs ++ H (v3Body es cs Gen.Pack.v3FmtSha1 Gen.Pack.v3LenSha1)) es hn
    rw [v3Pre_length] at this
    exact this
  unfold loadIndex
  have hv : ¬ Gen.Pack.idxV3Version = Gen.Pack.idxV2Version := by decide
  have hf : ¬ (Gen.Pack.v3FmtSha1 ≠ Gen.Pack.sha1Fmt ∧ Gen.Pack.v3FmtSha1 ≠ Gen.Pack.sha256Fmt) := by decide
  have hh : ¬ Gen.Pack.sha1Len ≠ (if Gen.Pack.v3FmtSha1 = Gen.Pack.sha1Fmt then Gen.Pack.sha1Len else Gen.Pack.sha256Len) := by
    decide
  simp only [hmagic, if_true, hver, hv, if_false, hfmt, hf, hh, hshort, hfan, lastOr0_fan, v3Idx]

theorem v3Idx_tabled (H : Bytes → Bytes) (es : List IdxEntry) (cs : Bytes) :
    IsTabled (v3Idx H es cs) es Gen.Pack.sha1Len v3Pre
      (cs ++ H (v3Body es cs Gen.Pack.v3FmtSha1 Gen.Pack.v3LenSha1)) :=
  ⟨show ¬ (3 : Nat) = 1 by decide, rfl, v3_file H es cs, rfl, by rw [v3Pre_length]; rfl, rfl⟩

theorem write_v3_ok (H : Bytes → Bytes) (es : List IdxEntry) (cs : Bytes)
    (hcs : cs.length = 20) (hnames : ∀ e ∈ es, e.name.length = 20)
    (hfield : ∀ e ∈ es, e.crc < 2 ^ 32 ∧ e.offset < 2 ^ 64) :
    writeIndexV3 H es cs Gen.Pack.v3FmtSha1 = .ok (v3File H es cs) := by
  unfold writeIndexV3
  have h3 : es.any (fun e => decide (e.name.length ≠ Gen.Pack.v3LenSha1)) = false := by
    rw [List.any_eq_false]
    intro e he
    simp [hnames e he, Gen.Pack.v3LenSha1]
  have h4 : structOk es = true := by
    unfold structOk
    rw [List.all_eq_true]
    intro e he
    simpa using hfield e he
  have h5 : ¬ cs.length ≠ Gen.Pack.v3LenSha1 := by simp [hcs, Gen.Pack.v3LenSha1]
  simp only [if_true, h3, Bool.false_eq_true, if_false, h4, not_true_eq_false, h5, v3File]

/-! ### version 1 -/

/-- A sub-slice of the `i`-th item of a table of `w`-byte items. -/
theorem slice_flatMap_sub {α : Type} (f : α → Bytes) (w o k : Nat) (hok : o + k ≤ w) :
    ∀ (l : List α) (i : Nat) (hi : i < l.length),
    (∀ x ∈ l, (f x).length = w) → slice (l.flatMap f) (i * w + o) k = slice (f l[i]) o k := by
  intro l
  induction l with
  | nil => intro i hi; simp at hi
  | cons x xs ih =>
    intro i hi hw
    have hx : (f x).length = w := hw x (List.mem_cons_self)
    cases i with
    | zero =>
      simp only [List.flatMap_cons, Nat.zero_mul, Nat.zero_add, List.getElem_cons_zero]
      exact slice_within _ _ _ _ (by omega)
    | succ i =>
      simp only [List.flatMap_cons, List.getElem_cons_succ]
      have e : (i + 1) * w + o = w + (i * w + o) := by rw [Nat.succ_mul]; omega
      rw [e, slice_skip _ _ w _ _ hx]
      exact ih i (by simpa using hi) (fun y hy => hw y (List.mem_cons_of_mem _ hy))

def v1Entry (e : IdxEntry) : Bytes := beBytes 4 e.offset ++ e.name

theorem v1_file (H : Bytes → Bytes) (es : List IdxEntry) (cs : Bytes) :
    v1File H es cs = fanoutBytes es ++ (es.flatMap v1Entry ++ (cs ++ H (v1Body es cs))) := by
  have : (fun e : IdxEntry => beBytes 4 e.offset ++ e.name) = v1Entry := rfl
  simp [v1File, v1Body, this, List.append_assoc]

theorem v1Entry_length (es : List IdxEntry) (hnames : ∀ e ∈ es, e.name.length = 20) :
    ∀ e ∈ es, (v1Entry e).length = 24 := by
  intro e he; simp [v1Entry, beBytes_length, hnames e he]

theorem v1_item (H : Bytes → Bytes) (es : List IdxEntry) (cs : Bytes) (hnames : ∀ e ∈ es, e.name.length = 20)
    (i : Nat) (hi : i < es.length) (o k : Nat) (hok : o + k ≤ 24) :
    slice (v1File H es cs) (1024 + (i * 24 + o)) k = slice (v1Entry es[i]) o k := by
  rw [v1_file, slice_skip _ _ 1024 _ _ (fanoutBytes_length es)]
  have hl : (es.flatMap v1Entry).length = 24 * es.length := length_flatMap_fixed _ 24 es (v1Entry_length es hnames)
  rw [slice_within _ _ _ _ (by rw [hl]; omega)]
  exact slice_flatMap_sub v1Entry 24 o k hok es i hi (v1Entry_length es hnames)

theorem nameAt_v1 (H : Bytes → Bytes) (es : List IdxEntry) (cs : Bytes) (hnames : ∀ e ∈ es, e.name.length = 20)
    (i : Nat) (hi : i < es.length) : (v1Idx H es cs).nameAt i = es[i].name := by
  unfold Idx.nameAt
  have hv : (v1Idx H es cs).version = 1 := rfl
  have hh : (v1Idx H es cs).hs = 20 := rfl
  have hc : (v1Idx H es cs).c = v1File H es cs := rfl
  rw [if_pos hv, hh, hc]
  simp only [Gen.Pack.v1TableAt, Gen.Pack.v1EntryExtra, Gen.Pack.v1NameSkip]
  have e : 1024 + i * (4 + 20) + 4 = 1024 + (i * 24 + 4) := by omega
  rw [e, v1_item H es cs hnames i hi 4 20 (by omega)]
  have hn := hnames _ (List.getElem_mem hi)
  unfold v1Entry
  rw [slice_skip' _ _ 4 0 _ _ (beBytes_length _ _) (by omega), ← hn, slice_full]

theorem offsetAt_v1 (H : Bytes → Bytes) (es : List IdxEntry) (cs : Bytes) (hnames : ∀ e ∈ es, e.name.length = 20)
    (hoff : ∀ e ∈ es, e.offset < 2 ^ 32) (i : Nat) (hi : i < es.length) :
    (v1Idx H es cs).offsetAt i = .ok es[i].offset := by
  unfold Idx.offsetAt
  have hv : (v1Idx H es cs).version = 1 := rfl
  rw [if_pos hv]
  unfold Idx.offsetAtV1
  have hh : (v1Idx H es cs).hs = 20 := rfl
  have hc : (v1Idx H es cs).c = v1File H es cs := rfl
  rw [hh, hc]
  have h4 : beAt 4 (v1File H es cs) (Gen.Pack.v1TableAt + i * (Gen.Pack.v1EntryExtra + 20)) = some es[i].offset := by
    have hs4 : slice (v1Entry es[i]) 0 4 = beBytes 4 es[i].offset := by
      unfold v1Entry
      have := slice_prefix (beBytes 4 es[i].offset) es[i].name
      rwa [beBytes_length] at this
    have hsl : slice (v1File H es cs) (Gen.Pack.v1TableAt + i * (Gen.Pack.v1EntryExtra + 20)) 4
        = beBytes 4 es[i].offset := by
      simp only [Gen.Pack.v1TableAt, Gen.Pack.v1EntryExtra]
      have e : 1024 + i * (4 + 20) = 1024 + (i * 24 + 0) := by omega
      rw [e, v1_item H es cs hnames i hi 0 4 (by omega), hs4]
    have hlt : es[i].offset < 256 ^ 4 := hoff _ (List.getElem_mem hi)
    unfold beAt
    simp only [hsl, beBytes_length, if_true, beVal_beBytes 4 _ hlt]
  rw [h4]

theorem load_v1 (H : Bytes → Bytes) (es : List IdxEntry) (cs : Bytes) (hn : es.length < 2 ^ 31) :
    loadIndex Gen.Pack.sha1Len (v1File H es cs) = .ok (v1Idx H es cs) := by
  have hfirst : slice (v1File H es cs) 0 4 = beBytes 4 (cumul es 0) := by
    rw [v1_file]
    have hl := fanoutBytes_length es
    rw [slice_within _ _ _ _ (by omega)]
    unfold fanoutBytes
    simp only [Gen.Pack.fanEntryBytes, Gen.Pack.fanoutSize]
    have := slice_flatMap (fun b => beBytes 4 (cumul es b)) 4 (List.range 256) 0 (by simp)
      (fun x _ => beBytes_length _ _)
    simpa using this
  have hmagic : ¬ (v1File H es cs).take Gen.Pack.loadMagicLen = Gen.Pack.idxMagic := by
    intro h
    have h' : slice (v1File H es cs) 0 4 = Gen.Pack.idxMagic := by simpa [slice, Gen.Pack.loadMagicLen] using h
    rw [hfirst] at h'
    have hv := congrArg beVal h'
    rw [beVal_beBytes 4 _ (cumul_lt es hn 0)] at hv
    have hc := countLe_le es 0
    rw [← cumul_eq_countLe] at hc
    have hm : beVal Gen.Pack.idxMagic = 4285812579 := by decide
    omega
  have hfan : readFan (v1File H es cs) Gen.Pack.v1FanAt = .ok ((List.range' 0 256).map (cumul es)) := by
    rw [v1_file]
    unfold readFan fanoutBytes
    simp only [Gen.Pack.fanEntryBytes, Gen.Pack.fanoutSize]
    have := readFanFrom_ok [] (es.flatMap v1Entry ++ (cs ++ H (v1Body es cs))) (cumul es) 256 0 rfl
      (cumul_lt es hn) 256 0 (by omega)
    simpa [Gen.Pack.v1FanAt] using this
  unfold loadIndex
  simp only [hmagic, if_false, ne_eq, not_true_eq_false, hfan, lastOr0_fan, v1Idx]

theorem v1_facts (H : Bytes → Bytes) (es : List IdxEntry) (cs : Bytes) (hnames : ∀ e ∈ es, e.name.length = 20)
    (hoff : ∀ e ∈ es, e.offset < 2 ^ 32) : IdxFacts (v1Idx H es cs) es 20 :=
  ⟨rfl, rfl, fun i hi => nameAt_v1 H es cs hnames i hi, fun i hi => offsetAt_v1 H es cs hnames hoff i hi⟩

theorem write_v1_ok (H : Bytes → Bytes) (es : List IdxEntry) (cs : Bytes)
    (hcs : cs.length = 20) (hnames : ∀ e ∈ es, e.name.length = 20) (hoff : ∀ e ∈ es, e.offset < 2 ^ 32) :
    writeIndexV1 H es cs = .ok (v1File H es cs) := by
  unfold writeIndexV1
  have h2 : es.any (fun e => e.name.isEmpty) = false := by
    rw [List.any_eq_false]
    intro e he
    have := hnames e he
    cases hn' : e.name with
    | nil => rw [hn'] at this; simp at this
    | cons _ _ => simp
  have h3 : es.any (fun e => decide (e.name.length ≠ Gen.Pack.v1NameLen ∨ e.offset > Gen.Pack.v1MaxOffset)) = false := by
    rw [List.any_eq_false]
    intro e he
    have h1 := hnames e he
    have h2 := hoff e he
    have : ¬ (e.name.length ≠ Gen.Pack.v1NameLen ∨ e.offset > Gen.Pack.v1MaxOffset) := by
      simp only [Gen.Pack.v1NameLen, Gen.Pack.v1MaxOffset]; omega
    rw [decide_eq_false this]; simp
  have h5 : ¬ cs.length ≠ Gen.Pack.v1NameLen := by simp [hcs, Gen.Pack.v1NameLen]
  simp only [h2, Bool.false_eq_true, if_false, h3, h5, v1File]

end Dulwich.PackIndex
