/-
  Helper lemmas for the negotiation model (C05).  Core Lean only.
-/
import DulwichModel.Model.Negotiate

namespace Dulwich.Negotiate
open Dulwich Dulwich.Graph


theorem ackHave_haves (mode : AckMode) (has : Id → Bool) (sat : List Id → Bool) (x : Id) (st : NState) :
    ∀ y ∈ (ackHave mode has sat x st).haves, y ∈ st.haves ∨ (y = x ∧ has x = true) := by
  intro y hy
  unfold ackHave at hy
  split at hy
  · exact .inl hy
  · rename_i hc
    have hx : has x = true := by
      cases hh : has x
      · simp [Gen.haveCheckedAgainstStore, hh] at hc
      · rfl
    have key : ∀ y ∈ st.haves ++ [x], y ∈ st.haves ∨ (y = x ∧ has x = true) := by
      intro y hy
      simp only [List.mem_append, List.mem_singleton] at hy
      exact hy.imp id (fun h => ⟨h, hx⟩)
    cases mode with
    | single =>
      simp only at hy
      split at hy <;> exact key y hy
    | multi =>
      simp only at hy
      split at hy <;> exact key y hy
    | detailed => exact key y hy

theorem loop_haves_sound (mode : AckMode) (stateless : Bool) (has : Id → Bool) (sat : List Id → Bool) :
    ∀ (lines : List CLine) (st : NState) (r : NegoResult), loop mode stateless has sat lines st = .ok r →
      ∀ y ∈ r.haves, y ∈ st.haves ∨ (has y = true ∧ CLine.have_ y ∈ lines)
  | [], st, r, h => by simp [loop] at h
  | .have_ x :: rest, st, r, h => by
    simp only [loop] at h
    intro y hy
    rcases loop_haves_sound mode stateless has sat rest _ r h y hy with h1 | h1
    · rcases ackHave_haves mode has sat x _ y h1 with h2 | h2
      · left
        split at h2 <;> exact h2
      · right; exact ⟨h2.1 ▸ h2.2, by simp [h2.1]⟩
    · right; exact ⟨h1.1, by simp [h1.2]⟩
  | .done :: rest, st, r, h => by
    simp only [loop] at h
    cases h
    intro y hy
    exact .inl hy
  | .flush :: rest, st, r, h => by
    simp only [loop] at h
    intro y hy
    cases mode with
    | single => simp only at h; cases h; exact .inl hy
    | multi =>
      simp only at h
      rcases loop_haves_sound .multi stateless has sat rest _ r h y hy with h1 | h1
      · exact .inl h1
      · right; exact ⟨h1.1, by simp [h1.2]⟩
    | detailed =>
      simp only at h
      split at h
      · split at h
        · cases h
        · split at h
          · cases h; exact .inl hy
          · rcases loop_haves_sound .detailed stateless has sat rest _ r h y hy with h1 | h1
            · exact .inl h1
            · right; exact ⟨h1.1, by simp [h1.2]⟩
      · split at h
        · cases h; exact .inl hy
        · rcases loop_haves_sound .detailed stateless has sat rest _ r h y hy with h1 | h1
          · exact .inl h1
          · right; exact ⟨h1.1, by simp [h1.2]⟩

theorem negotiate_haves_sound (mode : AckMode) (stateless : Bool) (has : Id → Bool)
    (sat : List Id → Bool) (lines : List CLine) (r : NegoResult)
    (h : negotiate mode stateless has sat lines = .ok r) :
    ∀ x ∈ r.haves, has x = true ∧ CLine.have_ x ∈ lines := by
  intro x hx
  rcases loop_haves_sound mode stateless has sat lines {} r h x hx with h1 | h1
  · simp at h1
  · exact h1

theorem sendsPack_needs_done (mode : AckMode) (r : NegoResult) (noDone : Bool)
    (hp : sendsPack mode r noDone = true) :
    r.doneReceived = true ∨ (noDone = true ∧ r.common ≠ []) := by
  unfold sendsPack at hp
  cases hd : r.doneReceived
  · right
    simp [hd] at hp
    refine ⟨hp.1, ?_⟩
    intro hnil
    simp [hnil] at hp
  · left; rfl

end Dulwich.Negotiate
