/-
  Lemmas about the logical maintenance model (`Model/GC.lean`): the reachability worklist is sound, complete and
  terminates; characterisation of `has` after every maintenance operation.
-/
import DulwichModel.Model.GC
namespace Dulwich.GC

/-! ### reachability specification -/

/-- Reachability over an abstract "readable children" function. -/
inductive ReachK (kids : Id → Option (List Id)) (roots : List Id) : Id → Prop
  | root {x : Id} : x ∈ roots → ReachK kids roots x
  | step {p x : Id} {cs : List Id} : ReachK kids roots p → kids p = some cs → x ∈ cs → ReachK kids roots x

/-- Specification of reachability: roots are reachable; a child (according to `G`) of a reachable object that is
PRESENT in the store is reachable.  (Ids of absent objects can be reachable but are not expanded — like the real walk.) -/
inductive Reach (s : Store) (G : Id → List Id) (roots : List Id) : Id → Prop
  | root {x : Id} : x ∈ roots → Reach s G roots x
  | step {p x : Id} : Reach s G roots p → s.has p = true → x ∈ G p → Reach s G roots x

theorem reach_iff_reachK {s : Store} {G : Id → List Id} {roots : List Id} {x : Id} :
    Reach s G roots x ↔ ReachK (kidsIn s G) roots x := by
  constructor
  · intro h
    induction h with
    | root h => exact .root h
    | step _ hp hx ih => exact .step ih (by simp [kidsIn, hp]) hx
  · intro h
    induction h with
    | root h => exact .root h
    | @step p x cs _ hk hx ih =>
      unfold kidsIn at hk
      split at hk
      · rename_i hp
        cases hk
        exact .step ih hp hx
      · cases hk

/-! ### addKids -/

theorem mem_addKids_fst (seen pending cs : List Id) (y : Id) :
    y ∈ (addKids seen pending cs).1 ↔ y ∈ seen ∨ y ∈ cs := by
  induction cs generalizing seen pending with
  | nil => simp [addKids]
  | cons c cs ih =>
    unfold addKids
    split
    · rename_i h
      have hc : c ∈ seen := by simpa using h
      rw [ih]
      grind
    · rw [ih]
      grind

theorem mem_addKids_snd (seen pending cs : List Id) (y : Id) :
    y ∈ (addKids seen pending cs).2 ↔ y ∈ pending ∨ (y ∈ cs ∧ y ∉ seen) := by
  induction cs generalizing seen pending with
  | nil => simp [addKids]
  | cons c cs ih =>
    unfold addKids
    split
    · rename_i h
      have hc : c ∈ seen := by simpa using h
      rw [ih]
      grind
    · rename_i h
      have hc : c ∉ seen := by simpa using h
      rw [ih]
      grind

/-! ### the walk is sound and complete -/

structure WInv (kids : Id → Option (List Id)) (roots seen pending : List Id) : Prop where
  roots_seen : ∀ x ∈ roots, x ∈ seen
  pending_seen : ∀ x ∈ pending, x ∈ seen
  closed : ∀ x ∈ seen, x ∉ pending → ∀ cs, kids x = some cs → ∀ c ∈ cs, c ∈ seen
  sound : ∀ x ∈ seen, ReachK kids roots x

theorem walk_iff {kids : Id → Option (List Id)} {roots : List Id} :
    ∀ (fuel : Nat) (seen pending r : List Id), WInv kids roots seen pending →
      walk kids fuel seen pending = some r → ∀ x, x ∈ r ↔ ReachK kids roots x := by
  intro fuel
  induction fuel with
  | zero =>
    intro seen pending r inv h x
    cases pending with
    | nil =>
      simp only [walk, Option.some.injEq] at h
      subst h
      constructor
      · exact inv.sound x
      · intro hr
        induction hr with
        | root h => exact inv.roots_seen _ h
        | step _ hk hx ih => exact inv.closed _ ih (by simp) _ hk _ hx
    | cons p rest => simp [walk] at h
  | succ fuel ih =>
    intro seen pending r inv h x
    cases pending with
    | nil =>
      simp only [walk, Option.some.injEq] at h
      subst h
      constructor
      · exact inv.sound x
      · intro hr
        induction hr with
        | root h => exact inv.roots_seen _ h
        | step _ hk hx ih => exact inv.closed _ ih (by simp) _ hk _ hx
    | cons p rest =>
      unfold walk at h
      split at h
      · rename_i hk
        refine ih seen rest r ?_ h x
        refine ⟨inv.roots_seen, fun y hy => inv.pending_seen y (List.mem_cons_of_mem _ hy), ?_, inv.sound⟩
        intro y hy hny cs hcs c hc
        by_cases hyp : y = p
        · subst hyp; rw [hk] at hcs; cases hcs
        · exact inv.closed y hy (by simp [hyp, hny]) cs hcs c hc
      · rename_i cs hk
        refine ih _ _ r ?_ h x
        refine ⟨?_, ?_, ?_, ?_⟩
        · intro y hy
          exact (mem_addKids_fst _ _ _ _).mpr (.inl (inv.roots_seen y hy))
        · intro y hy
          rcases (mem_addKids_snd _ _ _ _).mp hy with h1 | ⟨h1, _⟩
          · exact (mem_addKids_fst _ _ _ _).mpr (.inl (inv.pending_seen y (List.mem_cons_of_mem _ h1)))
          · exact (mem_addKids_fst _ _ _ _).mpr (.inr h1)
        · intro y hy hny cs' hcs' c hc
          have hnr : y ∉ rest := fun hr => hny ((mem_addKids_snd _ _ _ _).mpr (.inl hr))
          rcases (mem_addKids_fst _ _ _ _).mp hy with hys | hyc
          · by_cases hyp : y = p
            · subst hyp
              rw [hk] at hcs'
              cases hcs'
              exact (mem_addKids_fst _ _ _ _).mpr (.inr hc)
            · exact (mem_addKids_fst _ _ _ _).mpr
                (.inl (inv.closed y hys (by simp [hyp, hnr]) cs' hcs' c hc))
          · by_cases hys : y ∈ seen
            · by_cases hyp : y = p
              · subst hyp
                rw [hk] at hcs'
                cases hcs'
                exact (mem_addKids_fst _ _ _ _).mpr (.inr hc)
              · exact (mem_addKids_fst _ _ _ _).mpr
                  (.inl (inv.closed y hys (by simp [hyp, hnr]) cs' hcs' c hc))
            · exact absurd ((mem_addKids_snd _ _ _ _).mpr (.inr ⟨hyc, hys⟩)) hny
        · intro y hy
          rcases (mem_addKids_fst _ _ _ _).mp hy with hys | hyc
          · exact inv.sound y hys
          · exact .step (inv.sound p (inv.pending_seen p (by simp))) hk hyc

theorem winv_init (kids : Id → Option (List Id)) (roots : List Id) :
    WInv kids roots (addKids [] [] roots).1 (addKids [] [] roots).2 := by
  refine ⟨?_, ?_, ?_, ?_⟩
  · intro x hx
    exact (mem_addKids_fst _ _ _ _).mpr (.inr hx)
  · intro x hx
    rcases (mem_addKids_snd _ _ _ _).mp hx with h | ⟨h, _⟩
    · cases h
    · exact (mem_addKids_fst _ _ _ _).mpr (.inr h)
  · intro x hx hnp
    rcases (mem_addKids_fst _ _ _ _).mp hx with h | h
    · cases h
    · exact absurd ((mem_addKids_snd _ _ _ _).mpr (.inr ⟨h, by simp⟩)) hnp
  · intro x hx
    rcases (mem_addKids_fst _ _ _ _).mp hx with h | h
    · cases h
    · exact .root h

/-- 1. the worklist computes exactly the reachable set, for every graph, store, roots and fuel that suffices -/
theorem findReachable_iff {s : Store} {G : Id → List Id} {roots : List Id} {fuel : Nat} {r : List Id}
    (h : findReachable s G roots fuel = some r) (x : Id) : x ∈ r ↔ Reach s G roots x := by
  rw [reach_iff_reachK]
  exact walk_iff fuel _ _ r (winv_init _ _) h x

/-! ### termination -/

/-- number of positions of `U` holding an id not yet in `seen` -/
def unseen (U seen : List Id) : Nat := U.countP (fun y => !seen.contains y)

theorem unseen_cons (u : Id) (U seen : List Id) :
    unseen (u :: U) seen = unseen U seen + (if u ∈ seen then 0 else 1) := by
  unfold unseen
  rw [List.countP_cons]
  by_cases h : u ∈ seen <;> simp [h]

theorem unseen_le_of_subset (U : List Id) {seen seen' : List Id} (h : ∀ y ∈ seen, y ∈ seen') :
    unseen U seen' ≤ unseen U seen := by
  induction U with
  | nil => simp [unseen]
  | cons u U ih =>
    rw [unseen_cons, unseen_cons]
    by_cases hu : u ∈ seen
    · have := h u hu
      simp [hu, this]; exact ih
    · by_cases hu' : u ∈ seen' <;> simp [hu, hu'] <;> omega

theorem unseen_add_lt (U seen : List Id) (c : Id) (hc : c ∈ U) (hn : c ∉ seen) :
    unseen U (seen ++ [c]) + 1 ≤ unseen U seen := by
  induction U with
  | nil => cases hc
  | cons u U ih =>
    rw [unseen_cons, unseen_cons]
    by_cases huc : u = c
    · subst huc
      have hmono := unseen_le_of_subset U (seen := seen) (seen' := seen ++ [u])
        (fun y hy => List.mem_append_left _ hy)
      simp [hn]
      omega
    · have hc' : c ∈ U := by
        rcases List.mem_cons.mp hc with h | h
        · exact absurd h.symm huc
        · exact h
      have := ih hc'
      by_cases hu : u ∈ seen
      · simp [hu]; omega
      · simp [hu, huc]; omega
theorem addKids_measure (U : List Id) (seen pending cs : List Id) (hcs : ∀ c ∈ cs, c ∈ U) :
    (addKids seen pending cs).2.length + unseen U (addKids seen pending cs).1 ≤ pending.length + unseen U seen := by
  induction cs generalizing seen pending with
  | nil => simp [addKids]
  | cons c cs ih =>
    unfold addKids
    split
    · exact ih seen pending (fun y hy => hcs y (List.mem_cons_of_mem _ hy))
    · rename_i h
      have hn : c ∉ seen := by simpa using h
      have h1 := ih (seen ++ [c]) (pending ++ [c]) (fun y hy => hcs y (List.mem_cons_of_mem _ hy))
      have h2 := unseen_add_lt U seen c (hcs c (by simp)) hn
      simp only [List.length_append, List.length_singleton] at h1
      omega

theorem walk_total {kids : Id → Option (List Id)} (U : List Id)
    (hU : ∀ p cs, kids p = some cs → ∀ c ∈ cs, c ∈ U) :
    ∀ (fuel : Nat) (seen pending : List Id), pending.length + unseen U seen ≤ fuel →
      (walk kids fuel seen pending).isSome = true := by
  intro fuel
  induction fuel with
  | zero =>
    intro seen pending h
    cases pending with
    | nil => simp [walk]
    | cons p rest => simp at h
  | succ fuel ih =>
    intro seen pending h
    cases pending with
    | nil => simp [walk]
    | cons p rest =>
      unfold walk
      split
      · apply ih
        simp only [List.length_cons] at h
        omega
      · rename_i cs hk
        apply ih
        have := addKids_measure U seen rest cs (hU p cs hk)
        simp only [List.length_cons] at h
        omega

theorem has_mem_allIds {s : Store} {x : Id} (h : s.has x = true) : x ∈ s.allIds := by
  unfold Store.has Store.packed Store.isLoose at h
  unfold Store.allIds
  simp only [Bool.or_eq_true, List.any_eq_true, List.contains_iff_mem] at h
  simp only [List.mem_append, List.mem_flatMap]
  rcases h with (⟨p, hp, hx⟩ | h) | h
  · exact .inl (.inl ⟨p, hp, hx⟩)
  · exact .inl (.inr h)
  · exact .inr h

theorem mem_allIds_has {s : Store} {x : Id} (h : x ∈ s.allIds) : s.has x = true := by
  unfold Store.allIds at h
  unfold Store.has Store.packed Store.isLoose
  simp only [List.mem_append, List.mem_flatMap] at h
  simp only [Bool.or_eq_true, List.any_eq_true, List.contains_iff_mem]
  rcases h with (⟨p, hp, hx⟩ | h) | h
  · exact .inl (.inl ⟨p, hp, hx⟩)
  · exact .inl (.inr h)
  · exact .inr h

/-- 2. termination: this much fuel always suffices (each id enters `pending` at most once; every id that enters is a
root or a child of a present object, and present objects are in `allIds`). -/
theorem findReachable_total (s : Store) (G : Id → List Id) (roots : List Id) (fuel : Nat)
    (hf : (roots ++ s.allIds.flatMap G).length ≤ fuel) : (findReachable s G roots fuel).isSome = true := by
  unfold findReachable
  apply walk_total (roots ++ s.allIds.flatMap G)
  · intro p cs hk c hc
    unfold kidsIn at hk
    split at hk
    · rename_i hp
      cases hk
      exact List.mem_append_right _ (List.mem_flatMap.mpr ⟨p, has_mem_allIds hp, hc⟩)
    · cases hk
  · have := addKids_measure (roots ++ s.allIds.flatMap G) [] [] roots (fun c hc => List.mem_append_left _ hc)
    have h0 : unseen (roots ++ s.allIds.flatMap G) [] = (roots ++ s.allIds.flatMap G).length := by
      unfold unseen
      simp
    simp only [List.length_nil] at this
    omega

/-! ### `has` after each operation -/

theorem mem_dedup (l : List Id) (x : Id) : x ∈ dedup l ↔ x ∈ l := by
  induction l with
  | nil => simp [dedup]
  | cons a l ih =>
    unfold dedup
    split
    · rename_i h
      have ha : a ∈ l := by simpa using h
      rw [ih]
      constructor
      · exact fun h => List.mem_cons_of_mem _ h
      · intro h
        rcases List.mem_cons.mp h with rfl | h
        · exact ha
        · exact h
    · simp only [List.mem_cons, ih]

theorem sameSet_mem {a b : List Id} (h : sameSet a b = true) (x : Id) : x ∈ a ↔ x ∈ b := by
  unfold sameSet at h
  simp only [Bool.and_eq_true, List.all_eq_true, List.contains_iff_mem] at h
  exact ⟨fun hx => h.1 x hx, fun hx => h.2 x hx⟩

theorem installPack_snd_mem (v : Variant) (packs : List Pack) (objs : List Id) (now : Nat) (x : Id) :
    x ∈ (installPack v packs objs now).2.ids ↔ x ∈ objs := by
  unfold installPack
  split
  · rename_i p hp
    have := List.find?_some hp
    have hiff := sameSet_mem (a := p.ids) (b := objs) (by simpa using this) x
    split
    · exact hiff
    · exact hiff
  · rfl

theorem installPack_fst_any (v : Variant) (packs : List Pack) (objs : List Id) (now : Nat) (x : Id) :
    (∃ p ∈ (installPack v packs objs now).1, x ∈ p.ids) ↔ (∃ p ∈ packs, x ∈ p.ids) ∨ x ∈ objs := by
  unfold installPack
  split
  · rename_i p hp
    have hs := List.find?_some hp
    have hm := List.mem_of_find?_eq_some hp
    have hiff := sameSet_mem (a := p.ids) (b := objs) (by simpa using hs) x
    split
    · simp only [List.mem_map]
      constructor
      · rintro ⟨q, ⟨q0, hq0, rfl⟩, hx⟩
        refine .inl ⟨q0, hq0, ?_⟩
        split at hx
        · exact hx
        · exact hx
      · rintro (⟨q, hq, hx⟩ | h)
        · refine ⟨_, ⟨q, hq, rfl⟩, ?_⟩
          split
          · exact hx
          · exact hx
        · refine ⟨_, ⟨p, hm, rfl⟩, ?_⟩
          simp only [if_true]
          exact hiff.mpr h
    · constructor
      · exact fun h => .inl h
      · rintro (h | h)
        · exact h
        · exact ⟨p, hm, hiff.mpr h⟩
  · simp only [List.mem_append, List.mem_singleton]
    constructor
    · rintro ⟨p, hp | rfl, hx⟩
      · exact .inl ⟨p, hp, hx⟩
      · exact .inr hx
    · rintro (⟨p, hp, hx⟩ | h)
      · exact ⟨p, .inl hp, hx⟩
      · exact ⟨_, .inr rfl, h⟩

theorem has_iff (s : Store) (x : Id) :
    s.has x = true ↔ (∃ p ∈ s.packs, x ∈ p.ids) ∨ x ∈ s.looseIds ∨ x ∈ s.alts := by
  unfold Store.has Store.packed Store.isLoose
  simp only [Bool.or_eq_true, List.any_eq_true, List.contains_iff_mem]
  constructor
  · rintro ((h | h) | h)
    · exact .inl h
    · exact .inr (.inl h)
    · exact .inr (.inr h)
  · rintro (h | h | h)
    · exact .inl (.inl h)
    · exact .inl (.inr h)
    · exact .inr h

theorem not_contains_iff (ex : List Id) (x : Id) : (!ex.contains x) = true ↔ x ∉ ex := by simp

theorem has_mk (l : List (Id × Nat)) (pk : List Pack) (al : List Id) (x : Id) :
    (Store.mk l pk al).has x = true ↔ (∃ p ∈ pk, x ∈ p.ids) ∨ x ∈ l.map (·.1) ∨ x ∈ al := by
  rw [has_iff]
  rfl

/-- after `repack(exclude)`: alternates untouched; a local object survives iff it is not excluded -/
theorem repack_has (v : Variant) (s : Store) (ex : List Id) (now : Nat) (x : Id) :
    (repack v s ex now).has x = true ↔
      x ∈ s.alts ∨ (((∃ p ∈ s.packs, x ∈ p.ids) ∨ x ∈ s.looseIds) ∧ x ∉ ex) := by
  have hobjs : ∀ y, y ∈ dedup ((s.looseIds.filter (fun x => !ex.contains x)) ++
        s.packs.flatMap (fun p => p.ids.filter (fun x => !ex.contains x))) ↔
      (((∃ p ∈ s.packs, y ∈ p.ids) ∨ y ∈ s.looseIds) ∧ y ∉ ex) := by
    intro y
    rw [mem_dedup]
    simp only [List.mem_append, List.mem_filter, List.mem_flatMap, not_contains_iff]
    constructor
    · rintro (⟨h1, h2⟩ | ⟨p, hp, h1, h2⟩)
      · exact ⟨.inr h1, h2⟩
      · exact ⟨.inl ⟨p, hp, h1⟩, h2⟩
    · rintro ⟨⟨p, hp, h1⟩ | h1, h2⟩
      · exact .inr ⟨p, hp, h1, h2⟩
      · exact .inl ⟨h1, h2⟩
  unfold repack
  simp only
  split
  · rename_i hemp
    rw [has_mk]
    simp only [List.not_mem_nil, false_and, exists_false, List.map_nil, false_or]
    constructor
    · exact fun h => .inl h
    · rintro (h | h)
      · exact h
      · have := (hobjs x).mpr h
        rw [List.isEmpty_iff.mp hemp] at this
        cases this
  · rw [has_mk]
    simp only [List.mem_singleton, exists_eq_left, List.map_nil, List.not_mem_nil, false_or]
    rw [installPack_snd_mem, hobjs]
    constructor
    · rintro (h | h)
      · exact .inr h
      · exact .inl h
    · rintro (h | h)
      · exact .inr h
      · exact .inl h

theorem packLoose_has (v : Variant) (s : Store) (now : Nat) (x : Id) : (packLoose v s now).has x = true ↔ s.has x = true := by
  unfold packLoose
  split
  · rfl
  · rw [has_mk, has_iff]
    simp only [List.map_nil, List.not_mem_nil, false_or]
    rw [installPack_fst_any, mem_dedup]
    constructor
    · rintro ((h | h) | h)
      · exact .inl h
      · exact .inr (.inl h)
      · exact .inr (.inr h)
    · rintro (h | h | h)
      · exact .inl (.inl h)
      · exact .inl (.inr h)
      · exact .inr h

theorem mem_toPrune {v : Variant} {s : Store} {reach : List Id} {grace : Option Nat} {now : Nat} {x : Id}
    (h : x ∈ toPrune v s reach grace now) : x ∉ reach ∧ selectable v s grace now x = true := by
  unfold toPrune unreachable at h
  simp only [List.mem_filter, not_contains_iff] at h
  exact ⟨h.1.2, h.2⟩

/-- after `garbage_collect`: alternates untouched; a local object survives iff it was not selected -/
theorem gcWith_has (v : Variant) (s : Store) (reach : List Id) (prune : Bool) (grace : Option Nat) (now : Nat) (x : Id) :
    (gcWith v s reach prune grace now).has x = true ↔
      x ∈ s.alts ∨ (((∃ p ∈ s.packs, x ∈ p.ids) ∨ x ∈ s.looseIds) ∧
        x ∉ (if prune then toPrune v s reach grace now else [])) := by
  unfold gcWith
  simp only
  rw [repack_has]
  simp only [Store.looseIds, List.mem_map, List.mem_filter, not_contains_iff]
  constructor
  · rintro (h | ⟨h1 | ⟨e, ⟨he, _⟩, rfl⟩, h2⟩)
    · exact .inl h
    · exact .inr ⟨.inl h1, h2⟩
    · exact .inr ⟨.inr ⟨e, he, rfl⟩, h2⟩
  · rintro (h | ⟨h1 | ⟨e, he, rfl⟩, h2⟩)
    · exact .inl h
    · exact .inr ⟨.inl h1, h2⟩
    · exact .inr ⟨.inr ⟨e, ⟨he, h2⟩, rfl⟩, h2⟩

theorem pruneLoose_has (v : Variant) (s : Store) (reach : List Id) (grace : Option Nat) (now : Nat) (x : Id) :
    (pruneLoose v s reach grace now).has x = true ↔
      (∃ p ∈ s.packs, x ∈ p.ids) ∨ (x ∈ s.looseIds ∧ (x ∈ reach ∨ selectable v s grace now x = false)) ∨ x ∈ s.alts := by
  unfold pruneLoose
  rw [has_mk]
  simp only [Store.looseIds, List.mem_map, List.mem_filter, Bool.or_eq_true, List.contains_iff_mem,
    Bool.not_eq_true']
  constructor
  · rintro (h | ⟨⟨a, t⟩, ⟨he, hk⟩, rfl⟩ | h)
    · exact .inl h
    · exact .inr (.inl ⟨⟨(a, t), he, rfl⟩, hk⟩)
    · exact .inr (.inr h)
  · rintro (h | ⟨⟨e, he, rfl⟩, hk⟩ | h)
    · exact .inl h
    · exact .inr (.inl ⟨e, ⟨he, hk⟩, rfl⟩)
    · exact .inr (.inr h)

theorem lookup_of_mem_looseIds {l : List (Id × Nat)} {x : Id} (h : x ∈ l.map (·.1)) :
    ∃ t, l.lookup x = some t ∧ (x, t) ∈ l := by
  induction l with
  | nil => cases h
  | cons e l ih =>
    obtain ⟨a, t⟩ := e
    by_cases hxa : x = a
    · subst hxa
      exact ⟨t, by simp [List.lookup], by simp⟩
    · have hx : x ∈ l.map (·.1) := by
        simp only [List.map_cons, List.mem_cons] at h
        rcases h with h | h
        · exact absurd h hxa
        · exact h
      obtain ⟨t', h1, h2⟩ := ih hx
      refine ⟨t', ?_, List.mem_cons_of_mem _ h2⟩
      simp only [List.lookup]
      have : (x == a) = false := by simpa using hxa
      rw [this]
      exact h1

/-! ### the property theorems on the logical model -/

/-- 3. one maintenance operation never loses a reachable object -/
theorem apply_preserves_reachable {v : Variant} {G : Id → List Id} {roots : List Id} {fuel : Nat} {op : Op}
    {s s' : Store} (h : apply v G roots fuel op s = some s') {x : Id} (hr : Reach s G roots x)
    (hx : s.has x = true) : s'.has x = true := by
  cases op with
  | packLoose now =>
    simp only [apply, Option.some.injEq] at h
    subst h
    exact (packLoose_has v s now x).mpr hx
  | repack now =>
    simp only [apply, Option.some.injEq] at h
    subst h
    rw [repack_has]
    rcases (has_iff s x).mp hx with h | h | h
    · exact .inr ⟨.inl h, by simp⟩
    · exact .inr ⟨.inr h, by simp⟩
    · exact .inl h
  | prune grace now =>
    simp only [apply, Option.map_eq_some_iff] at h
    obtain ⟨r, hr', rfl⟩ := h
    have hxr : x ∈ r := (findReachable_iff hr' x).mpr hr
    rw [pruneLoose_has]
    rcases (has_iff s x).mp hx with h | h | h
    · exact .inl h
    · exact .inr (.inl ⟨h, .inl hxr⟩)
    · exact .inr (.inr h)
  | gc prune grace now =>
    simp only [apply, Option.map_eq_some_iff] at h
    obtain ⟨r, hr', rfl⟩ := h
    have hxr : x ∈ r := (findReachable_iff hr' x).mpr hr
    rw [gcWith_has]
    have hns : x ∉ (if prune then toPrune v s r grace now else []) := by
      split
      · exact fun hm => (mem_toPrune hm).1 hxr
      · simp
    rcases (has_iff s x).mp hx with h | h | h
    · exact .inr ⟨.inl h, hns⟩
    · exact .inr ⟨.inr h, hns⟩
    · exact .inl h
  | noop =>
    simp only [apply, Option.some.injEq] at h
    subst h
    exact hx

theorem reach_mono {G : Id → List Id} {roots : List Id} {s s' : Store}
    (h : ∀ y, Reach s G roots y → s.has y = true → s'.has y = true) {x : Id} (hr : Reach s G roots x) :
    Reach s' G roots x := by
  induction hr with
  | root hx => exact .root hx
  | step hp hhas hx ih => exact .step ih (h _ hp hhas) hx

/-- 4. … in any order, any number of times (refs fixed) -/
theorem applyAll_preserves_reachable {v : Variant} {G : Id → List Id} {roots : List Id} {fuel : Nat} {ops : List Op}
    {s s' : Store} (h : applyAll v G roots fuel ops s = some s') {x : Id} (hr : Reach s G roots x)
    (hx : s.has x = true) : s'.has x = true := by
  induction ops generalizing s with
  | nil =>
    simp only [applyAll, Option.some.injEq] at h
    subst h
    exact hx
  | cons op ops ih =>
    simp only [applyAll, Option.bind_eq_some_iff] at h
    obtain ⟨s1, h1, h2⟩ := h
    exact ih h2 (reach_mono (fun y hy hhy => apply_preserves_reachable h1 hy hhy) hr)
      (apply_preserves_reachable h1 hr hx)

/-- "old enough" as the code sees it: no grace period, or `get_object_mtime` (variant `v`) is known and at least `g`
seconds before `now` -/
def OldEnoughV (v : Variant) (s : Store) (grace : Option Nat) (now : Nat) (x : Id) : Prop :=
  match grace with
  | none => True
  | some g => ∃ t, s.mtime? v x = some t ∧ t + g ≤ now

/-- "older than the grace period" in the property's words: no grace period, or the object has a local copy and EVERY
copy of it (each loose file, each pack that contains it) was last written at least `g` seconds before `now` -/
def OldEnough (s : Store) (grace : Option Nat) (now : Nat) (x : Id) : Prop :=
  match grace with
  | none => True
  | some g => s.mtimes x ≠ [] ∧ ∀ t ∈ s.mtimes x, t + g ≤ now

theorem le_foldl_max (l : List Nat) (a : Nat) : a ≤ l.foldl max a ∧ ∀ t ∈ l, t ≤ l.foldl max a := by
  induction l generalizing a with
  | nil => simp
  | cons b l ih =>
    simp only [List.foldl_cons, List.mem_cons]
    obtain ⟨h1, h2⟩ := ih (max a b)
    refine ⟨by omega, ?_⟩
    rintro t (rfl | ht)
    · omega
    · exact h2 t ht

theorem maxOf_some {l : List Nat} {m : Nat} (h : maxOf l = some m) : l ≠ [] ∧ ∀ t ∈ l, t ≤ m := by
  cases l with
  | nil => simp [maxOf] at h
  | cons a l =>
    simp only [maxOf, Option.some.injEq] at h
    subst h
    obtain ⟨h1, h2⟩ := le_foldl_max l a
    refine ⟨by simp, ?_⟩
    intro t ht
    rcases List.mem_cons.mp ht with rfl | ht
    · exact h1
    · exact h2 t ht

theorem oldEnough_of_V {v : Variant} (hv : v.maxMtime = true) {s : Store} {grace : Option Nat} {now : Nat} {x : Id}
    (h : OldEnoughV v s grace now x) : OldEnough s grace now x := by
  unfold OldEnoughV at h
  unfold OldEnough
  cases grace with
  | none => trivial
  | some g =>
    obtain ⟨t, ht, hle⟩ := h
    simp only [Store.mtime?, hv, if_true] at ht
    obtain ⟨hne, hall⟩ := maxOf_some ht
    exact ⟨hne, fun t' ht' => by have := hall t' ht'; omega⟩

theorem selectable_old {v : Variant} {s : Store} {grace : Option Nat} {now : Nat} {x : Id}
    (h : selectable v s grace now x = true) : OldEnoughV v s grace now x := by
  unfold OldEnoughV
  cases grace with
  | none => trivial
  | some g =>
    unfold selectable at h
    simp only at h
    split at h
    · cases h
    · rename_i t ht
      refine ⟨t, ht, ?_⟩
      simp only [young, Bool.not_eq_true', decide_eq_false_iff_not] at h
      omega

/-- 5. what disappears was unreachable and old (as `get_object_mtime` of variant `v` sees it): only `prune` and `gc` with
prune=true remove anything -/
theorem apply_only_old_unreachable_removed {v : Variant} {G : Id → List Id} {roots : List Id} {fuel : Nat} {op : Op}
    {s s' : Store} (h : apply v G roots fuel op s = some s') {x : Id} (hx : s.has x = true)
    (hgone : s'.has x = false) :
    ¬ Reach s G roots x ∧
    ((∃ grace now, op = .prune grace now ∧ OldEnoughV v s grace now x) ∨
     (∃ grace now, op = .gc true grace now ∧ OldEnoughV v s grace now x)) := by
  have hne : ¬ (s'.has x = true) := by simp [hgone]
  cases op with
  | packLoose now =>
    simp only [apply, Option.some.injEq] at h
    subst h
    exact absurd ((packLoose_has v s now x).mpr hx) hne
  | repack now =>
    simp only [apply, Option.some.injEq] at h
    subst h
    exfalso
    apply hne
    rw [repack_has]
    rcases (has_iff s x).mp hx with h | h | h
    · exact .inr ⟨.inl h, by simp⟩
    · exact .inr ⟨.inr h, by simp⟩
    · exact .inl h
  | noop =>
    simp only [apply, Option.some.injEq] at h
    subst h
    exact absurd hx hne
  | prune grace now =>
    simp only [apply, Option.map_eq_some_iff] at h
    obtain ⟨r, hr', rfl⟩ := h
    rw [pruneLoose_has] at hne
    have hloose : x ∈ s.looseIds := by
      rcases (has_iff s x).mp hx with h | h | h
      · exact absurd (.inl h) hne
      · exact h
      · exact absurd (.inr (.inr h)) hne
    have hnk : ¬ (x ∈ r ∨ selectable v s grace now x = false) := fun hk => hne (.inr (.inl ⟨hloose, hk⟩))
    have hsel : selectable v s grace now x = true := by
      cases hs : selectable v s grace now x with
      | true => rfl
      | false => exact absurd (.inr hs) hnk
    exact ⟨fun hreach => hnk (.inl ((findReachable_iff hr' x).mpr hreach)),
      .inl ⟨grace, now, rfl, selectable_old hsel⟩⟩
  | gc prune grace now =>
    simp only [apply, Option.map_eq_some_iff] at h
    obtain ⟨r, hr', rfl⟩ := h
    rw [gcWith_has] at hne
    have hloc : (∃ p ∈ s.packs, x ∈ p.ids) ∨ x ∈ s.looseIds := by
      rcases (has_iff s x).mp hx with h | h | h
      · exact .inl h
      · exact .inr h
      · exact absurd (.inl h) hne
    have hsel : x ∈ (if prune then toPrune v s r grace now else []) := by
      by_cases hm : x ∈ (if prune then toPrune v s r grace now else [])
      · exact hm
      · exact absurd (.inr ⟨hloc, hm⟩) hne
    cases prune with
    | false => simp at hsel
    | true =>
      simp only [if_true] at hsel
      obtain ⟨hnr, hselx⟩ := mem_toPrune hsel
      exact ⟨fun hreach => hnr ((findReachable_iff hr' x).mpr hreach),
        .inr ⟨grace, now, rfl, selectable_old hselx⟩⟩

/-- 5'. with `get_object_mtime` = most recent copy (the repaired code): every copy of a removed object had outlived the
grace period -/
theorem apply_only_old_unreachable_removed_all_copies {v : Variant} (hv : v.maxMtime = true) {G : Id → List Id}
    {roots : List Id} {fuel : Nat} {op : Op} {s s' : Store} (h : apply v G roots fuel op s = some s') {x : Id}
    (hx : s.has x = true) (hgone : s'.has x = false) :
    ¬ Reach s G roots x ∧
    ((∃ grace now, op = .prune grace now ∧ OldEnough s grace now x) ∨
     (∃ grace now, op = .gc true grace now ∧ OldEnough s grace now x)) := by
  obtain ⟨h1, h2⟩ := apply_only_old_unreachable_removed h hx hgone
  refine ⟨h1, ?_⟩
  rcases h2 with ⟨g, n, ho, hold⟩ | ⟨g, n, ho, hold⟩
  · exact .inl ⟨g, n, ho, oldEnough_of_V hv hold⟩
  · exact .inr ⟨g, n, ho, oldEnough_of_V hv hold⟩

/-- 6. maintenance never makes an absent object appear -/
theorem apply_no_new_objects {v : Variant} {G : Id → List Id} {roots : List Id} {fuel : Nat} {op : Op} {s s' : Store}
    (h : apply v G roots fuel op s = some s') {x : Id} (hx : s'.has x = true) : s.has x = true := by
  cases op with
  | packLoose now =>
    simp only [apply, Option.some.injEq] at h
    subst h
    exact (packLoose_has v s now x).mp hx
  | repack now =>
    simp only [apply, Option.some.injEq] at h
    subst h
    rw [repack_has] at hx
    rw [has_iff]
    rcases hx with h | ⟨h | h, _⟩
    · exact .inr (.inr h)
    · exact .inl h
    · exact .inr (.inl h)
  | noop =>
    simp only [apply, Option.some.injEq] at h
    subst h
    exact hx
  | prune grace now =>
    simp only [apply, Option.map_eq_some_iff] at h
    obtain ⟨r, _, rfl⟩ := h
    rw [pruneLoose_has] at hx
    rw [has_iff]
    rcases hx with h | ⟨h, _⟩ | h
    · exact .inl h
    · exact .inr (.inl h)
    · exact .inr (.inr h)
  | gc prune grace now =>
    simp only [apply, Option.map_eq_some_iff] at h
    obtain ⟨r, _, rfl⟩ := h
    rw [gcWith_has] at hx
    rw [has_iff]
    rcases hx with h | ⟨h | h, _⟩
    · exact .inr (.inr h)
    · exact .inl h
    · exact .inr (.inl h)

/-! ### maintenance from any cache state -/

theorem refresh_any (disk : List Pack) (p : Pack) (now : Nat) (x : Id) :
    (∃ q ∈ disk.map (fun q => if q = p then { q with mtime := now } else q), x ∈ q.ids) ↔ (∃ q ∈ disk, x ∈ q.ids) := by
  simp only [List.mem_map]
  constructor
  · rintro ⟨q, ⟨q0, hq0, rfl⟩, hx⟩
    refine ⟨q0, hq0, ?_⟩
    split at hx
    · exact hx
    · exact hx
  · rintro ⟨q, hq, hx⟩
    refine ⟨_, ⟨q, hq, rfl⟩, ?_⟩
    split
    · exact hx
    · exact hx

/-- whatever the view: if the "already packed?" loop of the real code returns, the packs on disk afterwards hold exactly
the old packed objects plus the objects to be packed -/
theorem installPackV_any (v : Variant) (disk : List Pack) (objs : List Id) (now : Nat) :
    ∀ (view : List Pack) (pk : List Pack), installPackV v false disk objs now view = some pk →
      ∀ x, (∃ p ∈ pk, x ∈ p.ids) ↔ (∃ p ∈ disk, x ∈ p.ids) ∨ x ∈ objs := by
  intro view
  induction view with
  | nil =>
    intro pk h x
    simp only [installPackV, Option.some.injEq] at h
    subst h
    simp only [List.mem_append, List.mem_singleton]
    constructor
    · rintro ⟨p, hp | rfl, hx⟩
      · exact .inl ⟨p, hp, hx⟩
      · exact .inr hx
    · rintro (⟨p, hp, hx⟩ | h)
      · exact ⟨p, .inl hp, hx⟩
      · exact ⟨_, .inr rfl, h⟩
  | cons p rest ih =>
    intro pk h x
    unfold installPackV at h
    split at h
    · rename_i hdisk
      have hpd : p ∈ disk := by simpa using hdisk
      split at h
      · rename_i hs
        have hiff := sameSet_mem (a := p.ids) (b := objs) hs x
        simp only [Option.some.injEq] at h
        subst h
        have key : (∃ q ∈ disk, x ∈ q.ids) ↔ (∃ q ∈ disk, x ∈ q.ids) ∨ x ∈ objs := by
          constructor
          · exact fun h => .inl h
          · rintro (h | h)
            · exact h
            · exact ⟨p, hpd, hiff.mpr h⟩
        split
        · rw [refresh_any]; exact key
        · exact key
      · exact ih pk h x
    · simp at h

theorem packLooseV_has (v : Variant) (view : List Pack) (s : Store) (now : Nat) (x : Id) :
    (packLooseV v false view s now).1.has x = true ↔ s.has x = true := by
  unfold packLooseV
  split
  · rfl
  · split
    · rfl
    · rename_i pk hpk
      rw [has_mk, has_iff]
      simp only [List.map_nil, List.not_mem_nil, false_or]
      rw [installPackV_any v s.packs _ now view pk hpk x, mem_dedup]
      constructor
      · rintro ((h | h) | h)
        · exact .inl h
        · exact .inr (.inl h)
        · exact .inr (.inr h)
      · rintro (h | h | h)
        · exact .inl (.inl h)
        · exact .inl (.inr h)
        · exact .inr h

theorem repackV_has (v : Variant) (view : List Pack) (s : Store) (now : Nat) (x : Id) :
    (repackV v view s now).1.has x = true ↔ s.has x = true := by
  unfold repackV
  split
  · rfl
  · simp only
    rw [repack_has, has_iff]
    simp only [List.not_mem_nil, not_false_eq_true, and_true]
    constructor
    · rintro (h | h | h)
      · exact .inr (.inr h)
      · exact .inl h
      · exact .inr (.inl h)
    · rintro (h | h | h)
      · exact .inr (.inl h)
      · exact .inr (.inr h)
      · exact .inl h

theorem has_withStale {s : Store} {extra : List Id} {x : Id} (h : s.has x = true) : (s.withStale extra).has x = true := by
  rw [has_iff] at h
  unfold Store.withStale
  rw [has_mk]
  rcases h with h | h | h
  · exact .inl h
  · exact .inr (.inl h)
  · exact .inr (.inr (List.mem_append_left _ h))

/-- 7. one maintenance operation from a handle with ANY view of the packs (stale entries, missing entries, any order;
any set of vanished-but-still-mapped objects readable by the walk) never loses a reachable object — whether it returns
or raises -/
theorem applyV_preserves_reachable {v : Variant} {G : Id → List Id} {roots : List Id} {fuel : Nat} {view : List Pack}
    {extra : List Id} {op : Op} {s : Store} {r : Store × Bool} (h : applyV v G roots fuel view extra op s = some r)
    {x : Id} (hr : Reach s G roots x) (hx : s.has x = true) : r.1.has x = true := by
  cases op with
  | packLoose now =>
    simp only [applyV, Option.some.injEq] at h
    subst h
    exact (packLooseV_has v view s now x).mpr hx
  | repack now =>
    simp only [applyV, Option.some.injEq] at h
    subst h
    exact (repackV_has v view s now x).mpr hx
  | prune grace now =>
    simp only [applyV, Option.map_eq_some_iff] at h
    obtain ⟨rch, hr', rfl⟩ := h
    have hr2 : Reach (s.withStale extra) G roots x := reach_mono (fun y _ hy => has_withStale hy) hr
    have hxr : x ∈ rch := (findReachable_iff hr' x).mpr hr2
    simp only
    rw [pruneLoose_has]
    rcases (has_iff s x).mp hx with h | h | h
    · exact .inl h
    · exact .inr (.inl ⟨h, .inl hxr⟩)
    · exact .inr (.inr h)
  | gc prune grace now =>
    simp only [applyV, Option.map_eq_some_iff] at h
    obtain ⟨s', hs', rfl⟩ := h
    exact apply_preserves_reachable hs' hr hx
  | noop =>
    simp only [applyV, Option.map_eq_some_iff] at h
    obtain ⟨s', hs', rfl⟩ := h
    exact apply_preserves_reachable hs' hr hx

theorem applyAllV_preserves_reachable {v : Variant} {G : Id → List Id} {roots : List Id} {fuel : Nat}
    {ops : List (List Pack × List Id × Op)} {s s' : Store} (h : applyAllV v G roots fuel ops s = some s') {x : Id}
    (hr : Reach s G roots x) (hx : s.has x = true) : s'.has x = true := by
  induction ops generalizing s with
  | nil =>
    simp only [applyAllV, Option.some.injEq] at h
    subst h
    exact hx
  | cons vo ops ih =>
    obtain ⟨view, extra, op⟩ := vo
    simp only [applyAllV, Option.bind_eq_some_iff] at h
    obtain ⟨r, h1, h2⟩ := h
    exact ih h2 (reach_mono (fun y hy hhy => applyV_preserves_reachable h1 hy hhy) hr)
      (applyV_preserves_reachable h1 hr hx)

/-! ### roots while refs are being packed -/

theorem refTrace_length (s : RefAt) (prog : List RefAct) : (refTrace s prog).length = prog.length + 1 := by
  induction prog generalizing s with
  | nil => rfl
  | cons a rest ih => simp [refTrace, ih]

/-- along the trace of a packer that writes packed-refs before unlinking: the ref is always stored somewhere, and once
it is in packed-refs it stays there (`packed` = it was in packed-refs to begin with or has been written since) -/
theorem refTrace_inv (prog : List RefAct) :
    ∀ (s : RefAt), (s.1 = true ∨ s.2 = true) → packsBeforeUnlink s.2 prog = true →
      ∀ i j, i ≤ j → j < (refTrace s prog).length → rootSeen (refTrace s prog) i j = true := by
  induction prog with
  | nil =>
    intro s hs _ i j hij hj
    simp only [refTrace, List.length_singleton] at hj
    have hj0 : j = 0 := by omega
    have hi0 : i = 0 := by omega
    subst hj0; subst hi0
    simp only [rootSeen, refTrace, List.getElem?_cons_zero, Option.map_some, Option.getD_some, Bool.or_eq_true]
    exact hs
  | cons a rest ih =>
    intro s hs hp i j hij hj
    have hs' : (s.act a).1 = true ∨ (s.act a).2 = true := by
      cases a with
      | writePacked => exact .inr rfl
      | unlinkLoose =>
        simp only [packsBeforeUnlink, Bool.and_eq_true] at hp
        exact .inr hp.1
      | other => exact hs
    have hp' : packsBeforeUnlink (s.act a).2 rest = true := by
      cases a with
      | writePacked => simpa [packsBeforeUnlink, RefAt.act] using hp
      | unlinkLoose =>
        simp only [packsBeforeUnlink, Bool.and_eq_true] at hp
        exact hp.2
      | other => simpa [packsBeforeUnlink, RefAt.act] using hp
    cases i with
    | succ i' =>
      cases j with
      | zero => omega
      | succ j' =>
        have := ih (s.act a) hs' hp' i' j' (by omega) (by simp only [refTrace, List.length_cons] at hj; omega)
        simpa [rootSeen, refTrace] using this
    | zero =>
      -- the loose tree is read in the initial state
      by_cases hl : s.1 = true
      · simp [rootSeen, refTrace, hl]
      · have hpk : s.2 = true := by
          rcases hs with h | h
          · exact absurd h hl
          · exact h
        -- packed from the start: it stays packed along the whole trace
        have stays : ∀ (prog : List RefAct) (s : RefAt), s.2 = true → ∀ j, j < (refTrace s prog).length →
            ((refTrace s prog)[j]?.map (·.2)).getD false = true := by
          intro prog
          induction prog with
          | nil =>
            intro s h j hj
            simp only [refTrace, List.length_singleton] at hj
            have : j = 0 := by omega
            subst this
            simp [refTrace, h]
          | cons a rest ih2 =>
            intro s h j hj
            cases j with
            | zero => simp [refTrace, h]
            | succ j' =>
              have h2 : (s.act a).2 = true := by cases a <;> simp [RefAt.act, h]
              have := ih2 (s.act a) h2 j' (by simp only [refTrace, List.length_cons] at hj; omega)
              simpa [refTrace] using this
        have := stays (a :: rest) s hpk j hj
        simp only [rootSeen, Bool.or_eq_true]
        exact .inr this

/-! ### the configured grace period -/

theorem gitKeyword_of_tableSound {table : List (String × Option Nat)} (h : tableSound table = true) {k : String}
    {g : Option Nat} (hl : table.lookup k = some g) : gitKeyword k = some true := by
  induction table with
  | nil => simp [List.lookup] at hl
  | cons e rest ih =>
    obtain ⟨k', g'⟩ := e
    simp only [tableSound, List.all_cons, Bool.and_eq_true, beq_iff_eq] at h
    simp only [List.lookup] at hl
    by_cases hk : k = k'
    · subst hk
      exact h.1
    · have : (k == k') = false := by simpa using hk
      rw [this] at hl
      exact ih (by simpa [tableSound] using h.2) hl

/-- with a sound keyword table: whatever the value, the grace period the code derives from it is at least as long as the
value's meaning demands (an object that `now - g` lets through was last written at or before the expiry instant); "no age
check" is only ever derived from a value that means "everything may go"; a value that means "never" or has no meaning is
refused -/
theorem graceOf_respects_expiry (table : List (String × Option Nat)) (hs : tableSound table = true) (dflt now : Nat)
    (hd : 1209600 ≤ dflt) (v : ConfigValue) :
    match graceOf table dflt now v with
    | .secs g => ∃ e, expiryOf now v = some e ∧ now - g ≤ e
    | .noAgeCheck => expiryOf now v = some now
    | .refuse => True := by
  cases v with
  | unset => exact ⟨_, rfl, by omega⟩
  | keyword k =>
    simp only [graceOf]
    cases hl : table.lookup k with
    | none => trivial
    | some g =>
      have hk := gitKeyword_of_tableSound hs hl
      cases g with
      | none => simp [expiryOf, hk]
      | some g => exact ⟨now, by simp [expiryOf, hk], by omega⟩
  | secondsAgo n => exact ⟨_, rfl, by simp⟩
  | absolute t => exact ⟨t, rfl, by omega⟩
  | other => trivial

end Dulwich.GC
