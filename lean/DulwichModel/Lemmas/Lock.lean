/-
  C07 — helper lemmas for the lock-protocol transition system (Model/Lock.lean).
  The property theorems are in Props/C07.lean.
-/
import DulwichModel.Model.Lock

namespace Dulwich.Lock

/-! ## what the proofs need of a program -/

structure WB (P : Program) : Prop where
  opensNe : P.opens.isEmpty = false
  opensExcl : P.opens.all id = true      -- EVERY open of the lock file, retries included, is exclusive
  guardClose : P.guardClose = true
  mark : P.markClosedOnReplace = true
  guardAbort : P.guardAbort = true
  abortRemoves : P.abortRemoves = true
  fclose : hasFclose P.closePre = true

theorem WB.of_bool {P : Program} (h : P.wellBehaved = true) : WB P := by
  simp [Program.wellBehaved] at h
  obtain ⟨⟨⟨⟨⟨⟨h0, h1⟩, h2⟩, h3⟩, h4⟩, h5⟩, h6⟩ := h
  exact ⟨by simpa using h0, by simpa using h1, h2, h3, h4, h5, h6⟩

/-- the program counter is at a call that acts on / for the lock file -/
def Pc.needsLock : Pc → Bool
  | .pre _ _ _ => true | .replace => true | .fcClose _ => true | .rmClose _ => true
  | .fcAbort => true | .rmAbort => true
  | _ => false

/-- the outcome part of `Out.isFailure` (defined further down): injected error, `FileLocked`,
`ValueError`, `FileNotFoundError` reaching the caller -/
def Out.isFailure' : Out → Bool
  | .injected => true | .valueError => true | .exists => true | .noent => true
  | _ => false

/-! ## the helpers only touch control fields -/

/-- `b` differs from `a` at most in `pc`, `todo`, `inHandler`, `fopen`, `closed` -/
structure Ghost (a b : Actor) : Prop where
  owns : b.owns = a.owns
  opened : b.opened = a.opened
  written : b.written = a.written
  committed : b.committed = a.committed
  rmFailed : b.rmFailed = a.rmFailed
  fcFailed : b.fcFailed = a.fcFailed
  fsyncOn : b.fsyncOn = a.fsyncOn
  permOn : b.permOn = a.permOn
  hW : b.hW = a.hW
  hC : b.hC = a.hC

/-- the two actors agree on every field `Ghost` talks about, by unfolding -/
macro "ghost_rfl" : tactic => `(tactic| exact ⟨rfl, rfl, rfl, rfl, rfl, rfl, rfl, rfl, rfl, rfl⟩)

theorem Ghost.trans {a b c : Actor} (h1 : Ghost a b) (h2 : Ghost b c) : Ghost a c :=
  ⟨h2.owns.trans h1.owns, h2.opened.trans h1.opened, h2.written.trans h1.written,
   h2.committed.trans h1.committed, h2.rmFailed.trans h1.rmFailed, h2.fcFailed.trans h1.fcFailed,
   h2.fsyncOn.trans h1.fsyncOn, h2.permOn.trans h1.permOn, h2.hW.trans h1.hW, h2.hC.trans h1.hC⟩

/-- same as `trans`, second step first (so that elaboration knows the middle actor) -/
theorem Ghost.after {a b c : Actor} (h2 : Ghost b c) (h1 : Ghost a b) : Ghost a c := h1.trans h2

theorem enterClose_ghost (a : Actor) (l : List (PreCall × Bool)) : Ghost a (enterClose a l) := by
  induction l generalizing a with
  | nil => ghost_rfl
  | cons p rest ih =>
    obtain ⟨c, t⟩ := p
    cases c <;> simp only [enterClose]
    · ghost_rfl
    all_goals
      split
      · ghost_rfl
      · exact ih a

theorem settle_ghost (P : Program) (a : Actor) (l : List Op) : Ghost a (settle P a l) := by
  induction l generalizing a with
  | nil => ghost_rfl
  | cons o rest ih =>
    cases o <;> simp only [settle]
    · ghost_rfl
    · split
      · exact ih a
      · exact Ghost.after (enterClose_ghost _ _) (by ghost_rfl)
    · split
      · exact ih a
      · split
        · ghost_rfl
        · split
          · ghost_rfl
          · exact Ghost.after (ih _) (by ghost_rfl)

theorem raise_ghost (P : Program) (a : Actor) (h : List Op) : Ghost a (raise P a h) := by
  unfold raise
  split
  · ghost_rfl
  · exact Ghost.after (settle_ghost _ _ _) (by ghost_rfl)

theorem afterClose_ghost (P : Program) (a : Actor) (p : Bool) : Ghost a (afterClose P a p) := by
  unfold afterClose
  split
  · exact raise_ghost _ _ _
  · exact settle_ghost _ _ _

theorem unlinkInClose_ghost (P : Program) (a : Actor) (p : Bool) :
    Ghost a (unlinkInClose P a p) := by
  unfold unlinkInClose
  split
  · ghost_rfl
  · exact Ghost.after (afterClose_ghost _ _ _) (by ghost_rfl)

theorem abortInClose_ghost (P : Program) (a : Actor) (p : Bool) : Ghost a (abortInClose P a p) := by
  unfold abortInClose
  split
  · exact afterClose_ghost _ _ _
  · split
    · ghost_rfl
    · exact unlinkInClose_ghost _ _ _

theorem unlinkInAbort_ghost (P : Program) (a : Actor) : Ghost a (unlinkInAbort P a) := by
  unfold unlinkInAbort
  split
  · ghost_rfl
  · exact Ghost.after (settle_ghost _ _ _) (by ghost_rfl)

theorem preFail_ghost (P : Program) (a : Actor) (t : Bool) : Ghost a (preFail P a t) := by
  unfold preFail
  split
  · exact abortInClose_ghost _ _ _
  · exact raise_ghost _ _ _

/-! ## the per-actor invariant -/

/-- facts about a handle that exists, independent of where its caller is -/
structure Core (a : Actor) : Prop where
  opened : a.opened = true
  owns_eq : a.owns = !a.closed                 -- the code's `_closed` flag tells ownership exactly
  fopen_owns : a.fopen = true → a.owns = true  -- the file object is only open while the lock is held
  committed : ∀ c, a.committed = some c → c = a.written ∧ a.fopen = false

/-- facts tied to the program counter -/
def PcOk (a : Actor) : Prop :=
  match a.pc with
  | .pre c _ rest => a.owns = true ∧ (a.fopen = true → c = .fclose ∨ hasFclose rest = true)
  | .replace => a.owns = true ∧ a.fopen = false
  | .fcClose _ => a.owns = true
  | .rmClose _ => a.owns = true ∧ a.fopen = false
  | .fcAbort => a.owns = true
  | .rmAbort => a.owns = true ∧ a.fopen = false
  | _ => True

def Run (a : Actor) : Prop := Core a ∧ PcOk a ∧ a.pc ≠ .start

/-- every open still to come in the acquisition is exclusive -/
def AcqOkQ : Acq → Prop
  | .mkdir l => l.all id = true
  | .open e r => e = true ∧ r.all id = true
  | _ => True

def AcqOk (a : Actor) : Prop := AcqOkQ a.acq

/-- no handle (yet, or open failed) -/
def NoHandle (a : Actor) : Prop :=
  a.opened = false ∧ a.owns = false ∧ a.closed = false ∧ a.fopen = false ∧ a.committed = none ∧
    (a.pc = .start ∨ a.pc = .done) ∧ AcqOk a

def LInv (a : Actor) : Prop := NoHandle a ∨ Run a

theorem LInv.of_fresh {a : Actor} (h : a.Fresh) : LInv a := by
  obtain ⟨h1, h2, h3, h4, h5, h6, _, h8⟩ := h
  refine Or.inl ⟨h2, h3, h4, h5, h6, Or.inl h1, ?_⟩
  unfold AcqOk
  rcases h8 with e | e <;> rw [e] <;> exact trivial

/-- `Core` only looks at `opened`, `owns`, `closed`, `fopen`, `committed`, `written` -/
theorem Core.congr {a b : Actor} (h : Core a) (h1 : b.opened = a.opened) (h2 : b.owns = a.owns)
    (h3 : b.closed = a.closed) (h4 : b.fopen = a.fopen) (h5 : b.committed = a.committed)
    (h6 : b.written = a.written) : Core b :=
  ⟨h1.trans h.opened, by rw [h2, h3]; exact h.owns_eq, fun hf => by rw [h2]; exact h.fopen_owns (h4 ▸ hf),
   fun c hc => by rw [h6, h4]; exact h.committed c (h5 ▸ hc)⟩

/-- closing the file object keeps `Core` -/
theorem Core.fclose {a b : Actor} (h : Core a) (h1 : b.opened = a.opened) (h2 : b.owns = a.owns)
    (h3 : b.closed = a.closed) (h4 : b.fopen = false) (h5 : b.committed = a.committed)
    (h6 : b.written = a.written) : Core b :=
  ⟨h1.trans h.opened, by rw [h2, h3]; exact h.owns_eq, fun hf => by rw [h4] at hf; simp at hf,
   fun c hc => by rw [h6]; exact ⟨(h.committed c (h5 ▸ hc)).1, h4⟩⟩

theorem Core.owns_of_not_closed {a : Actor} (h : Core a) (hc : a.closed = false) : a.owns = true := by
  rw [h.owns_eq, hc]; rfl

theorem enterClose_run {a : Actor} (l : List (PreCall × Bool)) (h : Core a) (ho : a.owns = true)
    (hf : a.fopen = true → hasFclose l = true) : Run (enterClose a l) := by
  induction l generalizing a with
  | nil =>
    have : a.fopen = false := by
      cases hfo : a.fopen with
      | false => rfl
      | true => simp [hasFclose] at hf; exact absurd hfo (by simp [hf])
    exact ⟨h.congr rfl rfl rfl rfl rfl rfl, ⟨ho, this⟩, by simp [enterClose]⟩
  | cons p rest ih =>
    obtain ⟨c, t⟩ := p
    have hf' : a.fopen = true → c ≠ .fclose → hasFclose rest = true := by
      intro h1 h2
      have := hf h1
      simp only [hasFclose, List.any_cons, Bool.or_eq_true, beq_iff_eq] at this
      rcases this with h3 | h3
      · exact absurd h3 h2
      · exact h3
    cases c <;> simp only [enterClose]
    · exact ⟨h.congr rfl rfl rfl rfl rfl rfl,
        ⟨ho, fun h1 => Or.inr (hf' h1 (by simp))⟩, by simp⟩
    · split
      · exact ⟨h.congr rfl rfl rfl rfl rfl rfl,
          ⟨ho, fun h1 => Or.inr (hf' h1 (by simp))⟩, by simp⟩
      · exact ih h ho (fun h1 => hf' h1 (by simp))
    · split
      · exact ⟨h.congr rfl rfl rfl rfl rfl rfl, ⟨ho, fun _ => Or.inl rfl⟩, by simp⟩
      · rename_i hno
        exact ih h ho (fun h1 => absurd h1 hno)
    · split
      · exact ⟨h.congr rfl rfl rfl rfl rfl rfl,
          ⟨ho, fun h1 => Or.inr (hf' h1 (by simp))⟩, by simp⟩
      · exact ih h ho (fun h1 => hf' h1 (by simp))
    · split
      · exact ⟨h.congr rfl rfl rfl rfl rfl rfl,
          ⟨ho, fun h1 => Or.inr (hf' h1 (by simp))⟩, by simp⟩
      · exact ih h ho (fun h1 => hf' h1 (by simp))

theorem settle_run {P : Program} (hP : WB P) {a : Actor} (l : List Op) (h : Core a) :
    Run (settle P a l) := by
  induction l generalizing a with
  | nil => exact ⟨h.congr rfl rfl rfl rfl rfl rfl, trivial, by simp [settle]⟩
  | cons o rest ih =>
    cases o <;> simp only [settle]
    · exact ⟨h.congr rfl rfl rfl rfl rfl rfl, trivial, by simp⟩
    · split
      · exact ih h
      · rename_i hg
        have hc : a.closed = false := by simpa [hP.guardClose] using hg
        exact enterClose_run _ (a := { a with todo := rest })
          (h.congr rfl rfl rfl rfl rfl rfl) (h.owns_of_not_closed hc) (fun _ => hP.fclose)
    · split
      · exact ih h
      · rename_i hg
        have hc : a.closed = false := by simpa [hP.guardAbort] using hg
        have ho : a.owns = true := h.owns_of_not_closed hc
        split
        · exact ⟨h.congr rfl rfl rfl rfl rfl rfl, ho, by simp⟩
        · rename_i hfo
          have hfo' : a.fopen = false := by simpa using hfo
          simp only [hP.abortRemoves, if_true]
          exact ⟨h.congr rfl rfl rfl rfl rfl rfl, ⟨ho, hfo'⟩, by simp⟩

theorem raise_run {P : Program} (hP : WB P) {a : Actor} (hd : List Op) (h : Core a) :
    Run (raise P a hd) := by
  unfold raise
  split
  · exact ⟨h.congr rfl rfl rfl rfl rfl rfl, trivial, by simp⟩
  · exact settle_run hP _ (a := { a with inHandler := true }) (h.congr rfl rfl rfl rfl rfl rfl)

theorem afterClose_run {P : Program} (hP : WB P) {a : Actor} (p : Bool) (h : Core a) :
    Run (afterClose P a p) := by
  unfold afterClose
  split
  · exact raise_run hP _ h
  · exact settle_run hP _ h

theorem unlinkInClose_run {P : Program} (hP : WB P) {a : Actor} (p : Bool) (h : Core a)
    (ho : a.owns = true) (hf : a.fopen = false) : Run (unlinkInClose P a p) := by
  unfold unlinkInClose
  simp only [hP.abortRemoves, if_true]
  exact ⟨h.congr rfl rfl rfl rfl rfl rfl, ⟨ho, hf⟩, by simp⟩

theorem abortInClose_run {P : Program} (hP : WB P) {a : Actor} (p : Bool) (h : Core a) :
    Run (abortInClose P a p) := by
  unfold abortInClose
  split
  · exact afterClose_run hP _ h
  · rename_i hg
    have hc : a.closed = false := by simpa [hP.guardAbort] using hg
    have ho : a.owns = true := h.owns_of_not_closed hc
    split
    · exact ⟨h.congr rfl rfl rfl rfl rfl rfl, ho, by simp⟩
    · rename_i hfo
      exact unlinkInClose_run hP _ h ho (by simpa using hfo)

theorem unlinkInAbort_run {P : Program} (hP : WB P) {a : Actor} (h : Core a)
    (ho : a.owns = true) (hf : a.fopen = false) : Run (unlinkInAbort P a) := by
  unfold unlinkInAbort
  simp only [hP.abortRemoves, if_true]
  exact ⟨h.congr rfl rfl rfl rfl rfl rfl, ⟨ho, hf⟩, by simp⟩

theorem preFail_run {P : Program} (hP : WB P) {a : Actor} (t : Bool) (h : Core a) :
    Run (preFail P a t) := by
  unfold preFail
  split
  · exact abortInClose_run hP _ h
  · exact raise_run hP _ h

theorem Run.opened {a : Actor} (h : Run a) : a.opened = true := h.1.opened

/-- an actor with a handle is not at `start`; one without is at `start` or `done` -/
theorem LInv.run_of_pc {a : Actor} (h : LInv a) (h1 : a.pc ≠ .start) (h2 : a.pc ≠ .done) : Run a := by
  rcases h with h | h
  · rcases h.2.2.2.2.2.1 with h3 | h3
    · exact absurd h3 h1
    · exact absurd h3 h2
  · exact h

theorem LInv.noHandle_of_start {a : Actor} (h : LInv a) (h1 : a.pc = .start) : NoHandle a := by
  rcases h with h | h
  · exact h
  · exact absurd h1 h.2.2

/-- what `PcOk` says at each program counter, with the `Run` it comes from -/
theorem LInv.at_pre {a : Actor} (h : LInv a) {c t rest} (hpc : a.pc = .pre c t rest) :
    Run a ∧ a.owns = true ∧ (a.fopen = true → c = .fclose ∨ hasFclose rest = true) := by
  have hr := h.run_of_pc (by simp [hpc]) (by simp [hpc])
  have := hr.2.1; unfold PcOk at this; rw [hpc] at this; exact ⟨hr, this⟩

theorem LInv.at_closed_file {a : Actor} (h : LInv a)
    (hpc : a.pc = .replace ∨ (∃ p, a.pc = .rmClose p) ∨ a.pc = .rmAbort) :
    Run a ∧ a.owns = true ∧ a.fopen = false := by
  have hr := h.run_of_pc (by rcases hpc with e | ⟨_, e⟩ | e <;> simp [e])
    (by rcases hpc with e | ⟨_, e⟩ | e <;> simp [e])
  have := hr.2.1; unfold PcOk at this
  rcases hpc with e | ⟨_, e⟩ | e <;> rw [e] at this <;> exact ⟨hr, this⟩

theorem LInv.at_fc {a : Actor} (h : LInv a) (hpc : (∃ p, a.pc = .fcClose p) ∨ a.pc = .fcAbort) :
    Run a ∧ a.owns = true := by
  have hr := h.run_of_pc (by rcases hpc with ⟨_, e⟩ | e <;> simp [e])
    (by rcases hpc with ⟨_, e⟩ | e <;> simp [e])
  have := hr.2.1; unfold PcOk at this
  rcases hpc with ⟨_, e⟩ | e <;> rw [e] at this <;> exact ⟨hr, this⟩

/-! ### the acquisition step -/

theorem acqNow_ok {P : Program} (hP : WB P) {a : Actor} (h : AcqOk a) :
    AcqOkQ (a.acqNow P) ∧ a.acqNow P ≠ .init := by
  unfold Actor.acqNow
  unfold AcqOk at h
  cases hq : a.acq with
  | init =>
    simp only
    split
    · exact ⟨hP.opensExcl, by simp⟩
    · cases ho : P.opens with
      | nil => have := hP.opensNe; rw [ho] at this; simp at this
      | cons e r =>
        have := hP.opensExcl; rw [ho] at this
        simp only [List.all_cons, Bool.and_eq_true, id] at this
        exact ⟨⟨this.1, this.2⟩, by simp⟩
  | mkdir l => rw [hq] at h; exact ⟨h, by simp⟩
  | «open» e r => rw [hq] at h; exact ⟨h, by simp⟩
  | rmdir => exact ⟨trivial, by simp⟩

/-- the three things an acquisition step can do: give up / finish (a pruner), go on acquiring
(only `acq` changes), or obtain the lock — the last only through an exclusive open that found no
lock file -/
theorem acquireStep_cases {P : Program} (hP : WB P) {a : Actor} (hok : AcqOk a)
    (lt dt em f : Bool) :
    ((acquireStep P a lt dt em f).1 = { a with pc := .done, todo := [] } ∧
      ((acquireStep P a lt dt em f).2.1 = .none ∨ (acquireStep P a lt dt em f).2.1 = .rmdir ∨
        (acquireStep P a lt dt em f).2.1 = .mkdir)) ∨
    (∃ q, (acquireStep P a lt dt em f).1 = { a with acq := q } ∧ AcqOkQ q ∧
      ((acquireStep P a lt dt em f).2.1 = .none ∨ (acquireStep P a lt dt em f).2.1 = .mkdir) ∧
      Out.isFailure' (acquireStep P a lt dt em f).2.2 = false) ∨
    ((acquireStep P a lt dt em f).1 =
        settle P { a with opened := true, fopen := true, owns := true } a.todo ∧
      (acquireStep P a lt dt em f).2.1 = .create ∧ lt = false ∧
      Out.isFailure' (acquireStep P a lt dt em f).2.2 = false) := by
  obtain ⟨hq, _⟩ := acqNow_ok hP hok
  unfold acquireStep
  cases hacq : a.acqNow P with
  | init => exact Or.inl ⟨rfl, Or.inl rfl⟩
  | rmdir =>
    simp only
    split
    · exact Or.inl ⟨rfl, Or.inl rfl⟩
    · split
      · exact Or.inl ⟨rfl, Or.inr (Or.inl rfl)⟩
      · exact Or.inl ⟨rfl, Or.inl rfl⟩
  | mkdir l =>
    rw [hacq] at hq
    simp only
    split
    · exact Or.inl ⟨rfl, Or.inl rfl⟩
    · cases l with
      | nil => exact Or.inl ⟨rfl, Or.inr (Or.inr rfl)⟩
      | cons e r =>
        have : e = true ∧ r.all id = true := by
          have h2 : (e :: r).all id = true := hq
          simpa [List.all_cons] using h2
        exact Or.inr (Or.inl ⟨_, rfl, this, Or.inr rfl, rfl⟩)
  | «open» e r =>
    rw [hacq] at hq
    obtain ⟨he, hr⟩ : e = true ∧ r.all id = true := hq
    simp only
    split
    · exact Or.inl ⟨rfl, Or.inl rfl⟩
    · split
      · cases r with
        | nil => exact Or.inl ⟨rfl, Or.inl rfl⟩
        | cons e' r' => exact Or.inr (Or.inl ⟨_, rfl, hr, Or.inl rfl, rfl⟩)
      · split
        · exact Or.inl ⟨rfl, Or.inl rfl⟩
        · rename_i hx
          have hlt : lt = false := by
            cases lt
            · rfl
            · simp [he] at hx
          exact Or.inr (Or.inr ⟨rfl, rfl, hlt, rfl⟩)

/-- the shape of an acquisition step, for any program -/
theorem acquireStep_shape (P : Program) (a : Actor) (lt dt em f : Bool) :
    (acquireStep P a lt dt em f).1 = { a with pc := .done, todo := [] } ∨
    (∃ q, (acquireStep P a lt dt em f).1 = { a with acq := q }) ∨
    (acquireStep P a lt dt em f).1 =
      settle P { a with opened := true, fopen := true, owns := true } a.todo := by
  unfold acquireStep
  cases a.acqNow P with
  | init => exact Or.inl rfl
  | rmdir =>
    simp only
    split
    · exact Or.inl rfl
    · split <;> exact Or.inl rfl
  | mkdir l =>
    simp only
    split
    · exact Or.inl rfl
    · cases l with
      | nil => exact Or.inl rfl
      | cons e r => exact Or.inr (Or.inl ⟨_, rfl⟩)
  | «open» e r =>
    simp only
    split
    · exact Or.inl rfl
    · split
      · cases r with
        | nil => exact Or.inl rfl
        | cons e' r' => exact Or.inr (Or.inl ⟨_, rfl⟩)
      · split
        · exact Or.inl rfl
        · exact Or.inr (Or.inr rfl)

/-- an acquisition step whose call fails towards the caller ends the actor without a handle -/
theorem acquireStep_failure (P : Program) (a : Actor) (lt dt em f : Bool)
    (h : Out.isFailure' (acquireStep P a lt dt em f).2.2 = true) :
    (acquireStep P a lt dt em f).1 = { a with pc := .done, todo := [] } := by
  revert h
  unfold acquireStep
  cases a.acqNow P with
  | init => intro _; rfl
  | rmdir =>
    simp only
    split
    · intro _; rfl
    · split <;> intro _ <;> rfl
  | mkdir l =>
    simp only
    split
    · intro _; rfl
    · cases l with
      | nil => intro _; rfl
      | cons e r => intro h; simp [Out.isFailure'] at h
  | «open» e r =>
    simp only
    split
    · intro _; rfl
    · split
      · cases r with
        | nil => intro _; rfl
        | cons e' r' => intro h; simp [Out.isFailure'] at h
      · split
        · intro _; rfl
        · intro h; simp [Out.isFailure'] at h

/-- the per-actor invariant is preserved by every call of the actor, whatever the directory looks
like and whether or not the call is made to fail -/
theorem actorStep_LInv {P : Program} (hP : WB P) {a : Actor} (lt dt em f : Bool) (h : LInv a) :
    LInv (actorStep P a lt dt em f).1 := by
  cases hpc : a.pc with
  | done => simp only [actorStep, hpc]; exact h
  | start =>
    have hn := h.noHandle_of_start hpc
    obtain ⟨h1, h2, h3, h4, h5, _, h7⟩ := hn
    simp only [actorStep, hpc]
    rcases acquireStep_cases hP h7 lt dt em f with ⟨e, _⟩ | ⟨q, e, hq, _, _⟩ | ⟨e, _, _, _⟩
    · rw [e]; exact Or.inl ⟨h1, h2, h3, h4, h5, Or.inr rfl, h7⟩
    · rw [e]; exact Or.inl ⟨h1, h2, h3, h4, h5, Or.inl hpc, hq⟩
    · rw [e]
      refine Or.inr (settle_run hP _ ⟨rfl, ?_, fun _ => rfl, ?_⟩)
      · simp [h3]
      · intro c hc; simp [h5] at hc
  | wr d =>
    have hr := h.run_of_pc (by simp [hpc]) (by simp [hpc])
    simp only [actorStep, hpc]
    split
    · exact Or.inr (raise_run hP _ hr.1)
    · split
      · exact Or.inr (raise_run hP _ hr.1)
      · rename_i hfo
        have hfo' : a.fopen = true := by simpa using hfo
        refine Or.inr (settle_run hP _ ⟨hr.1.opened, hr.1.owns_eq, hr.1.fopen_owns, ?_⟩)
        intro c hc
        have := (hr.1.committed c hc).2
        rw [hfo'] at this; exact absurd this (by simp)
  | pre c t rest =>
    obtain ⟨hr, ho, hfc⟩ := h.at_pre hpc
    have hcl : Core { a with fopen := false } := hr.1.fclose rfl rfl rfl rfl rfl rfl
    simp only [actorStep, hpc]
    split
    · cases c
      · exact Or.inr (preFail_run hP _ (hr.1.congr rfl rfl rfl rfl rfl rfl))
      · exact Or.inr (preFail_run hP _ (hr.1.congr rfl rfl rfl rfl rfl rfl))
      · exact Or.inr (preFail_run hP _ (hr.1.fclose rfl rfl rfl rfl rfl rfl))
      · exact Or.inr (preFail_run hP _ (hr.1.congr rfl rfl rfl rfl rfl rfl))
      · exact Or.inr (preFail_run hP _ (hr.1.congr rfl rfl rfl rfl rfl rfl))
    · have hrest : ∀ c', c = c' → c' ≠ .fclose → a.fopen = true → hasFclose rest = true := by
        intro c' e hne hfo
        rcases hfc hfo with h1 | h1
        · rw [e] at h1; exact absurd h1 hne
        · exact h1
      cases c <;> simp only
      · split
        · exact Or.inr (preFail_run hP _ (hr.1.congr rfl rfl rfl rfl rfl rfl))
        · exact Or.inr (enterClose_run _ (hr.1.congr rfl rfl rfl rfl rfl rfl) ho
            (hrest _ rfl (by simp)))
      · exact Or.inr (enterClose_run _ (hr.1.congr rfl rfl rfl rfl rfl rfl) ho
          (hrest _ rfl (by simp)))
      · exact Or.inr (enterClose_run _ (hr.1.fclose rfl rfl rfl rfl rfl rfl) ho
          (fun h1 => by simp at h1))
      · split
        · exact Or.inr (enterClose_run _ (hr.1.congr rfl rfl rfl rfl rfl rfl) ho
            (hrest _ rfl (by simp)))
        · exact Or.inr (preFail_run hP _ (hr.1.congr rfl rfl rfl rfl rfl rfl))
      · split
        · exact Or.inr (enterClose_run _ (hr.1.congr rfl rfl rfl rfl rfl rfl) ho
            (hrest _ rfl (by simp)))
        · exact Or.inr (preFail_run hP _ (hr.1.congr rfl rfl rfl rfl rfl rfl))
  | replace =>
    obtain ⟨hr, ho, hfo⟩ := h.at_closed_file (Or.inl hpc)
    simp only [actorStep, hpc]
    split
    · split
      · exact Or.inr (abortInClose_run hP _ (hr.1.congr rfl rfl rfl rfl rfl rfl))
      · exact Or.inr (raise_run hP _ (hr.1.congr rfl rfl rfl rfl rfl rfl))
    · split
      · split
        · exact Or.inr (abortInClose_run hP _ (hr.1.congr rfl rfl rfl rfl rfl rfl))
        · exact Or.inr (raise_run hP _ (hr.1.congr rfl rfl rfl rfl rfl rfl))
      · have hc1 : ∀ pc', Core
            { a with pc := pc', owns := false, committed := some a.written,
                     closed := a.closed || P.markClosedOnReplace } := fun pc' =>
          ⟨hr.1.opened, by simp [hP.mark], fun h1 => by simp [hfo] at h1,
           fun c hc => by simp at hc; exact ⟨hc.symm, hfo⟩⟩
        simp only
        split
        · exact Or.inr (abortInClose_run hP _ (hc1 _))
        · exact Or.inr (settle_run hP _ (hc1 _))
  | fcClose pending =>
    obtain ⟨hr, ho⟩ := h.at_fc (Or.inl ⟨_, hpc⟩)
    simp only [actorStep, hpc]
    split
    · split
      · exact Or.inr (unlinkInClose_run hP _ (hr.1.fclose rfl rfl rfl rfl rfl rfl) ho rfl)
      · exact Or.inr (raise_run hP _ (hr.1.fclose rfl rfl rfl rfl rfl rfl))
    · exact Or.inr (unlinkInClose_run hP _ (hr.1.fclose rfl rfl rfl rfl rfl rfl) ho rfl)
  | rmClose pending =>
    obtain ⟨hr, ho, hfo⟩ := h.at_closed_file (Or.inr (Or.inl ⟨_, hpc⟩))
    simp only [actorStep, hpc]
    split
    · exact Or.inr (raise_run hP _ (hr.1.congr rfl rfl rfl rfl rfl rfl))
    · exact Or.inr (afterClose_run hP _
        ⟨hr.1.opened, rfl, fun h1 => by simp [hfo] at h1, hr.1.committed⟩)
  | fcAbort =>
    obtain ⟨hr, ho⟩ := h.at_fc (Or.inr hpc)
    simp only [actorStep, hpc]
    split
    · split
      · exact Or.inr (unlinkInAbort_run hP (hr.1.fclose rfl rfl rfl rfl rfl rfl) ho rfl)
      · exact Or.inr ⟨hr.1.fclose rfl rfl rfl rfl rfl rfl, trivial, by simp⟩
    · exact Or.inr (unlinkInAbort_run hP (hr.1.fclose rfl rfl rfl rfl rfl rfl) ho rfl)
  | rmAbort =>
    obtain ⟨hr, ho, hfo⟩ := h.at_closed_file (Or.inr (Or.inr hpc))
    simp only [actorStep, hpc]
    split
    · exact Or.inr ⟨hr.1.congr rfl rfl rfl rfl rfl rfl, trivial, by simp⟩
    · exact Or.inr (settle_run hP _
        ⟨hr.1.opened, rfl, fun h1 => by simp [hfo] at h1, hr.1.committed⟩)

/-! ## projections of the helpers (simp lemmas) -/

@[simp] theorem enterClose_owns (a : Actor) (l : List (PreCall × Bool)) : (enterClose a l).owns = a.owns := (enterClose_ghost a l).owns
@[simp] theorem enterClose_opened (a : Actor) (l : List (PreCall × Bool)) : (enterClose a l).opened = a.opened := (enterClose_ghost a l).opened
@[simp] theorem enterClose_written (a : Actor) (l : List (PreCall × Bool)) : (enterClose a l).written = a.written := (enterClose_ghost a l).written
@[simp] theorem enterClose_committed (a : Actor) (l : List (PreCall × Bool)) : (enterClose a l).committed = a.committed := (enterClose_ghost a l).committed
@[simp] theorem enterClose_rmFailed (a : Actor) (l : List (PreCall × Bool)) : (enterClose a l).rmFailed = a.rmFailed := (enterClose_ghost a l).rmFailed
@[simp] theorem enterClose_fcFailed (a : Actor) (l : List (PreCall × Bool)) : (enterClose a l).fcFailed = a.fcFailed := (enterClose_ghost a l).fcFailed
@[simp] theorem enterClose_hW (a : Actor) (l : List (PreCall × Bool)) : (enterClose a l).hW = a.hW := (enterClose_ghost a l).hW
@[simp] theorem enterClose_hC (a : Actor) (l : List (PreCall × Bool)) : (enterClose a l).hC = a.hC := (enterClose_ghost a l).hC
@[simp] theorem settle_owns (P : Program) (a : Actor) (l : List Op) : (settle P a l).owns = a.owns := (settle_ghost P a l).owns
@[simp] theorem settle_opened (P : Program) (a : Actor) (l : List Op) : (settle P a l).opened = a.opened := (settle_ghost P a l).opened
@[simp] theorem settle_written (P : Program) (a : Actor) (l : List Op) : (settle P a l).written = a.written := (settle_ghost P a l).written
@[simp] theorem settle_committed (P : Program) (a : Actor) (l : List Op) : (settle P a l).committed = a.committed := (settle_ghost P a l).committed
@[simp] theorem settle_rmFailed (P : Program) (a : Actor) (l : List Op) : (settle P a l).rmFailed = a.rmFailed := (settle_ghost P a l).rmFailed
@[simp] theorem settle_fcFailed (P : Program) (a : Actor) (l : List Op) : (settle P a l).fcFailed = a.fcFailed := (settle_ghost P a l).fcFailed
@[simp] theorem settle_hW (P : Program) (a : Actor) (l : List Op) : (settle P a l).hW = a.hW := (settle_ghost P a l).hW
@[simp] theorem settle_hC (P : Program) (a : Actor) (l : List Op) : (settle P a l).hC = a.hC := (settle_ghost P a l).hC
@[simp] theorem raise_owns (P : Program) (a : Actor) (l : List Op) : (raise P a l).owns = a.owns := (raise_ghost P a l).owns
@[simp] theorem raise_opened (P : Program) (a : Actor) (l : List Op) : (raise P a l).opened = a.opened := (raise_ghost P a l).opened
@[simp] theorem raise_written (P : Program) (a : Actor) (l : List Op) : (raise P a l).written = a.written := (raise_ghost P a l).written
@[simp] theorem raise_committed (P : Program) (a : Actor) (l : List Op) : (raise P a l).committed = a.committed := (raise_ghost P a l).committed
@[simp] theorem raise_rmFailed (P : Program) (a : Actor) (l : List Op) : (raise P a l).rmFailed = a.rmFailed := (raise_ghost P a l).rmFailed
@[simp] theorem raise_fcFailed (P : Program) (a : Actor) (l : List Op) : (raise P a l).fcFailed = a.fcFailed := (raise_ghost P a l).fcFailed
@[simp] theorem raise_hW (P : Program) (a : Actor) (l : List Op) : (raise P a l).hW = a.hW := (raise_ghost P a l).hW
@[simp] theorem raise_hC (P : Program) (a : Actor) (l : List Op) : (raise P a l).hC = a.hC := (raise_ghost P a l).hC
@[simp] theorem afterClose_owns (P : Program) (a : Actor) (p : Bool) : (afterClose P a p).owns = a.owns := (afterClose_ghost P a p).owns
@[simp] theorem afterClose_opened (P : Program) (a : Actor) (p : Bool) : (afterClose P a p).opened = a.opened := (afterClose_ghost P a p).opened
@[simp] theorem afterClose_written (P : Program) (a : Actor) (p : Bool) : (afterClose P a p).written = a.written := (afterClose_ghost P a p).written
@[simp] theorem afterClose_committed (P : Program) (a : Actor) (p : Bool) : (afterClose P a p).committed = a.committed := (afterClose_ghost P a p).committed
@[simp] theorem afterClose_rmFailed (P : Program) (a : Actor) (p : Bool) : (afterClose P a p).rmFailed = a.rmFailed := (afterClose_ghost P a p).rmFailed
@[simp] theorem afterClose_fcFailed (P : Program) (a : Actor) (p : Bool) : (afterClose P a p).fcFailed = a.fcFailed := (afterClose_ghost P a p).fcFailed
@[simp] theorem afterClose_hW (P : Program) (a : Actor) (p : Bool) : (afterClose P a p).hW = a.hW := (afterClose_ghost P a p).hW
@[simp] theorem afterClose_hC (P : Program) (a : Actor) (p : Bool) : (afterClose P a p).hC = a.hC := (afterClose_ghost P a p).hC
@[simp] theorem unlinkInClose_owns (P : Program) (a : Actor) (p : Bool) : (unlinkInClose P a p).owns = a.owns := (unlinkInClose_ghost P a p).owns
@[simp] theorem unlinkInClose_opened (P : Program) (a : Actor) (p : Bool) : (unlinkInClose P a p).opened = a.opened := (unlinkInClose_ghost P a p).opened
@[simp] theorem unlinkInClose_written (P : Program) (a : Actor) (p : Bool) : (unlinkInClose P a p).written = a.written := (unlinkInClose_ghost P a p).written
@[simp] theorem unlinkInClose_committed (P : Program) (a : Actor) (p : Bool) : (unlinkInClose P a p).committed = a.committed := (unlinkInClose_ghost P a p).committed
@[simp] theorem unlinkInClose_rmFailed (P : Program) (a : Actor) (p : Bool) : (unlinkInClose P a p).rmFailed = a.rmFailed := (unlinkInClose_ghost P a p).rmFailed
@[simp] theorem unlinkInClose_fcFailed (P : Program) (a : Actor) (p : Bool) : (unlinkInClose P a p).fcFailed = a.fcFailed := (unlinkInClose_ghost P a p).fcFailed
@[simp] theorem unlinkInClose_hW (P : Program) (a : Actor) (p : Bool) : (unlinkInClose P a p).hW = a.hW := (unlinkInClose_ghost P a p).hW
@[simp] theorem unlinkInClose_hC (P : Program) (a : Actor) (p : Bool) : (unlinkInClose P a p).hC = a.hC := (unlinkInClose_ghost P a p).hC
@[simp] theorem abortInClose_owns (P : Program) (a : Actor) (p : Bool) : (abortInClose P a p).owns = a.owns := (abortInClose_ghost P a p).owns
@[simp] theorem abortInClose_opened (P : Program) (a : Actor) (p : Bool) : (abortInClose P a p).opened = a.opened := (abortInClose_ghost P a p).opened
@[simp] theorem abortInClose_written (P : Program) (a : Actor) (p : Bool) : (abortInClose P a p).written = a.written := (abortInClose_ghost P a p).written
@[simp] theorem abortInClose_committed (P : Program) (a : Actor) (p : Bool) : (abortInClose P a p).committed = a.committed := (abortInClose_ghost P a p).committed
@[simp] theorem abortInClose_rmFailed (P : Program) (a : Actor) (p : Bool) : (abortInClose P a p).rmFailed = a.rmFailed := (abortInClose_ghost P a p).rmFailed
@[simp] theorem abortInClose_fcFailed (P : Program) (a : Actor) (p : Bool) : (abortInClose P a p).fcFailed = a.fcFailed := (abortInClose_ghost P a p).fcFailed
@[simp] theorem abortInClose_hW (P : Program) (a : Actor) (p : Bool) : (abortInClose P a p).hW = a.hW := (abortInClose_ghost P a p).hW
@[simp] theorem abortInClose_hC (P : Program) (a : Actor) (p : Bool) : (abortInClose P a p).hC = a.hC := (abortInClose_ghost P a p).hC
@[simp] theorem unlinkInAbort_owns (P : Program) (a : Actor) : (unlinkInAbort P a).owns = a.owns := (unlinkInAbort_ghost P a).owns
@[simp] theorem unlinkInAbort_opened (P : Program) (a : Actor) : (unlinkInAbort P a).opened = a.opened := (unlinkInAbort_ghost P a).opened
@[simp] theorem unlinkInAbort_written (P : Program) (a : Actor) : (unlinkInAbort P a).written = a.written := (unlinkInAbort_ghost P a).written
@[simp] theorem unlinkInAbort_committed (P : Program) (a : Actor) : (unlinkInAbort P a).committed = a.committed := (unlinkInAbort_ghost P a).committed
@[simp] theorem unlinkInAbort_rmFailed (P : Program) (a : Actor) : (unlinkInAbort P a).rmFailed = a.rmFailed := (unlinkInAbort_ghost P a).rmFailed
@[simp] theorem unlinkInAbort_fcFailed (P : Program) (a : Actor) : (unlinkInAbort P a).fcFailed = a.fcFailed := (unlinkInAbort_ghost P a).fcFailed
@[simp] theorem unlinkInAbort_hW (P : Program) (a : Actor) : (unlinkInAbort P a).hW = a.hW := (unlinkInAbort_ghost P a).hW
@[simp] theorem unlinkInAbort_hC (P : Program) (a : Actor) : (unlinkInAbort P a).hC = a.hC := (unlinkInAbort_ghost P a).hC
@[simp] theorem preFail_owns (P : Program) (a : Actor) (p : Bool) : (preFail P a p).owns = a.owns := (preFail_ghost P a p).owns
@[simp] theorem preFail_opened (P : Program) (a : Actor) (p : Bool) : (preFail P a p).opened = a.opened := (preFail_ghost P a p).opened
@[simp] theorem preFail_written (P : Program) (a : Actor) (p : Bool) : (preFail P a p).written = a.written := (preFail_ghost P a p).written
@[simp] theorem preFail_committed (P : Program) (a : Actor) (p : Bool) : (preFail P a p).committed = a.committed := (preFail_ghost P a p).committed
@[simp] theorem preFail_rmFailed (P : Program) (a : Actor) (p : Bool) : (preFail P a p).rmFailed = a.rmFailed := (preFail_ghost P a p).rmFailed
@[simp] theorem preFail_fcFailed (P : Program) (a : Actor) (p : Bool) : (preFail P a p).fcFailed = a.fcFailed := (preFail_ghost P a p).fcFailed
@[simp] theorem preFail_hW (P : Program) (a : Actor) (p : Bool) : (preFail P a p).hW = a.hW := (preFail_ghost P a p).hW
@[simp] theorem preFail_hC (P : Program) (a : Actor) (p : Bool) : (preFail P a p).hC = a.hC := (preFail_ghost P a p).hC

/-! ## what a transition does to ownership, by its effect on the directory -/

/-- the transition does not touch `f` or `f.lock` (at most the parent directory) -/
@[simp] def Eff.quiet : Eff → Bool
  | .none => true | .mkdir => true | .rmdir => true
  | _ => false

theorem rmdir_lock (fs : FS) : ((fs.rmdir).getD fs).lock = fs.lock ∧
    ((fs.rmdir).getD fs).target = fs.target := by
  unfold FS.rmdir; split <;> exact ⟨rfl, rfl⟩

theorem actorStep_eff {P : Program} (hP : WB P) {a : Actor} (lt dt em f : Bool) (h : LInv a) :
    ((actorStep P a lt dt em f).2.1 = .create →
        lt = false ∧ a.owns = false ∧ (actorStep P a lt dt em f).1.owns = true ∧
        (actorStep P a lt dt em f).1.committed = a.committed) ∧
    ((actorStep P a lt dt em f).2.1 = .replace →
        lt = true ∧ a.owns = true ∧ (actorStep P a lt dt em f).1.owns = false ∧
        (actorStep P a lt dt em f).1.committed = some a.written) ∧
    ((actorStep P a lt dt em f).2.1 = .remove →
        lt = true ∧ a.owns = true ∧ (actorStep P a lt dt em f).1.owns = false ∧
        (actorStep P a lt dt em f).1.committed = a.committed) ∧
    ((actorStep P a lt dt em f).2.1.quiet = true →
        ((actorStep P a lt dt em f).1.owns = true → a.owns = true) ∧
        (lt = true → a.owns = true → (actorStep P a lt dt em f).1.owns = true) ∧
        (actorStep P a lt dt em f).1.committed = a.committed) := by
  cases hpc : a.pc with
  | done => simp [actorStep, hpc]
  | start =>
    have hn := h.noHandle_of_start hpc
    simp only [actorStep, hpc]
    rcases acquireStep_cases hP hn.2.2.2.2.2.2 lt dt em f with
      ⟨e, he⟩ | ⟨q, e, _, he, _⟩ | ⟨e, he, hlt, _⟩
    · rw [e]; rcases he with he | he | he <;> simp [he, hn.2.1]
    · rw [e]; rcases he with he | he <;> simp [he, hn.2.1]
    · rw [e, he]; simp [hlt, hn.2.1]
  | wr d =>
    cases f <;> cases hfo : a.fopen <;> simp [actorStep, hpc, hfo]
  | pre c t rest =>
    cases f <;> cases c <;> cases lt <;> cases hfo : a.fopen <;> simp [actorStep, hpc, hfo]
  | replace =>
    obtain ⟨_, ho, _⟩ := h.at_closed_file (Or.inl hpc)
    cases f <;> cases lt <;> cases hfa : P.finallyAbort <;> simp [actorStep, hpc, hfa, ho]
  | fcClose pending =>
    cases f <;> cases hx : P.abortCloseInTry <;> simp [actorStep, hpc, hx]
  | rmClose pending =>
    obtain ⟨_, ho, _⟩ := h.at_closed_file (Or.inr (Or.inl ⟨_, hpc⟩))
    cases f <;> cases lt <;> simp [actorStep, hpc, ho]
  | fcAbort =>
    cases f <;> cases hx : P.abortCloseInTry <;> simp [actorStep, hpc, hx]
  | rmAbort =>
    obtain ⟨_, ho, _⟩ := h.at_closed_file (Or.inr (Or.inr hpc))
    cases f <;> cases lt <;> simp [actorStep, hpc, ho]

/-! ## the global invariant -/

/-- `Inv`: every actor satisfies its local invariant; an actor that is between its successful open
and its own rename/unlink has ITS lock file in place (nobody disturbed it); and a lock file that
exists belongs to such an actor. -/
structure Inv (s : State) : Prop where
  actors : ∀ i, LInv (s.actors i)
  ownerHasLock : ∀ i, (s.actors i).owns = true → s.fs.lock = some i
  lockHasOwner : ∀ i, s.fs.lock = some i → (s.actors i).owns = true

theorem Inv.of_initial {s : State} (h : Initial s) : Inv s := by
  refine ⟨fun i => LInv.of_fresh (h.fresh i), fun i hi => ?_, fun i hi => ?_⟩
  · have := (h.fresh i).2.2.1; rw [this] at hi; simp at hi
  · rw [h.lockFree] at hi; simp at hi

@[simp] theorem step_actor_self (P : Program) (s : State) (i : Nat) (f : Bool) :
    (step P s i f).actors i = (actorStep P (s.actors i) s.fs.lock.isSome s.fs.dir s.fs.isEmpty f).1 := by
  simp [step]

theorem step_actor_other (P : Program) (s : State) {i j : Nat} (f : Bool) (h : j ≠ i) :
    (step P s i f).actors j = s.actors j := by
  simp [step, h]

theorem step_fs (P : Program) (s : State) (i : Nat) (f : Bool) :
    (step P s i f).fs = applyEff s.fs i (actorStep P (s.actors i) s.fs.lock.isSome s.fs.dir s.fs.isEmpty f).2.1 := rfl

theorem step_Inv {P : Program} (hP : WB P) {s : State} (h : Inv s) (i : Nat) (f : Bool) :
    Inv (step P s i f) := by
  have hl := actorStep_LInv hP s.fs.lock.isSome s.fs.dir s.fs.isEmpty f (h.actors i)
  obtain ⟨hcr, hrp, hrm, hno⟩ := actorStep_eff hP s.fs.lock.isSome s.fs.dir s.fs.isEmpty f (h.actors i)
  refine ⟨fun j => ?_, fun j hj => ?_, fun j hj => ?_⟩
  · by_cases hji : j = i
    · subst hji; rw [step_actor_self]; exact hl
    · rw [step_actor_other _ _ _ hji]; exact h.actors j
  · -- owner ⇒ its lock file is in place
    rw [step_fs]
    cases he : (actorStep P (s.actors i) s.fs.lock.isSome s.fs.dir s.fs.isEmpty f).2.1 with
    | none =>
      obtain ⟨h1, _, _⟩ := hno (by rw [he]; rfl)
      by_cases hji : j = i
      · subst hji; rw [step_actor_self] at hj; exact h.ownerHasLock j (h1 hj)
      · rw [step_actor_other _ _ _ hji] at hj; exact h.ownerHasLock j hj
    | mkdir =>
      obtain ⟨h1, _, _⟩ := hno (by rw [he]; rfl)
      by_cases hji : j = i
      · subst hji; rw [step_actor_self] at hj; exact h.ownerHasLock j (h1 hj)
      · rw [step_actor_other _ _ _ hji] at hj; exact h.ownerHasLock j hj
    | rmdir =>
      obtain ⟨h1, _, _⟩ := hno (by rw [he]; rfl)
      simp only [applyEff, (rmdir_lock s.fs).1]
      by_cases hji : j = i
      · subst hji; rw [step_actor_self] at hj; exact h.ownerHasLock j (h1 hj)
      · rw [step_actor_other _ _ _ hji] at hj; exact h.ownerHasLock j hj
    | create =>
      obtain ⟨h1, _, _, _⟩ := hcr he
      by_cases hji : j = i
      · subst hji; simp [applyEff]
      · rw [step_actor_other _ _ _ hji] at hj
        have := h.ownerHasLock j hj
        rw [this] at h1; simp at h1
    | replace =>
      obtain ⟨_, h2, h3, _⟩ := hrp he
      by_cases hji : j = i
      · subst hji; rw [step_actor_self, h3] at hj; simp at hj
      · rw [step_actor_other _ _ _ hji] at hj
        have e1 := h.ownerHasLock j hj
        have e2 := h.ownerHasLock i h2
        rw [e1] at e2; exact absurd (Option.some.inj e2) hji
    | remove =>
      obtain ⟨_, h2, h3, _⟩ := hrm he
      by_cases hji : j = i
      · subst hji; rw [step_actor_self, h3] at hj; simp at hj
      · rw [step_actor_other _ _ _ hji] at hj
        have e1 := h.ownerHasLock j hj
        have e2 := h.ownerHasLock i h2
        rw [e1] at e2; exact absurd (Option.some.inj e2) hji
  · -- lock file ⇒ its creator still owns it
    rw [step_fs] at hj
    cases he : (actorStep P (s.actors i) s.fs.lock.isSome s.fs.dir s.fs.isEmpty f).2.1 with
    | none =>
      rw [he] at hj
      simp only [applyEff] at hj
      obtain ⟨_, h2, _⟩ := hno (by rw [he]; rfl)
      by_cases hji : j = i
      · subst hji; rw [step_actor_self]
        exact h2 (by simp [hj]) (h.lockHasOwner j hj)
      · rw [step_actor_other _ _ _ hji]; exact h.lockHasOwner j hj
    | mkdir =>
      rw [he] at hj
      simp only [applyEff, FS.mkdir] at hj
      obtain ⟨_, h2, _⟩ := hno (by rw [he]; rfl)
      by_cases hji : j = i
      · subst hji; rw [step_actor_self]
        exact h2 (by simp [hj]) (h.lockHasOwner j hj)
      · rw [step_actor_other _ _ _ hji]; exact h.lockHasOwner j hj
    | rmdir =>
      rw [he] at hj
      simp only [applyEff, (rmdir_lock s.fs).1] at hj
      obtain ⟨_, h2, _⟩ := hno (by rw [he]; rfl)
      by_cases hji : j = i
      · subst hji; rw [step_actor_self]
        exact h2 (by simp [hj]) (h.lockHasOwner j hj)
      · rw [step_actor_other _ _ _ hji]; exact h.lockHasOwner j hj
    | create =>
      rw [he] at hj
      obtain ⟨_, _, h3, _⟩ := hcr he
      simp only [applyEff] at hj
      have : j = i := (Option.some.inj hj).symm
      subst this; rw [step_actor_self]; exact h3
    | replace =>
      rw [he] at hj
      obtain ⟨_, h2, _, _⟩ := hrp he
      have e2 := h.ownerHasLock i h2
      simp [applyEff, FS.replace, e2] at hj
    | remove =>
      rw [he] at hj
      obtain ⟨_, h2, _, _⟩ := hrm he
      have e2 := h.ownerHasLock i h2
      simp [applyEff, FS.remove, e2] at hj

theorem reach_Inv {P : Program} (hP : WB P) {s0 s : State} (h0 : Initial s0) (h : Reach P s0 s) :
    Inv s := by
  induction h with
  | init => exact Inv.of_initial h0
  | step s i f _ ih => exact step_Inv hP ih i f


/-! ## all-or-nothing replacement -/

/-- `f` is still the file of the initial state, or it is the file some actor renamed into place,
whose content is exactly what that actor had written through its handle when it renamed — and the
handle's file object is closed, so it cannot change any more. -/
def TargetOk (s0 s : State) : Prop :=
  s.fs.target = s0.fs.target ∨
    ∃ i, s.fs.target = some (.of i) ∧ (s.actors i).committed = some (s.actors i).written ∧
      (s.actors i).fopen = false

theorem LInv.committed_frozen {a : Actor} (h : LInv a) {c : Bytes} (hc : a.committed = some c) :
    c = a.written ∧ a.fopen = false := by
  rcases h with h | h
  · rw [h.2.2.2.2.1] at hc; simp at hc
  · exact h.1.committed c hc

theorem applyEff_target_of_ne_replace (fs : FS) (i : Nat) {e : Eff} (h : e ≠ .replace) :
    (applyEff fs i e).target = fs.target := by
  cases e with
  | none => rfl
  | create => rfl
  | replace => exact absurd rfl h
  | remove =>
    simp only [applyEff, FS.remove]
    cases fs.lock <;> rfl
  | mkdir => rfl
  | rmdir => exact (rmdir_lock fs).2

theorem step_TargetOk {P : Program} (hP : WB P) {s0 s : State} (h : Inv s) (ht : TargetOk s0 s)
    (i : Nat) (f : Bool) : TargetOk s0 (step P s i f) := by
  have hl := actorStep_LInv hP s.fs.lock.isSome s.fs.dir s.fs.isEmpty f (h.actors i)
  obtain ⟨hcr, hrp, hrm, hno⟩ := actorStep_eff hP s.fs.lock.isSome s.fs.dir s.fs.isEmpty f (h.actors i)
  by_cases he : (actorStep P (s.actors i) s.fs.lock.isSome s.fs.dir s.fs.isEmpty f).2.1 = .replace
  · -- actor i renames ITS lock file (it owns, so the file at `f.lock` is the one it created)
    obtain ⟨_, h2, _, h4⟩ := hrp he
    have e2 := h.ownerHasLock i h2
    have hfr := hl.committed_frozen h4
    refine Or.inr ⟨i, ?_, ?_, ?_⟩
    · rw [step_fs, he]; simp [applyEff, FS.replace, e2]
    · rw [step_actor_self, h4, ← hfr.1]
    · rw [step_actor_self]; exact hfr.2
  · have htg : (step P s i f).fs.target = s.fs.target := by
      rw [step_fs]; exact applyEff_target_of_ne_replace _ _ he
    rcases ht with ht | ⟨k, hk1, hk2, hk3⟩
    · exact Or.inl (htg.trans ht)
    · refine Or.inr ⟨k, htg.trans hk1, ?_⟩
      by_cases hki : k = i
      · subst hki
        have hcm : (actorStep P (s.actors k) s.fs.lock.isSome s.fs.dir s.fs.isEmpty f).1.committed = (s.actors k).committed := by
          cases he' : (actorStep P (s.actors k) s.fs.lock.isSome s.fs.dir s.fs.isEmpty f).2.1 with
          | none => exact (hno (by rw [he']; rfl)).2.2
          | mkdir => exact (hno (by rw [he']; rfl)).2.2
          | rmdir => exact (hno (by rw [he']; rfl)).2.2
          | create => exact (hcr he').2.2.2
          | replace => exact absurd he' he
          | remove => exact (hrm he').2.2.2
        rw [hk2] at hcm
        have hfr := hl.committed_frozen hcm
        rw [step_actor_self]
        exact ⟨by rw [hcm, ← hfr.1], hfr.2⟩
      · rw [step_actor_other _ _ _ hki]; exact ⟨hk2, hk3⟩

theorem reach_TargetOk {P : Program} (hP : WB P) {s0 s : State} (h0 : Initial s0)
    (h : Reach P s0 s) : TargetOk s0 s := by
  induction h with
  | init => exact Or.inl rfl
  | step s i f hr ih => exact step_TargetOk hP (reach_Inv hP h0 hr) ih i f


/-! ## the `with GitFile(...)` caller: control-flow invariant -/

theorem enterClose_shape (a : Actor) (l : List (PreCall × Bool)) :
    ((enterClose a l).pc = .replace ∨ ∃ c t r, (enterClose a l).pc = .pre c t r) ∧
    (enterClose a l).todo = a.todo ∧ (enterClose a l).inHandler = a.inHandler ∧
    (enterClose a l).closed = a.closed := by
  induction l generalizing a with
  | nil => exact ⟨Or.inl rfl, rfl, rfl, rfl⟩
  | cons p rest ih =>
    obtain ⟨c, t⟩ := p
    have key : ∀ (b : Bool), enterClose a ((c, t) :: rest) =
        (if b then { a with pc := .pre c t rest } else enterClose a rest) →
        ((enterClose a ((c, t) :: rest)).pc = .replace ∨
            ∃ c' t' r, (enterClose a ((c, t) :: rest)).pc = .pre c' t' r) ∧
          (enterClose a ((c, t) :: rest)).todo = a.todo ∧
          (enterClose a ((c, t) :: rest)).inHandler = a.inHandler ∧
          (enterClose a ((c, t) :: rest)).closed = a.closed := by
      intro b e
      rw [e]
      cases b
      · exact ih a
      · exact ⟨Or.inr ⟨_, _, _, rfl⟩, rfl, rfl, rfl⟩
    cases c with
    | flush => exact key true rfl
    | fsync => exact key a.fsyncOn (by simp [enterClose])
    | fclose => exact key a.fopen (by simp [enterClose])
    | stat => exact key a.permOn (by simp [enterClose])
    | chmod => exact key a.permOn (by simp [enterClose])

theorem settle_withBody_cons (P : Program) (a : Actor) (d : Bytes) (post : List Bytes) :
    settle P a (withBody (d :: post)) = { a with pc := .wr d, todo := withBody post } := by
  simp [withBody, settle]

theorem settle_withBody_nil (P : Program) (a : Actor) (hc : a.closed = false) :
    settle P a (withBody []) = enterClose { a with todo := [] } P.closePre := by
  simp [withBody, settle, hc]

/-- in close(), the pending call and every later call before the rename sit inside the
`try … finally: self.abort()` -/
def PreInTry (a : Actor) : Prop :=
  match a.pc with
  | .pre _ t rest => t = true ∧ rest.all (fun p => p.2) = true
  | _ => True

theorem enterClose_preInTry (a : Actor) (l : List (PreCall × Bool))
    (hl : l.all (fun p => p.2) = true) : PreInTry (enterClose a l) := by
  induction l generalizing a with
  | nil => simp [enterClose, PreInTry]
  | cons p rest ih =>
    obtain ⟨c, t⟩ := p
    simp only [List.all_cons, Bool.and_eq_true] at hl
    obtain ⟨ht, hr⟩ := hl
    cases c <;> simp only [enterClose]
    · exact ⟨ht, hr⟩
    all_goals
      split
      · exact ⟨ht, hr⟩
      · exact ih a hr

theorem settle_preInTry (P : Program) (hall : P.closePre.all (fun p => p.2) = true) (a : Actor)
    (l : List Op) : PreInTry (settle P a l) := by
  induction l generalizing a with
  | nil => simp [settle, PreInTry]
  | cons o rest ih =>
    cases o <;> simp only [settle]
    · simp [PreInTry]
    · split
      · exact ih a
      · exact enterClose_preInTry _ _ hall
    · split
      · exact ih a
      · split
        · simp [PreInTry]
        · split
          · simp [PreInTry]
          · exact ih _

theorem raise_preInTry (P : Program) (hall : P.closePre.all (fun p => p.2) = true) (a : Actor)
    (l : List Op) : PreInTry (raise P a l) := by
  unfold raise; split
  · simp [PreInTry]
  · exact settle_preInTry P hall _ _

theorem afterClose_preInTry (P : Program) (hall : P.closePre.all (fun p => p.2) = true) (a : Actor)
    (p : Bool) : PreInTry (afterClose P a p) := by
  unfold afterClose; split
  · exact raise_preInTry P hall _ _
  · exact settle_preInTry P hall _ _

theorem unlinkInClose_preInTry (P : Program) (hall : P.closePre.all (fun p => p.2) = true)
    (a : Actor) (p : Bool) : PreInTry (unlinkInClose P a p) := by
  unfold unlinkInClose; split
  · simp [PreInTry]
  · exact afterClose_preInTry P hall _ _

theorem abortInClose_preInTry (P : Program) (hall : P.closePre.all (fun p => p.2) = true)
    (a : Actor) (p : Bool) : PreInTry (abortInClose P a p) := by
  unfold abortInClose; split
  · exact afterClose_preInTry P hall _ _
  · split
    · simp [PreInTry]
    · exact unlinkInClose_preInTry P hall _ _

theorem unlinkInAbort_preInTry (P : Program) (hall : P.closePre.all (fun p => p.2) = true)
    (a : Actor) : PreInTry (unlinkInAbort P a) := by
  unfold unlinkInAbort; split
  · simp [PreInTry]
  · exact settle_preInTry P hall _ _

theorem preFail_preInTry (P : Program) (hall : P.closePre.all (fun p => p.2) = true) (a : Actor)
    (t : Bool) : PreInTry (preFail P a t) := by
  unfold preFail; split
  · exact abortInClose_preInTry P hall _ _
  · exact raise_preInTry P hall _ _

theorem actorStep_preInTry (P : Program) (hall : P.closePre.all (fun p => p.2) = true) {a : Actor}
    (lt dt em f : Bool) (h : PreInTry a) : PreInTry (actorStep P a lt dt em f).1 := by
  cases hpc : a.pc with
  | done => simp only [actorStep, hpc]; exact h
  | start =>
    simp only [actorStep, hpc]
    rcases acquireStep_shape P a lt dt em f with e | ⟨q, e⟩ | e <;> rw [e]
    · simp [PreInTry]
    · simp [PreInTry, hpc]
    · exact settle_preInTry P hall _ _
  | wr d =>
    simp only [actorStep, hpc]
    split
    · exact raise_preInTry P hall _ _
    · split
      · exact raise_preInTry P hall _ _
      · exact settle_preInTry P hall _ _
  | pre c t rest =>
    have hr : rest.all (fun p => p.2) = true := by
      unfold PreInTry at h; rw [hpc] at h; exact h.2
    simp only [actorStep, hpc]
    split
    · exact preFail_preInTry P hall _ _
    · cases c <;> simp only
      · split
        · exact preFail_preInTry P hall _ _
        · exact enterClose_preInTry _ _ hr
      · exact enterClose_preInTry _ _ hr
      · exact enterClose_preInTry _ _ hr
      · split
        · exact enterClose_preInTry _ _ hr
        · exact preFail_preInTry P hall _ _
      · split
        · exact enterClose_preInTry _ _ hr
        · exact preFail_preInTry P hall _ _
  | replace =>
    simp only [actorStep, hpc]
    split
    · split
      · exact abortInClose_preInTry P hall _ _
      · exact raise_preInTry P hall _ _
    · split
      · split
        · exact abortInClose_preInTry P hall _ _
        · exact raise_preInTry P hall _ _
      · simp only
        split
        · exact abortInClose_preInTry P hall _ _
        · exact settle_preInTry P hall _ _
  | fcClose p =>
    simp only [actorStep, hpc]
    split
    · split
      · exact unlinkInClose_preInTry P hall _ _
      · exact raise_preInTry P hall _ _
    · exact unlinkInClose_preInTry P hall _ _
  | rmClose p =>
    simp only [actorStep, hpc]
    split
    · exact raise_preInTry P hall _ _
    · exact afterClose_preInTry P hall _ _
  | fcAbort =>
    simp only [actorStep, hpc]
    split
    · split
      · exact unlinkInAbort_preInTry P hall _
      · simp [PreInTry]
    · exact unlinkInAbort_preInTry P hall _
  | rmAbort =>
    simp only [actorStep, hpc]
    split
    · simp [PreInTry]
    · exact settle_preInTry P hall _ _

/-- where a `with GitFile(f,"wb") as h: for d in ds: h.write(d)` caller can be.  `G` is a side
condition on the program ("every failure inside close() is followed by abort()"); with `G := False`
nothing is assumed. -/
inductive Phase (G : Prop) (ds : List Bytes) (a : Actor) : Prop where
  | start : a.pc = .start → a.inHandler = false → a.todo = withBody ds → a.written = [] →
      a.committed = none → Phase G ds a
  | writing (pre : List Bytes) (d : Bytes) (post : List Bytes) : a.pc = .wr d → a.inHandler = false →
      ds = pre ++ d :: post → a.written = pre.flatten → a.todo = withBody post →
      a.committed = none → a.closed = false → Phase G ds a
  | closing : (a.pc = .replace ∨ ∃ c t r, a.pc = .pre c t r) → a.inHandler = false →
      a.written = ds.flatten → a.todo = [] → a.committed = none → Phase G ds a
  | failedRm : (a.pc = .rmClose true ∨ a.pc = .fcClose true) → a.inHandler = false →
      a.todo = [] → a.committed = none → Phase G ds a
  | handler : a.inHandler = true → a.todo = [] → a.committed = none →
      (a.pc = .rmAbort ∨ a.pc = .fcAbort ∨
        (a.pc = .done ∧ ((a.hC = [.abort] ∨ G) →
          a.closed = true ∨ a.rmFailed = true ∨ a.fcFailed = true))) →
      Phase G ds a
  | finished : a.pc = .done → a.inHandler = false → a.todo = [] →
      (a.committed = none ∨ a.committed = some ds.flatten) →
      (a.opened = true → a.closed = true) → Phase G ds a

/-- configuration of a with-caller: abort() when write() raises; nothing, or (finalised handle)
abort(), when close() raises -/
def WithCfg (a : Actor) : Prop := a.hW = [.abort] ∧ (a.hC = [] ∨ a.hC = [.abort])

theorem raise_handler {P : Program} (hP : WB P) (G : Prop) (ds : List Bytes) {a : Actor}
    {h : List Op} (hi : a.inHandler = false) (hh : h = [] ∨ h = [.abort]) (hc : a.committed = none)
    (hhc : h = a.hW ∨ h = a.hC) (hw : a.hW = [.abort])
    (hg : G → h = [] → a.closed = true ∨ a.rmFailed = true ∨ a.fcFailed = true) :
    Phase G ds (raise P a h) := by
  unfold raise
  rw [hi]
  simp only [Bool.false_eq_true, if_false]
  rcases hh with hh | hh
  · subst hh
    refine Phase.handler rfl rfl hc (Or.inr (Or.inr ⟨rfl, ?_⟩))
    intro habs
    rcases habs with habs | g
    · rcases hhc with e | e
      · rw [hw] at e; simp at e
      · simp only [settle] at habs; rw [← e] at habs; simp at habs
    · exact hg g rfl
  · subst hh
    simp only [settle, hP.guardAbort, hP.abortRemoves, Bool.true_and, if_true]
    split
    · rename_i hcl
      exact Phase.handler rfl rfl hc (Or.inr (Or.inr ⟨rfl, fun _ => Or.inl hcl⟩))
    · split
      · exact Phase.handler rfl rfl hc (Or.inr (Or.inl rfl))
      · exact Phase.handler rfl rfl hc (Or.inl rfl)

theorem phase_enterClose (G : Prop) (ds : List Bytes) {a : Actor} (l : List (PreCall × Bool))
    (hi : a.inHandler = false) (hw : a.written = ds.flatten) (ht : a.todo = [])
    (hc : a.committed = none) : Phase G ds (enterClose a l) := by
  obtain ⟨h1, h2, h3, _⟩ := enterClose_shape a l
  exact Phase.closing h1 (h3.trans hi) ((enterClose_written a l).trans hw) (h2.trans ht)
    ((enterClose_committed a l).trans hc)

theorem phase_settle_withBody {P : Program} (G : Prop) (ds pre post : List Bytes) {a : Actor}
    (hd : ds = pre ++ post) (hi : a.inHandler = false) (hw : a.written = pre.flatten)
    (hc : a.committed = none) (hcl : a.closed = false) :
    Phase G ds (settle P a (withBody post)) := by
  cases post with
  | nil =>
    rw [settle_withBody_nil P a hcl]
    exact phase_enterClose G ds _ hi (by simpa [hd] using hw) rfl hc
  | cons d post =>
    rw [settle_withBody_cons]
    exact Phase.writing pre d post rfl hi hd hw rfl hc hcl

/-- abort() inside close() with an exception in flight, lock still held: first the file object (if
open), then the unlink -/
theorem phase_abortInClose {P : Program} (hP : WB P) (G : Prop) (ds : List Bytes) {b : Actor}
    (hcl : b.closed = false) (hi : b.inHandler = false) (ht : b.todo = [])
    (hc : b.committed = none) : Phase G ds (abortInClose P b true) := by
  unfold abortInClose
  simp only [hcl, Bool.and_false, Bool.false_eq_true, if_false]
  split
  · exact Phase.failedRm (Or.inr rfl) hi ht hc
  · unfold unlinkInClose
    simp only [hP.abortRemoves, if_true]
    exact Phase.failedRm (Or.inl rfl) hi ht hc

theorem phase_preFail {P : Program} (hP : WB P) (G : Prop) (ds : List Bytes) {b : Actor} (t : Bool)
    (hcl : b.closed = false) (hi : b.inHandler = false) (ht : b.todo = [])
    (hc : b.committed = none) (hW : b.hW = [.abort]) (hC : b.hC = [] ∨ b.hC = [.abort])
    (hpre : G → t = true) : Phase G ds (preFail P b t) := by
  unfold preFail
  split
  · exact phase_abortInClose hP G ds hcl hi ht hc
  · rename_i hnt
    exact raise_handler hP G ds hi hC hc (Or.inr rfl) hW (fun g _ => absurd (hpre g) hnt)

/-- the control-flow invariant of a with-caller is preserved by each of its calls -/
theorem actorStep_Phase {P : Program} (hP : WB P) (G : Prop) (ds : List Bytes) {a : Actor}
    (lt dt em f : Bool) (hl : LInv a) (hcfg : WithCfg a)
    (hG : G → P.finallyAbort = true ∧ PreInTry a) (h : Phase G ds a) :
    Phase G ds (actorStep P a lt dt em f).1 := by
  obtain ⟨hW, hCc⟩ := hcfg
  have hgW : G → a.hW = [] → a.closed = true ∨ a.rmFailed = true ∨ a.fcFailed = true :=
    fun _ e => by rw [hW] at e; simp at e
  cases h with
  | start hpc hi ht hw hc =>
    have hn := hl.noHandle_of_start hpc
    simp only [actorStep, hpc]
    rcases acquireStep_cases hP hn.2.2.2.2.2.2 lt dt em f with ⟨e, _⟩ | ⟨q, e, _, _, _⟩ | ⟨e, _, _, _⟩
    · rw [e]
      exact Phase.finished rfl hi rfl (Or.inl hc) (fun h1 => by simp [hn.1] at h1)
    · rw [e]; exact Phase.start hpc hi ht hw hc
    · rw [e, ht]
      exact phase_settle_withBody G ds [] ds rfl hi (by simpa using hw) hc hn.2.2.1
  | writing pre d post hpc hi hd hw ht hc hcl =>
    simp only [actorStep, hpc]
    split
    · exact raise_handler hP G ds hi (Or.inr hW) hc (Or.inl rfl) hW hgW
    · split
      · exact raise_handler hP G ds hi (Or.inr hW) hc (Or.inl rfl) hW hgW
      · rw [ht]
        exact phase_settle_withBody G ds (pre ++ [d]) post (by simp [hd]) hi (by simp [hw]) hc hcl
  | closing hpc hi hw ht hc =>
    have hr := hl.run_of_pc (by rcases hpc with e | ⟨_, _, _, e⟩ <;> simp [e])
      (by rcases hpc with e | ⟨_, _, _, e⟩ <;> simp [e])
    have hown : a.owns = true := by
      have := hr.2.1; unfold PcOk at this
      rcases hpc with e | ⟨_, _, _, e⟩ <;> rw [e] at this <;> exact this.1
    have hcl : a.closed = false := by
      have := hr.1.owns_eq; rw [hown] at this
      cases hx : a.closed <;> simp [hx] at this ⊢
    rcases hpc with hpc | ⟨c, t, r, hpc⟩
    · -- replace
      simp only [actorStep, hpc]
      have hfin : Phase G ds
          (if P.finallyAbort = true then abortInClose P a true else raise P a a.hC) := by
        split
        · exact phase_abortInClose hP G ds hcl hi ht hc
        · rename_i hnf
          exact raise_handler hP G ds hi hCc hc (Or.inr rfl) hW
            (fun g _ => absurd (hG g).1 hnf)
      split
      · exact hfin
      · split
        · exact hfin
        · simp only [hP.mark, Bool.or_true]
          have hdone : ∀ pc', Phase G ds
              (settle P { a with pc := pc', owns := false, committed := some a.written,
                                 closed := true } a.todo) := by
            intro pc'
            rw [ht]
            exact Phase.finished rfl hi rfl (Or.inr (by simp [hw])) (fun _ => rfl)
          split
          · unfold abortInClose afterClose
            simp only [hP.guardAbort, Bool.and_self, if_true, Bool.false_eq_true, if_false]
            exact hdone _
          · exact hdone _
    · -- a call of close() before the rename
      have hpre : G → t = true := by
        intro g
        have := (hG g).2; unfold PreInTry at this; rw [hpc] at this; exact this.1
      simp only [actorStep, hpc]
      split
      · cases c <;> exact phase_preFail hP G ds t hcl hi ht hc hW hCc hpre
      · cases c <;> simp only
        · split
          · exact phase_preFail hP G ds t hcl hi ht hc hW hCc hpre
          · exact phase_enterClose G ds _ hi hw ht hc
        · exact phase_enterClose G ds _ hi hw ht hc
        · exact phase_enterClose G ds _ hi hw ht hc
        · split
          · exact phase_enterClose G ds _ hi hw ht hc
          · exact phase_preFail hP G ds t hcl hi ht hc hW hCc hpre
        · split
          · exact phase_enterClose G ds _ hi hw ht hc
          · exact phase_preFail hP G ds t hcl hi ht hc hW hCc hpre
  | failedRm hpc hi ht hc =>
    rcases hpc with hpc | hpc
    · simp only [actorStep, hpc]
      split
      · exact raise_handler hP G ds hi hCc hc (Or.inr rfl) hW (fun _ _ => Or.inr (Or.inl rfl))
      · unfold afterClose
        simp only [if_true]
        exact raise_handler hP G ds hi hCc hc (Or.inr rfl) hW (fun _ _ => Or.inl rfl)
    · have hul : ∀ b : Actor, b.inHandler = false → b.todo = [] → b.committed = none →
          Phase G ds (unlinkInClose P b true) := by
        intro b h1 h2 h3
        unfold unlinkInClose
        simp only [hP.abortRemoves, if_true]
        exact Phase.failedRm (Or.inl rfl) h1 h2 h3
      simp only [actorStep, hpc]
      split
      · split
        · exact hul _ hi ht hc
        · exact raise_handler hP G ds hi hCc hc (Or.inr rfl) hW
            (fun _ _ => Or.inr (Or.inr rfl))
      · exact hul _ hi ht hc
  | handler hi ht hc hpc =>
    rcases hpc with hpc | hpc | ⟨hpc, hrel⟩
    · simp only [actorStep, hpc]
      split
      · exact Phase.handler hi rfl hc (Or.inr (Or.inr ⟨rfl, fun _ => Or.inr (Or.inl rfl)⟩))
      · rw [ht]
        exact Phase.handler hi rfl hc (Or.inr (Or.inr ⟨rfl, fun _ => Or.inl rfl⟩))
    · have hul : ∀ b : Actor, b.inHandler = true → b.todo = [] → b.committed = none →
          Phase G ds (unlinkInAbort P b) := by
        intro b h1 h2 h3
        unfold unlinkInAbort
        simp only [hP.abortRemoves, if_true]
        exact Phase.handler h1 h2 h3 (Or.inl rfl)
      simp only [actorStep, hpc]
      split
      · split
        · exact hul _ hi rfl hc
        · exact Phase.handler hi rfl hc
            (Or.inr (Or.inr ⟨rfl, fun _ => Or.inr (Or.inr rfl)⟩))
      · exact hul _ hi ht hc
    · simp only [actorStep, hpc]
      exact Phase.handler hi ht hc (Or.inr (Or.inr ⟨hpc, hrel⟩))
  | finished hpc hi ht hc hcl =>
    simp only [actorStep, hpc]
    exact Phase.finished hpc hi ht hc hcl

/-! ## lifting the with-caller invariant to reachable states; failures -/

@[simp] theorem enterClose_inHandler (a : Actor) (l : List (PreCall × Bool)) :
    (enterClose a l).inHandler = a.inHandler := (enterClose_shape a l).2.2.1

@[simp] theorem settle_inHandler (P : Program) (b : Actor) (l : List Op) :
    (settle P b l).inHandler = b.inHandler := by
  induction l generalizing b with
  | nil => rfl
  | cons o rest ih =>
    cases o <;> simp only [settle]
    · split
      · exact ih b
      · exact (enterClose_shape _ _).2.2.1
    · split
      · exact ih b
      · split
        · rfl
        · split
          · rfl
          · exact ih _

theorem actorStep_cfg (P : Program) (a : Actor) (lt dt em f : Bool) :
    (actorStep P a lt dt em f).1.hW = a.hW ∧ (actorStep P a lt dt em f).1.hC = a.hC := by
  cases hpc : a.pc with
  | done => simp [actorStep, hpc]
  | start =>
    simp only [actorStep, hpc]
    rcases acquireStep_shape P a lt dt em f with e | ⟨q, e⟩ | e <;> rw [e] <;> simp
  | wr d => cases f <;> cases hfo : a.fopen <;> simp [actorStep, hpc, hfo]
  | pre c t rest =>
    cases f <;> cases c <;> cases lt <;> cases hfo : a.fopen <;> simp [actorStep, hpc, hfo]
  | replace => cases f <;> cases lt <;> cases hfa : P.finallyAbort <;> simp [actorStep, hpc, hfa]
  | fcClose pending => cases f <;> cases hx : P.abortCloseInTry <;> simp [actorStep, hpc, hx]
  | rmClose pending => cases f <;> cases lt <;> simp [actorStep, hpc]
  | fcAbort => cases f <;> cases hx : P.abortCloseInTry <;> simp [actorStep, hpc, hx]
  | rmAbort => cases f <;> cases lt <;> simp [actorStep, hpc]

/-- with `try: self._file.close() finally: <unlink>` in abort(), closing the file object can no
longer make abort() skip the unlink -/
theorem actorStep_fcFailed {P : Program} (hx : P.abortCloseInTry = true) (a : Actor) (lt dt em f : Bool)
    (h : a.fcFailed = false) : (actorStep P a lt dt em f).1.fcFailed = false := by
  cases hpc : a.pc with
  | done => simp [actorStep, hpc, h]
  | start =>
    simp only [actorStep, hpc]
    rcases acquireStep_shape P a lt dt em f with e | ⟨q, e⟩ | e <;> rw [e] <;> simp [h]
  | wr d => cases f <;> cases hfo : a.fopen <;> simp [actorStep, hpc, hfo, h]
  | pre c t rest =>
    cases f <;> cases c <;> cases lt <;> cases hfo : a.fopen <;> simp [actorStep, hpc, hfo, h]
  | replace => cases f <;> cases lt <;> cases hfa : P.finallyAbort <;> simp [actorStep, hpc, hfa, h]
  | fcClose pending => cases f <;> simp [actorStep, hpc, hx, h]
  | rmClose pending => cases f <;> cases lt <;> simp [actorStep, hpc, h]
  | fcAbort => cases f <;> simp [actorStep, hpc, hx, h]
  | rmAbort => cases f <;> cases lt <;> simp [actorStep, hpc, h]

theorem withCaller_cfg (mk fs pm : Bool) (ds : List Bytes) (fin : Bool) :
    WithCfg (withCaller mk fs pm ds fin) := by
  refine ⟨by simp [withCaller, Actor.init, Gen.Lock.exitAbortsOnException], ?_⟩
  cases fin <;> simp [withCaller, Actor.init, Gen.Lock.delAborts]

theorem withCaller_phase (G : Prop) (mk fs pm : Bool) (ds : List Bytes) (fin : Bool) :
    Phase G ds (withCaller mk fs pm ds fin) :=
  Phase.start rfl rfl rfl rfl rfl

theorem reach_preInTry {P : Program} (hall : P.closePre.all (fun p => p.2) = true) {s0 s : State}
    (h0 : Initial s0) (h : Reach P s0 s) (i : Nat) : PreInTry (s.actors i) := by
  induction h with
  | init =>
    have := (h0.fresh i).1
    simp [PreInTry, this]
  | step s j f _ ih =>
    by_cases hji : i = j
    · subst hji; rw [step_actor_self]; exact actorStep_preInTry P hall _ _ _ _ ih
    · rw [step_actor_other _ _ _ hji]; exact ih

theorem reach_fcFailed {P : Program} (hx : P.abortCloseInTry = true) {s0 s : State}
    (h0 : Initial s0) (h : Reach P s0 s) (i : Nat) : (s.actors i).fcFailed = false := by
  induction h with
  | init => exact (h0.fresh i).2.2.2.2.2.2.1
  | step s j f _ ih =>
    by_cases hji : i = j
    · subst hji; rw [step_actor_self]; exact actorStep_fcFailed hx _ _ _ _ _ ih
    · rw [step_actor_other _ _ _ hji]; exact ih

/-- everything we know about a with-caller in a reachable state (`G` may only be assumed when the
program aborts on every failure inside close()) -/
theorem reach_with {P : Program} (hP : WB P) (G : Prop)
    (hG : G → P.abortsOnAnyCloseFailure = true) {s0 s : State} (h0 : Initial s0) (i : Nat)
    {mk fs pm fin : Bool} {ds : List Bytes} (hi : s0.actors i = withCaller mk fs pm ds fin)
    (h : Reach P s0 s) :
    Phase G ds (s.actors i) ∧ (s.actors i).hW = [.abort] ∧
      (s.actors i).hC = (withCaller mk fs pm ds fin).hC := by
  induction h with
  | init =>
    rw [hi]; exact ⟨withCaller_phase _ _ _ _ _ _, (withCaller_cfg _ _ _ _ _).1, rfl⟩
  | step s j f hr ih =>
    obtain ⟨hph, hw, hc⟩ := ih
    by_cases hji : i = j
    · subst hji
      rw [step_actor_self]
      have hcfg := actorStep_cfg P (s.actors i) s.fs.lock.isSome s.fs.dir s.fs.isEmpty f
      have hwc : WithCfg (s.actors i) := ⟨hw, by rw [hc]; exact (withCaller_cfg _ _ _ _ _).2⟩
      have hG' : G → P.finallyAbort = true ∧ PreInTry (s.actors i) := by
        intro g
        have := hG g
        simp only [Program.abortsOnAnyCloseFailure, Bool.and_eq_true] at this
        exact ⟨this.1, reach_preInTry this.2 h0 hr i⟩
      exact ⟨actorStep_Phase hP G ds _ _ _ _ ((reach_Inv hP h0 hr).actors i) hwc hG' hph,
        hcfg.1.trans hw, hcfg.2.trans hc⟩
    · rw [step_actor_other _ _ _ hji]; exact ⟨hph, hw, hc⟩

/-- the call the actor makes at `pc` — the open, a write, a call of close() up to and including
the rename — did not succeed (injected error, `FileLocked`, `ValueError`, `FileNotFoundError`) -/
def Out.isFailure (pc : Pc) (o : Out) : Bool :=
  (match pc with | .start => true | .wr _ => true | .pre _ _ _ => true | .replace => true | _ => false)
    && (match o with | .injected => true | .valueError => true | .exists => true | .noent => true
                     | _ => false)

/-- a failure has been registered: the caller is in its exception handler, or close() is on its
way out (through abort()) with an exception pending, or there never was a handle -/
def Failed (a : Actor) : Prop :=
  a.inHandler = true ∨ a.pc = .rmClose true ∨ a.pc = .fcClose true ∨
    (a.opened = false ∧ a.pc = .done)

@[simp] theorem raise_inHandler (P : Program) (a : Actor) (l : List Op) :
    (raise P a l).inHandler = true := by
  unfold raise
  split
  · assumption
  · simp

@[simp] theorem afterClose_inHandler_of (P : Program) (a : Actor) (p : Bool)
    (h : a.inHandler = true) : (afterClose P a p).inHandler = true := by
  unfold afterClose; split <;> simp [h]

@[simp] theorem unlinkInClose_inHandler_of (P : Program) (a : Actor) (p : Bool)
    (h : a.inHandler = true) : (unlinkInClose P a p).inHandler = true := by
  unfold unlinkInClose
  split
  · exact h
  · exact afterClose_inHandler_of _ _ _ h

@[simp] theorem abortInClose_inHandler_of (P : Program) (a : Actor) (p : Bool)
    (h : a.inHandler = true) : (abortInClose P a p).inHandler = true := by
  unfold abortInClose
  split
  · exact afterClose_inHandler_of _ _ _ h
  · split
    · exact h
    · exact unlinkInClose_inHandler_of _ _ _ h

@[simp] theorem unlinkInAbort_inHandler (P : Program) (a : Actor) :
    (unlinkInAbort P a).inHandler = a.inHandler := by
  unfold unlinkInAbort
  split
  · rfl
  · simp

@[simp] theorem preFail_inHandler_of (P : Program) (a : Actor) (t : Bool)
    (h : a.inHandler = true) : (preFail P a t).inHandler = true := by
  unfold preFail; split
  · exact abortInClose_inHandler_of _ _ _ h
  · simp

theorem Phase.committed_none_of_failed {G : Prop} {ds : List Bytes} {a : Actor} (hl : LInv a)
    (h : Phase G ds a) (hf : Failed a) : a.committed = none := by
  cases h with
  | start _ _ _ _ hc => exact hc
  | writing _ _ _ _ _ _ _ _ hc _ => exact hc
  | closing _ _ _ _ hc => exact hc
  | failedRm _ _ _ hc => exact hc
  | handler _ _ hc _ => exact hc
  | finished hpc hi _ _ _ =>
    rcases hf with hf | hf | hf | ⟨hf, _⟩
    · rw [hi] at hf; simp at hf
    · rw [hpc] at hf; simp at hf
    · rw [hpc] at hf; simp at hf
    · rcases hl with hn | hr
      · exact hn.2.2.2.2.1
      · rw [hr.1.opened] at hf; simp at hf

/-- abort() inside close() with an exception pending keeps the failure registered -/
theorem failed_unlinkInClose (P : Program) (b : Actor) : Failed (unlinkInClose P b true) := by
  unfold unlinkInClose
  split
  · right; left; rfl
  · left; unfold afterClose; simp

theorem failed_abortInClose (P : Program) (b : Actor) : Failed (abortInClose P b true) := by
  unfold abortInClose
  split
  · left; unfold afterClose; simp
  · split
    · right; right; left; rfl
    · exact failed_unlinkInClose P b

theorem failed_preFail (P : Program) (b : Actor) (t : Bool) : Failed (preFail P b t) := by
  unfold preFail
  split
  · exact failed_abortInClose P b
  · left; simp

/-- once registered, a failure stays registered -/
theorem actorStep_Failed {P : Program} {a : Actor} (lt dt em f : Bool) (hf : Failed a) :
    Failed (actorStep P a lt dt em f).1 := by
  rcases hf with hf | hf | hf | ⟨hf1, hf2⟩
  · -- in the handler: `inHandler` is never reset
    left
    cases hpc : a.pc with
    | done => simp [actorStep, hpc, hf]
    | start =>
      simp only [actorStep, hpc]
      rcases acquireStep_shape P a lt dt em f with e | ⟨q, e⟩ | e <;> rw [e] <;> simp [hf]
    | wr d => cases f <;> cases hfo : a.fopen <;> simp [actorStep, hpc, hfo, hf]
    | pre c t rest =>
      cases f <;> cases c <;> cases lt <;> cases hfo : a.fopen <;> simp [actorStep, hpc, hfo, hf]
    | replace =>
      cases f <;> cases lt <;> cases hfa : P.finallyAbort <;> simp [actorStep, hpc, hfa, hf]
    | fcClose pending =>
      cases f <;> cases hx : P.abortCloseInTry <;> simp [actorStep, hpc, hx, hf]
    | rmClose pending => cases f <;> cases lt <;> simp [actorStep, hpc, hf]
    | fcAbort => cases f <;> cases hx : P.abortCloseInTry <;> simp [actorStep, hpc, hx, hf]
    | rmAbort => cases f <;> cases lt <;> simp [actorStep, hpc, hf]
  · -- close() leaving with a pending exception: its unlink, then the exception reaches the caller
    left
    cases f <;> cases lt <;> simp [actorStep, hf, afterClose]
  · -- … or first the file object
    simp only [actorStep, hf]
    split
    · split
      · exact failed_unlinkInClose P _
      · left; simp
    · exact failed_unlinkInClose P _
  · right; right; right
    simp [actorStep, hf2, hf1]

/-- a failing call registers as a failure -/
theorem actorStep_registers {P : Program} {a : Actor} (lt dt em f : Bool) (hl : LInv a)
    (h : Out.isFailure a.pc (actorStep P a lt dt em f).2.2 = true) : Failed (actorStep P a lt dt em f).1 := by
  cases hpc : a.pc with
  | done => simp [Out.isFailure, hpc] at h
  | fcClose p => simp [Out.isFailure, hpc] at h
  | rmClose p => simp [Out.isFailure, hpc] at h
  | fcAbort => simp [Out.isFailure, hpc] at h
  | rmAbort => simp [Out.isFailure, hpc] at h
  | start =>
    have hn := hl.noHandle_of_start hpc
    right; right; right
    have h' : Out.isFailure' (acquireStep P a lt dt em f).2.2 = true := by
      simp only [actorStep, hpc] at h
      revert h
      cases (acquireStep P a lt dt em f).2.2 <;> simp [Out.isFailure, Out.isFailure']
    simp only [actorStep, hpc]
    rw [acquireStep_failure P a lt dt em f h']
    exact ⟨hn.1, rfl⟩
  | wr d =>
    left
    revert h
    cases f <;> cases hfo : a.fopen <;> simp [actorStep, hpc, hfo, Out.isFailure]
  | pre c t rest =>
    revert h
    cases f <;> cases c <;> cases lt <;> cases hfo : a.fopen <;>
      simp [actorStep, hpc, hfo, Out.isFailure] <;> exact failed_preFail P _ t
  | replace =>
    have key : Failed (if P.finallyAbort = true then abortInClose P a true else raise P a a.hC) := by
      split
      · exact failed_abortInClose P a
      · left; simp
    revert h
    cases f <;> cases lt <;> simp [actorStep, hpc, Out.isFailure] <;> exact key

theorem Reach.trans {P : Program} {s0 s1 s2 : State} (h1 : Reach P s0 s1) (h2 : Reach P s1 s2) :
    Reach P s0 s2 := by
  induction h2 with
  | init => exact h1
  | step s i f _ ih => exact Reach.step s i f ih

theorem reach_run (P : Program) (s : State) (sc : Sched) : Reach P s (run P s sc) := by
  induction sc generalizing s with
  | nil => exact Reach.init
  | cons p rest ih =>
    obtain ⟨i, f⟩ := p
    exact Reach.trans (Reach.step s i f Reach.init) (ih _)

theorem Actor.init_fresh (fs pm : Bool) (body hW hC : List Op) (mk : Bool) :
    ({ Actor.init fs pm body hW hC with mkdirFirst := mk }).Fresh :=
  ⟨rfl, rfl, rfl, rfl, rfl, rfl, rfl, Or.inl rfl⟩

theorem Actor.pruner_fresh : Actor.pruner.Fresh := ⟨rfl, rfl, rfl, rfl, rfl, rfl, rfl, Or.inr rfl⟩

theorem State.ofList_initial (tgt : Bool) (as : List Actor) (dir : Bool)
    (h : ∀ a ∈ as, a.Fresh) :
    Initial (State.ofList tgt as dir) := by
  refine ⟨rfl, ?_, fun i => ?_⟩
  · cases tgt <;> simp [State.ofList]
  · simp only [State.ofList]
    by_cases hi : i < as.length
    · have : as.getD i (Actor.init false false [] [] []) = as[i] := by simp [List.getD, hi]
      rw [this]; exact h _ (List.getElem_mem hi)
    · have : as.getD i (Actor.init false false [] [] []) = Actor.init false false [] [] [] := by
        simp [List.getD, List.getElem?_eq_none (Nat.le_of_not_lt hi)]
      rw [this]; exact Actor.init_fresh _ _ _ _ _ false


/-! ## the parent directory: a lock file that exists lives in a directory that exists -/

theorem acquireStep_dirEff (P : Program) (a : Actor) (lt dt em f : Bool) :
    ((acquireStep P a lt dt em f).2.1 = .create → dt = true) ∧
    ((acquireStep P a lt dt em f).2.1 = .rmdir → dt = true ∧ em = true) ∧
    (acquireStep P a lt dt em f).2.1 ≠ .replace ∧ (acquireStep P a lt dt em f).2.1 ≠ .remove := by
  unfold acquireStep
  cases a.acqNow P with
  | init => simp
  | rmdir => cases f <;> cases dt <;> cases em <;> simp
  | mkdir l => cases f <;> cases l <;> simp
  | «open» e r => cases f <;> cases dt <;> cases r <;> cases e <;> cases lt <;> simp

theorem actorStep_dirEff (P : Program) (a : Actor) (lt dt em f : Bool) :
    ((actorStep P a lt dt em f).2.1 = .create → dt = true) ∧
    ((actorStep P a lt dt em f).2.1 = .rmdir → dt = true ∧ em = true) := by
  cases hpc : a.pc with
  | done => simp [actorStep, hpc]
  | start =>
    simp only [actorStep, hpc]
    exact ⟨(acquireStep_dirEff P a lt dt em f).1, (acquireStep_dirEff P a lt dt em f).2.1⟩
  | wr d => cases f <;> cases hfo : a.fopen <;> simp [actorStep, hpc, hfo]
  | pre c t rest =>
    cases f <;> cases c <;> cases lt <;> cases hfo : a.fopen <;> simp [actorStep, hpc, hfo]
  | replace => cases f <;> cases lt <;> cases hfa : P.finallyAbort <;> simp [actorStep, hpc, hfa]
  | fcClose pending => cases f <;> cases hx : P.abortCloseInTry <;> simp [actorStep, hpc, hx]
  | rmClose pending => cases f <;> cases lt <;> simp [actorStep, hpc]
  | fcAbort => cases f <;> cases hx : P.abortCloseInTry <;> simp [actorStep, hpc, hx]
  | rmAbort => cases f <;> cases lt <;> simp [actorStep, hpc]

theorem reach_lock_in_dir {P : Program} {s0 s : State} (h0 : Initial s0) (h : Reach P s0 s) :
    s.fs.lock.isSome = true → s.fs.dir = true := by
  induction h with
  | init => intro hl; rw [h0.lockFree] at hl; simp at hl
  | step s i f _ ih =>
    obtain ⟨hc, hr⟩ := actorStep_dirEff P (s.actors i) s.fs.lock.isSome s.fs.dir s.fs.isEmpty f
    rw [step_fs]
    cases he : (actorStep P (s.actors i) s.fs.lock.isSome s.fs.dir s.fs.isEmpty f).2.1 with
    | none => exact ih
    | create => intro _; exact hc he
    | replace =>
      intro hl
      simp only [applyEff, FS.replace] at hl ⊢
      cases hlk : s.fs.lock with
      | none => rw [hlk] at hl; simp at hl; exact ih (by rw [hlk] at hl; simp at hl)
      | some j => rw [hlk] at hl; simp at hl
    | remove =>
      intro hl
      simp only [applyEff, FS.remove] at hl ⊢
      cases hlk : s.fs.lock with
      | none => rw [hlk] at hl; simp at hl; exact ih (by rw [hlk] at hl; simp at hl)
      | some j => rw [hlk] at hl; simp at hl
    | mkdir => intro _; rfl
    | rmdir =>
      intro hl
      have hem := (hr he).2
      simp only [applyEff, (rmdir_lock s.fs).1] at hl
      simp [FS.isEmpty] at hem
      rw [hem.2] at hl; simp at hl

end Dulwich.Lock
