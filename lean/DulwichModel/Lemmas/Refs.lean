/- Helper lemmas for the ref-container models (C16).  Property theorems live in Props/C16.lean. -/
import DulwichModel.Model.Refs
import DulwichModel.Lemmas.RefFormat

namespace Dulwich.Refs
open Dulwich Dulwich.RefFormat Dulwich.Gen.Refs

/-! ### association-list maps -/

theorem Map.get_del_eq (m : Map) (k : Bytes) : (Map.del m k).get k = none := by
  induction m with
  | nil => rfl
  | cons e r ih =>
    obtain ⟨k', v⟩ := e
    simp only [Map.del]
    split
    · exact ih
    · rename_i h; simp [Map.get, h, ih]

theorem Map.get_del_ne (m : Map) (k n : Bytes) (h : n ≠ k) : (Map.del m k).get n = m.get n := by
  induction m with
  | nil => rfl
  | cons e r ih =>
    obtain ⟨k', v⟩ := e
    simp only [Map.del]
    split
    · rename_i hk; subst hk
      have : ¬ k' = n := fun h' => h h'.symm
      simp [Map.get, this, ih]
    · simp only [Map.get, ih]

theorem Map.get_set_eq (m : Map) (k v : Bytes) : (Map.set m k v).get k = some v := by
  simp [Map.set, Map.get]

theorem Map.get_set_ne (m : Map) (k v n : Bytes) (h : n ≠ k) : (Map.set m k v).get n = m.get n := by
  have : ¬ k = n := fun h' => h h'.symm
  simp [Map.set, Map.get, this, Map.get_del_ne m k n h]

/-! ### values -/

theorem validRefValue_ne_nil {v : Bytes} (h : validRefValue v = true) : v ≠ [] := by
  intro hv; subst hv
  revert h; decide

theorem readRefOf_some {c : Bytes} (h : c ≠ []) (p : Option Val) : readRefOf (some c) p = some c := by
  cases c with
  | nil => exact absurd rfl h
  | cons b r => simp [readRefOf]

theorem readRefOf_none (p : Option Val) : readRefOf none p = p := rfl

/-! ### follow -/

/-- a name whose own value is absent, empty, or a direct (non-symref) value is its own real name -/
theorem follow_direct (read : Name → Option Val) (n : Name)
    (h : ∀ c, read n = some c → ¬ symref.isPrefixOf c = true) :
    ∃ v, follow read n = .ok ([n], v) := by
  unfold follow followAux
  cases hr : read n with
  | none => exact ⟨none, by simp⟩
  | some c =>
    have hc := h c hr
    by_cases he : c.isEmpty
    · exact ⟨none, by simp [he]⟩
    · refine ⟨some c, ?_⟩
      simp only [he, symrefMaxDepth]
      simp [hc]

theorem realname_direct (read : Name → Option Val) (n : Name)
    (h : ∀ c, read n = some c → ¬ symref.isPrefixOf c = true) : realname read n = n := by
  obtain ⟨v, hv⟩ := follow_direct read n h
  simp [realname, hv]

/-- when `follow` ends without a value, the last name of the chain reads as absent (or empty) -/
theorem followAux_none (read : Name → Option Val) : ∀ (fuel : Nat) (n : Name) (acc names : List Name),
    followAux read fuel n acc = .ok (names, none) →
    ∃ r, names.getLast? = some r ∧ (read r = none ∨ read r = some []) := by
  intro fuel
  induction fuel with
  | zero =>
    intro n acc names h
    unfold followAux at h
    cases hr : read n with
    | none =>
      simp only [hr] at h
      injection h with h; injection h with h1 _
      exact ⟨n, by simp [← h1], Or.inl hr⟩
    | some c =>
      simp only [hr] at h
      by_cases he : c.isEmpty
      · simp only [he, if_true] at h
        injection h with h; injection h with h1 _
        refine ⟨n, by simp [← h1], Or.inr ?_⟩
        rw [hr]; simp [List.isEmpty_iff.mp he]
      · simp [he] at h
  | succ fuel ih =>
    intro n acc names h
    unfold followAux at h
    cases hr : read n with
    | none =>
      simp only [hr] at h
      injection h with h; injection h with h1 _
      exact ⟨n, by simp [← h1], Or.inl hr⟩
    | some c =>
      simp only [hr] at h
      by_cases he : c.isEmpty
      · simp only [he, if_true] at h
        injection h with h; injection h with h1 _
        refine ⟨n, by simp [← h1], Or.inr ?_⟩
        rw [hr]; simp [List.isEmpty_iff.mp he]
      · simp only [he] at h
        by_cases hs : symref.isPrefixOf c
        · simp only [hs, if_true] at h
          exact ih _ _ _ h
        · simp [hs] at h

/-! ### paths -/

theorem ancestors_length_lt : ∀ (n p : Bytes), p ∈ ancestors n → p.length < n.length := by
  intro n
  induction n with
  | nil => intro p h; simp [ancestors] at h
  | cons b rest ih =>
    intro p h
    simp only [ancestors] at h
    split at h
    · rename_i hh
      simp only [List.mem_cons, List.mem_map] at h
      rcases h with rfl | ⟨q, hq, rfl⟩
      · cases rest with
        | nil => simp at hh
        | cons c r => simp
      · have := ih q hq; simp; omega
    · simp only [List.mem_map] at h
      obtain ⟨q, hq, rfl⟩ := h
      have := ih q hq; simp; omega

theorem not_mem_ancestors_self (n : Bytes) : n ∉ ancestors n := by
  intro h
  have := ancestors_length_lt n n h
  omega

theorem mem_addDirs (x : Bytes) : ∀ (ps dirs : List Bytes), x ∈ Disk.addDirs dirs ps ↔ x ∈ dirs ∨ x ∈ ps := by
  intro ps
  induction ps with
  | nil => intro dirs; simp [Disk.addDirs]
  | cons p ps ih =>
    intro dirs
    simp only [Disk.addDirs, ih]
    split
    · rename_i hp
      constructor
      · rintro (h | h)
        · exact Or.inl h
        · exact Or.inr (by simp [h])
      · rintro (h | h)
        · exact Or.inl h
        · simp only [List.mem_cons] at h
          rcases h with rfl | h
          · exact Or.inl hp
          · exact Or.inr h
    · simp only [List.mem_append, List.mem_cons, List.not_mem_nil, or_false]
      grind

/-! ### the Disk model -/

/-- well-formedness of a Disk state: no loose ref file is empty -/
def Disk.WF (d : Disk) : Prop := ∀ k v, d.files.get k = some v → v ≠ []

/-- nothing on the file system or in packed-refs stands in the way of writing the loose file `r`:
no directory on the way to it is a loose file or a packed ref, and `r` itself is not a directory -/
def Disk.PathClear (d : Disk) (r : Name) : Prop :=
  (∀ p ∈ ancestors r, d.files.get p = none ∧ d.packed.get p = none) ∧ r ∉ d.dirs

instance (d : Disk) (r : Name) : Decidable (d.PathClear r) := by unfold Disk.PathClear; infer_instance

/-- the raw value of `k` is a symbolic ref -/
def Disk.isSymrefAt (d : Disk) (k : Name) : Bool :=
  match d.readRef k with
  | some c => symref.isPrefixOf c
  | none => false

theorem Disk.readRef_eq (d : Disk) (hwf : d.WF) (n : Name) : d.readRef n = d.origRef n := by
  unfold Disk.readRef Disk.origRef
  cases h : d.readLoose n with
  | none => rfl
  | some c =>
    have : c ≠ [] := by
      unfold Disk.readLoose at h
      split at h
      · exact hwf n c h
      · cases h
    exact readRefOf_some this _

theorem Disk.lockMkdirs_ok (d : Disk) (r : Name) (h : ∀ p ∈ ancestors r, d.files.get p = none) :
    d.lockMkdirs r = .ok { d with dirs := Disk.addDirs d.dirs (ancestors r) } := by
  unfold Disk.lockMkdirs
  have : (ancestors r).any d.isFile = false := by
    rw [List.any_eq_false]
    intro p hp
    simp [Disk.isFile, h p hp]
  simp [this]

theorem Disk.readRef_dirs (d : Disk) (dirs : List Bytes) : ({ d with dirs := dirs } : Disk).readRef = d.readRef := rfl

theorem Disk.readRef_commit (d : Disk) (hwf : d.WF) (r : Name) (v : Val) (hr : checkRefname r = true) (hv : v ≠ []) :
    ({ d with files := d.files.set r v } : Disk).readRef = RefMap.update d.readRef r (some v) := by
  funext n
  unfold RefMap.update
  by_cases hn : n = r
  · subst hn
    simp only [if_true]
    unfold Disk.readRef Disk.readLoose
    simp only [hr, if_true, Map.get_set_eq]
    exact readRefOf_some hv _
  · simp only [hn, if_false]
    unfold Disk.readRef Disk.readLoose
    simp only [Map.get_set_ne _ _ _ _ hn]

theorem Disk.cleanupParents_readRef : ∀ (fuel : Nat) (d : Disk) (n : Bytes),
    (Disk.cleanupParents fuel d n).readRef = d.readRef := by
  intro fuel
  induction fuel with
  | zero => intro d n; rfl
  | succ fuel ih =>
    intro d n
    unfold Disk.cleanupParents
    split
    · rfl
    · split
      · rfl
      · split
        · rw [ih]; rfl
        · rfl

theorem Disk.readRef_remove (d : Disk) (name : Name) :
    (({ d with files := d.files.del name } : Disk).removePacked name).readRef = RefMap.update d.readRef name none := by
  funext n
  unfold RefMap.update Disk.removePacked
  by_cases hn : n = name
  · subst hn
    simp only [if_true]
    split
    · unfold Disk.readRef Disk.readLoose
      simp only [Map.get_del_eq]
      split <;> rfl
    · rename_i hp
      have hp' : d.packed.get n = none := by simpa using hp
      unfold Disk.readRef Disk.readLoose
      simp only [Map.get_del_eq, hp']
      split <;> rfl
  · simp only [hn, if_false]
    split
    · unfold Disk.readRef Disk.readLoose
      simp only [Map.get_del_ne _ _ _ hn]
    · unfold Disk.readRef Disk.readLoose
      simp only [Map.get_del_ne _ _ _ hn]

theorem Disk.readRef_addPacked : ∀ (l : List (Name × Val)) (d : Disk),
    (∀ p ∈ l, d.readRef p.1 = some p.2) → (Disk.addPacked d l).readRef = d.readRef := by
  intro l
  induction l with
  | nil => intro d _; rfl
  | cons e rest ih =>
    intro d h
    obtain ⟨ref, sha⟩ := e
    simp only [Disk.addPacked]
    have hstep : ({ d with files := d.files.del ref, packed := d.packed.set ref sha } : Disk).readRef = d.readRef := by
      funext n
      by_cases hn : n = ref
      · subst hn
        have := h (n, sha) (by simp)
        simp only at this
        rw [this]
        unfold Disk.readRef Disk.readLoose
        simp only [Map.get_del_eq, Map.get_set_eq]
        split <;> rfl
      · unfold Disk.readRef Disk.readLoose
        simp only [Map.get_del_ne _ _ _ hn, Map.get_set_ne _ _ _ _ hn]
    rw [ih _ (by intro p hp; rw [hstep]; exact h p (by simp [hp]))]
    exact hstep

theorem follow_direct_value (read : Name → Option Val) (n : Name) (names : List Name) (sha : Val)
    (h : ∀ c, read n = some c → ¬ symref.isPrefixOf c = true)
    (hf : follow read n = .ok (names, some sha)) : read n = some sha := by
  unfold follow followAux at hf
  cases hr : read n with
  | none => simp [hr] at hf
  | some c =>
    have hc := h c hr
    simp only [hr] at hf
    by_cases he : c.isEmpty
    · simp [he] at hf
    · simp only [he, symrefMaxDepth] at hf
      simp [hc] at hf
      rw [hf.2]

theorem Disk.packSelect_direct (d : Disk) (all : Bool) : ∀ (keys : List Name) (l : List (Name × Val)),
    (∀ k ∈ keys, k ≠ headRef → ∀ c, d.readRef k = some c → ¬ symref.isPrefixOf c = true) →
    Disk.packSelect d all keys = .ok l → ∀ p ∈ l, d.readRef p.1 = some p.2 := by
  intro keys
  induction keys with
  | nil => intro l _ h; simp [Disk.packSelect] at h; subst h; simp
  | cons k rest ih =>
    intro l hk h
    have hrest := fun l' => ih l' (fun k' hk' => hk k' (by simp [hk']))
    unfold Disk.packSelect at h
    split at h
    · exact hrest l h
    · split at h
      · split at h
        · cases h
        · exact hrest l h
        · rename_i names sha hf
          split at h
          · cases h
          · rename_i l' hl'
            injection h with h; subst h
            intro p hp
            simp only [List.mem_cons] at hp
            rcases hp with rfl | hp
            · exact follow_direct_value d.readRef k _ sha (hk k (by simp) ‹_›) hf
            · exact hrest l' hl' p hp
      · exact hrest l h

theorem Disk.packSelect_ok (d : Disk) (all : Bool) : ∀ (keys : List Name),
    (∀ k ∈ keys, k ≠ headRef → ∀ c, d.readRef k = some c → ¬ symref.isPrefixOf c = true) →
    ∃ l, Disk.packSelect d all keys = .ok l := by
  intro keys
  induction keys with
  | nil => intro _; exact ⟨[], rfl⟩
  | cons k rest ih =>
    intro hk
    obtain ⟨l, hl⟩ := ih (fun k' hk' => hk k' (by simp [hk']))
    unfold Disk.packSelect
    split
    · exact ⟨l, hl⟩
    · obtain ⟨v, hv⟩ := follow_direct d.readRef k (hk k (by simp) ‹_›)
      split
      · rw [hv]
        cases v with
        | none => exact ⟨l, hl⟩
        | some sha => simp only [hl]; exact ⟨_, rfl⟩
      · exact ⟨l, hl⟩


/-! ### well-formedness is preserved by every operation -/

theorem Disk.WF_of_files {d d' : Disk} (h : d'.files = d.files) (hwf : d.WF) : d'.WF := by
  intro k v hk; rw [h] at hk; exact hwf k v hk

theorem Disk.WF_set {d : Disk} (hwf : d.WF) (k v : Bytes) (hv : v ≠ []) (dirs : List Bytes) :
    ({ d with files := d.files.set k v, dirs := dirs } : Disk).WF := by
  intro n c hn
  simp only at hn
  by_cases h : n = k
  · subst h; rw [Map.get_set_eq] at hn; injection hn with hn; subst hn; exact hv
  · rw [Map.get_set_ne _ _ _ _ h] at hn; exact hwf n c hn

theorem Disk.WF_del_files {d d' : Disk} (k : Bytes) (h : d'.files = d.files.del k) (hwf : d.WF) : d'.WF := by
  intro n c hn
  rw [h] at hn
  by_cases h : n = k
  · subst h; rw [Map.get_del_eq] at hn; cases hn
  · rw [Map.get_del_ne _ _ _ h] at hn; exact hwf n c hn

theorem Disk.cleanupParents_files : ∀ (fuel : Nat) (d : Disk) (n : Bytes),
    (Disk.cleanupParents fuel d n).files = d.files := by
  intro fuel
  induction fuel with
  | zero => intro d n; rfl
  | succ fuel ih =>
    intro d n
    unfold Disk.cleanupParents
    split
    · rfl
    · split
      · rfl
      · split
        · rw [ih]
        · rfl

theorem Disk.addPacked_WF : ∀ (l : List (Name × Val)) (d : Disk), d.WF → (Disk.addPacked d l).WF := by
  intro l
  induction l with
  | nil => intro d h; exact h
  | cons e rest ih =>
    intro d h
    obtain ⟨ref, sha⟩ := e
    simp only [Disk.addPacked]
    exact ih _ (Disk.WF_del_files ref rfl h)

theorem Disk.lockMkdirs_WF {d d1 : Disk} {r : Name} (h : d.lockMkdirs r = .ok d1) (hwf : d.WF) : d1.WF := by
  unfold Disk.lockMkdirs at h
  split at h
  · cases h
  · injection h with h; subst h; exact hwf

theorem Disk.commitFile_WF {d d2 : Disk} {r : Name} {v : Val} (h : d.commitFile r v = .ok d2) (hv : v ≠ [])
    (hwf : d.WF) : d2.WF := by
  unfold Disk.commitFile at h
  split at h
  · cases h
  · injection h with h; subst h; exact Disk.WF_set hwf _ _ hv _

theorem Disk.setIfEquals_WF (d : Disk) (hwf : d.WF) (n : Name) (old : Option Val) (v : Val)
    (hv : validRefValue v = true) : (d.setIfEquals n old v).2.WF := by
  have hne := validRefValue_ne_nil hv
  unfold Disk.setIfEquals
  dsimp only
  repeat' split
  all_goals first
    | exact hwf
    | exact Disk.lockMkdirs_WF ‹_› hwf
    | exact Disk.commitFile_WF ‹_› hne (Disk.lockMkdirs_WF ‹_› hwf)

theorem Disk.addIfNew_WF (d : Disk) (hwf : d.WF) (n : Name) (v : Val)
    (hv : validRefValue v = true) : (d.addIfNew n v).2.WF := by
  have hne := validRefValue_ne_nil hv
  unfold Disk.addIfNew
  dsimp only
  repeat' split
  all_goals first
    | exact hwf
    | exact Disk.lockMkdirs_WF ‹_› hwf
    | exact Disk.commitFile_WF ‹_› hne (Disk.lockMkdirs_WF ‹_› hwf)

theorem Disk.removeIfEquals_WF (d : Disk) (hwf : d.WF) (n : Name) (old : Option Val) :
    (d.removeIfEquals n old).2.WF := by
  unfold Disk.removeIfEquals
  dsimp only
  repeat' split
  all_goals first
    | exact hwf
    | exact Disk.lockMkdirs_WF ‹_› hwf
    | skip
  all_goals
    apply Disk.WF_of_files (Disk.cleanupParents_files _ _ _)
    unfold Disk.removePacked
    split
    · exact Disk.WF_del_files n rfl (Disk.lockMkdirs_WF ‹_› hwf)
    · exact Disk.WF_del_files n rfl (Disk.lockMkdirs_WF ‹_› hwf)

theorem Disk.setSymbolicRef_WF (d : Disk) (hwf : d.WF) (n t : Name) : (d.setSymbolicRef n t).2.WF := by
  have hne : symref ++ t ≠ [] := by simp [symref]
  unfold Disk.setSymbolicRef
  repeat' split
  all_goals first
    | exact hwf
    | exact Disk.commitFile_WF ‹_› hne hwf

theorem Disk.packRefs_WF (d : Disk) (hwf : d.WF) (all : Bool) : (d.packRefs all).2.WF := by
  unfold Disk.packRefs
  split
  · exact hwf
  · exact Disk.addPacked_WF _ _ hwf


/-! ### Dict -/

def DictWF (m : Map) : Prop := ∀ k v, m.get k = some v → v ≠ []

theorem dict_readRef_eq (m : Map) (hwf : DictWF m) : Dict.readRef m = m.get := by
  funext n
  unfold Dict.readRef
  cases h : m.get n with
  | none => rfl
  | some c => exact readRefOf_some (hwf n c h) _

theorem dict_readRef_set (m : Map) (hwf : DictWF m) (k v : Bytes) (hv : v ≠ []) :
    Dict.readRef (m.set k v) = RefMap.update (Dict.readRef m) k (some v) := by
  funext n
  unfold RefMap.update Dict.readRef
  by_cases hn : n = k
  · subst hn; simp only [Map.get_set_eq, if_true]; exact readRefOf_some hv _
  · simp only [Map.get_set_ne _ _ _ _ hn, hn, if_false]


/-! ### operation sequences -/

/-- the mutating operations of the `RefsContainer` contract (plus packing and re-opening) -/
inductive MOp where
  | setIfEquals (n : Name) (old : Option Val) (new : Val)
  | addIfNew (n : Name) (v : Val)
  | removeIfEquals (n : Name) (old : Option Val)
  | setSymbolicRef (n t : Name)
  | packRefs (all : Bool)
  | reopen

/-- what an operation returns: an exception, `True`/`False`, or nothing -/
abbrev Out := Res (Option Bool)

def Disk.step (d : Disk) : MOp → Out × Disk
  | .setIfEquals n o v => ((d.setIfEquals n o v).1.map some, (d.setIfEquals n o v).2)
  | .addIfNew n v => ((d.addIfNew n v).1.map some, (d.addIfNew n v).2)
  | .removeIfEquals n o => ((d.removeIfEquals n o).1.map some, (d.removeIfEquals n o).2)
  | .setSymbolicRef n t => ((d.setSymbolicRef n t).1.map fun _ => none, (d.setSymbolicRef n t).2)
  | .packRefs all => ((d.packRefs all).1.map fun _ => none, (d.packRefs all).2)
  | .reopen => (.ok none, d)          -- the model keeps no cache: a new container object sees the same state

def Spec.step (m : RefMap) : MOp → Out × RefMap
  | .setIfEquals n o v => (.ok (some (Spec.setIfEquals m n o v).1), (Spec.setIfEquals m n o v).2)
  | .addIfNew n v => ((Spec.addIfNew m n v).1.map some, (Spec.addIfNew m n v).2)
  | .removeIfEquals n o => (.ok (some (Spec.removeIfEquals m n o).1), (Spec.removeIfEquals m n o).2)
  | .setSymbolicRef n t => (.ok none, Spec.setSymbolicRef m n t)
  | .packRefs _ => (.ok none, m)      -- stuttering
  | .reopen => (.ok none, m)          -- stuttering

def Disk.run : Disk → List MOp → List Out × Disk
  | d, [] => ([], d)
  | d, op :: ops => ((d.step op).1 :: ((d.step op).2.run ops).1, ((d.step op).2.run ops).2)

def Spec.run : RefMap → List MOp → List Out × RefMap
  | m, [] => ([], m)
  | m, op :: ops => ((Spec.step m op).1 :: (Spec.run (Spec.step m op).2 ops).1, (Spec.run (Spec.step m op).2 ops).2)

/-- "non-colliding names", on the concrete state an operation starts from — exactly the hypotheses of the
per-operation refinement theorems: names and values the code accepts; nothing (loose file, packed ref,
directory) in the way of the file the operation writes; for `set_symbolic_ref` the parent directory
exists and the name is not in a symref loop; for `pack_refs` no listed ref is a symbolic ref. -/
def Disk.StepOk (d : Disk) : MOp → Prop
  | .setIfEquals n _ v => checkRefname n = true ∧ validRefValue v = true ∧
      checkRefname (realname d.readRef n) = true ∧ d.PathClear (realname d.readRef n)
  | .addIfNew n v => validRefValue v = true ∧
      (match follow d.readRef n with
        | .ok (names, _) => checkRefname ((names.getLast?).getD n) = true ∧ d.PathClear ((names.getLast?).getD n)
        | .error _ => True) ∧
      d.packed.get n = none
  | .removeIfEquals n _ => checkRefname n = true ∧ (∀ p ∈ ancestors n, d.files.get p = none) ∧ n ∉ d.dirs
  | .setSymbolicRef n t => checkRefname n = true ∧ checkRefname t = true ∧ d.lockNoMkdirs n = .ok () ∧
      (match follow d.readRef n with | .ok _ => True | .error _ => False) ∧ n ∉ d.dirs
  | .packRefs _ => ∀ k ∈ d.allKeys, k ≠ headRef → d.isSymrefAt k = false
  | .reopen => True

instance (d : Disk) (op : MOp) : Decidable (d.StepOk op) := by
  cases op <;> unfold Disk.StepOk
  · infer_instance
  · refine @instDecidableAnd _ _ _ (@instDecidableAnd _ _ ?_ _)
    split <;> infer_instance
  · infer_instance
  · refine @instDecidableAnd _ _ _ (@instDecidableAnd _ _ _ (@instDecidableAnd _ _ _ (@instDecidableAnd _ _ ?_ _)))
    split <;> infer_instance
  · infer_instance
  · infer_instance

def Disk.AllOk : Disk → List MOp → Prop
  | _, [] => True
  | d, op :: ops => d.StepOk op ∧ (d.step op).2.AllOk ops

def Disk.decAllOk : ∀ (ops : List MOp) (d : Disk), Decidable (d.AllOk ops)
  | [], _ => isTrue trivial
  | op :: ops, d =>
    have := Disk.decAllOk ops (d.step op).2
    (inferInstance : Decidable (d.StepOk op ∧ (d.step op).2.AllOk ops))

instance (d : Disk) (ops : List MOp) : Decidable (d.AllOk ops) := Disk.decAllOk ops d

end Dulwich.Refs
