/- Helper lemmas for the ref-container models (C16).  Property theorems live in Props/C16.lean. -/
import DulwichModel.Model.Refs
import DulwichModel.Lemmas.RefFormat

namespace Dulwich.Refs
open Dulwich Dulwich.RefFormat Dulwich.Gen.Refs

/-! ### association-list maps -/

theorem Map.get_del_eq (m : Map) (k : Bytes) : (Map.del m k).get k = none := by
  induction m with
  | nil => rfl
  | cons e r ih =>
    obtain ⟨k', v⟩ := e
    simp only [Map.del]
    split
    · exact ih
    · rename_i h; simp [Map.get, h, ih]

theorem Map.get_del_ne (m : Map) (k n : Bytes) (h : n ≠ k) : (Map.del m k).get n = m.get n := by
  induction m with
  | nil => rfl
  | cons e r ih =>
    obtain ⟨k', v⟩ := e
    simp only [Map.del]
    split
    · rename_i hk; subst hk
      have : ¬ k' = n := fun h' => h h'.symm
      simp [Map.get, this, ih]
    · simp only [Map.get, ih]

theorem Map.get_set_eq (m : Map) (k v : Bytes) : (Map.set m k v).get k = some v := by
  simp [Map.set, Map.get]

theorem Map.get_set_ne (m : Map) (k v n : Bytes) (h : n ≠ k) : (Map.set m k v).get n = m.get n := by
  have : ¬ k = n := fun h' => h h'.symm
  simp [Map.set, Map.get, this, Map.get_del_ne m k n h]

/-! ### values -/

theorem validRefValue_ne_nil {v : Bytes} (h : validRefValue v = true) : v ≠ [] := by
  intro hv; subst hv
  revert h; decide

theorem readRefOf_some {c : Bytes} (h : c ≠ []) (p : Option Val) : readRefOf (some c) p = some c := by
  cases c with
  | nil => exact absurd rfl h
  | cons b r => simp [readRefOf]

theorem readRefOf_none (p : Option Val) : readRefOf none p = p := rfl

/-! ### follow -/

/-- a name whose own value is absent, empty, or a direct (non-symref) value is its own real name -/
theorem follow_direct (read : Name → Option Val) (n : Name)
    (h : ∀ c, read n = some c → ¬ symref.isPrefixOf c = true) :
    ∃ v, follow read n = .ok ([n], v) := by
  unfold follow followAux
  cases hr : read n with
  | none => exact ⟨none, by simp⟩
  | some c =>
    have hc := h c hr
    by_cases he : c.isEmpty
    · exact ⟨none, by simp [he]⟩
    · refine ⟨some c, ?_⟩
      simp only [he, symrefMaxDepth]
      simp [hc]

theorem realname_direct (read : Name → Option Val) (n : Name)
    (h : ∀ c, read n = some c → ¬ symref.isPrefixOf c = true) : realname read n = n := by
  obtain ⟨v, hv⟩ := follow_direct read n h
  simp [realname, hv]

/-- when `follow` ends without a value, the last name of the chain reads as absent (or empty) -/
theorem followAux_none (read : Name → Option Val) : ∀ (fuel : Nat) (n : Name) (acc names : List Name),
    followAux read fuel n acc = .ok (names, none) →
    ∃ r, names.getLast? = some r ∧ (read r = none ∨ read r = some []) := by
  intro fuel
  induction fuel with
  | zero =>
    intro n acc names h
    unfold followAux at h
    cases hr : read n with
    | none =>
      simp only [hr] at h
      injection h with h; injection h with h1 _
      exact ⟨n, by simp [← h1], Or.inl hr⟩
    | some c =>
      simp only [hr] at h
      by_cases he : c.isEmpty
      · simp only [he, if_true] at h
        injection h with h; injection h with h1 _
        refine ⟨n, by simp [← h1], Or.inr ?_⟩
        rw [hr]; simp [List.isEmpty_iff.mp he]
      · simp [he] at h
  | succ fuel ih =>
    intro n acc names h
    unfold followAux at h
    cases hr : read n with
    | none =>
      simp only [hr] at h
      injection h with h; injection h with h1 _
      exact ⟨n, by simp [← h1], Or.inl hr⟩
    | some c =>
      simp only [hr] at h
      by_cases he : c.isEmpty
      · simp only [he, if_true] at h
        injection h with h; injection h with h1 _
        refine ⟨n, by simp [← h1], Or.inr ?_⟩
        rw [hr]; simp [List.isEmpty_iff.mp he]
      · simp only [he] at h
        by_cases hs : symref.isPrefixOf c
        · simp only [hs, if_true] at h
          exact ih _ _ _ h
        · simp [hs] at h

/-- `names = [n₀, …, n_k]` is a chain of symbolic refs ending in the direct value `v`: every name but the
last reads as `ref: <next name>`, the last reads as `v` (non-empty, not a symref) -/
def IsChain (read : Name → Option Val) : List Name → Val → Prop
  | [], _ => False
  | [n], v => read n = some v ∧ v ≠ [] ∧ symref.isPrefixOf v = false
  | n :: n' :: rest, v => read n = some (symref ++ n') ∧ IsChain read (n' :: rest) v

theorem followAux_chain (read : Name → Option Val) (v : Val) : ∀ (rest : List Name) (fuel : Nat) (n : Name)
    (acc : List Name), IsChain read (n :: rest) v →
    followAux read fuel n acc =
      if rest.length < fuel then .ok (acc ++ n :: rest, some v) else .error .symrefLoop := by
  intro rest
  induction rest with
  | nil =>
    intro fuel n acc h
    obtain ⟨hr, hne, hns⟩ := h
    have he : v.isEmpty = false := by cases v with | nil => exact absurd rfl hne | cons _ _ => rfl
    unfold followAux
    simp only [hr, he, Bool.false_eq_true, if_false, List.length_nil]
    cases fuel with
    | zero => simp
    | succ f => simp [hns]
  | cons n' rest ih =>
    intro fuel n acc h
    obtain ⟨hr, hrest⟩ := h
    have hsym : symref.isPrefixOf (symref ++ n') = true := List.isPrefixOf_iff_prefix.mpr ⟨n', rfl⟩
    have hne : (symref ++ n').isEmpty = false := by simp [symref]
    unfold followAux
    simp only [hr, hne, Bool.false_eq_true, if_false, List.length_cons]
    cases fuel with
    | zero => simp
    | succ f =>
      have hdrop : (symref ++ n').drop symref.length = n' := by simp
      simp only [hsym, if_true, hdrop]
      rw [ih f n' (acc ++ [n]) hrest]
      have e : acc ++ [n] ++ n' :: rest = acc ++ n :: n' :: rest := by simp
      rw [e]
      by_cases hlt : rest.length < f
      · have : rest.length + 1 < f + 1 := by omega
        simp [hlt, this]
      · have : ¬ rest.length + 1 < f + 1 := by omega
        simp [hlt, this]


/-! ### paths -/

theorem ancestors_length_lt : ∀ (n p : Bytes), p ∈ ancestors n → p.length < n.length := by
  intro n
  induction n with
  | nil => intro p h; simp [ancestors] at h
  | cons b rest ih =>
    intro p h
    simp only [ancestors] at h
    split at h
    · rename_i hh
      simp only [List.mem_cons, List.mem_map] at h
      rcases h with rfl | ⟨q, hq, rfl⟩
      · cases rest with
        | nil => simp at hh
        | cons c r => simp
      · have := ih q hq; simp; omega
    · simp only [List.mem_map] at h
      obtain ⟨q, hq, rfl⟩ := h
      have := ih q hq; simp; omega

theorem not_mem_ancestors_self (n : Bytes) : n ∉ ancestors n := by
  intro h
  have := ancestors_length_lt n n h
  omega

/-- `p` is a directory on the way to `n` exactly when `p` is non-empty and `p ++ "/"` is a prefix of `n` -/
theorem mem_ancestors_iff : ∀ (n p : Bytes), p ∈ ancestors n ↔ p ≠ [] ∧ (p ++ [47]) <+: n := by
  intro n
  induction n with
  | nil =>
    intro p
    simp only [ancestors, List.not_mem_nil, false_iff, not_and]
    intro _ h
    obtain ⟨t, ht⟩ := h
    cases p <;> simp at ht
  | cons b rest ih =>
    intro p
    have hmem : p ∈ ancestors (b :: rest) ↔ (rest.head? = some 47 ∧ p = [b]) ∨ ∃ q ∈ ancestors rest, p = b :: q := by
      simp only [ancestors]
      split
      · rename_i hh
        simp only [List.mem_cons, List.mem_map, hh, true_and]
        constructor
        · rintro (h | ⟨q, hq, rfl⟩)
          · exact Or.inl h
          · exact Or.inr ⟨q, hq, rfl⟩
        · rintro (h | ⟨q, hq, rfl⟩)
          · exact Or.inl h
          · exact Or.inr ⟨q, hq, rfl⟩
      · rename_i hh
        simp only [List.mem_map, hh, false_and, false_or]
        constructor
        · rintro ⟨q, hq, rfl⟩; exact ⟨q, hq, rfl⟩
        · rintro ⟨q, hq, rfl⟩; exact ⟨q, hq, rfl⟩
    rw [hmem]
    constructor
    · rintro (⟨hh, rfl⟩ | ⟨q, hq, rfl⟩)
      · refine ⟨by simp, ?_⟩
        cases rest with
        | nil => simp at hh
        | cons c r =>
          simp only [List.head?_cons, Option.some.injEq] at hh
          subst hh
          exact ⟨r, by simp⟩
      · obtain ⟨hq0, t, ht⟩ := (ih q).mp hq
        exact ⟨by simp, t, by simp [← ht]⟩
    · rintro ⟨hp, t, ht⟩
      cases p with
      | nil => exact absurd rfl hp
      | cons c q =>
        simp only [List.cons_append, List.cons.injEq] at ht
        obtain ⟨rfl, hrest⟩ := ht
        cases q with
        | nil =>
          left
          simp only [List.nil_append] at hrest
          exact ⟨by simp [← hrest], rfl⟩
        | cons e q' =>
          right
          exact ⟨e :: q', (ih (e :: q')).mpr ⟨by simp, t, hrest⟩, rfl⟩


theorem mem_addDirs (x : Bytes) : ∀ (ps dirs : List Bytes), x ∈ Disk.addDirs dirs ps ↔ x ∈ dirs ∨ x ∈ ps := by
  intro ps
  induction ps with
  | nil => intro dirs; simp [Disk.addDirs]
  | cons p ps ih =>
    intro dirs
    simp only [Disk.addDirs, ih]
    split
    · rename_i hp
      constructor
      · rintro (h | h)
        · exact Or.inl h
        · exact Or.inr (by simp [h])
      · rintro (h | h)
        · exact Or.inl h
        · simp only [List.mem_cons] at h
          rcases h with rfl | h
          · exact Or.inl hp
          · exact Or.inr h
    · simp only [List.mem_append, List.mem_cons, List.not_mem_nil, or_false]
      grind


/-! ### the Disk model -/

/-- well-formedness of a Disk state: no loose ref file and no packed value is empty -/
def Disk.WF (d : Disk) : Prop :=
  (∀ k v, d.files.get k = some v → v ≠ []) ∧ (∀ k v, d.packed.get k = some v → v ≠ [])

/-- no stored ref — loose file or packed entry — is a directory on the way to `r` or lives below `r` -/
def Disk.NoCollision (d : Disk) (r : Name) : Prop :=
  (∀ p ∈ ancestors r, d.files.get p = none ∧ d.packed.get p = none) ∧
  (∀ k ∈ d.files.keys, r ∉ ancestors k) ∧ (∀ k ∈ d.packed.keys, r ∉ ancestors k)

instance (d : Disk) (r : Name) : Decidable (d.NoCollision r) := by unfold Disk.NoCollision; infer_instance

theorem Disk.readRef_eq (d : Disk) (hwf : d.WF) (n : Name) : d.readRef n = d.origRef n := by
  unfold Disk.readRef Disk.origRef
  cases h : d.readLoose n with
  | none => rfl
  | some c =>
    have : c ≠ [] := by
      unfold Disk.readLoose at h
      split at h
      · exact hwf.1 n c h
      · cases h
    exact readRefOf_some this _

theorem Disk.lockMkdirs_ok (d : Disk) (r : Name) (h : ∀ p ∈ ancestors r, d.files.get p = none) :
    d.lockMkdirs r = .ok { d with dirs := Disk.addDirs d.dirs (ancestors r) } := by
  unfold Disk.lockMkdirs
  have : (ancestors r).any d.isFile = false := by
    rw [List.any_eq_false]
    intro p hp
    simp [Disk.isFile, h p hp]
  simp [this]

theorem Disk.packedConflict_false (d : Disk) (r : Name) (h : d.NoCollision r) : d.packedConflict r = false := by
  unfold Disk.packedConflict
  rw [Bool.or_eq_false_iff, List.any_eq_false, List.any_eq_false]
  constructor
  · intro p hp; simp [(h.1 p hp).2]
  · intro k hk; simp [h.2.2 k hk]

theorem Disk.readRef_dirs (d : Disk) (dirs : List Bytes) : ({ d with dirs := dirs } : Disk).readRef = d.readRef := rfl

theorem Disk.pruneEmpty_readRef (d : Disk) (n : Name) : (d.pruneEmpty n).readRef = d.readRef := rfl

/-- after pruning, `r` is not a directory — provided no loose file lives below it -/
theorem Disk.not_mem_pruneEmpty (d : Disk) (r : Name) (h : ∀ k ∈ d.files.keys, r ∉ ancestors k) :
    r ∉ (d.pruneEmpty r).dirs := by
  unfold Disk.pruneEmpty
  simp only [List.mem_filter, not_and]
  intro _
  have : d.files.keys.all (fun f => !decide (r ∈ ancestors f)) = true := by
    rw [List.all_eq_true]; intro f hf; simp [h f hf]
  simp [this]

theorem Disk.readRef_commit (d : Disk) (hwf : d.WF) (r : Name) (v : Val) (hr : checkRefname r = true) (hv : v ≠ []) :
    ({ d with files := d.files.set r v } : Disk).readRef = RefMap.update d.readRef r (some v) := by
  funext n
  unfold RefMap.update
  by_cases hn : n = r
  · subst hn
    simp only [if_true]
    unfold Disk.readRef Disk.readLoose
    simp only [hr, if_true, Map.get_set_eq]
    exact readRefOf_some hv _
  · simp only [hn, if_false]
    unfold Disk.readRef Disk.readLoose
    simp only [Map.get_set_ne _ _ _ _ hn]

/-- lock + prune + rename, in one: the write of `r` goes through when nothing collides -/
theorem Disk.write_ok (d : Disk) (hwf : d.WF) (r : Name) (v : Val) (hr : checkRefname r = true) (hv : v ≠ [])
    (hbelow : ∀ k ∈ d.files.keys, r ∉ ancestors k) (dirs : List Bytes) :
    ∃ d2, (({ d with dirs := dirs } : Disk).pruneEmpty r).commitFile r v = .ok d2 ∧
      d2.readRef = RefMap.update d.readRef r (some v) := by
  have hnd := Disk.not_mem_pruneEmpty { d with dirs := dirs } r hbelow
  have hc : (({ d with dirs := dirs } : Disk).pruneEmpty r).commitFile r v =
      .ok { (({ d with dirs := dirs } : Disk).pruneEmpty r) with files := d.files.set r v } := by
    simp only [Disk.commitFile, hnd, if_false]; rfl
  exact ⟨_, hc, Disk.readRef_commit d hwf r v hr hv⟩

theorem Disk.cleanupParents_readRef : ∀ (fuel : Nat) (d : Disk) (n : Bytes),
    (Disk.cleanupParents fuel d n).readRef = d.readRef := by
  intro fuel
  induction fuel with
  | zero => intro d n; rfl
  | succ fuel ih =>
    intro d n
    unfold Disk.cleanupParents
    split
    · rfl
    · split
      · rfl
      · split
        · rw [ih]; rfl
        · rfl

theorem Disk.readRef_remove (d : Disk) (name : Name) :
    (({ d with files := d.files.del name } : Disk).removePacked name).readRef = RefMap.update d.readRef name none := by
  funext n
  unfold RefMap.update Disk.removePacked
  by_cases hn : n = name
  · subst hn
    simp only [if_true]
    split
    · unfold Disk.readRef Disk.readLoose
      simp only [Map.get_del_eq]
      split <;> rfl
    · rename_i hp
      have hp' : d.packed.get n = none := by simpa using hp
      unfold Disk.readRef Disk.readLoose
      simp only [Map.get_del_eq, hp']
      split <;> rfl
  · simp only [hn, if_false]
    split
    · unfold Disk.readRef Disk.readLoose
      simp only [Map.get_del_ne _ _ _ hn]
    · unfold Disk.readRef Disk.readLoose
      simp only [Map.get_del_ne _ _ _ hn]

theorem Disk.readRef_addPacked : ∀ (l : List (Name × Val)) (d : Disk),
    (∀ p ∈ l, d.readRef p.1 = some p.2) → (Disk.addPacked d l).readRef = d.readRef := by
  intro l
  induction l with
  | nil => intro d _; rfl
  | cons e rest ih =>
    intro d h
    obtain ⟨ref, sha⟩ := e
    simp only [Disk.addPacked]
    have hstep : ({ d with files := d.filesAfterPrune ref sha, peeled := d.peeledAfter ref sha,
                           packed := d.packed.set ref sha } : Disk).readRef = d.readRef := by
      funext n
      by_cases hn : n = ref
      · subst hn
        have hval := h (n, sha) (by simp)
        simp only at hval
        rw [hval]
        unfold Disk.filesAfterPrune
        by_cases hl : (d.readLoose n == some sha) = true
        · simp only [hl, if_true]
          unfold Disk.readRef Disk.readLoose
          simp only [Map.get_del_eq, Map.get_set_eq]
          split <;> rfl
        · simp only [hl, Bool.false_eq_true, if_false]
          have hrl : ({ d with files := d.files, peeled := d.peeledAfter n sha,
                                packed := d.packed.set n sha } : Disk).readLoose n = d.readLoose n := rfl
          unfold Disk.readRef
          rw [hrl]
          simp only [Map.get_set_eq]
          -- the loose value is absent, empty, or (being non-empty) the value `read_ref` gave: `sha` itself
          unfold Disk.readRef at hval
          cases hlo : d.readLoose n with
          | none => rfl
          | some c =>
            cases c with
            | nil => rfl
            | cons b r =>
              rw [hlo] at hval
              simp only [readRefOf, List.isEmpty_cons, Bool.false_eq_true, if_false] at hval ⊢
              rw [hlo] at hl
              injection hval with hval
              subst hval
              simp at hl
      · have hf : (d.filesAfterPrune ref sha).get n = d.files.get n := by
          unfold Disk.filesAfterPrune
          split
          · exact Map.get_del_ne _ _ _ hn
          · rfl
        unfold Disk.readRef Disk.readLoose
        simp only [hf, Map.get_set_ne _ _ _ _ hn]
    rw [ih _ (by intro p hp; rw [hstep]; exact h p (by simp [hp]))]
    exact hstep

theorem Disk.packSelect_direct (d : Disk) (all : Bool) : ∀ (keys : List Name),
    ∀ p ∈ Disk.packSelect d all keys, d.readRef p.1 = some p.2 ∧ p.2 ≠ [] ∧ p.1 ∈ keys ∧ p.1 ≠ headRef ∧
      symref.isPrefixOf p.2 = false := by
  intro keys
  induction keys with
  | nil => intro p hp; simp [Disk.packSelect] at hp
  | cons k rest ih =>
    intro p hp
    have hrest : p ∈ Disk.packSelect d all rest → d.readRef p.1 = some p.2 ∧ p.2 ≠ [] ∧ p.1 ∈ k :: rest ∧
        p.1 ≠ headRef ∧ symref.isPrefixOf p.2 = false := fun h =>
      ⟨(ih p h).1, (ih p h).2.1, List.mem_cons_of_mem _ (ih p h).2.2.1, (ih p h).2.2.2⟩
    unfold Disk.packSelect at hp
    split at hp
    · exact hrest hp
    · rename_i hkh
      split at hp
      · split at hp
        · exact hrest hp
        · rename_i c hc
          split at hp
          · exact hrest hp
          · rename_i hcc
            simp only [Bool.or_eq_true, not_or, Bool.not_eq_true] at hcc
            simp only [List.mem_cons] at hp
            rcases hp with rfl | hp
            · refine ⟨hc, ?_, by simp, hkh, hcc.2⟩
              intro h0
              have h0' : c = [] := h0
              rw [h0'] at hcc; simp at hcc
            · exact hrest hp
      · exact hrest hp


/-! ### well-formedness is preserved by every operation -/

theorem Disk.WF_of_eq {d d' : Disk} (hf : d'.files = d.files) (hp : d'.packed = d.packed) (hwf : d.WF) : d'.WF := by
  constructor
  · intro k v hk; rw [hf] at hk; exact hwf.1 k v hk
  · intro k v hk; rw [hp] at hk; exact hwf.2 k v hk

theorem Map.nonempty_set {m : Map} (h : ∀ k v, m.get k = some v → v ≠ []) (k v : Bytes) (hv : v ≠ []) :
    ∀ n c, (m.set k v).get n = some c → c ≠ [] := by
  intro n c hn
  by_cases hk : n = k
  · subst hk; rw [Map.get_set_eq] at hn; injection hn with hn; subst hn; exact hv
  · rw [Map.get_set_ne _ _ _ _ hk] at hn; exact h n c hn

theorem Map.nonempty_del {m : Map} (h : ∀ k v, m.get k = some v → v ≠ []) (k : Bytes) :
    ∀ n c, (m.del k).get n = some c → c ≠ [] := by
  intro n c hn
  by_cases hk : n = k
  · subst hk; rw [Map.get_del_eq] at hn; cases hn
  · rw [Map.get_del_ne _ _ _ hk] at hn; exact h n c hn

theorem Disk.cleanupParents_files : ∀ (fuel : Nat) (d : Disk) (n : Bytes),
    (Disk.cleanupParents fuel d n).files = d.files := by
  intro fuel
  induction fuel with
  | zero => intro d n; rfl
  | succ fuel ih =>
    intro d n
    unfold Disk.cleanupParents
    split
    · rfl
    · split
      · rfl
      · split
        · rw [ih]
        · rfl

theorem Disk.cleanupParents_packed : ∀ (fuel : Nat) (d : Disk) (n : Bytes),
    (Disk.cleanupParents fuel d n).packed = d.packed := by
  intro fuel
  induction fuel with
  | zero => intro d n; rfl
  | succ fuel ih =>
    intro d n
    unfold Disk.cleanupParents
    split
    · rfl
    · split
      · rfl
      · split
        · rw [ih]
        · rfl

theorem Disk.cleanupParents_dirs : ∀ (fuel : Nat) (d : Disk) (n : Bytes),
    ∀ x ∈ (Disk.cleanupParents fuel d n).dirs, x ∈ d.dirs := by
  intro fuel
  induction fuel with
  | zero => intro d n x hx; exact hx
  | succ fuel ih =>
    intro d n x hx
    unfold Disk.cleanupParents at hx
    split at hx
    · exact hx
    · split at hx
      · exact hx
      · split at hx
        · have := ih _ _ x hx
          simp only [List.mem_filter] at this
          exact this.1
        · exact hx

theorem Disk.lockMkdirs_WF {d d1 : Disk} {r : Name} (h : d.lockMkdirs r = .ok d1) (hwf : d.WF) : d1.WF := by
  unfold Disk.lockMkdirs at h
  split at h
  · cases h
  · injection h with h; subst h; exact hwf

theorem Disk.commitFile_WF {d d2 : Disk} {r : Name} {v : Val} (h : d.commitFile r v = .ok d2) (hv : v ≠ [])
    (hwf : d.WF) : d2.WF := by
  unfold Disk.commitFile at h
  split at h
  · cases h
  · injection h with h; subst h
    exact ⟨Map.nonempty_set hwf.1 _ _ hv, hwf.2⟩

theorem Disk.pruneEmpty_WF {d : Disk} (r : Name) (hwf : d.WF) : (d.pruneEmpty r).WF := hwf

theorem Disk.removed_WF {d : Disk} (n : Name) (hwf : d.WF) :
    (({ d with files := d.files.del n } : Disk).removePacked n).WF := by
  unfold Disk.removePacked
  split
  · exact ⟨Map.nonempty_del hwf.1 n, Map.nonempty_del hwf.2 n⟩
  · exact ⟨Map.nonempty_del hwf.1 n, hwf.2⟩

theorem Disk.addPacked_WF : ∀ (l : List (Name × Val)) (d : Disk), d.WF → (∀ p ∈ l, p.2 ≠ []) →
    (Disk.addPacked d l).WF := by
  intro l
  induction l with
  | nil => intro d h _; exact h
  | cons e rest ih =>
    intro d h hl
    obtain ⟨ref, sha⟩ := e
    simp only [Disk.addPacked]
    refine ih _ ⟨?_, Map.nonempty_set h.2 ref sha (hl (ref, sha) (by simp))⟩ (fun p hp => hl p (by simp [hp]))
    unfold Disk.filesAfterPrune
    split
    · exact Map.nonempty_del h.1 ref
    · exact h.1

theorem Disk.setIfEquals_WF (d : Disk) (hwf : d.WF) (n : Name) (old : Option Val) (v : Val)
    (hv : validRefValue v = true) : (d.setIfEquals n old v).2.WF := by
  have hne := validRefValue_ne_nil hv
  unfold Disk.setIfEquals
  dsimp only
  repeat' split
  all_goals first
    | exact hwf
    | exact Disk.lockMkdirs_WF ‹_› hwf
    | exact Disk.pruneEmpty_WF _ (Disk.lockMkdirs_WF ‹_› hwf)
    | exact Disk.commitFile_WF ‹_› hne (Disk.pruneEmpty_WF _ (Disk.lockMkdirs_WF ‹_› hwf))

theorem Disk.addIfNew_WF (d : Disk) (hwf : d.WF) (n : Name) (v : Val)
    (hv : validRefValue v = true) : (d.addIfNew n v).2.WF := by
  have hne := validRefValue_ne_nil hv
  unfold Disk.addIfNew
  dsimp only
  repeat' split
  all_goals first
    | exact hwf
    | exact Disk.lockMkdirs_WF ‹_› hwf
    | exact Disk.pruneEmpty_WF _ (Disk.lockMkdirs_WF ‹_› hwf)
    | exact Disk.commitFile_WF ‹_› hne (Disk.pruneEmpty_WF _ (Disk.lockMkdirs_WF ‹_› hwf))

theorem Disk.removeIfEquals_WF (d : Disk) (hwf : d.WF) (n : Name) (old : Option Val) :
    (d.removeIfEquals n old).2.WF := by
  unfold Disk.removeIfEquals
  dsimp only
  repeat' split
  all_goals first
    | exact hwf
    | exact Disk.lockMkdirs_WF ‹_› hwf
    | skip
  all_goals
    apply Disk.WF_of_eq (Disk.cleanupParents_files _ _ _) (Disk.cleanupParents_packed _ _ _)
    first
      | exact Disk.pruneEmpty_WF _ (Disk.removed_WF n (Disk.lockMkdirs_WF ‹_› hwf))
      | exact Disk.removed_WF n (Disk.lockMkdirs_WF ‹_› hwf)

theorem Disk.setSymbolicRef_WF (d : Disk) (hwf : d.WF) (n t : Name) : (d.setSymbolicRef n t).2.WF := by
  have hne : symref ++ t ≠ [] := by simp [symref]
  unfold Disk.setSymbolicRef
  repeat' split
  all_goals first
    | exact hwf
    | exact Disk.pruneEmpty_WF _ (Disk.lockMkdirs_WF ‹_› hwf)
    | exact Disk.commitFile_WF ‹_› hne (Disk.pruneEmpty_WF _ (Disk.lockMkdirs_WF ‹_› hwf))

theorem Disk.packRefs_WF (d : Disk) (hwf : d.WF) (all : Bool) : (d.packRefs all).2.WF := by
  unfold Disk.packRefs
  exact Disk.addPacked_WF _ _ hwf (fun p hp => (Disk.packSelect_direct d all _ p hp).2.1)


/-! ### Dict -/

def DictWF (m : Map) : Prop := ∀ k v, m.get k = some v → v ≠ []

theorem dict_readRef_eq (m : Map) (hwf : DictWF m) : Dict.readRef m = m.get := by
  funext n
  unfold Dict.readRef
  cases h : m.get n with
  | none => rfl
  | some c => exact readRefOf_some (hwf n c h) _

theorem dict_readRef_set (m : Map) (hwf : DictWF m) (k v : Bytes) (hv : v ≠ []) :
    Dict.readRef (m.set k v) = RefMap.update (Dict.readRef m) k (some v) := by
  funext n
  unfold RefMap.update Dict.readRef
  by_cases hn : n = k
  · subst hn; simp only [Map.get_set_eq, if_true]; exact readRefOf_some hv _
  · simp only [Map.get_set_ne _ _ _ _ hn, hn, if_false]


/-! ### operation sequences -/

/-- the mutating operations of the `RefsContainer` contract (plus packing and re-opening) -/
inductive MOp where
  | setIfEquals (n : Name) (old : Option Val) (new : Val)
  | addIfNew (n : Name) (v : Val)
  | removeIfEquals (n : Name) (old : Option Val)
  | setSymbolicRef (n t : Name)
  | packRefs (all : Bool)
  | reopen

/-- what an operation returns: an exception, `True`/`False`, or nothing -/
abbrev Out := Res (Option Bool)

def Disk.step (d : Disk) : MOp → Out × Disk
  | .setIfEquals n o v => ((d.setIfEquals n o v).1.map some, (d.setIfEquals n o v).2)
  | .addIfNew n v => ((d.addIfNew n v).1.map some, (d.addIfNew n v).2)
  | .removeIfEquals n o => ((d.removeIfEquals n o).1.map some, (d.removeIfEquals n o).2)
  | .setSymbolicRef n t => ((d.setSymbolicRef n t).1.map fun _ => none, (d.setSymbolicRef n t).2)
  | .packRefs all => ((d.packRefs all).1.map fun _ => none, (d.packRefs all).2)
  | .reopen => (.ok none, d)          -- the model keeps no cache: a new container object sees the same state

def Spec.step (m : RefMap) : MOp → Out × RefMap
  | .setIfEquals n o v => (.ok (some (Spec.setIfEquals m n o v).1), (Spec.setIfEquals m n o v).2)
  | .addIfNew n v => ((Spec.addIfNew m n v).1.map some, (Spec.addIfNew m n v).2)
  | .removeIfEquals n o => (.ok (some (Spec.removeIfEquals m n o).1), (Spec.removeIfEquals m n o).2)
  | .setSymbolicRef n t => (.ok none, Spec.setSymbolicRef m n t)
  | .packRefs _ => (.ok none, m)      -- stuttering
  | .reopen => (.ok none, m)          -- stuttering

def Disk.run : Disk → List MOp → List Out × Disk
  | d, [] => ([], d)
  | d, op :: ops => ((d.step op).1 :: ((d.step op).2.run ops).1, ((d.step op).2.run ops).2)

def Spec.run : RefMap → List MOp → List Out × RefMap
  | m, [] => ([], m)
  | m, op :: ops => ((Spec.step m op).1 :: (Spec.run (Spec.step m op).2 ops).1, (Spec.run (Spec.step m op).2 ops).2)

/-- "non-colliding names", on the concrete state an operation starts from — the hypotheses of the
per-operation refinement theorems: names and values the code accepts, and no stored ref (loose or
packed) on the way to, or below, the ref the operation writes.  `pack_refs` and re-opening need nothing. -/
def Disk.StepOk (d : Disk) : MOp → Prop
  | .setIfEquals n _ v => checkRefname n = true ∧ validRefValue v = true ∧
      checkRefname (realname d.readRef n) = true ∧ d.NoCollision (realname d.readRef n)
  | .addIfNew n v => validRefValue v = true ∧
      (match follow d.readRef n with
        | .ok (names, _) => checkRefname ((names.getLast?).getD n) = true ∧ d.NoCollision ((names.getLast?).getD n)
        | .error _ => True)
  | .removeIfEquals n _ => checkRefname n = true ∧ (∀ p ∈ ancestors n, d.files.get p = none)
  | .setSymbolicRef n t => checkRefname n = true ∧ checkRefname t = true ∧ d.NoCollision n
  | .packRefs _ => True
  | .reopen => True

instance (d : Disk) (op : MOp) : Decidable (d.StepOk op) := by
  cases op <;> unfold Disk.StepOk
  · infer_instance
  · refine @instDecidableAnd _ _ _ ?_
    split <;> infer_instance
  · infer_instance
  · infer_instance
  · infer_instance
  · infer_instance

def Disk.AllOk : Disk → List MOp → Prop
  | _, [] => True
  | d, op :: ops => d.StepOk op ∧ (d.step op).2.AllOk ops

def Disk.decAllOk : ∀ (ops : List MOp) (d : Disk), Decidable (d.AllOk ops)
  | [], _ => isTrue trivial
  | op :: ops, d =>
    have := Disk.decAllOk ops (d.step op).2
    (inferInstance : Decidable (d.StepOk op ∧ (d.step op).2.AllOk ops))

instance (d : Disk) (ops : List MOp) : Decidable (d.AllOk ops) := Disk.decAllOk ops d


/-! ### the invariant over a universe of non-colliding names -/

/-- the directories `git init` creates below the git dir -/
def baseDirs : List Bytes := [b!"refs", b!"refs/heads", b!"refs/tags"]

/-- no name of the universe is a directory on the way to another one -/
def NonColliding (U : List Name) : Prop := ∀ a ∈ U, ∀ b ∈ U, a ∉ ancestors b

def MOp.names : MOp → List Name
  | .setIfEquals n _ _ => [n]
  | .addIfNew n _ => [n]
  | .removeIfEquals n _ => [n]
  | .setSymbolicRef n t => [n, t]
  | .packRefs _ => []
  | .reopen => []

/-- values written by `set_if_equals`/`add_if_new` are hex shas (symbolic refs are made by `set_symbolic_ref`) -/
def MOp.ValuesOk : MOp → Prop
  | .setIfEquals _ _ v => validHexSha v = true
  | .addIfNew _ v => validHexSha v = true
  | _ => True

theorem hex_not_symref {v : Val} (h : validHexSha v = true) : symref.isPrefixOf v = false := by
  unfold validHexSha at h
  simp only [Bool.and_eq_true, List.all_eq_true] at h
  cases v with
  | nil => exact absurd h.1 (by decide)
  | cons b r =>
    have hb := h.2 b (by simp)
    have : b ≠ 114 := by intro hh; subst hh; revert hb; decide
    simp [symref, List.isPrefixOf, this.symm]

theorem hex_ne_nil {v : Val} (h : validHexSha v = true) : v ≠ [] :=
  validRefValue_ne_nil (by simp [validRefValue, h])

/-- a stored loose value: a hex sha, or a symbolic ref to a name of the universe -/
def ValOk (U : List Name) (v : Val) : Prop := validHexSha v = true ∨ ∃ t ∈ U, v = symref ++ t

theorem ValOk.ne_nil {U : List Name} {v : Val} (h : ValOk U v) : v ≠ [] := by
  rcases h with h | ⟨t, _, rfl⟩
  · exact hex_ne_nil h
  · simp [symref]

theorem ValOk.hex_of_not_symref {U : List Name} {v : Val} (h : ValOk U v) (hs : symref.isPrefixOf v = false) :
    validHexSha v = true := by
  rcases h with h | ⟨t, _, rfl⟩
  · exact h
  · exfalso
    have : symref.isPrefixOf (symref ++ t) = true := List.isPrefixOf_iff_prefix.mpr ⟨t, rfl⟩
    rw [this] at hs; cases hs

theorem ValOk.target {U : List Name} {v : Val} (h : ValOk U v) (hs : symref.isPrefixOf v = true) :
    v.drop symref.length ∈ U := by
  rcases h with h | ⟨t, ht, rfl⟩
  · rw [hex_not_symref h] at hs; cases hs
  · simpa using ht

/-- only names of `U` are stored — loose (hex sha or symref to a name of `U`), packed (hex sha) or both —
and only directories on the way to names of `U` exist -/
structure Disk.Inv (U : List Name) (d : Disk) : Prop where
  files_in : ∀ k v, d.files.get k = some v → k ∈ U ∧ ValOk U v
  packed_in : ∀ k v, d.packed.get k = some v → k ∈ U ∧ validHexSha v = true
  dirs_in : ∀ x ∈ d.dirs, x ∈ baseDirs ∨ ∃ u ∈ U, x ∈ ancestors u

theorem Disk.Inv.wf {U : List Name} {d : Disk} (hi : Disk.Inv U d) : d.WF :=
  ⟨fun k v h => (hi.files_in k v h).2.ne_nil, fun k v h => hex_ne_nil (hi.packed_in k v h).2⟩

theorem Disk.Inv.readRef_ok {U : List Name} {d : Disk} (hi : Disk.Inv U d) (n : Name) :
    ∀ c, d.readRef n = some c → ValOk U c := by
  intro c hc
  unfold Disk.readRef Disk.readLoose at hc
  have hp : ∀ c, d.packed.get n = some c → ValOk U c := fun c h => Or.inl (hi.packed_in n c h).2
  split at hc
  · cases hg : d.files.get n with
    | none => rw [hg] at hc; exact hp c hc
    | some v =>
      rw [hg, readRefOf_some (hi.wf.1 n v hg)] at hc
      injection hc with hc; subst hc
      exact (hi.files_in n v hg).2
  · exact hp c hc

/-- following symrefs never leaves the universe -/
theorem Disk.Inv.followAux_in {U : List Name} {d : Disk} (hi : Disk.Inv U d) :
    ∀ (fuel : Nat) (n : Name) (acc names : List Name) (c : Option Val), n ∈ U →
    followAux d.readRef fuel n acc = .ok (names, c) → ∃ r ∈ U, names.getLast? = some r := by
  intro fuel
  induction fuel with
  | zero =>
    intro n acc names c hn h
    unfold followAux at h
    cases hr : d.readRef n with
    | none =>
      simp only [hr] at h
      injection h with h; injection h with h1 _
      exact ⟨n, hn, by simp [← h1]⟩
    | some v =>
      simp only [hr] at h
      by_cases he : v.isEmpty
      · simp only [he, if_true] at h
        injection h with h; injection h with h1 _
        exact ⟨n, hn, by simp [← h1]⟩
      · simp [he] at h
  | succ fuel ih =>
    intro n acc names c hn h
    unfold followAux at h
    cases hr : d.readRef n with
    | none =>
      simp only [hr] at h
      injection h with h; injection h with h1 _
      exact ⟨n, hn, by simp [← h1]⟩
    | some v =>
      simp only [hr] at h
      by_cases he : v.isEmpty
      · simp only [he, if_true] at h
        injection h with h; injection h with h1 _
        exact ⟨n, hn, by simp [← h1]⟩
      · simp only [he] at h
        by_cases hs : symref.isPrefixOf v
        · simp only [hs, if_true] at h
          exact ih _ _ _ _ ((hi.readRef_ok n v hr).target hs) h
        · simp only [hs, Bool.false_eq_true, if_false] at h
          injection h with h; injection h with h1 _
          exact ⟨n, hn, by simp [← h1]⟩

theorem Disk.Inv.realname_in {U : List Name} {d : Disk} (hi : Disk.Inv U d) {n : Name} (hn : n ∈ U) :
    realname d.readRef n ∈ U := by
  unfold realname
  cases hf : follow d.readRef n with
  | error e => exact hn
  | ok res =>
    obtain ⟨names, c⟩ := res
    obtain ⟨r, hr, hl⟩ := hi.followAux_in _ _ _ _ _ hn hf
    simp only [hl, Option.getD_some]; exact hr

theorem mem_dedup (x : Bytes) : ∀ (l : List Bytes), x ∈ dedup l → x ∈ l := by
  intro l
  induction l with
  | nil => intro h; exact h
  | cons a r ih =>
    intro h
    unfold dedup at h
    split at h
    · exact List.mem_cons_of_mem _ (ih h)
    · simp only [List.mem_cons] at h ⊢
      rcases h with h | h
      · exact Or.inl h
      · exact Or.inr (ih h)

theorem mem_keys_get (k : Bytes) : ∀ (m : Map), k ∈ m.keys → ∃ v, m.get k = some v := by
  intro m
  induction m with
  | nil => intro h; simp [Map.keys] at h
  | cons e r ih =>
    intro h
    obtain ⟨k', v⟩ := e
    simp only [Map.keys, List.map_cons, List.mem_cons] at h
    by_cases hk : k' = k
    · exact ⟨v, by simp [Map.get, hk]⟩
    · rcases h with h | h
      · exact absurd h.symm hk
      · obtain ⟨w, hw⟩ := ih (by simpa [Map.keys] using h)
        exact ⟨w, by simp [Map.get, hk, hw]⟩

theorem Disk.Inv.noCollision {U : List Name} {d : Disk} (hi : Disk.Inv U d) (hnc : NonColliding U) {n : Name}
    (hn : n ∈ U) : d.NoCollision n := by
  refine ⟨?_, ?_, ?_⟩
  · intro p hp
    constructor
    · cases hg : d.files.get p with
      | none => rfl
      | some v => exact absurd hp (hnc p (hi.files_in p v hg).1 n hn)
    · cases hg : d.packed.get p with
      | none => rfl
      | some v => exact absurd hp (hnc p (hi.packed_in p v hg).1 n hn)
  · intro k hk
    obtain ⟨v, hv⟩ := mem_keys_get k _ hk
    exact hnc n hn k (hi.files_in k v hv).1
  · intro k hk
    obtain ⟨v, hv⟩ := mem_keys_get k _ hk
    exact hnc n hn k (hi.packed_in k v hv).1

theorem Disk.Inv.stepOk {U : List Name} {d : Disk} (hi : d.Inv U) (hU : ∀ n ∈ U, checkRefname n = true)
    (hnc : NonColliding U) (op : MOp) (hv : op.ValuesOk) (hn : ∀ n ∈ op.names, n ∈ U) : d.StepOk op := by
  cases op with
  | setIfEquals n o v =>
    have hnU := hn n (by simp [MOp.names])
    have hr := hi.realname_in hnU
    exact ⟨hU n hnU, by simp [validRefValue, (show validHexSha v = true from hv)], hU _ hr, hi.noCollision hnc hr⟩
  | addIfNew n v =>
    have hnU := hn n (by simp [MOp.names])
    refine ⟨by simp [validRefValue, (show validHexSha v = true from hv)], ?_⟩
    cases hf : follow d.readRef n with
    | error e => trivial
    | ok res =>
      obtain ⟨names, c⟩ := res
      obtain ⟨r, hr, hl⟩ := hi.followAux_in _ _ _ _ _ hnU hf
      simp only [hl, Option.getD_some]
      exact ⟨hU r hr, hi.noCollision hnc hr⟩
  | removeIfEquals n o =>
    have hnU := hn n (by simp [MOp.names])
    exact ⟨hU n hnU, fun p hp => ((hi.noCollision hnc hnU).1 p hp).1⟩
  | setSymbolicRef n t =>
    have hnU := hn n (by simp [MOp.names])
    have htU := hn t (by simp [MOp.names])
    exact ⟨hU n hnU, hU t htU, hi.noCollision hnc hnU⟩
  | packRefs all => trivial
  | reopen => trivial


theorem Disk.lockMkdirs_inv {U : List Name} {d d1 : Disk} {r : Name} (h : d.lockMkdirs r = .ok d1) (hr : r ∈ U)
    (hi : Disk.Inv U d) : Disk.Inv U d1 := by
  unfold Disk.lockMkdirs at h
  split at h
  · cases h
  · injection h with h; subst h
    refine ⟨hi.files_in, hi.packed_in, ?_⟩
    intro x hx
    rw [mem_addDirs] at hx
    rcases hx with hx | hx
    · exact hi.dirs_in x hx
    · exact Or.inr ⟨r, hr, hx⟩

theorem Disk.pruneEmpty_inv {U : List Name} {d : Disk} (r : Name) (hi : Disk.Inv U d) : Disk.Inv U (d.pruneEmpty r) := by
  refine ⟨hi.files_in, hi.packed_in, ?_⟩
  intro x hx
  unfold Disk.pruneEmpty at hx
  simp only [List.mem_filter] at hx
  exact hi.dirs_in x hx.1

theorem Disk.commitFile_inv {U : List Name} {d d2 : Disk} {r : Name} {v : Val} (h : d.commitFile r v = .ok d2)
    (hr : r ∈ U) (hv : ValOk U v) (hi : Disk.Inv U d) : Disk.Inv U d2 := by
  unfold Disk.commitFile at h
  split at h
  · cases h
  · injection h with h; subst h
    refine ⟨?_, hi.packed_in, hi.dirs_in⟩
    intro k c hk
    simp only at hk
    by_cases hkr : k = r
    · subst hkr; rw [Map.get_set_eq] at hk; injection hk with hk; subst hk; exact ⟨hr, hv⟩
    · rw [Map.get_set_ne _ _ _ _ hkr] at hk; exact hi.files_in k c hk

theorem Disk.removed_inv {U : List Name} {d : Disk} (n : Name) (hi : Disk.Inv U d) :
    Disk.Inv U (({ d with files := d.files.del n } : Disk).removePacked n) := by
  have hfiles : ∀ k v, (d.files.del n).get k = some v → k ∈ U ∧ ValOk U v := by
    intro k v hk
    by_cases hkn : k = n
    · subst hkn; rw [Map.get_del_eq] at hk; cases hk
    · rw [Map.get_del_ne _ _ _ hkn] at hk; exact hi.files_in k v hk
  unfold Disk.removePacked
  split
  · refine ⟨hfiles, ?_, hi.dirs_in⟩
    intro k v hk
    simp only at hk
    by_cases hkn : k = n
    · subst hkn; rw [Map.get_del_eq] at hk; cases hk
    · rw [Map.get_del_ne _ _ _ hkn] at hk; exact hi.packed_in k v hk
  · exact ⟨hfiles, hi.packed_in, hi.dirs_in⟩

theorem Disk.cleanupParents_inv {U : List Name} {d : Disk} (fuel : Nat) (n : Name) (hi : Disk.Inv U d) :
    Disk.Inv U (Disk.cleanupParents fuel d n) := by
  refine ⟨?_, ?_, ?_⟩
  · intro k v hk; rw [Disk.cleanupParents_files] at hk; exact hi.files_in k v hk
  · intro k v hk; rw [Disk.cleanupParents_packed] at hk; exact hi.packed_in k v hk
  · intro x hx; exact hi.dirs_in x (Disk.cleanupParents_dirs _ _ _ x hx)

theorem Disk.Inv.allKeys_in {U : List Name} {d : Disk} (hi : Disk.Inv U d) {k : Name} (hk : k ∈ d.allKeys)
    (hne : k ≠ headRef) : k ∈ U := by
  unfold Disk.allKeys at hk
  have := mem_dedup k _ hk
  simp only [List.mem_append, List.mem_filter] at this
  rcases this with (h | h) | h
  · split at h
    · simp only [List.mem_singleton] at h; exact absurd h hne
    · cases h
  · obtain ⟨v, hv⟩ := mem_keys_get k _ h.1
    exact (hi.files_in k v hv).1
  · obtain ⟨v, hv⟩ := mem_keys_get k _ h
    exact (hi.packed_in k v hv).1

theorem Disk.addPacked_inv {U : List Name} : ∀ (l : List (Name × Val)) (d : Disk), Disk.Inv U d →
    (∀ p ∈ l, p.1 ∈ U ∧ validHexSha p.2 = true) → Disk.Inv U (Disk.addPacked d l) := by
  intro l
  induction l with
  | nil => intro d hi _; exact hi
  | cons e rest ih =>
    intro d hi h
    obtain ⟨ref, sha⟩ := e
    simp only [Disk.addPacked]
    apply ih _ ?_ (fun p hp => h p (by simp [hp]))
    have he := h (ref, sha) (by simp)
    refine ⟨?_, ?_, hi.dirs_in⟩
    · intro k v hk
      simp only [Disk.filesAfterPrune] at hk
      split at hk
      · by_cases hkr : k = ref
        · subst hkr; rw [Map.get_del_eq] at hk; cases hk
        · rw [Map.get_del_ne _ _ _ hkr] at hk; exact hi.files_in k v hk
      · exact hi.files_in k v hk
    · intro k v hk
      simp only at hk
      by_cases hkr : k = ref
      · subst hkr; rw [Map.get_set_eq] at hk; injection hk with hk; subst hk; exact he
      · rw [Map.get_set_ne _ _ _ _ hkr] at hk; exact hi.packed_in k v hk

theorem Disk.Inv.packRefs {U : List Name} {d : Disk} (hi : Disk.Inv U d) (all : Bool) : Disk.Inv U (d.packRefs all).2 := by
  unfold Disk.packRefs
  apply Disk.addPacked_inv _ d hi
  intro p hp
  obtain ⟨hval, _, hk, hne, hns⟩ := Disk.packSelect_direct d all _ p hp
  exact ⟨hi.allKeys_in hk hne, (hi.readRef_ok p.1 p.2 hval).hex_of_not_symref hns⟩

theorem Disk.Inv.step {U : List Name} {d : Disk} (hi : d.Inv U) (op : MOp) (hv : op.ValuesOk)
    (hn : ∀ n ∈ op.names, n ∈ U) : (d.step op).2.Inv U := by
  cases op with
  | setIfEquals n o v =>
    have hnU := hn n (by simp [MOp.names])
    have hr := hi.realname_in hnU
    have hvv : ValOk U v := Or.inl hv
    simp only [Disk.step]
    unfold Disk.setIfEquals
    dsimp only
    generalize realname d.readRef n = r at hr ⊢
    repeat' split
    all_goals first
      | exact hi
      | exact Disk.lockMkdirs_inv ‹_› hr hi
      | exact Disk.pruneEmpty_inv _ (Disk.lockMkdirs_inv ‹_› hr hi)
      | exact Disk.commitFile_inv ‹_› hr hvv (Disk.pruneEmpty_inv _ (Disk.lockMkdirs_inv ‹_› hr hi))
  | addIfNew n v =>
    have hnU := hn n (by simp [MOp.names])
    have hvv : ValOk U v := Or.inl hv
    simp only [Disk.step]
    unfold Disk.addIfNew
    by_cases hval : validRefValue v = true
    · simp only [hval, Bool.not_true, Bool.false_eq_true, if_false]
      cases hf : follow d.readRef n with
      | error e => exact hi
      | ok res =>
        obtain ⟨names, c⟩ := res
        obtain ⟨r, hr, hl⟩ := hi.followAux_in _ _ _ _ _ hnU hf
        simp only [hl, Option.getD_some]
        cases c with
        | some c => exact hi
        | none =>
          simp only [Option.isSome_none, Bool.false_eq_true, if_false]
          by_cases hck : checkRefname r = true
          · simp only [hck, Bool.not_true, Bool.false_eq_true, if_false]
            by_cases hpc : d.packedConflict r = true
            · simp only [hpc, if_true]; exact hi
            · simp only [hpc, Bool.false_eq_true, if_false]
              cases hl : d.lockMkdirs r with
              | error e => exact hi
              | ok d1 =>
                have hi1 := Disk.pruneEmpty_inv r (Disk.lockMkdirs_inv hl hr hi)
                simp only
                by_cases hpe : ((d1.pruneEmpty r).pathExists r || (d1.packed.get r).isSome) = true
                · simp only [hpe, if_true]; exact hi1
                · simp only [hpe, Bool.false_eq_true, if_false]
                  cases hc : (d1.pruneEmpty r).commitFile r v with
                  | error e => exact hi1
                  | ok d2 => exact Disk.commitFile_inv hc hr hvv hi1
          · simp only [hck, Bool.not_false, if_true]; exact hi
    · simp only [hval, Bool.not_false, if_true]; exact hi
  | removeIfEquals n o =>
    have hnU := hn n (by simp [MOp.names])
    simp only [Disk.step]
    unfold Disk.removeIfEquals
    dsimp only
    repeat' split
    all_goals first
      | exact hi
      | exact Disk.lockMkdirs_inv ‹_› hnU hi
      | exact Disk.cleanupParents_inv _ _ (Disk.pruneEmpty_inv _ (Disk.removed_inv n (Disk.lockMkdirs_inv ‹_› hnU hi)))
      | exact Disk.cleanupParents_inv _ _ (Disk.removed_inv n (Disk.lockMkdirs_inv ‹_› hnU hi))
  | setSymbolicRef n t =>
    have hnU := hn n (by simp [MOp.names])
    have htU := hn t (by simp [MOp.names])
    have hvv : ValOk U (symref ++ t) := Or.inr ⟨t, htU, rfl⟩
    simp only [Disk.step]
    unfold Disk.setSymbolicRef
    repeat' split
    all_goals first
      | exact hi
      | exact Disk.pruneEmpty_inv _ (Disk.lockMkdirs_inv ‹_› hnU hi)
      | exact Disk.commitFile_inv ‹_› hnU hvv (Disk.pruneEmpty_inv _ (Disk.lockMkdirs_inv ‹_› hnU hi))
  | packRefs all => exact hi.packRefs all
  | reopen => exact hi


end Dulwich.Refs
