/-
  Helper lemmas for C05 (object graph, MissingObjectFinder model).  Core Lean only.
-/
import DulwichModel.Model.Missing

namespace Dulwich.Missing
open Dulwich Dulwich.Graph

/-! ## reachability -/

theorem Reach.mono {s : Store} {r r' : List Id} (h : ∀ x ∈ r, x ∈ r') {x : Id}
    (hx : Reach s r x) : Reach s r' x := by
  induction hx with
  | root hm => exact .root (h _ hm)
  | step _ hs hc ih => exact .step ih hs hc

/-- Reachability from points that are themselves reachable. -/
theorem Reach.trans {s : Store} {r r' : List Id} (h : ∀ x ∈ r', Reach s r x) {x : Id}
    (hx : Reach s r' x) : Reach s r x := by
  induction hx with
  | root hm => exact h _ hm
  | step _ hs hc ih => exact .step ih hs hc

theorem Reach.of_single {s : Store} {r : List Id} {e x : Id} (he : Reach s r e)
    (hx : Reach s [e] x) : Reach s r x :=
  Reach.trans (r' := [e]) (by intro y hy; simp at hy; subst hy; exact he) hx

/-- `P` holds on everything reachable from roots on which it holds, when it is closed under edges. -/
theorem Reach.induct {s : Store} {r : List Id} {P : Id → Prop} (h0 : ∀ x ∈ r, P x)
    (hstep : ∀ y o x, P y → s y = some o → x ∈ children o → P x) {x : Id} (hx : Reach s r x) : P x := by
  induction hx with
  | root hm => exact h0 _ hm
  | step _ hs hc ih => exact hstep _ _ _ ih hs hc

/-! ## `_split_commits_and_tags` -/

/-- What `splitOne` returns is reachable from its argument, the argument is present when
anything is returned, and the three lists are typed. -/
theorem splitOne_sound (s : Store) (ign : Bool) :
    ∀ (fuel : Nat) (e : Id) (r : List Id × List Id × List Id), splitOne s ign fuel e = .ok r →
      (∀ x ∈ r.1, Reach s [e] x ∧ ∃ t ps, s x = some (.commit t ps)) ∧
      (∀ x ∈ r.2.1, Reach s [e] x ∧ ∃ y, s x = some (.tag y)) ∧
      (∀ x ∈ r.2.2, Reach s [e] x ∧ (s x).isSome = true ∧ (∀ t ps, s x ≠ some (.commit t ps)) ∧
          ∀ y, s x ≠ some (.tag y)) ∧
      ((r.1 ≠ [] ∨ r.2.1 ≠ [] ∨ r.2.2 ≠ []) → (s e).isSome = true)
  | 0, e, r, h => by simp [splitOne] at h
  | fuel + 1, e, r, h => by
    unfold splitOne at h
    split at h
    · -- absent
      split at h
      · cases h; simp
      · cases h
    · -- commit
      rename_i t ps hs
      cases h
      refine ⟨?_, by simp, by simp, ?_⟩
      · intro x hx; simp at hx; subst hx
        exact ⟨.root (by simp), t, ps, hs⟩
      · intro _; simp [hs]
    · -- tag
      rename_i t hs
      split at h
      · rename_i r' hr'
        cases h
        have ih := splitOne_sound s ign fuel t r' hr'
        have hstep : ∀ x, Reach s [t] x → Reach s [e] x := fun x hx =>
          Reach.of_single (.step (.root (by simp)) hs (by simp [children])) hx
        refine ⟨?_, ?_, ?_, ?_⟩
        · intro x hx; exact ⟨hstep x (ih.1 x hx).1, (ih.1 x hx).2⟩
        · intro x hx
          simp at hx
          rcases hx with rfl | hx
          · exact ⟨.root (by simp), t, hs⟩
          · exact ⟨hstep x (ih.2.1 x hx).1, (ih.2.1 x hx).2⟩
        · intro x hx
          have := ih.2.2.1 x hx
          exact ⟨hstep x this.1, this.2⟩
        · intro _; simp [hs]
      · cases h
    · -- tree / blob
      rename_i o hnc hnt hs
      cases h
      refine ⟨by simp, by simp, ?_, ?_⟩
      · intro x hx; simp at hx; subst hx
        refine ⟨.root (by simp), by simp [hs], ?_, ?_⟩
        · intro t ps hc; rw [hs] at hc; exact hnc t ps (Option.some.inj hc)
        · intro y hc; rw [hs] at hc; exact hnt y (Option.some.inj hc)
      · intro _; simp [hs]

/-- A present argument lands in one of the three lists. -/
theorem splitOne_self (s : Store) (ign : Bool) :
    ∀ (fuel : Nat) (e : Id) (r : List Id × List Id × List Id), splitOne s ign fuel e = .ok r →
      (s e).isSome = true → e ∈ r.1 ∨ e ∈ r.2.1 ∨ e ∈ r.2.2
  | 0, e, r, h, _ => by simp [splitOne] at h
  | fuel + 1, e, r, h, hp => by
    unfold splitOne at h
    split at h
    · rename_i hs; simp [hs] at hp
    · cases h; simp
    · split at h
      · cases h; simp
      · cases h
    · cases h; simp

/-- With `unknown="error"` an absent argument is an error. -/
theorem splitOne_present (s : Store) :
    ∀ (fuel : Nat) (e : Id) (r : List Id × List Id × List Id), splitOne s false fuel e = .ok r →
      (s e).isSome = true
  | 0, e, r, h => by simp [splitOne] at h
  | fuel + 1, e, r, h => by
    unfold splitOne at h
    split at h
    · simp at h
    all_goals (rename_i hs; simp [hs])

/-- The tag list is closed under "target of": the target of a returned tag is itself returned
(or absent, which `unknown="ignore"` tolerates). -/
theorem splitOne_tagclosed (s : Store) (ign : Bool) :
    ∀ (fuel : Nat) (e : Id) (r : List Id × List Id × List Id), splitOne s ign fuel e = .ok r →
      ∀ t ∈ r.2.1, ∀ y, s t = some (.tag y) → (y ∈ r.1 ∨ y ∈ r.2.1 ∨ y ∈ r.2.2) ∨ s y = none
  | 0, e, r, h => by simp [splitOne] at h
  | fuel + 1, e, r, h => by
    unfold splitOne at h
    split at h
    · split at h
      · cases h; simp
      · cases h
    · cases h; simp
    · rename_i t0 hs
      split at h
      · rename_i r' hr'
        cases h
        intro t ht y hy
        simp at ht
        rcases ht with rfl | ht
        · rw [hs] at hy
          cases hy
          cases hsy : s t0 with
          | none => exact .inr rfl
          | some o =>
            have := splitOne_self s ign fuel t0 r' hr' (by simp [hsy])
            rcases this with h1 | h1 | h1
            · exact .inl (.inl h1)
            · exact .inl (.inr (.inl (by simp [h1])))
            · exact .inl (.inr (.inr h1))
        · have := splitOne_tagclosed s ign fuel t0 r' hr' t ht y hy
          rcases this with (h1 | h1 | h1) | h1
          · exact .inl (.inl h1)
          · exact .inl (.inr (.inl (by simp [h1])))
          · exact .inl (.inr (.inr h1))
          · exact .inr h1
      · cases h
    · cases h; simp

/-- List version of `splitOne_sound`, reachability stated from the present arguments. -/
theorem split_sound (s : Store) (ign : Bool) (fuel : Nat) :
    ∀ (lst : List Id) (r : List Id × List Id × List Id), split s ign fuel lst = .ok r →
      (∀ x ∈ r.1, Reach s (present s lst) x ∧ ∃ t ps, s x = some (.commit t ps)) ∧
      (∀ x ∈ r.2.1, Reach s (present s lst) x ∧ ∃ y, s x = some (.tag y)) ∧
      (∀ x ∈ r.2.2, Reach s (present s lst) x ∧ (s x).isSome = true ∧
          (∀ t ps, s x ≠ some (.commit t ps)) ∧ ∀ y, s x ≠ some (.tag y))
  | [], r, h => by simp [split] at h; cases h; simp
  | e :: rest, r, h => by
    unfold split at h
    split at h
    · cases h
    · rename_i a ha
      split at h
      · cases h
      · rename_i b hb
        cases h
        have h1 := splitOne_sound s ign fuel e a ha
        have h2 := split_sound s ign fuel rest b hb
        have lift1 : ∀ x, (a.1 ≠ [] ∨ a.2.1 ≠ [] ∨ a.2.2 ≠ []) → Reach s [e] x →
            Reach s (present s (e :: rest)) x := by
          intro x hne hx
          have hp := h1.2.2.2 hne
          exact Reach.mono (by intro y hy; simp at hy; subst hy; simp [present, hp]) hx
        have lift2 : ∀ x, Reach s (present s rest) x → Reach s (present s (e :: rest)) x := by
          intro x hx
          refine Reach.mono ?_ hx
          intro y hy
          simp only [present, List.mem_filter] at hy ⊢
          exact ⟨List.mem_cons_of_mem _ hy.1, hy.2⟩
        refine ⟨?_, ?_, ?_⟩
        · intro x hx
          simp only [List.mem_append] at hx
          rcases hx with hx | hx
          · exact ⟨lift1 x (.inl (List.ne_nil_of_mem hx)) (h1.1 x hx).1, (h1.1 x hx).2⟩
          · exact ⟨lift2 x (h2.1 x hx).1, (h2.1 x hx).2⟩
        · intro x hx
          simp only [List.mem_append] at hx
          rcases hx with hx | hx
          · exact ⟨lift1 x (.inr (.inl (List.ne_nil_of_mem hx))) (h1.2.1 x hx).1, (h1.2.1 x hx).2⟩
          · exact ⟨lift2 x (h2.2.1 x hx).1, (h2.2.1 x hx).2⟩
        · intro x hx
          simp only [List.mem_append] at hx
          rcases hx with hx | hx
          · exact ⟨lift1 x (.inr (.inr (List.ne_nil_of_mem hx))) (h1.2.2.1 x hx).1, (h1.2.2.1 x hx).2⟩
          · exact ⟨lift2 x (h2.2.2 x hx).1, (h2.2.2 x hx).2⟩

/-- Every present argument is returned; with `unknown="error"` every argument is present. -/
theorem split_self (s : Store) (ign : Bool) (fuel : Nat) :
    ∀ (lst : List Id) (r : List Id × List Id × List Id), split s ign fuel lst = .ok r →
      ∀ e ∈ lst, ((s e).isSome = true → e ∈ r.1 ∨ e ∈ r.2.1 ∨ e ∈ r.2.2) ∧
        (ign = false → (s e).isSome = true)
  | [], r, h => by simp
  | e0 :: rest, r, h => by
    unfold split at h
    split at h
    · cases h
    · rename_i a ha
      split at h
      · cases h
      · rename_i b hb
        cases h
        intro e he
        simp at he
        rcases he with rfl | he
        · refine ⟨?_, ?_⟩
          · intro hp
            rcases splitOne_self s ign fuel e a ha hp with h1 | h1 | h1
            · exact .inl (by simp [h1])
            · exact .inr (.inl (by simp [h1]))
            · exact .inr (.inr (by simp [h1]))
          · intro hi; subst hi; exact splitOne_present s fuel e a ha
        · have := split_self s ign fuel rest b hb e he
          refine ⟨?_, this.2⟩
          intro hp
          rcases this.1 hp with h1 | h1 | h1
          · exact .inl (by simp [h1])
          · exact .inr (.inl (by simp [h1]))
          · exact .inr (.inr (by simp [h1]))

theorem split_tagclosed (s : Store) (ign : Bool) (fuel : Nat) :
    ∀ (lst : List Id) (r : List Id × List Id × List Id), split s ign fuel lst = .ok r →
      ∀ t ∈ r.2.1, ∀ y, s t = some (.tag y) → (y ∈ r.1 ∨ y ∈ r.2.1 ∨ y ∈ r.2.2) ∨ s y = none
  | [], r, h => by simp [split] at h; cases h; simp
  | e0 :: rest, r, h => by
    unfold split at h
    split at h
    · cases h
    · rename_i a ha
      split at h
      · cases h
      · rename_i b hb
        cases h
        intro t ht y hy
        simp only [List.mem_append] at ht
        rcases ht with ht | ht
        · rcases splitOne_tagclosed s ign fuel e0 a ha t ht y hy with (h1 | h1 | h1) | h1
          · exact .inl (.inl (by simp [h1]))
          · exact .inl (.inr (.inl (by simp [h1])))
          · exact .inl (.inr (.inr (by simp [h1])))
          · exact .inr h1
        · rcases split_tagclosed s ign fuel rest b hb t ht y hy with (h1 | h1 | h1) | h1
          · exact .inl (.inl (by simp [h1]))
          · exact .inl (.inr (.inl (by simp [h1])))
          · exact .inl (.inr (.inr (by simp [h1])))
          · exact .inr h1

/-! ## `_collect_ancestors` -/

/-- Everything returned satisfies any predicate that holds on the inputs and is closed under
commit → parent; the bases are in `common`. -/
theorem collectAncestors_sound (s : Store) (common shallow : List Id) (P : Id → Prop)
    (hP : ∀ y t ps x, P y → s y = some (.commit t ps) → x ∈ ps → P x) :
    ∀ (fuel : Nat) (q cs bs : List Id) (r : List Id × List Id),
      collectAncestors s common shallow fuel q cs bs = .ok r →
      (∀ x ∈ q, P x) → (∀ x ∈ cs, P x) → (∀ x ∈ bs, P x ∧ x ∈ common) →
      (∀ x ∈ r.1, P x) ∧ (∀ x ∈ r.2, P x ∧ x ∈ common)
  | fuel, [], cs, bs, r, h, _, hcs, hbs => by
    cases fuel <;> (simp [collectAncestors] at h; cases h; exact ⟨hcs, hbs⟩)
  | 0, e :: q, cs, bs, r, h, _, _, _ => by simp [collectAncestors] at h
  | fuel + 1, e :: q, cs, bs, r, h, hq, hcs, hbs => by
    have hPe : P e := hq e (by simp)
    have hq' : ∀ x ∈ q, P x := fun x hx => hq x (by simp [hx])
    unfold collectAncestors at h
    split at h
    · rename_i hc
      exact collectAncestors_sound s common shallow P hP fuel q cs (e :: bs) r h hq' hcs
        (by intro x hx; simp at hx; rcases hx with rfl | hx; exact ⟨hPe, hc⟩; exact hbs x hx)
    · split at h
      · exact collectAncestors_sound s common shallow P hP fuel q cs bs r h hq' hcs hbs
      · split at h
        · exact collectAncestors_sound s common shallow P hP fuel q (e :: cs) bs r h hq'
            (by intro x hx; simp at hx; rcases hx with rfl | hx; exact hPe; exact hcs x hx) hbs
        · split at h
          · cases h
          · rename_i t ps hs
            refine collectAncestors_sound s common shallow P hP fuel (q ++ ps) (e :: cs) bs r h ?_ ?_ hbs
            · intro x hx
              simp only [List.mem_append] at hx
              rcases hx with hx | hx
              · exact hq' x hx
              · exact hP e t ps x hPe hs hx
            · intro x hx; simp at hx; rcases hx with rfl | hx; exact hPe; exact hcs x hx
          · cases h

/-- Invariant of the loop without a shallow cut: every collected commit is a commit whose parents
are in `common`, collected, or still queued. -/
def AncInv (s : Store) (common q cs : List Id) : Prop :=
  ∀ c ∈ cs, ∃ t ps, s c = some (.commit t ps) ∧ ∀ p ∈ ps, p ∈ common ∨ p ∈ cs ∨ p ∈ q

/-- Completeness of `_collect_ancestors` (no shallow cut): the collected set is closed under
"parent not in common", keeps what was collected, and every queued name ends up collected or is
a base. -/
theorem collectAncestors_complete (s : Store) (common : List Id) :
    ∀ (fuel : Nat) (q cs bs : List Id) (r : List Id × List Id),
      collectAncestors s common [] fuel q cs bs = .ok r → AncInv s common q cs →
      (∀ c ∈ r.1, ∃ t ps, s c = some (.commit t ps) ∧ ∀ p ∈ ps, p ∈ common ∨ p ∈ r.1) ∧
      (∀ x ∈ cs, x ∈ r.1) ∧ (∀ x ∈ bs, x ∈ r.2) ∧
      (∀ x ∈ q, (x ∈ common ∧ x ∈ r.2) ∨ x ∈ r.1)
  | fuel, [], cs, bs, r, h, inv => by
    cases fuel <;>
    · simp [collectAncestors] at h
      cases h
      refine ⟨?_, fun x hx => hx, fun x hx => hx, by simp⟩
      intro c hc
      obtain ⟨t, ps, hs, hp⟩ := inv c hc
      refine ⟨t, ps, hs, ?_⟩
      intro p hpm
      rcases hp p hpm with h1 | h1 | h1
      · exact .inl h1
      · exact .inr h1
      · simp at h1
  | 0, e :: q, cs, bs, r, h, _ => by simp [collectAncestors] at h
  | fuel + 1, e :: q, cs, bs, r, h, inv => by
    unfold collectAncestors at h
    split at h
    · rename_i hc
      -- e is common: becomes a base
      have inv' : AncInv s common q cs := by
        intro c hcm
        obtain ⟨t, ps, hs, hp⟩ := inv c hcm
        refine ⟨t, ps, hs, ?_⟩
        intro p hpm
        rcases hp p hpm with h1 | h1 | h1
        · exact .inl h1
        · exact .inr (.inl h1)
        · simp at h1
          rcases h1 with rfl | h1
          · exact .inl hc
          · exact .inr (.inr h1)
      have ih := collectAncestors_complete s common fuel q cs (e :: bs) r h inv'
      refine ⟨ih.1, ih.2.1, fun x hx => ih.2.2.1 x (by simp [hx]), ?_⟩
      intro x hx
      simp at hx
      rcases hx with rfl | hx
      · exact .inl ⟨hc, ih.2.2.1 x (by simp)⟩
      · exact ih.2.2.2 x hx
    · split at h
      · rename_i hnc hcs
        have inv' : AncInv s common q cs := by
          intro c hcm
          obtain ⟨t, ps, hs, hp⟩ := inv c hcm
          refine ⟨t, ps, hs, ?_⟩
          intro p hpm
          rcases hp p hpm with h1 | h1 | h1
          · exact .inl h1
          · exact .inr (.inl h1)
          · simp at h1
            rcases h1 with rfl | h1
            · exact .inr (.inl hcs)
            · exact .inr (.inr h1)
        have ih := collectAncestors_complete s common fuel q cs bs r h inv'
        refine ⟨ih.1, ih.2.1, ih.2.2.1, ?_⟩
        intro x hx
        simp at hx
        rcases hx with rfl | hx
        · exact .inr (ih.2.1 x hcs)
        · exact ih.2.2.2 x hx
      · split at h
        · rename_i hsh; simp at hsh
        · split at h
          · cases h
          · rename_i t ps hs
            have inv' : AncInv s common (q ++ ps) (e :: cs) := by
              intro c hcm
              simp at hcm
              rcases hcm with rfl | hcm
              · exact ⟨t, ps, hs, fun p hpm => .inr (.inr (by simp [hpm]))⟩
              · obtain ⟨t', ps', hs', hp⟩ := inv c hcm
                refine ⟨t', ps', hs', ?_⟩
                intro p hpm
                rcases hp p hpm with h1 | h1 | h1
                · exact .inl h1
                · exact .inr (.inl (by simp [h1]))
                · simp at h1
                  rcases h1 with rfl | h1
                  · exact .inr (.inl (by simp))
                  · exact .inr (.inr (by simp [h1]))
            have ih := collectAncestors_complete s common fuel (q ++ ps) (e :: cs) bs r h inv'
            refine ⟨ih.1, fun x hx => ih.2.1 x (by simp [hx]), ih.2.2.1, ?_⟩
            intro x hx
            simp at hx
            rcases hx with rfl | hx
            · exact .inr (ih.2.1 x (by simp))
            · exact ih.2.2.2 x (by simp [hx])
          · cases h

/-! ## `_collect_filetree_revs`, `get_tree_objects`, the `remote_has` loop -/

/-- `P` is closed under the edges of the object graph. -/
def EdgeClosed (s : Store) (P : Id → Prop) : Prop :=
  ∀ y o x, P y → s y = some o → x ∈ children o → P x

theorem reach_edgeClosed (s : Store) (r : List Id) : EdgeClosed s (Reach s r) :=
  fun _ _ _ hy hs hx => .step hy hs hx

theorem mem_treeKids {es : List (Kind × Id)} {e : Kind × Id} (he : e ∈ es) (hk : e.1 ≠ Kind.gitlink) :
    e.2 ∈ treeKids es := by
  simp only [treeKids, List.mem_map, List.mem_filter]
  exact ⟨e, ⟨he, by simpa using hk⟩, rfl⟩

theorem cftr_sound (s : Store) (P : Id → Prop) (hP : EdgeClosed s P) :
    ∀ (fuel : Nat) (st : List (List (Kind × Id))) (k r : List Id), cftr s fuel st k = .ok r →
      (∀ es ∈ st, ∀ e ∈ es, e.1 ≠ Kind.gitlink → P e.2) → (∀ x ∈ k, P x) → ∀ x ∈ r, P x
  | fuel, [], k, r, h, _, hk => by
    cases fuel <;> (simp [cftr] at h; cases h; exact hk)
  | 0, _ :: _, k, r, h, _, _ => by simp [cftr] at h
  | fuel + 1, [] :: st, k, r, h, hst, hk => by
    simp only [cftr] at h
    exact cftr_sound s P hP fuel st k r h (fun es hes => hst es (by simp [hes])) hk
  | fuel + 1, (e :: es) :: st, k, r, h, hst, hk => by
    have hrest : ∀ es' ∈ es :: st, ∀ e' ∈ es', e'.1 ≠ Kind.gitlink → P e'.2 := by
      intro es' hes' e' he' hg
      simp at hes'
      rcases hes' with rfl | hes'
      · exact hst (e :: es') (by simp) e' (by simp [he']) hg
      · exact hst es' (by simp [hes']) e' he' hg
    unfold cftr at h
    split at h
    · exact cftr_sound s P hP fuel (es :: st) k r h hrest hk
    · rename_i hcond
      have hg : e.1 ≠ Kind.gitlink := by
        intro hgl
        apply hcond
        simp [Gen.cftrSkipsGitlinks, hgl]
      have hPe : P e.2 := hst (e :: es) (by simp) e (by simp) hg
      have hk' : ∀ x ∈ e.2 :: k, P x := by
        intro x hx; simp at hx; rcases hx with rfl | hx; exact hPe; exact hk x hx
      split at h
      · split at h
        · cases h
        · rename_i es' hs
          refine cftr_sound s P hP fuel (es' :: es :: st) (e.2 :: k) r h ?_ hk'
          intro es'' hes'' e' he' hg'
          simp only [List.mem_cons] at hes''
          rcases hes'' with rfl | hes''
          · exact hP e.2 _ e'.2 hPe hs (by simpa [children] using mem_treeKids he' hg')
          · exact hrest es'' (by simpa using hes'') e' he' hg'
        · cases h
      · exact cftr_sound s P hP fuel (es :: st) (e.2 :: k) r h hrest hk'

theorem treeObjects_sound (s : Store) (P : Id → Prop) (hP : EdgeClosed s P) (fuel : Nat) (t : Id)
    (r : List Id) (h : treeObjects s fuel t = .ok r) (ht : P t) : ∀ x ∈ r, P x := by
  unfold treeObjects at h
  split at h
  · cases h
  · rename_i es hs
    refine cftr_sound s P hP fuel [es] _ r h ?_ ?_
    · intro es' hes' e he hg
      simp at hes'; subst hes'
      exact hP t _ e.2 ht hs (by simpa [children] using mem_treeKids he hg)
    · intro x hx
      split at hx
      · simp at hx; subst hx; exact ht
      · simp at hx
  · cases h

theorem remoteHas_sound (s : Store) (P : Id → Prop) (hP : EdgeClosed s P) (fuel : Nat) :
    ∀ (l r : List Id), remoteHas s fuel l = .ok r → (∀ x ∈ l, P x) → ∀ x ∈ r, P x
  | [], r, h, _ => by simp [remoteHas] at h; cases h; simp
  | c :: rest, r, h, hl => by
    unfold remoteHas at h
    split at h
    · cases h
    · rename_i t ps hs
      split at h
      · cases h
      · rename_i k hk
        split at h
        · cases h
        · rename_i r' hr'
          cases h
          have hc : P c := hl c (by simp)
          have h1 := treeObjects_sound s P hP fuel t k hk (hP c _ t hc hs (by simp [children]))
          have h2 := remoteHas_sound s P hP fuel rest r' hr' (fun x hx => hl x (by simp [hx]))
          intro x hx
          simp only [List.mem_cons, List.mem_append] at hx
          rcases hx with (rfl | hx) | hx
          · exact hc
          · exact h1 x hx
          · exact h2 x hx
    · cases h

/-- Every listed commit is itself part of `remote_has`. -/
theorem remoteHas_self (s : Store) (fuel : Nat) :
    ∀ (l r : List Id), remoteHas s fuel l = .ok r → ∀ x ∈ l, x ∈ r
  | [], r, h => by simp
  | c :: rest, r, h => by
    unfold remoteHas at h
    split at h
    · cases h
    · split at h
      · cases h
      · split at h
        · cases h
        · rename_i r' hr'
          cases h
          intro x hx
          simp at hx
          rcases hx with rfl | hx
          · simp
          · have := remoteHas_self s fuel rest r' hr' x hx
            simp [this]
    · cases h

/-! ## `MissingObjectFinder.__init__` -/

/-- The pieces `init` is made of. -/
structure InitParts (s : Store) (fuel : Nat) (haves wants shallow : List Id) (st0 : St) where
  hh : List Id × List Id × List Id
  w : List Id × List Id × List Id
  anc : List Id × List Id
  mc : List Id × List Id
  rh : List Id
  hsplit : split s true fuel haves = .ok hh
  wsplit : split s false fuel wants = .ok w
  hanc : collectAncestors s [] shallow fuel hh.1 [] [] = .ok anc
  hmc : collectAncestors s anc.1 shallow fuel w.1 [] [] = .ok mc
  hrh : remoteHas s fuel mc.2 = .ok rh
  htodo : st0.todo = (mc.1.map fun c => (c, false)) ++
      ((w.2.1.filter fun t => t ∉ hh.2.1).map fun t => (t, false)) ++
      ((w.2.2.filter fun o => o ∉ hh.2.2).map fun o => (o, false))
  hdone : st0.done = hh.2.1 ++ rh
  hsent : st0.sent = []

theorem init_parts {s : Store} {fuel : Nat} {haves wants shallow : List Id} {st0 : St}
    (h : init s fuel haves wants shallow = .ok st0) :
    Nonempty (InitParts s fuel haves wants shallow st0) := by
  unfold init at h
  split at h
  · cases h
  · rename_i hh hsplit
    split at h
    · cases h
    · rename_i w wsplit
      split at h
      · cases h
      · rename_i anc hanc
        split at h
        · cases h
        · rename_i mc hmc
          split at h
          · cases h
          · rename_i rh hrh
            cases h
            exact ⟨⟨hh, w, anc, mc, rh, hsplit, wsplit, hanc, hmc, hrh, rfl, rfl, rfl⟩⟩

/-! ## the walk -/

theorem expand_sound {s : Store} {x : Id} {kids : List (Id × Bool)} (h : expand s x = .ok kids) :
    ∃ o, s x = some o ∧ ∀ e ∈ kids, e.1 ∈ children o := by
  unfold expand at h
  split at h
  · cases h
  · rename_i t ps hs
    cases h
    exact ⟨_, hs, by simp [children]⟩
  · rename_i es hs
    cases h
    refine ⟨_, hs, ?_⟩
    intro e he
    simp only [List.mem_filterMap] at he
    obtain ⟨a, ha, hf⟩ := he
    split at hf
    · cases hf
    · rename_i hcond
      cases hf
      have hg : a.1 ≠ Kind.gitlink := by
        intro hgl; apply hcond; simp [Gen.mofTreeSkipsGitlinks, hgl]
      simpa [children] using mem_treeKids ha hg
  · rename_i t hs
    cases h
    exact ⟨_, hs, by simp [children]⟩
  · rename_i hs
    cases h
    exact ⟨_, hs, by simp⟩

theorem mem_addTodo {done : List Id} {entries todo : List (Id × Bool)} {e : Id × Bool}
    (h : e ∈ addTodo done entries todo) : e ∈ entries ∨ e ∈ todo := by
  simp only [addTodo, List.mem_append, List.mem_filter] at h
  rcases h with h | h
  · exact .inl h.1
  · exact .inr h

/-- Soundness invariant of the walk: every queued non-leaf entry and everything yielded is
reachable from the wants; the only other entries are leaf entries for auto-followed tags. -/
def SInv (s : Store) (wants : List Id) (tagged : List (Id × Id)) (st : St) : Prop :=
  (∀ e ∈ st.todo, Reach s wants e.1 ∨ (e.2 = true ∧ e.1 ∈ tagged.map (·.2))) ∧
  (∀ x ∈ st.sent, Reach s wants x ∨ x ∈ tagged.map (·.2))

theorem lookup_mem {tagged : List (Id × Id)} {x t : Id} (h : tagged.lookup x = some t) :
    t ∈ tagged.map (·.2) := by
  induction tagged with
  | nil => simp [List.lookup] at h
  | cons p rest ih =>
    simp only [List.lookup] at h
    split at h
    · cases h; simp
    · simp [ih h]

theorem step_sinv {s : Store} {wants : List Id} {tagged : List (Id × Id)} {i : Nat} {st st' : St}
    (inv : SInv s wants tagged st) (h : step s tagged i st = .ok st') : SInv s wants tagged st' := by
  unfold step at h
  split at h
  · cases h; exact inv
  · rename_i x leaf hget
    have hmem : (x, leaf) ∈ st.todo := List.mem_of_getElem? hget
    have herase : ∀ e ∈ st.todo.eraseIdx i, e ∈ st.todo := fun e he => List.mem_of_mem_eraseIdx he
    split at h
    · cases h
      exact ⟨fun e he => inv.1 e (herase e he), inv.2⟩
    · split at h
      · cases h
      · rename_i kids hkids
        cases h
        have hx := inv.1 _ hmem
        refine ⟨?_, ?_⟩
        · intro e he
          rcases mem_addTodo he with he | he
          · -- the auto-followed tag
            split at he
            · rename_i t ht
              simp at he; subst he
              exact .inr ⟨by simp [Gen.mofTaggedLeaf], lookup_mem ht⟩
            · simp at he
          · rcases mem_addTodo he with he | he
            · -- children of x: x was expanded, so it is a non-leaf entry, hence reachable
              cases leaf with
              | true => simp at hkids; cases hkids; simp at he
              | false =>
                simp at hkids
                obtain ⟨o, hs, hk⟩ := expand_sound hkids
                rcases hx with hx | hx
                · exact .inl (.step hx hs (hk e he))
                · simp at hx
            · exact inv.1 e (herase e he)
        · intro y hy
          simp at hy
          rcases hy with rfl | hy
          · rcases hx with hx | hx
            · exact .inl hx
            · exact .inr hx.2
          · exact inv.2 y hy

theorem run_sinv {s : Store} {wants : List Id} {tagged : List (Id × Id)}
    {pick : Nat → List (Id × Bool) → Nat} :
    ∀ (fuel : Nat) (st st' : St), SInv s wants tagged st → run s tagged pick fuel st = .ok st' →
      SInv s wants tagged st'
  | 0, st, st', inv, h => by
    unfold run at h
    split at h
    · cases h; exact inv
    · cases h
  | fuel + 1, st, st', inv, h => by
    unfold run at h
    split at h
    · cases h; exact inv
    · split at h
      · cases h
      · rename_i st1 hst1
        exact run_sinv fuel st1 st' (step_sinv inv hst1) h

end Dulwich.Missing
