/-
  Helper lemmas for C05 (object graph, MissingObjectFinder model).  Core Lean only.
-/
import DulwichModel.Model.Missing

namespace Dulwich.Missing
open Dulwich Dulwich.Graph

/-! ## reachability -/

theorem Reach.mono {s : Store} {r r' : List Id} (h : ∀ x ∈ r, x ∈ r') {x : Id}
    (hx : Reach s r x) : Reach s r' x := by
  induction hx with
  | root hm => exact .root (h _ hm)
  | step _ hs hc ih => exact .step ih hs hc

/-- Reachability from points that are themselves reachable. -/
theorem Reach.trans {s : Store} {r r' : List Id} (h : ∀ x ∈ r', Reach s r x) {x : Id}
    (hx : Reach s r' x) : Reach s r x := by
  induction hx with
  | root hm => exact h _ hm
  | step _ hs hc ih => exact .step ih hs hc

theorem Reach.of_single {s : Store} {r : List Id} {e x : Id} (he : Reach s r e)
    (hx : Reach s [e] x) : Reach s r x :=
  Reach.trans (r' := [e]) (by intro y hy; simp at hy; subst hy; exact he) hx

/-- `P` holds on everything reachable from roots on which it holds, when it is closed under edges. -/
theorem Reach.induct {s : Store} {r : List Id} {P : Id → Prop} (h0 : ∀ x ∈ r, P x)
    (hstep : ∀ y o x, P y → s y = some o → x ∈ children o → P x) {x : Id} (hx : Reach s r x) : P x := by
  induction hx with
  | root hm => exact h0 _ hm
  | step _ hs hc ih => exact hstep _ _ _ ih hs hc

/-! ## `_split_commits_and_tags` -/

/-- What `splitOne` returns is reachable from its argument, the argument is present when
anything is returned, and the three lists are typed. -/
theorem splitOne_sound (s : Store) (ign : Bool) :
    ∀ (fuel : Nat) (e : Id) (r : List Id × List Id × List Id), splitOne s ign fuel e = .ok r →
      (∀ x ∈ r.1, Reach s [e] x ∧ ∃ t ps, s x = some (.commit t ps)) ∧
      (∀ x ∈ r.2.1, Reach s [e] x ∧ ∃ y, s x = some (.tag y)) ∧
      (∀ x ∈ r.2.2, Reach s [e] x ∧ (s x).isSome = true ∧ (∀ t ps, s x ≠ some (.commit t ps)) ∧
          ∀ y, s x ≠ some (.tag y)) ∧
      ((r.1 ≠ [] ∨ r.2.1 ≠ [] ∨ r.2.2 ≠ []) → (s e).isSome = true)
  | 0, e, r, h => by simp [splitOne] at h
  | fuel + 1, e, r, h => by
    unfold splitOne at h
    split at h
    · -- absent
      split at h
      · cases h; simp
      · cases h
    · -- commit
      rename_i t ps hs
      cases h
      refine ⟨?_, by simp, by simp, ?_⟩
      · intro x hx; simp at hx; subst hx
        exact ⟨.root (by simp), t, ps, hs⟩
      · intro _; simp [hs]
    · -- tag
      rename_i t hs
      split at h
      · rename_i r' hr'
        cases h
        have ih := splitOne_sound s ign fuel t r' hr'
        have hstep : ∀ x, Reach s [t] x → Reach s [e] x := fun x hx =>
          Reach.of_single (.step (.root (by simp)) hs (by simp [children])) hx
        refine ⟨?_, ?_, ?_, ?_⟩
        · intro x hx; exact ⟨hstep x (ih.1 x hx).1, (ih.1 x hx).2⟩
        · intro x hx
          simp at hx
          rcases hx with rfl | hx
          · exact ⟨.root (by simp), t, hs⟩
          · exact ⟨hstep x (ih.2.1 x hx).1, (ih.2.1 x hx).2⟩
        · intro x hx
          have := ih.2.2.1 x hx
          exact ⟨hstep x this.1, this.2⟩
        · intro _; simp [hs]
      · cases h
    · -- tree / blob
      rename_i o hnc hnt hs
      cases h
      refine ⟨by simp, by simp, ?_, ?_⟩
      · intro x hx; simp at hx; subst hx
        refine ⟨.root (by simp), by simp [hs], ?_, ?_⟩
        · intro t ps hc; rw [hs] at hc; exact hnc t ps (Option.some.inj hc)
        · intro y hc; rw [hs] at hc; exact hnt y (Option.some.inj hc)
      · intro _; simp [hs]

/-- A present argument lands in one of the three lists. -/
theorem splitOne_self (s : Store) (ign : Bool) :
    ∀ (fuel : Nat) (e : Id) (r : List Id × List Id × List Id), splitOne s ign fuel e = .ok r →
      (s e).isSome = true → e ∈ r.1 ∨ e ∈ r.2.1 ∨ e ∈ r.2.2
  | 0, e, r, h, _ => by simp [splitOne] at h
  | fuel + 1, e, r, h, hp => by
    unfold splitOne at h
    split at h
    · rename_i hs; simp [hs] at hp
    · cases h; simp
    · split at h
      · cases h; simp
      · cases h
    · cases h; simp

/-- With `unknown="error"` an absent argument is an error. -/
theorem splitOne_present (s : Store) :
    ∀ (fuel : Nat) (e : Id) (r : List Id × List Id × List Id), splitOne s false fuel e = .ok r →
      (s e).isSome = true
  | 0, e, r, h => by simp [splitOne] at h
  | fuel + 1, e, r, h => by
    unfold splitOne at h
    split at h
    · simp at h
    all_goals (rename_i hs; simp [hs])

/-- The tag list is closed under "target of": the target of a returned tag is itself returned
(or absent, which `unknown="ignore"` tolerates). -/
theorem splitOne_tagclosed (s : Store) (ign : Bool) :
    ∀ (fuel : Nat) (e : Id) (r : List Id × List Id × List Id), splitOne s ign fuel e = .ok r →
      ∀ t ∈ r.2.1, ∀ y, s t = some (.tag y) → (y ∈ r.1 ∨ y ∈ r.2.1 ∨ y ∈ r.2.2) ∨ s y = none
  | 0, e, r, h => by simp [splitOne] at h
  | fuel + 1, e, r, h => by
    unfold splitOne at h
    split at h
    · split at h
      · cases h; simp
      · cases h
    · cases h; simp
    · rename_i t0 hs
      split at h
      · rename_i r' hr'
        cases h
        intro t ht y hy
        simp at ht
        rcases ht with rfl | ht
        · rw [hs] at hy
          cases hy
          cases hsy : s t0 with
          | none => exact .inr rfl
          | some o =>
            have := splitOne_self s ign fuel t0 r' hr' (by simp [hsy])
            rcases this with h1 | h1 | h1
            · exact .inl (.inl h1)
            · exact .inl (.inr (.inl (by simp [h1])))
            · exact .inl (.inr (.inr h1))
        · have := splitOne_tagclosed s ign fuel t0 r' hr' t ht y hy
          rcases this with (h1 | h1 | h1) | h1
          · exact .inl (.inl h1)
          · exact .inl (.inr (.inl (by simp [h1])))
          · exact .inl (.inr (.inr h1))
          · exact .inr h1
      · cases h
    · cases h; simp

/-- List version of `splitOne_sound`, reachability stated from the present arguments. -/
theorem split_sound (s : Store) (ign : Bool) (fuel : Nat) :
    ∀ (lst : List Id) (r : List Id × List Id × List Id), split s ign fuel lst = .ok r →
      (∀ x ∈ r.1, Reach s (present s lst) x ∧ ∃ t ps, s x = some (.commit t ps)) ∧
      (∀ x ∈ r.2.1, Reach s (present s lst) x ∧ ∃ y, s x = some (.tag y)) ∧
      (∀ x ∈ r.2.2, Reach s (present s lst) x ∧ (s x).isSome = true ∧
          (∀ t ps, s x ≠ some (.commit t ps)) ∧ ∀ y, s x ≠ some (.tag y))
  | [], r, h => by simp [split] at h; cases h; simp
  | e :: rest, r, h => by
    unfold split at h
    split at h
    · cases h
    · rename_i a ha
      split at h
      · cases h
      · rename_i b hb
        cases h
        have h1 := splitOne_sound s ign fuel e a ha
        have h2 := split_sound s ign fuel rest b hb
        have lift1 : ∀ x, (a.1 ≠ [] ∨ a.2.1 ≠ [] ∨ a.2.2 ≠ []) → Reach s [e] x →
            Reach s (present s (e :: rest)) x := by
          intro x hne hx
          have hp := h1.2.2.2 hne
          exact Reach.mono (by intro y hy; simp at hy; subst hy; simp [present, hp]) hx
        have lift2 : ∀ x, Reach s (present s rest) x → Reach s (present s (e :: rest)) x := by
          intro x hx
          refine Reach.mono ?_ hx
          intro y hy
          simp only [present, List.mem_filter] at hy ⊢
          exact ⟨List.mem_cons_of_mem _ hy.1, hy.2⟩
        refine ⟨?_, ?_, ?_⟩
        · intro x hx
          simp only [List.mem_append] at hx
          rcases hx with hx | hx
          · exact ⟨lift1 x (.inl (List.ne_nil_of_mem hx)) (h1.1 x hx).1, (h1.1 x hx).2⟩
          · exact ⟨lift2 x (h2.1 x hx).1, (h2.1 x hx).2⟩
        · intro x hx
          simp only [List.mem_append] at hx
          rcases hx with hx | hx
          · exact ⟨lift1 x (.inr (.inl (List.ne_nil_of_mem hx))) (h1.2.1 x hx).1, (h1.2.1 x hx).2⟩
          · exact ⟨lift2 x (h2.2.1 x hx).1, (h2.2.1 x hx).2⟩
        · intro x hx
          simp only [List.mem_append] at hx
          rcases hx with hx | hx
          · exact ⟨lift1 x (.inr (.inr (List.ne_nil_of_mem hx))) (h1.2.2.1 x hx).1, (h1.2.2.1 x hx).2⟩
          · exact ⟨lift2 x (h2.2.2 x hx).1, (h2.2.2 x hx).2⟩

/-- Every present argument is returned; with `unknown="error"` every argument is present. -/
theorem split_self (s : Store) (ign : Bool) (fuel : Nat) :
    ∀ (lst : List Id) (r : List Id × List Id × List Id), split s ign fuel lst = .ok r →
      ∀ e ∈ lst, ((s e).isSome = true → e ∈ r.1 ∨ e ∈ r.2.1 ∨ e ∈ r.2.2) ∧
        (ign = false → (s e).isSome = true)
  | [], r, h => by simp
  | e0 :: rest, r, h => by
    unfold split at h
    split at h
    · cases h
    · rename_i a ha
      split at h
      · cases h
      · rename_i b hb
        cases h
        intro e he
        simp at he
        rcases he with rfl | he
        · refine ⟨?_, ?_⟩
          · intro hp
            rcases splitOne_self s ign fuel e a ha hp with h1 | h1 | h1
            · exact .inl (by simp [h1])
            · exact .inr (.inl (by simp [h1]))
            · exact .inr (.inr (by simp [h1]))
          · intro hi; subst hi; exact splitOne_present s fuel e a ha
        · have := split_self s ign fuel rest b hb e he
          refine ⟨?_, this.2⟩
          intro hp
          rcases this.1 hp with h1 | h1 | h1
          · exact .inl (by simp [h1])
          · exact .inr (.inl (by simp [h1]))
          · exact .inr (.inr (by simp [h1]))

theorem split_tagclosed (s : Store) (ign : Bool) (fuel : Nat) :
    ∀ (lst : List Id) (r : List Id × List Id × List Id), split s ign fuel lst = .ok r →
      ∀ t ∈ r.2.1, ∀ y, s t = some (.tag y) → (y ∈ r.1 ∨ y ∈ r.2.1 ∨ y ∈ r.2.2) ∨ s y = none
  | [], r, h => by simp [split] at h; cases h; simp
  | e0 :: rest, r, h => by
    unfold split at h
    split at h
    · cases h
    · rename_i a ha
      split at h
      · cases h
      · rename_i b hb
        cases h
        intro t ht y hy
        simp only [List.mem_append] at ht
        rcases ht with ht | ht
        · rcases splitOne_tagclosed s ign fuel e0 a ha t ht y hy with (h1 | h1 | h1) | h1
          · exact .inl (.inl (by simp [h1]))
          · exact .inl (.inr (.inl (by simp [h1])))
          · exact .inl (.inr (.inr (by simp [h1])))
          · exact .inr h1
        · rcases split_tagclosed s ign fuel rest b hb t ht y hy with (h1 | h1 | h1) | h1
          · exact .inl (.inl (by simp [h1]))
          · exact .inl (.inr (.inl (by simp [h1])))
          · exact .inl (.inr (.inr (by simp [h1])))
          · exact .inr h1

/-! ## `_collect_ancestors` -/

/-- Everything returned satisfies any predicate that holds on the inputs and is closed under
commit → parent; the bases are in `common`. -/
theorem collectAncestors_sound (s : Store) (common shallow : List Id) (P : Id → Prop)
    (hP : ∀ y t ps x, P y → s y = some (.commit t ps) → x ∈ ps → P x) :
    ∀ (fuel : Nat) (q cs bs : List Id) (r : List Id × List Id),
      collectAncestors s common shallow fuel q cs bs = .ok r →
      (∀ x ∈ q, P x) → (∀ x ∈ cs, P x) → (∀ x ∈ bs, P x ∧ x ∈ common) →
      (∀ x ∈ r.1, P x) ∧ (∀ x ∈ r.2, P x ∧ x ∈ common)
  | fuel, [], cs, bs, r, h, _, hcs, hbs => by
    cases fuel <;> (simp [collectAncestors] at h; cases h; exact ⟨hcs, hbs⟩)
  | 0, e :: q, cs, bs, r, h, _, _, _ => by simp [collectAncestors] at h
  | fuel + 1, e :: q, cs, bs, r, h, hq, hcs, hbs => by
    have hPe : P e := hq e (by simp)
    have hq' : ∀ x ∈ q, P x := fun x hx => hq x (by simp [hx])
    unfold collectAncestors at h
    split at h
    · rename_i hc
      exact collectAncestors_sound s common shallow P hP fuel q cs (e :: bs) r h hq' hcs
        (by intro x hx; simp at hx; rcases hx with rfl | hx; exact ⟨hPe, hc⟩; exact hbs x hx)
    · split at h
      · exact collectAncestors_sound s common shallow P hP fuel q cs bs r h hq' hcs hbs
      · split at h
        · exact collectAncestors_sound s common shallow P hP fuel q (e :: cs) bs r h hq'
            (by intro x hx; simp at hx; rcases hx with rfl | hx; exact hPe; exact hcs x hx) hbs
        · split at h
          · cases h
          · rename_i t ps hs
            refine collectAncestors_sound s common shallow P hP fuel (q ++ ps) (e :: cs) bs r h ?_ ?_ hbs
            · intro x hx
              simp only [List.mem_append] at hx
              rcases hx with hx | hx
              · exact hq' x hx
              · exact hP e t ps x hPe hs hx
            · intro x hx; simp at hx; rcases hx with rfl | hx; exact hPe; exact hcs x hx
          · cases h

/-- Invariant of the loop without a shallow cut: every collected commit is a commit whose parents
are in `common`, collected, or still queued. -/
def AncInv (s : Store) (common q cs : List Id) : Prop :=
  ∀ c ∈ cs, ∃ t ps, s c = some (.commit t ps) ∧ ∀ p ∈ ps, p ∈ common ∨ p ∈ cs ∨ p ∈ q

/-- Completeness of `_collect_ancestors` (no shallow cut): the collected set is closed under
"parent not in common", keeps what was collected, and every queued name ends up collected or is
a base. -/
theorem collectAncestors_complete (s : Store) (common : List Id) :
    ∀ (fuel : Nat) (q cs bs : List Id) (r : List Id × List Id),
      collectAncestors s common [] fuel q cs bs = .ok r → AncInv s common q cs →
      (∀ c ∈ r.1, ∃ t ps, s c = some (.commit t ps) ∧ ∀ p ∈ ps, p ∈ common ∨ p ∈ r.1) ∧
      (∀ x ∈ cs, x ∈ r.1) ∧ (∀ x ∈ bs, x ∈ r.2) ∧
      (∀ x ∈ q, (x ∈ common ∧ x ∈ r.2) ∨ x ∈ r.1)
  | fuel, [], cs, bs, r, h, inv => by
    cases fuel <;>
    · simp [collectAncestors] at h
      cases h
      refine ⟨?_, fun x hx => hx, fun x hx => hx, by simp⟩
      intro c hc
      obtain ⟨t, ps, hs, hp⟩ := inv c hc
      refine ⟨t, ps, hs, ?_⟩
      intro p hpm
      rcases hp p hpm with h1 | h1 | h1
      · exact .inl h1
      · exact .inr h1
      · simp at h1
  | 0, e :: q, cs, bs, r, h, _ => by simp [collectAncestors] at h
  | fuel + 1, e :: q, cs, bs, r, h, inv => by
    unfold collectAncestors at h
    split at h
    · rename_i hc
      -- e is common: becomes a base
      have inv' : AncInv s common q cs := by
        intro c hcm
        obtain ⟨t, ps, hs, hp⟩ := inv c hcm
        refine ⟨t, ps, hs, ?_⟩
        intro p hpm
        rcases hp p hpm with h1 | h1 | h1
        · exact .inl h1
        · exact .inr (.inl h1)
        · simp at h1
          rcases h1 with rfl | h1
          · exact .inl hc
          · exact .inr (.inr h1)
      have ih := collectAncestors_complete s common fuel q cs (e :: bs) r h inv'
      refine ⟨ih.1, ih.2.1, fun x hx => ih.2.2.1 x (by simp [hx]), ?_⟩
      intro x hx
      simp at hx
      rcases hx with rfl | hx
      · exact .inl ⟨hc, ih.2.2.1 x (by simp)⟩
      · exact ih.2.2.2 x hx
    · split at h
      · rename_i hnc hcs
        have inv' : AncInv s common q cs := by
          intro c hcm
          obtain ⟨t, ps, hs, hp⟩ := inv c hcm
          refine ⟨t, ps, hs, ?_⟩
          intro p hpm
          rcases hp p hpm with h1 | h1 | h1
          · exact .inl h1
          · exact .inr (.inl h1)
          · simp at h1
            rcases h1 with rfl | h1
            · exact .inr (.inl hcs)
            · exact .inr (.inr h1)
        have ih := collectAncestors_complete s common fuel q cs bs r h inv'
        refine ⟨ih.1, ih.2.1, ih.2.2.1, ?_⟩
        intro x hx
        simp at hx
        rcases hx with rfl | hx
        · exact .inr (ih.2.1 x hcs)
        · exact ih.2.2.2 x hx
      · split at h
        · rename_i hsh; simp at hsh
        · split at h
          · cases h
          · rename_i t ps hs
            have inv' : AncInv s common (q ++ ps) (e :: cs) := by
              intro c hcm
              simp at hcm
              rcases hcm with rfl | hcm
              · exact ⟨t, ps, hs, fun p hpm => .inr (.inr (by simp [hpm]))⟩
              · obtain ⟨t', ps', hs', hp⟩ := inv c hcm
                refine ⟨t', ps', hs', ?_⟩
                intro p hpm
                rcases hp p hpm with h1 | h1 | h1
                · exact .inl h1
                · exact .inr (.inl (by simp [h1]))
                · simp at h1
                  rcases h1 with rfl | h1
                  · exact .inr (.inl (by simp))
                  · exact .inr (.inr (by simp [h1]))
            have ih := collectAncestors_complete s common fuel (q ++ ps) (e :: cs) bs r h inv'
            refine ⟨ih.1, fun x hx => ih.2.1 x (by simp [hx]), ih.2.2.1, ?_⟩
            intro x hx
            simp at hx
            rcases hx with rfl | hx
            · exact .inr (ih.2.1 x (by simp))
            · exact ih.2.2.2 x (by simp [hx])
          · cases h

/-! ## `_collect_filetree_revs`, `get_tree_objects`, the `remote_has` loop -/

/-- `P` is closed under the edges of the object graph. -/
def EdgeClosed (s : Store) (P : Id → Prop) : Prop :=
  ∀ y o x, P y → s y = some o → x ∈ children o → P x

theorem reach_edgeClosed (s : Store) (r : List Id) : EdgeClosed s (Reach s r) :=
  fun _ _ _ hy hs hx => .step hy hs hx

theorem mem_treeKids {es : List (Kind × Id)} {e : Kind × Id} (he : e ∈ es) (hk : e.1 ≠ Kind.gitlink) :
    e.2 ∈ treeKids es := by
  simp only [treeKids, List.mem_map, List.mem_filter]
  exact ⟨e, ⟨he, by simpa using hk⟩, rfl⟩

theorem cftr_sound (s : Store) (P : Id → Prop) (hP : EdgeClosed s P) :
    ∀ (fuel : Nat) (st : List (List (Kind × Id))) (k r : List Id), cftr s fuel st k = .ok r →
      (∀ es ∈ st, ∀ e ∈ es, e.1 ≠ Kind.gitlink → P e.2) → (∀ x ∈ k, P x) → ∀ x ∈ r, P x
  | fuel, [], k, r, h, _, hk => by
    cases fuel <;> (simp [cftr] at h; cases h; exact hk)
  | 0, _ :: _, k, r, h, _, _ => by simp [cftr] at h
  | fuel + 1, [] :: st, k, r, h, hst, hk => by
    simp only [cftr] at h
    exact cftr_sound s P hP fuel st k r h (fun es hes => hst es (by simp [hes])) hk
  | fuel + 1, (e :: es) :: st, k, r, h, hst, hk => by
    have hrest : ∀ es' ∈ es :: st, ∀ e' ∈ es', e'.1 ≠ Kind.gitlink → P e'.2 := by
      intro es' hes' e' he' hg
      simp at hes'
      rcases hes' with rfl | hes'
      · exact hst (e :: es') (by simp) e' (by simp [he']) hg
      · exact hst es' (by simp [hes']) e' he' hg
    unfold cftr at h
    split at h
    · exact cftr_sound s P hP fuel (es :: st) k r h hrest hk
    · rename_i hcond
      have hg : e.1 ≠ Kind.gitlink := by
        intro hgl
        apply hcond
        simp [Gen.cftrSkipsGitlinks, hgl]
      have hPe : P e.2 := hst (e :: es) (by simp) e (by simp) hg
      have hk' : ∀ x ∈ e.2 :: k, P x := by
        intro x hx; simp at hx; rcases hx with rfl | hx; exact hPe; exact hk x hx
      split at h
      · split at h
        · cases h
        · rename_i es' hs
          refine cftr_sound s P hP fuel (es' :: es :: st) (e.2 :: k) r h ?_ hk'
          intro es'' hes'' e' he' hg'
          simp only [List.mem_cons] at hes''
          rcases hes'' with rfl | hes''
          · exact hP e.2 _ e'.2 hPe hs (by simpa [children] using mem_treeKids he' hg')
          · exact hrest es'' (by simpa using hes'') e' he' hg'
        · cases h
      · exact cftr_sound s P hP fuel (es :: st) (e.2 :: k) r h hrest hk'

theorem treeObjects_sound (s : Store) (P : Id → Prop) (hP : EdgeClosed s P) (fuel : Nat) (t : Id)
    (r : List Id) (h : treeObjects s fuel t = .ok r) (ht : P t) : ∀ x ∈ r, P x := by
  unfold treeObjects at h
  split at h
  · cases h
  · rename_i es hs
    refine cftr_sound s P hP fuel [es] _ r h ?_ ?_
    · intro es' hes' e he hg
      simp at hes'; subst hes'
      exact hP t _ e.2 ht hs (by simpa [children] using mem_treeKids he hg)
    · intro x hx
      split at hx
      · simp at hx; subst hx; exact ht
      · simp at hx
  · cases h

theorem remoteHas_sound (s : Store) (P : Id → Prop) (hP : EdgeClosed s P) (fuel : Nat) :
    ∀ (l r : List Id), remoteHas s fuel l = .ok r → (∀ x ∈ l, P x) → ∀ x ∈ r, P x
  | [], r, h, _ => by simp [remoteHas] at h; cases h; simp
  | c :: rest, r, h, hl => by
    unfold remoteHas at h
    split at h
    · cases h
    · rename_i t ps hs
      split at h
      · cases h
      · rename_i k hk
        split at h
        · cases h
        · rename_i r' hr'
          cases h
          have hc : P c := hl c (by simp)
          have h1 := treeObjects_sound s P hP fuel t k hk (hP c _ t hc hs (by simp [children]))
          have h2 := remoteHas_sound s P hP fuel rest r' hr' (fun x hx => hl x (by simp [hx]))
          intro x hx
          simp only [List.mem_cons, List.mem_append] at hx
          rcases hx with (rfl | hx) | hx
          · exact hc
          · exact h1 x hx
          · exact h2 x hx
    · cases h

/-- Every listed commit is itself part of `remote_has`. -/
theorem remoteHas_self (s : Store) (fuel : Nat) :
    ∀ (l r : List Id), remoteHas s fuel l = .ok r → ∀ x ∈ l, x ∈ r
  | [], r, h => by simp
  | c :: rest, r, h => by
    unfold remoteHas at h
    split at h
    · cases h
    · split at h
      · cases h
      · split at h
        · cases h
        · rename_i r' hr'
          cases h
          intro x hx
          simp at hx
          rcases hx with rfl | hx
          · simp
          · have := remoteHas_self s fuel rest r' hr' x hx
            simp [this]
    · cases h

/-! ## `MissingObjectFinder.__init__` -/

/-- The pieces `init` is made of. -/
structure InitParts (s : Store) (fuel : Nat) (haves wants shallow : List Id) (st0 : St) where
  hh : List Id × List Id × List Id
  w : List Id × List Id × List Id
  anc : List Id × List Id
  mc : List Id × List Id
  rh : List Id
  hsplit : split s true fuel haves = .ok hh
  wsplit : split s false fuel wants = .ok w
  hanc : collectAncestors s [] shallow fuel hh.1 [] [] = .ok anc
  hmc : collectAncestors s anc.1 shallow fuel w.1 [] [] = .ok mc
  hrh : remoteHas s fuel mc.2 = .ok rh
  htodo : st0.todo = (mc.1.map fun c => (c, false)) ++
      ((w.2.1.filter fun t => t ∉ hh.2.1).map fun t => (t, false)) ++
      ((w.2.2.filter fun o => o ∉ hh.2.2).map fun o => (o, false))
  hdone : st0.done = hh.2.1 ++ rh
  hsent : st0.sent = []

theorem init_parts {s : Store} {fuel : Nat} {haves wants shallow : List Id} {st0 : St}
    (h : init s fuel haves wants shallow = .ok st0) :
    Nonempty (InitParts s fuel haves wants shallow st0) := by
  unfold init at h
  split at h
  · cases h
  · rename_i hh hsplit
    split at h
    · cases h
    · rename_i w wsplit
      split at h
      · cases h
      · rename_i anc hanc
        split at h
        · cases h
        · rename_i mc hmc
          split at h
          · cases h
          · rename_i rh hrh
            cases h
            exact ⟨⟨hh, w, anc, mc, rh, hsplit, wsplit, hanc, hmc, hrh, rfl, rfl, rfl⟩⟩

/-! ## the walk -/

theorem expand_sound {s : Store} {x : Id} {kids : List (Id × Bool)} (h : expand s x = .ok kids) :
    ∃ o, s x = some o ∧ ∀ e ∈ kids, e.1 ∈ children o := by
  unfold expand at h
  split at h
  · cases h
  · rename_i t ps hs
    cases h
    exact ⟨_, hs, by simp [children]⟩
  · rename_i es hs
    cases h
    refine ⟨_, hs, ?_⟩
    intro e he
    simp only [List.mem_filterMap] at he
    obtain ⟨a, ha, hf⟩ := he
    split at hf
    · cases hf
    · rename_i hcond
      cases hf
      have hg : a.1 ≠ Kind.gitlink := by
        intro hgl; apply hcond; simp [Gen.mofTreeSkipsGitlinks, hgl]
      simpa [children] using mem_treeKids ha hg
  · rename_i t hs
    cases h
    exact ⟨_, hs, by simp [children]⟩
  · rename_i hs
    cases h
    exact ⟨_, hs, by simp⟩

theorem mem_addTodo {done : List Id} {entries todo : List (Id × Bool)} {e : Id × Bool}
    (h : e ∈ addTodo done entries todo) : e ∈ entries ∨ e ∈ todo := by
  simp only [addTodo, List.mem_append, List.mem_filter] at h
  rcases h with h | h
  · exact .inl h.1
  · exact .inr h

/-- Soundness invariant of the walk: every queued non-leaf entry and everything yielded is
reachable from the wants; the only other entries are leaf entries for auto-followed tags. -/
def SInv (s : Store) (wants : List Id) (tagged : List (Id × Id)) (st : St) : Prop :=
  (∀ e ∈ st.todo, Reach s wants e.1 ∨ (e.2 = true ∧ e.1 ∈ tagged.map (·.2))) ∧
  (∀ x ∈ st.sent, Reach s wants x ∨ x ∈ tagged.map (·.2))

theorem lookup_mem {tagged : List (Id × Id)} {x t : Id} (h : tagged.lookup x = some t) :
    t ∈ tagged.map (·.2) := by
  induction tagged with
  | nil => simp [List.lookup] at h
  | cons p rest ih =>
    simp only [List.lookup] at h
    split at h
    · cases h; simp
    · simp [ih h]

theorem step_sinv {s : Store} {wants : List Id} {tagged : List (Id × Id)} {i : Nat} {st st' : St}
    (inv : SInv s wants tagged st) (h : step s tagged i st = .ok st') : SInv s wants tagged st' := by
  unfold step at h
  split at h
  · cases h; exact inv
  · rename_i x leaf hget
    have hmem : (x, leaf) ∈ st.todo := List.mem_of_getElem? hget
    have herase : ∀ e ∈ st.todo.eraseIdx i, e ∈ st.todo := fun e he => List.mem_of_mem_eraseIdx he
    split at h
    · cases h
      exact ⟨fun e he => inv.1 e (herase e he), inv.2⟩
    · split at h
      · cases h
      · rename_i kids hkids
        cases h
        have hx := inv.1 _ hmem
        refine ⟨?_, ?_⟩
        · intro e he
          rcases mem_addTodo he with he | he
          · -- the auto-followed tag
            split at he
            · rename_i t ht
              simp at he; subst he
              exact .inr ⟨by simp [Gen.mofTaggedLeaf], lookup_mem ht⟩
            · simp at he
          · rcases mem_addTodo he with he | he
            · -- children of x: x was expanded, so it is a non-leaf entry, hence reachable
              cases leaf with
              | true => simp at hkids; cases hkids; simp at he
              | false =>
                simp at hkids
                obtain ⟨o, hs, hk⟩ := expand_sound hkids
                rcases hx with hx | hx
                · exact .inl (.step hx hs (hk e he))
                · simp at hx
            · exact inv.1 e (herase e he)
        · intro y hy
          simp at hy
          rcases hy with rfl | hy
          · rcases hx with hx | hx
            · exact .inl hx
            · exact .inr hx.2
          · exact inv.2 y hy

theorem run_sinv {s : Store} {wants : List Id} {tagged : List (Id × Id)}
    {pick : Nat → List (Id × Bool) → Nat} :
    ∀ (fuel : Nat) (st st' : St), SInv s wants tagged st → run s tagged pick fuel st = .ok st' →
      SInv s wants tagged st'
  | 0, st, st', inv, h => by
    unfold run at h
    split at h
    · cases h; exact inv
    · cases h
  | fuel + 1, st, st', inv, h => by
    unfold run at h
    split at h
    · cases h; exact inv
    · split at h
      · cases h
      · rename_i st1 hst1
        exact run_sinv fuel st1 st' (step_sinv inv hst1) h

/-- The edges the walk follows from a loaded object (a commit's parents are not among them: the
commits to send were fixed by `_collect_ancestors`). -/
def walkKids : Obj → List Id
  | .commit t _ => [t]
  | .tree es => treeKids es
  | .blob => []
  | .tag y => [y]

theorem expand_complete {s : Store} {x : Id} {kids : List (Id × Bool)} {o : Obj}
    (h : expand s x = .ok kids) (hs : s x = some o) : ∀ c ∈ walkKids o, ∃ lf, (c, lf) ∈ kids := by
  unfold expand at h
  rw [hs] at h
  cases o with
  | commit t ps =>
    simp at h; cases h; intro c hc; simp [walkKids] at hc; subst hc
    exact ⟨Gen.mofCommitTreeLeaf, by simp⟩
  | tree es =>
    simp at h; cases h
    intro c hc
    simp only [walkKids, treeKids, List.mem_map, List.mem_filter] at hc
    obtain ⟨e, ⟨he, hg⟩, rfl⟩ := hc
    refine ⟨Gen.mofEntryLeafIsNotDir && e.1 != Kind.dir, ?_⟩
    simp only [List.mem_filterMap]
    refine ⟨e, he, ?_⟩
    have hne : ¬ e.1 = Kind.gitlink := by simpa using hg
    simp [hne]
  | blob => simp [walkKids]
  | tag y =>
    simp at h; cases h; intro c hc; simp [walkKids] at hc; subst hc
    exact ⟨Gen.mofTagTargetLeaf, by simp⟩

/-- Typing of the entries produced by loading an object of a well-typed store. -/
theorem expand_entries {s : Store} {x : Id} {kids : List (Id × Bool)} (hwt : WellTyped s)
    (h : expand s x = .ok kids) :
    ∀ e ∈ kids, (e.2 = true → s e.1 = none ∨ s e.1 = some .blob) ∧
      (e.2 = false → (s x = some (.tag e.1)) ∨ isTreeOrAbsent (s e.1) = true) := by
  unfold expand at h
  split at h
  · cases h
  · rename_i t ps hs
    cases h
    intro e he
    simp at he; subst he
    have := hwt x _ hs
    simp only at this
    exact ⟨by simp [Gen.mofCommitTreeLeaf], fun _ => .inr this⟩
  · rename_i es hs
    cases h
    intro e he
    simp only [List.mem_filterMap] at he
    obtain ⟨a, ha, hf⟩ := he
    have hw := hwt x _ hs
    simp only at hw
    split at hf
    · cases hf
    · rename_i hcond
      cases hf
      have hg : a.1 ≠ Kind.gitlink := by
        intro hgl; apply hcond; simp [Gen.mofTreeSkipsGitlinks, hgl]
      refine ⟨?_, ?_⟩
      · intro hl
        simp [Gen.mofEntryLeafIsNotDir] at hl
        have hfile : a.1 = Kind.file := by
          cases hk : a.1 <;> simp_all
        have := (hw a ha).2 hfile
        cases hsa : s a.2 with
        | none => exact .inl rfl
        | some o => cases o <;> simp_all [isBlobOrAbsent]
      · intro hl
        simp [Gen.mofEntryLeafIsNotDir] at hl
        exact .inr ((hw a ha).1 hl)
  · rename_i t hs
    cases h
    intro e he
    simp at he; subst he
    exact ⟨by simp [Gen.mofTagTargetLeaf], fun _ => .inl hs⟩
  · cases h; simp

/-! ## completeness invariant of the walk -/

section Complete
variable {s : Store} {tagged : List (Id × Id)} (Rh : Id → Prop) (M D0 WT : List Id)

/-- `c` is taken care of: already done, still queued, or held by the receiver. -/
def Cov (st : St) (c : Id) : Prop := c ∈ st.done ∨ (∃ lf, (c, lf) ∈ st.todo) ∨ Rh c

/-- Completeness invariant (`s`, `tagged` and the sets computed by `__init__` are fixed):
`M` = missing commits, `D0` = initial `sha_done`, `WT` = tags reachable through tag chains from the
wants. -/
structure CInv (s : Store) (tagged : List (Id × Id)) (Rh : Id → Prop) (M D0 WT : List Id) (st : St) :
    Prop where
  done_split : ∀ x ∈ st.done, x ∈ D0 ∨ x ∈ st.sent
  sent_kids : ∀ x ∈ st.sent, ∀ o, s x = some o → ∀ c ∈ walkKids o, Cov Rh st c
  sent_commit : ∀ x ∈ st.sent, ∀ t ps, s x = some (.commit t ps) → x ∈ M
  sent_tag : ∀ x ∈ st.sent, ∀ t, tagged.lookup x = some t → Cov Rh st t
  nonleaf : ∀ e ∈ st.todo, e.2 = false →
    (∀ t ps, s e.1 = some (.commit t ps) → e.1 ∈ M ∨ e.1 ∈ D0) ∧
    (∀ y, s e.1 = some (.tag y) → e.1 ∈ WT)
  leaf : ∀ e ∈ st.todo, e.2 = true →
    s e.1 = none ∨ s e.1 = some .blob ∨ ∃ y, s e.1 = some (.tag y) ∧ y ∈ st.done
  d0 : ∀ x ∈ D0, x ∈ st.done

theorem mem_eraseIdx_or {α : Type} {l : List α} {i : Nat} {a b : α} (hget : l[i]? = some a)
    (hb : b ∈ l) : b = a ∨ b ∈ l.eraseIdx i := by
  induction l generalizing i with
  | nil => simp at hb
  | cons h t ih =>
    cases i with
    | zero =>
      simp at hget; subst hget
      simp at hb ⊢
      exact hb
    | succ j =>
      simp at hget
      simp only [List.mem_cons] at hb
      rcases hb with rfl | hb
      · exact .inr (by simp [List.eraseIdx])
      · rcases ih hget hb with h1 | h1
        · exact .inl h1
        · exact .inr (by simp [List.eraseIdx, h1])

theorem mem_addTodo_of {done : List Id} {entries todo : List (Id × Bool)} {e : Id × Bool}
    (h : e ∈ entries) (hd : e.1 ∉ done) : e ∈ addTodo done entries todo := by
  simp only [addTodo, List.mem_append, List.mem_filter]
  exact .inl ⟨h, by simpa using hd⟩

theorem mem_addTodo_old {done : List Id} {entries todo : List (Id × Bool)} {e : Id × Bool}
    (h : e ∈ todo) : e ∈ addTodo done entries todo := by
  simp only [addTodo, List.mem_append]
  exact .inr h

/-- `Cov` is monotone along the walk. -/
theorem cov_step {i : Nat} {st st' : St} (h : step s tagged i st = .ok st') {c : Id}
    (hc : Cov Rh st c) : Cov Rh st' c := by
  unfold step at h
  split at h
  · cases h; exact hc
  · rename_i x leaf hget
    split at h
    · rename_i hxd
      cases h
      rcases hc with hc | ⟨lf, hc⟩ | hc
      · exact .inl hc
      · rcases mem_eraseIdx_or hget hc with h1 | h1
        · cases h1; exact .inl hxd
        · exact .inr (.inl ⟨lf, h1⟩)
      · exact .inr (.inr hc)
    · split at h
      · cases h
      · cases h
        rcases hc with hc | ⟨lf, hc⟩ | hc
        · exact .inl (by simp [hc])
        · rcases mem_eraseIdx_or hget hc with h1 | h1
          · cases h1; exact .inl (by simp)
          · exact .inr (.inl ⟨lf, mem_addTodo_old (mem_addTodo_old h1)⟩)
        · exact .inr (.inr hc)

variable (hwt : WellTyped s) (htg : TaggedDirect s tagged)
  (hWT : ∀ t ∈ WT, ∀ y, s t = some (.tag y) →
    (∀ t' ps, s y = some (.commit t' ps) → y ∈ M ∨ y ∈ D0) ∧ (∀ z, s y = some (.tag z) → y ∈ WT))

include hwt htg hWT in
theorem step_cinv {i : Nat} {st st' : St} (inv : CInv s tagged Rh M D0 WT st)
    (h : step s tagged i st = .ok st') : CInv s tagged Rh M D0 WT st' := by
  have hcov := fun c (hc : Cov Rh st c) => cov_step (tagged := tagged) Rh h hc
  unfold step at h
  split at h
  · cases h; exact inv
  · rename_i x leaf hget
    have hmem : (x, leaf) ∈ st.todo := List.mem_of_getElem? hget
    have herase : ∀ e ∈ st.todo.eraseIdx i, e ∈ st.todo := fun e he => List.mem_of_mem_eraseIdx he
    split at h
    · -- already done: the entry is dropped
      cases h
      exact { done_split := inv.done_split
              sent_kids := fun y hy o hs c hc => hcov c (inv.sent_kids y hy o hs c hc)
              sent_commit := inv.sent_commit
              sent_tag := fun y hy t ht => hcov t (inv.sent_tag y hy t ht)
              nonleaf := fun e he => inv.nonleaf e (herase e he)
              leaf := fun e he => inv.leaf e (herase e he)
              d0 := inv.d0 }
    · rename_i hxd
      split at h
      · cases h
      · rename_i kids hkids
        cases h
        -- facts about the new entries
        have hkidsT : ∀ e ∈ kids, (e.2 = true → s e.1 = none ∨ s e.1 = some .blob) ∧
            (e.2 = false → (leaf = false ∧ s x = some (.tag e.1)) ∨ isTreeOrAbsent (s e.1) = true) := by
          cases leaf with
          | true => simp at hkids; cases hkids; simp
          | false =>
            simp at hkids
            intro e he
            have := expand_entries hwt hkids e he
            exact ⟨this.1, fun hl => (this.2 hl).imp (fun h1 => ⟨rfl, h1⟩) id⟩
        refine { done_split := ?_, sent_kids := ?_, sent_commit := ?_, sent_tag := ?_, nonleaf := ?_,
                 leaf := ?_, d0 := ?_ }
        · intro y hy
          simp only [List.mem_cons] at hy
          rcases hy with rfl | hy
          · exact .inr (by simp)
          · exact (inv.done_split y hy).imp id (fun h1 => by simp [h1])
        · intro y hy o hs c hc
          simp only [List.mem_cons] at hy
          rcases hy with rfl | hy
          · -- the object just yielded
            cases leaf with
            | false =>
              simp at hkids
              obtain ⟨lf, hlf⟩ := expand_complete hkids hs c hc
              by_cases hcd : c ∈ st.done
              · exact .inl (by simp [hcd])
              · exact .inr (.inl ⟨lf, mem_addTodo_old (mem_addTodo_of hlf hcd)⟩)
            | true =>
              rcases inv.leaf _ hmem rfl with h1 | h1 | ⟨z, h1, hz⟩
              · simp [h1] at hs
              · simp only [h1] at hs; cases hs; simp [walkKids] at hc
              · simp only [h1] at hs; cases hs; simp [walkKids] at hc; subst hc
                exact .inl (by simp [hz])
          · exact hcov c (inv.sent_kids y hy o hs c hc)
        · intro y hy t ps hs
          simp only [List.mem_cons] at hy
          rcases hy with rfl | hy
          · cases leaf with
            | false =>
              rcases (inv.nonleaf _ hmem rfl).1 t ps hs with h1 | h1
              · exact h1
              · exact absurd (inv.d0 _ h1) hxd
            | true =>
              rcases inv.leaf _ hmem rfl with h1 | h1 | ⟨z, h1, _⟩ <;> simp [h1] at hs
          · exact inv.sent_commit y hy t ps hs
        · intro y hy t ht
          simp only [List.mem_cons] at hy
          rcases hy with rfl | hy
          · by_cases htd : t ∈ st.done
            · exact .inl (by simp [htd])
            · refine .inr (.inl ⟨Gen.mofTaggedLeaf, mem_addTodo_of ?_ htd⟩)
              simp [ht]
          · exact hcov t (inv.sent_tag y hy t ht)
        · intro e he hl
          rcases mem_addTodo he with he | he
          · -- tagged entry is a leaf
            split at he
            · simp at he; subst he; simp [Gen.mofTaggedLeaf] at hl
            · simp at he
          · rcases mem_addTodo he with he | he
            · rcases (hkidsT e he).2 hl with ⟨hlf, h1⟩ | h1
              · -- target of a tag reachable from the wants
                subst hlf
                have hxWT := (inv.nonleaf _ hmem rfl).2 e.1 h1
                exact hWT x hxWT e.1 h1
              · refine ⟨?_, ?_⟩
                · intro t ps hs; simp [hs, isTreeOrAbsent] at h1
                · intro y hs; simp [hs, isTreeOrAbsent] at h1
            · exact inv.nonleaf e (herase e he) hl
        · intro e he hl
          rcases mem_addTodo he with he | he
          · split at he
            · rename_i t ht
              simp at he; subst he
              rcases htg x t ht with h1 | h1
              · exact .inr (.inr ⟨x, h1, by simp⟩)
              · exact .inl h1
            · simp at he
          · rcases mem_addTodo he with he | he
            · rcases (hkidsT e he).1 hl with h1 | h1
              · exact .inl h1
              · exact .inr (.inl h1)
            · rcases inv.leaf e (herase e he) hl with h1 | h1 | ⟨z, h1, hz⟩
              · exact .inl h1
              · exact .inr (.inl h1)
              · exact .inr (.inr ⟨z, h1, by simp [hz]⟩)
        · intro y hy
          simp [inv.d0 y hy]

include hwt htg hWT in
theorem run_cinv {pick : Nat → List (Id × Bool) → Nat} :
    ∀ (fuel : Nat) (st st' : St), CInv s tagged Rh M D0 WT st → run s tagged pick fuel st = .ok st' →
      CInv s tagged Rh M D0 WT st' ∧ st'.todo = [] ∧ ∀ c, Cov Rh st c → Cov Rh st' c
  | 0, st, st', inv, h => by
    unfold run at h
    split at h
    · rename_i hnil; cases h; exact ⟨inv, hnil, fun _ hc => hc⟩
    · cases h
  | fuel + 1, st, st', inv, h => by
    unfold run at h
    split at h
    · rename_i hnil; cases h; exact ⟨inv, hnil, fun _ hc => hc⟩
    · split at h
      · cases h
      · rename_i st1 hst1
        have ih := run_cinv fuel st1 st' (step_cinv Rh M D0 WT hwt htg hWT inv hst1) h
        exact ⟨ih.1, ih.2.1, fun c hc => ih.2.2 c (cov_step Rh hst1 hc)⟩

end Complete

theorem present_sub (s : Store) (l : List Id) : ∀ x ∈ present s l, x ∈ l := by
  intro x hx; simp only [present, List.mem_filter] at hx; exact hx.1

theorem init_sinv {s : Store} {fuel : Nat} {haves wants shallow : List Id} {st0 : St}
    (tagged : List (Id × Id)) (h : init s fuel haves wants shallow = .ok st0) :
    SInv s wants tagged st0 := by
  obtain ⟨p⟩ := init_parts h
  have hw := split_sound s false fuel wants p.w p.wsplit
  have up : ∀ x, Reach s (present s wants) x → Reach s wants x :=
    fun x hx => Reach.mono (present_sub s wants) hx
  have hmc := collectAncestors_sound s p.anc.1 shallow (Reach s wants)
    (fun y t ps x hy hs hx => .step hy hs (by simp [children, hx])) fuel p.w.1 [] [] p.mc p.hmc
    (fun x hx => up x (hw.1 x hx).1) (by simp) (by simp)
  refine ⟨?_, by simp [p.hsent]⟩
  intro e he
  rw [p.htodo] at he
  simp only [List.mem_append, List.mem_map, List.mem_filter] at he
  rcases he with (⟨c, hc, rfl⟩ | ⟨t, ⟨ht, _⟩, rfl⟩) | ⟨o, ⟨ho, _⟩, rfl⟩
  · exact .inl (hmc.1 c hc)
  · exact .inl (up t (hw.2.1 t ht).1)
  · exact .inl (up o (hw.2.2 o ho).1)

/-! ## completeness of `MissingObjectFinder` (no shallow cut) -/

/-- The invariant holds for the state `__init__` builds (any `Rh`), together with the fact about
tag targets that `step_cinv` needs. -/
theorem init_cinv {s : Store} {tagged : List (Id × Id)} {fuel : Nat} {haves wants : List Id} {st0 : St}
    (Rh : Id → Prop) (p : InitParts s fuel haves wants [] st0) :
    (∀ t ∈ p.w.2.1, ∀ y, s t = some (.tag y) →
      (∀ t' ps, s y = some (.commit t' ps) → y ∈ p.mc.1 ∨ y ∈ st0.done) ∧
      (∀ z, s y = some (.tag z) → y ∈ p.w.2.1)) ∧
    CInv s tagged Rh p.mc.1 st0.done p.w.2.1 st0 := by
  have hws := split_sound s false fuel wants p.w p.wsplit
  have hwtag := split_tagclosed s false fuel wants p.w p.wsplit
  have hrhself := remoteHas_self s fuel p.mc.2 p.rh p.hrh
  have hcompl := collectAncestors_complete s p.anc.1 fuel p.w.1 [] [] p.mc p.hmc
    (by intro c hc; simp at hc)
  have hC1 := hcompl.1
  have hC4 := hcompl.2.2.2
  have hmc2D0 : ∀ x ∈ p.mc.2, x ∈ st0.done := by
    intro x hx; rw [p.hdone]; simp [hrhself x hx]
  refine ⟨?_, ?_⟩
  · intro t ht y hs
    have hy := hwtag t ht y hs
    refine ⟨?_, ?_⟩
    · intro t' ps hsy
      rcases hy with (h1 | h1 | h1) | h1
      · rcases hC4 y h1 with h2 | h2
        · exact .inr (hmc2D0 y h2.2)
        · exact .inl h2
      · obtain ⟨z, hz⟩ := (hws.2.1 y h1).2; simp [hz] at hsy
      · exact absurd hsy ((hws.2.2 y h1).2.2.1 t' ps)
      · simp [h1] at hsy
    · intro z hsy
      rcases hy with (h1 | h1 | h1) | h1
      · obtain ⟨t', ps, hz⟩ := (hws.1 y h1).2; simp [hz] at hsy
      · exact h1
      · exact absurd hsy ((hws.2.2 y h1).2.2.2 z)
      · simp [h1] at hsy
  · refine { done_split := fun x hx => .inl hx, sent_kids := ?_, sent_commit := ?_, sent_tag := ?_,
             nonleaf := ?_, leaf := ?_, d0 := fun x hx => hx }
    · intro x hx; simp [p.hsent] at hx
    · intro x hx; simp [p.hsent] at hx
    · intro x hx; simp [p.hsent] at hx
    · intro e he _
      rw [p.htodo] at he
      simp only [List.mem_append, List.mem_map, List.mem_filter] at he
      rcases he with (⟨c, hc, rfl⟩ | ⟨t, ⟨ht, _⟩, rfl⟩) | ⟨o, ⟨ho, _⟩, rfl⟩
      · refine ⟨fun _ _ _ => .inl hc, ?_⟩
        intro y hsy
        obtain ⟨t', ps, hz, _⟩ := hC1 c hc
        simp [hz] at hsy
      · refine ⟨?_, fun _ _ => ht⟩
        intro t' ps hsy
        obtain ⟨z, hz⟩ := (hws.2.1 t ht).2
        simp [hz] at hsy
      · refine ⟨?_, ?_⟩
        · intro t' ps hsy; exact absurd hsy ((hws.2.2 o ho).2.2.1 t' ps)
        · intro y hsy; exact absurd hsy ((hws.2.2 o ho).2.2.2 y)
    · intro e he hl
      rw [p.htodo] at he
      simp only [List.mem_append, List.mem_map, List.mem_filter] at he
      rcases he with (⟨c, _, rfl⟩ | ⟨t, _, rfl⟩) | ⟨o, _, rfl⟩ <;> simp at hl

/-! ## the selected set does not depend on the pop order -/

/-- Order-free description of what the walk yields: start from the initial queue, follow the walk's
edges and the auto-tag map, never enter the initial `sha_done`. -/
inductive Sel (s : Store) (tagged : List (Id × Id)) (D0 R0 : List Id) : Id → Prop where
  | root {x : Id} : x ∈ R0 → x ∉ D0 → Sel s tagged D0 R0 x
  | kid {y c : Id} {o : Obj} : Sel s tagged D0 R0 y → s y = some o → c ∈ walkKids o → c ∉ D0 →
      Sel s tagged D0 R0 c
  | tag {y t : Id} : Sel s tagged D0 R0 y → tagged.lookup y = some t → t ∉ D0 → Sel s tagged D0 R0 t

theorem expand_walk {s : Store} {x : Id} {kids : List (Id × Bool)} (h : expand s x = .ok kids) :
    ∃ o, s x = some o ∧ ∀ e ∈ kids, e.1 ∈ walkKids o := by
  unfold expand at h
  split at h
  · cases h
  · rename_i t ps hs
    cases h
    exact ⟨_, hs, by simp [walkKids]⟩
  · rename_i es hs
    cases h
    refine ⟨_, hs, ?_⟩
    intro e he
    simp only [List.mem_filterMap] at he
    obtain ⟨a, ha, hf⟩ := he
    split at hf
    · cases hf
    · rename_i hcond
      cases hf
      have hg : a.1 ≠ Kind.gitlink := by
        intro hgl; apply hcond; simp [Gen.mofTreeSkipsGitlinks, hgl]
      simpa [walkKids] using mem_treeKids ha hg
  · rename_i t hs
    cases h
    exact ⟨_, hs, by simp [walkKids]⟩
  · rename_i hs
    cases h
    exact ⟨_, hs, by simp⟩

/-- Everything queued outside `D0`, and everything yielded, is selected. -/
def SelInv (s : Store) (tagged : List (Id × Id)) (D0 R0 : List Id) (st : St) : Prop :=
  (∀ e ∈ st.todo, e.1 ∉ D0 → Sel s tagged D0 R0 e.1) ∧ (∀ x ∈ st.sent, Sel s tagged D0 R0 x) ∧
  (∀ x ∈ D0, x ∈ st.done)

theorem step_selinv {s : Store} {tagged : List (Id × Id)} {D0 R0 : List Id} {i : Nat} {st st' : St}
    (inv : SelInv s tagged D0 R0 st) (h : step s tagged i st = .ok st') : SelInv s tagged D0 R0 st' := by
  unfold step at h
  split at h
  · cases h; exact inv
  · rename_i x leaf hget
    have hmem : (x, leaf) ∈ st.todo := List.mem_of_getElem? hget
    have herase : ∀ e ∈ st.todo.eraseIdx i, e ∈ st.todo := fun e he => List.mem_of_mem_eraseIdx he
    split at h
    · cases h
      exact ⟨fun e he => inv.1 e (herase e he), inv.2.1, inv.2.2⟩
    · rename_i hxd
      split at h
      · cases h
      · rename_i kids hkids
        cases h
        have hxD0 : x ∉ D0 := fun hx => hxd (inv.2.2 x hx)
        have hx : Sel s tagged D0 R0 x := inv.1 _ hmem hxD0
        refine ⟨?_, ?_, ?_⟩
        · intro e he hne
          rcases mem_addTodo he with he | he
          · split at he
            · rename_i t ht
              simp at he; subst he
              exact .tag hx ht hne
            · simp at he
          · rcases mem_addTodo he with he | he
            · cases leaf with
              | true => simp at hkids; cases hkids; simp at he
              | false =>
                simp at hkids
                obtain ⟨o, hs, hk⟩ := expand_walk hkids
                exact .kid hx hs (hk e he) hne
            · exact inv.1 e (herase e he) hne
        · intro y hy
          simp only [List.mem_cons] at hy
          rcases hy with rfl | hy
          · exact hx
          · exact inv.2.1 y hy
        · intro y hy; simp [inv.2.2 y hy]

theorem run_selinv {s : Store} {tagged : List (Id × Id)} {D0 R0 : List Id}
    {pick : Nat → List (Id × Bool) → Nat} :
    ∀ (fuel : Nat) (st st' : St), SelInv s tagged D0 R0 st → run s tagged pick fuel st = .ok st' →
      SelInv s tagged D0 R0 st'
  | 0, st, st', inv, h => by
    unfold run at h
    split at h
    · cases h; exact inv
    · cases h
  | fuel + 1, st, st', inv, h => by
    unfold run at h
    split at h
    · cases h; exact inv
    · split at h
      · cases h
      · rename_i st1 hst1
        exact run_selinv fuel st1 st' (step_selinv inv hst1) h

/-- The yielded set is exactly `Sel`, whatever the pop order. -/
theorem run_eq_sel {s : Store} {tagged : List (Id × Id)} {pick : Nat → List (Id × Bool) → Nat}
    {fuel : Nat} {haves wants : List Id} {st0 st : St} (hwt : WellTyped s) (htg : TaggedDirect s tagged)
    (h0 : init s fuel haves wants [] = .ok st0) (hrun : run s tagged pick fuel st0 = .ok st) :
    ∀ x, x ∈ st.sent ↔ Sel s tagged st0.done (st0.todo.map (·.1)) x := by
  obtain ⟨p⟩ := init_parts h0
  have sel0 : SelInv s tagged st0.done (st0.todo.map (·.1)) st0 := by
    refine ⟨?_, by simp [p.hsent], fun x hx => hx⟩
    intro e he hne
    exact .root (List.mem_map.mpr ⟨e, he, rfl⟩) hne
  have selF := run_selinv fuel st0 st sel0 hrun
  obtain ⟨hWT, inv0⟩ := init_cinv (tagged := tagged) (fun _ => False) p
  obtain ⟨inv, hnil, hmono⟩ := run_cinv (fun _ => False) p.mc.1 st0.done p.w.2.1 hwt htg hWT
    fuel st0 st inv0 hrun
  have hfin : ∀ c, Cov (fun _ => False) st c → c ∈ st.done := by
    intro c hc
    rcases hc with hc | ⟨lf, hc⟩ | hc
    · exact hc
    · simp [hnil] at hc
    · exact hc.elim
  have hsent : ∀ c, c ∈ st.done → c ∉ st0.done → c ∈ st.sent := by
    intro c hc hne
    rcases inv.done_split c hc with h1 | h1
    · exact absurd h1 hne
    · exact h1
  intro x
  refine ⟨selF.2.1 x, ?_⟩
  intro hx
  induction hx with
  | root hr hne =>
    rename_i x
    obtain ⟨e, he, rfl⟩ := List.mem_map.mp hr
    exact hsent _ (hfin _ (hmono _ (.inr (.inl ⟨e.2, he⟩)))) hne
  | kid _ hs hc hne ih => exact hsent _ (hfin _ (inv.sent_kids _ ih _ hs _ hc)) hne
  | tag _ ht hne ih => exact hsent _ (hfin _ (inv.sent_tag _ ih _ ht)) hne

theorem mof_complete_core {s : Store} {tagged : List (Id × Id)} {pick : Nat → List (Id × Bool) → Nat}
    {fuel : Nat} {haves wants sent : List Id} (hwt : WellTyped s) (htg : TaggedDirect s tagged)
    (h : mof s tagged pick fuel haves wants [] = .ok sent) :
    ∀ x, Reach s wants x → x ∈ sent ∨ Reach s (present s haves) x := by
  unfold mof at h
  split at h
  · cases h
  rename_i st0 h0
  split at h
  · cases h
  rename_i st hrun
  cases h
  obtain ⟨p⟩ := init_parts h0
  -- what the receiver holds
  have hRh : EdgeClosed s (Reach s (present s haves)) := reach_edgeClosed s _
  have hhs := split_sound s true fuel haves p.hh p.hsplit
  have hws := split_sound s false fuel wants p.w p.wsplit
  have hwself := split_self s false fuel wants p.w p.wsplit
  have hwtag := split_tagclosed s false fuel wants p.w p.wsplit
  have hanc := collectAncestors_sound s [] [] (Reach s (present s haves))
    (fun y t ps x hy hs hx => .step hy hs (by simp [children, hx])) fuel p.hh.1 [] [] p.anc p.hanc
    (fun x hx => (hhs.1 x hx).1) (by simp) (by simp)
  have hbases := collectAncestors_sound s p.anc.1 [] (fun _ => True) (fun _ _ _ _ _ _ _ => trivial)
    fuel p.w.1 [] [] p.mc p.hmc (by simp) (by simp) (by simp)
  have hmc2 : ∀ x ∈ p.mc.2, Reach s (present s haves) x :=
    fun x hx => hanc.1 x (hbases.2 x hx).2
  have hrh := remoteHas_sound s _ hRh fuel p.mc.2 p.rh p.hrh hmc2
  have hrhself := remoteHas_self s fuel p.mc.2 p.rh p.hrh
  have hD0 : ∀ x ∈ st0.done, Reach s (present s haves) x := by
    intro x hx
    rw [p.hdone] at hx
    simp only [List.mem_append] at hx
    rcases hx with hx | hx
    · exact (hhs.2.1 x hx).1
    · exact hrh x hx
  have hcompl := collectAncestors_complete s p.anc.1 fuel p.w.1 [] [] p.mc p.hmc
    (by intro c hc; simp at hc)
  have hC1 := hcompl.1
  have hC4 := hcompl.2.2.2
  have hmc2D0 : ∀ x ∈ p.mc.2, x ∈ st0.done := by
    intro x hx; rw [p.hdone]; simp [hrhself x hx]
  -- targets of the tags reachable from the wants
  have hWT : ∀ t ∈ p.w.2.1, ∀ y, s t = some (.tag y) →
      (∀ t' ps, s y = some (.commit t' ps) → y ∈ p.mc.1 ∨ y ∈ st0.done) ∧
      (∀ z, s y = some (.tag z) → y ∈ p.w.2.1) := by
    intro t ht y hs
    have hy := hwtag t ht y hs
    refine ⟨?_, ?_⟩
    · intro t' ps hsy
      rcases hy with (h1 | h1 | h1) | h1
      · rcases hC4 y h1 with h2 | h2
        · exact .inr (hmc2D0 y h2.2)
        · exact .inl h2
      · obtain ⟨z, hz⟩ := (hws.2.1 y h1).2; simp [hz] at hsy
      · exact absurd hsy ((hws.2.2 y h1).2.2.1 t' ps)
      · simp [h1] at hsy
    · intro z hsy
      rcases hy with (h1 | h1 | h1) | h1
      · obtain ⟨t', ps, hz⟩ := (hws.1 y h1).2; simp [hz] at hsy
      · exact h1
      · exact absurd hsy ((hws.2.2 y h1).2.2.2 z)
      · simp [h1] at hsy
  -- the invariant holds initially
  have inv0 : CInv s tagged (Reach s (present s haves)) p.mc.1 st0.done p.w.2.1 st0 := by
    refine { done_split := fun x hx => .inl hx, sent_kids := ?_, sent_commit := ?_, sent_tag := ?_,
             nonleaf := ?_, leaf := ?_, d0 := fun x hx => hx }
    · intro x hx; simp [p.hsent] at hx
    · intro x hx; simp [p.hsent] at hx
    · intro x hx; simp [p.hsent] at hx
    · intro e he _
      rw [p.htodo] at he
      simp only [List.mem_append, List.mem_map, List.mem_filter] at he
      rcases he with (⟨c, hc, rfl⟩ | ⟨t, ⟨ht, _⟩, rfl⟩) | ⟨o, ⟨ho, _⟩, rfl⟩
      · refine ⟨fun _ _ _ => .inl hc, ?_⟩
        intro y hsy
        obtain ⟨t', ps, hz, _⟩ := hC1 c hc
        simp [hz] at hsy
      · refine ⟨?_, fun _ _ => ht⟩
        intro t' ps hsy
        obtain ⟨z, hz⟩ := (hws.2.1 t ht).2
        simp [hz] at hsy
      · refine ⟨?_, ?_⟩
        · intro t' ps hsy; exact absurd hsy ((hws.2.2 o ho).2.2.1 t' ps)
        · intro y hsy; exact absurd hsy ((hws.2.2 o ho).2.2.2 y)
    · intro e he hl
      rw [p.htodo] at he
      simp only [List.mem_append, List.mem_map, List.mem_filter] at he
      rcases he with (⟨c, _, rfl⟩ | ⟨t, _, rfl⟩) | ⟨o, _, rfl⟩ <;> simp at hl
  obtain ⟨inv, hnil, hmono⟩ := run_cinv (Reach s (present s haves)) p.mc.1 st0.done p.w.2.1 hwt htg hWT
    fuel st0 st inv0 hrun
  -- at the end nothing is queued
  have hfin : ∀ c, Cov (Reach s (present s haves)) st c → c ∈ st.done ∨ Reach s (present s haves) c := by
    intro c hc
    rcases hc with hc | ⟨lf, hc⟩ | hc
    · exact .inl hc
    · simp [hnil] at hc
    · exact .inr hc
  have hqueued : ∀ e ∈ st0.todo, e.1 ∈ st.done ∨ Reach s (present s haves) e.1 :=
    fun e he => hfin e.1 (hmono e.1 (.inr (.inl ⟨e.2, he⟩)))
  have hM : ∀ c ∈ p.mc.1, c ∈ st.done ∨ Reach s (present s haves) c := by
    intro c hc
    exact hqueued (c, false) (by rw [p.htodo]; simp [hc])
  -- main induction
  have main : ∀ x, Reach s wants x → x ∈ st.done ∨ Reach s (present s haves) x := by
    intro x hx
    refine Reach.induct (P := fun x => x ∈ st.done ∨ Reach s (present s haves) x) ?_ ?_ hx
    · intro r hr
      have hpres := (hwself r hr).2 rfl
      rcases (hwself r hr).1 hpres with h1 | h1 | h1
      · rcases hC4 r h1 with h2 | h2
        · exact .inr (hanc.1 r h2.1)
        · exact hM r h2
      · by_cases hht : r ∈ p.hh.2.1
        · exact .inr (hhs.2.1 r hht).1
        · exact hqueued (r, false) (by rw [p.htodo]; simp [h1, hht])
      · by_cases hho : r ∈ p.hh.2.2
        · exact .inr (hhs.2.2 r hho).1
        · exact hqueued (r, false) (by rw [p.htodo]; simp [h1, hho])
    · intro y o c hy hs hc
      rcases hy with hy | hy
      · rcases inv.done_split y hy with hy0 | hys
        · exact .inr (.step (hD0 y hy0) hs hc)
        · cases o with
          | commit t ps =>
            simp only [children, List.mem_cons] at hc
            rcases hc with rfl | hc
            · exact hfin _ (inv.sent_kids y hys _ hs _ (by simp [walkKids]))
            · have hyM := inv.sent_commit y hys t ps hs
              obtain ⟨t', ps', hs', hp⟩ := hC1 y hyM
              rw [hs] at hs'; cases hs'
              rcases hp c hc with h1 | h1
              · exact .inr (hanc.1 c h1)
              · exact hM c h1
          | tree es => exact hfin _ (inv.sent_kids y hys _ hs c (by simpa [walkKids, children] using hc))
          | blob => simp [children] at hc
          | tag z => exact hfin _ (inv.sent_kids y hys _ hs c (by simpa [walkKids, children] using hc))
      · exact .inr (.step hy hs hc)
  intro x hx
  rcases main x hx with h1 | h1
  · rcases inv.done_split x h1 with h2 | h2
    · exact .inr (hD0 x h2)
    · exact .inl h2
  · exact .inr h1

/-! ## the executable closure computes `Reach` -/

theorem closureAux_sound (s : Store) (roots : List Id) :
    ∀ (fuel : Nat) (todo seen l : List Id), closureAux s fuel todo seen = some l →
      (∀ x ∈ todo, Reach s roots x) → (∀ x ∈ seen, Reach s roots x) → ∀ x ∈ l, Reach s roots x
  | fuel, [], seen, l, h, _, hs => by
    cases fuel <;> (simp [closureAux] at h; subst h; exact hs)
  | 0, _ :: _, seen, l, h, _, _ => by simp [closureAux] at h
  | fuel + 1, x :: todo, seen, l, h, ht, hs => by
    have hx : Reach s roots x := ht x (by simp)
    have ht' : ∀ y ∈ todo, Reach s roots y := fun y hy => ht y (by simp [hy])
    unfold closureAux at h
    split at h
    · exact closureAux_sound s roots fuel todo seen l h ht' hs
    · have hs' : ∀ y ∈ x :: seen, Reach s roots y := by
        intro y hy; simp at hy; rcases hy with rfl | hy; exact hx; exact hs y hy
      split at h
      · exact closureAux_sound s roots fuel todo (x :: seen) l h ht' hs'
      · rename_i o ho
        refine closureAux_sound s roots fuel (children o ++ todo) (x :: seen) l h ?_ hs'
        intro y hy
        simp only [List.mem_append] at hy
        rcases hy with hy | hy
        · exact .step hx ho hy
        · exact ht' y hy

theorem closureAux_complete (s : Store) :
    ∀ (fuel : Nat) (todo seen l : List Id), closureAux s fuel todo seen = some l →
      (∀ x ∈ seen, ∀ o, s x = some o → ∀ c ∈ children o, c ∈ seen ∨ c ∈ todo) →
      (∀ x ∈ seen, x ∈ l) ∧ (∀ x ∈ todo, x ∈ l) ∧
      (∀ x ∈ l, ∀ o, s x = some o → ∀ c ∈ children o, c ∈ l)
  | fuel, [], seen, l, h, inv => by
    cases fuel <;>
    · simp [closureAux] at h; subst h
      refine ⟨fun x hx => hx, by simp, ?_⟩
      intro x hx o ho c hc
      rcases inv x hx o ho c hc with h1 | h1
      · exact h1
      · simp at h1
  | 0, _ :: _, seen, l, h, _ => by simp [closureAux] at h
  | fuel + 1, x :: todo, seen, l, h, inv => by
    unfold closureAux at h
    split at h
    · rename_i hxs
      have ih := closureAux_complete s fuel todo seen l h (by
        intro y hy o ho c hc
        rcases inv y hy o ho c hc with h1 | h1
        · exact .inl h1
        · simp at h1; rcases h1 with rfl | h1
          · exact .inl hxs
          · exact .inr h1)
      refine ⟨ih.1, ?_, ih.2.2⟩
      intro y hy; simp at hy; rcases hy with rfl | hy
      · exact ih.1 y hxs
      · exact ih.2.1 y hy
    · split at h
      · rename_i hnone
        have ih := closureAux_complete s fuel todo (x :: seen) l h (by
          intro y hy o ho c hc
          simp at hy
          rcases hy with rfl | hy
          · simp [hnone] at ho
          · rcases inv y hy o ho c hc with h1 | h1
            · exact .inl (by simp [h1])
            · simp at h1; rcases h1 with rfl | h1
              · exact .inl (by simp)
              · exact .inr h1)
        refine ⟨fun y hy => ih.1 y (by simp [hy]), ?_, ih.2.2⟩
        intro y hy; simp at hy; rcases hy with rfl | hy
        · exact ih.1 y (by simp)
        · exact ih.2.1 y hy
      · rename_i o ho
        have ih := closureAux_complete s fuel (children o ++ todo) (x :: seen) l h (by
          intro y hy o' ho' c hc
          simp at hy
          rcases hy with rfl | hy
          · rw [ho] at ho'; cases ho'
            exact .inr (by simp [hc])
          · rcases inv y hy o' ho' c hc with h1 | h1
            · exact .inl (by simp [h1])
            · simp at h1; rcases h1 with rfl | h1
              · exact .inl (by simp)
              · exact .inr (by simp [h1]))
        refine ⟨fun y hy => ih.1 y (by simp [hy]), ?_, ih.2.2⟩
        intro y hy; simp at hy; rcases hy with rfl | hy
        · exact ih.1 y (by simp)
        · exact ih.2.1 y (by simp [hy])

/-! ## association-list stores, thin packs -/

theorem lookup_some_mem {l : List (Id × Obj)} {x : Id} {o : Obj} (h : l.lookup x = some o) :
    (x, o) ∈ l := by
  induction l with
  | nil => simp [List.lookup] at h
  | cons p rest ih =>
    simp only [List.lookup] at h
    split at h
    · rename_i heq
      cases h
      have : x = p.1 := by simpa using heq
      subst this
      simp
    · simp [ih h]

theorem wellTyped_ofList (l : List (Id × Obj)) (h : wellTypedB l = true) : WellTyped (ofList l) := by
  intro x o hs
  have hm := lookup_some_mem (l := l) hs
  simp only [wellTypedB, List.all_eq_true] at h
  have ho := h _ hm
  cases o with
  | commit t ps => simpa [wellTypedObjB] using ho
  | tree es =>
    simp only [wellTypedObjB, List.all_eq_true, Bool.and_eq_true] at ho
    intro e he
    have := ho e he
    refine ⟨?_, ?_⟩
    · intro hk; simpa [hk] using this.1
    · intro hk; simpa [hk] using this.2
  | blob => trivial
  | tag t => trivial

theorem completeThin_selfContained {have_ : Id → Bool} {p p' : List PackEntry}
    (h : completeThin have_ p = .ok p') : SelfContained p' := by
  unfold completeThin at h
  split at h
  · cases h
    intro e he b hb
    simp only [List.mem_append, List.mem_map] at he
    rcases he with he | ⟨b', _, rfl⟩
    · by_cases hin : b ∈ p.map (·.1)
      · simp only [List.map_append, List.mem_append]
        exact .inl hin
      · have : b ∈ extRefs p := by
          simp only [extRefs, List.mem_filter, List.mem_filterMap]
          exact ⟨⟨e, he, hb⟩, by simpa using hin⟩
        simp only [List.map_append, List.mem_append, List.map_map]
        refine .inr ?_
        simp only [List.mem_map, Function.comp]
        exact ⟨b, List.mem_eraseDups.mpr this, rfl⟩
    · simp at hb
  · cases h

deriving instance DecidableEq for Except

end Dulwich.Missing
