/- Helper lemmas for the configuration-file model (C20).  Property theorems live in Props/C20.lean. -/
import DulwichModel.Model.Config

namespace Dulwich.Config
open Dulwich

/-! ### a finite universe: statements about one byte are checked on all 256 -/

theorem forall_u8 {P : UInt8 → Prop} (h : ∀ n, n < 256 → P (UInt8.ofNat n)) : ∀ c, P c := by
  intro c
  have := h c.toNat (UInt8.toNat_lt c)
  simpa using this

/-! ### the `.replace` chains are per-byte maps -/

theorem replaceByte_flatMap (a : UInt8) (to : Bytes) (f : UInt8 → Bytes) (l : Bytes) :
    replaceByte a to (l.flatMap f) = l.flatMap (fun c => replaceByte a to (f c)) := by
  simp [replaceByte, List.flatMap_assoc]

theorem applyWrites_flatMap (tbl : List (UInt8 × Bytes)) : ∀ (f : UInt8 → Bytes) (l : Bytes),
    applyWrites tbl (l.flatMap f) = l.flatMap (fun c => applyWrites tbl (f c)) := by
  induction tbl with
  | nil => intro f l; simp [applyWrites]
  | cons p tbl ih =>
    intro f l
    have := ih (fun c => replaceByte p.1 p.2 (f c)) l
    simp only [applyWrites, List.foldl_cons] at this ⊢
    rw [replaceByte_flatMap, this]

/-- what `_escape_value` does to one byte -/
def escByte (c : UInt8) : Bytes := applyWrites Gen.Config.escapeWrites [c]

theorem escapeValue_eq (v : Bytes) : escapeValue v = v.flatMap escByte := by
  have := applyWrites_flatMap Gen.Config.escapeWrites (fun c => [c]) v
  simp only [List.flatMap_singleton'] at this
  exact this

theorem escByte_eq : ∀ c : UInt8, escByte c =
    if c = 92 then [92, 92] else if c = 13 then [92, 114] else if c = 10 then [92, 110]
    else if c = 9 then [92, 116] else if c = 34 then [92, 34] else [c] := by
  apply forall_u8
  decide +kernel



/-! ### `_parse_string` on what `_escape_value` writes, one source byte at a time -/

/-- unfolding of one loop iteration on a byte that is not the escape character -/
theorem parseLoop_cons_ne (c : UInt8) (rest ret ws : Bytes) (inq : Bool) (h : c ≠ Gen.Config.parseEscapeChar) :
    parseLoop (c :: rest) ret ws inq =
      if c = Gen.Config.parseQuoteChar then parseLoop rest ret ws (!inq)
      else if (isCommentChar c && !inq) = true then parseFinish ret inq
      else if isBlankChar c = true then
        (if inq = true then parseLoop rest (ret ++ [c]) ws inq else parseLoop rest ret (ws ++ [c]) inq)
      else parseLoop rest (ret ++ ws ++ [c]) [] inq := by
  cases rest <;> simp [parseLoop, h]

/-- a known escape sequence -/
theorem parseLoop_esc (d v : UInt8) (rest ret ws : Bytes) (inq : Bool) (h : escLookup d = some v) :
    parseLoop (Gen.Config.parseEscapeChar :: d :: rest) ret ws inq = parseLoop rest (ret ++ ws ++ [v]) [] inq := by
  simp [parseLoop, h]

/-- inside quotes every byte except CR comes back -/
theorem parseLoop_step_quoted (c : UInt8) (h13 : c ≠ 13) (tail ret : Bytes) :
    parseLoop (escByte c ++ tail) ret [] true = parseLoop tail (ret ++ [c]) [] true := by
  rw [escByte_eq]
  by_cases h92 : c = 92
  · subst h92; exact parseLoop_esc 92 92 tail ret [] true (by decide) |>.trans (by simp)
  by_cases h10 : c = 10
  · subst h10; exact parseLoop_esc 110 10 tail ret [] true (by decide) |>.trans (by simp)
  by_cases h9 : c = 9
  · subst h9; exact parseLoop_esc 116 9 tail ret [] true (by decide) |>.trans (by simp)
  by_cases h34 : c = 34
  · subst h34; exact parseLoop_esc 34 34 tail ret [] true (by decide) |>.trans (by simp)
  simp only [h92, h13, h10, h9, h34, if_false, List.singleton_append]
  rw [parseLoop_cons_ne c tail ret [] true h92]
  by_cases h32 : c = 32
  · subst h32; simp [isCommentChar, isBlankChar, Gen.Config.parseQuoteChar, Gen.Config.whitespaceChars]
  · simp [isCommentChar, isBlankChar, Gen.Config.parseQuoteChar, Gen.Config.whitespaceChars, h34, h9, h32]


/-- outside quotes: every byte except CR, `#`, `;`; a raw space goes to the pending-whitespace buffer -/
theorem parseLoop_step_plain (c : UInt8) (h13 : c ≠ 13) (h35 : c ≠ 35) (h59 : c ≠ 59) (tail ret ws : Bytes) :
    parseLoop (escByte c ++ tail) ret ws false =
      if c = 32 then parseLoop tail ret (ws ++ [c]) false else parseLoop tail (ret ++ ws ++ [c]) [] false := by
  rw [escByte_eq]
  by_cases h92 : c = 92
  · subst h92; exact parseLoop_esc 92 92 tail ret ws false (by decide) |>.trans (by simp)
  by_cases h10 : c = 10
  · subst h10; exact parseLoop_esc 110 10 tail ret ws false (by decide) |>.trans (by simp)
  by_cases h9 : c = 9
  · subst h9; exact parseLoop_esc 116 9 tail ret ws false (by decide) |>.trans (by simp)
  by_cases h34 : c = 34
  · subst h34; exact parseLoop_esc 34 34 tail ret ws false (by decide) |>.trans (by simp)
  simp only [h92, h13, h10, h9, h34, if_false, List.singleton_append]
  rw [parseLoop_cons_ne c tail ret ws false h92]
  by_cases h32 : c = 32
  · subst h32; simp [isCommentChar, isBlankChar, Gen.Config.parseQuoteChar, Gen.Config.whitespaceChars,
      Gen.Config.commentChars]
  · simp [isCommentChar, isBlankChar, Gen.Config.parseQuoteChar, Gen.Config.whitespaceChars,
      Gen.Config.commentChars, h34, h9, h32, h35, h59]

theorem parseLoop_quoted (v : Bytes) : ∀ (tail ret : Bytes), ¬ 13 ∈ v →
    parseLoop (v.flatMap escByte ++ tail) ret [] true = parseLoop tail (ret ++ v) [] true := by
  induction v with
  | nil => intro tail ret _; simp
  | cons c v ih =>
    intro tail ret h
    simp only [List.mem_cons, not_or] at h
    rw [List.flatMap_cons, List.append_assoc, parseLoop_step_quoted c (fun e => h.1 e.symm), ih _ _ h.2]
    simp

/-- the state `(ret, whitespace)` after reading one more source byte outside quotes -/
def absorb (s : Bytes × Bytes) (c : UInt8) : Bytes × Bytes :=
  if c = 32 then (s.1, s.2 ++ [c]) else (s.1 ++ s.2 ++ [c], [])

theorem parseLoop_plain (v : Bytes) : ∀ (tail ret ws : Bytes), ¬ 13 ∈ v → ¬ 35 ∈ v → ¬ 59 ∈ v →
    parseLoop (v.flatMap escByte ++ tail) ret ws false =
      parseLoop tail (v.foldl absorb (ret, ws)).1 (v.foldl absorb (ret, ws)).2 false := by
  induction v with
  | nil => intro tail ret ws _ _ _; simp
  | cons c v ih =>
    intro tail ret ws h13 h35 h59
    simp only [List.mem_cons, not_or] at h13 h35 h59
    rw [List.flatMap_cons, List.append_assoc,
      parseLoop_step_plain c (fun e => h13.1 e.symm) (fun e => h35.1 e.symm) (fun e => h59.1 e.symm)]
    simp only [List.foldl_cons, absorb]
    split
    · exact ih _ _ _ h13.2 h35.2 h59.2
    · exact ih _ _ _ h13.2 h35.2 h59.2

theorem absorb_concat (s : Bytes × Bytes) (v : Bytes) :
    (v.foldl absorb s).1 ++ (v.foldl absorb s).2 = s.1 ++ s.2 ++ v := by
  induction v generalizing s with
  | nil => simp
  | cons c v ih =>
    rw [List.foldl_cons, ih]
    unfold absorb
    split <;> simp

/-- a value that does not end in a space leaves no pending whitespace: everything is in `ret` -/
theorem absorb_last (v : Bytes) (l : UInt8) (hl : l ≠ 32) (s : Bytes × Bytes) :
    (v ++ [l]).foldl absorb s = (s.1 ++ s.2 ++ v ++ [l], []) := by
  rw [List.foldl_append, List.foldl_cons, List.foldl_nil]
  have := absorb_concat s v
  simp only [absorb, hl, if_false]
  rw [this]


/-! ### `bytes.strip()` -/

theorem dropWhile_of_head {p : UInt8 → Bool} {l : Bytes} {b : UInt8} (h : l.head? = some b) (hp : p b = false) :
    l.dropWhile p = l := by
  cases l with
  | nil => simp at h
  | cons x l => simp only [List.head?_cons, Option.some.injEq] at h; subst h; simp [List.dropWhile, hp]

theorem lstrip_of_head {x : Bytes} {a : UInt8} (h : x.head? = some a) (hp : isPyWs a = false) : lstrip x = x :=
  dropWhile_of_head h hp

theorem rstrip_of_last {x : Bytes} {b : UInt8} (h : x.getLast? = some b) (hp : isPyWs b = false) : rstrip x = x := by
  unfold rstrip
  rw [dropWhile_of_head (by rw [List.head?_reverse]; exact h) hp, List.reverse_reverse]

theorem rstrip_snoc_ws (x : Bytes) (c : UInt8) (h : isPyWs c = true) : rstrip (x ++ [c]) = rstrip x := by
  simp [rstrip, List.dropWhile, h]

theorem lstrip_cons_ws (c : UInt8) (x : Bytes) (h : isPyWs c = true) : lstrip (c :: x) = lstrip x := by
  simp [lstrip, List.dropWhile, h]

/-- empty, or first and last byte are not removed by `strip()` -/
def Edges (x : Bytes) : Prop :=
  x = [] ∨ ∃ a b, x.head? = some a ∧ isPyWs a = false ∧ x.getLast? = some b ∧ isPyWs b = false

theorem strip_of_edges {x : Bytes} (h : Edges x) : strip x = x := by
  rcases h with rfl | ⟨a, b, ha, hpa, hb, hpb⟩
  · rfl
  · unfold strip; rw [lstrip_of_head ha hpa, rstrip_of_last hb hpb]

/-- the value part of a line `\tkey = VALUE\n` after `line.split(b"=", 1)`: a space, the value, LF -/
theorem strip_line_of_edges {x : Bytes} (h : Edges x) : strip (32 :: (x ++ [10])) = x := by
  unfold strip
  rw [lstrip_cons_ws 32 _ (by decide)]
  rcases h with rfl | ⟨a, b, ha, hpa, hb, hpb⟩
  · decide
  · have hne : x ≠ [] := by intro e; simp [e] at ha
    have : (x ++ [10]).head? = some a := by rw [List.head?_append, ha]; rfl
    rw [lstrip_of_head this hpa, rstrip_snoc_ws x 10 (by decide), rstrip_of_last hb hpb]

/-! ### first and last byte of what the writer emits -/

theorem escByte_ne_nil : ∀ c : UInt8, escByte c ≠ [] := by
  apply forall_u8; decide +kernel

theorem escByte_head_ok : ∀ c : UInt8, c = 9 ∨ c = 32 ∨ c = 11 ∨ c = 12 ∨ c = 13 ∨
    (escByte c).head?.any (fun a => !isPyWs a) = true := by
  apply forall_u8; decide +kernel

theorem escByte_last_ok : ∀ c : UInt8, c = 9 ∨ c = 32 ∨ c = 11 ∨ c = 12 ∨ c = 13 ∨
    (escByte c).getLast?.any (fun a => !isPyWs a) = true := by
  apply forall_u8; decide +kernel

theorem edges_escaped (v : Bytes)
    (hh : ∀ a, v.head? = some a → a ≠ 9 ∧ a ≠ 32 ∧ a ≠ 11 ∧ a ≠ 12 ∧ a ≠ 13)
    (hl : ∀ b, v.getLast? = some b → b ≠ 9 ∧ b ≠ 32 ∧ b ≠ 11 ∧ b ≠ 12 ∧ b ≠ 13) :
    Edges (v.flatMap escByte) := by
  cases v with
  | nil => left; rfl
  | cons a rest =>
    right
    obtain ⟨h1, h2, h3, h4, h5⟩ := hh a rfl
    cases hgl : (a :: rest).getLast? with
    | none => simp at hgl
    | some b =>
      obtain ⟨ys, hys⟩ := List.getLast?_eq_some_iff.mp hgl
      obtain ⟨g1, g2, g3, g4, g5⟩ := hl b hgl
      have ha := escByte_head_ok a
      have hb := escByte_last_ok b
      simp only [h1, h2, h3, h4, h5, false_or] at ha
      simp only [g1, g2, g3, g4, g5, false_or] at hb
      cases hha : (escByte a).head? with
      | none => simp [hha] at ha
      | some a' =>
        cases hhb : (escByte b).getLast? with
        | none => simp [hhb] at hb
        | some b' =>
          simp [hha] at ha
          simp [hhb] at hb
          refine ⟨a', b', ?_, ha, ?_, hb⟩
          · rw [List.flatMap_cons, List.head?_append, hha]; rfl
          · rw [hys, List.flatMap_append, List.flatMap_singleton, List.getLast?_append, hhb]; rfl

end Dulwich.Config
