/- Helper lemmas for the configuration-file model (C20).  Property theorems live in Props/C20.lean. -/
import DulwichModel.Model.Config

namespace Dulwich.Config
open Dulwich

/-! ### a finite universe: statements about one byte are checked on all 256 -/

theorem forall_u8 {P : UInt8 → Prop} (h : ∀ n, n < 256 → P (UInt8.ofNat n)) : ∀ c, P c := by
  intro c
  have := h c.toNat (UInt8.toNat_lt c)
  simpa using this

/-! ### the `.replace` chains are per-byte maps -/

theorem replaceByte_flatMap (a : UInt8) (to : Bytes) (f : UInt8 → Bytes) (l : Bytes) :
    replaceByte a to (l.flatMap f) = l.flatMap (fun c => replaceByte a to (f c)) := by
  simp [replaceByte, List.flatMap_assoc]

theorem applyWrites_flatMap (tbl : List (UInt8 × Bytes)) : ∀ (f : UInt8 → Bytes) (l : Bytes),
    applyWrites tbl (l.flatMap f) = l.flatMap (fun c => applyWrites tbl (f c)) := by
  induction tbl with
  | nil => intro f l; simp [applyWrites]
  | cons p tbl ih =>
    intro f l
    have := ih (fun c => replaceByte p.1 p.2 (f c)) l
    simp only [applyWrites, List.foldl_cons] at this ⊢
    rw [replaceByte_flatMap, this]

/-- what `_escape_value` does to one byte -/
def escByte (c : UInt8) : Bytes := applyWrites Gen.Config.escapeWrites [c]

theorem escapeValue_eq (v : Bytes) : escapeValue v = v.flatMap escByte := by
  have := applyWrites_flatMap Gen.Config.escapeWrites (fun c => [c]) v
  simp only [List.flatMap_singleton'] at this
  exact this

theorem escByte_eq : ∀ c : UInt8, escByte c =
    if c = 92 then [92, 92] else if c = 13 then [92, 114] else if c = 10 then [92, 110]
    else if c = 9 then [92, 116] else if c = 34 then [92, 34] else [c] := by
  apply forall_u8
  decide +kernel



/-! ### `_parse_string` on what `_escape_value` writes, one source byte at a time -/

/-- unfolding of one loop iteration on a byte that is not the escape character -/
theorem parseLoop_cons_ne (c : UInt8) (rest ret ws : Bytes) (inq : Bool) (h : c ≠ Gen.Config.parseEscapeChar) :
    parseLoop (c :: rest) ret ws inq =
      if c = Gen.Config.parseQuoteChar then parseLoop rest ret ws (!inq)
      else if (isCommentChar c && !inq) = true then parseFinish ret inq
      else if isBlankChar c = true then
        (if inq = true then parseLoop rest (ret ++ [c]) ws inq else parseLoop rest ret (ws ++ [c]) inq)
      else parseLoop rest (ret ++ ws ++ [c]) [] inq := by
  cases rest <;> simp [parseLoop, h]

/-- a known escape sequence -/
theorem parseLoop_esc (d v : UInt8) (rest ret ws : Bytes) (inq : Bool) (h : escLookup d = some v) :
    parseLoop (Gen.Config.parseEscapeChar :: d :: rest) ret ws inq = parseLoop rest (ret ++ ws ++ [v]) [] inq := by
  simp [parseLoop, h]

/-- inside quotes every byte except CR comes back -/
theorem parseLoop_step_quoted (c : UInt8) (h13 : c ≠ 13) (tail ret : Bytes) :
    parseLoop (escByte c ++ tail) ret [] true = parseLoop tail (ret ++ [c]) [] true := by
  rw [escByte_eq]
  by_cases h92 : c = 92
  · subst h92; exact parseLoop_esc 92 92 tail ret [] true (by decide) |>.trans (by simp)
  by_cases h10 : c = 10
  · subst h10; exact parseLoop_esc 110 10 tail ret [] true (by decide) |>.trans (by simp)
  by_cases h9 : c = 9
  · subst h9; exact parseLoop_esc 116 9 tail ret [] true (by decide) |>.trans (by simp)
  by_cases h34 : c = 34
  · subst h34; exact parseLoop_esc 34 34 tail ret [] true (by decide) |>.trans (by simp)
  simp only [h92, h13, h10, h9, h34, if_false, List.singleton_append]
  rw [parseLoop_cons_ne c tail ret [] true h92]
  by_cases h32 : c = 32
  · subst h32; simp [isCommentChar, isBlankChar, Gen.Config.parseQuoteChar, Gen.Config.whitespaceChars]
  · simp [isCommentChar, isBlankChar, Gen.Config.parseQuoteChar, Gen.Config.whitespaceChars, h34, h9, h32]


/-- outside quotes: every byte except CR, `#`, `;`; a raw space goes to the pending-whitespace buffer -/
theorem parseLoop_step_plain (c : UInt8) (h13 : c ≠ 13) (h35 : c ≠ 35) (h59 : c ≠ 59) (tail ret ws : Bytes) :
    parseLoop (escByte c ++ tail) ret ws false =
      if c = 32 then parseLoop tail ret (ws ++ [c]) false else parseLoop tail (ret ++ ws ++ [c]) [] false := by
  rw [escByte_eq]
  by_cases h92 : c = 92
  · subst h92; exact parseLoop_esc 92 92 tail ret ws false (by decide) |>.trans (by simp)
  by_cases h10 : c = 10
  · subst h10; exact parseLoop_esc 110 10 tail ret ws false (by decide) |>.trans (by simp)
  by_cases h9 : c = 9
  · subst h9; exact parseLoop_esc 116 9 tail ret ws false (by decide) |>.trans (by simp)
  by_cases h34 : c = 34
  · subst h34; exact parseLoop_esc 34 34 tail ret ws false (by decide) |>.trans (by simp)
  simp only [h92, h13, h10, h9, h34, if_false, List.singleton_append]
  rw [parseLoop_cons_ne c tail ret ws false h92]
  by_cases h32 : c = 32
  · subst h32; simp [isCommentChar, isBlankChar, Gen.Config.parseQuoteChar, Gen.Config.whitespaceChars,
      Gen.Config.commentChars]
  · simp [isCommentChar, isBlankChar, Gen.Config.parseQuoteChar, Gen.Config.whitespaceChars,
      Gen.Config.commentChars, h34, h9, h32, h35, h59]

theorem parseLoop_quoted (v : Bytes) : ∀ (tail ret : Bytes), ¬ 13 ∈ v →
    parseLoop (v.flatMap escByte ++ tail) ret [] true = parseLoop tail (ret ++ v) [] true := by
  induction v with
  | nil => intro tail ret _; simp
  | cons c v ih =>
    intro tail ret h
    simp only [List.mem_cons, not_or] at h
    rw [List.flatMap_cons, List.append_assoc, parseLoop_step_quoted c (fun e => h.1 e.symm), ih _ _ h.2]
    simp

/-- the state `(ret, whitespace)` after reading one more source byte outside quotes -/
def absorb (s : Bytes × Bytes) (c : UInt8) : Bytes × Bytes :=
  if c = 32 then (s.1, s.2 ++ [c]) else (s.1 ++ s.2 ++ [c], [])

theorem parseLoop_plain (v : Bytes) : ∀ (tail ret ws : Bytes), ¬ 13 ∈ v → ¬ 35 ∈ v → ¬ 59 ∈ v →
    parseLoop (v.flatMap escByte ++ tail) ret ws false =
      parseLoop tail (v.foldl absorb (ret, ws)).1 (v.foldl absorb (ret, ws)).2 false := by
  induction v with
  | nil => intro tail ret ws _ _ _; simp
  | cons c v ih =>
    intro tail ret ws h13 h35 h59
    simp only [List.mem_cons, not_or] at h13 h35 h59
    rw [List.flatMap_cons, List.append_assoc,
      parseLoop_step_plain c (fun e => h13.1 e.symm) (fun e => h35.1 e.symm) (fun e => h59.1 e.symm)]
    simp only [List.foldl_cons, absorb]
    split
    · exact ih _ _ _ h13.2 h35.2 h59.2
    · exact ih _ _ _ h13.2 h35.2 h59.2

theorem absorb_concat (s : Bytes × Bytes) (v : Bytes) :
    (v.foldl absorb s).1 ++ (v.foldl absorb s).2 = s.1 ++ s.2 ++ v := by
  induction v generalizing s with
  | nil => simp
  | cons c v ih =>
    rw [List.foldl_cons, ih]
    unfold absorb
    split <;> simp

/-- a value that does not end in a space leaves no pending whitespace: everything is in `ret` -/
theorem absorb_last (v : Bytes) (l : UInt8) (hl : l ≠ 32) (s : Bytes × Bytes) :
    (v ++ [l]).foldl absorb s = (s.1 ++ s.2 ++ v ++ [l], []) := by
  rw [List.foldl_append, List.foldl_cons, List.foldl_nil]
  have := absorb_concat s v
  simp only [absorb, hl, if_false]
  rw [this]


/-! ### `bytes.strip()` -/

theorem dropWhile_of_head {p : UInt8 → Bool} {l : Bytes} {b : UInt8} (h : l.head? = some b) (hp : p b = false) :
    l.dropWhile p = l := by
  cases l with
  | nil => simp at h
  | cons x l => simp only [List.head?_cons, Option.some.injEq] at h; subst h; simp [List.dropWhile, hp]

theorem lstrip_of_head {x : Bytes} {a : UInt8} (h : x.head? = some a) (hp : isPyWs a = false) : lstrip x = x :=
  dropWhile_of_head h hp

theorem rstrip_of_last {x : Bytes} {b : UInt8} (h : x.getLast? = some b) (hp : isPyWs b = false) : rstrip x = x := by
  unfold rstrip
  rw [dropWhile_of_head (by rw [List.head?_reverse]; exact h) hp, List.reverse_reverse]

theorem rstrip_snoc_ws (x : Bytes) (c : UInt8) (h : isPyWs c = true) : rstrip (x ++ [c]) = rstrip x := by
  simp [rstrip, List.dropWhile, h]

theorem lstrip_cons_ws (c : UInt8) (x : Bytes) (h : isPyWs c = true) : lstrip (c :: x) = lstrip x := by
  simp [lstrip, List.dropWhile, h]

/-- empty, or first and last byte are not removed by `strip()` -/
def Edges (x : Bytes) : Prop :=
  x = [] ∨ ∃ a b, x.head? = some a ∧ isPyWs a = false ∧ x.getLast? = some b ∧ isPyWs b = false

theorem strip_of_edges {x : Bytes} (h : Edges x) : strip x = x := by
  rcases h with rfl | ⟨a, b, ha, hpa, hb, hpb⟩
  · rfl
  · unfold strip; rw [lstrip_of_head ha hpa, rstrip_of_last hb hpb]

/-- the value part of a line `\tkey = VALUE\n` after `line.split(b"=", 1)`: a space, the value, LF -/
theorem strip_line_of_edges {x : Bytes} (h : Edges x) : strip (32 :: (x ++ [10])) = x := by
  unfold strip
  rw [lstrip_cons_ws 32 _ (by decide)]
  rcases h with rfl | ⟨a, b, ha, hpa, hb, hpb⟩
  · decide
  · have hne : x ≠ [] := by intro e; simp [e] at ha
    have : (x ++ [10]).head? = some a := by rw [List.head?_append, ha]; rfl
    rw [lstrip_of_head this hpa, rstrip_snoc_ws x 10 (by decide), rstrip_of_last hb hpb]

/-! ### first and last byte of what the writer emits -/

theorem escByte_ne_nil : ∀ c : UInt8, escByte c ≠ [] := by
  apply forall_u8; decide +kernel

theorem escByte_head_ok : ∀ c : UInt8, c = 9 ∨ c = 32 ∨ c = 11 ∨ c = 12 ∨ c = 13 ∨
    (escByte c).head?.any (fun a => !isPyWs a) = true := by
  apply forall_u8; decide +kernel

theorem escByte_last_ok : ∀ c : UInt8, c = 9 ∨ c = 32 ∨ c = 11 ∨ c = 12 ∨ c = 13 ∨
    (escByte c).getLast?.any (fun a => !isPyWs a) = true := by
  apply forall_u8; decide +kernel

theorem edges_escaped (v : Bytes)
    (hh : ∀ a, v.head? = some a → a ≠ 9 ∧ a ≠ 32 ∧ a ≠ 11 ∧ a ≠ 12 ∧ a ≠ 13)
    (hl : ∀ b, v.getLast? = some b → b ≠ 9 ∧ b ≠ 32 ∧ b ≠ 11 ∧ b ≠ 12 ∧ b ≠ 13) :
    Edges (v.flatMap escByte) := by
  cases v with
  | nil => left; rfl
  | cons a rest =>
    right
    obtain ⟨h1, h2, h3, h4, h5⟩ := hh a rfl
    cases hgl : (a :: rest).getLast? with
    | none => simp at hgl
    | some b =>
      obtain ⟨ys, hys⟩ := List.getLast?_eq_some_iff.mp hgl
      obtain ⟨g1, g2, g3, g4, g5⟩ := hl b hgl
      have ha := escByte_head_ok a
      have hb := escByte_last_ok b
      simp only [h1, h2, h3, h4, h5, false_or] at ha
      simp only [g1, g2, g3, g4, g5, false_or] at hb
      cases hha : (escByte a).head? with
      | none => simp [hha] at ha
      | some a' =>
        cases hhb : (escByte b).getLast? with
        | none => simp [hhb] at hb
        | some b' =>
          simp [hha] at ha
          simp [hhb] at hb
          refine ⟨a', b', ?_, ha, ?_, hb⟩
          · rw [List.flatMap_cons, List.head?_append, hha]; rfl
          · rw [hys, List.flatMap_append, List.flatMap_singleton, List.getLast?_append, hhb]; rfl


/-! ### unpacking the decidable predicates -/

theorem needsQuote_false {v : Bytes} (h : needsQuote v = false) :
    (∀ a, v.head? = some a → a ≠ 32 ∧ a ≠ 9) ∧ (∀ b, v.getLast? = some b → b ≠ 32 ∧ b ≠ 9) ∧ ¬ 35 ∈ v := by
  unfold needsQuote at h
  simp only [Bool.or_eq_false_iff] at h
  obtain ⟨⟨h1, h2⟩, h3⟩ := h
  refine ⟨?_, ?_, ?_⟩
  · intro a ha
    rw [ha] at h1
    simp [Gen.Config.quoteIfStartsWith] at h1
    exact h1
  · intro b hb
    rw [hb] at h2
    simp [Gen.Config.quoteIfEndsWith] at h2
    exact h2
  · simp [Gen.Config.quoteIfContains] at h3
    exact fun hm => h3 35 hm rfl

theorem wfValue_unpack {v : Bytes} (h : wfValue v = true) :
    ¬ 13 ∈ v ∧ (needsQuote v = true ∨
      (needsQuote v = false ∧ ¬ 59 ∈ v ∧ (∀ a, v.head? = some a → a ≠ 11 ∧ a ≠ 12) ∧
        (∀ b, v.getLast? = some b → b ≠ 11 ∧ b ≠ 12))) := by
  unfold wfValue at h
  simp only [Bool.and_eq_true, Bool.not_eq_true', Bool.or_eq_true] at h
  obtain ⟨h13, h⟩ := h
  refine ⟨by simpa [CR] using h13, ?_⟩
  cases hq : needsQuote v with
  | true => left; rfl
  | false =>
    right
    rw [hq] at h
    simp only [Bool.false_eq_true, false_or] at h
    obtain ⟨⟨h59, hh⟩, hl⟩ := h
    refine ⟨rfl, by simpa [SEMI] using h59, ?_, ?_⟩
    · intro a ha; rw [ha] at hh; simp [VT, FF] at hh; exact hh
    · intro b hb; rw [hb] at hl; simp [VT, FF] at hl; exact hl


/-! ### subsection escaping -/

/-- what `_escape_subsection` does to one byte -/
def subEscByte (c : UInt8) : Bytes := applyWrites Gen.Config.subsectionWrites [c]

theorem subEscByte_eq : ∀ c : UInt8, subEscByte c =
    if c = 92 then [92, 92] else if c = 34 then [92, 34] else [c] := by
  apply forall_u8; decide +kernel

theorem escapeSubsection_ok {s e : Bytes} (h : escapeSubsection s = .ok e) :
    e = s.flatMap subEscByte ∧ ¬ 10 ∈ s ∧ ¬ 0 ∈ s := by
  unfold escapeSubsection at h
  split at h
  · cases h
  · rename_i hf
    simp only [Except.ok.injEq] at h
    subst h
    refine ⟨?_, ?_, ?_⟩
    · have := applyWrites_flatMap Gen.Config.subsectionWrites (fun c => [c]) s
      simp only [List.flatMap_singleton'] at this
      exact this
    · intro hm; apply hf; simp only [List.any_eq_true]; exact ⟨10, hm, by decide⟩
    · intro hm; apply hf; simp only [List.any_eq_true]; exact ⟨0, hm, by decide⟩

theorem unescape_step (c : UInt8) (rest : Bytes) :
    unescapeSubsection (subEscByte c ++ rest) = c :: unescapeSubsection rest := by
  rw [subEscByte_eq]
  by_cases h92 : c = 92
  · subst h92; simp [unescapeSubsection, Gen.Config.unescapeChar]
  by_cases h34 : c = 34
  · subst h34; simp [unescapeSubsection, Gen.Config.unescapeChar]
  simp only [h92, h34, if_false, List.singleton_append]
  cases rest with
  | nil => simp [unescapeSubsection]
  | cons d r => simp [unescapeSubsection, Gen.Config.unescapeChar, h92]

theorem unescape_escaped (s : Bytes) : unescapeSubsection (s.flatMap subEscByte) = s := by
  induction s with
  | nil => simp [unescapeSubsection]
  | cons c s ih => rw [List.flatMap_cons, unescape_step, ih]


/-! ### section headers -/

/-- bytes with no meaning to `_strip_comments` or to the closing-bracket scan -/
def Plain (c : UInt8) : Prop := c ≠ 34 ∧ c ≠ 92 ∧ c ≠ 93 ∧ c ≠ 35 ∧ c ≠ 59

theorem sectionChar_plain : ∀ c : UInt8, (isAlnum c || Gen.Config.sectionNameExtra.contains c) = true →
    Plain c ∧ c ≠ 32 := by
  apply forall_u8; unfold Plain; decide +kernel

theorem stripCommentsAux_plain (P : Bytes) (hP : ∀ c ∈ P, Plain c) (rest : Bytes) (opn : Bool) :
    stripCommentsAux (P ++ rest) opn = P ++ stripCommentsAux rest opn := by
  induction P with
  | nil => rfl
  | cons c P ih =>
    obtain ⟨h34, _, _, h35, h59⟩ := hP c (by simp)
    have := ih (fun d hd => hP d (by simp [hd]))
    simp [stripCommentsAux, Gen.Config.stripCommentQuote, Gen.Config.stripCommentChars, h34, h35, h59, this]

/-- parity of the number of `"` seen, as `_strip_comments` tracks it -/
def quoteParity : Bytes → Bool → Bool
  | [], o => o
  | c :: r, o => quoteParity r (if c = 34 then !o else o)

theorem stripCommentsAux_escaped (s : Bytes) : ∀ (odd : Bool) (rest : Bytes), subCommentHazard s odd = false →
    stripCommentsAux (s.flatMap subEscByte ++ rest) (!odd) =
      s.flatMap subEscByte ++ stripCommentsAux rest (!(quoteParity s odd)) := by
  induction s with
  | nil => intro odd rest _; rfl
  | cons c s ih =>
    intro odd rest hz
    rw [List.flatMap_cons, List.append_assoc, subEscByte_eq]
    by_cases h34 : c = 34
    · subst h34
      simp only [subCommentHazard, Gen.Config.stripCommentQuote, if_true] at hz
      have := ih (!odd) rest hz
      simp only [Bool.not_not] at this
      simp [stripCommentsAux, Gen.Config.stripCommentQuote, Gen.Config.stripCommentChars, quoteParity, this]
    by_cases h92 : c = 92
    · subst h92
      simp only [subCommentHazard, Gen.Config.stripCommentQuote, Gen.Config.stripCommentChars] at hz
      have hz' : subCommentHazard s odd = false := by
        revert hz; cases odd <;> simp
      have := ih odd rest hz'
      simp [stripCommentsAux, Gen.Config.stripCommentQuote, Gen.Config.stripCommentChars, quoteParity, this]
    simp only [h34, h92, if_false, List.singleton_append]
    simp only [subCommentHazard, Gen.Config.stripCommentQuote, h34, if_false] at hz
    split at hz
    · cases hz
    · rename_i hc
      have := ih odd rest hz
      simp only [Bool.and_eq_true, not_and, Bool.not_eq_true] at hc
      cases odd with
      | false =>
        simp only [Bool.not_false] at this
        simp [stripCommentsAux, Gen.Config.stripCommentQuote, h34, quoteParity, this]
      | true =>
        have hc' : ¬ c ∈ Gen.Config.stripCommentChars := by simpa using hc rfl
        simp only [Bool.not_true] at this
        simp [stripCommentsAux, Gen.Config.stripCommentQuote, h34, quoteParity, this, hc']

theorem findClose_plain (P : Bytes) (hP : ∀ c ∈ P, Plain c) (rest : Bytes) (inq : Bool) (i : Nat) :
    findClose (P ++ rest) inq false i = findClose rest inq false (i + P.length) := by
  induction P generalizing i with
  | nil => rfl
  | cons c P ih =>
    obtain ⟨h34, h92, h93, _, _⟩ := hP c (by simp)
    have := ih (fun d hd => hP d (by simp [hd])) (i + 1)
    simp only [List.cons_append, findClose, Gen.Config.hdrQuote, Gen.Config.hdrClose, Gen.Config.hdrEscape,
      h34, h92, h93, if_false, Bool.false_eq_true, decide_false, Bool.false_and, this, List.length_cons]
    congr 1; omega

theorem findClose_escaped (s : Bytes) (rest : Bytes) (i : Nat) :
    findClose (s.flatMap subEscByte ++ rest) true false i =
      findClose rest true false (i + (s.flatMap subEscByte).length) := by
  induction s generalizing i with
  | nil => rfl
  | cons c s ih =>
    rw [List.flatMap_cons, List.append_assoc, subEscByte_eq]
    by_cases h34 : c = 34
    · subst h34
      simp [findClose, Gen.Config.hdrQuote, Gen.Config.hdrClose, Gen.Config.hdrEscape, ih]; congr 1; omega
    by_cases h92 : c = 92
    · subst h92
      simp [findClose, Gen.Config.hdrQuote, Gen.Config.hdrClose, Gen.Config.hdrEscape, ih]; congr 1; omega
    simp [h34, h92, findClose, Gen.Config.hdrQuote, Gen.Config.hdrClose, Gen.Config.hdrEscape, ih]; congr 1; omega

theorem splitOnce_found (sep : UInt8) (pre post : Bytes) (h : ¬ sep ∈ pre) :
    splitOnce sep (pre ++ sep :: post) = (pre, some post) := by
  induction pre with
  | nil => simp [splitOnce]
  | cons c pre ih =>
    simp only [List.mem_cons, not_or] at h
    have hc : c ≠ sep := fun e => h.1 e.symm
    simp [splitOnce, hc, ih h.2]

theorem splitOnce_absent (sep : UInt8) (s : Bytes) (h : ¬ sep ∈ s) : splitOnce sep s = (s, none) := by
  induction s with
  | nil => simp [splitOnce]
  | cons c s ih =>
    simp only [List.mem_cons, not_or] at h
    have hc : c ≠ sep := fun e => h.1 e.symm
    simp [splitOnce, hc, ih h.2]


theorem name_plain {name : Bytes} (hn : checkSectionName name = true) :
    (∀ c ∈ (91 :: name), Plain c) ∧ ¬ 32 ∈ name := by
  unfold checkSectionName at hn
  rw [List.all_eq_true] at hn
  constructor
  · intro c hc
    rcases List.mem_cons.mp hc with rfl | hc
    · unfold Plain; decide
    · exact (sectionChar_plain c (hn c hc)).1
  · intro h; exact (sectionChar_plain 32 (hn 32 h)).2 rfl

/-- `[name]\n` is read back as `(name,)` -/
theorem parseHeader_written_plain (name : Bytes) (hn : checkSectionName name = true) (hd : ¬ 46 ∈ name) :
    parseHeader (91 :: name ++ [93, 10]) = .ok ((name, none), []) := by
  obtain ⟨hP, h32⟩ := name_plain hn
  have e0 : stripComments (91 :: name ++ [93, 10]) = 91 :: name ++ [93, 10] := by
    unfold stripComments
    rw [stripCommentsAux_plain (91 :: name) hP]; rfl
  have e1 : rstrip (stripComments (91 :: name ++ [93, 10])) = 91 :: name ++ [93] := by
    rw [e0]
    have : 91 :: name ++ [93, 10] = (91 :: name ++ [93]) ++ [10] := by simp
    rw [this, rstrip_snoc_ws _ 10 (by decide)]
    exact rstrip_of_last (b := 93) List.getLast?_concat (by decide)
  have e2 : findClose (91 :: name ++ [93]) false false 0 = some (name.length + 1) := by
    rw [findClose_plain (91 :: name) hP]
    simp [findClose, Gen.Config.hdrQuote, Gen.Config.hdrClose]
  unfold parseHeader
  simp only [e1, e2]
  have e3 : (List.take (name.length + 1) (91 :: name ++ [93])).drop 1 = name := by simp
  have e4 : List.drop (name.length + 1 + 1) (91 :: name ++ [93]) = [] := by simp
  rw [e3, e4, splitOnce_absent _ _ (by simpa [Gen.Config.hdrSplit] using h32)]
  simp only [hn, Bool.not_true, Bool.false_eq_true, if_false]
  rw [splitOnce_absent _ _ (by simpa [Gen.Config.hdrDot] using hd)]


theorem take_drop_mid (a b : UInt8) (M : Bytes) :
    ((a :: (M ++ [b])).take (M.length + 1)).drop 1 = M ∧ (a :: (M ++ [b])).drop (M.length + 1 + 1) = [] := by
  simp

theorem stripCommentsAux_close (o : Bool) : stripCommentsAux [34, 93, 10] o = [34, 93, 10] := by
  cases o <;> decide

/-- `[name "escaped-subsection"]\n` is read back as `(name, subsection)` -/
theorem parseHeader_written_sub (name sub : Bytes) (hn : checkSectionName name = true)
    (hs : subCommentHazard sub false = false) :
    parseHeader (91 :: name ++ [32, 34] ++ sub.flatMap subEscByte ++ [34, 93, 10]) = .ok ((name, some sub), []) := by
  obtain ⟨hP0, h32⟩ := name_plain hn
  generalize hE : sub.flatMap subEscByte = E
  have hP : ∀ c ∈ (91 :: name ++ [32]), Plain c := by
    intro c hc
    rcases List.mem_append.mp hc with hc | hc
    · exact hP0 c hc
    · simp only [List.mem_singleton] at hc; subst hc; unfold Plain; decide
  have shape : 91 :: name ++ [32, 34] ++ E ++ [34, 93, 10] = (91 :: name ++ [32]) ++ 34 :: (E ++ [34, 93, 10]) := by simp
  have e0 : stripComments (91 :: name ++ [32, 34] ++ E ++ [34, 93, 10]) = 91 :: name ++ [32, 34] ++ E ++ [34, 93, 10] := by
    rw [shape]
    unfold stripComments
    rw [stripCommentsAux_plain _ hP]
    congr 1
    have := stripCommentsAux_escaped sub false [34, 93, 10] hs
    rw [hE, stripCommentsAux_close] at this
    simp only [Bool.not_false] at this
    simp [stripCommentsAux, Gen.Config.stripCommentQuote, this]
  let M : Bytes := name ++ 32 :: 34 :: (E ++ [34])
  have e1 : rstrip (stripComments (91 :: name ++ [32, 34] ++ E ++ [34, 93, 10])) = 91 :: (M ++ [93]) := by
    rw [e0]
    have : 91 :: name ++ [32, 34] ++ E ++ [34, 93, 10] = (91 :: (M ++ [93])) ++ [10] := by simp [M]
    rw [this, rstrip_snoc_ws _ 10 (by decide)]
    exact rstrip_of_last (b := 93) (by rw [← List.cons_append]; exact List.getLast?_concat) (by decide)
  have e2 : findClose (91 :: (M ++ [93])) false false 0 = some (M.length + 1) := by
    have : 91 :: (M ++ [93]) = (91 :: name ++ [32]) ++ 34 :: (E ++ [34, 93]) := by simp [M]
    rw [this, findClose_plain _ hP]
    have step : ∀ i, findClose (34 :: (E ++ [34, 93])) false false i = findClose (E ++ [34, 93]) true false (i + 1) := by
      intro i; simp [findClose, Gen.Config.hdrQuote, Gen.Config.hdrClose, Gen.Config.hdrEscape]
    rw [step, ← hE, findClose_escaped, hE]
    simp [findClose, Gen.Config.hdrQuote, Gen.Config.hdrClose, Gen.Config.hdrEscape, M]
    omega
  unfold parseHeader
  simp only [e1, e2]
  obtain ⟨e3, e4⟩ := take_drop_mid 91 93 M
  rw [e3, e4]
  have e5 : splitOnce Gen.Config.hdrSplit M = (name, some (34 :: (E ++ [34]))) :=
    splitOnce_found 32 name _ h32
  rw [e5]
  have e6 : isQuoted (34 :: (E ++ [34])) = true := by
    have : (34 :: (E ++ [34]) : Bytes).getLast? = some 34 := by rw [← List.cons_append]; exact List.getLast?_concat
    simp [isQuoted, Gen.Config.hdrQuote, this]
  have e7 : inner (34 :: (E ++ [34])) = E := by simp [inner]
  simp only [e6, if_true, e7, hn]
  rw [← hE, unescape_escaped]

end Dulwich.Config
