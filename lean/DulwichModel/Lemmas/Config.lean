/- Helper lemmas for the configuration-file model (C20).  Property theorems live in Props/C20.lean. -/
import DulwichModel.Model.Config

namespace Dulwich.Config
open Dulwich

/-! ### a finite universe: statements about one byte are checked on all 256 -/

theorem forall_u8 {P : UInt8 → Prop} (h : ∀ n, n < 256 → P (UInt8.ofNat n)) : ∀ c, P c := by
  intro c
  have := h c.toNat (UInt8.toNat_lt c)
  simpa using this

/-! ### the `.replace` chains are per-byte maps -/

theorem replaceByte_flatMap (a : UInt8) (to : Bytes) (f : UInt8 → Bytes) (l : Bytes) :
    replaceByte a to (l.flatMap f) = l.flatMap (fun c => replaceByte a to (f c)) := by
  simp [replaceByte, List.flatMap_assoc]

theorem applyWrites_flatMap (tbl : List (UInt8 × Bytes)) : ∀ (f : UInt8 → Bytes) (l : Bytes),
    applyWrites tbl (l.flatMap f) = l.flatMap (fun c => applyWrites tbl (f c)) := by
  induction tbl with
  | nil => intro f l; simp [applyWrites]
  | cons p tbl ih =>
    intro f l
    have := ih (fun c => replaceByte p.1 p.2 (f c)) l
    simp only [applyWrites, List.foldl_cons] at this ⊢
    rw [replaceByte_flatMap, this]

/-- what `_escape_value` does to one byte -/
def escByte (c : UInt8) : Bytes := applyWrites Gen.Config.escapeWrites [c]

theorem escapeValue_eq (v : Bytes) : escapeValue v = v.flatMap escByte := by
  have := applyWrites_flatMap Gen.Config.escapeWrites (fun c => [c]) v
  simp only [List.flatMap_singleton'] at this
  exact this

theorem escByte_eq : ∀ c : UInt8, escByte c =
    if c = 92 then [92, 92] else if c = 10 then [92, 110]
    else if c = 9 then [92, 116] else if c = 34 then [92, 34] else [c] := by
  apply forall_u8
  decide +kernel



/-! ### `_parse_string` on what `_escape_value` writes, one source byte at a time -/

/-- unfolding of one loop iteration on a byte that is not the escape character -/
theorem parseLoop_cons_ne (c : UInt8) (rest ret ws : Bytes) (inq : Bool) (h : c ≠ Gen.Config.parseEscapeChar) :
    parseLoop (c :: rest) ret ws inq =
      if c = Gen.Config.parseQuoteChar then parseLoop rest ret ws (!inq)
      else if (isCommentChar c && !inq) = true then parseFinish ret inq
      else if isBlankChar c = true then
        (if inq = true then parseLoop rest (ret ++ [c]) ws inq else parseLoop rest ret (ws ++ [c]) inq)
      else parseLoop rest (ret ++ ws ++ [c]) [] inq := by
  cases rest <;> simp [parseLoop, h]

/-- a known escape sequence -/
theorem parseLoop_esc (d v : UInt8) (rest ret ws : Bytes) (inq : Bool) (h : escLookup d = some v) :
    parseLoop (Gen.Config.parseEscapeChar :: d :: rest) ret ws inq = parseLoop rest (ret ++ ws ++ [v]) [] inq := by
  simp [parseLoop, h]

/-- inside quotes every byte comes back (CR is written raw and is an ordinary byte to the loop) -/
theorem parseLoop_step_quoted (c : UInt8) (tail ret : Bytes) :
    parseLoop (escByte c ++ tail) ret [] true = parseLoop tail (ret ++ [c]) [] true := by
  rw [escByte_eq]
  by_cases h92 : c = 92
  · subst h92; exact parseLoop_esc 92 92 tail ret [] true (by decide) |>.trans (by simp)
  by_cases h10 : c = 10
  · subst h10; exact parseLoop_esc 110 10 tail ret [] true (by decide) |>.trans (by simp)
  by_cases h9 : c = 9
  · subst h9; exact parseLoop_esc 116 9 tail ret [] true (by decide) |>.trans (by simp)
  by_cases h34 : c = 34
  · subst h34; exact parseLoop_esc 34 34 tail ret [] true (by decide) |>.trans (by simp)
  simp only [h92, h10, h9, h34, if_false, List.singleton_append]
  rw [parseLoop_cons_ne c tail ret [] true h92]
  by_cases h32 : c = 32
  · subst h32; simp [isCommentChar, isBlankChar, Gen.Config.parseQuoteChar, Gen.Config.whitespaceChars]
  · simp [isCommentChar, isBlankChar, Gen.Config.parseQuoteChar, Gen.Config.whitespaceChars, h34, h9, h32]


/-- outside quotes: every byte except `#`, `;`; a raw space goes to the pending-whitespace buffer -/
theorem parseLoop_step_plain (c : UInt8) (h35 : c ≠ 35) (h59 : c ≠ 59) (tail ret ws : Bytes) :
    parseLoop (escByte c ++ tail) ret ws false =
      if c = 32 then parseLoop tail ret (ws ++ [c]) false else parseLoop tail (ret ++ ws ++ [c]) [] false := by
  rw [escByte_eq]
  by_cases h92 : c = 92
  · subst h92; exact parseLoop_esc 92 92 tail ret ws false (by decide) |>.trans (by simp)
  by_cases h10 : c = 10
  · subst h10; exact parseLoop_esc 110 10 tail ret ws false (by decide) |>.trans (by simp)
  by_cases h9 : c = 9
  · subst h9; exact parseLoop_esc 116 9 tail ret ws false (by decide) |>.trans (by simp)
  by_cases h34 : c = 34
  · subst h34; exact parseLoop_esc 34 34 tail ret ws false (by decide) |>.trans (by simp)
  simp only [h92, h10, h9, h34, if_false, List.singleton_append]
  rw [parseLoop_cons_ne c tail ret ws false h92]
  by_cases h32 : c = 32
  · subst h32; simp [isCommentChar, isBlankChar, Gen.Config.parseQuoteChar, Gen.Config.whitespaceChars,
      Gen.Config.commentChars]
  · simp [isCommentChar, isBlankChar, Gen.Config.parseQuoteChar, Gen.Config.whitespaceChars,
      Gen.Config.commentChars, h34, h9, h32, h35, h59]

theorem parseLoop_quoted (v : Bytes) : ∀ (tail ret : Bytes),
    parseLoop (v.flatMap escByte ++ tail) ret [] true = parseLoop tail (ret ++ v) [] true := by
  induction v with
  | nil => intro tail ret; simp
  | cons c v ih =>
    intro tail ret
    rw [List.flatMap_cons, List.append_assoc, parseLoop_step_quoted c, ih _ _]
    simp

/-- the state `(ret, whitespace)` after reading one more source byte outside quotes -/
def absorb (s : Bytes × Bytes) (c : UInt8) : Bytes × Bytes :=
  if c = 32 then (s.1, s.2 ++ [c]) else (s.1 ++ s.2 ++ [c], [])

theorem parseLoop_plain (v : Bytes) : ∀ (tail ret ws : Bytes), ¬ 35 ∈ v → ¬ 59 ∈ v →
    parseLoop (v.flatMap escByte ++ tail) ret ws false =
      parseLoop tail (v.foldl absorb (ret, ws)).1 (v.foldl absorb (ret, ws)).2 false := by
  induction v with
  | nil => intro tail ret ws _ _; simp
  | cons c v ih =>
    intro tail ret ws h35 h59
    simp only [List.mem_cons, not_or] at h35 h59
    rw [List.flatMap_cons, List.append_assoc,
      parseLoop_step_plain c (fun e => h35.1 e.symm) (fun e => h59.1 e.symm)]
    simp only [List.foldl_cons, absorb]
    split
    · exact ih _ _ _ h35.2 h59.2
    · exact ih _ _ _ h35.2 h59.2

theorem absorb_concat (s : Bytes × Bytes) (v : Bytes) :
    (v.foldl absorb s).1 ++ (v.foldl absorb s).2 = s.1 ++ s.2 ++ v := by
  induction v generalizing s with
  | nil => simp
  | cons c v ih =>
    rw [List.foldl_cons, ih]
    unfold absorb
    split <;> simp

/-- a value that does not end in a space leaves no pending whitespace: everything is in `ret` -/
theorem absorb_last (v : Bytes) (l : UInt8) (hl : l ≠ 32) (s : Bytes × Bytes) :
    (v ++ [l]).foldl absorb s = (s.1 ++ s.2 ++ v ++ [l], []) := by
  rw [List.foldl_append, List.foldl_cons, List.foldl_nil]
  have := absorb_concat s v
  simp only [absorb, hl, if_false]
  rw [this]


/-! ### `bytes.strip()` -/

theorem dropWhile_of_head {p : UInt8 → Bool} {l : Bytes} {b : UInt8} (h : l.head? = some b) (hp : p b = false) :
    l.dropWhile p = l := by
  cases l with
  | nil => simp at h
  | cons x l => simp only [List.head?_cons, Option.some.injEq] at h; subst h; simp [List.dropWhile, hp]

theorem lstrip_of_head {x : Bytes} {a : UInt8} (h : x.head? = some a) (hp : isPyWs a = false) : lstrip x = x :=
  dropWhile_of_head h hp

theorem rstrip_of_last {x : Bytes} {b : UInt8} (h : x.getLast? = some b) (hp : isPyWs b = false) : rstrip x = x := by
  unfold rstrip
  rw [dropWhile_of_head (by rw [List.head?_reverse]; exact h) hp, List.reverse_reverse]

theorem rstrip_snoc_ws (x : Bytes) (c : UInt8) (h : isPyWs c = true) : rstrip (x ++ [c]) = rstrip x := by
  simp [rstrip, h]

theorem lstrip_cons_ws (c : UInt8) (x : Bytes) (h : isPyWs c = true) : lstrip (c :: x) = lstrip x := by
  simp [lstrip, List.dropWhile, h]

/-- empty, or first and last byte are not removed by `strip()` -/
def Edges (x : Bytes) : Prop :=
  x = [] ∨ ∃ a b, x.head? = some a ∧ isPyWs a = false ∧ x.getLast? = some b ∧ isPyWs b = false

theorem strip_of_edges {x : Bytes} (h : Edges x) : strip x = x := by
  rcases h with rfl | ⟨a, b, ha, hpa, hb, hpb⟩
  · rfl
  · unfold strip; rw [lstrip_of_head ha hpa, rstrip_of_last hb hpb]

/-- the value part of a line `\tkey = VALUE\n` after `line.split(b"=", 1)`: a space, the value, LF -/
theorem strip_line_of_edges {x : Bytes} (h : Edges x) : strip (32 :: (x ++ [10])) = x := by
  unfold strip
  rw [lstrip_cons_ws 32 _ (by decide)]
  rcases h with rfl | ⟨a, b, ha, hpa, hb, hpb⟩
  · decide
  · have hne : x ≠ [] := by intro e; simp [e] at ha
    have : (x ++ [10]).head? = some a := by rw [List.head?_append, ha]; rfl
    rw [lstrip_of_head this hpa, rstrip_snoc_ws x 10 (by decide), rstrip_of_last hb hpb]

/-! ### the reader's `value.strip(b" \\t\\r\\n")`: a subset of what `bytes.strip()` removes -/

theorem parseWs_sub : ∀ c : UInt8, isParseWs c = true → isPyWs c = true := by
  apply forall_u8; decide +kernel

theorem not_parseWs {c : UInt8} (h : isPyWs c = false) : isParseWs c = false := by
  cases hp : isParseWs c with
  | false => rfl
  | true => rw [parseWs_sub c hp] at h; cases h

theorem plstrip_of_head {x : Bytes} {a : UInt8} (h : x.head? = some a) (hp : isParseWs a = false) : plstrip x = x :=
  dropWhile_of_head h hp

theorem prstrip_of_last {x : Bytes} {b : UInt8} (h : x.getLast? = some b) (hp : isParseWs b = false) : prstrip x = x := by
  unfold prstrip
  rw [dropWhile_of_head (by rw [List.head?_reverse]; exact h) hp, List.reverse_reverse]

theorem prstrip_snoc_ws (x : Bytes) (c : UInt8) (h : isParseWs c = true) : prstrip (x ++ [c]) = prstrip x := by
  simp [prstrip, h]

theorem plstrip_cons_ws (c : UInt8) (x : Bytes) (h : isParseWs c = true) : plstrip (c :: x) = plstrip x := by
  simp [plstrip, List.dropWhile, h]

theorem pstrip_of_edges {x : Bytes} (h : Edges x) : pstrip x = x := by
  rcases h with rfl | ⟨a, b, ha, hpa, hb, hpb⟩
  · rfl
  · unfold pstrip; rw [plstrip_of_head ha (not_parseWs hpa), prstrip_of_last hb (not_parseWs hpb)]

/-- the value part of a line `\tkey = VALUE\n` after `line.split(b"=", 1)`: a space, the value, LF -/
theorem pstrip_line_of_edges {x : Bytes} (h : Edges x) : pstrip (32 :: (x ++ [10])) = x := by
  unfold pstrip
  rw [plstrip_cons_ws 32 _ (by decide)]
  rcases h with rfl | ⟨a, b, ha, hpa, hb, hpb⟩
  · decide
  · have : (x ++ [10]).head? = some a := by rw [List.head?_append, ha]; rfl
    rw [plstrip_of_head this (not_parseWs hpa), prstrip_snoc_ws x 10 (by decide),
      prstrip_of_last hb (not_parseWs hpb)]

/-! ### first and last byte of what the writer emits -/

theorem escByte_ne_nil : ∀ c : UInt8, escByte c ≠ [] := by
  apply forall_u8; decide +kernel

theorem escByte_head_ok : ∀ c : UInt8, isPyWs c = true ∨
    (escByte c).head?.any (fun a => !isPyWs a) = true := by
  apply forall_u8; decide +kernel

theorem escByte_last_ok : ∀ c : UInt8, isPyWs c = true ∨
    (escByte c).getLast?.any (fun a => !isPyWs a) = true := by
  apply forall_u8; decide +kernel

theorem edges_escaped (v : Bytes)
    (hh : ∀ a, v.head? = some a → isPyWs a = false)
    (hl : ∀ b, v.getLast? = some b → isPyWs b = false) :
    Edges (v.flatMap escByte) := by
  cases v with
  | nil => left; rfl
  | cons a rest =>
    right
    have h1 := hh a rfl
    cases hgl : (a :: rest).getLast? with
    | none => simp at hgl
    | some b =>
      obtain ⟨ys, hys⟩ := List.getLast?_eq_some_iff.mp hgl
      have g1 := hl b hgl
      have ha := escByte_head_ok a
      have hb := escByte_last_ok b
      simp only [h1, Bool.false_eq_true, false_or] at ha
      simp only [g1, Bool.false_eq_true, false_or] at hb
      cases hha : (escByte a).head? with
      | none => simp [hha] at ha
      | some a' =>
        cases hhb : (escByte b).getLast? with
        | none => simp [hhb] at hb
        | some b' =>
          simp [hha] at ha
          simp [hhb] at hb
          refine ⟨a', b', ?_, ha, ?_, hb⟩
          · rw [List.flatMap_cons, List.head?_append, hha]; rfl
          · rw [hys, List.flatMap_append, List.flatMap_singleton, List.getLast?_append, hhb]; rfl

/-! ### `value != value.strip()` -/

theorem length_dropWhile_le (p : UInt8 → Bool) (l : Bytes) : (l.dropWhile p).length ≤ l.length := by
  induction l with
  | nil => simp
  | cons a l ih =>
    rw [List.dropWhile_cons]
    split
    · simp only [List.length_cons]; omega
    · simp

theorem head_of_dropWhile_eq_self {p : UInt8 → Bool} {l : Bytes} (h : (l.dropWhile p).length = l.length)
    (a : UInt8) (ha : l.head? = some a) : p a = false := by
  cases l with
  | nil => simp at ha
  | cons x l =>
    simp only [List.head?_cons, Option.some.injEq] at ha
    subst ha
    cases hp : p x with
    | false => rfl
    | true =>
      rw [List.dropWhile_cons, hp] at h
      simp only [if_true, List.length_cons] at h
      have := length_dropWhile_le p l
      omega

/-- a value `strip()` leaves alone neither starts nor ends with a byte `strip()` removes -/
theorem edges_of_strip_eq {v : Bytes} (h : strip v = v) :
    (∀ a, v.head? = some a → isPyWs a = false) ∧ (∀ b, v.getLast? = some b → isPyWs b = false) := by
  have hlen : (strip v).length = v.length := by rw [h]
  have h1 : (lstrip v).length ≤ v.length := length_dropWhile_le _ _
  have h2 : (strip v).length ≤ (lstrip v).length := by
    unfold strip rstrip
    rw [List.length_reverse]
    have := length_dropWhile_le isPyWs (lstrip v).reverse
    rwa [List.length_reverse] at this
  have hl : (lstrip v).length = v.length := by omega
  have hhead := head_of_dropWhile_eq_self (p := isPyWs) (l := v) hl
  refine ⟨hhead, ?_⟩
  -- nothing was removed on the left, so `lstrip v = v`; then nothing was removed on the right either
  have hlv : lstrip v = v := by
    cases v with
    | nil => rfl
    | cons x t => exact lstrip_of_head rfl (hhead x rfl)
  have hr : (v.reverse.dropWhile isPyWs).length = v.reverse.length := by
    have : (strip v).length = (v.reverse.dropWhile isPyWs).length := by
      unfold strip rstrip; rw [hlv, List.length_reverse]
    rw [← this, hlen, List.length_reverse]
  intro b hb
  exact head_of_dropWhile_eq_self hr b (by rw [List.head?_reverse]; exact hb)

/-! ### unpacking the decidable predicates -/

theorem needsQuote_false {v : Bytes} (h : needsQuote v = false) :
    strip v = v ∧ ¬ 35 ∈ v ∧ ¬ 59 ∈ v ∧ ¬ 13 ∈ v := by
  unfold needsQuote at h
  simp only [Bool.or_eq_false_iff, Gen.Config.quoteIfStripChanges, Bool.true_and] at h
  obtain ⟨⟨⟨h0, _⟩, _⟩, h3⟩ := h
  have hs : strip v = v := by simpa using h0
  simp [Gen.Config.quoteIfContains] at h3
  exact ⟨hs, fun hm => (h3 35 hm).1 rfl, fun hm => (h3 59 hm).2.1 rfl, fun hm => (h3 13 hm).2.2 rfl⟩

/-! ### subsection escaping -/

/-- what `_escape_subsection` does to one byte -/
def subEscByte (c : UInt8) : Bytes := applyWrites Gen.Config.subsectionWrites [c]

theorem subEscByte_eq : ∀ c : UInt8, subEscByte c =
    if c = 92 then [92, 92] else if c = 34 then [92, 34] else [c] := by
  apply forall_u8; decide +kernel

theorem escapeSubsection_ok {s e : Bytes} (h : escapeSubsection s = .ok e) :
    e = s.flatMap subEscByte ∧ ¬ 10 ∈ s ∧ ¬ 0 ∈ s := by
  unfold escapeSubsection at h
  split at h
  · cases h
  · rename_i hf
    simp only [Except.ok.injEq] at h
    subst h
    refine ⟨?_, ?_, ?_⟩
    · have := applyWrites_flatMap Gen.Config.subsectionWrites (fun c => [c]) s
      simp only [List.flatMap_singleton'] at this
      exact this
    · intro hm; apply hf; simp only [List.any_eq_true]; exact ⟨10, hm, by decide⟩
    · intro hm; apply hf; simp only [List.any_eq_true]; exact ⟨0, hm, by decide⟩

theorem unescape_step (c : UInt8) (rest : Bytes) :
    unescapeSubsection (subEscByte c ++ rest) = c :: unescapeSubsection rest := by
  rw [subEscByte_eq]
  by_cases h92 : c = 92
  · subst h92; simp [unescapeSubsection, Gen.Config.unescapeChar]
  by_cases h34 : c = 34
  · subst h34; simp [unescapeSubsection, Gen.Config.unescapeChar]
  simp only [h92, h34, if_false, List.singleton_append]
  cases rest with
  | nil => simp [unescapeSubsection]
  | cons d r => simp [unescapeSubsection, Gen.Config.unescapeChar, h92]

theorem unescape_escaped (s : Bytes) : unescapeSubsection (s.flatMap subEscByte) = s := by
  induction s with
  | nil => simp [unescapeSubsection]
  | cons c s ih => rw [List.flatMap_cons, unescape_step, ih]


/-! ### section headers -/

/-- bytes with no meaning to `_strip_comments` or to the closing-bracket scan -/
def Plain (c : UInt8) : Prop := c ≠ 34 ∧ c ≠ 92 ∧ c ≠ 93 ∧ c ≠ 35 ∧ c ≠ 59

theorem sectionChar_plain : ∀ c : UInt8, (isAlnum c || Gen.Config.sectionNameExtra.contains c) = true →
    Plain c ∧ c ≠ 32 := by
  apply forall_u8; unfold Plain; decide +kernel

theorem stripCommentsAux_plain (P : Bytes) (hP : ∀ c ∈ P, Plain c) (rest : Bytes) (opn : Bool) :
    stripCommentsAux (P ++ rest) opn false = P ++ stripCommentsAux rest opn false := by
  induction P with
  | nil => rfl
  | cons c P ih =>
    obtain ⟨h34, h92, _, h35, h59⟩ := hP c (by simp)
    have := ih (fun d hd => hP d (by simp [hd]))
    simp [stripCommentsAux, Gen.Config.stripCommentQuote, Gen.Config.stripCommentChars,
      Gen.Config.stripCommentEscape, h34, h92, h35, h59, this]

/-- inside the quoted, escaped subsection `_strip_comments` (now escape-aware) never leaves the string
and never cuts -/
theorem stripCommentsAux_escaped (s : Bytes) (rest : Bytes) :
    stripCommentsAux (s.flatMap subEscByte ++ rest) true false =
      s.flatMap subEscByte ++ stripCommentsAux rest true false := by
  induction s with
  | nil => rfl
  | cons c s ih =>
    rw [List.flatMap_cons, List.append_assoc, subEscByte_eq]
    by_cases h34 : c = 34
    · subst h34
      simp [stripCommentsAux, Gen.Config.stripCommentEscape, ih]
    by_cases h92 : c = 92
    · subst h92
      simp [stripCommentsAux, Gen.Config.stripCommentEscape, ih]
    simp [h34, h92, stripCommentsAux, Gen.Config.stripCommentQuote, Gen.Config.stripCommentEscape, ih]

theorem findClose_plain (P : Bytes) (hP : ∀ c ∈ P, Plain c) (rest : Bytes) (inq : Bool) (i : Nat) :
    findClose (P ++ rest) inq false i = findClose rest inq false (i + P.length) := by
  induction P generalizing i with
  | nil => rfl
  | cons c P ih =>
    obtain ⟨h34, h92, h93, _, _⟩ := hP c (by simp)
    have := ih (fun d hd => hP d (by simp [hd])) (i + 1)
    simp only [List.cons_append, findClose, Gen.Config.hdrQuote, Gen.Config.hdrClose, Gen.Config.hdrEscape,
      h34, h92, h93, if_false, Bool.false_eq_true, decide_false, Bool.false_and, this, List.length_cons]
    congr 1; omega

theorem findClose_escaped (s : Bytes) (rest : Bytes) (i : Nat) :
    findClose (s.flatMap subEscByte ++ rest) true false i =
      findClose rest true false (i + (s.flatMap subEscByte).length) := by
  induction s generalizing i with
  | nil => rfl
  | cons c s ih =>
    rw [List.flatMap_cons, List.append_assoc, subEscByte_eq]
    by_cases h34 : c = 34
    · subst h34
      simp [findClose, Gen.Config.hdrQuote, Gen.Config.hdrClose, Gen.Config.hdrEscape, ih]; congr 1; omega
    by_cases h92 : c = 92
    · subst h92
      simp [findClose, Gen.Config.hdrQuote, Gen.Config.hdrClose, Gen.Config.hdrEscape, ih]; congr 1; omega
    simp [h34, h92, findClose, Gen.Config.hdrQuote, Gen.Config.hdrClose, Gen.Config.hdrEscape, ih]; congr 1; omega

theorem splitOnce_found (sep : UInt8) (pre post : Bytes) (h : ¬ sep ∈ pre) :
    splitOnce sep (pre ++ sep :: post) = (pre, some post) := by
  induction pre with
  | nil => simp [splitOnce]
  | cons c pre ih =>
    simp only [List.mem_cons, not_or] at h
    have hc : c ≠ sep := fun e => h.1 e.symm
    simp [splitOnce, hc, ih h.2]

theorem splitOnce_absent (sep : UInt8) (s : Bytes) (h : ¬ sep ∈ s) : splitOnce sep s = (s, none) := by
  induction s with
  | nil => simp [splitOnce]
  | cons c s ih =>
    simp only [List.mem_cons, not_or] at h
    have hc : c ≠ sep := fun e => h.1 e.symm
    simp [splitOnce, hc, ih h.2]


theorem name_plain {name : Bytes} (hn : checkSectionName name = true) :
    (∀ c ∈ (91 :: name), Plain c) ∧ ¬ 32 ∈ name := by
  unfold checkSectionName at hn
  rw [List.all_eq_true] at hn
  constructor
  · intro c hc
    rcases List.mem_cons.mp hc with rfl | hc
    · unfold Plain; decide
    · exact (sectionChar_plain c (hn c hc)).1
  · intro h; exact (sectionChar_plain 32 (hn 32 h)).2 rfl

/-- `[name]\n` is read back as `(name,)` -/
theorem parseHeader_written_plain (name : Bytes) (hn : checkSectionName name = true) (hd : ¬ 46 ∈ name) :
    parseHeader (91 :: name ++ [93, 10]) = .ok ((name, none), []) := by
  obtain ⟨hP, h32⟩ := name_plain hn
  have e0 : stripComments (91 :: name ++ [93, 10]) = 91 :: name ++ [93, 10] := by
    unfold stripComments
    rw [stripCommentsAux_plain (91 :: name) hP]; rfl
  have e1 : rstrip (stripComments (91 :: name ++ [93, 10])) = 91 :: name ++ [93] := by
    rw [e0]
    have : 91 :: name ++ [93, 10] = (91 :: name ++ [93]) ++ [10] := by simp
    rw [this, rstrip_snoc_ws _ 10 (by decide)]
    exact rstrip_of_last (b := 93) List.getLast?_concat (by decide)
  have e2 : findClose (91 :: name ++ [93]) false false 0 = some (name.length + 1) := by
    rw [findClose_plain (91 :: name) hP]
    simp [findClose, Gen.Config.hdrQuote, Gen.Config.hdrClose]
  unfold parseHeader
  simp only [e1, e2]
  have e3 : (List.take (name.length + 1) (91 :: name ++ [93])).drop 1 = name := by simp
  have e4 : List.drop (name.length + 1 + 1) (91 :: name ++ [93]) = [] := by simp
  rw [e3, e4, splitOnce_absent _ _ (by simpa [Gen.Config.hdrSplit] using h32)]
  simp only [hn, Bool.not_true, Bool.false_eq_true, if_false]
  rw [splitOnce_absent _ _ (by simpa [Gen.Config.hdrDot] using hd)]


theorem take_drop_mid (a b : UInt8) (M : Bytes) :
    ((a :: (M ++ [b])).take (M.length + 1)).drop 1 = M ∧ (a :: (M ++ [b])).drop (M.length + 1 + 1) = [] := by
  simp

theorem stripCommentsAux_close : stripCommentsAux [34, 93, 10] true false = [34, 93, 10] := by
  decide

/-- `[name "escaped-subsection"]\n` is read back as `(name, subsection)` -/
theorem parseHeader_written_sub (name sub : Bytes) (hn : checkSectionName name = true) :
    parseHeader (91 :: name ++ [32, 34] ++ sub.flatMap subEscByte ++ [34, 93, 10]) = .ok ((name, some sub), []) := by
  obtain ⟨hP0, h32⟩ := name_plain hn
  generalize hE : sub.flatMap subEscByte = E
  have hP : ∀ c ∈ (91 :: name ++ [32]), Plain c := by
    intro c hc
    rcases List.mem_append.mp hc with hc | hc
    · exact hP0 c hc
    · simp only [List.mem_singleton] at hc; subst hc; unfold Plain; decide
  have shape : 91 :: name ++ [32, 34] ++ E ++ [34, 93, 10] = (91 :: name ++ [32]) ++ 34 :: (E ++ [34, 93, 10]) := by simp
  have e0 : stripComments (91 :: name ++ [32, 34] ++ E ++ [34, 93, 10]) = 91 :: name ++ [32, 34] ++ E ++ [34, 93, 10] := by
    rw [shape]
    unfold stripComments
    rw [stripCommentsAux_plain _ hP]
    congr 1
    have := stripCommentsAux_escaped sub [34, 93, 10]
    rw [hE, stripCommentsAux_close] at this
    simp [stripCommentsAux, Gen.Config.stripCommentQuote, Gen.Config.stripCommentEscape, this]
  let M : Bytes := name ++ 32 :: 34 :: (E ++ [34])
  have e1 : rstrip (stripComments (91 :: name ++ [32, 34] ++ E ++ [34, 93, 10])) = 91 :: (M ++ [93]) := by
    rw [e0]
    have : 91 :: name ++ [32, 34] ++ E ++ [34, 93, 10] = (91 :: (M ++ [93])) ++ [10] := by simp [M]
    rw [this, rstrip_snoc_ws _ 10 (by decide)]
    exact rstrip_of_last (b := 93) (by rw [← List.cons_append]; exact List.getLast?_concat) (by decide)
  have e2 : findClose (91 :: (M ++ [93])) false false 0 = some (M.length + 1) := by
    have : 91 :: (M ++ [93]) = (91 :: name ++ [32]) ++ 34 :: (E ++ [34, 93]) := by simp [M]
    rw [this, findClose_plain _ hP]
    have step : ∀ i, findClose (34 :: (E ++ [34, 93])) false false i = findClose (E ++ [34, 93]) true false (i + 1) := by
      intro i; simp [findClose, Gen.Config.hdrQuote, Gen.Config.hdrClose, Gen.Config.hdrEscape]
    rw [step, ← hE, findClose_escaped, hE]
    simp [findClose, Gen.Config.hdrQuote, Gen.Config.hdrClose, Gen.Config.hdrEscape, M]
    omega
  unfold parseHeader
  simp only [e1, e2]
  obtain ⟨e3, e4⟩ := take_drop_mid 91 93 M
  rw [e3, e4]
  have e5 : splitOnce Gen.Config.hdrSplit M = (name, some (34 :: (E ++ [34]))) :=
    splitOnce_found 32 name _ h32
  rw [e5]
  have e6 : isQuoted (34 :: (E ++ [34])) = true := by
    have : (34 :: (E ++ [34]) : Bytes).getLast? = some 34 := by rw [← List.cons_append]; exact List.getLast?_concat
    simp [isQuoted, Gen.Config.hdrQuote, this]
  have e7 : inner (34 :: (E ++ [34])) = E := by simp [inner]
  simp only [e6, if_true, e7, hn]
  rw [← hE, unescape_escaped]


/-! ### whole files: line splitting -/

theorem splitLinesAux_line (body : Bytes) (h : ¬ 10 ∈ body) (rest cur : Bytes) :
    splitLinesAux (body ++ 10 :: rest) cur = (cur.reverse ++ body ++ [10]) :: splitLinesAux rest [] := by
  induction body generalizing cur with
  | nil => simp [splitLinesAux]
  | cons c body ih =>
    simp only [List.mem_cons, not_or] at h
    have hc : c ≠ 10 := fun e => h.1 e.symm
    simp [splitLinesAux, hc, ih h.2]

/-- a LF-terminated line without inner LF is the next element of `readlines()` -/
theorem splitLines_line (body : Bytes) (h : ¬ 10 ∈ body) (rest : Bytes) :
    splitLines ((body ++ [10]) ++ rest) = (body ++ [10]) :: splitLines rest := by
  unfold splitLines
  have := splitLinesAux_line body h rest []
  simpa using this

/-! ### per-byte facts about names and about what the writers emit -/

theorem varChar_facts : ∀ c : UInt8, (isAlnum c || Gen.Config.varNameExtra.contains c) = true →
    isPyWs c = false ∧ c ≠ 61 ∧ c ≠ 91 ∧ c ≠ 10 ∧ Plain c := by
  apply forall_u8; unfold Plain; decide +kernel

theorem sectionChar_ne_lf : ∀ c : UInt8, (isAlnum c || Gen.Config.sectionNameExtra.contains c) = true → c ≠ 10 := by
  apply forall_u8; decide +kernel

theorem escByte_no_lf : ∀ c : UInt8, ¬ 10 ∈ escByte c := by
  apply forall_u8; decide +kernel

theorem subEscByte_lf : ∀ c : UInt8, 10 ∈ subEscByte c → c = 10 := by
  apply forall_u8; decide +kernel

theorem flatMap_no_lf (v : Bytes) : ¬ 10 ∈ v.flatMap escByte := by
  intro h
  obtain ⟨c, _, hc⟩ := List.mem_flatMap.mp h
  exact escByte_no_lf c hc

theorem formatString_no_lf (v : Bytes) : ¬ 10 ∈ formatString v := by
  unfold formatString
  split
  · simp only [Gen.Config.formatQuoteOpen, Gen.Config.formatQuoteClose, escapeValue_eq, List.mem_append,
      List.mem_singleton, not_or]
    exact ⟨⟨by decide, flatMap_no_lf v⟩, by decide⟩
  · rw [escapeValue_eq]; exact flatMap_no_lf v


/-! ### a written value line is never taken for a continued line -/

/-- reversed output of `_escape_value` for one byte -/
def escByteRev (c : UInt8) : Bytes := (escByte c).reverse

theorem escByteRev_bs : escByteRev 92 = [92, 92] := by decide

theorem escByteRev_head : ∀ c : UInt8, (escByteRev c).head?.any (fun a => (c = 13 || a ≠ 13) && (c = 92 || a ≠ 92)) = true := by
  apply forall_u8; decide +kernel

/-- `trailingCount 92` on the reversed list -/
def tcRev (r : Bytes) : Nat := trailingCount 92 r.reverse

theorem tcRev_cons_bs (r : Bytes) : tcRev (92 :: r) = tcRev r + 1 := by
  simp [tcRev, trailingCount]

theorem tcRev_cons_ne (a : UInt8) (r : Bytes) (h : a ≠ 92) : tcRev (a :: r) = 0 := by
  simp [tcRev, trailingCount, h]

/-- the run of backslashes at the end of an escaped value has even length -/
theorem trailing_bs_even (w : Bytes) : tcRev (w.flatMap escByteRev ++ [32]) % 2 = 0 := by
  induction w with
  | nil => decide
  | cons c w ih =>
    rw [List.flatMap_cons, List.append_assoc]
    by_cases h92 : c = 92
    · subst h92
      rw [escByteRev_bs]
      simp only [List.cons_append, List.nil_append, tcRev_cons_bs]
      omega
    · have := escByteRev_head c
      cases hh : escByteRev c with
      | nil => simp [hh] at this
      | cons a t =>
        simp [hh, h92] at this
        rw [List.cons_append, tcRev_cons_ne a _ this.2]

theorem dropLast_one_snoc (A : Bytes) (c : UInt8) : dropLast 1 (A ++ [c]) = A := by
  simp [dropLast]

theorem isLineContinuation_false (X R : Bytes) (r0 : UInt8) (hX : X.reverse = r0 :: R) (h13 : r0 ≠ 13)
    (heven : tcRev (r0 :: R) % 2 = 0) : isLineContinuation (X ++ [10]) = false := by
  have hlf : Gen.Config.contSuffixLF.isSuffixOf (X ++ [10]) = decide (r0 = 92) := by
    by_cases h : r0 = 92
    · subst h; simp [List.isSuffixOf, Gen.Config.contSuffixLF, List.isPrefixOf, hX]
    · have h' : ¬ 92 = r0 := fun e => h e.symm
      simp [List.isSuffixOf, Gen.Config.contSuffixLF, List.isPrefixOf, h, h', hX]
  have hcrlf : Gen.Config.contSuffixCRLF.isSuffixOf (X ++ [10]) = false := by
    have h' : ¬ 13 = r0 := fun e => h13 e.symm
    simp [List.isSuffixOf, Gen.Config.contSuffixCRLF, List.isPrefixOf, h', hX]
  unfold isLineContinuation
  simp only [hlf, hcrlf, Bool.or_false]
  by_cases h92 : r0 = 92
  · subst h92
    have hs : [Gen.Config.contBackslash].isSuffixOf X = true := by
      simp [List.isSuffixOf, Gen.Config.contBackslash, List.isPrefixOf, hX]
    have htc : trailingCount Gen.Config.contBackslash X % 2 = 0 := by
      have : tcRev (92 :: R) = trailingCount 92 X := by rw [tcRev, ← hX, List.reverse_reverse]
      rw [this] at heven
      exact heven
    simp only [decide_true, Bool.not_true, Bool.false_eq_true, if_false, dropLast_one_snoc, hs, htc]
    decide
  · simp [h92]


theorem formatted_rev (v : Bytes) : ∃ r0 R, (32 :: formatString v).reverse = r0 :: R ∧ r0 ≠ 13 ∧
    tcRev (r0 :: R) % 2 = 0 := by
  unfold formatString
  split
  · refine ⟨34, (escapeValue v).reverse ++ [34, 32], ?_, by decide, ?_⟩
    · simp [Gen.Config.formatQuoteOpen, Gen.Config.formatQuoteClose]
    · rw [tcRev_cons_ne 34 _ (by decide)]
  · rename_i hq
    have hq' : needsQuote v = false := by simpa using hq
    obtain ⟨_, _, _, h13⟩ := needsQuote_false hq'
    rw [escapeValue_eq]
    have hrev : (32 :: v.flatMap escByte).reverse = v.reverse.flatMap escByteRev ++ [32] := by
      rw [List.reverse_cons, List.reverse_flatMap]; rfl
    rw [hrev]
    have hev := trailing_bs_even v.reverse
    cases hw : v.reverse with
    | nil => exact ⟨32, [], by simp, by decide, by decide⟩
    | cons c w =>
      rw [hw] at hev
      have hc13 : c ≠ 13 := by
        intro e
        have : c ∈ v.reverse := by rw [hw]; simp
        exact h13 (e ▸ List.mem_reverse.mp this)
      have := escByteRev_head c
      cases hh : escByteRev c with
      | nil => simp [hh] at this
      | cons a t =>
        simp [hh, hc13] at this
        rw [List.flatMap_cons, hh] at hev ⊢
        exact ⟨a, t ++ (w.flatMap escByteRev ++ [32]), by simp, this.1, by simpa using hev⟩

/-- `from_file` never takes a value line written by `write_to_file` for the start of a continued value -/
theorem no_continuation (v : Bytes) : isLineContinuation (32 :: (formatString v ++ [10])) = false := by
  obtain ⟨r0, R, hX, h13, hev⟩ := formatted_rev v
  have := isLineContinuation_false (32 :: formatString v) R r0 hX h13 hev
  simpa using this

/-! ### the value theorem's two halves -/

/-- the reader's loop returns the value on what the writer emitted (before `strip()` is considered) -/
theorem parseLoop_format (v : Bytes) : parseLoop (formatString v) [] [] false = .ok v := by
  cases hq : needsQuote v with
  | true =>
    -- quoted: `"` escaped `"`
    simp only [formatString, hq, if_true, escapeValue_eq, Gen.Config.formatQuoteOpen,
      Gen.Config.formatQuoteClose, List.cons_append, List.nil_append]
    rw [parseLoop_cons_ne 34 _ [] [] false (by decide)]
    simp only [Gen.Config.parseQuoteChar, if_true, Bool.not_false]
    rw [parseLoop_quoted v [34] [], parseLoop_cons_ne 34 [] _ [] true (by decide)]
    simp [Gen.Config.parseQuoteChar, parseLoop, parseFinish]
  | false =>
    -- unquoted: no comment character, and `strip()` would not change the value
    obtain ⟨hs, h35, h59, _⟩ := needsQuote_false hq
    obtain ⟨_, hlast⟩ := edges_of_strip_eq hs
    have hf : formatString v = v.flatMap escByte := by simp [formatString, hq, escapeValue_eq]
    rw [hf]
    have := parseLoop_plain v [] [] [] h35 h59
    rw [List.append_nil] at this
    rw [this]
    rcases List.eq_nil_or_concat v with rfl | ⟨ys, l, rfl⟩
    · rfl
    · rw [List.concat_eq_append] at hlast ⊢
      have hl : l ≠ 32 := by
        intro e
        have := hlast l (by simp)
        rw [e] at this
        exact absurd this (by decide)
      rw [absorb_last ys l hl]
      simp [parseLoop, parseFinish]

/-- the writer's output starts and ends with bytes `strip()` keeps (or is empty) -/
theorem edges_format (v : Bytes) : Edges (formatString v) := by
  cases hq : needsQuote v with
  | true =>
    right
    refine ⟨34, 34, ?_, by decide, ?_, by decide⟩
    · simp [formatString, hq, Gen.Config.formatQuoteOpen]
    · simp [formatString, hq, Gen.Config.formatQuoteClose]
  | false =>
    obtain ⟨hs, _, _, _⟩ := needsQuote_false hq
    obtain ⟨hh, hl⟩ := edges_of_strip_eq hs
    have hf : formatString v = v.flatMap escByte := by simp [formatString, hq, escapeValue_eq]
    rw [hf]
    exact edges_escaped v hh hl

/-! ### whole files: one line at a time -/

theorem parseHeader_written (sec : Section) (hdr : Bytes) (h : wfSection sec = true)
    (hw : writeHeader sec = .ok hdr) : parseHeader hdr = .ok (sec, []) := by
  obtain ⟨name, sub⟩ := sec
  cases sub with
  | none =>
    simp only [wfSection, Bool.and_eq_true, Bool.not_eq_true'] at h
    simp only [writeHeader, Except.ok.injEq] at hw
    subst hw
    have hd : ¬ 46 ∈ name := by simpa [Gen.Config.hdrDot] using h.2
    exact parseHeader_written_plain name h.1 hd
  | some sub =>
    simp only [wfSection, wfSubsection, Bool.and_eq_true, Bool.not_eq_true'] at h
    simp only [writeHeader] at hw
    split at hw
    · cases hw
    · rename_i esc hesc
      simp only [Except.ok.injEq] at hw
      subst hw
      obtain ⟨he, _, _⟩ := escapeSubsection_ok hesc
      subst he
      exact parseHeader_written_sub name sub h.1

/-- a written header is `[` … without inner LF, then LF -/
theorem writeHeader_shape (sec : Section) (hdr : Bytes) (h : wfSection sec = true)
    (hw : writeHeader sec = .ok hdr) : ∃ body, hdr = (91 :: body) ++ [10] ∧ ¬ 10 ∈ (91 :: body) := by
  obtain ⟨name, sub⟩ := sec
  have hname : ∀ {n : Bytes}, checkSectionName n = true → ¬ 10 ∈ n := by
    intro n hn hm
    unfold checkSectionName at hn
    rw [List.all_eq_true] at hn
    exact sectionChar_ne_lf 10 (hn 10 hm) rfl
  cases sub with
  | none =>
    simp only [wfSection, Bool.and_eq_true, Bool.not_eq_true'] at h
    simp only [writeHeader, Except.ok.injEq] at hw
    subst hw
    refine ⟨name ++ [93], by simp [Gen.Config.wHdrOpen, Gen.Config.wHdrClose], ?_⟩
    have := hname h.1
    simp [this]
  | some sub =>
    simp only [wfSection, wfSubsection, Bool.and_eq_true, Bool.not_eq_true'] at h
    simp only [writeHeader] at hw
    split at hw
    · cases hw
    · rename_i esc hesc
      simp only [Except.ok.injEq] at hw
      subst hw
      obtain ⟨he, h10, _⟩ := escapeSubsection_ok hesc
      subst he
      refine ⟨name ++ [32, 34] ++ sub.flatMap subEscByte ++ [34, 93],
        by simp [Gen.Config.wHdrOpen, Gen.Config.wSubOpen, Gen.Config.wSubClose], ?_⟩
      have h1 := hname h.1
      have h2 : ¬ 10 ∈ sub.flatMap subEscByte := by
        intro hm
        obtain ⟨c, hc, hcm⟩ := List.mem_flatMap.mp hm
        exact h10 (subEscByte_lf c hcm ▸ hc)
      simp [h1, h2]

theorem sameSection_refl (s : Section) : sameSection s s = true := by simp [sameSection]

theorem sameSection_comm (a b : Section) : sameSection a b = sameSection b a := by
  simp only [sameSection]
  rw [Bool.eq_iff_iff]
  simp only [beq_iff_eq]
  exact ⟨Eq.symm, Eq.symm⟩

theorem cfgSetDefault_new (cfg : Cfg) (sec : Section) (h : ∀ e ∈ cfg, sameSection e.1 sec = false) :
    cfgSetDefault cfg sec = cfg ++ [(sec, [])] := by
  unfold cfgSetDefault
  have : cfg.any (fun e => sameSection e.1 sec) = false := by
    rw [List.any_eq_false]; intro e he; simp [h e he]
  simp [this]

theorem cfgModify_last (pre : Cfg) (sec : Section) (ds : Entries) (f : Entries → Entries)
    (h : ∀ e ∈ pre, sameSection e.1 sec = false) :
    cfgModify (pre ++ [(sec, ds)]) sec f = pre ++ [(sec, f ds)] := by
  unfold cfgModify
  rw [List.map_append]
  congr 1
  · conv => rhs; rw [← List.map_id pre]
    apply List.map_congr_left
    intro e he
    simp [h e he]
  · simp [sameSection_refl]

theorem readLine_header (cfg : Cfg) (s0 : Option Section) (first : Bool) (sec : Section) (hdr : Bytes)
    (hwf : wfSection sec = true) (hw : writeHeader sec = .ok hdr)
    (hnew : ∀ e ∈ cfg, sameSection e.1 sec = false) :
    readLine { cfg := cfg, sec := s0, pending := none } first hdr =
      .ok { cfg := cfg ++ [(sec, [])], sec := some sec, pending := none } := by
  obtain ⟨body, hb, _⟩ := writeHeader_shape sec hdr hwf hw
  have hph := parseHeader_written sec hdr hwf hw
  have h1 : (first && Gen.Config.bom.isPrefixOf hdr) = false := by
    rw [hb]; simp [Gen.Config.bom, List.isPrefixOf]
  have h2 : lstrip hdr = hdr := by
    rw [hb]; exact lstrip_of_head (a := 91) (by simp) (by decide)
  have h3 : hdr.head? = some Gen.Config.lineHeaderStart := by rw [hb]; simp [Gen.Config.lineHeaderStart]
  unfold readLine
  simp only [h1, Bool.false_eq_true, if_false, h2, h3, if_true, hph, cfgSetDefault_new cfg sec hnew]
  rfl


theorem mem_dropWhile_of_not {p : UInt8 → Bool} {c : UInt8} (hp : p c = false) :
    ∀ {l : Bytes}, c ∈ l → c ∈ l.dropWhile p := by
  intro l
  induction l with
  | nil => intro h; cases h
  | cons a l ih =>
    intro h
    rw [List.dropWhile_cons]
    split
    · rename_i hpa
      rcases List.mem_cons.mp h with rfl | h
      · rw [hp] at hpa; cases hpa
      · exact ih h
    · exact h

theorem strip_ne_nil {x : Bytes} {c : UInt8} (hc : c ∈ x) (hw : isPyWs c = false) : strip x ≠ [] := by
  have h1 : c ∈ lstrip x := mem_dropWhile_of_not hw hc
  have h2 : c ∈ ((lstrip x).reverse.dropWhile isPyWs) := mem_dropWhile_of_not hw (List.mem_reverse.mpr h1)
  have h3 : c ∈ strip x := by unfold strip rstrip; exact List.mem_reverse.mpr h2
  intro h; rw [h] at h3; cases h3

theorem strip_snoc_space {x : Bytes} {a b : UInt8} (ha : x.head? = some a) (hpa : isPyWs a = false)
    (hb : x.getLast? = some b) (hpb : isPyWs b = false) : strip (x ++ [32]) = x := by
  unfold strip
  have : (x ++ [32]).head? = some a := by rw [List.head?_append, ha]; rfl
  rw [lstrip_of_head this hpa, rstrip_snoc_ws x 32 (by decide), rstrip_of_last hb hpb]

/-- the line `write_to_file` emits for one setting -/
def entryLine (e : Bytes × Bytes) : Bytes := 9 :: (e.1 ++ 32 :: 61 :: 32 :: (formatString e.2 ++ [10]))

theorem writeEntry_eq (e : Bytes × Bytes) : writeEntry e = entryLine e := by
  simp [writeEntry, entryLine, Gen.Config.wIndent, Gen.Config.wSep, Gen.Config.wEnd]

theorem key_facts {k : Bytes} (hk : wfKey k = true) :
    k ≠ [] ∧ checkVariableName k = true ∧
      ∀ c ∈ k, isPyWs c = false ∧ c ≠ 61 ∧ c ≠ 91 ∧ c ≠ 10 ∧ Plain c := by
  simp only [wfKey, Bool.and_eq_true, Bool.not_eq_true', List.isEmpty_eq_false_iff] at hk
  refine ⟨hk.1, hk.2, ?_⟩
  intro c hc
  have := hk.2
  unfold checkVariableName at this
  rw [List.all_eq_true] at this
  exact varChar_facts c (this c hc)

theorem entryLine_shape (k v : Bytes) (hk : wfKey k = true) :
    ∃ body, entryLine (k, v) = body ++ [10] ∧ ¬ 10 ∈ body := by
  obtain ⟨_, _, hc⟩ := key_facts hk
  refine ⟨9 :: (k ++ 32 :: 61 :: 32 :: formatString v), by simp [entryLine], ?_⟩
  have h1 : ¬ 10 ∈ k := fun hm => (hc 10 hm).2.2.2.1 rfl
  have h2 := formatString_no_lf v
  simp [h1, h2]

theorem readLine_entry (pre : Cfg) (sec : Section) (ds : Entries) (k v : Bytes)
    (hk : wfKey k = true) (hpre : ∀ e ∈ pre, sameSection e.1 sec = false) :
    readLine { cfg := pre ++ [(sec, ds)], sec := some sec, pending := none } false (entryLine (k, v)) =
      .ok { cfg := pre ++ [(sec, ds ++ [(k, v)])], sec := some sec, pending := none } := by
  obtain ⟨hne, hcv, hc⟩ := key_facts hk
  obtain ⟨a, k', rfl⟩ := List.exists_cons_of_ne_nil hne
  obtain ⟨b, hb⟩ : ∃ b, (a :: k').getLast? = some b := by
    cases h : (a :: k').getLast? with
    | none => simp at h
    | some b => exact ⟨b, rfl⟩
  have hbm : b ∈ (a :: k') := List.mem_of_getLast? hb
  have ha := hc a (by simp)
  -- the text after `lstrip()`
  let F := formatString v
  let L : Bytes := (a :: k') ++ 32 :: 61 :: 32 :: (F ++ [10])
  have f1 : lstrip (entryLine (a :: k', v)) = L := by
    unfold entryLine
    rw [lstrip_cons_ws 9 _ (by decide)]
    exact lstrip_of_head (a := a) (by simp) ha.1
  have f2 : L.head? = some a := by simp [L]
  have f2' : ¬ (some a = some Gen.Config.lineHeaderStart) := by
    simp only [Option.some.injEq, Gen.Config.lineHeaderStart]; exact ha.2.2.1
  have hplain : ∀ c ∈ ((a :: k') ++ [32, 61]), Plain c := by
    intro c hm
    rcases List.mem_append.mp hm with h | h
    · exact (hc c h).2.2.2.2
    · simp only [List.mem_cons, List.not_mem_nil, or_false] at h
      rcases h with rfl | rfl <;> (unfold Plain; decide)
  have f3 : strip (stripComments L) ≠ [] := by
    have : L = ((a :: k') ++ [32, 61]) ++ (32 :: (F ++ [10])) := by simp [L]
    rw [this]
    unfold stripComments
    rw [stripCommentsAux_plain _ hplain]
    exact strip_ne_nil (c := 61) (by simp) (by decide)
  have f4 : splitOnce Gen.Config.settingSep L = ((a :: k') ++ [32], some (32 :: (F ++ [10]))) := by
    have : L = ((a :: k') ++ [32]) ++ 61 :: (32 :: (F ++ [10])) := by simp [L]
    rw [this]
    apply splitOnce_found
    intro hm
    rcases List.mem_append.mp hm with h | h
    · exact (hc 61 h).2.1 rfl
    · exact absurd h (by decide)
  have f5 : strip ((a :: k') ++ [32]) = a :: k' :=
    strip_snoc_space (a := a) (b := b) (by simp) ha.1 hb (hc b hbm).1
  have f7 : isLineContinuation (32 :: (F ++ [10])) = false := no_continuation v
  have f8 : parseString (32 :: (F ++ [10])) = .ok v := by
    unfold parseString
    rw [pstrip_line_of_edges (edges_format v), parseLoop_format v]
  have f9 : cfgAppend (pre ++ [(sec, ds)]) sec (a :: k') v = pre ++ [(sec, ds ++ [(a :: k', v)])] := by
    unfold cfgAppend
    rw [cfgModify_last pre sec ds _ hpre]; rfl
  unfold readLine
  simp only [Bool.false_and, Bool.false_eq_true, if_false, f1, f2, f2', f3, f4, f5, hcv, Bool.not_true, f7, f8, f9]


/-! ### whole files: induction over entries and sections -/

theorem readLines_cons_line (st : RState) (first : Bool) (body rest : Bytes) (h : ¬ 10 ∈ body) :
    readLines st first (splitLines ((body ++ [10]) ++ rest)) =
      match readLine st first (body ++ [10]) with
      | .error e => .error e
      | .ok st' => readLines st' false (splitLines rest) := by
  rw [splitLines_line body h]; rfl

theorem readLines_entries (pre : Cfg) (sec : Section) (hpre : ∀ e ∈ pre, sameSection e.1 sec = false)
    (d : Entries) : ∀ (ds : Entries) (rest : Bytes), wfEntries d = true →
    readLines { cfg := pre ++ [(sec, ds)], sec := some sec, pending := none } false
        (splitLines (writeEntries d ++ rest)) =
      readLines { cfg := pre ++ [(sec, ds ++ d)], sec := some sec, pending := none } false (splitLines rest) := by
  induction d with
  | nil => intro ds rest _; simp [writeEntries]
  | cons e d ih =>
    intro ds rest hwf
    obtain ⟨k, v⟩ := e
    simp only [wfEntries, List.all_cons, Bool.and_eq_true] at hwf
    obtain ⟨hk, hd⟩ := hwf
    obtain ⟨body, hb, hlf⟩ := entryLine_shape k v hk
    have hw : writeEntries ((k, v) :: d) ++ rest = (body ++ [10]) ++ (writeEntries d ++ rest) := by
      simp only [writeEntries, List.flatMap_cons, writeEntry_eq, hb, List.append_assoc]
    rw [hw, readLines_cons_line _ _ body _ hlf, ← hb, readLine_entry pre sec ds k v hk hpre]
    simp only
    rw [ih (ds ++ [(k, v)]) rest (by simpa [wfEntries] using hd)]
    simp

theorem readLines_file (cfg : Cfg) : ∀ (pre : Cfg) (s0 : Option Section) (first : Bool) (data : Bytes),
    writeFile cfg = .ok data → (∀ e ∈ cfg, wfSection e.1 = true ∧ wfEntries e.2 = true) →
    distinctSections cfg = true → (∀ e ∈ pre, ∀ f ∈ cfg, sameSection e.1 f.1 = false) →
    ∃ s1, readLines { cfg := pre, sec := s0, pending := none } first (splitLines data) =
      .ok { cfg := pre ++ cfg, sec := s1, pending := none } := by
  induction cfg with
  | nil =>
    intro pre s0 first data hw _ _ _
    simp only [writeFile, Except.ok.injEq] at hw
    subst hw
    exact ⟨s0, by simp [splitLines, splitLinesAux, readLines]⟩
  | cons sd cfg ih =>
    intro pre s0 first data hw hwf hdist hpre
    obtain ⟨sec, d⟩ := sd
    simp only [writeFile] at hw
    split at hw
    · cases hw
    · rename_i h hh
      split at hw
      · cases hw
      · rename_i r hr
        simp only [Except.ok.injEq] at hw
        subst hw
        have hsec := hwf (sec, d) (by simp)
        obtain ⟨body, hb, hlf⟩ := writeHeader_shape sec h hsec.1 hh
        have hnew : ∀ e ∈ pre, sameSection e.1 sec = false := fun e he => hpre e he (sec, d) (by simp)
        simp only [distinctSections, Bool.and_eq_true, Bool.not_eq_true'] at hdist
        have hd2 : ∀ f ∈ cfg, sameSection (sec, d).1 f.1 = false := by
          intro f hf
          have := List.any_eq_false.mp hdist.1 f hf
          rw [sameSection_comm]; simpa using this
        have e1 : h ++ writeEntries d ++ r = ((91 :: body) ++ [10]) ++ (writeEntries d ++ r) := by
          rw [hb, List.append_assoc]
        rw [e1, readLines_cons_line _ _ (91 :: body) _ hlf, ← hb, readLine_header pre s0 first sec h hsec.1 hh hnew]
        simp only
        rw [readLines_entries pre sec hnew d [] r hsec.2]
        obtain ⟨s1, hs1⟩ := ih (pre ++ [(sec, d)]) (some sec) false r hr
          (fun e he => hwf e (by simp [he])) hdist.2
          (by
            intro e he f hf
            rcases List.mem_append.mp he with he | he
            · exact hpre e he f (by simp [hf])
            · simp only [List.mem_singleton] at he; subst he; exact hd2 f hf)
        refine ⟨s1, ?_⟩
        simp only [List.nil_append]
        rw [hs1]
        simp


/-! ### `ConfigDict.set/add/remove` keep the sections pairwise distinct -/

def distinctNames : List Section → Bool
  | [] => true
  | s :: rest => !rest.any (fun t => sameSection t s) && distinctNames rest

theorem distinctSections_eq (cfg : Cfg) : distinctSections cfg = distinctNames (cfg.map (·.1)) := by
  induction cfg with
  | nil => rfl
  | cons e cfg ih =>
    obtain ⟨s, d⟩ := e
    simp only [distinctSections, List.map_cons, distinctNames, ih, List.any_map]
    rfl

theorem cfgModify_names (cfg : Cfg) (sec : Section) (f : Entries → Entries) :
    (cfgModify cfg sec f).map (·.1) = cfg.map (·.1) := by
  unfold cfgModify
  rw [List.map_map]
  apply List.map_congr_left
  intro e _
  simp only [Function.comp]
  split <;> rfl

theorem distinctNames_snoc (l : List Section) (s : Section) (hd : distinctNames l = true)
    (hs : l.any (fun t => sameSection t s) = false) : distinctNames (l ++ [s]) = true := by
  induction l with
  | nil => simp [distinctNames]
  | cons a l ih =>
    simp only [distinctNames, Bool.and_eq_true, Bool.not_eq_true'] at hd
    simp only [List.any_cons, Bool.or_eq_false_iff] at hs
    simp only [List.cons_append, distinctNames, List.any_append, List.any_cons, List.any_nil, Bool.or_false,
      Bool.and_eq_true, Bool.not_eq_true', Bool.or_eq_false_iff]
    refine ⟨⟨hd.1, ?_⟩, ih hd.2 hs.2⟩
    rw [sameSection_comm]; exact hs.1

theorem distinct_setDefault (cfg : Cfg) (sec : Section) (h : distinctSections cfg = true) :
    distinctSections (cfgSetDefault cfg sec) = true := by
  unfold cfgSetDefault
  split
  · exact h
  · rename_i hn
    rw [distinctSections_eq] at h ⊢
    rw [List.map_append]
    apply distinctNames_snoc _ _ h
    simpa [List.any_map] using hn

theorem distinct_modify (cfg : Cfg) (sec : Section) (f : Entries → Entries) (h : distinctSections cfg = true) :
    distinctSections (cfgModify cfg sec f) = true := by
  rw [distinctSections_eq, cfgModify_names, ← distinctSections_eq]; exact h

end Dulwich.Config
