/-
  Helper lemmas for C09: soundness of the executable crash-safety checker of Model/Crash.lean.
-/
import DulwichModel.Model.Crash

namespace Dulwich.Crash

/-! ### finite knowledge vs. the real file system -/

theorem lk_cons (q : Path) (c : Option Content) (K : Known) (p : Path) :
    lk ((q, c) :: K) p = if q = p then some c else lk K p := rfl

theorem agrees_upd {s : FS} {K : Known} (h : Agrees s K) (p : Path) (c : Option Content) :
    Agrees (upd s p c) ((p, c) :: K) := by
  intro q d hq
  rw [lk_cons] at hq
  unfold upd
  by_cases e : p = q
  · subst e
    simp only [if_true] at hq ⊢
    exact (Option.some.inj hq)
  · have e' : ¬ q = p := fun x => e x.symm
    simp only [e, e', if_false] at hq ⊢
    exact h q d hq

theorem step_frame (c : Call) (s : FS) (p : Path) (h : p ∉ touched c) : step c s p = s p := by
  cases c with
  | write q d => simp [touched] at h; simp [step, upd, h]
  | rename a b =>
    simp [touched] at h
    simp only [step]
    cases s a with
    | none => rfl
    | some d => simp [upd, h.1, h.2]
  | unlink q => simp [touched] at h; simp [step, upd, h]
  | mkdir q => simp [touched] at h; simp [step, upd, h]
  | rmdir q => simp [touched] at h; simp [step, upd, h]
  | skip o ev => rfl

theorem stepK_agrees {s : FS} {K K' : Known} {c : Call} (h : Agrees s K)
    (hk : stepK c K = some K') : Agrees (step c s) K' := by
  cases c with
  | write q d =>
    simp only [stepK, Option.some.injEq] at hk; subst hk
    exact agrees_upd h q (some d)
  | rename a b =>
    simp only [stepK] at hk
    split at hk
    · rename_i d hd
      simp only [Option.some.injEq] at hk; subst hk
      have hs : s a = some d := h a (some d) hd
      simp only [step, hs]
      exact agrees_upd (agrees_upd h a none) b (some d)
    · cases hk
  | unlink q =>
    simp only [stepK, Option.some.injEq] at hk; subst hk
    exact agrees_upd h q none
  | mkdir q =>
    simp only [stepK, Option.some.injEq] at hk; subst hk
    exact agrees_upd h q (some .dir)
  | rmdir q =>
    simp only [stepK, Option.some.injEq] at hk; subst hk
    exact agrees_upd h q none
  | skip o ev =>
    simp only [stepK, Option.some.injEq] at hk; subst hk
    exact h

theorem packObjsK_sound {s : FS} {K : Known} (h : Agrees s K) {p : Nat} {objs : List Nat}
    (hp : packObjsK K p = some objs) :
    ∃ k, s (.pack p) = some (.packData k) ∧ s (.idx p) = some (.idxData k objs) := by
  unfold packObjsK at hp
  split at hp
  · rename_i k k' objs' h1 h2
    split at hp
    · rename_i hk
      simp only [Option.some.injEq] at hp
      subst hp; subst hk
      exact ⟨k, h _ _ h1, h _ _ h2⟩
    · cases hp
  · cases hp

theorem visK_sound {s : FS} {K : Known} (h : Agrees s K) {o : Nat} (hv : visK K o = true) :
    Vis s o := by
  unfold visK at hv
  rw [Bool.or_eq_true] at hv
  rcases hv with hv | hv
  · left
    split at hv
    · rename_i o' hl
      have : o = o' := by simpa using hv
      subst this
      exact h _ _ hl
    · cases hv
  · right
    rw [List.any_eq_true] at hv
    obtain ⟨e, _, he⟩ := hv
    split at he
    · rename_i p _
      split at he
      · rename_i objs hp
        obtain ⟨k, h1, h2⟩ := packObjsK_sound h hp
        exact ⟨p, k, objs, h1, h2, by simpa using he⟩
      · cases he
    · cases he

theorem rawRefK_sound {s : FS} {K : Known} (h : Agrees s K) {r : Nat} {v : Option RefV}
    (hr : rawRefK K r = some v) : rawRef s r = v := by
  unfold rawRefK at hr
  unfold rawRef
  split at hr
  · rename_i c hc
    rw [h _ _ hc]
    simpa using hr
  · rename_i hc
    rw [h _ _ hc]
    split at hr
    · rename_i pc hpc
      rw [h _ _ hpc]
      simpa using hr
    · cases hr
  · cases hr

/-! ### objects: what a step can make invisible -/

theorem vis_step {spec : Spec} {s : FS} {K K' : Known} {c : Call}
    (hK : Agrees s K) (hK' : Agrees (step c s) K')
    (hok : ∀ t ∈ touched c, objsOK spec K K' t = true) {o : Nat} (hv : Vis s o) :
    Vis (step c s) o ∨ o ∈ spec.garbage := by
  have use : ∀ t ∈ touched c, ∀ l, mayLose K t = some l → o ∈ l →
      Vis (step c s) o ∨ o ∈ spec.garbage := by
    intro t ht l hl hol
    have := hok t ht
    unfold objsOK at this
    rw [hl] at this
    simp only [List.all_eq_true] at this
    have := this o hol
    rw [Bool.or_eq_true] at this
    rcases this with h1 | h1
    · exact Or.inl (visK_sound hK' h1)
    · exact Or.inr (by simpa using h1)
  have known : ∀ t ∈ touched c, ∃ l, mayLose K t = some l := by
    intro t ht
    have := hok t ht
    unfold objsOK at this
    split at this
    · exact ⟨_, by assumption⟩
    · cases this
  rcases hv with hv | ⟨p, k, objs, h1, h2, h3⟩
  · by_cases ht : Path.loose o ∈ touched c
    · exact use _ ht [o] rfl (by simp)
    · left; left; rw [step_frame c s _ ht]; exact hv
  · have packCase : ∀ t ∈ touched c, (t = .pack p ∨ t = .idx p) →
        Vis (step c s) o ∨ o ∈ spec.garbage := by
      intro t ht htp
      obtain ⟨l, hl⟩ := known t ht
      have hl' : mayLose K t = (match lk K (.pack p), lk K (.idx p) with
          | some _, some _ => some ((packObjsK K p).getD [])
          | _, _ => none) := by
        rcases htp with rfl | rfl <;> rfl
      rw [hl'] at hl
      split at hl
      · rename_i a b ha hb
        have ea := hK _ _ ha
        have eb := hK _ _ hb
        rw [h1] at ea; rw [h2] at eb
        subst ea; subst eb
        have hp : packObjsK K p = some objs := by
          unfold packObjsK
          simp [ha, hb]
        apply use t ht l
        · rw [hl']; simp [ha, hb]; simpa using hl
        · simp only [Option.some.injEq] at hl
          rw [← hl, hp]; simpa using h3
      · cases hl
    by_cases ht1 : Path.pack p ∈ touched c
    · exact packCase _ ht1 (Or.inl rfl)
    · by_cases ht2 : Path.idx p ∈ touched c
      · exact packCase _ ht2 (Or.inr rfl)
      · left; right
        exact ⟨p, k, objs, by rw [step_frame c s _ ht1]; exact h1,
          by rw [step_frame c s _ ht2]; exact h2, h3⟩

/-! ### refs: which values a step can change -/

theorem lookup_none_of_not_mem {m : List (Nat × Nat)} {r : Nat} (h : r ∉ m.map Prod.fst) :
    m.lookup r = none := by
  induction m with
  | nil => rfl
  | cons e m ih =>
    obtain ⟨a, b⟩ := e
    simp only [List.map_cons, List.mem_cons, not_or] at h
    have : (r == a) = false := by simpa using h.1
    simp only [List.lookup, this]
    exact ih h.2

theorem packedLk_none {pc : Option Content} {r : Nat} (h : r ∉ keysOf pc) : packedLk pc r = none := by
  unfold packedLk
  split
  · rename_i m
    simp only [keysOf] at h
    rw [lookup_none_of_not_mem h]; rfl
  · rfl

theorem ref_step {s : FS} {K K' : Known} {c : Call}
    (hK : Agrees s K) (hK' : Agrees (step c s) K')
    (hknown : ∀ t ∈ touched c, ∃ l, mayChange K K' t = some l) {r : Nat}
    (hne : rawRef (step c s) r ≠ rawRef s r) :
    ∃ t ∈ touched c, ∃ l, mayChange K K' t = some l ∧ r ∈ l := by
  by_cases ht : Path.ref r ∈ touched c
  · exact ⟨_, ht, [r], rfl, by simp⟩
  · by_cases hp : Path.packedRefs ∈ touched c
    · obtain ⟨l, hl⟩ := hknown _ hp
      refine ⟨_, hp, l, hl, ?_⟩
      simp only [mayChange] at hl
      split at hl
      · rename_i a b ha hb
        simp only [Option.some.injEq] at hl
        subst hl
        have ea := hK _ _ ha
        have eb := hK' _ _ hb
        apply Classical.byContradiction
        intro hnot
        simp only [List.mem_append, not_or] at hnot
        apply hne
        unfold rawRef
        rw [step_frame c s _ ht, ea, eb]
        cases s (.ref r) with
        | some d => rfl
        | none =>
          simp only
          rw [packedLk_none hnot.1, packedLk_none hnot.2]
      · cases hl
    · exfalso; apply hne
      unfold rawRef
      rw [step_frame c s _ ht, step_frame c s _ hp]

/-! ### closures and the shallow set -/

theorem closed_aux {edges : List (Nat × List Nat × List Nat)} {G GP : Nat → List Nat} {S c : List Nat}
    (hg : ∀ o ds ps, edges.lookup o = some (ds, ps) → G o = ds ∧ GP o = ps)
    (hall : ∀ x ∈ c, nodeOK edges S c x = true)
    {a o : Nat} (hr : ReachFrom G GP S a o) : a ∈ c → o ∈ c := by
  induction hr with
  | refl a => exact id
  | @dep a b c' hb _ ih =>
    intro ha
    apply ih
    have := hall a ha
    unfold nodeOK at this
    split at this
    · rename_i ds ps hds
      rw [(hg a ds ps hds).1] at hb
      simp only [Bool.and_eq_true, List.all_eq_true] at this
      simpa using this.1 b hb
    · cases this
  | @par a b c' hs hb _ ih =>
    intro ha
    apply ih
    have := hall a ha
    unfold nodeOK at this
    split at this
    · rename_i ds ps hds
      rw [(hg a ds ps hds).2] at hb
      simp only [Bool.and_eq_true, Bool.or_eq_true, List.all_eq_true] at this
      rcases this.2 with h1 | h1
      · exact absurd (by simpa using h1) hs
      · simpa using h1 b hb
    · cases this

theorem closed_sound {spec : Spec} {G GP : Nat → List Nat} {S : List Nat} {v : Nat}
    (hg : ∀ o ds ps, spec.edges.lookup o = some (ds, ps) → G o = ds ∧ GP o = ps)
    (hc : closedOK spec S v = true) {o : Nat} (hr : ReachFrom G GP S v o) : o ∈ cl spec S v := by
  unfold closedOK at hc
  simp only [Bool.and_eq_true, List.all_eq_true] at hc
  obtain ⟨hv, hall⟩ := hc
  exact closed_aux hg hall hr (by simpa using hv)

theorem shalK_sound {s : FS} {K : Known} (h : Agrees s K) {S : List Nat} (hs : shalK K = some S) :
    shal s = S := by
  unfold shalK at hs
  cases hl : lk K .shallow with
  | none => simp [hl] at hs
  | some c =>
    simp only [hl, Option.map_some, Option.some.injEq] at hs
    unfold shal
    rw [h _ _ hl, hs]

theorem shal_frame (c : Call) (s : FS) (h : Path.shallow ∉ touched c) : shal (step c s) = shal s := by
  unfold shal
  rw [step_frame c s _ h]

/-- A path that exists under the shallow set `S'` either exists under `S` as well, or leaves — by a
parent edge — a commit that `S` lists and `S'` does not. -/
theorem reach_split {G GP : Nat → List Nat} {S S' : List Nat} {v o : Nat}
    (h : ReachFrom G GP S' v o) :
    ReachFrom G GP S v o ∨
      ∃ a, a ∈ S ∧ a ∉ S' ∧ ReachFrom G GP S v a ∧ ReachFrom G GP S' a o := by
  induction h with
  | refl a => exact Or.inl (.refl a)
  | @dep a b c hb hr ih =>
    rcases ih with h1 | ⟨x, hx, hx', h1, h2⟩
    · exact Or.inl (.dep hb h1)
    · exact Or.inr ⟨x, hx, hx', .dep hb h1, h2⟩
  | @par a b c hs hb hr ih =>
    by_cases ha : a ∈ S
    · exact Or.inr ⟨a, ha, hs, .refl a, .par hs hb hr⟩
    · rcases ih with h1 | ⟨x, hx, hx', h1, h2⟩
      · exact Or.inl (.par ha hb h1)
      · exact Or.inr ⟨x, hx, hx', .par ha hb h1, h2⟩

/-! ### the invariant -/

structure Inv (spec : Spec) (G GP : Nat → List Nat) (s0 s : FS) : Prop where
  refs : ∀ r, RefOldOrNew spec s0 s r
  kept : ∀ o, Reach G GP s0 o → Vis s o
  cons : ∀ o, Reach G GP s o → Vis s o ∧ o ∉ spec.garbage
  plain : ∀ n, PlainOldOrNew spec s0 s n
  typed : ∀ p c, s p = some c → typedB p c = true
  paired : ∀ p, PairedAt s p

theorem closedVis_sound {spec : Spec} {G GP : Nat → List Nat} {s : FS} {K : Known}
    (hg : ∀ o ds ps, spec.edges.lookup o = some (ds, ps) → G o = ds ∧ GP o = ps)
    (h : Agrees s K) {v : Nat} (hc : closedVis spec K v = true) {o : Nat}
    (hr : ReachFrom G GP (shal s) v o) : Vis s o ∧ o ∉ spec.garbage := by
  unfold closedVis at hc
  split at hc
  · rename_i S hS
    rw [shalK_sound h hS] at hr
    simp only [Bool.and_eq_true, List.all_eq_true] at hc
    have := hc.2 o (closed_sound hg hc.1 hr)
    exact ⟨visK_sound h this.1, by simpa using this.2⟩
  · cases hc

theorem inv_init {spec : Spec} {G GP : Nat → List Nat} {s : FS} (hp : Pre spec G GP s) :
    Inv spec G GP s s where
  refs := fun _ => Or.inl rfl
  kept := hp.consistent
  cons := fun o h => ⟨hp.consistent o h, fun hg => hp.garbage o hg h⟩
  plain := fun _ => Or.inl rfl
  typed := hp.typed
  paired := hp.paired

theorem inv_recoverable {spec : Spec} {G GP : Nat → List Nat} {s0 s : FS}
    (h : Inv spec G GP s0 s) : Recoverable spec G GP s0 s where
  refs := h.refs
  kept := h.kept
  plain := h.plain
  typed := h.typed
  paired := h.paired
  consistent := fun o ho => (h.cons o ho).1

theorem inv_step {spec : Spec} {G GP : Nat → List Nat} {s0 s : FS} {K K' : Known} {c : Call}
    (hp : Pre spec G GP s0) (hK : Agrees s K) (hk : stepK c K = some K')
    (hsafe : safeStep spec spec.known K K' c = true) (h : Inv spec G GP s0 s) :
    Inv spec G GP s0 (step c s) := by
  have hK' : Agrees (step c s) K' := stepK_agrees hK hk
  unfold safeStep at hsafe
  simp only [List.all_eq_true, Bool.and_eq_true] at hsafe
  replace hsafe := hsafe.2
  have hobj : ∀ t ∈ touched c, objsOK spec K K' t = true := fun t ht => (hsafe t ht).1.1.1.1.2
  have hrefs : ∀ t ∈ touched c, refsOK spec spec.known K K' t = true := fun t ht => (hsafe t ht).1.1.1.2
  have hknown : ∀ t ∈ touched c, ∃ l, mayChange K K' t = some l := by
    intro t ht
    have := hrefs t ht
    unfold refsOK at this
    split at this
    · exact ⟨_, by assumption⟩
    · cases this
  -- a ref whose value changes has been checked
  have changed : ∀ r, rawRef (step c s) r ≠ rawRef s r → refOK spec spec.known K K' r = true := by
    intro r hne
    obtain ⟨t, ht, l, hl, hr⟩ := ref_step hK hK' hknown hne
    have := hrefs t ht
    unfold refsOK at this
    rw [hl] at this
    simp only [List.all_eq_true] at this
    exact this r hr
  -- visibility of protected objects is preserved
  have keepVis : ∀ o, Vis s o → o ∉ spec.garbage → Vis (step c s) o := by
    intro o hv hg
    rcases vis_step hK hK' hobj hv with h1 | h1
    · exact h1
    · exact absurd h1 hg
  refine ⟨?_, ?_, ?_, ?_, ?_, ?_⟩
  · -- refs
    intro r
    by_cases hne : rawRef (step c s) r = rawRef s r
    · rcases h.refs r with h1 | ⟨e, he, h1, h2⟩
      · exact Or.inl (hne.trans h1)
      · exact Or.inr ⟨e, he, h1, hne.trans h2⟩
    · have ok := changed r hne
      unfold refOK at ok
      split at ok
      · rename_i v' hv'
        have e' := rawRefK_sound hK' hv'
        simp only [Bool.and_eq_true, Bool.or_eq_true] at ok
        rcases ok.1 with (h1 | h1) | h1
        · exfalso; apply hne
          have : rawRefK K r = some v' := by simpa using h1
          rw [e', rawRefK_sound hK this]
        · left
          have : rawRefK spec.known r = some v' := by simpa using h1
          rw [e', rawRefK_sound hp.agrees this]
        · right
          have : (r, v') ∈ spec.newRefs := by simpa using h1
          exact ⟨(r, v'), this, rfl, e'⟩
      · cases ok
  · -- kept
    intro o ho
    apply keepVis o (h.kept o ho)
    intro hg
    exact hp.garbage o hg ho
  · -- cons: every ref's closure, cut at the CURRENT shallow set, is visible
    intro o ⟨r, v, hr, hreach⟩
    by_cases hne : rawRef (step c s) r = rawRef s r
    · -- the ref did not move
      have hr0 : rawRef s r = some (.sha v) := hne ▸ hr
      have viaOld : ∀ o', ReachFrom G GP (shal s) v o' → Vis (step c s) o' ∧ o' ∉ spec.garbage := by
        intro o' ho'
        have := h.cons o' ⟨r, v, hr0, ho'⟩
        exact ⟨keepVis o' this.1 this.2, this.2⟩
      by_cases hsh : Path.shallow ∈ touched c
      · -- the shallow set moved: split the path at the first commit that stopped being a graft point
        have := (hsafe _ hsh).2
        simp only [shallowOK] at this
        split at this
        · rename_i Sa Sb hSa hSb
          have ea := shalK_sound hK hSa
          have eb := shalK_sound hK' hSb
          rw [eb] at hreach
          rcases reach_split (S := Sa) hreach with h1 | ⟨a, ha, ha', _, h2⟩
          · exact viaOld o (ea ▸ h1)
          · simp only [List.all_eq_true, List.mem_filter] at this
            have hc := this a ⟨ha, by simpa using ha'⟩
            exact closedVis_sound hp.graph hK' hc (eb ▸ h2)
        · cases this
      · rw [shal_frame c s hsh] at hreach
        exact viaOld o hreach
    · -- the ref moved: its new value was checked against the state after the step
      have ok := changed r hne
      unfold refOK at ok
      split at ok
      · rename_i v' hv'
        have e' := rawRefK_sound hK' hv'
        rw [hr] at e'
        subst e'
        simp only [Bool.and_eq_true] at ok
        exact closedVis_sound hp.graph hK' ok.2 hreach
      · cases ok
  · -- plain
    intro n
    by_cases ht : Path.plain n ∈ touched c
    · have := (hsafe _ ht).1.1.2
      simp only [plainOK] at this
      split at this
      · rename_i d hd
        have e' := hK' _ _ hd
        rw [Bool.or_eq_true] at this
        rcases this with h1 | h1
        · left
          have : lk spec.known (.plain n) = some d := by simpa using h1
          rw [e', hp.agrees _ _ this]
        · right
          have : (n, d) ∈ spec.newPlain := by simpa using h1
          exact ⟨(n, d), this, rfl, e'⟩
      · cases this
    · unfold PlainOldOrNew
      rw [step_frame c s _ ht]
      exact h.plain n
  · -- typed
    intro p d hpd
    by_cases ht : p ∈ touched c
    · have := (hsafe _ ht).1.1.1.1.1
      unfold typedOK at this
      split at this
      · rename_i d' hd'
        have e' := hK' _ _ hd'
        rw [hpd] at e'
        simp only [Option.some.injEq] at e'
        subst e'
        exact this
      · rename_i hd'
        have e' := hK' _ _ hd'
        rw [hpd] at e'
        cases e'
      · cases this
    · rw [step_frame c s _ ht] at hpd
      exact h.typed p d hpd
  · -- paired
    intro p k k' objs h1 h2
    have fromK : ∀ t ∈ touched c, (t = .pack p ∨ t = .idx p) → k = k' := by
      intro t ht htp
      have := (hsafe t ht).1.2
      have e : pairOK K' t = (match lk K' (.pack p), lk K' (.idx p) with
          | some (some (.packData k)), some (some (.idxData k' _)) => k == k'
          | some _, some _ => true
          | _, _ => false) := by
        rcases htp with rfl | rfl <;> rfl
      rw [e] at this
      split at this
      · rename_i a b objs' ha hb
        have ea := hK' _ _ ha
        have eb := hK' _ _ hb
        rw [h1] at ea; rw [h2] at eb
        simp only [Option.some.injEq, Content.packData.injEq] at ea
        simp only [Option.some.injEq, Content.idxData.injEq] at eb
        rw [ea, eb.1]
        simpa using this
      · rename_i a b hnot ha hb
        have ea := hK' _ _ ha
        have eb := hK' _ _ hb
        rw [h1] at ea; rw [h2] at eb
        exact (hnot k k' objs ea.symm eb.symm).elim
      · cases this
    by_cases ht1 : Path.pack p ∈ touched c
    · exact fromK _ ht1 (Or.inl rfl)
    · by_cases ht2 : Path.idx p ∈ touched c
      · exact fromK _ ht2 (Or.inr rfl)
      · rw [step_frame c s _ ht1] at h1
        rw [step_frame c s _ ht2] at h2
        exact h.paired p k k' objs h1 h2

theorem go_sound {spec : Spec} {G GP : Nat → List Nat} {s0 : FS} (hp : Pre spec G GP s0) :
    ∀ (p : List Call) (K : Known) (s : FS), Agrees s K → Inv spec G GP s0 s →
      go spec spec.known K p = true → ∀ k, Inv spec G GP s0 (run (p.take k) s) := by
  intro p
  induction p with
  | nil => intro K s _ hi _ k; simpa [run] using hi
  | cons c cs ih =>
    intro K s hK hi hgo k
    cases k with
    | zero => simpa [run] using hi
    | succ k =>
      simp only [go] at hgo
      split at hgo
      · rename_i K' hk
        rw [Bool.and_eq_true] at hgo
        simp only [List.take_succ_cons, run]
        exact ih K' (step c s) (stepK_agrees hK hk) (inv_step hp hK hk hgo.1 hi) hgo.2 k
      · cases hgo

/-! ### closed-world start states (non-vacuity: the recorded start states satisfy `Pre`) -/

theorem agrees_toFS (K : Known) : Agrees (toFS K) K := by
  intro p c h
  simp [toFS, h]

theorem lk_mem {K : Known} {p : Path} {c : Option Content} (h : lk K p = some c) : (p, c) ∈ K := by
  induction K with
  | nil => cases h
  | cons e K ih =>
    obtain ⟨q, d⟩ := e
    rw [lk_cons] at h
    by_cases e' : q = p
    · subst e'
      simp only [if_true, Option.some.injEq] at h
      subst h
      exact List.mem_cons_self
    · simp only [e', if_false] at h
      exact List.mem_cons_of_mem _ (ih h)

theorem rawRef_toFS (K : Known) (r : Nat) : rawRef (toFS K) r = rawRefC K r := by
  unfold rawRef rawRefC toFS
  cases h : lk K (.ref r) with
  | none =>
    simp only [Option.getD]
    cases h2 : lk K .packedRefs with
    | none => simp [packedLk]
    | some pc => simp
  | some oc =>
    cases oc with
    | none =>
      simp only [Option.getD]
      cases h2 : lk K .packedRefs with
      | none => simp [packedLk]
      | some pc => simp
    | some c => simp

theorem lookup_some_mem {m : List (Nat × Nat)} {r v : Nat} (h : m.lookup r = some v) :
    r ∈ m.map Prod.fst := by
  apply Classical.byContradiction
  intro hn
  rw [lookup_none_of_not_mem hn] at h
  cases h

theorem rawRefC_mem {K : Known} {r : Nat} {v : RefV} (h : rawRefC K r = some v) : r ∈ refIds K := by
  unfold rawRefC at h
  unfold refIds
  rw [List.mem_flatMap]
  split at h
  · rename_i c hc
    exact ⟨(.ref r, some c), lk_mem hc, by simp⟩
  · split at h
    · rename_i pc hpc
      unfold packedLk at h
      split at h
      · rename_i m
        refine ⟨(.packedRefs, some (.packed m)), lk_mem hpc, ?_⟩
        simp only
        cases hm : m.lookup r with
        | none => simp [hm] at h
        | some v' => exact lookup_some_mem hm
      · cases h
    · cases h

theorem pre_of_preK {spec : Spec} (h : preK spec = true) :
    Pre spec (graphOf spec) (parentsOf spec) (toFS spec.known) := by
  unfold preK at h
  simp only [Bool.and_eq_true, List.all_eq_true] at h
  obtain ⟨⟨⟨_, hrefs⟩, htyped⟩, hpair⟩ := h
  have hg : ∀ o ds ps, spec.edges.lookup o = some (ds, ps) →
      graphOf spec o = ds ∧ parentsOf spec o = ps := by
    intro o ds ps ho; simp [graphOf, parentsOf, ho]
  have closed : ∀ r v, rawRef (toFS spec.known) r = some (.sha v) →
      ∀ o, ReachFrom (graphOf spec) (parentsOf spec) (shal (toFS spec.known)) v o →
        Vis (toFS spec.known) o ∧ o ∉ spec.garbage := by
    intro r v hr o ho
    rw [rawRef_toFS] at hr
    have := hrefs r (rawRefC_mem hr)
    rw [hr] at this
    exact closedVis_sound hg (agrees_toFS _) this ho
  refine ⟨agrees_toFS _, hg, ?_, ?_, ?_, ?_⟩
  · intro o ⟨r, v, hr, hreach⟩
    exact (closed r v hr o hreach).1
  · intro o ho ⟨r, v, hr, hreach⟩
    exact (closed r v hr o hreach).2 ho
  · intro p c hpc
    have hl : lk spec.known p = some (some c) := by
      unfold toFS at hpc
      cases hk : lk spec.known p with
      | none => simp [hk] at hpc
      | some oc => simp [hk] at hpc; rw [hpc]
    have := htyped (p, some c) (lk_mem hl)
    simp only [hl] at this
    exact this
  · intro p k k' objs h1 h2
    have hl : lk spec.known (.pack p) = some (some (.packData k)) := by
      unfold toFS at h1
      cases hk : lk spec.known (.pack p) with
      | none => simp [hk] at h1
      | some oc => simp [hk] at h1; rw [h1]
    have := hpair (.pack p, some (.packData k)) (lk_mem hl)
    simp only [pairC] at this
    unfold toFS at h1 h2
    rw [h1, h2] at this
    simpa using this

/-! ### retry after a crash -/

theorem runK_agrees {s : FS} : ∀ (p : List Call) (K K' : Known), Agrees s K → runK p K = some K' →
    Agrees (run p s) K' := by
  intro p
  induction p generalizing s with
  | nil => intro K K' h hk; simp only [runK, Option.some.injEq] at hk; subst hk; exact h
  | cons c cs ih =>
    intro K K' h hk
    simp only [runK] at hk
    split at hk
    · rename_i K1 h1
      exact ih K1 K' (stepK_agrees h h1) hk
    · cases hk

theorem retry_sound {spec : Spec} {G GP : Nat → List Nat} {s0 : FS} (hp : Pre spec G GP s0)
    {p : List Call} (hc : checkProgram spec p = true) {qs : List (List Call)}
    (hq : retryOK spec p qs = true) (k : Nat) (hk : k < qs.length) (j : Nat) :
    Inv spec G GP s0 (run ((qs.getD k []).take j) (run (p.take k) s0)) := by
  unfold retryOK at hq
  rw [List.all_eq_true] at hq
  have := hq k (by simpa using hk)
  split at this
  · rename_i Kk hKk
    exact go_sound hp _ Kk _ (runK_agrees _ _ _ hp.agrees hKk)
      (go_sound hp p spec.known s0 hp.agrees (inv_init hp) hc k) this j
  · cases this

end Dulwich.Crash
