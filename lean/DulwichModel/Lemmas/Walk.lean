/-
  Helper lemmas for C13 (history-walk model `Model/Walk.lean`): `_topo_reorder` (counting invariant, weight
  measure for termination), the commit-time queue without excludes (graph-search invariant, pigeonhole for
  termination), and the queue with every option (soundness invariant: whatever is queued or done is reachable
  from an include or already excluded).
-/
import DulwichModel.Model.Walk
import DulwichModel.Lemmas.LCA

namespace Dulwich.Walk
open Dulwich.LCA (Graph Entry popMax popMax_spec popMax_none Anc foldl_inv)

/-! ## `_topo_reorder` -/

/-- number of times `p` is listed as a parent by the entries in `l` -/
def cnt (parents : Nat → List Nat) (p : Nat) (l : List Nat) : Nat :=
  (l.map (fun e => (parents e).count p)).sum

theorem cnt_nil (parents : Nat → List Nat) (p : Nat) : cnt parents p [] = 0 := rfl

theorem cnt_cons (parents : Nat → List Nat) (p e : Nat) (l : List Nat) :
    cnt parents p (e :: l) = (parents e).count p + cnt parents p l := by
  simp [cnt]

theorem cnt_perm (parents : Nat → List Nat) (p : Nat) {l1 l2 : List Nat} (h : l1.Perm l2) :
    cnt parents p l1 = cnt parents p l2 :=
  (h.map _).sum_nat

theorem cnt_zero {parents : Nat → List Nat} {p : Nat} {l : List Nat} (h : cnt parents p l = 0) :
    ∀ x, x ∈ l → p ∉ parents x := by
  induction l with
  | nil => intro x hx; cases hx
  | cons e l ih =>
    rw [cnt_cons] at h
    intro x hx
    rcases List.mem_cons.mp hx with rfl | hx
    · exact List.count_eq_zero.mp (by omega)
    · exact ih (by omega) x hx

theorem cnt_pos {parents : Nat → List Nat} {p : Nat} {l : List Nat} (h : cnt parents p l ≠ 0) :
    ∃ x, x ∈ l ∧ p ∈ parents x := by
  induction l with
  | nil => exact absurd rfl h
  | cons e l ih =>
    rw [cnt_cons] at h
    by_cases h0 : (parents e).count p = 0
    · obtain ⟨x, hx, hp⟩ := ih (by omega)
      exact ⟨x, by simp [hx], hp⟩
    · exact ⟨e, by simp, List.count_pos_iff.mp (by omega)⟩

theorem bump_apply (nc : Nat → Int) (p : Nat) (d : Int) (x : Nat) :
    bump nc p d x = if x = p then nc x + d else nc x := rfl

theorem bumpFold (ps : List Nat) (nc : Nat → Int) (x : Nat) :
    (ps.foldl (fun nc p => bump nc p 1) nc) x = nc x + (ps.count x : Int) := by
  induction ps generalizing nc with
  | nil => simp
  | cons q ps ih =>
    simp only [List.foldl_cons, ih, bump_apply, List.count_cons]
    by_cases h : x = q
    · subst h; simp; omega
    · have : ¬ (q == x) = true := by simp; exact fun h' => h h'.symm
      simp [h, this]

theorem countChildren_eq (parents : Nat → List Nat) (entries : List Nat) (x : Nat) :
    countChildren parents entries x = (cnt parents x entries : Int) := by
  unfold countChildren
  have : ∀ (l : List Nat) (nc : Nat → Int),
      (l.foldl (fun nc e => (parents e).foldl (fun nc p => bump nc p 1) nc) nc) x
        = nc x + (cnt parents x l : Int) := by
    intro l
    induction l with
    | nil => intro nc; simp [cnt_nil]
    | cons e l ih =>
      intro nc
      simp only [List.foldl_cons, ih, bumpFold, cnt_cons]
      omega
  rw [this]; simp

/-- effect of the inner loop `for parent_id in get_parents(commit)` on the state -/
structure Released (ps : List Nat) (s s' : TSt) : Prop where
  nc : ∀ x, s'.nc x = s.nc x - (ps.count x : Int)
  perm : (s'.todo ++ s'.pending).Perm (s.todo ++ s.pending)
  pend : (∀ x, x ∈ s.pending → s.nc x ≠ 0) → s.pending.Nodup → ∀ x, x ∈ s'.pending → s'.nc x ≠ 0
  pnodup : s.pending.Nodup → s'.pending.Nodup

theorem releaseParent_spec (s : TSt) (p : Nat) : Released [p] s (releaseParent s p) := by
  unfold releaseParent
  simp only
  have hnc : ∀ x, bump s.nc p (-1) x = s.nc x - (([p] : List Nat).count x : Int) := by
    intro x
    rw [bump_apply]
    by_cases h : x = p
    · subst h; simp; omega
    · have : ¬ (p == x) = true := by simp; exact fun h' => h h'.symm
      simp [h, List.count_cons, this]
  by_cases h0 : bump s.nc p (-1) p = 0
  · by_cases hin : s.pending.contains p = true
    · simp only [h0, hin, if_true]
      have hmem : p ∈ s.pending := by simpa using hin
      refine ⟨hnc, ?_, ?_, fun hn => hn.erase p⟩
      · simp only [List.cons_append]
        have := List.perm_cons_erase hmem
        exact List.perm_middle.symm.trans (List.Perm.append_left s.todo this.symm)
      · intro hp hn x hx
        have hx' := (List.Nodup.mem_erase_iff hn).mp hx
        show bump s.nc p (-1) x ≠ 0
        rw [bump_apply, if_neg hx'.1]
        exact hp x hx'.2
    · simp only [h0, hin, if_true]
      refine ⟨hnc, List.Perm.refl _, ?_, fun hn => hn⟩
      intro hp _ x hx
      have hx2 : x ∈ s.pending := hx
      have hne : x ≠ p := by
        rintro rfl
        exact hin (by simpa using hx2)
      show bump s.nc p (-1) x ≠ 0
      rw [bump_apply, if_neg hne]
      exact hp x hx2
  · simp only [h0, if_false]
    refine ⟨hnc, List.Perm.refl _, ?_, fun hn => hn⟩
    intro hp _ x hx
    have hx2 : x ∈ s.pending := hx
    show bump s.nc p (-1) x ≠ 0
    by_cases hxp : x = p
    · subst hxp; exact h0
    · rw [bump_apply, if_neg hxp]
      exact hp x hx2

theorem Released.refl (s : TSt) : Released [] s s :=
  ⟨fun x => by simp, List.Perm.refl _, fun h _ => h, fun h => h⟩

theorem Released.trans {ps qs : List Nat} {s1 s2 s3 : TSt} (h1 : Released ps s1 s2) (h2 : Released qs s2 s3) :
    Released (ps ++ qs) s1 s3 := by
  refine ⟨fun x => ?_, h2.perm.trans h1.perm, fun hp hn => h2.pend (h1.pend hp hn) (h1.pnodup hn),
          fun hn => h2.pnodup (h1.pnodup hn)⟩
  rw [h2.nc, h1.nc, List.count_append]
  omega

theorem releaseFold_spec : ∀ (ps : List Nat) (s : TSt), Released ps s (ps.foldl releaseParent s)
  | [], s => Released.refl s
  | p :: ps, s => by
    simp only [List.foldl_cons]
    exact (releaseParent_spec s p).trans (releaseFold_spec ps _)

/-- loop invariant of the second loop of `_topo_reorder` (`out` is the reversed output so far) -/
structure TInv (parents : Nat → List Nat) (entries : List Nat) (s : TSt) (out : List Nat) : Prop where
  perm : (out ++ (s.todo ++ s.pending)).Perm entries
  nc : ∀ p, s.nc p = (cnt parents p (s.todo ++ s.pending) : Int)
  pend : ∀ x, x ∈ s.pending → s.nc x ≠ 0
  sep : ∀ c, c ∈ out → ∀ x, x ∈ s.todo ++ s.pending → c ∉ parents x
  ord : out.Pairwise (fun later earlier => earlier ∉ parents later)

theorem setAdd_of_not_mem {l : List Nat} {c : Nat} (h : c ∉ l) : setAdd l c = c :: l := by
  unfold setAdd
  simp [h]

theorem exists_max_rank (rk : Nat → Nat) : ∀ (l : List Nat), l ≠ [] → ∃ x, x ∈ l ∧ ∀ y, y ∈ l → rk y ≤ rk x
  | [], h => absurd rfl h
  | [a], _ => ⟨a, by simp, fun y hy => by simp at hy; subst hy; exact Nat.le_refl _⟩
  | a :: b :: l, _ => by
    obtain ⟨x, hx, hmax⟩ := exists_max_rank rk (b :: l) (by simp)
    by_cases h : rk x ≤ rk a
    · refine ⟨a, by simp, fun y hy => ?_⟩
      rcases List.mem_cons.mp hy with rfl | hy
      · exact Nat.le_refl _
      · exact Nat.le_trans (hmax y hy) h
    · refine ⟨x, by simp [hx], fun y hy => ?_⟩
      rcases List.mem_cons.mp hy with rfl | hy
      · omega
      · exact hmax y hy

/-- facts about the head of `todo` that follow from distinctness of the entries -/
theorem TInv.head_facts {parents : Nat → List Nat} {entries : List Nat} (hnd : entries.Nodup)
    {e : Nat} {todo pending : List Nat} {nc : Nat → Int} {out : List Nat}
    (hinv : TInv parents entries ⟨e :: todo, pending, nc⟩ out) : e ∉ pending ∧ pending.Nodup := by
  have hndall : (out ++ ((e :: todo) ++ pending)).Nodup := (List.Perm.nodup_iff hinv.perm).mpr hnd
  have hnd2 : ((e :: todo) ++ pending).Nodup := (List.nodup_append.mp hndall).2.1
  refine ⟨?_, (List.nodup_append.mp hnd2).2.1⟩
  have := (List.nodup_append.mp hnd2).2.2 e (by simp)
  intro hin; exact this e hin rfl

/-- the invariant survives `pending[commit_id] = entry; continue` -/
theorem TInv.defer {parents : Nat → List Nat} {entries : List Nat} (hnd : entries.Nodup)
    {e : Nat} {todo pending : List Nat} {nc : Nat → Int} {out : List Nat}
    (hinv : TInv parents entries ⟨e :: todo, pending, nc⟩ out) (hne : nc e ≠ 0) :
    TInv parents entries ⟨todo, setAdd pending e, nc⟩ out := by
  obtain ⟨he_notin, _⟩ := hinv.head_facts hnd
  rw [setAdd_of_not_mem he_notin]
  have hp : (todo ++ e :: pending).Perm ((e :: todo) ++ pending) := by
    simpa using (List.perm_middle (a := e) (l₁ := todo) (l₂ := pending))
  constructor
  · exact (List.Perm.append_left out hp).trans hinv.perm
  · intro p
    rw [hinv.nc p, cnt_perm parents p hp]
  · intro x hx
    simp only [List.mem_cons] at hx
    rcases hx with rfl | hx
    · exact hne
    · exact hinv.pend x hx
  · intro c hc x hx
    exact hinv.sep c hc x (hp.mem_iff.mp hx)
  · exact hinv.ord

/-- the invariant survives yielding the head of `todo` and releasing its parents -/
theorem TInv.yield {parents : Nat → List Nat} {entries : List Nat} (hnd : entries.Nodup)
    {e : Nat} {todo pending : List Nat} {nc : Nat → Int} {out : List Nat}
    (hinv : TInv parents entries ⟨e :: todo, pending, nc⟩ out) (hz' : nc e = 0) :
    TInv parents entries ((parents e).foldl releaseParent ⟨todo, pending, nc⟩) (e :: out) := by
  obtain ⟨_, hpn⟩ := hinv.head_facts hnd
  have hrel := releaseFold_spec (parents e) ⟨todo, pending, nc⟩
  generalize (parents e).foldl releaseParent ⟨todo, pending, nc⟩ = s' at hrel
  have hnce := hinv.nc e
  simp only at hnce
  rw [hz'] at hnce
  have hcnt0 : cnt parents e ((e :: todo) ++ pending) = 0 := by omega
  constructor
  · have : ((e :: out) ++ (s'.todo ++ s'.pending)).Perm (out ++ ((e :: todo) ++ pending)) := by
      have h1 : ((e :: out) ++ (s'.todo ++ s'.pending)).Perm ((e :: out) ++ (todo ++ pending)) :=
        List.Perm.append_left _ hrel.perm
      refine h1.trans ?_
      simpa using (List.perm_middle (a := e) (l₁ := out) (l₂ := todo ++ pending)).symm
    exact this.trans hinv.perm
  · intro p
    rw [hrel.nc p, cnt_perm parents p hrel.perm]
    have := hinv.nc p
    simp only [List.cons_append, cnt_cons] at this ⊢
    omega
  · exact hrel.pend hinv.pend hpn
  · intro c hc x hx
    have hx' : x ∈ todo ++ pending := hrel.perm.mem_iff.mp hx
    rcases List.mem_cons.mp hc with rfl | hc
    · exact cnt_zero hcnt0 x (by simp only [List.cons_append, List.mem_cons]; exact Or.inr hx')
    · exact hinv.sep c hc x (by simp only [List.cons_append, List.mem_cons]; exact Or.inr hx')
  · rw [List.pairwise_cons]
    exact ⟨fun a ha => hinv.sep a ha e (by simp), hinv.ord⟩

/-- at the end nothing may be left pending: a pending entry of maximal rank would have a pending child -/
theorem TInv.pending_empty {parents : Nat → List Nat} {entries : List Nat}
    (rk : Nat → Nat) (hrk : ∀ c p, p ∈ parents c → rk p < rk c)
    {pending : List Nat} {nc : Nat → Int} {out : List Nat}
    (hinv : TInv parents entries ⟨[], pending, nc⟩ out) : pending = [] := by
  apply Classical.byContradiction
  intro hne
  obtain ⟨x, hx, hmax⟩ := exists_max_rank rk pending hne
  have h1 := hinv.pend x hx
  have h2 := hinv.nc x
  simp only [List.nil_append] at h2
  obtain ⟨y, hy, hp⟩ := cnt_pos (parents := parents) (p := x) (l := pending) (by
    intro h0; rw [h0] at h2; exact h1 h2)
  have := hrk y x hp
  have := hmax y hy
  omega

/-- partial correctness of the loop: when it returns, the result is a permutation of the entries in which no
commit comes before one of its children -/
theorem topoLoop_correct {parents : Nat → List Nat} {entries : List Nat} (hnd : entries.Nodup)
    (rk : Nat → Nat) (hrk : ∀ c p, p ∈ parents c → rk p < rk c) :
    ∀ (fuel : Nat) (s : TSt) (out res : List Nat), TInv parents entries s out →
      topoLoop parents fuel s out = some res →
      res.Perm entries ∧ res.Pairwise (fun earlier later => earlier ∉ parents later) := by
  have hend : ∀ (pending : List Nat) (nc : Nat → Int) (out : List Nat),
      TInv parents entries ⟨[], pending, nc⟩ out →
      out.reverse.Perm entries ∧ out.reverse.Pairwise (fun earlier later => earlier ∉ parents later) := by
    intro pending nc out hinv
    have hpe := hinv.pending_empty rk hrk
    subst hpe
    refine ⟨(List.reverse_perm out).trans (by simpa using hinv.perm), ?_⟩
    rw [List.pairwise_reverse]
    exact hinv.ord
  intro fuel
  induction fuel with
  | zero =>
    intro s out res hinv h
    obtain ⟨todo, pending, nc⟩ := s
    cases todo with
    | cons e todo => simp [topoLoop] at h
    | nil =>
      simp only [topoLoop, Option.some.injEq] at h
      subst h
      exact hend pending nc out hinv
  | succ n ih =>
    intro s out res hinv h
    obtain ⟨todo, pending, nc⟩ := s
    cases todo with
    | nil =>
      simp only [topoLoop, Option.some.injEq] at h
      subst h
      exact hend pending nc out hinv
    | cons e todo =>
      simp only [topoLoop] at h
      split at h
      · rename_i hne
        exact ih _ _ _ (hinv.defer hnd hne) h
      · rename_i hz
        exact ih _ _ _ (hinv.yield hnd (by simpa using hz)) h

/-! ### termination of `_topo_reorder`: every entry is taken from `todo` at most twice -/

/-- weight of a `todo` entry: 2 while it still has unyielded children (it will be deferred once), 1 after -/
def wsum (nc : Nat → Int) (todo : List Nat) : Nat :=
  (todo.map (fun x => if nc x = 0 then 1 else 2)).sum

/-- the termination measure -/
def tmu (s : TSt) : Nat := wsum s.nc s.todo + s.pending.length

theorem wsum_cons (nc : Nat → Int) (x : Nat) (l : List Nat) :
    wsum nc (x :: l) = (if nc x = 0 then 1 else 2) + wsum nc l := by
  simp [wsum]

theorem wsum_bump {nc : Nat → Int} {p : Nat} (hp : 1 ≤ nc p) : ∀ l : List Nat,
    wsum (bump nc p (-1)) l ≤ wsum nc l
  | [] => Nat.le_refl _
  | x :: l => by
    rw [wsum_cons, wsum_cons]
    have ih := wsum_bump hp l
    rw [bump_apply]
    by_cases hx : x = p
    · subst hx
      simp only [if_true]
      have h0 : ¬ nc x = 0 := by omega
      simp only [h0, if_false]
      split <;> omega
    · simp only [hx, if_false]
      omega

theorem releaseParent_tmu {s : TSt} {p : Nat} (hp : 1 ≤ s.nc p) : tmu (releaseParent s p) ≤ tmu s := by
  unfold releaseParent
  simp only
  have hw := wsum_bump hp s.todo
  by_cases h0 : bump s.nc p (-1) p = 0
  · by_cases hin : s.pending.contains p = true
    · simp only [h0, hin, if_true]
      have hmem : p ∈ s.pending := by simpa using hin
      have hlen := List.length_erase_of_mem hmem
      have hpos : 0 < s.pending.length := List.length_pos_of_mem hmem
      unfold tmu
      simp only [wsum_cons, h0, if_true]
      omega
    · simp only [h0, hin, if_true]
      show wsum (bump s.nc p (-1)) s.todo + s.pending.length ≤ wsum s.nc s.todo + s.pending.length
      omega
  · simp only [h0, if_false]
    show wsum (bump s.nc p (-1)) s.todo + s.pending.length ≤ wsum s.nc s.todo + s.pending.length
    omega

theorem releaseFold_tmu : ∀ (ps : List Nat) (s : TSt), (∀ x, (ps.count x : Int) ≤ s.nc x) →
    tmu (ps.foldl releaseParent s) ≤ tmu s
  | [], _, _ => Nat.le_refl _
  | p :: ps, s, h => by
    simp only [List.foldl_cons]
    have hp : 1 ≤ s.nc p := by
      have := h p
      simp only [List.count_cons_self] at this
      omega
    have h1 := releaseParent_tmu hp
    have hnc := (releaseParent_spec s p).nc
    have h2 := releaseFold_tmu ps (releaseParent s p) (by
      intro x
      rw [hnc x]
      have := h x
      simp only [List.count_cons] at this ⊢
      by_cases hxp : x = p
      · subst hxp; simp at this ⊢; omega
      · have h1 : ¬ (p == x) = true := by simp; exact fun h' => hxp h'.symm
        simp [h1] at this ⊢
        omega)
    omega

theorem wsum_le (nc : Nat → Int) : ∀ l : List Nat, wsum nc l ≤ 2 * l.length
  | [] => by simp [wsum]
  | x :: l => by
    rw [wsum_cons]
    have := wsum_le nc l
    simp only [List.length_cons]
    split <;> omega

theorem setAdd_length_le (l : List Nat) (c : Nat) : (setAdd l c).length ≤ l.length + 1 := by
  unfold setAdd; split <;> simp

/-- with fuel above the measure the loop returns -/
theorem topoLoop_terminates {parents : Nat → List Nat} {entries : List Nat} (hnd : entries.Nodup) :
    ∀ (fuel : Nat) (s : TSt) (out : List Nat), TInv parents entries s out → tmu s < fuel + 1 →
      ∃ res, topoLoop parents fuel s out = some res := by
  intro fuel
  induction fuel with
  | zero =>
    intro s out _ hmu
    obtain ⟨todo, pending, nc⟩ := s
    cases todo with
    | nil => exact ⟨out.reverse, by simp [topoLoop]⟩
    | cons e todo =>
      exfalso
      unfold tmu at hmu
      simp only [wsum_cons] at hmu
      split at hmu <;> omega
  | succ n ih =>
    intro s out hinv hmu
    obtain ⟨todo, pending, nc⟩ := s
    cases todo with
    | nil => exact ⟨out.reverse, by simp [topoLoop]⟩
    | cons e todo =>
      simp only [topoLoop]
      unfold tmu at hmu
      simp only [wsum_cons] at hmu
      split
      · rename_i hne
        apply ih _ _ (hinv.defer hnd hne)
        unfold tmu
        simp only
        have := setAdd_length_le pending e
        simp only [hne, if_false] at hmu
        omega
      · rename_i hz
        have hz' : nc e = 0 := by simpa using hz
        apply ih _ _ (hinv.yield hnd hz')
        have hcount : ∀ x, ((parents e).count x : Int) ≤ nc x := by
          intro x
          have := hinv.nc x
          simp only [List.cons_append, cnt_cons] at this
          omega
        have := releaseFold_tmu (parents e) ⟨todo, pending, nc⟩ hcount
        unfold tmu at this
        simp only at this
        simp only [hz', if_true] at hmu
        unfold tmu
        omega

/-! ## the commit-time queue without excludes -/

theorem push_excluded (g : Graph) (s : QSt) (c : Nat) : (push g s c).excluded = s.excluded := by
  unfold push; split <;> rfl

theorem pushFold_excluded (g : Graph) (ps : List Nat) (s : QSt) :
    (ps.foldl (push g) s).excluded = s.excluded := by
  induction ps generalizing s with
  | nil => rfl
  | cons p ps ih => simp only [List.foldl_cons, ih, push_excluded]

theorem push_done (g : Graph) (s : QSt) (c : Nat) : (push g s c).done = s.done := by
  unfold push; split <;> rfl

theorem pushFold_done (g : Graph) (ps : List Nat) (s : QSt) : (ps.foldl (push g) s).done = s.done := by
  induction ps generalizing s with
  | nil => rfl
  | cons p ps ih => simp only [List.foldl_cons, ih, push_done]

/-- the state after popping `c` (leaving `rest`), marking it done and pushing its parents -/
def afterPop (g : Graph) (s : QSt) (c : Nat) (rest : List Entry) : QSt :=
  (g.parents c).foldl (push g) { s with pq := rest, pqSet := s.pqSet.erase c, done := c :: s.done }

/-- one `_step()` without excludes and without `since`: pop the newest queued commit, push its parents,
return it -/
theorem step_noex (g : Graph) (fuel : Nat) (s : QSt) (hex : s.excluded = []) :
    step g none (fuel + 1) s =
      match popMax s.pq with
      | none => some ({ s with finished := true }, none)
      | some ((_, c), rest) =>
        if s.done.contains c = true then
          step g none fuel { s with pq := rest, pqSet := s.pqSet.erase c }
        else
          some ({ afterPop g s c rest with extraLeft := (Gen.walkMaxExtraCommits : Int), last := some c },
                some c) := by
  rw [step]
  cases h : popMax s.pq with
  | none => rfl
  | some r =>
    obtain ⟨⟨dt, c⟩, rest⟩ := r
    simp only
    by_cases hd : s.done.contains c = true
    · simp only [hd, if_true]
    · have hex3 : ((g.parents c).foldl (push g)
          { s with pq := rest, pqSet := s.pqSet.erase c, done := c :: s.done }).excluded = [] := by
        rw [pushFold_excluded]; exact hex
      unfold afterPop
      generalize (g.parents c).foldl (push g)
          { s with pq := rest, pqSet := s.pqSet.erase c, done := c :: s.done } = s3 at hex3 ⊢
      simp [hex3]

structure WInv (g : Graph) (incl : List Nat) (s : QSt) : Prop where
  ex : s.excluded = []
  pqmap : s.pq.map (·.2) = s.pqSet
  pqnodup : s.pqSet.Nodup
  dnodup : s.done.Nodup
  disj : ∀ c, c ∈ s.done → c ∉ s.pqSet
  sound : ∀ c, (c ∈ s.done ∨ c ∈ s.pqSet) → ∃ i, i ∈ incl ∧ Anc g c i
  incl : ∀ i, i ∈ incl → i ∈ s.done ∨ i ∈ s.pqSet
  closed : ∀ c, c ∈ s.done → ∀ p, p ∈ g.parents c → p ∈ s.done ∨ p ∈ s.pqSet

/-- what pushing does to the two sets, and what it keeps -/
structure PushRel (s s' : QSt) : Prop where
  ex : s'.excluded = s.excluded
  done : s'.done = s.done
  pqmap : s.pq.map (·.2) = s.pqSet → s'.pq.map (·.2) = s'.pqSet
  nodup : s.pqSet.Nodup → s'.pqSet.Nodup
  sub : ∀ c, c ∈ s.pqSet → c ∈ s'.pqSet
  disj : (∀ c, c ∈ s.done → c ∉ s.pqSet) → ∀ c, c ∈ s.done → c ∉ s'.pqSet

theorem PushRel.refl (s : QSt) : PushRel s s := ⟨rfl, rfl, id, id, fun _ h => h, id⟩

theorem PushRel.trans {a b c : QSt} (h1 : PushRel a b) (h2 : PushRel b c) : PushRel a c :=
  ⟨h2.ex.trans h1.ex, h2.done.trans h1.done, fun h => h2.pqmap (h1.pqmap h), fun h => h2.nodup (h1.nodup h),
   fun x hx => h2.sub x (h1.sub x hx),
   fun h x hx => h2.disj (by rw [h1.done]; exact h1.disj h) x (by rw [h1.done]; exact hx)⟩

theorem push_rel (g : Graph) (s : QSt) (c : Nat) :
    PushRel s (push g s c) ∧ (c ∈ s.done ∨ c ∈ (push g s c).pqSet) ∧
      (∀ x, x ∈ (push g s c).pqSet → x ∈ s.pqSet ∨ x = c) := by
  unfold push
  by_cases h : (s.pqSet.contains c || s.done.contains c) = true
  · rw [if_pos h]
    refine ⟨PushRel.refl s, ?_, fun x hx => Or.inl hx⟩
    simp only [Bool.or_eq_true, List.contains_eq_mem, decide_eq_true_eq] at h
    exact h.symm
  · rw [if_neg h]
    simp only [Bool.or_eq_true, List.contains_eq_mem, decide_eq_true_eq, not_or] at h
    refine ⟨⟨rfl, rfl, ?_, ?_, ?_, ?_⟩, Or.inr (List.mem_cons_self), ?_⟩
    · intro hm
      show ((g.ts c, c) :: s.pq).map (·.2) = c :: s.pqSet
      rw [List.map_cons, hm]
    · intro hn; exact List.nodup_cons.mpr ⟨h.1, hn⟩
    · intro x hx; exact List.mem_cons_of_mem _ hx
    · intro hd x hx
      show x ∉ c :: s.pqSet
      simp only [List.mem_cons, not_or]
      exact ⟨fun hxc => h.2 (hxc ▸ hx), hd x hx⟩
    · intro x hx
      have hx' : x ∈ c :: s.pqSet := hx
      simp only [List.mem_cons] at hx'
      exact hx'.symm

theorem pushFold_rel (g : Graph) : ∀ (ps : List Nat) (s : QSt),
    PushRel s (ps.foldl (push g) s) ∧ (∀ p, p ∈ ps → p ∈ s.done ∨ p ∈ (ps.foldl (push g) s).pqSet) ∧
      (∀ x, x ∈ (ps.foldl (push g) s).pqSet → x ∈ s.pqSet ∨ x ∈ ps)
  | [], s => ⟨PushRel.refl s, fun _ h => absurd h List.not_mem_nil, fun x hx => Or.inl hx⟩
  | q :: ps, s => by
    simp only [List.foldl_cons]
    obtain ⟨h1, h2, h3⟩ := push_rel g s q
    obtain ⟨i1, i2, i3⟩ := pushFold_rel g ps (push g s q)
    refine ⟨h1.trans i1, ?_, ?_⟩
    · intro p hp
      rcases List.mem_cons.mp hp with rfl | hp
      · rcases h2 with h | h
        · exact Or.inl h
        · exact Or.inr (i1.sub _ h)
      · rcases i2 p hp with h | h
        · rw [h1.done] at h; exact Or.inl h
        · exact Or.inr h
    · intro x hx
      rcases i3 x hx with h | h
      · rcases h3 x h with h' | h'
        · exact Or.inl h'
        · exact Or.inr (by simp [h'])
      · exact Or.inr (by simp [h])

theorem map_snd_erase : ∀ (l : List Entry) (dt : Int) (c : Nat), (l.map (·.2)).Nodup → (dt, c) ∈ l →
    (l.erase (dt, c)).map (·.2) = (l.map (·.2)).erase c
  | [], _, _, _, h => by cases h
  | (dt', c') :: l, dt, c, hn, hm => by
    simp only [List.map_cons] at hn
    obtain ⟨hnot, hn'⟩ := List.nodup_cons.mp hn
    by_cases heq : (dt', c') = (dt, c)
    · cases heq; simp
    · rcases List.mem_cons.mp hm with h | h
      · exact absurd h.symm heq
      · have hc : c' ≠ c := by
          rintro rfl
          exact hnot (List.mem_map.mpr ⟨(dt, c'), h, rfl⟩)
        have h1 : ((dt', c') == (dt, c)) = false := by simpa using heq
        have h2 : (c' == c) = false := by simpa using hc
        rw [List.erase_cons, h1, List.map_cons, List.erase_cons]
        simp only [h2, Bool.false_eq_true, if_false, List.map_cons]
        rw [map_snd_erase l dt c hn' h]

/-- popping under the invariant: the commit is new, and the invariant holds afterwards -/
theorem afterPop_inv {g : Graph} {incl : List Nat} {s : QSt} {dt : Int} {c : Nat} {rest : List Entry}
    (h : WInv g incl s) (hpop : popMax s.pq = some ((dt, c), rest)) :
    c ∉ s.done ∧ (afterPop g s c rest).done = c :: s.done ∧
      ∀ (x : Int) (l : Option Nat), WInv g incl { afterPop g s c rest with extraLeft := x, last := l } := by
  obtain ⟨hb, hrest, _⟩ := popMax_spec hpop
  have hcq : c ∈ s.pqSet := by
    rw [← h.pqmap]; exact List.mem_map.mpr ⟨(dt, c), hb, rfl⟩
  have hcd : c ∉ s.done := fun hd => h.disj c hd hcq
  let s0 : QSt := { s with pq := rest, pqSet := s.pqSet.erase c, done := c :: s.done }
  obtain ⟨hrel, hpar, hsub⟩ := pushFold_rel g (g.parents c) s0
  have hdone : (afterPop g s c rest).done = c :: s.done := by
    unfold afterPop; rw [pushFold_done]
  refine ⟨hcd, hdone, fun x l => ?_⟩
  have hmem_erase : ∀ y, y ∈ s.pqSet.erase c ↔ y ≠ c ∧ y ∈ s.pqSet := fun y =>
    List.Nodup.mem_erase_iff h.pqnodup
  have h0map : s0.pq.map (·.2) = s0.pqSet := by
    show (rest.map (·.2)) = s.pqSet.erase c
    rw [hrest, map_snd_erase _ _ _ (by rw [h.pqmap]; exact h.pqnodup) hb, h.pqmap]
  have h0disj : ∀ y, y ∈ s0.done → y ∉ s0.pqSet := by
    intro y hy
    show y ∉ s.pqSet.erase c
    rw [hmem_erase]
    rcases List.mem_cons.mp hy with rfl | hy
    · exact fun hh => hh.1 rfl
    · exact fun hh => h.disj y hy hh.2
  constructor
  · show (afterPop g s c rest).excluded = []
    unfold afterPop; rw [pushFold_excluded]; exact h.ex
  · exact hrel.pqmap h0map
  · exact hrel.nodup (h.pqnodup.erase c)
  · show (afterPop g s c rest).done.Nodup
    rw [hdone]; exact List.nodup_cons.mpr ⟨hcd, h.dnodup⟩
  · intro y hy
    have hy' : y ∈ s0.done := by
      have : y ∈ (afterPop g s c rest).done := hy
      rw [hdone] at this; exact this
    exact hrel.disj h0disj y hy'
  · intro y hy
    have hy' : y ∈ c :: s.done ∨ y ∈ (afterPop g s c rest).pqSet := by
      rcases hy with hy | hy
      · left
        have : y ∈ (afterPop g s c rest).done := hy
        rw [hdone] at this; exact this
      · exact Or.inr hy
    rcases hy' with hy' | hy'
    · rcases List.mem_cons.mp hy' with rfl | hy'
      · exact h.sound y (Or.inr hcq)
      · exact h.sound y (Or.inl hy')
    · rcases hsub y hy' with h1 | h1
      · exact h.sound y (Or.inr ((hmem_erase y).mp h1).2)
      · obtain ⟨i, hi, ha⟩ := h.sound c (Or.inr hcq)
        exact ⟨i, hi, (Anc.parent h1).trans ha⟩
  · intro i hi
    show i ∈ (afterPop g s c rest).done ∨ i ∈ (afterPop g s c rest).pqSet
    rw [hdone]
    rcases h.incl i hi with h1 | h1
    · exact Or.inl (by simp [h1])
    · by_cases hic : i = c
      · exact Or.inl (by simp [hic])
      · exact Or.inr (hrel.sub i ((hmem_erase i).mpr ⟨hic, h1⟩))
  · intro y hy p hp
    show p ∈ (afterPop g s c rest).done ∨ p ∈ (afterPop g s c rest).pqSet
    have hy' : y ∈ c :: s.done := by
      have : y ∈ (afterPop g s c rest).done := hy
      rw [hdone] at this; exact this
    rw [hdone]
    rcases List.mem_cons.mp hy' with rfl | hy'
    · rcases hpar p hp with h1 | h1
      · exact Or.inl h1
      · exact Or.inr h1
    · rcases h.closed y hy' p hp with h1 | h1
      · exact Or.inl (by simp [h1])
      · by_cases hpc : p = c
        · exact Or.inl (by simp [hpc])
        · exact Or.inr (hrel.sub p ((hmem_erase p).mpr ⟨hpc, h1⟩))

/-- `_step()` under the invariant -/
theorem step_inv {g : Graph} {incl : List Nat} {s : QSt} (h : WInv g incl s) (fuel : Nat) :
    (s.pq = [] ∧ step g none (fuel + 1) s = some ({ s with finished := true }, none)) ∨
    ∃ c s', step g none (fuel + 1) s = some (s', some c) ∧ c ∉ s.done ∧ s'.done = c :: s.done ∧
      WInv g incl s' := by
  rw [step_noex g fuel s h.ex]
  cases hpop : popMax s.pq with
  | none => exact Or.inl ⟨popMax_none hpop, rfl⟩
  | some r =>
    obtain ⟨⟨dt, c⟩, rest⟩ := r
    obtain ⟨hcd, hdone, hinv⟩ := afterPop_inv h hpop
    right
    have : ¬ s.done.contains c = true := by simpa using hcd
    simp only [this, if_false]
    exact ⟨c, _, rfl, hcd, hdone, hinv _ _⟩

/-- draining the queue: partial correctness -/
theorem drain_correct {g : Graph} {incl : List Nat} :
    ∀ (fuel : Nat) (s : QSt) (acc : List Nat) (s' : QSt) (out : List Nat), WInv g incl s → acc = s.done →
      drain g none fuel s acc = some (s', out) →
      s'.excluded = [] ∧ out.Nodup ∧ ∀ c, c ∈ out ↔ ∃ i, i ∈ incl ∧ Anc g c i
  | 0, _, _, _, _, _, _, h => by simp [drain] at h
  | fuel + 1, s, acc, s', out, hinv, hacc, h => by
    simp only [drain] at h
    rcases step_inv hinv g.n with ⟨hpq, hstep⟩ | ⟨c, s1, hstep, _, hdone, hinv1⟩
    · rw [hstep] at h
      simp only [Option.some.injEq, Prod.mk.injEq] at h
      obtain ⟨rfl, rfl⟩ := h
      subst hacc
      have hq : s.pqSet = [] := by rw [← hinv.pqmap, hpq]; rfl
      refine ⟨hinv.ex, (List.Perm.nodup_iff (List.reverse_perm s.done)).mpr hinv.dnodup, fun c => ?_⟩
      rw [List.mem_reverse]
      constructor
      · intro hc; exact hinv.sound c (Or.inl hc)
      · rintro ⟨i, hi, ha⟩
        have hi' : i ∈ s.done := by
          rcases hinv.incl i hi with h1 | h1
          · exact h1
          · rw [hq] at h1; cases h1
        clear hi
        induction ha with
        | refl => exact hi'
        | step hp _ ih =>
          apply ih
          rcases hinv.closed _ hi' _ hp with h1 | h1
          · exact h1
          · rw [hq] at h1; cases h1
    · rw [hstep] at h
      simp only at h
      exact drain_correct fuel s1 (c :: acc) s' out hinv1 (by rw [hdone, hacc]) h

theorem qInit_inv (g : Graph) (incl : List Nat) : WInv g incl (qInit g incl []) ∧ (qInit g incl []).done = [] := by
  unfold qInit
  simp only [List.append_nil]
  let s0 : QSt := { pq := [], pqSet := [], seen := [], done := [], excluded := ([] : List Nat).eraseDups,
                    last := none, extraLeft := (Gen.walkMaxExtraCommits : Int), finished := false }
  obtain ⟨hrel, hpar, hsub⟩ := pushFold_rel g incl s0
  have hd : (incl.foldl (push g) s0).done = [] := by rw [pushFold_done]
  refine ⟨⟨?_, ?_, ?_, ?_, ?_, ?_, ?_, ?_⟩, hd⟩
  · rw [pushFold_excluded]; rfl
  · exact hrel.pqmap rfl
  · exact hrel.nodup List.nodup_nil
  · rw [hd]; exact List.nodup_nil
  · intro c hc; rw [hd] at hc; cases hc
  · intro c hc
    rcases hc with hc | hc
    · rw [hd] at hc; cases hc
    · rcases hsub c hc with h1 | h1
      · cases h1
      · exact ⟨c, h1, Anc.refl c⟩
  · intro i hi
    rcases hpar i hi with h1 | h1
    · cases h1
    · exact Or.inr h1
  · intro c hc; rw [hd] at hc; cases hc

/-! ### termination of the drain loop: every `_step()` returns a new commit below `n` -/

theorem anc_lt_n {g : Graph} (hwf : g.WF) {a c : Nat} (h : Anc g a c) (hc : c < g.n) : a < g.n := by
  induction h with
  | refl => exact hc
  | step hp _ ih => exact ih (hwf _ hc _ hp)

/-- pigeonhole: a duplicate-free list of numbers below `n` has at most `n` elements -/
theorem nodup_length_le : ∀ (n : Nat) (l : List Nat), l.Nodup → (∀ x, x ∈ l → x < n) → l.length ≤ n
  | 0, l, _, h => by
    cases l with
    | nil => simp
    | cons a r => exact absurd (h a (by simp)) (Nat.not_lt_zero a)
  | n + 1, l, hn, h => by
    by_cases hin : n ∈ l
    · have h1 := nodup_length_le n (l.erase n) (hn.erase n) (by
        intro x hx
        have := (List.Nodup.mem_erase_iff hn).mp hx
        have := h x this.2
        omega)
      rw [List.length_erase_of_mem hin] at h1
      omega
    · have h1 := nodup_length_le n l hn (by
        intro x hx
        have := h x hx
        have : x ≠ n := fun heq => hin (heq ▸ hx)
        omega)
      omega

theorem drain_terminates {g : Graph} {incl : List Nat} (hwf : g.WF) (hincl : ∀ i, i ∈ incl → i < g.n) :
    ∀ (fuel : Nat) (s : QSt) (acc : List Nat), WInv g incl s → g.n + 1 ≤ s.done.length + fuel →
      ∃ r, drain g none fuel s acc = some r := by
  have hbound : ∀ s : QSt, WInv g incl s → s.done.length ≤ g.n := by
    intro s hinv
    apply nodup_length_le g.n s.done hinv.dnodup
    intro x hx
    obtain ⟨i, hi, ha⟩ := hinv.sound x (Or.inl hx)
    exact anc_lt_n hwf ha (hincl i hi)
  intro fuel
  induction fuel with
  | zero =>
    intro s acc hinv hle
    have := hbound s hinv
    omega
  | succ n ih =>
    intro s acc hinv hle
    simp only [drain]
    rcases step_inv hinv g.n with ⟨_, hstep⟩ | ⟨c, s1, hstep, _, hdone, hinv1⟩
    · rw [hstep]; exact ⟨_, rfl⟩
    · rw [hstep]
      simp only
      apply ih _ _ hinv1
      rw [hdone]
      simp only [List.length_cons]
      omega

theorem topoReorder_init (parents : Nat → List Nat) (entries : List Nat) :
    TInv parents entries ⟨entries, [], countChildren parents entries⟩ [] :=
  { perm := by simp
    nc := fun p => by simp [countChildren_eq]
    pend := fun _ h => nomatch h
    sep := fun _ h => nomatch h
    ord := List.Pairwise.nil }

/-- `shouldReturn` without a window and with nothing excluded keeps everything -/
theorem filter_shouldReturn_all (g : Graph) (o : Opts) (hs : o.since = none) (hu : o.untl = none)
    (q : List Nat) : q.filter (shouldReturn g o []) = q := by
  apply List.filter_eq_self.mpr
  intro c _
  simp [shouldReturn, hs, hu]

/-! ## soundness of walks with every option, every clock -/

theorem setAdd_mem (l : List Nat) (c x : Nat) : x ∈ setAdd l c ↔ x = c ∨ x ∈ l := by
  unfold setAdd
  split
  · rename_i h
    have hc : c ∈ l := by simpa using h
    constructor
    · exact Or.inr
    · rintro (rfl | h')
      · exact hc
      · exact h'
  · simp

theorem excludeParent_spec (seen : List Nat) (acc : List Nat × List Nat) (p : Nat) :
    (∀ x, x ∈ acc.1 → x ∈ (excludeParent seen acc p).1) ∧ p ∈ (excludeParent seen acc p).1 := by
  unfold excludeParent
  exact ⟨fun x hx => (setAdd_mem _ _ _).mpr (Or.inr hx), (setAdd_mem _ _ _).mpr (Or.inl rfl)⟩

theorem excludeFold_spec (seen : List Nat) : ∀ (ps : List Nat) (acc : List Nat × List Nat),
    (∀ x, x ∈ acc.1 → x ∈ (ps.foldl (excludeParent seen) acc).1) ∧
    (∀ p, p ∈ ps → p ∈ (ps.foldl (excludeParent seen) acc).1)
  | [], acc => ⟨fun _ h => h, fun _ h => nomatch h⟩
  | q :: ps, acc => by
    simp only [List.foldl_cons]
    obtain ⟨h1, h2⟩ := excludeParent_spec seen acc q
    obtain ⟨i1, i2⟩ := excludeFold_spec seen ps (excludeParent seen acc q)
    refine ⟨fun x hx => i1 x (h1 x hx), fun p hp => ?_⟩
    rcases List.mem_cons.mp hp with rfl | hp
    · exact i1 _ h2
    · exact i2 p hp

theorem excludeParents_mono (g : Graph) (seen : List Nat) : ∀ (fuel : Nat) (todo ex ex' : List Nat),
    excludeParents g seen fuel todo ex = some ex' → ∀ x, x ∈ ex → x ∈ ex'
  | _, [], ex, ex', h => by simp only [excludeParents] at h; cases h; exact fun _ hx => hx
  | 0, _ :: _, _, _, h => by simp [excludeParents] at h
  | fuel + 1, c :: todo, ex, ex', h => by
    simp only [excludeParents] at h
    intro x hx
    exact excludeParents_mono g seen fuel _ _ ex' h x ((excludeFold_spec seen (g.parents c) (ex, todo)).1 x hx)

/-- `_exclude_parents(commit)` marks every parent of the commit -/
theorem excludeParents_parents (g : Graph) (seen : List Nat) (fuel : Nat) (c : Nat) (ex ex' : List Nat)
    (h : excludeParents g seen (fuel + 1) [c] ex = some ex') :
    (∀ x, x ∈ ex → x ∈ ex') ∧ ∀ p, p ∈ g.parents c → p ∈ ex' := by
  refine ⟨excludeParents_mono g seen _ _ _ _ h, fun p hp => ?_⟩
  simp only [excludeParents] at h
  exact excludeParents_mono g seen fuel _ _ ex' h p ((excludeFold_spec seen (g.parents c) (ex, [])).2 p hp)

/-- the part of the queue state the invariant talks about -/
def core (s : QSt) : List Entry × List Nat × List Nat × List Nat := (s.pq, s.pqSet, s.done, s.excluded)

structure GInv (g : Graph) (incl : List Nat) (s : QSt) : Prop where
  pqmap : s.pq.map (·.2) = s.pqSet
  pqnodup : s.pqSet.Nodup
  dnodup : s.done.Nodup
  disj : ∀ c, c ∈ s.done → c ∉ s.pqSet
  sound : ∀ c, (c ∈ s.done ∨ c ∈ s.pqSet) → (∃ i, i ∈ incl ∧ Anc g c i) ∨ c ∈ s.excluded

theorem GInv.of_core {g : Graph} {incl : List Nat} {s : QSt} (h : GInv g incl s) (s' : QSt)
    (hc : core s' = core s) : GInv g incl s' := by
  simp only [core, Prod.mk.injEq] at hc
  obtain ⟨h1, h2, h3, h4⟩ := hc
  exact ⟨by rw [h1, h2]; exact h.pqmap, by rw [h2]; exact h.pqnodup, by rw [h3]; exact h.dnodup,
         by rw [h2, h3]; exact h.disj, by rw [h2, h3, h4]; exact h.sound⟩

/-- the exclusion part of one `_step()` iteration, on the state after the parents were pushed -/
def stepEx (g : Graph) (s3 : QSt) (c : Nat) : Option (QSt × Bool) :=
  if s3.excluded.contains c then
    match excludeParents g s3.seen (g.n + 2) [c] s3.excluded with
    | none => none
    | some ex =>
      let s4 : QSt := { s3 with excluded := ex }
      let reset :=
        if !s4.pq.isEmpty && s4.pq.all (fun e => ex.contains e.2) then
          match s4.pq, s4.last with
          | e :: r, some l => catchUp (LCA.best e r).1 (g.ts l)
          | _, _ => false
        else true
      some (s4, reset)
  else some (s3, true)

/-- the return / continue decision of one `_step()` iteration once `reset_extra_commits` is known -/
def stepFin (g : Graph) (since : Option Int) (fuel : Nat) (c : Nat) (isEx : Bool) (s5 : QSt) (reset : Bool) :
    Option (QSt × Option Nat) :=
  if reset then
    let s6 : QSt := { s5 with extraLeft := (Gen.walkMaxExtraCommits : Int) }
    if !isEx then some ({ s6 with last := some c }, some c) else step g since fuel s6
  else
    let s6 : QSt := { s5 with extraLeft := s5.extraLeft - 1 }
    if s6.extraLeft = 0 then some ({ s6 with finished := true }, none)
    else if !isEx then some ({ s6 with last := some c }, some c) else step g since fuel s6

/-- the slop bookkeeping (`since`) followed by the decision -/
def stepTail (g : Graph) (since : Option Int) (fuel : Nat) (c : Nat) (isEx : Bool) (s5 : QSt) (reset0 : Bool) :
    Option (QSt × Option Nat) :=
  stepFin g since fuel c isEx s5
    (match since with
      | some m => if g.ts c < m then false else reset0
      | none => reset0)

theorem step_eq (g : Graph) (since : Option Int) (fuel : Nat) (s : QSt) :
    step g since (fuel + 1) s =
      match popMax s.pq with
      | none => some ({ s with finished := true }, none)
      | some ((_, c), rest) =>
        if s.done.contains c = true then
          step g since fuel { s with pq := rest, pqSet := s.pqSet.erase c }
        else
          match stepEx g (afterPop g s c rest) c with
          | none => none
          | some (s5, reset0) =>
            stepTail g since fuel c ((afterPop g s c rest).excluded.contains c) s5 reset0 := by
  rw [step]
  cases popMax s.pq with
  | none => rfl
  | some r =>
    obtain ⟨⟨dt, c⟩, rest⟩ := r
    rfl

/-- what one `_step()` call guarantees, relative to the state it started from -/
structure StepOut (g : Graph) (incl : List Nat) (s s' : QSt) (r : Option Nat) : Prop where
  inv : GInv g incl s'
  ex : ∀ x, x ∈ s.excluded → x ∈ s'.excluded
  done : ∀ x, x ∈ s.done → x ∈ s'.done
  ret : ∀ c, r = some c → c ∉ s.done ∧ c ∈ s'.done ∧ ∃ i, i ∈ incl ∧ Anc g c i

theorem stepTail_sound {g : Graph} {incl : List Nat} {since : Option Int} {fuel : Nat}
    (ih : ∀ s s' r, GInv g incl s → step g since fuel s = some (s', r) → StepOut g incl s s' r)
    {s s5 : QSt} {c : Nat} {isEx reset0 : Bool} {s' : QSt} {r : Option Nat}
    (h5 : GInv g incl s5) (hex : ∀ x, x ∈ s.excluded → x ∈ s5.excluded) (hdone : s5.done = c :: s.done)
    (hc : c ∉ s.done) (hret : isEx = false → ∃ i, i ∈ incl ∧ Anc g c i)
    (h : stepTail g since fuel c isEx s5 reset0 = some (s', r)) : StepOut g incl s s' r := by
  -- the three kinds of outcome
  have hreturn : ∀ s6 : QSt, core s6 = core s5 → isEx = false →
      StepOut g incl s s6 (some c) := by
    intro s6 hcore hne
    have hd6 : s6.done = s5.done := by
      simp only [core, Prod.mk.injEq] at hcore; exact hcore.2.2.1
    have he6 : s6.excluded = s5.excluded := by
      simp only [core, Prod.mk.injEq] at hcore; exact hcore.2.2.2
    refine ⟨h5.of_core s6 hcore, fun x hx => by rw [he6]; exact hex x hx,
            fun x hx => by rw [hd6, hdone]; exact List.mem_cons_of_mem _ hx, ?_⟩
    intro c' hc'
    cases hc'
    exact ⟨hc, by rw [hd6, hdone]; exact List.mem_cons_self, hret hne⟩
  have hfinish : ∀ s6 : QSt, core s6 = core s5 → StepOut g incl s s6 none := by
    intro s6 hcore
    have hd6 : s6.done = s5.done := by
      simp only [core, Prod.mk.injEq] at hcore; exact hcore.2.2.1
    have he6 : s6.excluded = s5.excluded := by
      simp only [core, Prod.mk.injEq] at hcore; exact hcore.2.2.2
    exact ⟨h5.of_core s6 hcore, fun x hx => by rw [he6]; exact hex x hx,
           fun x hx => by rw [hd6, hdone]; exact List.mem_cons_of_mem _ hx, fun _ h => nomatch h⟩
  have hrec : ∀ s6 : QSt, core s6 = core s5 → step g since fuel s6 = some (s', r) →
      StepOut g incl s s' r := by
    intro s6 hcore hstep
    have hd6 : s6.done = s5.done := by
      simp only [core, Prod.mk.injEq] at hcore; exact hcore.2.2.1
    have he6 : s6.excluded = s5.excluded := by
      simp only [core, Prod.mk.injEq] at hcore; exact hcore.2.2.2
    have := ih s6 s' r (h5.of_core s6 hcore) hstep
    refine ⟨this.inv, fun x hx => this.ex x (by rw [he6]; exact hex x hx),
            fun x hx => this.done x (by rw [hd6, hdone]; exact List.mem_cons_of_mem _ hx), ?_⟩
    intro c' hc'
    obtain ⟨h1, h2, h3⟩ := this.ret c' hc'
    refine ⟨fun hin => h1 (by rw [hd6, hdone]; exact List.mem_cons_of_mem _ hin), h2, h3⟩
  unfold stepTail at h
  generalize (match since with
      | some m => if g.ts c < m then false else reset0
      | none => reset0) = reset at h
  unfold stepFin at h
  cases reset with
  | true =>
    simp only [if_true] at h
    cases isEx with
    | false =>
      simp only [Bool.not_false, if_true, Option.some.injEq, Prod.mk.injEq] at h
      obtain ⟨rfl, rfl⟩ := h
      exact hreturn _ rfl rfl
    | true =>
      simp only [Bool.not_true, Bool.false_eq_true, if_false] at h
      refine hrec _ ?_ h
      rfl
  | false =>
    simp only [Bool.false_eq_true, if_false] at h
    split at h
    · simp only [Option.some.injEq, Prod.mk.injEq] at h
      obtain ⟨rfl, rfl⟩ := h
      exact hfinish _ rfl
    · cases isEx with
      | false =>
        simp only [Bool.not_false, if_true, Option.some.injEq, Prod.mk.injEq] at h
        obtain ⟨rfl, rfl⟩ := h
        exact hreturn _ rfl rfl
      | true =>
        simp only [Bool.not_true, Bool.false_eq_true, if_false] at h
        refine hrec _ ?_ h
        rfl

/-- structural facts about the state after a pop, under the general invariant -/
theorem afterPop_ginv {g : Graph} {incl : List Nat} {s : QSt} {dt : Int} {c : Nat} {rest : List Entry}
    (h : GInv g incl s) (hpop : popMax s.pq = some ((dt, c), rest)) :
    c ∈ s.pqSet ∧ (afterPop g s c rest).done = c :: s.done ∧ (afterPop g s c rest).excluded = s.excluded ∧
    (afterPop g s c rest).pq.map (·.2) = (afterPop g s c rest).pqSet ∧ (afterPop g s c rest).pqSet.Nodup ∧
    (∀ y, y ∈ c :: s.done → y ∉ (afterPop g s c rest).pqSet) ∧
    (∀ x, x ∈ (afterPop g s c rest).pqSet → x ∈ s.pqSet ∨ x ∈ g.parents c) := by
  obtain ⟨hb, hrest, _⟩ := popMax_spec hpop
  have hcq : c ∈ s.pqSet := by
    rw [← h.pqmap]; exact List.mem_map.mpr ⟨(dt, c), hb, rfl⟩
  let s0 : QSt := { s with pq := rest, pqSet := s.pqSet.erase c, done := c :: s.done }
  obtain ⟨hrel, _, hsub⟩ := pushFold_rel g (g.parents c) s0
  have hmem_erase : ∀ y, y ∈ s.pqSet.erase c ↔ y ≠ c ∧ y ∈ s.pqSet := fun y =>
    List.Nodup.mem_erase_iff h.pqnodup
  have h0map : s0.pq.map (·.2) = s0.pqSet := by
    show (rest.map (·.2)) = s.pqSet.erase c
    rw [hrest, map_snd_erase _ _ _ (by rw [h.pqmap]; exact h.pqnodup) hb, h.pqmap]
  have h0disj : ∀ y, y ∈ s0.done → y ∉ s0.pqSet := by
    intro y hy
    show y ∉ s.pqSet.erase c
    rw [hmem_erase]
    rcases List.mem_cons.mp hy with rfl | hy
    · exact fun hh => hh.1 rfl
    · exact fun hh => h.disj y hy hh.2
  refine ⟨hcq, by unfold afterPop; rw [pushFold_done], by unfold afterPop; rw [pushFold_excluded],
          hrel.pqmap h0map, hrel.nodup (h.pqnodup.erase c), hrel.disj h0disj, ?_⟩
  intro x hx
  rcases hsub x hx with h1 | h1
  · exact Or.inl ((hmem_erase x).mp h1).2
  · exact Or.inr h1

theorem step_sound {g : Graph} {incl : List Nat} {since : Option Int} :
    ∀ (fuel : Nat) (s s' : QSt) (r : Option Nat), GInv g incl s → step g since fuel s = some (s', r) →
      StepOut g incl s s' r := by
  intro fuel
  induction fuel with
  | zero => intro s s' r _ h; simp [step] at h
  | succ fuel ih =>
    intro s s' r hinv h
    rw [step_eq] at h
    cases hpop : popMax s.pq with
    | none =>
      rw [hpop] at h
      simp only [Option.some.injEq, Prod.mk.injEq] at h
      obtain ⟨rfl, rfl⟩ := h
      exact ⟨hinv.of_core _ rfl, fun _ hx => hx, fun _ hx => hx, fun _ h => nomatch h⟩
    | some pr =>
      obtain ⟨⟨dt, c⟩, rest⟩ := pr
      rw [hpop] at h
      simp only at h
      obtain ⟨hcq, hdone3, hex3, hmap3, hnd3, hdisj3, hsub3⟩ := afterPop_ginv hinv hpop
      have hcd : c ∉ s.done := fun hd => hinv.disj c hd hcq
      have hnc : ¬ s.done.contains c = true := by simpa using hcd
      simp only [hnc, if_false] at h
      -- the commit's own justification
      have hcs := hinv.sound c (Or.inr hcq)
      -- invariant for a state with the core of `afterPop` but a grown excluded set containing what is needed
      have mk : ∀ (s5 : QSt), s5.pq = (afterPop g s c rest).pq → s5.pqSet = (afterPop g s c rest).pqSet →
          s5.done = c :: s.done → (∀ x, x ∈ s.excluded → x ∈ s5.excluded) →
          ((∃ i, i ∈ incl ∧ Anc g c i) ∨ ∀ p, p ∈ g.parents c → p ∈ s5.excluded) → GInv g incl s5 := by
        intro s5 e1 e2 e3 hmono hpar
        refine ⟨by rw [e1, e2]; exact hmap3, by rw [e2]; exact hnd3,
                by rw [e3]; exact List.nodup_cons.mpr ⟨hcd, hinv.dnodup⟩,
                by rw [e2, e3]; exact hdisj3, ?_⟩
        intro x hx
        have lift : ((∃ i, i ∈ incl ∧ Anc g x i) ∨ x ∈ s.excluded) →
            ((∃ i, i ∈ incl ∧ Anc g x i) ∨ x ∈ s5.excluded) := fun h => h.imp id (hmono x)
        rw [e2, e3] at hx
        rcases hx with hx | hx
        · rcases List.mem_cons.mp hx with rfl | hx
          · exact lift hcs
          · exact lift (hinv.sound x (Or.inl hx))
        · rcases hsub3 x hx with h1 | h1
          · exact lift (hinv.sound x (Or.inr h1))
          · rcases hpar with ⟨i, hi, ha⟩ | hpar
            · exact Or.inl ⟨i, hi, (Anc.parent h1).trans ha⟩
            · exact Or.inr (hpar x h1)
      by_cases hexc : (afterPop g s c rest).excluded.contains c = true
      · -- excluded commit
        simp only [stepEx, hexc, if_true] at h
        cases hep : excludeParents g (afterPop g s c rest).seen (g.n + 2) [c] (afterPop g s c rest).excluded with
        | none => rw [hep] at h; simp at h
        | some ex =>
          rw [hep] at h
          simp only at h
          obtain ⟨hm, hp⟩ := excludeParents_parents g _ (g.n + 1) c _ ex hep
          rw [hex3] at hm
          exact stepTail_sound ih
            (mk { afterPop g s c rest with excluded := ex } rfl rfl hdone3 hm (Or.inr hp)) hm hdone3 hcd
            (fun hf => by simp at hf) h
      · -- ordinary commit
        simp only [stepEx, hexc] at h
        have hcne : c ∉ s.excluded := by
          rw [hex3] at hexc; simpa using hexc
        have hci : ∃ i, i ∈ incl ∧ Anc g c i := by
          rcases hcs with h1 | h1
          · exact h1
          · exact absurd h1 hcne
        have hm : ∀ x, x ∈ s.excluded → x ∈ (afterPop g s c rest).excluded := by
          intro x hx; rw [hex3]; exact hx
        exact stepTail_sound ih (mk _ rfl rfl hdone3 hm (Or.inl hci)) hm hdone3 hcd (fun _ => hci) h

theorem drain_sound {g : Graph} {incl : List Nat} {since : Option Int} :
    ∀ (fuel : Nat) (s : QSt) (acc : List Nat) (s' : QSt) (out : List Nat), GInv g incl s → acc.Nodup →
      (∀ c, c ∈ acc → c ∈ s.done ∧ ∃ i, i ∈ incl ∧ Anc g c i) →
      drain g since fuel s acc = some (s', out) →
      (∀ x, x ∈ s.excluded → x ∈ s'.excluded) ∧ out.Nodup ∧ ∀ c, c ∈ out → ∃ i, i ∈ incl ∧ Anc g c i
  | 0, _, _, _, _, _, _, _, h => by simp [drain] at h
  | fuel + 1, s, acc, s', out, hinv, hnd, hacc, h => by
    simp only [drain] at h
    cases hstep : step g since (g.n + 1) s with
    | none => rw [hstep] at h; simp at h
    | some pr =>
      obtain ⟨s1, r⟩ := pr
      rw [hstep] at h
      have hso := step_sound _ _ _ _ hinv hstep
      cases r with
      | none =>
        simp only [Option.some.injEq, Prod.mk.injEq] at h
        obtain ⟨rfl, rfl⟩ := h
        refine ⟨hso.ex, (List.Perm.nodup_iff (List.reverse_perm acc)).mpr hnd, fun c hc => ?_⟩
        exact (hacc c (List.mem_reverse.mp hc)).2
      | some c =>
        simp only at h
        obtain ⟨hc1, hc2, hc3⟩ := hso.ret c rfl
        have := drain_sound fuel s1 (c :: acc) s' out hso.inv
          (List.nodup_cons.mpr ⟨fun hin => hc1 (hacc c hin).1, hnd⟩)
          (by
            intro x hx
            rcases List.mem_cons.mp hx with rfl | hx
            · exact ⟨hc2, hc3⟩
            · exact ⟨hso.done x (hacc x hx).1, (hacc x hx).2⟩) h
        exact ⟨fun x hx => this.1 x (hso.ex x hx), this.2⟩

theorem qInit_ginv (g : Graph) (incl excl : List Nat) :
    GInv g incl (qInit g incl excl) ∧ ∀ x, x ∈ excl → x ∈ (qInit g incl excl).excluded := by
  unfold qInit
  let s0 : QSt := { pq := [], pqSet := [], seen := [], done := [], excluded := excl.eraseDups,
                    last := none, extraLeft := (Gen.walkMaxExtraCommits : Int), finished := false }
  obtain ⟨hrel, _, hsub⟩ := pushFold_rel g (incl ++ excl) s0
  have hd : ((incl ++ excl).foldl (push g) s0).done = [] := by rw [pushFold_done]
  have hex : ((incl ++ excl).foldl (push g) s0).excluded = excl.eraseDups := by rw [pushFold_excluded]
  have hdn : ((incl ++ excl).foldl (push g) s0).done.Nodup := by rw [hd]; exact List.nodup_nil
  have hdj : ∀ c, c ∈ ((incl ++ excl).foldl (push g) s0).done → c ∉ ((incl ++ excl).foldl (push g) s0).pqSet := by
    intro c hc; rw [hd] at hc; cases hc
  refine ⟨⟨hrel.pqmap rfl, hrel.nodup List.nodup_nil, hdn, hdj, ?_⟩,
          fun x hx => by rw [hex]; exact List.mem_eraseDups.mpr hx⟩
  intro c hc
  rcases hc with hc | hc
  · rw [hd] at hc; cases hc
  · rcases hsub c hc with h1 | h1
    · cases h1
    · rcases List.mem_append.mp h1 with h2 | h2
      · exact Or.inl ⟨c, h2, Anc.refl c⟩
      · right; rw [hex]; exact List.mem_eraseDups.mpr h2

/-- everything the queue yields, for any excludes and any `since`: distinct commits reachable from the start
points; the final `excluded` set contains the exclude start points -/
theorem queueOutput_sound {g : Graph} {incl excl : List Nat} {since : Option Int} {q ex : List Nat}
    (h : queueOutput g incl excl since = some (q, ex)) :
    q.Nodup ∧ (∀ c, c ∈ q → ∃ i, i ∈ incl ∧ Anc g c i) ∧ ∀ x, x ∈ excl → x ∈ ex := by
  unfold queueOutput at h
  split at h
  · cases h
  · rename_i s out hdrain
    obtain ⟨hinv, hexcl⟩ := qInit_ginv g incl excl
    obtain ⟨hmono, hnd, hmem⟩ := drain_sound _ _ _ _ _ hinv List.nodup_nil (fun _ h => nomatch h) hdrain
    split at h
    · simp only [Option.some.injEq, Prod.mk.injEq] at h
      obtain ⟨rfl, rfl⟩ := h
      exact ⟨hnd, hmem, fun x hx => hmono x (hexcl x hx)⟩
    · simp only [Option.some.injEq, Prod.mk.injEq] at h
      obtain ⟨rfl, rfl⟩ := h
      exact ⟨List.Nodup.sublist List.filter_sublist hnd, fun c hc => hmem c (List.mem_filter.mp hc).1,
             fun x hx => hmono x (hexcl x hx)⟩


theorem shouldReturn_spec {g : Graph} {o : Opts} {ex : List Nat} {c : Nat} (h : shouldReturn g o ex c = true) :
    (∀ m, o.since = some m → m ≤ g.ts c) ∧ (∀ m, o.untl = some m → g.ts c ≤ m) ∧ c ∉ ex := by
  unfold shouldReturn at h
  simp only [Bool.and_eq_true, Bool.not_eq_true', List.contains_eq_mem, decide_eq_false_iff_not] at h
  obtain ⟨⟨h1, h2⟩, h3⟩ := h
  refine ⟨fun m hm => ?_, fun m hm => ?_, h3⟩
  · rw [hm] at h1; simp only [Bool.not_eq_true', decide_eq_false_iff_not] at h1; omega
  · rw [hm] at h2; simp only [Bool.not_eq_true', decide_eq_false_iff_not] at h2; omega

/-- every option, every clock: the walker's output consists of distinct commits that are reachable from the
start points, are not exclude start points, lie in the `since..until` window, and are at most `max_entries` -/
theorem walk_sound_all {g : Graph} {o : Opts} (rk : Nat → Nat) (hrk : ∀ c p, p ∈ g.parents c → rk p < rk c)
    {out : List Nat} (h : walk g o = some out) :
    out.Nodup ∧ (∀ m, o.maxEntries = some m → out.length ≤ m) ∧
    ∀ c, c ∈ out → (∃ i, i ∈ o.incl ∧ Anc g c i) ∧ c ∉ o.excl ∧
      (∀ m, o.since = some m → m ≤ g.ts c) ∧ (∀ m, o.untl = some m → g.ts c ≤ m) := by
  unfold walk at h
  split at h
  · cases h
  · rename_i q ex hq
    obtain ⟨hnd, hmem, hexcl⟩ := queueOutput_sound hq
    simp only at h
    have key : ∀ (limited : List Nat), limited.Sublist (q.filter (shouldReturn g o ex)) →
        (∀ m, o.maxEntries = some m → limited.length ≤ m) →
        (match (if o.topo = true then topoReorder g.parents limited else some limited) with
          | none => none
          | some l => some (if o.reverse = true then l.reverse else l)) = some out →
        out.Nodup ∧ (∀ m, o.maxEntries = some m → out.length ≤ m) ∧
        ∀ c, c ∈ out → (∃ i, i ∈ o.incl ∧ Anc g c i) ∧ c ∉ o.excl ∧
          (∀ m, o.since = some m → m ≤ g.ts c) ∧ (∀ m, o.untl = some m → g.ts c ≤ m) := by
      intro limited hsub hlen h
      have hlnd : limited.Nodup := List.Nodup.sublist (hsub.trans List.filter_sublist) hnd
      have hlmem : ∀ c, c ∈ limited → (∃ i, i ∈ o.incl ∧ Anc g c i) ∧ c ∉ o.excl ∧
          (∀ m, o.since = some m → m ≤ g.ts c) ∧ (∀ m, o.untl = some m → g.ts c ≤ m) := by
        intro c hc
        have hc' := List.mem_filter.mp (hsub.subset hc)
        obtain ⟨h1, h2, h3⟩ := shouldReturn_spec hc'.2
        exact ⟨hmem c hc'.1, fun hx => h3 (hexcl c hx), h1, h2⟩
      have hperm : out.Perm limited := by
        cases htopo : o.topo with
        | true =>
          simp only [htopo, if_true] at h
          cases hl : topoReorder g.parents limited with
          | none => rw [hl] at h; cases h
          | some l =>
            rw [hl] at h
            have := (topoLoop_correct hlnd rk hrk _ _ _ _ (topoReorder_init g.parents limited) hl).1
            simp only [Option.some.injEq] at h
            subst h
            split
            · exact (List.reverse_perm l).trans this
            · exact this
        | false =>
          simp only [htopo, Bool.false_eq_true, if_false, Option.some.injEq] at h
          subst h
          split
          · exact List.reverse_perm _
          · exact List.Perm.refl _
      exact ⟨(List.Perm.nodup_iff hperm).mpr hlnd, fun m hm => by rw [hperm.length_eq]; exact hlen m hm,
             fun c hc => hlmem c (hperm.mem_iff.mp hc)⟩
    cases hmx : o.maxEntries with
    | none =>
      simp only [hmx] at h
      have r := key _ (List.Sublist.refl _) (fun m hm => by rw [hmx] at hm; cases hm) h
      rw [hmx] at r
      exact r
    | some m =>
      simp only [hmx] at h
      have r := key _ (List.take_sublist _ _) (fun m' hm' => by
        rw [hmx] at hm'
        cases hm'
        simp only [List.length_take]
        omega) h
      rw [hmx] at r
      exact r


end Dulwich.Walk
