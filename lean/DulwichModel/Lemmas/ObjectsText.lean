/- Helper lemmas for the text-level object model (C01): header folding, decimal numbers, time zones. -/
import DulwichModel.Model.Objects

namespace Dulwich.Objects
open Dulwich

/-! ### `_format_message` / `_parse_message` -/

/-- The lines `pre ++ foldValue v ++ "\n"` splits into, when `pre` is the part of the current line
already seen. -/
def valueLines : Bytes → Bytes → List Bytes
  | pre, [] => [pre ++ [10]]
  | pre, b :: r => if b = 10 then (pre ++ [10]) :: valueLines [32] r else valueLines (pre ++ [b]) r

theorem splitLinesAux_fold (v : Bytes) : ∀ (cur rest : Bytes),
    splitLinesAux (foldValue v ++ [10] ++ rest) cur = valueLines cur v ++ splitLinesAux rest [] := by
  induction v with
  | nil => intro cur rest; simp [foldValue, splitLinesAux, valueLines]
  | cons b r ih =>
    intro cur rest
    by_cases hb : b = 10
    · subst hb
      have hc : OGen.contFmt = 32 := rfl
      simp only [foldValue, if_true, hc, List.cons_append, splitLinesAux, valueLines]
      have h32 : ¬ ((32 : UInt8) = 10) := by decide
      simp only [h32, if_false, List.nil_append]
      have := ih [32] rest
      simp only [List.append_assoc] at this ⊢
      rw [this]
    · simp only [foldValue, hb, if_false, List.cons_append, splitLinesAux, valueLines]
      have := ih (cur ++ [b]) rest
      simp only [List.append_assoc] at this ⊢
      rw [this]

theorem splitLinesAux_noLF (pre : Bytes) (h : (10 : UInt8) ∉ pre) : ∀ (cur s : Bytes),
    splitLinesAux (pre ++ s) cur = splitLinesAux s (cur ++ pre) := by
  induction pre with
  | nil => intro cur s; simp
  | cons b r ih =>
    intro cur s
    have hb : ¬ b = 10 := fun e => h (by simp [e])
    have hr : (10 : UInt8) ∉ r := fun e => h (List.mem_cons_of_mem _ e)
    simp only [List.cons_append, splitLinesAux, hb, if_false]
    rw [ih hr]
    simp

theorem splitLinesAux_flatten (s : Bytes) : ∀ cur, (splitLinesAux s cur).flatten = cur ++ s := by
  induction s with
  | nil =>
    intro cur
    simp only [splitLinesAux]
    split
    · rename_i h; simp at h; simp [h]
    · simp
  | cons b r ih =>
    intro cur
    simp only [splitLinesAux]
    split
    · rename_i hb; subst hb; simp [ih]
    · simp [ih]

theorem splitFirst_append (sep : UInt8) (k x : Bytes) (h : sep ∉ k) :
    splitFirst sep (k ++ sep :: x) = some (k, x) := by
  induction k with
  | nil => simp [splitFirst]
  | cons b r ih =>
    have hb : ¬ b = sep := fun e => h (by simp [e])
    have hr : sep ∉ r := fun e => h (List.mem_cons_of_mem _ e)
    simp [splitFirst, hb, ih hr]

theorem stripLastLF_snoc (v : Bytes) : stripLastLF (v ++ [10]) = v := by
  simp [stripLastLF]

/-- continuation lines are appended to the pending value -/
theorem parseLines_cont (k : Bytes) (v : Bytes) : ∀ (p acc : Bytes) (restLines : List Bytes),
    parseLines (some k) acc (valueLines (32 :: p) v ++ restLines)
      = parseLines (some k) (acc ++ p ++ v ++ [10]) restLines := by
  have hc : OGen.contParse = 32 := rfl
  induction v with
  | nil =>
    intro p acc restLines
    simp [valueLines, parseLines, hc]
  | cons b r ih =>
    intro p acc restLines
    by_cases hb : b = 10
    · subst hb
      simp only [valueLines, if_true, List.cons_append, parseLines, List.head?_cons, hc, List.tail_cons]
      have := ih [] (acc ++ (p ++ [10])) restLines
      simp only [List.append_nil, List.append_assoc] at this ⊢
      rw [this]
      simp
    · simp only [valueLines, hb, if_false]
      have := ih (p ++ [b]) acc restLines
      simp only [List.cons_append, List.append_assoc] at this ⊢
      rw [this]
      simp

/-- Well-formed field name: non-empty, no space, no LF. -/
def WFKey (k : Bytes) : Prop := k ≠ [] ∧ (32 : UInt8) ∉ k ∧ (10 : UInt8) ∉ k

instance (k : Bytes) : Decidable (WFKey k) := by unfold WFKey; infer_instance

/-- a header's first line starts a new field; its continuation lines follow -/
theorem parseLines_header (k : Bytes) (hk : WFKey k) (v : Bytes) :
    ∀ (p : Bytes) (k0 : Option Bytes) (v0 : Bytes) (restLines : List Bytes),
    parseLines k0 v0 (valueLines (k ++ [32] ++ p) v ++ restLines)
      = match parseLines (some k) (p ++ v ++ [10]) restLines with
        | .ok (hs, body) => .ok (flushHeader k0 v0 ++ hs, body)
        | .error e => .error e := by
  have hc : OGen.contParse = 32 := rfl
  obtain ⟨hne, h32, h10⟩ := hk
  -- facts about the first line `k ++ " " ++ p ++ "\n"`
  have first : ∀ (p : Bytes) (k0 : Option Bytes) (v0 : Bytes) (L : List Bytes),
      parseLines k0 v0 ((k ++ [32] ++ p ++ [10]) :: L)
        = match parseLines (some k) (p ++ [10]) L with
          | .ok (hs, body) => .ok (flushHeader k0 v0 ++ hs, body)
          | .error e => .error e := by
    intro p k0 v0 L
    cases k with
    | nil => exact absurd rfl hne
    | cons c k' =>
      have hc32 : ¬ c = 32 := fun e => h32 (by simp [e])
      have hc10 : ¬ c = 10 := fun e => h10 (by simp [e])
      have hsf : splitFirst 32 (c :: (k' ++ 32 :: (p ++ [10]))) = some (c :: k', p ++ [10]) := by
        have := splitFirst_append 32 (c :: k') (p ++ [10]) h32
        simpa using this
      rw [parseLines]
      simp only [List.cons_append, List.head?_cons, hc, Option.some.injEq, hc32, if_false,
        List.append_assoc, List.nil_append]
      have hne10 : ¬ (c :: (k' ++ 32 :: (p ++ [10])) = [10]) := by
        intro e; simp at e
      simp only [hne10, if_false]
      rw [hsf]
      rfl
  induction v with
  | nil =>
    intro p k0 v0 restLines
    simp only [valueLines, List.cons_append, List.nil_append, List.append_nil]
    exact first p k0 v0 restLines
  | cons b r ih =>
    intro p k0 v0 restLines
    by_cases hb : b = 10
    · subst hb
      simp only [valueLines, if_true, List.cons_append]
      rw [first p k0 v0, parseLines_cont k r [] (p ++ [10]) restLines]
      simp
    · simp only [valueLines, hb, if_false]
      have := ih (p ++ [b]) k0 v0 restLines
      simp only [List.append_assoc, List.cons_append, List.nil_append] at this ⊢
      rw [this]

def WFHeaders (hs : Headers) : Prop := ∀ kv ∈ hs, WFKey kv.1

instance (hs : Headers) : Decidable (WFHeaders hs) := by unfold WFHeaders; infer_instance

theorem parseLines_format (hs : Headers) (hwf : WFHeaders hs) (body : Bytes) :
    ∀ (k0 : Option Bytes) (v0 : Bytes),
    parseLines k0 v0 (splitLinesAux (formatHeaders hs ++ [10] ++ body) [])
      = .ok (flushHeader k0 v0 ++ hs, some body) := by
  have hc : OGen.contParse = 32 := rfl
  induction hs with
  | nil =>
    intro k0 v0
    have h1 : ¬ ((10 : UInt8) = 32) := by decide
    simp only [formatHeaders, List.nil_append, List.cons_append, splitLinesAux, if_true, parseLines,
      List.head?_cons, hc, Option.some.injEq, h1, if_false]
    simp [splitLinesAux_flatten]
  | cons kv hs ih =>
    intro k0 v0
    obtain ⟨k, v⟩ := kv
    have hk : WFKey k := hwf (k, v) List.mem_cons_self
    have hwf' : WFHeaders hs := fun x hx => hwf x (List.mem_cons_of_mem _ hx)
    have e : formatHeaders ((k, v) :: hs) ++ [10] ++ body
        = (k ++ [32]) ++ (foldValue v ++ [10] ++ (formatHeaders hs ++ [10] ++ body)) := by
      simp [formatHeaders, formatHeader]
    have hno : (10 : UInt8) ∉ k ++ [32] := by
      intro h
      rcases List.mem_append.mp h with h | h
      · exact hk.2.2 h
      · simp at h
    rw [e, splitLinesAux_noLF _ hno, splitLinesAux_fold]
    have := parseLines_header k hk v [] k0 v0 (splitLinesAux (formatHeaders hs ++ [10] ++ body) [])
    simp only [List.nil_append, List.append_nil] at this ⊢
    rw [this, ih hwf' (some k) (v ++ [10])]
    simp [flushHeader, stripLastLF_snoc]


theorem parseMessage_format (hs : Headers) (body : Option Bytes) (hwf : WFHeaders hs) :
    parseMessage (formatMessage hs body) = .ok (hs, some (body.getD [])) := by
  unfold parseMessage formatMessage splitLines
  rw [parseLines_format hs hwf]
  simp [flushHeader]

theorem parseLinesP_of_ok : ∀ (ls : List Bytes) (k : Option Bytes) (v : Bytes) (hs : Headers) (b : Option Bytes),
    parseLines k v ls = .ok (hs, b) → parseLinesP k v ls = (hs, .ok b) := by
  intro ls
  induction ls with
  | nil =>
    intro k v hs b h
    simp only [parseLines, Except.ok.injEq, Prod.mk.injEq] at h
    simp [parseLinesP, h.1, h.2]
  | cons line rest ih =>
    intro k v hs b h
    rw [parseLines] at h
    rw [parseLinesP]
    split
    · rename_i hc
      simp only [hc, if_true] at h
      exact ih _ _ _ _ h
    · rename_i hc
      simp only [hc, if_false] at h
      split
      · rename_i h10
        simp only [h10, if_true, Except.ok.injEq, Prod.mk.injEq] at h
        simp [h.1, h.2]
      · rename_i h10
        simp only [h10, if_false] at h
        split at h
        · cases h
        · rename_i k' r hsf
          split at h
          · rename_i hs' body hp
            simp only [Except.ok.injEq, Prod.mk.injEq] at h
            simp only [ih _ _ _ _ hp, h.1, h.2]
          · cases h

theorem parseMessageP_format (hs : Headers) (body : Option Bytes) (hwf : WFHeaders hs) :
    parseMessageP (formatMessage hs body) = (hs, .ok (some (body.getD []))) := by
  have := parseMessage_format hs body hwf
  unfold parseMessage at this
  exact parseLinesP_of_ok _ _ _ _ _ this

theorem WFHeaders_append (a b : Headers) : WFHeaders (a ++ b) ↔ WFHeaders a ∧ WFHeaders b := by
  unfold WFHeaders
  constructor
  · intro h
    exact ⟨fun kv hk => h kv (List.mem_append_left _ hk), fun kv hk => h kv (List.mem_append_right _ hk)⟩
  · intro h kv hk
    rcases List.mem_append.mp hk with hk | hk
    · exact h.1 kv hk
    · exact h.2 kv hk

/-! ### numbers: `str(n)`, `"%o" % n`, `int(b)`, `int(b, 8)` -/

/-- an ASCII decimal digit -/
def isDig (c : UInt8) : Prop := 48 ≤ c.toNat ∧ c.toNat ≤ 57

theorem isSpace_dig (c : UInt8) (h : isDig c) : isSpace c = false := by
  unfold isSpace
  obtain ⟨h1, h2⟩ := h
  have e1 : (c == 32) = false := by
    simp only [beq_eq_false_iff_ne, ne_eq]
    intro e; subst e; simp at h1
  have e2 : (9 ≤ c && c ≤ 13) = false := by
    simp only [Bool.and_eq_false_iff, decide_eq_false_iff_not, UInt8.not_le]
    right
    rw [UInt8.lt_iff_toNat_lt]
    simp; omega
  simp [e1, e2]

theorem dig_ne (c : UInt8) (h : isDig c) (x : UInt8) (hx : x.toNat < 48 ∨ 57 < x.toNat) : ¬ c = x := by
  intro e; subst e; obtain ⟨h1, h2⟩ := h; omega

theorem digitChar_toNat (d : Nat) (h : d < 10) : (digitChar d).toNat = 48 + d := by
  unfold digitChar
  rw [UInt8.toNat_ofNat']; omega

theorem digitChar_isDig (d : Nat) (h : d < 10) : isDig (digitChar d) := by
  unfold isDig; rw [digitChar_toNat d h]; omega

theorem natToBaseAux_isDig (b : Nat) (hb0 : 0 < b) (hb : b ≤ 10) : ∀ (f n : Nat),
    ∀ c ∈ natToBaseAux b f n, isDig c := by
  intro f
  induction f with
  | zero => intro n c hc; simp [natToBaseAux] at hc
  | succ f ih =>
    intro n c hc
    unfold natToBaseAux at hc
    split at hc
    · rename_i hn
      simp only [List.mem_singleton] at hc
      subst hc
      exact digitChar_isDig n (by omega)
    · rcases List.mem_append.mp hc with h | h
      · exact ih _ c h
      · simp only [List.mem_singleton] at h
        subst h
        exact digitChar_isDig _ (by have := Nat.mod_lt n hb0; omega)

theorem natToBaseAux_ne_nil (b f n : Nat) : natToBaseAux b (f + 1) n ≠ [] := by
  unfold natToBaseAux
  split <;> simp

theorem stripL_dig (ds : Bytes) (h : ∀ c ∈ ds, isDig c) : stripL ds = ds := by
  cases ds with
  | nil => rfl
  | cons c r => simp [stripL, isSpace_dig c (h c List.mem_cons_self)]

theorem stripR_dig (ds : Bytes) (h : ∀ c ∈ ds, isDig c) : stripR ds = ds := by
  induction ds with
  | nil => rfl
  | cons c r ih =>
    have hr := ih (fun x hx => h x (List.mem_cons_of_mem _ hx))
    simp only [stripR, hr]
    cases r with
    | nil => simp [isSpace_dig c (h c List.mem_cons_self)]
    | cons d r' => rfl

theorem dropSign_dig (ds : Bytes) (h : ∀ c ∈ ds, isDig c) : dropSign ds = (false, ds) := by
  cases ds with
  | nil => rfl
  | cons c r =>
    have hc := h c List.mem_cons_self
    simp [dropSign, dig_ne c hc 45 (by decide), dig_ne c hc 43 (by decide)]

theorem dropOctPrefix_dig (ds : Bytes) (h : ∀ c ∈ ds, isDig c) : dropOctPrefix ds = ds := by
  match ds, h with
  | [], _ => rfl
  | [_], _ => rfl
  | a :: b :: r, h =>
    have hb := h b (by simp)
    simp [dropOctPrefix, dig_ne b hb 111 (by decide), dig_ne b hb 79 (by decide)]

/-- On a string of ASCII digits `int()` is the plain digit scan. -/
theorem pyInt_dig (base : Nat) (ds : Bytes) (h : ∀ c ∈ ds, isDig c) :
    pyInt base ds = (parseDigits base ds 0 false).map fun n => (n : Int) := by
  unfold pyInt
  simp only [stripL_dig ds h, stripR_dig ds h, dropSign_dig ds h, dropOctPrefix_dig ds h]
  have e : (if base = 8 then ds else ds) = ds := by split <;> rfl
  rw [e]
  simp

theorem parseDigits_digit (base d : Nat) (hd : d < base) (hb : base ≤ 10) (rest : Bytes) (acc : Nat) (prev : Bool) :
    parseDigits base (digitChar d :: rest) acc prev = parseDigits base rest (acc * base + d) true := by
  have h10 : d < 10 := by omega
  have hne : ¬ digitChar d = 95 := dig_ne _ (digitChar_isDig d h10) 95 (by decide)
  have hv : digitVal? base (digitChar d) = some d := by
    unfold digitVal?
    rw [digitChar_toNat d h10]
    simp; omega
  simp [parseDigits, hne, hv]

/-- Scanning the digits of `n` from an empty accumulator yields `n` (any continuation `tail`). -/
theorem parseDigits_natToBaseAux (b : Nat) (hb2 : 2 ≤ b) (hb : b ≤ 10) : ∀ (f n : Nat), n < f →
    ∀ (tail : Bytes) (prev : Bool),
    parseDigits b (natToBaseAux b f n ++ tail) 0 prev = parseDigits b tail n true := by
  intro f
  induction f with
  | zero => intro n h; omega
  | succ f ih =>
    intro n hn tail prev
    unfold natToBaseAux
    split
    · rename_i hlt
      simp [parseDigits_digit b n hlt hb]
    · rename_i hge
      have hdiv : n / b < f := by
        have : n / b < n := Nat.div_lt_self (by omega) (by omega)
        omega
      rw [List.append_assoc, ih (n / b) hdiv]
      simp only [List.singleton_append]
      rw [parseDigits_digit b (n % b) (Nat.mod_lt n (by omega)) hb]
      rw [Nat.div_add_mod']

theorem parseDigits_zeros (b : Nat) (hb : b ≤ 10) (hb0 : 0 < b) : ∀ (k : Nat) (rest : Bytes) (prev : Bool), 0 < k →
    parseDigits b (List.replicate k 48 ++ rest) 0 prev = parseDigits b rest 0 true := by
  intro k
  induction k with
  | zero => intro _ _ h; omega
  | succ k ih =>
    intro rest prev _
    have e : (48 : UInt8) = digitChar 0 := rfl
    rw [List.replicate_succ, List.cons_append, e, parseDigits_digit b 0 hb0 hb]
    cases k with
    | zero => simp
    | succ k => rw [← e]; simpa using ih rest true (by omega)

theorem natToBase_isDig (b : Nat) (hb0 : 0 < b) (hb : b ≤ 10) (n : Nat) : ∀ c ∈ natToBase b n, isDig c :=
  natToBaseAux_isDig b hb0 hb (n + 1) n

/-- `int(str(n)) = n`, `int("%o" % n, 8) = n`. -/
theorem pyInt_natToBase (b : Nat) (hb2 : 2 ≤ b) (hb : b ≤ 10) (n : Nat) : pyInt b (natToBase b n) = some (n : Int) := by
  rw [pyInt_dig b _ (natToBase_isDig b (by omega) hb n)]
  have := parseDigits_natToBaseAux b hb2 hb (n + 1) n (by omega) [] false
  simp only [List.append_nil] at this
  simp [natToBase, this, parseDigits]


/-! ### time zones -/

theorem fmt02_nat (k : Nat) : fmt02 (k : Int) = if k < 10 then [48, digitChar k] else natToDec k := by
  unfold fmt02
  have h0 : ¬ ((k : Int) < 0) := by omega
  simp only [h0, if_false, Int.toNat_natCast]
  by_cases h : k < 10
  · have : (k : Int) < 10 := by omega
    simp [h, this]
  · have : ¬ (k : Int) < 10 := by omega
    simp [h, this]

theorem fmt02_isDig (k : Nat) : ∀ c ∈ fmt02 (k : Int), isDig c := by
  rw [fmt02_nat]
  split
  · rename_i h
    intro c hc
    simp only [List.mem_cons, List.not_mem_nil, or_false] at hc
    rcases hc with rfl | rfl
    · exact digitChar_isDig 0 (by omega)
    · exact digitChar_isDig k h
  · exact natToBase_isDig 10 (by omega) (by omega) k

theorem natToDec_two (m : Nat) (h1 : 10 ≤ m) (h2 : m < 100) : natToDec m = [digitChar (m / 10), digitChar (m % 10)] := by
  unfold natToDec natToBase
  cases m with
  | zero => omega
  | succ m' =>
    have a : ¬ (m' + 1 < 10) := by omega
    have b : (m' + 1) / 10 < 10 := by omega
    rw [natToBaseAux]
    simp only [a, if_false]
    rw [natToBaseAux]
    simp [b]

/-- the hours field, scanned first -/
theorem parseDigits_fmt02_first (h : Nat) (tail : Bytes) (prev : Bool) :
    parseDigits 10 (fmt02 (h : Int) ++ tail) 0 prev = parseDigits 10 tail h true := by
  rw [fmt02_nat]
  split
  · rename_i hlt
    have e : (48 : UInt8) = digitChar 0 := rfl
    simp only [List.cons_append, List.nil_append, e]
    rw [parseDigits_digit 10 0 (by omega) (by omega), parseDigits_digit 10 h (by omega) (by omega)]
    simp
  · exact parseDigits_natToBaseAux 10 (by omega) (by omega) (h + 1) h (by omega) tail prev

/-- the minutes field: two digits -/
theorem parseDigits_fmt02_second (m : Nat) (hm : m < 100) (tail : Bytes) (acc : Nat) :
    parseDigits 10 (fmt02 (m : Int) ++ tail) acc true = parseDigits 10 tail (acc * 100 + m) true := by
  rw [fmt02_nat]
  split
  · rename_i hlt
    have e : (48 : UInt8) = digitChar 0 := rfl
    simp only [List.cons_append, List.nil_append, e]
    rw [parseDigits_digit 10 0 (by omega) (by omega), parseDigits_digit 10 m (by omega) (by omega)]
    congr 1; omega
  · rename_i hge
    rw [natToDec_two m (by omega) hm]
    simp only [List.cons_append, List.nil_append]
    rw [parseDigits_digit 10 (m / 10) (by omega) (by omega), parseDigits_digit 10 (m % 10) (by omega) (by omega)]
    congr 1; omega

theorem pyInt_hhmm (h m : Nat) (hm : m < 100) :
    pyInt 10 (fmt02 (h : Int) ++ fmt02 (m : Int)) = some ((h * 100 + m : Nat) : Int) := by
  have hd : ∀ c ∈ fmt02 (h : Int) ++ fmt02 (m : Int), isDig c := by
    intro c hc
    rcases List.mem_append.mp hc with hc | hc
    · exact fmt02_isDig h c hc
    · exact fmt02_isDig m c hc
  rw [pyInt_dig 10 _ hd, parseDigits_fmt02_first]
  have := parseDigits_fmt02_second m hm [] h
  simp only [List.append_nil] at this
  rw [this]
  simp [parseDigits]

/-- What `parse_timezone` makes of `[+-]` followed by an hours field and a two-digit field. -/
theorem parseTimezone_hhmm (s : UInt8) (hs : s = 43 ∨ s = 45) (h m : Nat) (hm : m < 100) :
    parseTimezone (s :: (fmt02 (h : Int) ++ fmt02 (m : Int)))
      = .ok (if s = 45 then (-((h * 3600 + m * 60 : Nat) : Int), decide (h * 100 + m = 0))
             else (((h * 3600 + m * 60 : Nat) : Int), false)) := by
  have c1 : OGen.tzpDiv = 100 := rfl
  have c2 : OGen.tzpMod = 100 := rfl
  have c3 : OGen.tzpHourMul = 3600 := rfl
  have c4 : OGen.tzpMinMul = 60 := rfl
  unfold parseTimezone
  have hne : ¬ (s ≠ 43 ∧ s ≠ 45) := by
    rcases hs with rfl | rfl <;> decide
  simp only [hne, if_false, pyInt_hhmm h m hm, c1, c2, c3, c4]
  have hdiv : (h * 100 + m) / 100 = h := by omega
  have hmod : (h * 100 + m) % 100 = m := by omega
  rcases hs with rfl | rfl
  · -- '+'
    have e : ¬ ((43 : UInt8) = 45) := by decide
    simp only [e, if_false, Int.natAbs_natCast, hdiv, hmod]
    have : ¬ ((h : Int) * 100 + (m : Int) < 0) := by omega
    simp [this]
  · -- '-'
    simp only [if_true, Int.natAbs_neg, Int.natAbs_natCast, hdiv, hmod]
    by_cases hz : h * 100 + m = 0
    · have h0 : h = 0 := by omega
      have m0 : m = 0 := by omega
      subst h0; subst m0
      simp
    · have p : (0 : Int) < (h : Int) * 100 + (m : Int) := by omega
      have q : ¬ ((h : Int) * 100 + (m : Int) ≤ 0) := by omega
      simp [p, q]
      intro h0 m0
      omega

/-- `format_timezone` on a non-negative offset given by its magnitude. -/
theorem formatTimezone_pos (n : Nat) (h60 : n % 60 = 0) :
    formatTimezone (n : Int) false
      = .ok (43 :: (fmt02 ((n / 3600 : Nat) : Int) ++ fmt02 (((n / 60) % 60 : Nat) : Int))) := by
  have c1 : OGen.tzCheckMod = 60 := rfl
  have c2 : OGen.tzHourDiv = 3600 := rfl
  have c3 : OGen.tzMinDiv = 60 := rfl
  have c4 : OGen.tzMinMod = 60 := rfl
  unfold formatTimezone
  have hm : ¬ ((n : Int) % ((60 : Nat) : Int) ≠ 0) := by omega
  have hlt : ¬ ((n : Int) < 0) := by omega
  simp only [c1, c2, c3, c4, hm, if_false, hlt, decide_false, Bool.or_false, Bool.false_eq_true,
    Int.natCast_tdiv_eq_ediv]
  congr 3

/-- `format_timezone` on a negative offset `-n`, and on `0` with the neg-utc flag. -/
theorem formatTimezone_neg (n : Nat) (h60 : n % 60 = 0) (neg : Bool) (h : 0 < n ∨ neg = true) :
    formatTimezone (-(n : Int)) neg
      = .ok (45 :: (fmt02 ((n / 3600 : Nat) : Int) ++ fmt02 (((n / 60) % 60 : Nat) : Int))) := by
  have c1 : OGen.tzCheckMod = 60 := rfl
  have c2 : OGen.tzHourDiv = 3600 := rfl
  have c3 : OGen.tzMinDiv = 60 := rfl
  have c4 : OGen.tzMinMod = 60 := rfl
  unfold formatTimezone
  have hm : ¬ ((-(n : Int)) % ((60 : Nat) : Int) ≠ 0) := by omega
  have hor : (decide (-(n : Int) < 0) || neg) = true := by
    rcases h with h | h
    · simp
      exact Or.inl h
    · simp [h]
  simp only [c1, c2, c3, c4, hm, if_false, hor, if_true, Int.neg_neg, Int.natCast_tdiv_eq_ediv]
  congr 3

end Dulwich.Objects
