/-
  Lemmas about the concurrent reader model (`Model/Reader.lean`): a rely/guarantee invariant showing that a lookup
  never reports "missing" for an object that stays in a complete pack, against any environment that installs the new
  pack before removing old ones.
-/
import DulwichModel.Model.Reader
namespace Dulwich.Reader

/-- ghost phase of the environment: `A` = no pack file has been removed yet; `B` = the stable pack `pstar` is complete,
forever -/
inductive EPhase where
  | A | B
  deriving DecidableEq, Repr

/-- the object looked up by `c` is in a complete pack: some pack (phase A) / the stable pack (phase B) -/
def EnvOK (c : Cfg) (pstar : Name) : EPhase → FS → Prop
  | .A, f => ∃ p, f.complete p = true ∧ c.x ∈ c.ids p
  | .B, f => f.complete pstar = true ∧ c.x ∈ c.ids pstar

/-- allowed evolution of the environment between two observations by a reader (transitively closed by construction) -/
def EnvStep : EPhase × FS → EPhase × FS → Prop
  | (.A, f), (.A, f') => ∀ p, f.complete p = true → f'.complete p = true
  | (.A, _), (.B, _) => True
  | (.B, _), (.B, _) => True
  | (.B, _), (.A, _) => False

/-- a trace of (ghost phase, file system) pairs as seen at the reader's successive steps -/
def Rely (c : Cfg) (pstar : Name) : List (EPhase × FS) → Prop
  | [] => True
  | [e] => EnvOK c pstar e.1 e.2
  | e :: e' :: rest => EnvOK c pstar e.1 e.2 ∧ EnvStep e e' ∧ Rely c pstar (e' :: rest)

/-- passes still available suffice: see the case analysis in `rinv_step` -/
def Budget (c : Cfg) (pstar : Name) (ph : EPhase) (f : FS) (a : Nat) (td : List Name) : Prop :=
  match ph with
  | .B => (pstar ∈ td ∧ a < c.maxAttempts) ∨ a + 1 < c.maxAttempts
  | .A => ((∃ p ∈ td, c.x ∈ c.ids p ∧ f.complete p = true) ∧ a + 1 < c.maxAttempts) ∨ a + 2 < c.maxAttempts

/-- every pack of the cache that holds the object is still to be probed in this pass -/
def KInv (c : Cfg) (r : RState) : Prop := ∀ q ∈ r.cache, c.x ∈ c.ids q → q ∈ r.todo

/-- after a rescan, a holder is still to be probed or a disappearance has been recorded -/
def LInv (c : Cfg) (r : RState) : Prop :=
  r.rescanned = true → (∃ q ∈ r.todo, c.x ∈ c.ids q) ∨ r.disappeared = true

/-- the reader invariant -/
def RInv (c : Cfg) (pstar : Name) (ph : EPhase) (f : FS) (r : RState) : Prop :=
  match r.phase with
  | .done b => b = true
  | .loose => False
  | .alts => False
  | .scan => KInv c r ∧ LInv c r ∧ Budget c pstar ph f r.attempt r.todo
  | .needData p =>
    (∃ rest, r.todo = p :: rest) ∧ c.x ∈ c.ids p ∧ KInv c r ∧
      ((ph = .A ∧ f.complete p = true ∧ r.attempt + 1 < c.maxAttempts) ∨ (ph = .B ∧ p = pstar) ∨
        Budget c pstar ph f r.attempt (r.todo.drop 1))

theorem complete_idx {f : FS} {p : Name} (h : f.complete p = true) : f.idx.contains p = true := by
  unfold FS.complete at h
  simp only [Bool.and_eq_true] at h
  exact h.1

theorem complete_data {f : FS} {p : Name} (h : f.complete p = true) : f.data.contains p = true := by
  unfold FS.complete at h
  simp only [Bool.and_eq_true] at h
  exact h.2

theorem complete_mem_visible {f : FS} {p : Name} (h : f.complete p = true) : p ∈ f.visible := by
  have h1 := complete_idx h
  have h2 := complete_data h
  unfold FS.visible
  simp only [List.mem_filter]
  exact ⟨by simpa using h2, h1⟩

theorem complete_mem_rescan {f : FS} {p : Name} (cache : List Name) (h : f.complete p = true) :
    p ∈ (rescan f cache).1 := by
  have hv := complete_mem_visible h
  unfold rescan
  simp only [List.mem_append, List.mem_filter]
  by_cases hc : p ∈ cache
  · exact .inl ⟨hc, by simpa using hv⟩
  · exact .inr ⟨hv, by simpa using hc⟩

theorem complete_mem_new {f : FS} {p : Name} (cache : List Name) (h : f.complete p = true) (hc : p ∉ cache) :
    p ∈ (rescan f cache).2 := by
  have hv := complete_mem_visible h
  unfold rescan
  simp only [List.mem_filter]
  exact ⟨hv, by simpa using hc⟩

theorem budget_env {c : Cfg} {pstar : Name} {ph ph' : EPhase} {f f' : FS} {a : Nat} {td : List Name}
    (h : Budget c pstar ph f a td) (hs : EnvStep (ph, f) (ph', f')) : Budget c pstar ph' f' a td := by
  cases ph <;> cases ph'
  · -- A → A
    unfold Budget at *
    simp only at *
    rcases h with ⟨⟨p, hp, hx, hc⟩, ha⟩ | ha
    · exact .inl ⟨⟨p, hp, hx, hs p hc⟩, ha⟩
    · exact .inr ha
  · -- A → B
    unfold Budget at *
    simp only at *
    rcases h with ⟨_, ha⟩ | ha
    · exact .inr ha
    · exact .inr (by omega)
  · exact absurd hs (by simp [EnvStep])
  · unfold Budget at *
    simp only at *
    exact h

theorem rinv_env {c : Cfg} {pstar : Name} {ph : EPhase} {f : FS} {ph' : EPhase} {f' : FS} {r : RState}
    (h : RInv c pstar ph f r) (hs : EnvStep (ph, f) (ph', f')) : RInv c pstar ph' f' r := by
  unfold RInv at *
  split
  · rename_i b hb; simp only [hb] at h; exact h
  · rename_i hb; simp only [hb] at h
  · rename_i hb; simp only [hb] at h
  · rename_i hb
    simp only [hb] at h
    exact ⟨h.1, h.2.1, budget_env h.2.2 hs⟩
  · rename_i p hb
    simp only [hb] at h
    obtain ⟨h1, h2, h3, h4⟩ := h
    refine ⟨h1, h2, h3, ?_⟩
    rcases h4 with ⟨hA, hc, ha⟩ | ⟨hB, hp⟩ | hbud
    · subst hA
      cases ph'
      · exact .inl ⟨rfl, hs p hc, ha⟩
      · exact .inr (.inr (by unfold Budget; simp only; exact .inr ha))
    · subst hB
      cases ph'
      · exact absurd hs (by simp [EnvStep])
      · exact .inr (.inl ⟨rfl, hp⟩)
    · exact .inr (.inr (budget_env hbud hs))

theorem rinv_init (c : Cfg) (pstar : Name) (hN : 3 ≤ c.maxAttempts) (ph : EPhase) (f : FS)
    (cache idxL dataL : List Name) : RInv c pstar ph f (RState.init cache idxL dataL) := by
  unfold RInv RState.init
  simp only
  refine ⟨fun q hq _ => hq, fun h => by simp at h, ?_⟩
  unfold Budget
  cases ph <;> simp only <;> right <;> omega

theorem rinv_done {c : Cfg} {pstar : Name} {ph : EPhase} {f : FS} {r : RState} {b : Bool}
    (h : RInv c pstar ph f r) (hd : r.phase = .done b) : b = true := by
  unfold RInv at h
  simp only [hd] at h
  exact h

/-- a new pass after a rescan in an environment where a holder is complete -/
theorem rinv_nextAttempt {c : Cfg} {pstar : Name} {ph : EPhase} {f : FS} {r : RState}
    (hok : EnvOK c pstar ph f) (hscan : r.phase = .scan)
    (hbud : Budget c pstar ph f r.attempt []) :
    RInv c pstar ph f (nextAttempt c (withCache r (rescan f r.cache).1)) := by
  have ha : r.attempt + 1 < c.maxAttempts := by
    unfold Budget at hbud
    cases ph <;> simp only at hbud
    · rcases hbud with ⟨⟨p, hp, _⟩, _⟩ | h
      · cases hp
      · omega
    · rcases hbud with ⟨hp, _⟩ | h
      · cases hp
      · exact h
  unfold nextAttempt withCache
  simp only [ha, if_true]
  unfold RInv
  simp only [hscan]
  refine ⟨fun q hq _ => hq, ?_, ?_⟩
  · intro _
    left
    cases ph
    · obtain ⟨p, hc, hx⟩ := hok
      exact ⟨p, complete_mem_rescan _ hc, hx⟩
    · exact ⟨pstar, complete_mem_rescan _ hok.1, hok.2⟩
  · unfold Budget
    cases ph <;> simp only
    · obtain ⟨p, hc, hx⟩ := hok
      left
      refine ⟨⟨p, complete_mem_rescan _ hc, hx, hc⟩, ?_⟩
      unfold Budget at hbud
      simp only at hbud
      rcases hbud with ⟨⟨p, hp, _⟩, _⟩ | h
      · cases hp
      · omega
    · exact .inl ⟨complete_mem_rescan _ hok.1, ha⟩

/-! ### `step` case by case -/

theorem step_done {c : Cfg} {f : FS} {r : RState} {b : Bool} (hph : r.phase = .done b) : step c f r = r := by
  simp [step, hph]

theorem step_scan_hit {c : Cfg} {f : FS} {r : RState} {p : Name} {rest : List Name}
    (hph : r.phase = .scan) (htodo : r.todo = p :: rest)
    (hidx : (r.idxLoaded.contains p || f.idx.contains p) = true) (hx : (c.ids p).contains c.x = true) :
    step c f r =
      if (!c.needData || r.dataLoaded.contains p) = true then
        { r with idxLoaded := if r.idxLoaded.contains p then r.idxLoaded else p :: r.idxLoaded, phase := .done true }
      else
        { r with idxLoaded := if r.idxLoaded.contains p then r.idxLoaded else p :: r.idxLoaded, phase := .needData p } := by
  simp only [step, hph, htodo, hidx, hx, if_true]

theorem step_scan_miss {c : Cfg} {f : FS} {r : RState} {p : Name} {rest : List Name}
    (hph : r.phase = .scan) (htodo : r.todo = p :: rest)
    (hidx : (r.idxLoaded.contains p || f.idx.contains p) = true) (hx : (c.ids p).contains c.x = false) :
    step c f r =
      { r with idxLoaded := if r.idxLoaded.contains p then r.idxLoaded else p :: r.idxLoaded, todo := rest } := by
  simp only [step, hph, htodo, hidx, hx, if_true]
  simp

theorem step_scan_gone {c : Cfg} {f : FS} {r : RState} {p : Name} {rest : List Name}
    (hph : r.phase = .scan) (htodo : r.todo = p :: rest)
    (hidx : (r.idxLoaded.contains p || f.idx.contains p) = false) :
    step c f r = { evict r p with todo := rest, disappeared := true } := by
  simp only [step, hph, htodo, hidx]
  simp

theorem step_scan_nil_disappeared {c : Cfg} {f : FS} {r : RState}
    (hph : r.phase = .scan) (htodo : r.todo = []) (hd : r.disappeared = true) :
    step c f r = nextAttempt c (withCache r (rescan f r.cache).1) := by
  simp only [step, hph, htodo, hd, if_true]

theorem step_scan_nil_first {c : Cfg} {f : FS} {r : RState}
    (hph : r.phase = .scan) (htodo : r.todo = []) (hd : r.disappeared = false) (hr : r.rescanned = false) :
    step c f r =
      if (rescan f r.cache).2.isEmpty = true then { withCache r (rescan f r.cache).1 with phase := .loose }
      else nextAttempt c (withCache r (rescan f r.cache).1) := by
  simp only [step, hph, htodo, hd, hr]
  simp

theorem step_needData_ok {c : Cfg} {f : FS} {r : RState} {p : Name}
    (hph : r.phase = .needData p) (hdata : f.data.contains p = true) :
    (step c f r).phase = .done true := by
  have hm : p ∈ f.data := by simpa using hdata
  simp [step, hph, hm]

theorem step_needData_gone {c : Cfg} {f : FS} {r : RState} {p : Name}
    (hph : r.phase = .needData p) (hdata : f.data.contains p = false) :
    step c f r = { evict r p with todo := r.todo.drop 1, disappeared := true, phase := .scan } := by
  have hm : p ∉ f.data := by simpa using hdata
  simp [step, hph, hm]

theorem rinv_step {c : Cfg} {pstar : Name} {ph : EPhase} {f : FS} {r : RState}
    (h : RInv c pstar ph f r) (hok : EnvOK c pstar ph f) : RInv c pstar ph f (step c f r) := by
  cases hph : r.phase with
  | done b => rw [step_done hph]; exact h
  | loose => unfold RInv at h; simp only [hph] at h
  | alts => unfold RInv at h; simp only [hph] at h
  | scan =>
    have h' := h
    unfold RInv at h'
    simp only [hph] at h'
    obtain ⟨hK, hL, hB⟩ := h'
    cases htodo : r.todo with
    | cons p rest =>
      cases hidx : (r.idxLoaded.contains p || f.idx.contains p) with
      | true =>
        cases hx : (c.ids p).contains c.x with
        | true =>
          have hx' : c.x ∈ c.ids p := by simpa using hx
          rw [step_scan_hit hph htodo hidx hx]
          split
          · unfold RInv; simp
          · unfold RInv
            simp only
            refine ⟨⟨rest, htodo⟩, hx', ?_, ?_⟩
            · intro q hq hqx
              exact hK q hq hqx
            · rw [htodo] at hB
              rw [htodo]
              simp only [List.drop_succ_cons, List.drop_zero]
              unfold Budget at hB ⊢
              cases ph <;> simp only at hB ⊢
              · rcases hB with ⟨⟨q, hq, hqx, hqc⟩, ha⟩ | ha
                · rcases List.mem_cons.mp hq with rfl | hq
                  · exact .inl ⟨trivial, hqc, ha⟩
                  · exact .inr (.inr (.inl ⟨⟨q, hq, hqx, hqc⟩, ha⟩))
                · exact .inr (.inr (.inr ha))
              · rcases hB with ⟨hq, ha⟩ | ha
                · rcases List.mem_cons.mp hq with rfl | hq
                  · exact .inr (.inl ⟨trivial, rfl⟩)
                  · exact .inr (.inr (.inl ⟨hq, ha⟩))
                · exact .inr (.inr (.inr ha))
        | false =>
          have hx' : c.x ∉ c.ids p := by simpa using hx
          rw [step_scan_miss hph htodo hidx hx]
          unfold RInv
          simp only [hph]
          refine ⟨?_, ?_, ?_⟩
          · intro q hq hqx
            have := hK q hq hqx
            rw [htodo] at this
            rcases List.mem_cons.mp this with rfl | h
            · exact absurd hqx hx'
            · exact h
          · intro hr
            rcases hL hr with ⟨q, hq, hqx⟩ | hd
            · rw [htodo] at hq
              rcases List.mem_cons.mp hq with rfl | hq
              · exact absurd hqx hx'
              · exact .inl ⟨q, hq, hqx⟩
            · exact .inr hd
          · rw [htodo] at hB
            unfold Budget at hB ⊢
            cases ph <;> simp only at hB ⊢
            · rcases hB with ⟨⟨q, hq, hqx, hqc⟩, ha⟩ | ha
              · rcases List.mem_cons.mp hq with rfl | hq
                · exact absurd hqx hx'
                · exact .inl ⟨⟨q, hq, hqx, hqc⟩, ha⟩
              · exact .inr ha
            · rcases hB with ⟨hq, ha⟩ | ha
              · rcases List.mem_cons.mp hq with heq | hq
                · exact absurd (heq ▸ hok.2) hx'
                · exact .inl ⟨hq, ha⟩
              · exact .inr ha
      | false =>
        have hgone : f.idx.contains p = false := by
          simp only [Bool.or_eq_false_iff] at hidx
          exact hidx.2
        rw [step_scan_gone hph htodo hidx]
        unfold RInv evict
        simp only [hph]
        refine ⟨?_, fun _ => .inr rfl, ?_⟩
        · intro q hq hqx
          simp only [List.mem_filter, bne_iff_ne, ne_eq] at hq
          have := hK q hq.1 hqx
          rw [htodo] at this
          rcases List.mem_cons.mp this with rfl | h
          · exact absurd rfl hq.2
          · exact h
        · rw [htodo] at hB
          unfold Budget at hB ⊢
          cases ph <;> simp only at hB ⊢
          · rcases hB with ⟨⟨q, hq, hqx, hqc⟩, ha⟩ | ha
            · rcases List.mem_cons.mp hq with rfl | hq
              · have := complete_idx hqc
                rw [hgone] at this
                cases this
              · exact .inl ⟨⟨q, hq, hqx, hqc⟩, ha⟩
            · exact .inr ha
          · rcases hB with ⟨hq, ha⟩ | ha
            · rcases List.mem_cons.mp hq with heq | hq
              · have := complete_idx hok.1
                rw [heq, hgone] at this
                cases this
              · exact .inl ⟨hq, ha⟩
            · exact .inr ha
    | nil =>
      rw [htodo] at hB
      cases hd : r.disappeared with
      | true =>
        rw [step_scan_nil_disappeared hph htodo hd]
        exact rinv_nextAttempt hok hph hB
      | false =>
        cases hr : r.rescanned with
        | false =>
          rw [step_scan_nil_first hph htodo hd hr]
          split
          · rename_i hnew
            exfalso
            have hne : (rescan f r.cache).2 = [] := List.isEmpty_iff.mp hnew
            have key : ∀ p, f.complete p = true → c.x ∈ c.ids p → False := by
              intro p hc hx
              by_cases hpc : p ∈ r.cache
              · have := hK p hpc hx
                rw [htodo] at this
                cases this
              · have := complete_mem_new r.cache hc hpc
                rw [hne] at this
                cases this
            cases ph
            · obtain ⟨p, hc, hx⟩ := hok
              exact key p hc hx
            · exact key pstar hok.1 hok.2
          · exact rinv_nextAttempt hok hph hB
        | true =>
          exfalso
          rcases hL hr with ⟨q, hq, _⟩ | hdd
          · rw [htodo] at hq
            cases hq
          · rw [hd] at hdd
            cases hdd
  | needData p =>
    have h' := h
    unfold RInv at h'
    simp only [hph] at h'
    obtain ⟨⟨rest, htodo⟩, hx, hK, hD⟩ := h'
    cases hdata : f.data.contains p with
    | true =>
      have := step_needData_ok (c := c) hph hdata
      unfold RInv
      rw [this]
    | false =>
      rw [step_needData_gone hph hdata]
      unfold RInv evict
      simp only
      refine ⟨?_, fun _ => .inr rfl, ?_⟩
      · intro q hq hqx
        simp only [List.mem_filter, bne_iff_ne, ne_eq] at hq
        have := hK q hq.1 hqx
        rw [htodo] at this ⊢
        simp only [List.drop_succ_cons, List.drop_zero]
        rcases List.mem_cons.mp this with rfl | h
        · exact absurd rfl hq.2
        · exact h
      · rcases hD with ⟨_, hc, _⟩ | ⟨hB, hp⟩ | hbud
        · have := complete_data hc
          rw [hdata] at this
          cases this
        · subst hB
          have := complete_data hok.1
          rw [← hp, hdata] at this
          cases this
        · exact hbud

/-! ### against traces -/

theorem run_inv {c : Cfg} {pstar : Name} :
    ∀ (tr : List (EPhase × FS)) (e : EPhase × FS) (r : RState), Rely c pstar (e :: tr) → RInv c pstar e.1 e.2 r →
      ∃ e' : EPhase × FS, RInv c pstar e'.1 e'.2 (run c ((e :: tr).map (·.2)) r) := by
  intro tr
  induction tr with
  | nil =>
    intro e r hrely hinv
    exact ⟨e, rinv_step hinv hrely⟩
  | cons e' rest ih =>
    intro e r hrely hinv
    obtain ⟨hok, hstep, hrest⟩ := hrely
    have h1 := rinv_step hinv hok
    have h2 : RInv c pstar e'.1 e'.2 (step c e.2 r) := rinv_env (ph := e.1) (f := e.2) h1 hstep
    exact ih e' (step c e.2 r) hrest h2

/-- MAIN 1: against every environment trace satisfying the rely, from any cache (stale names allowed, anything already
loaded), the lookup never reports "missing". -/
theorem reader_never_misses (c : Cfg) (pstar : Name) (hN : 3 ≤ c.maxAttempts)
    (tr : List (EPhase × FS)) (hrely : Rely c pstar tr) (cache idxL dataL : List Name) (b : Bool)
    (hdone : (run c (tr.map (·.2)) (RState.init cache idxL dataL)).phase = .done b) : b = true := by
  cases tr with
  | nil => simp [run, RState.init] at hdone
  | cons e tr =>
    obtain ⟨e', h⟩ := run_inv tr e _ hrely (rinv_init c pstar hN e.1 e.2 cache idxL dataL)
    exact rinv_done h hdone

/-! ### the interleaved system -/

def ghostPhase (hd hi : Bool) : EPhase := if (hd && hi) = true then .B else .A

structure SInv (pstar : Name) (hd hi : Bool) (s : Sys) : Prop where
  prog : checkProgram pstar hd hi s.prog = true
  hdata : hd = true → s.fs.data.contains pstar = true
  hidx : hi = true → s.fs.idx.contains pstar = true
  readers : ∀ cr ∈ s.readers, cr.1.x ∈ cr.1.ids pstar ∧
    (ghostPhase hd hi = .A → ∃ p, s.fs.complete p = true ∧ cr.1.x ∈ cr.1.ids p) ∧
    RInv cr.1 pstar (ghostPhase hd hi) s.fs cr.2

theorem sinv_envOK {pstar : Name} {hd hi : Bool} {s : Sys} (h : SInv pstar hd hi s) {cr : Cfg × RState}
    (hcr : cr ∈ s.readers) : EnvOK cr.1 pstar (ghostPhase hd hi) s.fs := by
  obtain ⟨hx, hA, _⟩ := h.readers cr hcr
  cases hg : ghostPhase hd hi with
  | A => exact hA hg
  | B =>
    unfold ghostPhase at hg
    split at hg
    · rename_i hb
      simp only [Bool.and_eq_true] at hb
      refine ⟨?_, hx⟩
      unfold FS.complete
      simp only [Bool.and_eq_true]
      exact ⟨h.hidx hb.2, h.hdata hb.1⟩
    · cases hg

theorem mem_setAt {α : Type} {l : List α} {i : Nat} {a x : α} (h : x ∈ setAt l i a) : x = a ∨ x ∈ l := by
  induction l generalizing i with
  | nil => simp [setAt] at h
  | cons y ys ih =>
    cases i with
    | zero =>
      simp only [setAt, List.mem_cons] at h
      rcases h with h | h
      · exact .inl h
      · exact .inr (List.mem_cons_of_mem _ h)
    | succ n =>
      simp only [setAt, List.mem_cons] at h
      rcases h with h | h
      · exact .inr (by simp [h])
      · rcases ih h with h | h
        · exact .inl h
        · exact .inr (List.mem_cons_of_mem _ h)

/-- an environment step re-establishes the invariant -/
theorem sinv_env {pstar : Name} {hd hi hd' hi' : Bool} {s : Sys} {f' : FS} {rest : List Act}
    (h : SInv pstar hd hi s) (hprog : checkProgram pstar hd' hi' rest = true)
    (hdata : hd' = true → f'.data.contains pstar = true) (hidx : hi' = true → f'.idx.contains pstar = true)
    (hstep : EnvStep (ghostPhase hd hi, s.fs) (ghostPhase hd' hi', f')) :
    SInv pstar hd' hi' { s with fs := f', prog := rest } := by
  refine ⟨hprog, hdata, hidx, ?_⟩
  intro cr hcr
  obtain ⟨hx, hA, hinv⟩ := h.readers cr hcr
  refine ⟨hx, ?_, rinv_env hinv hstep⟩
  intro hg'
  cases hg : ghostPhase hd hi with
  | A =>
    obtain ⟨p, hc, hpx⟩ := hA hg
    rw [hg, hg'] at hstep
    exact ⟨p, hstep p hc, hpx⟩
  | B =>
    rw [hg, hg'] at hstep
    exact absurd hstep (by simp [EnvStep])

theorem complete_act_keep {f : FS} {a : Act} {q : Name}
    (ha : (∀ p, a ≠ .removeData p) ∧ (∀ p, a ≠ .removeIdx p)) (h : f.complete q = true) :
    (f.act a).complete q = true := by
  unfold FS.complete at *
  simp only [Bool.and_eq_true, List.contains_iff_mem] at *
  cases a with
  | installData p =>
    simp only [FS.act]
    refine ⟨h.1, ?_⟩
    split
    · exact h.2
    · exact List.mem_append_left _ h.2
  | installIdx p =>
    simp only [FS.act]
    refine ⟨?_, h.2⟩
    split
    · exact h.1
    · exact List.mem_append_left _ h.1
  | removeData p => exact absurd rfl (ha.1 p)
  | removeIdx p => exact absurd rfl (ha.2 p)
  | addLoose x => simpa [FS.act] using h
  | delLoose x => simpa [FS.act] using h

theorem ghostPhase_B {hd hi : Bool} (h : (hd && hi) = true) : ghostPhase hd hi = .B := by
  simp [ghostPhase, h]

theorem ghostPhase_A {hd hi : Bool} (h : (hd && hi) = false) : ghostPhase hd hi = .A := by
  simp [ghostPhase, h]

/-- environment steps that do not remove pack files -/
theorem envStep_keep {hd hi hd' hi' : Bool} {f : FS} {a : Act}
    (ha : (∀ p, a ≠ .removeData p) ∧ (∀ p, a ≠ .removeIdx p))
    (hmono : (hd && hi) = true → (hd' && hi') = true) :
    EnvStep (ghostPhase hd hi, f) (ghostPhase hd' hi', f.act a) := by
  cases h1 : (hd && hi) <;> cases h2 : (hd' && hi')
  · rw [ghostPhase_A h1, ghostPhase_A h2]
    intro p hp
    exact complete_act_keep ha hp
  · rw [ghostPhase_A h1, ghostPhase_B h2]; trivial
  · have := hmono h1; rw [h2] at this; cases this
  · rw [ghostPhase_B h1, ghostPhase_B h2]; trivial

theorem sched_inv {pstar : Name} {hd hi : Bool} {s : Sys} (h : SInv pstar hd hi s) (d : Option Nat) :
    ∃ hd' hi', SInv pstar hd' hi' (s.sched d) := by
  cases d with
  | some i =>
    refine ⟨hd, hi, ?_⟩
    unfold Sys.sched
    simp only
    split
    · exact h
    · rename_i cr hget
      have hcr : cr ∈ s.readers := List.mem_of_getElem? hget
      refine ⟨h.prog, h.hdata, h.hidx, ?_⟩
      intro cr' hcr'
      rcases mem_setAt hcr' with heq | hmem
      · obtain ⟨hx, hA, hinv⟩ := h.readers cr hcr
        subst heq
        exact ⟨hx, hA, rinv_step hinv (sinv_envOK (cr := cr) h hcr)⟩
      · exact h.readers cr' hmem
  | none =>
    unfold Sys.sched
    simp only
    split
    · exact ⟨hd, hi, h⟩
    · rename_i a rest hprog
      have hp := h.prog
      rw [hprog] at hp
      cases a with
      | installData p =>
        simp only [checkProgram] at hp
        refine ⟨hd || p == pstar, hi, sinv_env h hp ?_ ?_ (envStep_keep (by simp) ?_)⟩
        · intro hh
          simp only [FS.act]
          simp only [Bool.or_eq_true, beq_iff_eq] at hh
          rcases hh with hh | hh
          · have := h.hdata hh
            split
            · exact this
            · simp only [List.contains_iff_mem, List.mem_append] at this ⊢
              exact .inl this
          · subst hh
            split
            · rename_i hc; exact hc
            · simp
        · intro hh
          simpa [FS.act] using h.hidx hh
        · intro hb
          simp only [Bool.and_eq_true] at hb ⊢
          exact ⟨by simp [hb.1], hb.2⟩
      | installIdx p =>
        simp only [checkProgram] at hp
        refine ⟨hd, hi || p == pstar, sinv_env h hp ?_ ?_ (envStep_keep (by simp) ?_)⟩
        · intro hh
          simpa [FS.act] using h.hdata hh
        · intro hh
          simp only [FS.act]
          simp only [Bool.or_eq_true, beq_iff_eq] at hh
          rcases hh with hh | hh
          · have := h.hidx hh
            split
            · exact this
            · simp only [List.contains_iff_mem, List.mem_append] at this ⊢
              exact .inl this
          · subst hh
            split
            · rename_i hc; exact hc
            · simp
        · intro hb
          simp only [Bool.and_eq_true] at hb ⊢
          exact ⟨hb.1, by simp [hb.2]⟩
      | addLoose x =>
        simp only [checkProgram] at hp
        exact ⟨hd, hi, sinv_env h hp (fun hh => by simpa [FS.act] using h.hdata hh)
          (fun hh => by simpa [FS.act] using h.hidx hh) (envStep_keep (by simp) id)⟩
      | delLoose x =>
        simp only [checkProgram] at hp
        exact ⟨hd, hi, sinv_env h hp (fun hh => by simpa [FS.act] using h.hdata hh)
          (fun hh => by simpa [FS.act] using h.hidx hh) (envStep_keep (by simp) id)⟩
      | removeData p =>
        simp only [checkProgram, Bool.and_eq_true, bne_iff_ne, ne_eq] at hp
        obtain ⟨⟨⟨hhd, hhi⟩, hne⟩, hp⟩ := hp
        have hB : ghostPhase hd hi = .B := ghostPhase_B (by simp [hhd, hhi])
        refine ⟨hd, hi, sinv_env h hp ?_ ?_ (by rw [hB]; trivial)⟩
        · intro hh
          have := h.hdata hh
          simp only [FS.act, List.contains_iff_mem, List.mem_filter, bne_iff_ne, ne_eq] at this ⊢
          exact ⟨this, fun e => hne e.symm⟩
        · intro hh
          simpa [FS.act] using h.hidx hh
      | removeIdx p =>
        simp only [checkProgram, Bool.and_eq_true, bne_iff_ne, ne_eq] at hp
        obtain ⟨⟨⟨hhd, hhi⟩, hne⟩, hp⟩ := hp
        have hB : ghostPhase hd hi = .B := ghostPhase_B (by simp [hhd, hhi])
        refine ⟨hd, hi, sinv_env h hp ?_ ?_ (by rw [hB]; trivial)⟩
        · intro hh
          simpa [FS.act] using h.hdata hh
        · intro hh
          have := h.hidx hh
          simp only [FS.act, List.contains_iff_mem, List.mem_filter, bne_iff_ne, ne_eq] at this ⊢
          exact ⟨this, fun e => hne e.symm⟩

theorem exec_inv {pstar : Name} : ∀ (sched : List (Option Nat)) {hd hi : Bool} {s : Sys}, SInv pstar hd hi s →
    ∃ hd' hi', SInv pstar hd' hi' (s.exec sched) := by
  intro sched
  induction sched with
  | nil => intro hd hi s h; exact ⟨hd, hi, h⟩
  | cons d ds ih =>
    intro hd hi s h
    obtain ⟨hd1, hi1, h1⟩ := sched_inv h d
    exact ih h1

/-- MAIN 2: one repacker whose program passes `checkProgram` (the new pack `pstar` is installed before any removal and is
never removed), interleaved by ANY schedule with ANY number of readers, each looking up (with `get_raw` or
`__contains__`, from any cache) an object that is in a complete pack initially and in `pstar`: no reader ever reports
"missing", provided the lookup may make at least 3 passes. -/
theorem sys_readers_never_miss (pstar : Name) (prog : List Act) (hprog : checkProgram pstar false false prog = true)
    (f0 : FS) (readers : List (Cfg × RState))
    (hreaders : ∀ cr ∈ readers, 3 ≤ cr.1.maxAttempts ∧ cr.1.x ∈ cr.1.ids pstar ∧
        (∃ p, f0.complete p = true ∧ cr.1.x ∈ cr.1.ids p) ∧
        (∃ cache idxL dataL, cr.2 = RState.init cache idxL dataL))
    (sched : List (Option Nat)) :
    ∀ cr ∈ (Sys.exec { fs := f0, prog := prog, readers := readers } sched).readers,
      ∀ b, cr.2.phase = .done b → b = true := by
  have h0 : SInv pstar false false { fs := f0, prog := prog, readers := readers } := by
    refine ⟨hprog, by simp, by simp, ?_⟩
    intro cr hcr
    obtain ⟨hN, hx, hh, cache, il, dl, hinit⟩ := hreaders cr hcr
    refine ⟨hx, fun _ => hh, ?_⟩
    rw [hinit]
    exact rinv_init cr.1 pstar hN _ _ cache il dl
  obtain ⟨hd, hi, hfin⟩ := exec_inv sched h0
  intro cr hcr b hb
  exact rinv_done (hfin.readers cr hcr).2.2 hb

end Dulwich.Reader
