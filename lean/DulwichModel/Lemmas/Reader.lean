/-
  Lemmas about the concurrent reader model (`Model/Reader.lean`): a rely/guarantee invariant showing that a lookup
  never reports "missing" for an object that stays in a complete pack, against any environment that installs the new
  pack before removing old ones.
-/
import DulwichModel.Model.Reader
namespace Dulwich.Reader

/-- ghost phase of the environment: `A` = no pack file has been removed yet; `B` = the stable pack `pstar` is complete,
forever -/
inductive EPhase where
  | A | B
  deriving DecidableEq, Repr

/-- the object looked up by `c` is in a complete PACK: some pack (phase A) / the stable pack (phase B) -/
def HoldOK (c : Cfg) (pstar : Name) : EPhase → FS → Prop
  | .A, f => ∃ p, f.complete p = true ∧ c.x ∈ c.ids p
  | .B, f => f.complete pstar = true ∧ c.x ∈ c.ids pstar

/-- allowed evolution of the environment between two observations by a reader (transitively closed by construction) -/
def PackStep : EPhase × FS → EPhase × FS → Prop
  | (.A, f), (.A, f') => ∀ p, f.complete p = true → f'.complete p = true
  | (.A, _), (.B, _) => True
  | (.B, _), (.B, _) => True
  | (.B, _), (.A, _) => False

/-- passes still available suffice: see the case analysis in `pinv_step` -/
def Budget (c : Cfg) (pstar : Name) (ph : EPhase) (f : FS) (a : Nat) (td : List Name) : Prop :=
  match ph with
  | .B => (pstar ∈ td ∧ a < c.maxAttempts) ∨ a + 1 < c.maxAttempts
  | .A => ((∃ p ∈ td, c.x ∈ c.ids p ∧ f.complete p = true) ∧ a + 1 < c.maxAttempts) ∨ a + 2 < c.maxAttempts

/-- every pack of the cache that holds the object is still to be probed in this pass -/
def KInv (c : Cfg) (r : RState) : Prop := ∀ q ∈ r.cache, c.x ∈ c.ids q → q ∈ r.todo

/-- after a rescan, a holder is still to be probed or a disappearance has been recorded -/
def LInv (c : Cfg) (r : RState) : Prop :=
  r.rescanned = true → (∃ q ∈ r.todo, c.x ∈ c.ids q) ∨ r.disappeared = true

/-- the invariant of one run of `_lookup_in_packs` while the object is in a complete pack: it cannot raise `KeyError` -/
def PInv (c : Cfg) (pstar : Name) (ph : EPhase) (f : FS) (r : RState) : Prop :=
  match r.phase with
  | .done b => b = true
  | .loose => False
  | .alts => False
  | .scan => KInv c r ∧ LInv c r ∧ Budget c pstar ph f r.attempt r.todo
  | .needData p =>
    (∃ rest, r.todo = p :: rest) ∧ c.x ∈ c.ids p ∧ KInv c r ∧
      ((ph = .A ∧ f.complete p = true ∧ r.attempt + 1 < c.maxAttempts) ∨ (ph = .B ∧ p = pstar) ∨
        Budget c pstar ph f r.attempt (r.todo.drop 1))

theorem complete_idx {f : FS} {p : Name} (h : f.complete p = true) : f.idx.contains p = true := by
  unfold FS.complete at h
  simp only [Bool.and_eq_true] at h
  exact h.1

theorem complete_data {f : FS} {p : Name} (h : f.complete p = true) : f.data.contains p = true := by
  unfold FS.complete at h
  simp only [Bool.and_eq_true] at h
  exact h.2

theorem complete_mem_visible {f : FS} {p : Name} (h : f.complete p = true) : p ∈ f.visible := by
  have h1 := complete_idx h
  have h2 := complete_data h
  unfold FS.visible
  simp only [List.mem_filter]
  exact ⟨by simpa using h2, h1⟩

theorem complete_mem_rescan {f : FS} {p : Name} (cache : List Name) (h : f.complete p = true) :
    p ∈ (rescan f cache).1 := by
  have hv := complete_mem_visible h
  unfold rescan
  simp only [List.mem_append, List.mem_filter]
  by_cases hc : p ∈ cache
  · exact .inl ⟨hc, by simpa using hv⟩
  · exact .inr ⟨hv, by simpa using hc⟩

theorem complete_mem_new {f : FS} {p : Name} (cache : List Name) (h : f.complete p = true) (hc : p ∉ cache) :
    p ∈ (rescan f cache).2 := by
  have hv := complete_mem_visible h
  unfold rescan
  simp only [List.mem_filter]
  exact ⟨hv, by simpa using hc⟩

theorem budget_env {c : Cfg} {pstar : Name} {ph ph' : EPhase} {f f' : FS} {a : Nat} {td : List Name}
    (h : Budget c pstar ph f a td) (hs : PackStep (ph, f) (ph', f')) : Budget c pstar ph' f' a td := by
  cases ph <;> cases ph'
  · -- A → A
    unfold Budget at *
    simp only at *
    rcases h with ⟨⟨p, hp, hx, hc⟩, ha⟩ | ha
    · exact .inl ⟨⟨p, hp, hx, hs p hc⟩, ha⟩
    · exact .inr ha
  · -- A → B
    unfold Budget at *
    simp only at *
    rcases h with ⟨_, ha⟩ | ha
    · exact .inr ha
    · exact .inr (by omega)
  · exact absurd hs (by simp [PackStep])
  · unfold Budget at *
    simp only at *
    exact h

theorem pinv_env {c : Cfg} {pstar : Name} {ph : EPhase} {f : FS} {ph' : EPhase} {f' : FS} {r : RState}
    (h : PInv c pstar ph f r) (hs : PackStep (ph, f) (ph', f')) : PInv c pstar ph' f' r := by
  unfold PInv at *
  split
  · rename_i b hb; simp only [hb] at h; exact h
  · rename_i hb; simp only [hb] at h
  · rename_i hb; simp only [hb] at h
  · rename_i hb
    simp only [hb] at h
    exact ⟨h.1, h.2.1, budget_env h.2.2 hs⟩
  · rename_i p hb
    simp only [hb] at h
    obtain ⟨h1, h2, h3, h4⟩ := h
    refine ⟨h1, h2, h3, ?_⟩
    rcases h4 with ⟨hA, hc, ha⟩ | ⟨hB, hp⟩ | hbud
    · subst hA
      cases ph'
      · exact .inl ⟨rfl, hs p hc, ha⟩
      · exact .inr (.inr (by unfold Budget; simp only; exact .inr ha))
    · subst hB
      cases ph'
      · exact absurd hs (by simp [PackStep])
      · exact .inr (.inl ⟨rfl, hp⟩)
    · exact .inr (.inr (budget_env hbud hs))

theorem pinv_init (c : Cfg) (pstar : Name) (hN : 3 ≤ c.maxAttempts) (ph : EPhase) (f : FS)
    (cache idxL dataL : List Name) : PInv c pstar ph f (RState.init cache idxL dataL) := by
  unfold PInv RState.init
  simp only
  refine ⟨fun q hq _ => hq, fun h => by simp at h, ?_⟩
  unfold Budget
  cases ph <;> simp only <;> right <;> omega

theorem pinv_done {c : Cfg} {pstar : Name} {ph : EPhase} {f : FS} {r : RState} {b : Bool}
    (h : PInv c pstar ph f r) (hd : r.phase = .done b) : b = true := by
  unfold PInv at h
  simp only [hd] at h
  exact h

/-- a new pass after a rescan in an environment where a holder is complete -/
theorem pinv_nextAttempt {c : Cfg} {pstar : Name} {ph : EPhase} {f : FS} {r : RState}
    (hok : HoldOK c pstar ph f) (hscan : r.phase = .scan)
    (hbud : Budget c pstar ph f r.attempt []) :
    PInv c pstar ph f (nextAttempt c (withCache r (rescan f r.cache).1)) := by
  have ha : r.attempt + 1 < c.maxAttempts := by
    unfold Budget at hbud
    cases ph <;> simp only at hbud
    · rcases hbud with ⟨⟨p, hp, _⟩, _⟩ | h
      · cases hp
      · omega
    · rcases hbud with ⟨hp, _⟩ | h
      · cases hp
      · exact h
  unfold nextAttempt withCache
  simp only [ha, if_true]
  unfold PInv
  simp only [hscan]
  refine ⟨fun q hq _ => hq, ?_, ?_⟩
  · intro _
    left
    cases ph
    · obtain ⟨p, hc, hx⟩ := hok
      exact ⟨p, complete_mem_rescan _ hc, hx⟩
    · exact ⟨pstar, complete_mem_rescan _ hok.1, hok.2⟩
  · unfold Budget
    cases ph <;> simp only
    · obtain ⟨p, hc, hx⟩ := hok
      left
      refine ⟨⟨p, complete_mem_rescan _ hc, hx, hc⟩, ?_⟩
      unfold Budget at hbud
      simp only at hbud
      rcases hbud with ⟨⟨p, hp, _⟩, _⟩ | h
      · cases hp
      · omega
    · exact .inl ⟨complete_mem_rescan _ hok.1, ha⟩

/-! ### `step` case by case -/

theorem step_done {c : Cfg} {f : FS} {r : RState} {b : Bool} (hph : r.phase = .done b) : step c f r = r := by
  simp [step, hph]

theorem step_scan_hit {c : Cfg} {f : FS} {r : RState} {p : Name} {rest : List Name}
    (hph : r.phase = .scan) (htodo : r.todo = p :: rest)
    (hidx : (r.idxLoaded.contains p || f.idx.contains p) = true) (hx : (c.ids p).contains c.x = true) :
    step c f r =
      if (!c.needData || r.dataLoaded.contains p) = true then
        { r with idxLoaded := if r.idxLoaded.contains p then r.idxLoaded else p :: r.idxLoaded, phase := .done true }
      else
        { r with idxLoaded := if r.idxLoaded.contains p then r.idxLoaded else p :: r.idxLoaded, phase := .needData p } := by
  simp only [step, hph, htodo, hidx, hx, if_true]

theorem step_scan_miss {c : Cfg} {f : FS} {r : RState} {p : Name} {rest : List Name}
    (hph : r.phase = .scan) (htodo : r.todo = p :: rest)
    (hidx : (r.idxLoaded.contains p || f.idx.contains p) = true) (hx : (c.ids p).contains c.x = false) :
    step c f r =
      { r with idxLoaded := if r.idxLoaded.contains p then r.idxLoaded else p :: r.idxLoaded, todo := rest } := by
  simp only [step, hph, htodo, hidx, hx, if_true]
  simp

theorem step_scan_gone {c : Cfg} {f : FS} {r : RState} {p : Name} {rest : List Name}
    (hph : r.phase = .scan) (htodo : r.todo = p :: rest)
    (hidx : (r.idxLoaded.contains p || f.idx.contains p) = false) :
    step c f r = { evict r p with todo := rest, disappeared := true } := by
  simp only [step, hph, htodo, hidx]
  simp

theorem step_scan_nil_disappeared {c : Cfg} {f : FS} {r : RState}
    (hph : r.phase = .scan) (htodo : r.todo = []) (hd : r.disappeared = true) :
    step c f r = nextAttempt c (withCache r (rescan f r.cache).1) := by
  simp only [step, hph, htodo, hd, if_true]

theorem step_scan_nil_first {c : Cfg} {f : FS} {r : RState}
    (hph : r.phase = .scan) (htodo : r.todo = []) (hd : r.disappeared = false) (hr : r.rescanned = false) :
    step c f r =
      if (rescan f r.cache).2.isEmpty = true then { withCache r (rescan f r.cache).1 with phase := afterPacks r }
      else nextAttempt c (withCache r (rescan f r.cache).1) := by
  simp only [step, hph, htodo, hd, hr]
  simp

theorem step_scan_nil_rescanned {c : Cfg} {f : FS} {r : RState}
    (hph : r.phase = .scan) (htodo : r.todo = []) (hd : r.disappeared = false) (hr : r.rescanned = true) :
    step c f r = { r with phase := afterPacks r } := by
  simp only [step, hph, htodo, hd, hr]
  simp

theorem step_needData_ok {c : Cfg} {f : FS} {r : RState} {p : Name}
    (hph : r.phase = .needData p) (hdata : f.data.contains p = true) :
    (step c f r).phase = .done true := by
  have hm : p ∈ f.data := by simpa using hdata
  simp [step, hph, hm]

theorem step_needData_gone {c : Cfg} {f : FS} {r : RState} {p : Name}
    (hph : r.phase = .needData p) (hdata : f.data.contains p = false) :
    step c f r = { evict r p with todo := r.todo.drop 1, disappeared := true, phase := .scan } := by
  have hm : p ∉ f.data := by simpa using hdata
  simp [step, hph, hm]

theorem pinv_step {c : Cfg} {pstar : Name} {ph : EPhase} {f : FS} {r : RState}
    (h : PInv c pstar ph f r) (hok : HoldOK c pstar ph f) : PInv c pstar ph f (step c f r) := by
  cases hph : r.phase with
  | done b => rw [step_done hph]; exact h
  | loose => unfold PInv at h; simp only [hph] at h
  | alts => unfold PInv at h; simp only [hph] at h
  | scan =>
    have h' := h
    unfold PInv at h'
    simp only [hph] at h'
    obtain ⟨hK, hL, hB⟩ := h'
    cases htodo : r.todo with
    | cons p rest =>
      cases hidx : (r.idxLoaded.contains p || f.idx.contains p) with
      | true =>
        cases hx : (c.ids p).contains c.x with
        | true =>
          have hx' : c.x ∈ c.ids p := by simpa using hx
          rw [step_scan_hit hph htodo hidx hx]
          split
          · unfold PInv; simp
          · unfold PInv
            simp only
            refine ⟨⟨rest, htodo⟩, hx', ?_, ?_⟩
            · intro q hq hqx
              exact hK q hq hqx
            · rw [htodo] at hB
              rw [htodo]
              simp only [List.drop_succ_cons, List.drop_zero]
              unfold Budget at hB ⊢
              cases ph <;> simp only at hB ⊢
              · rcases hB with ⟨⟨q, hq, hqx, hqc⟩, ha⟩ | ha
                · rcases List.mem_cons.mp hq with rfl | hq
                  · exact .inl ⟨trivial, hqc, ha⟩
                  · exact .inr (.inr (.inl ⟨⟨q, hq, hqx, hqc⟩, ha⟩))
                · exact .inr (.inr (.inr ha))
              · rcases hB with ⟨hq, ha⟩ | ha
                · rcases List.mem_cons.mp hq with rfl | hq
                  · exact .inr (.inl ⟨trivial, rfl⟩)
                  · exact .inr (.inr (.inl ⟨hq, ha⟩))
                · exact .inr (.inr (.inr ha))
        | false =>
          have hx' : c.x ∉ c.ids p := by simpa using hx
          rw [step_scan_miss hph htodo hidx hx]
          unfold PInv
          simp only [hph]
          refine ⟨?_, ?_, ?_⟩
          · intro q hq hqx
            have := hK q hq hqx
            rw [htodo] at this
            rcases List.mem_cons.mp this with rfl | h
            · exact absurd hqx hx'
            · exact h
          · intro hr
            rcases hL hr with ⟨q, hq, hqx⟩ | hd
            · rw [htodo] at hq
              rcases List.mem_cons.mp hq with rfl | hq
              · exact absurd hqx hx'
              · exact .inl ⟨q, hq, hqx⟩
            · exact .inr hd
          · rw [htodo] at hB
            unfold Budget at hB ⊢
            cases ph <;> simp only at hB ⊢
            · rcases hB with ⟨⟨q, hq, hqx, hqc⟩, ha⟩ | ha
              · rcases List.mem_cons.mp hq with rfl | hq
                · exact absurd hqx hx'
                · exact .inl ⟨⟨q, hq, hqx, hqc⟩, ha⟩
              · exact .inr ha
            · rcases hB with ⟨hq, ha⟩ | ha
              · rcases List.mem_cons.mp hq with heq | hq
                · exact absurd (heq ▸ hok.2) hx'
                · exact .inl ⟨hq, ha⟩
              · exact .inr ha
      | false =>
        have hgone : f.idx.contains p = false := by
          simp only [Bool.or_eq_false_iff] at hidx
          exact hidx.2
        rw [step_scan_gone hph htodo hidx]
        unfold PInv evict
        simp only [hph]
        refine ⟨?_, fun _ => .inr rfl, ?_⟩
        · intro q hq hqx
          simp only [List.mem_filter, bne_iff_ne, ne_eq] at hq
          have := hK q hq.1 hqx
          rw [htodo] at this
          rcases List.mem_cons.mp this with rfl | h
          · exact absurd rfl hq.2
          · exact h
        · rw [htodo] at hB
          unfold Budget at hB ⊢
          cases ph <;> simp only at hB ⊢
          · rcases hB with ⟨⟨q, hq, hqx, hqc⟩, ha⟩ | ha
            · rcases List.mem_cons.mp hq with rfl | hq
              · have := complete_idx hqc
                rw [hgone] at this
                cases this
              · exact .inl ⟨⟨q, hq, hqx, hqc⟩, ha⟩
            · exact .inr ha
          · rcases hB with ⟨hq, ha⟩ | ha
            · rcases List.mem_cons.mp hq with heq | hq
              · have := complete_idx hok.1
                rw [heq, hgone] at this
                cases this
              · exact .inl ⟨hq, ha⟩
            · exact .inr ha
    | nil =>
      rw [htodo] at hB
      cases hd : r.disappeared with
      | true =>
        rw [step_scan_nil_disappeared hph htodo hd]
        exact pinv_nextAttempt hok hph hB
      | false =>
        cases hr : r.rescanned with
        | false =>
          rw [step_scan_nil_first hph htodo hd hr]
          split
          · rename_i hnew
            exfalso
            have hne : (rescan f r.cache).2 = [] := List.isEmpty_iff.mp hnew
            have key : ∀ p, f.complete p = true → c.x ∈ c.ids p → False := by
              intro p hc hx
              by_cases hpc : p ∈ r.cache
              · have := hK p hpc hx
                rw [htodo] at this
                cases this
              · have := complete_mem_new r.cache hc hpc
                rw [hne] at this
                cases this
            cases ph
            · obtain ⟨p, hc, hx⟩ := hok
              exact key p hc hx
            · exact key pstar hok.1 hok.2
          · exact pinv_nextAttempt hok hph hB
        | true =>
          exfalso
          rcases hL hr with ⟨q, hq, _⟩ | hdd
          · rw [htodo] at hq
            cases hq
          · rw [hd] at hdd
            cases hdd
  | needData p =>
    have h' := h
    unfold PInv at h'
    simp only [hph] at h'
    obtain ⟨⟨rest, htodo⟩, hx, hK, hD⟩ := h'
    cases hdata : f.data.contains p with
    | true =>
      have := step_needData_ok (c := c) hph hdata
      unfold PInv
      rw [this]
    | false =>
      rw [step_needData_gone hph hdata]
      unfold PInv evict
      simp only
      refine ⟨?_, fun _ => .inr rfl, ?_⟩
      · intro q hq hqx
        simp only [List.mem_filter, bne_iff_ne, ne_eq] at hq
        have := hK q hq.1 hqx
        rw [htodo] at this ⊢
        simp only [List.drop_succ_cons, List.drop_zero]
        rcases List.mem_cons.mp this with rfl | h
        · exact absurd rfl hq.2
        · exact h
      · rcases hD with ⟨_, hc, _⟩ | ⟨hB, hp⟩ | hbud
        · have := complete_data hc
          rw [hdata] at this
          cases this
        · subst hB
          have := complete_data hok.1
          rw [← hp, hdata] at this
          cases this
        · exact hbud

/-! ## The full lookup (`get_raw` / `__contains__` with the re-probe): objects that move from loose to a pack included -/

/-- the object looked up by `c` exists: in a complete pack or as a loose file (phase A) / in the stable pack (phase B) -/
def EnvOK (c : Cfg) (pstar : Name) : EPhase → FS → Prop
  | .A, f => (∃ p, f.complete p = true ∧ c.x ∈ c.ids p) ∨ c.x ∈ f.loose
  | .B, f => f.complete pstar = true ∧ c.x ∈ c.ids pstar

/-- allowed evolution of the environment between two observations by the reader: while nothing has been removed
(phase A) complete packs stay complete and the loose file of the object stays; once the stable pack is complete (phase B)
anything else may go -/
def EnvStep (c : Cfg) : EPhase × FS → EPhase × FS → Prop
  | (.A, f), (.A, f') => (∀ p, f.complete p = true → f'.complete p = true) ∧ (c.x ∈ f.loose → c.x ∈ f'.loose)
  | (.A, _), (.B, _) => True
  | (.B, _), (.B, _) => True
  | (.B, _), (.A, _) => False

/-- a trace of (ghost phase, file system) pairs as seen at the reader's successive steps -/
def Rely (c : Cfg) (pstar : Name) : List (EPhase × FS) → Prop
  | [] => True
  | [e] => EnvOK c pstar e.1 e.2
  | e :: e' :: rest => EnvOK c pstar e.1 e.2 ∧ EnvStep c e e' ∧ Rely c pstar (e' :: rest)

theorem envStep_pack {c : Cfg} {ph ph' : EPhase} {f f' : FS} (h : EnvStep c (ph, f) (ph', f')) :
    PackStep (ph, f) (ph', f') := by
  cases ph <;> cases ph'
  · exact h.1
  · trivial
  · exact h
  · trivial

theorem envStep_not_BA {c : Cfg} {f f' : FS} (h : EnvStep c (.B, f) (.A, f')) : False := h

/-- invariant of the two runs of `_lookup_in_packs` inside one lookup -/
def LookInv (c : Cfg) (pstar : Name) (ph : EPhase) (f : FS) (r : RState) : Prop :=
  if r.reprobed = true then ph = .B ∧ PInv c pstar .B f r
  else ph = .B ∨ c.x ∈ f.loose ∨ (ph = .A ∧ PInv c pstar .A f r)

/-- the reader invariant -/
def RInv (c : Cfg) (pstar : Name) (ph : EPhase) (f : FS) (r : RState) : Prop :=
  match r.phase with
  | .done b => b = true
  | .loose => r.reprobed = false ∧ (ph = .B ∨ c.x ∈ f.loose)
  | .alts => r.reprobed = false ∧ ph = .B
  | .scan => LookInv c pstar ph f r
  | .needData _ => LookInv c pstar ph f r

theorem rinv_done {c : Cfg} {pstar : Name} {ph : EPhase} {f : FS} {r : RState} {b : Bool}
    (h : RInv c pstar ph f r) (hd : r.phase = .done b) : b = true := by
  unfold RInv at h
  simp only [hd] at h
  exact h

theorem rinv_init (c : Cfg) (pstar : Name) (hN : 3 ≤ c.maxAttempts) (ph : EPhase) (f : FS)
    (cache idxL dataL : List Name) : RInv c pstar ph f (RState.init cache idxL dataL) := by
  have hp := pinv_init c pstar hN .A f cache idxL dataL
  unfold RInv
  simp only [RState.init]
  unfold LookInv
  simp only [Bool.false_eq_true, if_false]
  cases ph
  · exact .inr (.inr ⟨rfl, hp⟩)
  · exact .inl rfl

/-- what one step of a `_lookup_in_packs` run can lead to -/
theorem step_lookup_shape {c : Cfg} {f : FS} {r : RState} (hl : r.phase = .scan ∨ ∃ p, r.phase = .needData p) :
    (step c f r).reprobed = r.reprobed ∧
    ((step c f r).phase = .scan ∨ (∃ p, (step c f r).phase = .needData p) ∨ (step c f r).phase = .done true ∨
      (step c f r).phase = afterPacks r) := by
  rcases hl with hph | ⟨p, hph⟩
  · cases htodo : r.todo with
    | cons p rest =>
      cases hidx : (r.idxLoaded.contains p || f.idx.contains p) with
      | true =>
        cases hx : (c.ids p).contains c.x with
        | true =>
          rw [step_scan_hit hph htodo hidx hx]
          split
          · exact ⟨rfl, .inr (.inr (.inl rfl))⟩
          · exact ⟨rfl, .inr (.inl ⟨p, rfl⟩)⟩
        | false =>
          rw [step_scan_miss hph htodo hidx hx]
          exact ⟨rfl, .inl hph⟩
      | false =>
        rw [step_scan_gone hph htodo hidx]
        exact ⟨rfl, .inl hph⟩
    | nil =>
      have hna : ∀ r' : RState, r'.phase = .scan → r'.reprobed = r.reprobed →
          (nextAttempt c r').reprobed = r.reprobed ∧ ((nextAttempt c r').phase = .scan ∨
            (nextAttempt c r').phase = afterPacks r) := by
        intro r' hp hr
        unfold nextAttempt
        split
        · exact ⟨hr, .inl hp⟩
        · refine ⟨hr, .inr ?_⟩
          simp only [afterPacks, hr]
      cases hd : r.disappeared with
      | true =>
        rw [step_scan_nil_disappeared hph htodo hd]
        obtain ⟨h1, h2⟩ := hna (withCache r (rescan f r.cache).1) hph rfl
        exact ⟨h1, h2.elim .inl (fun h => .inr (.inr (.inr h)))⟩
      | false =>
        cases hr : r.rescanned with
        | false =>
          rw [step_scan_nil_first hph htodo hd hr]
          split
          · exact ⟨rfl, .inr (.inr (.inr rfl))⟩
          · obtain ⟨h1, h2⟩ := hna (withCache r (rescan f r.cache).1) hph rfl
            exact ⟨h1, h2.elim .inl (fun h => .inr (.inr (.inr h)))⟩
        | true =>
          rw [step_scan_nil_rescanned hph htodo hd hr]
          exact ⟨rfl, .inr (.inr (.inr rfl))⟩
  · cases hdata : f.data.contains p with
    | true =>
      have hm : p ∈ f.data := by simpa using hdata
      refine ⟨by simp [step, hph, hm], .inr (.inr (.inl (step_needData_ok hph hdata)))⟩
    | false =>
      rw [step_needData_gone hph hdata]
      exact ⟨rfl, .inl rfl⟩

/-- a `PInv` state is in a lookup phase or finished with "found" -/
theorem pinv_phase {c : Cfg} {pstar : Name} {ph : EPhase} {f : FS} {r : RState} (h : PInv c pstar ph f r) :
    r.phase = .scan ∨ (∃ p, r.phase = .needData p) ∨ r.phase = .done true := by
  unfold PInv at h
  cases hp : r.phase with
  | done b => simp only [hp] at h; subst h; exact .inr (.inr rfl)
  | loose => simp only [hp] at h
  | alts => simp only [hp] at h
  | scan => exact .inl rfl
  | needData p => exact .inr (.inl ⟨p, rfl⟩)

theorem rinv_of_pinv {c : Cfg} {pstar : Name} {ph : EPhase} {f : FS} {r : RState}
    (hp : PInv c pstar ph f r) (hl : LookInv c pstar ph f r) : RInv c pstar ph f r := by
  unfold RInv
  rcases pinv_phase hp with h | ⟨p, h⟩ | h
  · simp only [h]; exact hl
  · simp only [h]; exact hl
  · simp only [h]

theorem holdOK_B {c : Cfg} {pstar : Name} {f : FS} (h : EnvOK c pstar .B f) : HoldOK c pstar .B f := h

theorem rinv_step {c : Cfg} {pstar : Name} {ph : EPhase} {f : FS} {r : RState} (hN : 3 ≤ c.maxAttempts)
    (hre : c.reprobe = true) (h : RInv c pstar ph f r) (hok : EnvOK c pstar ph f) :
    RInv c pstar ph f (step c f r) := by
  -- the two lookup phases are handled alike
  have lookup : (r.phase = .scan ∨ ∃ p, r.phase = .needData p) → LookInv c pstar ph f r →
      RInv c pstar ph f (step c f r) := by
    intro hl hinv
    obtain ⟨hrep, hshape⟩ := step_lookup_shape (c := c) (f := f) hl
    unfold LookInv at hinv
    by_cases hr : r.reprobed = true
    · simp only [hr, if_true] at hinv
      obtain ⟨hB, hp⟩ := hinv
      subst hB
      have hp' := pinv_step hp (holdOK_B hok)
      refine rinv_of_pinv hp' ?_
      unfold LookInv
      simp only [hrep, hr, if_true]
      exact ⟨by first | rfl | trivial, hp'⟩
    · have hr' : r.reprobed = false := by simpa using hr
      simp only [hr', Bool.false_eq_true, if_false] at hinv
      -- generic case: anything may happen, but the loose probe / the re-probe is still ahead
      have generic : (ph = .B ∨ c.x ∈ f.loose) → RInv c pstar ph f (step c f r) := by
        intro hg
        have hL : LookInv c pstar ph f (step c f r) := by
          unfold LookInv
          simp only [hrep, hr', Bool.false_eq_true, if_false]
          rcases hg with h | h
          · exact .inl h
          · exact .inr (.inl h)
        unfold RInv
        rcases hshape with h | ⟨p, h⟩ | h | h
        · simp only [h]; exact hL
        · simp only [h]; exact hL
        · simp only [h]
        · simp only [h, afterPacks, hr', Bool.false_eq_true, if_false]
          exact ⟨hrep.trans hr', hg⟩
      rcases hinv with hB | hloose | ⟨hA, hp⟩
      · exact generic (.inl hB)
      · exact generic (.inr hloose)
      · by_cases hlo : c.x ∈ f.loose
        · exact generic (.inr hlo)
        · subst hA
          have hhold : HoldOK c pstar .A f := by
            rcases hok with h | h
            · exact h
            · exact absurd h hlo
          have hp' := pinv_step hp hhold
          refine rinv_of_pinv hp' ?_
          unfold LookInv
          simp only [hrep, hr', Bool.false_eq_true, if_false]
          exact .inr (.inr ⟨by first | rfl | trivial, hp'⟩)
  cases hph : r.phase with
  | done b => rw [step_done hph]; exact h
  | scan =>
    unfold RInv at h
    simp only [hph] at h
    exact lookup (.inl hph) h
  | needData p =>
    unfold RInv at h
    simp only [hph] at h
    exact lookup (.inr ⟨p, hph⟩) h
  | loose =>
    unfold RInv at h
    simp only [hph] at h
    obtain ⟨hr, hg⟩ := h
    by_cases hlo : c.x ∈ f.loose
    · have : (step c f r).phase = .done true := by simp [step, hph, hlo]
      unfold RInv
      simp only [this]
    · have e : step c f r = { r with phase := .alts } := by simp [step, hph, hlo]
      rw [e]
      unfold RInv
      simp only
      refine ⟨hr, ?_⟩
      rcases hg with h | h
      · exact h
      · exact absurd h hlo
  | alts =>
    unfold RInv at h
    simp only [hph] at h
    obtain ⟨hr, hB⟩ := h
    subst hB
    by_cases ha : c.x ∈ c.alts
    · have : (step c f r).phase = .done true := by simp [step, hph, ha]
      unfold RInv
      simp only [this]
    · have e : step c f r =
          { r with attempt := 0, rescanned := false, disappeared := false, todo := r.cache, phase := .scan, reprobed := true } := by
        simp [step, hph, ha, hre, hr]
      rw [e]
      unfold RInv
      simp only
      unfold LookInv
      simp only [if_true]
      refine ⟨by first | rfl | trivial, ?_⟩
      unfold PInv
      simp only
      refine ⟨fun q hq _ => hq, fun hh => by simp at hh, ?_⟩
      unfold Budget
      simp only
      exact .inr (by omega)

theorem rinv_env {c : Cfg} {pstar : Name} {ph : EPhase} {f : FS} {ph' : EPhase} {f' : FS} {r : RState}
    (h : RInv c pstar ph f r) (hs : EnvStep c (ph, f) (ph', f')) : RInv c pstar ph' f' r := by
  have look : LookInv c pstar ph f r → LookInv c pstar ph' f' r := by
    intro hl
    unfold LookInv at hl ⊢
    by_cases hr : r.reprobed = true
    · simp only [hr, if_true] at hl ⊢
      obtain ⟨hB, hp⟩ := hl
      subst hB
      cases ph'
      · exact absurd hs (fun h => envStep_not_BA h)
      · exact ⟨rfl, pinv_env hp (envStep_pack hs)⟩
    · have hr' : r.reprobed = false := by simpa using hr
      simp only [hr', Bool.false_eq_true, if_false] at hl ⊢
      cases ph <;> cases ph'
      · rcases hl with h | h | ⟨_, hp⟩
        · cases h
        · exact .inr (.inl (hs.2 h))
        · exact .inr (.inr ⟨rfl, pinv_env hp (envStep_pack hs)⟩)
      · exact .inl rfl
      · exact absurd hs (fun h => envStep_not_BA h)
      · exact .inl rfl
  unfold RInv at h ⊢
  cases hph : r.phase with
  | done b => simp only [hph] at h ⊢; exact h
  | scan => simp only [hph] at h ⊢; exact look h
  | needData p => simp only [hph] at h ⊢; exact look h
  | loose =>
    simp only [hph] at h ⊢
    refine ⟨h.1, ?_⟩
    cases ph <;> cases ph'
    · rcases h.2 with h | h
      · cases h
      · exact .inr (hs.2 h)
    · exact .inl rfl
    · exact absurd hs (fun h => envStep_not_BA h)
    · exact .inl rfl
  | alts =>
    simp only [hph] at h ⊢
    refine ⟨h.1, ?_⟩
    obtain ⟨_, hB⟩ := h
    subst hB
    cases ph'
    · exact absurd hs (fun h => envStep_not_BA h)
    · rfl

/-! ### against traces -/

theorem run_inv {c : Cfg} {pstar : Name} (hN : 3 ≤ c.maxAttempts) (hre : c.reprobe = true) :
    ∀ (tr : List (EPhase × FS)) (e : EPhase × FS) (r : RState), Rely c pstar (e :: tr) → RInv c pstar e.1 e.2 r →
      ∃ e' : EPhase × FS, RInv c pstar e'.1 e'.2 (run c ((e :: tr).map (·.2)) r) := by
  intro tr
  induction tr with
  | nil =>
    intro e r hrely hinv
    exact ⟨e, rinv_step hN hre hinv hrely⟩
  | cons e' rest ih =>
    intro e r hrely hinv
    obtain ⟨hok, hstep, hrest⟩ := hrely
    have h1 := rinv_step hN hre hinv hok
    have h2 : RInv c pstar e'.1 e'.2 (step c e.2 r) := rinv_env (ph := e.1) (f := e.2) h1 hstep
    exact ih e' (step c e.2 r) hrest h2

/-- MAIN 1: against every environment trace satisfying the rely (the object is always in a complete pack or loose; no
pack file and not its loose file is removed before the stable pack is complete), from any cache, the lookup with the
re-probe never reports "missing". -/
theorem reader_never_misses (c : Cfg) (pstar : Name) (hN : 3 ≤ c.maxAttempts) (hre : c.reprobe = true)
    (tr : List (EPhase × FS)) (hrely : Rely c pstar tr) (cache idxL dataL : List Name) (b : Bool)
    (hdone : (run c (tr.map (·.2)) (RState.init cache idxL dataL)).phase = .done b) : b = true := by
  cases tr with
  | nil => simp [run, RState.init] at hdone
  | cons e tr =>
    obtain ⟨e', h⟩ := run_inv hN hre tr e _ hrely (rinv_init c pstar hN e.1 e.2 cache idxL dataL)
    exact rinv_done h hdone

/-! ### the repacker's program -/

def ghostPhase (hd hi : Bool) : EPhase := if (hd && hi) = true then .B else .A

theorem ghostPhase_B {hd hi : Bool} (h : (hd && hi) = true) : ghostPhase hd hi = .B := by
  simp [ghostPhase, h]

theorem ghostPhase_A {hd hi : Bool} (h : (hd && hi) = false) : ghostPhase hd hi = .A := by
  simp [ghostPhase, h]

/-- ghost state of a program in execution: which of `pstar`'s files are in place -/
structure ProgInv (pstar : Name) (prot : List Id) (hd hi : Bool) (f : FS) (prog : List Act) : Prop where
  prog : checkProgram pstar prot hd hi prog = true
  hdata : hd = true → f.data.contains pstar = true
  hidx : hi = true → f.idx.contains pstar = true

theorem complete_act_keep {f : FS} {a : Act} {q : Name}
    (ha : (∀ p, a ≠ .removeData p) ∧ (∀ p, a ≠ .removeIdx p)) (h : f.complete q = true) :
    (f.act a).complete q = true := by
  unfold FS.complete at *
  simp only [Bool.and_eq_true, List.contains_iff_mem] at *
  cases a with
  | installData p =>
    simp only [FS.act]
    refine ⟨h.1, ?_⟩
    split
    · exact h.2
    · exact List.mem_append_left _ h.2
  | installIdx p =>
    simp only [FS.act]
    refine ⟨?_, h.2⟩
    split
    · exact h.1
    · exact List.mem_append_left _ h.1
  | removeData p => exact absurd rfl (ha.1 p)
  | removeIdx p => exact absurd rfl (ha.2 p)
  | addLoose x => simpa [FS.act] using h
  | delLoose x => simpa [FS.act] using h
  | listPacks => simpa [FS.act] using h

theorem loose_act_keep {f : FS} {a : Act} {x : Id} (ha : a ≠ .delLoose x) (h : x ∈ f.loose) : x ∈ (f.act a).loose := by
  cases a with
  | installData p => simpa [FS.act] using h
  | installIdx p => simpa [FS.act] using h
  | removeData p => simpa [FS.act] using h
  | removeIdx p => simpa [FS.act] using h
  | addLoose y =>
    simp only [FS.act]
    split
    · exact h
    · exact List.mem_append_left _ h
  | delLoose y =>
    simp only [FS.act, List.mem_filter, bne_iff_ne, ne_eq]
    refine ⟨h, ?_⟩
    intro hxy
    exact ha (by rw [hxy])
  | listPacks => simpa [FS.act] using h

/-- one action of a program that passes `checkProgram`: the ghost flags move on, and for every reader whose object is
protected the action is an allowed environment step -/
theorem prog_step {pstar : Name} {prot : List Id} {hd hi : Bool} {f : FS} {a : Act} {rest : List Act}
    (h : ProgInv pstar prot hd hi f (a :: rest)) :
    ∃ hd' hi', ProgInv pstar prot hd' hi' (f.act a) rest ∧
      ∀ c : Cfg, c.x ∈ prot → EnvStep c (ghostPhase hd hi, f) (ghostPhase hd' hi', f.act a) := by
  have hp := h.prog
  -- steps that remove no pack file and (while in phase A) no protected loose object
  have keep : ∀ hd' hi' : Bool, ((hd && hi) = true → (hd' && hi') = true) →
      ((∀ p, a ≠ .removeData p) ∧ (∀ p, a ≠ .removeIdx p)) →
      (∀ x, a = .delLoose x → (hd && hi) = true ∨ x ∉ prot) →
      ∀ c : Cfg, c.x ∈ prot → EnvStep c (ghostPhase hd hi, f) (ghostPhase hd' hi', f.act a) := by
    intro hd' hi' hmono hnr hdl c hc
    cases h1 : (hd && hi) <;> cases h2 : (hd' && hi')
    · rw [ghostPhase_A h1, ghostPhase_A h2]
      refine ⟨fun p hp => complete_act_keep hnr hp, fun hl => loose_act_keep ?_ hl⟩
      intro ha
      rcases hdl c.x ha with hb | hnp
      · rw [h1] at hb; cases hb
      · exact hnp hc
    · rw [ghostPhase_A h1, ghostPhase_B h2]; trivial
    · have := hmono h1; rw [h2] at this; cases this
    · rw [ghostPhase_B h1, ghostPhase_B h2]; trivial
  cases a with
  | installData p =>
    simp only [checkProgram] at hp
    refine ⟨hd || p == pstar, hi, ⟨hp, ?_, ?_⟩, keep _ _ ?_ (by simp) (by simp)⟩
    · intro hh
      simp only [FS.act]
      simp only [Bool.or_eq_true, beq_iff_eq] at hh
      rcases hh with hh | hh
      · have := h.hdata hh
        split
        · exact this
        · simp only [List.contains_iff_mem, List.mem_append] at this ⊢
          exact .inl this
      · subst hh
        split
        · rename_i hc; exact hc
        · simp
    · intro hh
      simpa [FS.act] using h.hidx hh
    · intro hb
      simp only [Bool.and_eq_true] at hb ⊢
      exact ⟨by simp [hb.1], hb.2⟩
  | installIdx p =>
    simp only [checkProgram] at hp
    refine ⟨hd, hi || p == pstar, ⟨hp, ?_, ?_⟩, keep _ _ ?_ (by simp) (by simp)⟩
    · intro hh
      simpa [FS.act] using h.hdata hh
    · intro hh
      simp only [FS.act]
      simp only [Bool.or_eq_true, beq_iff_eq] at hh
      rcases hh with hh | hh
      · have := h.hidx hh
        split
        · exact this
        · simp only [List.contains_iff_mem, List.mem_append] at this ⊢
          exact .inl this
      · subst hh
        split
        · rename_i hc; exact hc
        · simp
    · intro hb
      simp only [Bool.and_eq_true] at hb ⊢
      exact ⟨hb.1, by simp [hb.2]⟩
  | addLoose x =>
    simp only [checkProgram] at hp
    exact ⟨hd, hi, ⟨hp, fun hh => by simpa [FS.act] using h.hdata hh, fun hh => by simpa [FS.act] using h.hidx hh⟩,
      keep _ _ id (by simp) (by simp)⟩
  | delLoose x =>
    simp only [checkProgram, Bool.and_eq_true, Bool.or_eq_true] at hp
    obtain ⟨hsafe, hp⟩ := hp
    refine ⟨hd, hi, ⟨hp, fun hh => by simpa [FS.act] using h.hdata hh, fun hh => by simpa [FS.act] using h.hidx hh⟩,
      keep _ _ id (by simp) ?_⟩
    intro y hy
    cases hy
    rcases hsafe with ⟨h1, h2⟩ | h
    · exact .inl (by simp [h1, h2])
    · exact .inr (by simpa using h)
  | listPacks =>
    simp only [checkProgram] at hp
    exact ⟨hd, hi, ⟨hp, fun hh => by simpa [FS.act] using h.hdata hh, fun hh => by simpa [FS.act] using h.hidx hh⟩,
      keep _ _ id (by simp) (by simp)⟩
  | removeData p =>
    simp only [checkProgram, Bool.and_eq_true, bne_iff_ne, ne_eq] at hp
    obtain ⟨⟨⟨hhd, hhi⟩, hne⟩, hp⟩ := hp
    have hB : ghostPhase hd hi = .B := ghostPhase_B (by simp [hhd, hhi])
    refine ⟨hd, hi, ⟨hp, ?_, ?_⟩, fun c _ => by rw [hB]; trivial⟩
    · intro hh
      have := h.hdata hh
      simp only [FS.act, List.contains_iff_mem, List.mem_filter, bne_iff_ne, ne_eq] at this ⊢
      exact ⟨this, fun e => hne e.symm⟩
    · intro hh
      simpa [FS.act] using h.hidx hh
  | removeIdx p =>
    simp only [checkProgram, Bool.and_eq_true, bne_iff_ne, ne_eq] at hp
    obtain ⟨⟨⟨hhd, hhi⟩, hne⟩, hp⟩ := hp
    have hB : ghostPhase hd hi = .B := ghostPhase_B (by simp [hhd, hhi])
    refine ⟨hd, hi, ⟨hp, ?_, ?_⟩, fun c _ => by rw [hB]; trivial⟩
    · intro hh
      simpa [FS.act] using h.hdata hh
    · intro hh
      have := h.hidx hh
      simp only [FS.act, List.contains_iff_mem, List.mem_filter, bne_iff_ne, ne_eq] at this ⊢
      exact ⟨this, fun e => hne e.symm⟩

/-- `EnvOK` survives an allowed environment step (phase B from the ghost facts) -/
theorem envOK_step {c : Cfg} {pstar : Name} {prot : List Id} {hd hi hd' hi' : Bool} {f f' : FS} {prog : List Act}
    (hx : c.x ∈ c.ids pstar) (hok : EnvOK c pstar (ghostPhase hd hi) f)
    (hs : EnvStep c (ghostPhase hd hi, f) (ghostPhase hd' hi', f')) (hP : ProgInv pstar prot hd' hi' f' prog) :
    EnvOK c pstar (ghostPhase hd' hi') f' := by
  cases h2 : (hd' && hi')
  · rw [ghostPhase_A h2] at hs ⊢
    cases h1 : (hd && hi)
    · rw [ghostPhase_A h1] at hs hok
      rcases hok with ⟨p, hc, hpx⟩ | hl
      · exact .inl ⟨p, hs.1 p hc, hpx⟩
      · exact .inr (hs.2 hl)
    · rw [ghostPhase_B h1] at hs
      exact absurd hs (fun h => envStep_not_BA h)
  · rw [ghostPhase_B h2]
    simp only [Bool.and_eq_true] at h2
    refine ⟨?_, hx⟩
    unfold FS.complete
    simp only [Bool.and_eq_true]
    exact ⟨hP.hidx h2.2, hP.hdata h2.1⟩

/-! ### the interleaved system: one repacker, any number of readers -/

structure SInv (pstar : Name) (prot : List Id) (hd hi : Bool) (s : Sys) : Prop where
  prog : ProgInv pstar prot hd hi s.fs s.prog
  readers : ∀ cr ∈ s.readers, 3 ≤ cr.1.maxAttempts ∧ cr.1.reprobe = true ∧ cr.1.x ∈ cr.1.ids pstar ∧ cr.1.x ∈ prot ∧
    EnvOK cr.1 pstar (ghostPhase hd hi) s.fs ∧ RInv cr.1 pstar (ghostPhase hd hi) s.fs cr.2

theorem mem_setAt {α : Type} {l : List α} {i : Nat} {a x : α} (h : x ∈ setAt l i a) : x = a ∨ x ∈ l := by
  induction l generalizing i with
  | nil => simp [setAt] at h
  | cons y ys ih =>
    cases i with
    | zero =>
      simp only [setAt, List.mem_cons] at h
      rcases h with h | h
      · exact .inl h
      · exact .inr (List.mem_cons_of_mem _ h)
    | succ n =>
      simp only [setAt, List.mem_cons] at h
      rcases h with h | h
      · exact .inr (by simp [h])
      · rcases ih h with h | h
        · exact .inl h
        · exact .inr (List.mem_cons_of_mem _ h)

theorem sched_inv {pstar : Name} {prot : List Id} {hd hi : Bool} {s : Sys} (h : SInv pstar prot hd hi s)
    (d : Option Nat) : ∃ hd' hi', SInv pstar prot hd' hi' (s.sched d) := by
  cases d with
  | some i =>
    refine ⟨hd, hi, ?_⟩
    unfold Sys.sched
    simp only
    split
    · exact h
    · rename_i cr hget
      have hcr : cr ∈ s.readers := List.mem_of_getElem? hget
      refine ⟨h.prog, ?_⟩
      intro cr' hcr'
      rcases mem_setAt hcr' with heq | hmem
      · obtain ⟨hN, hre, hx, hpr, hok, hinv⟩ := h.readers cr hcr
        subst heq
        exact ⟨hN, hre, hx, hpr, hok, rinv_step hN hre hinv hok⟩
      · exact h.readers cr' hmem
  | none =>
    unfold Sys.sched
    simp only
    split
    · exact ⟨hd, hi, h⟩
    · rename_i a rest hprog
      have hP := h.prog
      rw [hprog] at hP
      obtain ⟨hd', hi', hP', hstep⟩ := prog_step hP
      refine ⟨hd', hi', ⟨hP', ?_⟩⟩
      intro cr hcr
      obtain ⟨hN, hre, hx, hpr, hok, hinv⟩ := h.readers cr hcr
      have hs := hstep cr.1 hpr
      exact ⟨hN, hre, hx, hpr, envOK_step hx hok hs hP', rinv_env hinv hs⟩

theorem exec_inv {pstar : Name} {prot : List Id} : ∀ (sched : List (Option Nat)) {hd hi : Bool} {s : Sys},
    SInv pstar prot hd hi s → ∃ hd' hi', SInv pstar prot hd' hi' (s.exec sched) := by
  intro sched
  induction sched with
  | nil => intro hd hi s h; exact ⟨hd, hi, h⟩
  | cons d ds ih =>
    intro hd hi s h
    obtain ⟨hd1, hi1, h1⟩ := sched_inv h d
    exact ih h1

/-- MAIN 2: one repacker whose program passes `checkProgram` (the new pack `pstar` is installed before any pack file or
protected loose object is removed, and is never removed; `started` = `pstar` is in place from the start), interleaved by
ANY schedule with ANY number of readers (`get_raw` or `__contains__` with the re-probe, from any cache), each looking up a
protected object that exists at the start — in a complete pack OR loose — and is in `pstar`: no reader ever reports
"missing", provided a lookup may make at least 3 passes. -/
theorem sys_readers_never_miss (pstar : Name) (prot : List Id) (started : Bool) (prog : List Act)
    (hprog : checkProgram pstar prot started started prog = true) (f0 : FS)
    (hstart : started = true → f0.complete pstar = true)
    (readers : List (Cfg × RState))
    (hreaders : ∀ cr ∈ readers, 3 ≤ cr.1.maxAttempts ∧ cr.1.reprobe = true ∧ cr.1.x ∈ cr.1.ids pstar ∧ cr.1.x ∈ prot ∧
        ((∃ p, f0.complete p = true ∧ cr.1.x ∈ cr.1.ids p) ∨ cr.1.x ∈ f0.loose) ∧
        (∃ cache idxL dataL, cr.2 = RState.init cache idxL dataL))
    (sched : List (Option Nat)) :
    ∀ cr ∈ (Sys.exec { fs := f0, prog := prog, readers := readers } sched).readers,
      ∀ b, cr.2.phase = .done b → b = true := by
  have h0 : SInv pstar prot started started { fs := f0, prog := prog, readers := readers } := by
    refine ⟨⟨hprog, fun h => complete_data (hstart h), fun h => complete_idx (hstart h)⟩, ?_⟩
    intro cr hcr
    obtain ⟨hN, hre, hx, hpr, hh, cache, il, dl, hinit⟩ := hreaders cr hcr
    refine ⟨hN, hre, hx, hpr, ?_, ?_⟩
    · cases hs : started
      · rw [ghostPhase_A (by simp)]
        exact hh
      · rw [ghostPhase_B (by simp)]
        exact ⟨hstart hs, hx⟩
    · rw [hinit]
      exact rinv_init cr.1 pstar hN _ _ cache il dl
  obtain ⟨hd, hi, hfin⟩ := exec_inv sched h0
  intro cr hcr b hb
  exact rinv_done (hfin.readers cr hcr).2.2.2.2.2 hb

/-! ## Iteration (`__iter__` with the rescan after the loose listing) is complete -/

/-- invariant of an iteration with respect to one object `x` that exists throughout -/
def IInv (ids : Name → List Id) (x : Id) (pstar : Name) (ph : EPhase) (f : FS) (r : IState) : Prop :=
  x ∈ r.acc ∨
  match r.phase with
  | .rescan => True
  | .packs => (pstar ∈ r.cache → pstar ∈ r.todo) ∧
      (ph = .A → x ∈ f.loose ∨ ∃ H ∈ r.todo, x ∈ ids H ∧ f.complete H = true)
  | .loose => pstar ∉ r.cache ∧ (ph = .A → x ∈ f.loose)
  | .rescan2 => pstar ∉ r.cache ∧ ph = .B
  | .packs2 => ph = .B ∧ pstar ∈ r.todo
  | .alts => False
  | .done => False

/-- the iteration's view of the environment is that of a `__contains__` lookup of `x` -/
def icfg (ids : Name → List Id) (x : Id) : Cfg :=
  { ids := ids, x := x, needData := false, alts := [], maxAttempts := 3, reprobe := true }

theorem iinv_env {ids : Name → List Id} {x : Id} {pstar : Name} {ph ph' : EPhase} {f f' : FS} {r : IState}
    (h : IInv ids x pstar ph f r) (hs : EnvStep (icfg ids x) (ph, f) (ph', f')) : IInv ids x pstar ph' f' r := by
  unfold IInv at h ⊢
  rcases h with h | h
  · exact .inl h
  · right
    cases hph : r.phase with
    | rescan => trivial
    | packs =>
      simp only [hph] at h ⊢
      refine ⟨h.1, ?_⟩
      intro hA
      subst hA
      cases ph
      · rcases h.2 rfl with hl | ⟨H, hH, hx, hc⟩
        · exact .inl (hs.2 hl)
        · exact .inr ⟨H, hH, hx, hs.1 H hc⟩
      · exact absurd hs (fun h => envStep_not_BA h)
    | loose =>
      simp only [hph] at h ⊢
      refine ⟨h.1, ?_⟩
      intro hA
      subst hA
      cases ph
      · exact hs.2 (h.2 rfl)
      · exact absurd hs (fun h => envStep_not_BA h)
    | rescan2 =>
      simp only [hph] at h ⊢
      refine ⟨h.1, ?_⟩
      obtain ⟨_, hB⟩ := h
      subst hB
      cases ph'
      · exact absurd hs (fun h => envStep_not_BA h)
      · rfl
    | packs2 =>
      simp only [hph] at h ⊢
      refine ⟨?_, h.2⟩
      obtain ⟨hB, _⟩ := h
      subst hB
      cases ph'
      · exact absurd hs (fun h => envStep_not_BA h)
      · rfl
    | alts => simp only [hph] at h
    | done => simp only [hph] at h

theorem iprobe_acc {ids : Name → List Id} {f : FS} {r : IState} {p : Name} {rest : List Name} {x : Id}
    (h : x ∈ r.acc) : x ∈ (iprobe ids f r p rest).acc := by
  unfold iprobe
  split
  · exact List.mem_append_left _ h
  · exact h

theorem istep_acc {ids : Name → List Id} {alts : List Id} {f : FS} {r : IState} {x : Id} (h : x ∈ r.acc) :
    x ∈ (istep true ids alts f r).acc := by
  unfold istep
  split
  · exact h
  · split
    · exact iprobe_acc h
    · exact h
  · exact List.mem_append_left _ h
  · exact h
  · split
    · exact iprobe_acc h
    · exact h
  · exact List.mem_append_left _ h
  · exact h

theorem iinv_step {ids : Name → List Id} {alts : List Id} {x : Id} {pstar : Name} {ph : EPhase} {f : FS} {r : IState}
    (hx : x ∈ ids pstar) (h : IInv ids x pstar ph f r) (hok : EnvOK (icfg ids x) pstar ph f) :
    IInv ids x pstar ph f (istep true ids alts f r) := by
  unfold IInv at h
  rcases h with h | h
  · exact .inl (istep_acc h)
  · cases hph : r.phase with
    | rescan =>
      have e : istep true ids alts f r =
          { r with cache := (rescan f r.cache).1,
                   idxLoaded := r.idxLoaded.filter (fun q => (rescan f r.cache).1.contains q),
                   todo := (rescan f r.cache).1, phase := .packs } := by simp [istep, hph]
      rw [e]
      unfold IInv
      right
      simp only
      refine ⟨fun hq => hq, ?_⟩
      intro hA
      subst hA
      rcases hok with ⟨p, hc, hpx⟩ | hl
      · exact .inr ⟨p, complete_mem_rescan _ hc, hpx, hc⟩
      · exact .inl hl
    | packs =>
      simp only [hph] at h
      obtain ⟨hK, hA⟩ := h
      cases htodo : r.todo with
      | nil =>
        have e : istep true ids alts f r = { r with phase := .loose } := by simp [istep, hph, htodo]
        rw [e]
        unfold IInv
        right
        simp only
        rw [htodo] at hK hA
        refine ⟨fun hc => (by have := hK hc; cases this), ?_⟩
        intro hph'
        rcases hA hph' with hl | ⟨H, hH, _⟩
        · exact hl
        · cases hH
      | cons p rest =>
        have e : istep true ids alts f r = iprobe ids f r p rest := by simp [istep, hph, htodo]
        rw [e]
        rw [htodo] at hK hA
        unfold iprobe
        split
        · -- index available: listed
          by_cases hpx : x ∈ ids p
          · exact .inl (List.mem_append_right _ hpx)
          · unfold IInv
            right
            simp only [hph]
            refine ⟨?_, ?_⟩
            · intro hc
              rcases List.mem_cons.mp (hK hc) with heq | hm
              · exact absurd (heq ▸ hx) hpx
              · exact hm
            · intro hph'
              rcases hA hph' with hl | ⟨H, hH, hHx, hc⟩
              · exact .inl hl
              · rcases List.mem_cons.mp hH with heq | hm
                · exact absurd (heq ▸ hHx) hpx
                · exact .inr ⟨H, hm, hHx, hc⟩
        · -- index gone: evicted
          rename_i hidx
          have hgone : f.idx.contains p = false := by
            simp only [Bool.or_eq_true, not_or, Bool.not_eq_true] at hidx
            exact hidx.2
          unfold IInv
          right
          simp only [hph]
          refine ⟨?_, ?_⟩
          · intro hc
            simp only [List.mem_filter, bne_iff_ne, ne_eq] at hc
            rcases List.mem_cons.mp (hK hc.1) with heq | hm
            · exact absurd heq hc.2
            · exact hm
          · intro hph'
            rcases hA hph' with hl | ⟨H, hH, hHx, hc⟩
            · exact .inl hl
            · rcases List.mem_cons.mp hH with heq | hm
              · have := complete_idx hc
                rw [heq, hgone] at this
                cases this
              · exact .inr ⟨H, hm, hHx, hc⟩
    | loose =>
      simp only [hph] at h
      obtain ⟨hnc, hA⟩ := h
      have e : istep true ids alts f r = { r with acc := r.acc ++ f.loose, phase := .rescan2 } := by
        simp [istep, hph]
      rw [e]
      cases ph
      · exact .inl (List.mem_append_right _ (hA rfl))
      · unfold IInv
        right
        simp only
        exact ⟨hnc, by first | rfl | trivial⟩
    | rescan2 =>
      simp only [hph] at h
      obtain ⟨hnc, hB⟩ := h
      subst hB
      have e : istep true ids alts f r =
          { r with cache := (rescan f r.cache).1,
                   idxLoaded := r.idxLoaded.filter (fun q => (rescan f r.cache).1.contains q),
                   todo := (rescan f r.cache).2, phase := .packs2 } := by simp [istep, hph]
      rw [e]
      unfold IInv
      right
      simp only
      exact ⟨by first | rfl | trivial, complete_mem_new r.cache hok.1 hnc⟩
    | packs2 =>
      simp only [hph] at h
      obtain ⟨hB, hm⟩ := h
      subst hB
      cases htodo : r.todo with
      | nil => rw [htodo] at hm; cases hm
      | cons p rest =>
        have e : istep true ids alts f r = iprobe ids f r p rest := by simp [istep, hph, htodo]
        rw [e]
        rw [htodo] at hm
        unfold iprobe
        split
        · by_cases hpx : x ∈ ids p
          · exact .inl (List.mem_append_right _ hpx)
          · unfold IInv
            right
            simp only [hph]
            refine ⟨by first | rfl | trivial, ?_⟩
            rcases List.mem_cons.mp hm with heq | hm
            · exact absurd (heq ▸ hx) hpx
            · exact hm
        · rename_i hidx
          have hgone : f.idx.contains p = false := by
            simp only [Bool.or_eq_true, not_or, Bool.not_eq_true] at hidx
            exact hidx.2
          unfold IInv
          right
          simp only [hph]
          refine ⟨by first | rfl | trivial, ?_⟩
          rcases List.mem_cons.mp hm with heq | hm
          · have := complete_idx hok.1
            rw [heq, hgone] at this
            cases this
          · exact hm
    | alts => simp only [hph] at h
    | done => simp only [hph] at h

theorem iinv_done {ids : Name → List Id} {x : Id} {pstar : Name} {ph : EPhase} {f : FS} {r : IState}
    (h : IInv ids x pstar ph f r) (hd : r.phase = .done) : x ∈ r.acc := by
  unfold IInv at h
  rcases h with h | h
  · exact h
  · simp only [hd] at h

theorem iexec_inv {ids : Name → List Id} {alts : List Id} {x : Id} {pstar : Name} {prot : List Id}
    (hx : x ∈ ids pstar) (hprot : x ∈ prot) :
    ∀ (sched : List Bool) (hd hi : Bool) (f : FS) (prog : List Act) (r : IState),
      ProgInv pstar prot hd hi f prog → EnvOK (icfg ids x) pstar (ghostPhase hd hi) f →
      IInv ids x pstar (ghostPhase hd hi) f r →
      ∃ ph f', IInv ids x pstar ph f' (iexec true ids alts f prog r sched).2.2 := by
  intro sched
  induction sched with
  | nil => intro hd hi f prog r _ _ h; exact ⟨_, _, h⟩
  | cons d ds ih =>
    intro hd hi f prog r hP hok h
    cases d with
    | false =>
      simp only [iexec]
      exact ih hd hi f prog _ hP hok (iinv_step hx h hok)
    | true =>
      cases prog with
      | nil =>
        simp only [iexec]
        exact ih hd hi f [] r hP hok h
      | cons a rest =>
        simp only [iexec]
        obtain ⟨hd', hi', hP', hstep⟩ := prog_step hP
        have hs := hstep (icfg ids x) hprot
        exact ih hd' hi' (f.act a) rest r hP' (envOK_step (c := icfg ids x) hx hok hs hP') (iinv_env h hs)

/-- MAIN 3: iteration (with the rescan after the loose listing) interleaved by ANY schedule with a repacker that passes
`checkProgram`: every protected object that exists at the start — in a complete pack or loose — and is in `pstar` is in
the result, whatever the iterator's initial cache. -/
theorem iteration_complete (ids : Name → List Id) (alts : List Id) (x : Id) (pstar : Name) (prot : List Id)
    (started : Bool) (prog : List Act) (hprog : checkProgram pstar prot started started prog = true) (f0 : FS)
    (hstart : started = true → f0.complete pstar = true) (hx : x ∈ ids pstar) (hprot : x ∈ prot)
    (hex : (∃ p, f0.complete p = true ∧ x ∈ ids p) ∨ x ∈ f0.loose)
    (cache idxL : List Name) (sched : List Bool)
    (hdone : (iexec true ids alts f0 prog (IState.init cache idxL) sched).2.2.phase = .done) :
    x ∈ (iexec true ids alts f0 prog (IState.init cache idxL) sched).2.2.acc := by
  have hP : ProgInv pstar prot started started f0 prog :=
    ⟨hprog, fun h => complete_data (hstart h), fun h => complete_idx (hstart h)⟩
  have hok : EnvOK (icfg ids x) pstar (ghostPhase started started) f0 := by
    cases hs : started
    · rw [ghostPhase_A (by simp)]; exact hex
    · rw [ghostPhase_B (by simp)]; exact ⟨hstart hs, hx⟩
  have h0 : IInv ids x pstar (ghostPhase started started) f0 (IState.init cache idxL) := by
    unfold IInv IState.init
    exact .inr trivial
  obtain ⟨ph, f', h⟩ := iexec_inv (alts := alts) hx hprot sched started started f0 prog _ hP hok h0
  exact iinv_done h hdone

/-! ## `repack()` deletes only the packs of its snapshot: a pack another writer lands meanwhile survives -/

/-- the packs the repacker may still remove -/
def mayRemove : MPhase → List Name
  | .start => []
  | .copied snap => snap
  | .installed snap => snap
  | .removing t => t
  | .done => []

theorem complete_loose_irrel (f : FS) (l : List Id) (q : Name) : ({ f with loose := l } : FS).complete q = f.complete q := rfl

theorem complete_remove_other {f : FS} {p q : Name} (hne : q ≠ p) (h : f.complete q = true) :
    ((f.act (.removeData p)).act (.removeIdx p)).complete q = true := by
  unfold FS.complete at *
  simp only [Bool.and_eq_true, List.contains_iff_mem] at *
  simp only [FS.act, List.mem_filter, bne_iff_ne, ne_eq]
  exact ⟨⟨h.1, hne⟩, ⟨h.2, hne⟩⟩

/-- one step of the real procedure (`relist = false`) from a state that has its snapshot: a complete pack outside the
removable set stays complete and stays outside -/
theorem mstep_keeps {newp : Name} {f : FS} {m : MPhase} {q : Name} (hm : m ≠ .start)
    (hq : q ∉ mayRemove m) (hc : f.complete q = true) :
    (mstep false newp f m).1.complete q = true ∧ q ∉ mayRemove (mstep false newp f m).2 ∧
      (mstep false newp f m).2 ≠ .start := by
  cases m with
  | start => exact absurd rfl hm
  | copied snap =>
    simp only [mstep]
    exact ⟨complete_act_keep (by simp) (complete_act_keep (by simp) hc), hq, by simp⟩
  | installed snap =>
    simp only [mstep, mayRemove, Bool.false_eq_true, if_false]
    refine ⟨hc, ?_, by simp⟩
    intro hmem
    exact hq (List.mem_filter.mp hmem).1
  | removing t =>
    cases t with
    | nil => simp only [mstep, mayRemove]; exact ⟨hc, by simp, by simp⟩
    | cons p ps =>
      simp only [mstep, mayRemove]
      simp only [mayRemove, List.mem_cons, not_or] at hq
      exact ⟨complete_remove_other hq.1 hc, hq.2, by simp⟩
  | done => simp only [mstep, mayRemove]; exact ⟨hc, by simp, by simp⟩

/-- The repacker's removal loop works off the snapshot it took before copying: whatever the schedule and whatever the
other writer adds, a pack that is complete and outside the removable set at some moment after the snapshot (in
particular every pack the other writer lands after the snapshot) is still complete when everything has finished. -/
theorem late_pack_survives (newp : Name) :
    ∀ (sched : List (Option Act)) (f : FS) (m : MPhase) (q : Name), (∀ a, some a ∈ sched → a.adds = true) →
      m ≠ .start → q ∉ mayRemove m → f.complete q = true → (mexec false newp f m sched).1.complete q = true := by
  intro sched
  induction sched with
  | nil => intro f m q _ _ _ hc; exact hc
  | cons d ds ih =>
    intro f m q henv hm hq hc
    have henv' : ∀ a, some a ∈ ds → a.adds = true := fun a ha => henv a (List.mem_cons_of_mem _ ha)
    cases d with
    | none =>
      simp only [mexec]
      obtain ⟨h1, h2, h3⟩ := mstep_keeps (newp := newp) hm hq hc
      exact ih _ _ q henv' h3 h2 h1
    | some a =>
      simp only [mexec]
      have ha : a.adds = true := henv a (by simp)
      have hkeep : (f.act a).complete q = true := by
        apply complete_act_keep _ hc
        constructor
        · intro p hp; subst hp; simp [Act.adds] at ha
        · intro p hp; subst hp; simp [Act.adds] at ha
      exact ih _ _ q henv' hm hq hkeep

end Dulwich.Reader
