/-
  Helper lemmas for C17 (path validators).  Core Lean only.
-/
import DulwichModel.Model.PathSafe

namespace Dulwich.PathSafe
open Dulwich Dulwich.Gen.PathSafe

/-! ### ASCII case -/

/-- what `lowerByte b = c` allows -/
theorem lowerByte_eq {b c : UInt8} (h : lowerByte b = c) :
    b = c ∨ (b.toNat + 32 = c.toNat ∧ 65 ≤ b.toNat ∧ b.toNat ≤ 90) := by
  unfold lowerByte at h
  split at h
  · right
    have := congrArg UInt8.toNat h
    rw [UInt8.toNat_ofNat'] at this
    omega
  · left; exact h

theorem lowerByte_lit {b : UInt8} {c : UInt8} (h : lowerByte b = c) (hc : 97 ≤ c.toNat ∧ c.toNat ≤ 122) :
    b = c ∨ b = UInt8.ofNat (c.toNat - 32) := by
  rcases lowerByte_eq h with h | ⟨h1, _, _⟩
  · left; exact h
  · right; apply UInt8.toNat_inj.mp; rw [UInt8.toNat_ofNat']; omega

theorem lowerByte_g {b : UInt8} (h : lowerByte b = 103) : b = 103 ∨ b = 71 := lowerByte_lit h (by decide)
theorem lowerByte_i {b : UInt8} (h : lowerByte b = 105) : b = 105 ∨ b = 73 := lowerByte_lit h (by decide)
theorem lowerByte_t {b : UInt8} (h : lowerByte b = 116) : b = 116 ∨ b = 84 := lowerByte_lit h (by decide)

/-- a byte whose lower-case form is a punctuation byte is that byte -/
theorem lowerByte_punct {b c : UInt8} (h : lowerByte b = c) (hc : c.toNat < 97) : b = c := by
  rcases lowerByte_eq h with h | ⟨h1, h2, _⟩
  · exact h
  · omega

theorem lower_eq_nil {e : Bytes} : lower e = [] ↔ e = [] := by simp [lower]

theorem lower_eq_cons {e : Bytes} {c : UInt8} {r : Bytes} :
    lower e = c :: r ↔ ∃ b t, e = b :: t ∧ lowerByte b = c ∧ lower t = r := by
  cases e with
  | nil => simp [lower]
  | cons b t =>
    simp only [lower, List.map_cons, List.cons.injEq]
    constructor
    · rintro ⟨h1, h2⟩; exact ⟨b, t, ⟨rfl, rfl⟩, h1, h2⟩
    · rintro ⟨b', t', ⟨rfl, rfl⟩, h1, h2⟩; exact ⟨h1, h2⟩

/-- the strings whose lower-case form is `.git` -/
theorem lower_eq_dotgit {c : Bytes} (h : lower c = [46, 103, 105, 116]) :
    ∃ g i t, c = [46, g, i, t] ∧ lowerByte g = 103 ∧ lowerByte i = 105 ∧ lowerByte t = 116 := by
  obtain ⟨d, r1, rfl, hd, h⟩ := lower_eq_cons.mp h
  obtain ⟨g, r2, rfl, hg, h⟩ := lower_eq_cons.mp h
  obtain ⟨i, r3, rfl, hi, h⟩ := lower_eq_cons.mp h
  obtain ⟨t, r4, rfl, ht, h⟩ := lower_eq_cons.mp h
  have := lower_eq_nil.mp h
  subst this
  have : d = 46 := lowerByte_punct hd (by decide)
  subst this
  exact ⟨g, i, t, rfl, hg, hi, ht⟩

/-! ### the NTFS `.git` family -/

/-- only dots and spaces -/
def DotsSpaces (ds : Bytes) : Prop := ∀ b ∈ ds, b = 46 ∨ b = 32

/-- `.git` in any ASCII case -/
def IsDotGit (pre : Bytes) : Prop :=
  ∃ g i t, pre = [46, g, i, t] ∧ lowerByte g = 103 ∧ lowerByte i = 105 ∧ lowerByte t = 116

/-- `git~1` with `git` in any ASCII case -/
def IsGitTilde1 (pre : Bytes) : Prop :=
  ∃ g i t, pre = [g, i, t, 126, 49] ∧ lowerByte g = 103 ∧ lowerByte i = 105 ∧ lowerByte t = 116

/-- The family of the CVE regression tests, for all strings: (`.git` | `git~1`) in any ASCII case, then any
mix of dots and spaces, then either the end or `:` followed by anything at all. -/
inductive NtfsDotGitFamily : Bytes → Prop
  | plain (pre ds : Bytes) : (IsDotGit pre ∨ IsGitTilde1 pre) → DotsSpaces ds → NtfsDotGitFamily (pre ++ ds)
  | ads (pre ds rest : Bytes) : (IsDotGit pre ∨ IsGitTilde1 pre) → DotsSpaces ds →
      NtfsDotGitFamily (pre ++ ds ++ 58 :: rest)

theorem dgTail_ds : ∀ ds, DotsSpaces ds → dgTail ds = true := by
  intro ds
  induction ds with
  | nil => intro _; rfl
  | cons c r ih =>
    intro h
    have hc := h c (List.mem_cons_self)
    have hr : DotsSpaces r := fun b hb => h b (List.mem_cons_of_mem _ hb)
    rcases hc with rfl | rfl <;> simp [dgTail, dgColon, dgTailDot, dgTailSpace, ih hr]

theorem dgTail_ds_colon : ∀ ds rest, DotsSpaces ds → dgTail (ds ++ 58 :: rest) = true := by
  intro ds
  induction ds with
  | nil => intro rest _; simp [dgTail, dgColon]
  | cons c r ih =>
    intro rest h
    have hc := h c (List.mem_cons_self)
    have hr : DotsSpaces r := fun b hb => h b (List.mem_cons_of_mem _ hb)
    rcases hc with rfl | rfl <;> simp [dgTail, dgColon, dgTailDot, dgTailSpace, ih rest hr]

theorem isNtfsDotgit_dot (g i t : UInt8) (tl : Bytes) (hg : lowerByte g = 103) (hi : lowerByte i = 105)
    (ht : lowerByte t = 116) : isNtfsDotgit (46 :: g :: i :: t :: tl) = dgTail tl := by
  simp [isNtfsDotgit, dgDot, slice, dgGitFrom, dgGitTo, dgGit, dgGitTail, lower, hg, hi, ht]

theorem isNtfsDotgit_short (g i t : UInt8) (tl : Bytes) (hg : lowerByte g = 103) (hi : lowerByte i = 105)
    (ht : lowerByte t = 116) : isNtfsDotgit (g :: i :: t :: 126 :: 49 :: tl) = dgTail tl := by
  have hne : g ≠ 46 := by
    rcases lowerByte_g hg with rfl | rfl <;> decide
  simp [isNtfsDotgit, dgDot, dgG, slice, dgItFrom, dgItTo, dgIt, dgTildeFrom, dgTildeTo, dgTilde, dgShortTail, lower,
    hg, hi, ht, hne]

theorem isNtfsDotgit_pre {pre : Bytes} (h : IsDotGit pre ∨ IsGitTilde1 pre) (tl : Bytes) :
    isNtfsDotgit (pre ++ tl) = dgTail tl := by
  rcases h with ⟨g, i, t, rfl, hg, hi, ht⟩ | ⟨g, i, t, rfl, hg, hi, ht⟩
  · exact isNtfsDotgit_dot g i t tl hg hi ht
  · exact isNtfsDotgit_short g i t tl hg hi ht

/-- the matcher accepts every member of the family, whatever follows the colon -/
theorem isNtfsDotgit_family {e : Bytes} (h : NtfsDotGitFamily e) : isNtfsDotgit e = true := by
  cases h with
  | plain pre ds hp hd => rw [isNtfsDotgit_pre hp]; exact dgTail_ds ds hd
  | ads pre ds rest hp hd => rw [List.append_assoc, isNtfsDotgit_pre hp]; exact dgTail_ds_colon ds rest hd

/-! ### split / rstrip -/

theorem splitOn_ne_nil (sep : UInt8) : ∀ l, splitOn sep l ≠ [] := by
  intro l
  cases l with
  | nil => simp [splitOn]
  | cons b r => simp only [splitOn]; split <;> simp

theorem splitOn_cons_head (sep : UInt8) (l : Bytes) :
    splitOn sep l = (splitOn sep l).headD [] :: (splitOn sep l).tail := by
  have := splitOn_ne_nil sep l
  cases h : splitOn sep l with
  | nil => exact absurd h this
  | cons a t => rfl

theorem splitOn_append (sep : UInt8) : ∀ (a b : Bytes), (∀ x ∈ a, x ≠ sep) →
    splitOn sep (a ++ b) = (a ++ (splitOn sep b).headD []) :: (splitOn sep b).tail := by
  intro a
  induction a with
  | nil => intro b _; simpa using splitOn_cons_head sep b
  | cons x a ih =>
    intro b h
    have hx : x ≠ sep := h x List.mem_cons_self
    have ha : ∀ y ∈ a, y ≠ sep := fun y hy => h y (List.mem_cons_of_mem _ hy)
    simp only [List.cons_append, splitOn, hx, if_false]
    rw [ih b ha]
    simp

/-- no piece of a split contains the separator -/
theorem splitOn_no_sep (sep : UInt8) : ∀ (l : Bytes) (c : Bytes), c ∈ splitOn sep l → sep ∉ c := by
  intro l
  induction l with
  | nil => intro c hc; simp [splitOn] at hc; subst hc; simp
  | cons b r ih =>
    intro c hc
    simp only [splitOn] at hc
    split at hc
    · rcases List.mem_cons.mp hc with rfl | h
      · simp
      · exact ih c h
    · rename_i hb
      rw [splitOn_cons_head sep r] at ih
      rcases List.mem_cons.mp hc with rfl | h
      · intro hm
        rcases List.mem_cons.mp hm with h1 | h1
        · exact hb h1.symm
        · exact ih _ List.mem_cons_self h1
      · exact ih c (List.mem_cons_of_mem _ h)

theorem rstrip_all (set : Bytes) : ∀ ds, (∀ b ∈ ds, set.contains b = true) → rstrip set ds = [] := by
  intro ds
  induction ds with
  | nil => intro _; rfl
  | cons c r ih =>
    intro h
    have hr := ih (fun b hb => h b (List.mem_cons_of_mem _ hb))
    have hc := h c List.mem_cons_self
    simp only [rstrip, hr, hc, if_true]

theorem ds_contains {ds : Bytes} (h : DotsSpaces ds) : ∀ b ∈ ds, ntfsStrip.contains b = true := by
  intro b hb
  rcases h b hb with rfl | rfl <;> decide

/-! ### strict UTF-8 on ASCII -/

theorem utf8Go_ascii : ∀ (bs : Bytes) (out : List Nat), (∀ b ∈ bs, b.toNat < 128) →
    utf8Go bs 0 0 0 0 out = some (out.reverse ++ bs.map UInt8.toNat) := by
  intro bs
  induction bs with
  | nil => intro out _; simp [utf8Go]
  | cons b r ih =>
    intro out h
    have hb := h b List.mem_cons_self
    have hr := ih (b.toNat :: out) (fun x hx => h x (List.mem_cons_of_mem _ hx))
    simp only [utf8Go, hb, if_true, hr]
    simp

theorem utf8Decode_ascii (bs : Bytes) (h : ∀ b ∈ bs, b.toNat < 128) :
    utf8Decode bs = some (bs.map UInt8.toNat) := by
  unfold utf8Decode; rw [utf8Go_ascii bs [] h]; simp

theorem hfsFilter_ascii : ∀ (cs : List Nat), (∀ c ∈ cs, c < 128) → hfsFilter cs = cs := by
  intro cs h
  unfold hfsFilter
  apply List.filter_eq_self.mpr
  intro c hc
  have := h c hc
  simp only [hfsIgnorable, Bool.not_eq_true', List.contains_eq_mem, decide_eq_false_iff_not]
  intro hm
  simp only [List.mem_cons, List.not_mem_nil, or_false] at hm
  omega

theorem utf8Encode_ascii : ∀ (cs : List Nat), (∀ c ∈ cs, c < 128) → utf8Encode cs = cs.map UInt8.ofNat := by
  intro cs
  induction cs with
  | nil => intro _; rfl
  | cons c r ih =>
    intro h
    have hc := h c List.mem_cons_self
    have hr := ih (fun x hx => h x (List.mem_cons_of_mem _ hx))
    unfold utf8Encode at hr ⊢
    simp only [List.flatMap_cons, utf8EncodeCp, hc, if_true, hr]
    simp

end Dulwich.PathSafe
