/- Helper lemmas for the packed-refs codec model (C16).  The round-trip theorem is in Props/C16.lean. -/
import DulwichModel.Model.PackedRefs
import DulwichModel.Lemmas.RefFormat
namespace Dulwich.PackedRefs
open Dulwich Dulwich.RefFormat Dulwich.Gen.Refs

theorem lines_append_nl (l rest : Bytes) (h : (10 : UInt8) ∉ l) :
    lines (l ++ 10 :: rest) = (l ++ [10]) :: lines rest := by
  induction l with
  | nil => simp [lines]
  | cons b l ih =>
    simp only [List.mem_cons, not_or] at h
    have hb : ¬ b = 10 := fun hb => h.1 hb.symm
    simp only [List.cons_append, lines, hb, if_false, ih h.2]

theorem rstripCRLF_snoc (x : Bytes) (c : UInt8) (h10 : c ≠ 10) (h13 : c ≠ 13) :
    rstripCRLF (x ++ [c]) = x ++ [c] := by
  simp [rstripCRLF, List.dropWhile, h10, h13]

theorem rstripCRLF_snoc_nl (x : Bytes) (c : UInt8) (h10 : c ≠ 10) (h13 : c ≠ 13) :
    rstripCRLF (x ++ [c] ++ [10]) = x ++ [c] := by
  simp [rstripCRLF, List.dropWhile, h10, h13]

/-- what the reader needs to know about the bytes of a sha and of a ref name -/
def Plain (l : Bytes) : Prop := ∀ c ∈ l, c ≠ 10 ∧ c ≠ 13 ∧ c ≠ 32

theorem plain_of_hex {s : Bytes} (h : validHexSha s = true) :
    Plain s ∧ s ≠ [] ∧ s.head? ≠ some packedComment ∧ s.head? ≠ some packedCaret := by
  unfold validHexSha at h
  simp only [Bool.and_eq_true, List.all_eq_true] at h
  obtain ⟨hlen, hall⟩ := h
  have hne : s ≠ [] := by
    intro h0; subst h0; revert hlen; decide
  have hc : ∀ c ∈ s, c ≠ 10 ∧ c ≠ 13 ∧ c ≠ 32 ∧ c ≠ packedComment ∧ c ≠ packedCaret := by
    intro c hc
    have := hall c hc
    refine ⟨?_, ?_, ?_, ?_, ?_⟩ <;> (intro h; subst h; revert this; decide)
  refine ⟨fun c h => ⟨(hc c h).1, (hc c h).2.1, (hc c h).2.2.1⟩, hne, ?_, ?_⟩
  · cases s with
    | nil => exact absurd rfl hne
    | cons b r => intro h; simp only [List.head?_cons, Option.some.injEq] at h; exact (hc b (by simp)).2.2.2.1 h
  · cases s with
    | nil => exact absurd rfl hne
    | cons b r => intro h; simp only [List.head?_cons, Option.some.injEq] at h; exact (hc b (by simp)).2.2.2.2 h

theorem plain_of_refname {n : Bytes} (h : checkRefFormat n = some true) : Plain n ∧ n ≠ [] := by
  rw [checkRefFormat_unfold] at h
  obtain ⟨_, hslash, _, hchars, _⟩ := h
  constructor
  · intro c hc
    have := hchars c hc
    refine ⟨?_, ?_, ?_⟩
    · intro h; subst h; exact this.1 (by decide)
    · intro h; subst h; exact this.1 (by decide)
    · intro h; subst h; exact this.2 (by decide)
  · intro h0; subst h0; simp at hslash

def EntryOk (e : Entry) : Prop :=
  validHexSha e.sha = true ∧ checkRefFormat e.name = some true ∧ ∀ p, e.peeled = some p → validHexSha p = true

def refLine (e : Entry) : Bytes := e.sha ++ 32 :: e.name
def peeledLines (e : Entry) : List Bytes :=
  match e.peeled with
  | some p => [packedCaret :: p ++ [10]]
  | none => []
def entryLines (e : Entry) : List Bytes := (refLine e ++ [10]) :: peeledLines e

theorem refLine_plain {e : Entry} (h : EntryOk e) : (10 : UInt8) ∉ refLine e := by
  obtain ⟨hs, hn, _⟩ := h
  have h1 := (plain_of_hex hs).1
  have h2 := (plain_of_refname hn).1
  intro hm
  simp only [refLine, List.mem_append, List.mem_cons] at hm
  rcases hm with hm | hm | hm
  · exact (h1 _ hm).1 rfl
  · revert hm; decide
  · exact (h2 _ hm).1 rfl

theorem lines_writeEntries : ∀ (es : List Entry), (∀ e ∈ es, EntryOk e) →
    lines (writeEntries es) = es.flatMap entryLines := by
  intro es
  induction es with
  | nil => intro _; simp [writeEntries, lines]
  | cons e r ih =>
    intro h
    have he := h e (by simp)
    have ihr := ih (fun x hx => h x (by simp [hx]))
    simp only [writeEntries, List.flatMap_cons, entryLines]
    have e1 : e.sha ++ 32 :: e.name ++ 10 :: (peeledBytes e ++ writeEntries r)
        = refLine e ++ 10 :: (peeledBytes e ++ writeEntries r) := by
      simp [refLine]
    rw [e1, lines_append_nl _ _ (refLine_plain he)]
    congr 1
    unfold peeledLines peeledBytes
    cases hp : e.peeled with
    | none => simpa using ihr
    | some p =>
      have hpv := he.2.2 p hp
      have hp10 : (10 : UInt8) ∉ packedCaret :: p := by
        intro hm
        simp only [List.mem_cons] at hm
        rcases hm with hm | hm
        · revert hm; decide
        · exact ((plain_of_hex hpv).1 _ hm).1 rfl
      have : (packedCaret :: p ++ [10]) ++ writeEntries r = (packedCaret :: p) ++ 10 :: writeEntries r := by simp
      simp only [this]
      rw [lines_append_nl _ _ hp10, ihr]
      simp

theorem last_ok {n : Bytes} (hp : Plain n) (hne : n ≠ []) : ∃ x c, n = x ++ [c] ∧ c ≠ 10 ∧ c ≠ 13 := by
  rcases List.eq_nil_or_concat n with h | ⟨x, c, h⟩
  · exact absurd h hne
  · have h' : n = x ++ [c] := by simpa using h
    refine ⟨x, c, h', ?_, ?_⟩
    · exact (hp c (by simp [h'])).1
    · exact (hp c (by simp [h'])).2.1

theorem splitRefLine_refLine {e : Entry} (h : EntryOk e) : splitRefLine (refLine e) = some (e.sha, e.name) := by
  obtain ⟨hs, hn, _⟩ := h
  obtain ⟨hps, _⟩ := plain_of_hex hs
  obtain ⟨hpn, hnn⟩ := plain_of_refname hn
  obtain ⟨x, c, hx, h10, h13⟩ := last_ok hpn hnn
  unfold splitRefLine
  have hstrip : rstripCRLF (refLine e) = refLine e := by
    have : refLine e = (e.sha ++ 32 :: x) ++ [c] := by simp [refLine, hx]
    rw [this]; exact rstripCRLF_snoc _ c h10 h13
  rw [hstrip]
  have h32s : (32 : UInt8) ∉ e.sha := fun hm => (hps _ hm).2.2 rfl
  have h32n : (32 : UInt8) ∉ e.name := fun hm => (hpn _ hm).2.2 rfl
  have : splitOnByte 32 (refLine e) = [e.sha, e.name] := by
    simp only [splitOnByte, refLine]
    rw [splitFirst_append_nosep 32 e.sha e.name h32s, splitFirst_nosep 32 e.name h32n]
  rw [this]
  simp [hs, hn]

theorem refLine_facts {e : Entry} (h : EntryOk e) :
    (refLine e ++ [10]).head? ≠ some packedComment ∧ rstripCRLF (refLine e ++ [10]) = refLine e ∧
    (refLine e).head? ≠ some packedCaret ∧ (refLine e).isEmpty = false := by
  obtain ⟨hs, hn, _⟩ := h
  obtain ⟨hps, hsne, hc1, hc2⟩ := plain_of_hex hs
  obtain ⟨hpn, hnn⟩ := plain_of_refname hn
  obtain ⟨x, c, hx, h10, h13⟩ := last_ok hpn hnn
  cases hsha : e.sha with
  | nil => exact absurd hsha hsne
  | cons b r =>
    rw [hsha] at hc1 hc2
    refine ⟨by simpa [refLine, hsha] using hc1, ?_, by simpa [refLine, hsha] using hc2, by simp [refLine, hsha]⟩
    have : refLine e ++ [10] = (e.sha ++ 32 :: x) ++ [c] ++ [10] := by simp [refLine, hx]
    rw [this, rstripCRLF_snoc_nl _ c h10 h13]
    simp [refLine, hx]

theorem peeledLine_facts {p : Bytes} (hp : validHexSha p = true) :
    (packedCaret :: p ++ [10]).head? ≠ some packedComment ∧
    rstripCRLF (packedCaret :: p ++ [10]) = packedCaret :: p := by
  obtain ⟨hpp, hne, _, _⟩ := plain_of_hex hp
  obtain ⟨x, c, hx, h10, h13⟩ := last_ok hpp hne
  refine ⟨by simp; decide, ?_⟩
  have : packedCaret :: p ++ [10] = (packedCaret :: x) ++ [c] ++ [10] := by simp [hx]
  rw [this, rstripCRLF_snoc_nl _ c h10 h13]
  simp [hx]

/-- reader state after the ref line of `e`: `last` is that line, the input continues with `e`'s peeled
line (if any) and the remaining entries -/
theorem readPeeled_pending : ∀ (es : List Entry), (∀ e ∈ es, EntryOk e) → ∀ (e : Entry), EntryOk e →
    readPeeled (peeledLines e ++ es.flatMap entryLines) (refLine e) = some (e :: es) := by
  intro es
  induction es with
  | nil =>
    intro _ e he
    obtain ⟨_, _, _, hnonempty⟩ := refLine_facts he
    unfold peeledLines
    cases hp : e.peeled with
    | none =>
      simp only [List.flatMap_nil, List.append_nil, readPeeled, hnonempty, Bool.false_eq_true, if_false,
        splitRefLine_refLine he, Option.map_some]
      cases e; simp_all
    | some p =>
      have hpv := he.2.2 p hp
      obtain ⟨hh, hstrip⟩ := peeledLine_facts hpv
      simp only [List.flatMap_nil, List.append_nil, List.cons_append, List.nil_append]
      unfold readPeeled
      simp only [hh, if_false, hstrip, List.head?_cons, if_true, hnonempty, Bool.false_eq_true, List.tail_cons,
        hpv, Bool.not_true, splitRefLine_refLine he]
      simp only [readPeeled, List.isEmpty_nil, if_true, Option.map_some]
      cases e; simp_all
  | cons e' es ih =>
    intro h e he
    have he' := h e' (by simp)
    have ih' := ih (fun x hx => h x (by simp [hx])) e' he'
    obtain ⟨_, _, _, hnonempty⟩ := refLine_facts he
    obtain ⟨hh', hstrip', hcaret', _⟩ := refLine_facts he'
    -- reading the ref line of `e'` with an empty or a pending `last`
    have hnext : ∀ (last : Bytes), readPeeled (List.flatMap entryLines (e' :: es)) last =
        if last.isEmpty then some (e' :: es)
        else match splitRefLine last with
          | none => none
          | some (s, n) => some ({ name := n, sha := s, peeled := none } :: e' :: es) := by
      intro last
      simp only [List.flatMap_cons, entryLines, List.cons_append]
      unfold readPeeled
      simp only [hh', if_false, hstrip', hcaret', ih']
      split
      · rfl
      · split <;> simp_all
    unfold peeledLines
    cases hp : e.peeled with
    | none =>
      simp only [List.nil_append, hnext, hnonempty, Bool.false_eq_true, if_false, splitRefLine_refLine he]
      cases e; simp_all
    | some p =>
      have hpv := he.2.2 p hp
      obtain ⟨hh, hstrip⟩ := peeledLine_facts hpv
      simp only [List.cons_append, List.nil_append]
      unfold readPeeled
      simp only [hh, if_false, hstrip, List.head?_cons, if_true, hnonempty, Bool.false_eq_true, List.tail_cons,
        hpv, Bool.not_true, splitRefLine_refLine he, hnext, List.isEmpty_nil, Option.map_some]
      cases e; simp_all

theorem readPeeled_entries (es : List Entry) (h : ∀ e ∈ es, EntryOk e) :
    readPeeled (es.flatMap entryLines) [] = some es := by
  cases es with
  | nil => simp [readPeeled]
  | cons e r =>
    have he := h e (by simp)
    obtain ⟨hh, hstrip, hcaret, _⟩ := refLine_facts he
    simp only [List.flatMap_cons, entryLines, List.cons_append]
    unfold readPeeled
    simp only [hh, if_false, hstrip, hcaret, List.isEmpty_nil, if_true]
    exact readPeeled_pending r (fun x hx => h x (by simp [hx])) e he


end Dulwich.PackedRefs
