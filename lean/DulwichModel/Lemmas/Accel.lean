/- Helper lemmas for Props/C14.lean. -/
import DulwichModel.Model.Accel
import DulwichModel.Model.Ewah
import DulwichModel.Model.CommitGraphFmt
import DulwichModel.Model.Midx
import Mathlib.Tactic.NormNum

deriving instance DecidableEq for Except

namespace Dulwich.CommitGraphFmt
open Dulwich

theorem consts_wf : NONE < MISSING ∧ MISSING < EXTRA ∧ LAST = EXTRA := by decide

theorem indexOf_mem (oids : List Bytes) (p : Bytes) (h : p ∈ oids) :
    ∃ j, indexOf oids p = some j ∧ j < oids.length ∧ oids[j]? = some p := by
  induction oids with
  | nil => cases h
  | cons x xs ih =>
    unfold indexOf
    by_cases hx : x = p
    · exact ⟨0, by simp [hx], by simp, by simp [hx]⟩
    · have hp : p ∈ xs := by
        cases h with
        | head => exact absurd rfl hx
        | tail _ h => exact h
      obtain ⟨j, h1, h2, h3⟩ := ih hp
      exact ⟨j + 1, by simp [hx, h1], by simp; omega, by simpa using h3⟩

theorem indexOf_none (oids : List Bytes) (p : Bytes) (h : p ∉ oids) : indexOf oids p = none := by
  induction oids with
  | nil => rfl
  | cons x xs ih =>
    unfold indexOf
    have hx : ¬ x = p := fun e => h (by simp [e])
    rw [if_neg hx, ih (fun hp => h (by simp [hp]))]
    rfl

theorem parentPos_mem {oids : List Bytes} {p : Bytes} (h : p ∈ oids) :
    oids[parentPos oids p]? = some p ∧ parentPos oids p < oids.length := by
  obtain ⟨j, h1, h2, h3⟩ := indexOf_mem oids p h
  have e : parentPos oids p = j := by simp [parentPos, h1]
  rw [e]; exact ⟨h3, h2⟩

theorem parentPos_not_mem {oids : List Bytes} {p : Bytes} (h : p ∉ oids) : parentPos oids p = MISSING := by
  simp [parentPos, indexOf_none oids p h]

/-- the reader on the words the writer emits for the second and further parents of one commit: all of them,
in order, if they are all in the file — "unknown" as soon as one is not -/
theorem parseExtraEdges_flagLast (oids : List Bytes) (hn : oids.length < NONE) :
    ∀ (ps : List Bytes), ps ≠ [] → ∀ (post : List Nat),
      parseExtraEdges oids (flagLast (ps.map (parentPos oids)) ++ post) =
        if (∀ p ∈ ps, p ∈ oids) then some ps else none := by
  obtain ⟨c1, c2, c3⟩ := consts_wf
  intro ps
  induction ps with
  | nil => intro h; exact absurd rfl h
  | cons a t ih =>
    intro _ post
    cases t with
    | nil =>
      simp only [List.map_cons, List.map_nil, flagLast, List.cons_append, List.nil_append, parseExtraEdges]
      by_cases ha : a ∈ oids
      · obtain ⟨g1, g2⟩ := parentPos_mem ha
        have h1 : parentPos oids a + LAST ≥ LAST := by omega
        have h2 : parentPos oids a + LAST - LAST = parentPos oids a := by omega
        have h3 : ¬ (parentPos oids a = MISSING) := by omega
        simp only [h1, if_true, h2, h3, if_false, g1]
        simp [ha]
      · have h0 := parentPos_not_mem ha
        have h1 : parentPos oids a + LAST ≥ LAST := by omega
        have h2 : parentPos oids a + LAST - LAST = MISSING := by omega
        simp only [h1, if_true, h2]
        simp [ha]
    | cons b r =>
      have ihh := ih (by simp) post
      simp only [List.map_cons, flagLast, List.cons_append, parseExtraEdges] at ihh ⊢
      by_cases ha : a ∈ oids
      · obtain ⟨g1, g2⟩ := parentPos_mem ha
        have h1 : ¬ (parentPos oids a ≥ LAST) := by omega
        have h3 : ¬ (parentPos oids a = MISSING) := by omega
        simp only [h1, if_false, h3, g1]
        rw [show flagLast (parentPos oids b :: List.map (parentPos oids) r) ++ post =
          flagLast (List.map (parentPos oids) (b :: r)) ++ post from rfl] at *
        rw [ihh]
        by_cases hall : ∀ p ∈ b :: r, p ∈ oids
        · rw [if_pos hall]
          have : ∀ p ∈ a :: b :: r, p ∈ oids := by
            intro p hp; cases hp with
            | head => exact ha
            | tail _ hp => exact hall p hp
          rw [if_pos this]
        · rw [if_neg hall]
          have : ¬ ∀ p ∈ a :: b :: r, p ∈ oids := fun h => hall (fun p hp => h p (by simp [hp]))
          rw [if_neg this]
      · have h0 := parentPos_not_mem ha
        have h1 : ¬ (MISSING ≥ LAST) := by omega
        rw [h0]
        simp only [h1, if_false, if_true]
        have : ¬ ∀ p ∈ a :: b :: r, p ∈ oids := fun h => ha (h a (by simp))
        rw [if_neg this]


/-- what the file is allowed to say about a commit with (real) parents `ps`: the full list, or "unknown" -/
def answerFor (oids : List Bytes) (ps : List Bytes) : Option (List Bytes) :=
  if (∀ p ∈ ps, p ∈ oids) then some ps else none

theorem firstSlot_pos {oids : List Bytes} {p1 : Nat} {o : Bytes} (h : p1 < NONE) (e : oids[p1]? = some o) :
    firstSlot oids p1 = .ok (some [o]) := by
  unfold firstSlot; rw [if_pos h, e]

theorem firstSlot_missing (oids : List Bytes) : firstSlot oids MISSING = .ok none := by
  have h : ¬ (MISSING < NONE) := by have := consts_wf.1; omega
  unfold firstSlot; rw [if_neg h, if_pos rfl]

theorem firstSlot_none (oids : List Bytes) : firstSlot oids NONE = .ok (some []) := by
  have h : ¬ (NONE < NONE) := by omega
  have h2 : ¬ (NONE = MISSING) := by have := consts_wf.1; omega
  unfold firstSlot; rw [if_neg h, if_neg h2]

theorem secondSlot_pos {oids : List Bytes} {E : Option (List Nat)} {a : Option (List Bytes)} {p2 : Nat} {o : Bytes}
    (h : p2 < NONE) (e : oids[p2]? = some o) : secondSlot oids E a p2 = .ok (a.map (· ++ [o])) := by
  unfold secondSlot; rw [if_pos h, e]

theorem secondSlot_missing (oids : List Bytes) (E : Option (List Nat)) (a : Option (List Bytes)) :
    secondSlot oids E a MISSING = .ok none := by
  have h : ¬ (MISSING < NONE) := by have := consts_wf.1; omega
  unfold secondSlot; rw [if_neg h, if_pos rfl]

theorem secondSlot_none (oids : List Bytes) (E : Option (List Nat)) (a : Option (List Bytes)) :
    secondSlot oids E a NONE = .ok a := by
  obtain ⟨c1, c2, _⟩ := consts_wf
  have h : ¬ (NONE < NONE) := by omega
  have h2 : ¬ (NONE = MISSING) := by omega
  have h3 : ¬ (NONE ≥ EXTRA) := by omega
  unfold secondSlot; rw [if_neg h, if_neg h2, if_neg h3]

theorem secondSlot_edges (oids : List Bytes) (ws : List Nat) (a : Option (List Bytes)) (n : Nat) :
    secondSlot oids (some ws) a (EXTRA + n) =
      .ok (match a, parseExtraEdges oids (ws.drop n) with
        | some x, some y => some (x ++ y)
        | _, _ => none) := by
  obtain ⟨c1, c2, _⟩ := consts_wf
  have h : ¬ (EXTRA + n < NONE) := by omega
  have h2 : ¬ (EXTRA + n = MISSING) := by omega
  have h3 : EXTRA + n ≥ EXTRA := by omega
  have h4 : EXTRA + n - EXTRA = n := by omega
  unfold secondSlot; rw [if_neg h, if_neg h2, if_pos h3, h4]
  cases a <;> rfl

theorem decodeParents_eq (oids : List Bytes) (E : Option (List Nat)) (p1 p2 : Nat) (a : Option (List Bytes))
    (h : firstSlot oids p1 = .ok a) : decodeParents oids E p1 p2 = secondSlot oids E a p2 := by
  unfold decodeParents; rw [h]

/-- the reader undoes the writer's encoding of ONE entry; for three or more parents the complete edge list must
contain this entry's words at the offset the writer recorded -/
theorem decode_encodeParents (oids : List Bytes) (hn : oids.length < NONE) (ps : List Bytes) (m : Nat)
    (E : Option (List Nat))
    (hE : ps.length > 2 → ∃ pre post, E = some (pre ++ ((encodeParents oids (some ps) m).2.2 ++ post)) ∧ pre.length = m) :
    decodeParents oids E (encodeParents oids (some ps) m).1 (encodeParents oids (some ps) m).2.1 =
      .ok (answerFor oids ps) := by
  unfold answerFor
  cases ps with
  | nil =>
    simp only [encodeParents]
    rw [decodeParents_eq _ _ _ _ _ (firstSlot_none oids), secondSlot_none]
    simp
  | cons a t =>
    cases t with
    | nil =>
      simp only [encodeParents]
      by_cases ha : a ∈ oids
      · obtain ⟨g1, g2⟩ := parentPos_mem ha
        rw [decodeParents_eq _ _ _ _ _ (firstSlot_pos (by omega) g1), secondSlot_none]
        simp [ha]
      · rw [parentPos_not_mem ha, decodeParents_eq _ _ _ _ _ (firstSlot_missing oids), secondSlot_none]
        simp [ha]
    | cons b t2 =>
      cases t2 with
      | nil =>
        simp only [encodeParents]
        by_cases ha : a ∈ oids
        · obtain ⟨g1, g2⟩ := parentPos_mem ha
          rw [decodeParents_eq _ _ _ _ _ (firstSlot_pos (by omega) g1)]
          by_cases hb : b ∈ oids
          · obtain ⟨k1, k2⟩ := parentPos_mem hb
            rw [secondSlot_pos (by omega) k1]
            simp [ha, hb]
          · rw [parentPos_not_mem hb, secondSlot_missing]
            simp [hb]
        · rw [parentPos_not_mem ha, decodeParents_eq _ _ _ _ _ (firstSlot_missing oids)]
          by_cases hb : b ∈ oids
          · obtain ⟨k1, k2⟩ := parentPos_mem hb
            rw [secondSlot_pos (by omega) k1]
            simp [ha]
          · rw [parentPos_not_mem hb, secondSlot_missing]
            simp [ha]
      | cons c rest =>
        obtain ⟨pre, post, rfl, hpre⟩ := hE (by simp)
        simp only [encodeParents]
        have hx := parseExtraEdges_flagLast oids hn (b :: c :: rest) (by simp) post
        by_cases ha : a ∈ oids
        · obtain ⟨g1, g2⟩ := parentPos_mem ha
          rw [decodeParents_eq _ _ _ _ _ (firstSlot_pos (by omega) g1), ← hpre, secondSlot_edges,
            List.drop_left, hx]
          by_cases hall : ∀ p ∈ b :: c :: rest, p ∈ oids
          · have : ∀ p ∈ a :: b :: c :: rest, p ∈ oids := by
              intro p hp; cases hp with
              | head => exact ha
              | tail _ hp => exact hall p hp
            rw [if_pos hall, if_pos this]; rfl
          · have : ¬ ∀ p ∈ a :: b :: c :: rest, p ∈ oids := fun h => hall (fun p hp => h p (by simp [hp]))
            rw [if_neg hall, if_neg this]
        · rw [parentPos_not_mem ha, decodeParents_eq _ _ _ _ _ (firstSlot_missing oids), ← hpre, secondSlot_edges]
          have : ¬ ∀ p ∈ a :: b :: c :: rest, p ∈ oids := fun h => ha (h a (by simp))
          rw [if_neg this]

/-- where entry `i` ends up in the output of the writer's loop -/
theorem encodeAll_spec (oids : List Bytes) : ∀ (pss : List (Option (List Bytes))) (n i : Nat) (ps : Option (List Bytes)),
    pss[i]? = some ps →
      ∃ pre post, (encodeAll oids pss n).1[i]? =
          some ((encodeParents oids ps (n + pre.length)).1, (encodeParents oids ps (n + pre.length)).2.1) ∧
        (encodeAll oids pss n).2 = pre ++ ((encodeParents oids ps (n + pre.length)).2.2 ++ post) := by
  intro pss
  induction pss with
  | nil => intro n i ps hi; simp at hi
  | cons q more ih =>
    intro n i ps hi
    cases i with
    | zero =>
      simp at hi; subst hi
      exact ⟨[], (encodeAll oids more (n + (encodeParents oids q n).2.2.length)).2, by simp [encodeAll], by simp [encodeAll]⟩
    | succ i =>
      simp at hi
      obtain ⟨pre, post, g1, g2⟩ := ih (n + (encodeParents oids q n).2.2.length) i ps hi
      refine ⟨(encodeParents oids q n).2.2 ++ pre, post, ?_, ?_⟩
      · have e : n + ((encodeParents oids q n).2.2 ++ pre).length = n + (encodeParents oids q n).2.2.length + pre.length := by
          simp; omega
        rw [e]; simpa [encodeAll] using g1
      · have e : n + ((encodeParents oids q n).2.2 ++ pre).length = n + (encodeParents oids q n).2.2.length + pre.length := by
          simp; omega
        rw [e]; simp [encodeAll, g2]

theorem flagLast_ne_nil : ∀ (r : List Nat), r ≠ [] → flagLast r ≠ [] := by
  intro r h
  match r, h with
  | [x], _ => simp [flagLast]
  | x :: y :: t, _ => simp [flagLast]

/-- every answer of the written file about entry `i`: the full parent list if all parents are in the file,
"unknown" otherwise — never anything else -/
theorem roundTrip_answer (es : List (Bytes × List Bytes)) (i : Nat) (e : Bytes × List Bytes)
    (hn : es.length < NONE) (hi : es[i]? = some e) :
    roundTripParents es i = some (.ok (answerFor (es.map (·.1)) e.2)) := by
  have hi2 : (es.map (fun e => some e.2))[i]? = some (some e.2) := by simp [hi]
  obtain ⟨pre, post, g1, g2⟩ := encodeAll_spec (es.map (·.1)) _ 0 i (some e.2) hi2
  unfold roundTripParents
  simp only [g1]
  congr 1
  apply decode_encodeParents (es.map (·.1)) (by simpa using hn) e.2 (0 + pre.length)
  intro hlen
  have hew : (encodeParents (es.map (·.1)) (some e.2) (0 + pre.length)).2.2 ≠ [] := by
    match h : e.2, hlen with
    | a :: b :: c :: rest, _ =>
      simp only [encodeParents]
      exact flagLast_ne_nil _ (by simp)
  refine ⟨pre, post, ?_, by simp⟩
  have hne : (encodeAll (es.map (·.1)) (es.map (fun e => some e.2)) 0).2.isEmpty = false := by
    rw [g2]
    generalize (encodeParents (es.map (·.1)) (some e.2) (0 + pre.length)).2.2 = ew at hew
    cases pre <;> cases ew <;> simp_all
  rw [hne, g2]
  rfl

/-- the reader on C git's encoding of extra edges (all positions valid) -/
theorem parseExtraEdges_spec (oids : List Bytes) (hn : oids.length < NONE) : ∀ (init : List Nat) (last : Nat) (junk : List Nat),
    (∀ p ∈ init, p < oids.length) → last < oids.length →
    parseExtraEdges oids (init ++ [last + LAST] ++ junk) = some ((init ++ [last]).filterMap (oids[·]?)) := by
  obtain ⟨c1, c2, c3⟩ := consts_wf
  intro init
  induction init with
  | nil =>
    intro last junk _ hl
    have h1 : last + LAST ≥ LAST := by omega
    have h2 : last + LAST - LAST = last := by omega
    have h3 : ¬ (last = MISSING) := by omega
    have : oids[last]? = some oids[last] := by simp [hl]
    simp only [List.nil_append, List.cons_append, parseExtraEdges, h1, if_true, h2, h3, if_false, this]
    simp [this]
  | cons p ps ih =>
    intro last junk hin hl
    have hp := hin p (by simp)
    have h1 : ¬ (p ≥ LAST) := by omega
    have h3 : ¬ (p = MISSING) := by omega
    have : oids[p]? = some oids[p] := by simp [hp]
    simp only [List.cons_append, parseExtraEdges, h1, if_false, h3, this]
    rw [ih last junk (fun q hq => hin q (by simp [hq])) hl]
    simp [this]

theorem decodeParents_edges (oids : List Bytes) (pre init junk : List Nat) (p1 last : Nat)
    (h1 : p1 < oids.length) (hn : oids.length < NONE)
    (hin : ∀ p ∈ init, p < oids.length) (hl : last < oids.length) :
    decodeParents oids (some (pre ++ (init ++ [last + LAST] ++ junk))) p1 (EXTRA + pre.length) =
      .ok (some ((p1 :: (init ++ [last])).filterMap (oids[·]?))) := by
  have e : oids[p1]? = some oids[p1] := by simp [h1]
  rw [decodeParents_eq _ _ _ _ _ (firstSlot_pos (by omega) e), secondSlot_edges, List.drop_left,
    parseExtraEdges_spec oids hn init last junk hin hl]
  simp [e]

end Dulwich.CommitGraphFmt


namespace Dulwich.Ewah
open Dulwich

/-! ### EWAH: word-level round trip -/

theorem takeRun_spec (v : Nat) : ∀ ws : List Nat,
    ws = List.replicate (takeRun v ws).1 v ++ (takeRun v ws).2 := by
  intro ws
  induction ws with
  | nil => simp [takeRun]
  | cons w ws ih =>
    unfold takeRun
    by_cases h : w = v
    · simp only [h, if_true]
      rw [List.replicate_succ, List.cons_append, ← ih]
    · simp [h]

theorem takeRun_len (v : Nat) (ws : List Nat) :
    (takeRun v ws).1 + (takeRun v ws).2.length = ws.length := by
  have h := congrArg List.length (takeRun_spec v ws)
  simp at h
  omega

theorem takeRun_pos (v : Nat) (ws : List Nat) : 1 ≤ (takeRun v (v :: ws)).1 := by
  simp [takeRun]

theorem takeLits_spec (mx : Nat) : ∀ (ws : List Nat) (n : Nat),
    ws = (takeLits mx n ws).1 ++ (takeLits mx n ws).2 := by
  intro ws
  induction ws with
  | nil => intro n; simp [takeLits]
  | cons w ws ih =>
    intro n
    unfold takeLits
    by_cases h : w ≠ 0 ∧ w ≠ allOnes
    · rw [if_pos h]
      by_cases h2 : n + 1 ≥ mx
      · rw [if_pos h2]; rfl
      · rw [if_neg h2]
        show w :: ws = w :: ((takeLits mx (n + 1) ws).1 ++ (takeLits mx (n + 1) ws).2)
        rw [← ih (n + 1)]
    · rw [if_neg h]; rfl

theorem takeLits_len (mx : Nat) (ws : List Nat) (n : Nat) :
    (takeLits mx n ws).1.length + (takeLits mx n ws).2.length = ws.length := by
  have h := congrArg List.length (takeLits_spec mx ws n)
  simp at h
  omega

theorem takeLits_pos (mx n w : Nat) (ws : List Nat) (h0 : w ≠ 0) (h1 : w ≠ allOnes) :
    1 ≤ (takeLits mx n (w :: ws)).1.length := by
  unfold takeLits
  rw [if_pos ⟨h0, h1⟩]
  by_cases h2 : n + 1 ≥ mx
  · rw [if_pos h2]; simp
  · rw [if_neg h2]; simp

theorem takeLitsDec_append (M : Nat) : ∀ (l : List Nat) (cur : Nat) (rest : List Nat),
    cur + l.length ≤ M → takeLitsDec M l.length cur (l ++ rest) = .ok (l, rest) := by
  intro l
  induction l with
  | nil => intro cur rest _; simp [takeLitsDec]
  | cons x l ih =>
    intro cur rest h
    simp only [List.length_cons] at h
    have h1 : ¬ (cur + 1 > M) := by omega
    simp only [List.length_cons, List.cons_append, takeLitsDec, h1, if_false]
    rw [ih (cur + 1) rest (by omega)]

theorem rlw_fields (nl rl rb : Nat) (hrl : rl < 2 ^ 32) (hrb : rb < 2) :
    rlw nl rl rb % 2 = rb ∧ runLenOf (rlw nl rl rb) = rl ∧ litCntOf (rlw nl rl rb) = nl := by
  have e1 : Gen.Accel.ewahLitShiftEnc = 33 := rfl
  have e2 : Gen.Accel.ewahRunShiftEnc = 1 := rfl
  have d1 : Gen.Accel.ewahRunShiftDec = 1 := rfl
  have d2 : Gen.Accel.ewahLitShiftDec = 33 := rfl
  have m : Gen.Accel.ewahRunMask = 4294967295 := rfl
  unfold rlw runLenOf litCntOf
  rw [e1, e2, d1, d2, m]
  norm_num at hrl ⊢
  omega

theorem decodeWordsAux_nil (M fuel cur : Nat) : decodeWordsAux M fuel cur [] = .ok [] := by
  cases fuel <;> simp [decodeWordsAux]

theorem allOnes_ne_zero : allOnes ≠ 0 := by
  show Gen.Accel.ewahAllOnes ≠ 0
  unfold Gen.Accel.ewahAllOnes
  omega

theorem decode_chunk (M f cur n rb : Nat) (l tail dtail : List Nat)
    (hn : n < 2 ^ 32) (hrb : rb < 2) (hM : cur + n + l.length ≤ M)
    (ht : decodeWordsAux M f (cur + n + l.length) tail = .ok dtail) :
    decodeWordsAux M (f + 1) cur (rlw l.length n rb :: (l ++ tail)) =
      .ok (List.replicate n (if rb = 1 then allOnes else 0) ++ l ++ dtail) := by
  obtain ⟨h1, h2, h3⟩ := rlw_fields l.length n rb hn hrb
  have hc : ¬ (n > 0 ∧ cur + n > M) := by omega
  rw [decodeWordsAux]
  rw [h2, h3, h1, if_neg hc, takeLitsDec_append M l (cur + n) tail (by omega)]
  simp only [ht]


theorem encode_decode_aux (mx M : Nat) : ∀ (fuelE : Nat) (ws : List Nat) (cur fuelD : Nat),
    ws.length ≤ fuelE → (encodeWordsAux mx fuelE ws).length ≤ fuelD → cur + ws.length ≤ M →
    ws.length < 2 ^ 32 →
    decodeWordsAux M fuelD cur (encodeWordsAux mx fuelE ws) = .ok ws := by
  intro fuelE
  induction fuelE with
  | zero =>
    intro ws cur fuelD h _ _ _
    have : ws = [] := List.length_eq_zero_iff.mp (by omega)
    subst this
    simp [encodeWordsAux, decodeWordsAux_nil]
  | succ fuelE ih =>
    intro ws cur fuelD hf hd hM h32
    cases ws with
    | nil => simp [encodeWordsAux, decodeWordsAux_nil]
    | cons w rest =>
      by_cases hrun : w = 0 ∨ w = allOnes
      · -- a run of identical words followed by literals
        have hsplit := takeRun_spec w (w :: rest)
        have hlen := takeRun_len w (w :: rest)
        have hpos := takeRun_pos w rest
        have hl := takeLits_spec mx (takeRun w (w :: rest)).2 0
        have hll := takeLits_len mx (takeRun w (w :: rest)).2 0
        simp only [List.length_cons] at hlen hf hM h32
        have henc : encodeWordsAux mx (fuelE + 1) (w :: rest) =
            rlw (takeLits mx 0 (takeRun w (w :: rest)).2).1.length (takeRun w (w :: rest)).1
              (if w = allOnes then 1 else 0) ::
            ((takeLits mx 0 (takeRun w (w :: rest)).2).1 ++
              encodeWordsAux mx fuelE (takeLits mx 0 (takeRun w (w :: rest)).2).2) := by
          simp [encodeWordsAux, hrun]
        rw [henc] at hd ⊢
        simp only [List.length_cons, List.length_append] at hd
        obtain ⟨f, rfl⟩ : ∃ f, fuelD = f + 1 := ⟨fuelD - 1, by omega⟩
        have hrb : (if w = allOnes then 1 else 0) < 2 := by split <;> omega
        rw [decode_chunk M f cur _ _ _ _ _ (by omega) hrb (by omega)
          (ih _ _ f (by omega) (by omega) (by omega) (by omega))]
        congr 1
        have hval : (if (if w = allOnes then 1 else 0) = 1 then allOnes else 0) = w := by
          rcases hrun with h | h
          · subst h; simp [Ne.symm allOnes_ne_zero]
          · subst h; simp
        rw [hval, List.append_assoc, ← hl, ← hsplit]
      · -- literals only
        have h0 : w ≠ 0 := fun h => hrun (Or.inl h)
        have h1 : w ≠ allOnes := fun h => hrun (Or.inr h)
        have hl := takeLits_spec mx (w :: rest) 0
        have hll := takeLits_len mx (w :: rest) 0
        have hpos := takeLits_pos mx 0 w rest h0 h1
        simp only [List.length_cons] at hll hf hM h32
        have henc : encodeWordsAux mx (fuelE + 1) (w :: rest) =
            rlw (takeLits mx 0 (w :: rest)).1.length 0 0 ::
            ((takeLits mx 0 (w :: rest)).1 ++ encodeWordsAux mx fuelE (takeLits mx 0 (w :: rest)).2) := by
          simp [encodeWordsAux, hrun]
        rw [henc] at hd ⊢
        simp only [List.length_cons, List.length_append] at hd
        obtain ⟨f, rfl⟩ : ∃ f, fuelD = f + 1 := ⟨fuelD - 1, by omega⟩
        rw [decode_chunk M f cur 0 0 _ _ _ (by omega) (by omega) (by omega)
          (ih _ _ f (by omega) (by omega) (by omega) (by omega))]
        congr 1
        simp only [List.replicate_zero, List.nil_append]
        exact hl.symm



theorem takeLitsDec_spec (M : Nat) : ∀ (n cur : Nat) (ws l r : List Nat),
    takeLitsDec M n cur ws = .ok (l, r) → cur ≤ M → cur + l.length ≤ M ∧ ws = l ++ r := by
  intro n
  induction n with
  | zero =>
    intro cur ws l r h hc
    simp only [takeLitsDec, Except.ok.injEq, Prod.mk.injEq] at h
    obtain ⟨rfl, rfl⟩ := h
    simp; omega
  | succ n ih =>
    intro cur ws l r h hc
    cases ws with
    | nil =>
      simp only [takeLitsDec, Except.ok.injEq, Prod.mk.injEq] at h
      obtain ⟨rfl, rfl⟩ := h
      simp; omega
    | cons w ws =>
      rw [takeLitsDec] at h
      by_cases hb : cur + 1 > M
      · rw [if_pos hb] at h; cases h
      · rw [if_neg hb] at h
        cases hr : takeLitsDec M n (cur + 1) ws with
        | error e => rw [hr] at h; cases h
        | ok pr =>
          obtain ⟨l', r'⟩ := pr
          rw [hr] at h
          simp only [Except.ok.injEq, Prod.mk.injEq] at h
          obtain ⟨rfl, rfl⟩ := h
          obtain ⟨h1, h2⟩ := ih (cur + 1) ws l' r' hr (by omega)
          refine ⟨by simp; omega, by simp [h2]⟩

/-- the decoder never produces more than `M` uncompressed words (counting the `cur` already produced) -/
theorem decodeWordsAux_bounded (M : Nat) : ∀ (fuel cur : Nat) (cw ws : List Nat),
    cur ≤ M → decodeWordsAux M fuel cur cw = .ok ws → cur + ws.length ≤ M := by
  intro fuel
  induction fuel with
  | zero => intro cur cw ws hc h; simp only [decodeWordsAux, Except.ok.injEq] at h; subst h; simpa using hc
  | succ fuel ih =>
    intro cur cw ws hc h
    cases cw with
    | nil => simp only [decodeWordsAux, Except.ok.injEq] at h; subst h; simpa using hc
    | cons w cw =>
      rw [decodeWordsAux] at h
      by_cases hb : runLenOf w > 0 ∧ cur + runLenOf w > M
      · rw [if_pos hb] at h; cases h
      · rw [if_neg hb] at h
        have hc2 : cur + runLenOf w ≤ M := by omega
        cases hl : takeLitsDec M (litCntOf w) (cur + runLenOf w) cw with
        | error e => rw [hl] at h; cases h
        | ok pr =>
          obtain ⟨lits, rest⟩ := pr
          rw [hl] at h
          simp only at h
          obtain ⟨h1, _⟩ := takeLitsDec_spec M _ _ _ _ _ hl hc2
          cases ht : decodeWordsAux M fuel (cur + runLenOf w + lits.length) rest with
          | error e => rw [ht] at h; cases h
          | ok tl =>
            rw [ht] at h
            simp only [Except.ok.injEq] at h
            subst h
            have := ih _ _ _ h1 ht
            simp only [List.length_append, List.length_replicate]
            omega

end Dulwich.Ewah

namespace Dulwich.Ewah
open Dulwich

/-! ### EWAH: byte level and bit level -/

theorem beBytes_length : ∀ (k v : Nat), (beBytes k v).length = k := by
  intro k
  induction k with
  | zero => intro v; rfl
  | succ k ih => intro v; simp [beBytes, ih]

theorem beVal_append_single (a : Bytes) (b : UInt8) : beVal (a ++ [b]) = beVal a * 256 + b.toNat := by
  simp [beVal, List.foldl_append]

theorem beVal_beBytes : ∀ (k v : Nat), v < 256 ^ k → beVal (beBytes k v) = v := by
  intro k
  induction k with
  | zero => intro v h; simp at h; subst h; rfl
  | succ k ih =>
    intro v h
    have h1 : v / 256 < 256 ^ k := by
      rw [Nat.pow_succ] at h
      exact Nat.div_lt_of_lt_mul (by omega)
    rw [beBytes, beVal_append_single, ih _ h1]
    have : (UInt8.ofNat (v % 256)).toNat = v % 256 := by
      rw [UInt8.toNat_ofNat']; omega
    rw [this]; omega

theorem readWords_flatMap : ∀ (cw : List Nat) (rest : Bytes), (∀ w ∈ cw, w < 2 ^ 64) →
    readWords cw.length (cw.flatMap (beBytes 8) ++ rest) = cw := by
  intro cw
  induction cw with
  | nil => intro rest _; rfl
  | cons c cs ih =>
    intro rest h
    have hc : c < 256 ^ 8 := by have := h c (by simp); norm_num at this ⊢; exact this
    have hl : (beBytes 8 c).length = 8 := beBytes_length 8 c
    simp only [List.length_cons, List.flatMap_cons, List.append_assoc, readWords]
    have h8 : ¬ ((beBytes 8 c ++ (cs.flatMap (beBytes 8) ++ rest)).length < 8) := by
      simp [hl]
    rw [if_neg h8, List.take_left' hl, List.drop_left' hl, beVal_beBytes 8 c hc,
      ih rest (fun w hw => h w (by simp [hw]))]

theorem decode_serialize (bc : Nat) (cw : List Nat) (bytes : Bytes) (h : serialize bc cw = .ok bytes) :
    decode bytes = (match decodeWords ((bc + 63) / 64) cw with
      | .ok ws => .ok (bc, ws)
      | .error e => .error e) := by
  unfold serialize at h
  by_cases hb : bc ≥ 2 ^ 32 ∨ cw.length ≥ 2 ^ 32 ∨ cw.any (· ≥ 2 ^ 64) = true
  · rw [if_pos hb] at h; cases h
  · rw [if_neg hb] at h
    simp only [Except.ok.injEq] at h
    have hbc : bc < 256 ^ 4 := by norm_num; omega
    have hlen : cw.length < 256 ^ 4 := by norm_num; omega
    have hall : ∀ w ∈ cw, w < 2 ^ 64 := by
      intro w hw
      have : ¬ (cw.any (· ≥ 2 ^ 64) = true) := fun h' => hb (Or.inr (Or.inr h'))
      simp only [List.any_eq_true, decide_eq_true_eq, not_exists, not_and] at this
      have := this w hw
      omega
    have l4a : (beBytes 4 bc).length = 4 := beBytes_length 4 bc
    have l4b : (beBytes 4 cw.length).length = 4 := beBytes_length 4 _
    subst h
    unfold decode
    have h8 : ¬ ((beBytes 4 bc ++ beBytes 4 cw.length ++ cw.flatMap (beBytes 8) ++ beBytes 4 0).length < 8) := by
      simp only [List.length_append, l4a, l4b]; omega
    rw [if_neg h8]
    simp only [List.append_assoc]
    rw [List.take_left' l4a, List.drop_left' l4a, List.take_left' l4b, beVal_beBytes 4 bc hbc,
      beVal_beBytes 4 _ hlen]
    have hd : List.drop 8 (beBytes 4 bc ++ (beBytes 4 cw.length ++ (cw.flatMap (beBytes 8) ++ beBytes 4 0)))
        = cw.flatMap (beBytes 8) ++ beBytes 4 0 := by
      rw [← List.append_assoc]
      exact List.drop_left' (by simp [l4a, l4b])
    rw [hd, readWords_flatMap cw _ hall]
    try rfl

theorem wordVal_bit : ∀ (l : List Bool) (j : Nat),
    wordVal l / 2 ^ j % 2 = if l.getD j false then 1 else 0 := by
  intro l
  induction l with
  | nil => intro j; simp [wordVal]
  | cons b bs ih =>
    intro j
    cases j with
    | zero => cases b <;> simp [wordVal]
    | succ j =>
      have : ((if b = true then 1 else 0) + 2 * wordVal bs) / 2 ^ (j + 1) = wordVal bs / 2 ^ j := by
        have e : 2 ^ (j + 1) = 2 * 2 ^ j := by rw [Nat.pow_succ, Nat.mul_comm]
        have e2 : ((if b = true then 1 else 0) + 2 * wordVal bs) / 2 = wordVal bs := by
          cases b
          · simp
          · simp; omega
        rw [e, ← Nat.div_div_eq_div_mul, e2]
      simp only [wordVal, this, ih j, List.getD_cons_succ]

theorem bitCount_spec : ∀ (bits : List Bool) (p : Nat), bitCount bits ≤ p → bits.getD p false = false := by
  intro bits
  induction bits with
  | nil => intro p _; rfl
  | cons b bs ih =>
    intro p h
    simp only [bitCount] at h
    cases p with
    | zero =>
      by_cases hn : bitCount bs = 0
      · rw [if_pos hn] at h
        cases b <;> simp_all
      · rw [if_neg hn] at h; omega
    | succ p =>
      simp only [List.getD_cons_succ]
      apply ih
      by_cases hn : bitCount bs = 0
      · omega
      · rw [if_neg hn] at h; omega

/-- the dense words `encode` builds hold exactly the bits of the bitmap -/
theorem wordsOfBits_bitAt (bits : List Bool) (p : Nat) : bitAt (wordsOfBits bits) p = bits.getD p false := by
  unfold bitAt wordsOfBits
  by_cases hp : p / 64 < (bitCount bits + 63) / 64
  · have : ((List.range ((bitCount bits + 63) / 64)).map
        (fun i => wordVal ((bits.drop (64 * i)).take 64))).getD (p / 64) 0
        = wordVal ((bits.drop (64 * (p / 64))).take 64) := by
      simp [List.getD_eq_getElem?_getD, List.getElem?_map, List.getElem?_range hp]
    rw [this, wordVal_bit]
    have hj : p % 64 < 64 := Nat.mod_lt _ (by omega)
    have : ((bits.drop (64 * (p / 64))).take 64).getD (p % 64) false = bits.getD p false := by
      simp only [List.getD_eq_getElem?_getD, List.getElem?_take, hj, if_true, List.getElem?_drop]
      congr 2
      omega
    rw [this]
    cases bits.getD p false <;> simp
  · have : ((List.range ((bitCount bits + 63) / 64)).map
        (fun i => wordVal ((bits.drop (64 * i)).take 64))).getD (p / 64) 0 = 0 := by
      simp only [List.getD_eq_getElem?_getD, List.getElem?_map]
      rw [List.getElem?_eq_none (by simp; omega)]
      rfl
    rw [this, bitCount_spec bits p (by omega)]
    simp

theorem wordsOfBits_length (bits : List Bool) : (wordsOfBits bits).length = (bitCount bits + 63) / 64 := by
  simp [wordsOfBits]

/-- `EWAHBitmap(b.encode())`: declared size and dense words are those of `b` -/
theorem decode_encode (bits : List Bool) (bytes : Bytes) (h : encode bits = .ok bytes) :
    decode bytes = .ok (bitCount bits, wordsOfBits bits) := by
  unfold encode at h
  by_cases h0 : bitCount bits = 0
  · rw [if_pos h0] at h
    simp only [Except.ok.injEq] at h
    subst h
    have : wordsOfBits bits = [] := by simp [wordsOfBits, h0]
    rw [this, h0]
    decide
  · rw [if_neg h0] at h
    rw [decode_serialize _ _ _ h]
    have h32 : bitCount bits < 2 ^ 32 := by
      unfold serialize at h
      by_cases hb : bitCount bits ≥ 2 ^ 32 ∨ (encodeWords (wordsOfBits bits)).length ≥ 2 ^ 32 ∨
          (encodeWords (wordsOfBits bits)).any (· ≥ 2 ^ 64) = true
      · rw [if_pos hb] at h; cases h
      · omega
    have hl := wordsOfBits_length bits
    have hrt : decodeWords ((bitCount bits + 63) / 64) (encodeWords (wordsOfBits bits)) = .ok (wordsOfBits bits) := by
      unfold decodeWords encodeWords
      exact encode_decode_aux maxLit _ _ _ 0 _ (Nat.le_refl _) (Nat.le_refl _) (by omega) (by omega)
    rw [hrt]

end Dulwich.Ewah

namespace Dulwich.Midx
open Dulwich

theorem sorted_lt {oids : List Nat} (hs : oids.Pairwise (· < ·)) {i j : Nat} {a b : Nat}
    (hi : oids[i]? = some a) (hj : oids[j]? = some b) (hij : i < j) : a < b := by
  have h := List.pairwise_iff_getElem.mp hs
  obtain ⟨hi', rfl⟩ := List.getElem?_eq_some_iff.mp hi
  obtain ⟨hj', rfl⟩ := List.getElem?_eq_some_iff.mp hj
  exact h i j hi' hj' hij

theorem bisect_correct (oids : List Nat) (sha : Nat) (hs : oids.Pairwise (· < ·)) :
    ∀ (fuel lo hi : Nat), hi ≤ oids.length → hi - lo < fuel →
      (∃ j, lo ≤ j ∧ j < hi ∧ oids[j]? = some sha ∧ bisect oids sha fuel lo hi = .ok (some j)) ∨
      ((∀ j, lo ≤ j → j < hi → oids[j]? ≠ some sha) ∧ bisect oids sha fuel lo hi = .ok none) := by
  intro fuel
  induction fuel with
  | zero => intro lo hi _ h; omega
  | succ fuel ih =>
    intro lo hi hlen hf
    rw [bisect]
    by_cases hlt : lo < hi
    · rw [if_pos hlt]
      have hmid : (lo + hi) / 2 < oids.length := by omega
      obtain ⟨m, hm⟩ : ∃ m, oids[(lo + hi) / 2]? = some m := ⟨oids[(lo + hi) / 2], by simp [hmid]⟩
      rw [hm]
      simp only
      by_cases heq : m = sha
      · rw [if_pos heq]
        exact Or.inl ⟨(lo + hi) / 2, by omega, by omega, by rw [hm, heq], rfl⟩
      · rw [if_neg heq]
        by_cases hlt2 : m < sha
        · rw [if_pos hlt2]
          rcases ih ((lo + hi) / 2 + 1) hi hlen (by omega) with ⟨j, h1, h2, h3, h4⟩ | ⟨h1, h2⟩
          · exact Or.inl ⟨j, by omega, h2, h3, h4⟩
          · refine Or.inr ⟨?_, h2⟩
            intro j hj1 hj2 hj
            by_cases hjm : j ≤ (lo + hi) / 2
            · by_cases hje : j = (lo + hi) / 2
              · subst hje; rw [hm] at hj; cases hj; exact heq rfl
              · have := sorted_lt hs hj hm (by omega); omega
            · exact h1 j (by omega) hj2 hj
        · rw [if_neg hlt2]
          rcases ih lo ((lo + hi) / 2) (by omega) (by omega) with ⟨j, h1, h2, h3, h4⟩ | ⟨h1, h2⟩
          · exact Or.inl ⟨j, h1, by omega, h3, h4⟩
          · refine Or.inr ⟨?_, h2⟩
            intro j hj1 hj2 hj
            by_cases hjm : j < (lo + hi) / 2
            · exact h1 j hj1 hjm hj
            · by_cases hje : j = (lo + hi) / 2
              · subst hje; rw [hm] at hj; cases hj; exact heq rfl
              · have := sorted_lt hs hm hj (by omega); omega
    · rw [if_neg hlt]
      exact Or.inr ⟨fun j h1 h2 => by omega, rfl⟩

/-! fan-out windows of the writer -/

def countLe (b : Nat) (l : List Nat) : Nat := (l.filter (· ≤ b)).length

theorem countLe_gt {b : Nat} : ∀ {l : List Nat} (_ : l.Pairwise (· ≤ ·)) {j x : Nat},
    l[j]? = some x → x ≤ b → j < countLe b l := by
  intro l
  induction l with
  | nil => intro _ j x h; simp at h
  | cons y ys ih =>
    intro hs j x hj hx
    have hs' := List.pairwise_cons.mp hs
    cases j with
    | zero =>
      simp at hj; subst hj
      simp [countLe, hx]
    | succ j =>
      simp at hj
      have hy : y ≤ x := hs'.1 x (List.mem_of_getElem? hj)
      have := ih hs'.2 hj hx
      have hyb : y ≤ b := by omega
      simp only [countLe, List.filter_cons, decide_eq_true_eq, hyb, if_true, List.length_cons] at this ⊢
      omega

theorem countLe_le {b : Nat} : ∀ {l : List Nat} (_ : l.Pairwise (· ≤ ·)) {j x : Nat},
    l[j]? = some x → b < x → countLe b l ≤ j := by
  intro l
  induction l with
  | nil => intro _ j x h; simp at h
  | cons y ys ih =>
    intro hs j x hj hx
    have hs' := List.pairwise_cons.mp hs
    cases j with
    | zero =>
      simp at hj; subst hj
      have : ∀ z ∈ y :: ys, ¬ (z ≤ b) := by
        intro z hz
        cases hz with
        | head => omega
        | tail _ hz => have := hs'.1 z hz; omega
      simp only [countLe, Nat.le_zero, List.length_eq_zero_iff, List.filter_eq_nil_iff, decide_eq_true_eq]
      exact this
    | succ j =>
      simp at hj
      have := ih hs'.2 hj hx
      simp only [countLe, List.filter_cons] at this ⊢
      split
      · simp only [List.length_cons]; omega
      · omega


theorem writeFanout_getD (fbs : List Nat) (b : Nat) (hb : b < 256) :
    (writeFanout fbs).getD b 0 = countLe b fbs := by
  unfold writeFanout countLe
  simp [List.getD_eq_getElem?_getD, List.getElem?_map, List.getElem?_range hb]

theorem countLe_le_length (b : Nat) (l : List Nat) : countLe b l ≤ l.length := by
  unfold countLe; exact List.length_filter_le _ _

/-- lookup through the writer's fan-out finds exactly the ids that were written -/
theorem lookup_writeFanout (oids : List Nat) (fb : Nat → Nat) (hs : oids.Pairwise (· < ·))
    (hmono : ∀ a b, a ≤ b → fb a ≤ fb b) (h256 : ∀ a, fb a < 256) (sha : Nat) :
    (∃ j, oids[j]? = some sha ∧ lookup (writeFanout (oids.map fb)) oids (fb sha) sha = .ok (some j)) ∨
    (sha ∉ oids ∧ lookup (writeFanout (oids.map fb)) oids (fb sha) sha = .ok none) := by
  have hsorted : (oids.map fb).Pairwise (· ≤ ·) := by
    rw [List.pairwise_map]
    exact hs.imp (fun h => hmono _ _ (Nat.le_of_lt h))
  unfold lookup
  simp only
  rw [writeFanout_getD _ _ (h256 sha)]
  have hhi : countLe (fb sha) (oids.map fb) ≤ oids.length := by
    have := countLe_le_length (fb sha) (oids.map fb); simpa using this
  rcases bisect_correct oids sha hs (countLe (fb sha) (oids.map fb) + 1)
      (if fb sha = 0 then 0 else (writeFanout (oids.map fb)).getD (fb sha - 1) 0)
      (countLe (fb sha) (oids.map fb)) hhi (by omega) with ⟨j, _, _, h3, h4⟩ | ⟨h1, h2⟩
  · exact Or.inl ⟨j, h3, h4⟩
  · refine Or.inr ⟨?_, h2⟩
    intro hmem
    obtain ⟨j, hj⟩ := List.getElem?_of_mem hmem
    have hfj : (oids.map fb)[j]? = some (fb sha) := by simp [List.getElem?_map, hj]
    have hup := countLe_gt hsorted hfj (Nat.le_refl _)
    refine h1 j ?_ hup hj
    by_cases h0 : fb sha = 0
    · simp [h0]
    · rw [if_neg h0, writeFanout_getD _ _ (by have := h256 sha; omega)]
      exact countLe_le hsorted hfj (by omega)

/-! OOFF / LOFF spill -/

theorem encodeOffsets_length : ∀ (os : List Nat) (n : Nat), (encodeOffsets os n).1.length = os.length := by
  intro os
  induction os with
  | nil => intro n; simp [encodeOffsets]
  | cons o os ih =>
    intro n
    unfold encodeOffsets
    split <;> simp [ih]

/-- reading position `i` of the written OOFF words through the written LOFF table gives back offset `i`
(`pre` = large offsets spilled by earlier entries) -/
theorem decode_encodeOffsets : ∀ (os : List Nat) (pre : List Nat) (i : Nat) (o : Nat),
    os[i]? = some o → pre.length + os.length < 2 ^ 31 →
    ∃ w, (encodeOffsets os pre.length).1[i]? = some w ∧
      decodeOffset w (some (pre ++ (encodeOffsets os pre.length).2)) = .ok o := by
  intro os
  induction os with
  | nil => intro pre i o h; simp at h
  | cons x xs ih =>
    intro pre i o hi hlen
    have eF : Gen.Accel.midxLargeFlag = 2147483648 := rfl
    have eM : Gen.Accel.midxLargeMask = 2147483647 := rfl
    simp only [List.length_cons] at hlen
    cases i with
    | zero =>
      simp at hi; subst hi
      unfold encodeOffsets
      by_cases hl : x ≥ 2 ^ 31
      · rw [if_pos hl]
        refine ⟨Gen.Accel.midxLargeFlag + pre.length, by simp, ?_⟩
        unfold decodeOffset
        rw [eF, eM]
        have h1 : (2147483648 + pre.length) / 2147483648 % 2 = 1 := by omega
        have h2 : (2147483648 + pre.length) % (2147483647 + 1) = pre.length := by omega
        rw [if_pos h1, h2]
        simp
      · rw [if_neg hl]
        refine ⟨x, by simp, ?_⟩
        unfold decodeOffset
        rw [eF]
        have h1 : ¬ (x / 2147483648 % 2 = 1) := by omega
        rw [if_neg h1]
    | succ i =>
      simp at hi
      unfold encodeOffsets
      by_cases hl : x ≥ 2 ^ 31
      · rw [if_pos hl]
        obtain ⟨w, hw1, hw2⟩ := ih (pre ++ [x]) i o hi (by simp; omega)
        simp only [List.length_append, List.length_cons, List.length_nil, Nat.zero_add] at hw1 hw2
        refine ⟨w, by simpa using hw1, ?_⟩
        simpa [List.append_assoc] using hw2
      · rw [if_neg hl]
        obtain ⟨w, hw1, hw2⟩ := ih pre i o hi (by omega)
        exact ⟨w, by simpa using hw1, hw2⟩

end Dulwich.Midx
