/-
  Helper definitions and lemmas for C08 (Props/C08.lean).

  Part 1: the lock discipline (`Disc`) of an operation program over LOOSE refs, the per-ref specification
  (`specVal`), the ghost phase of an operation and the instrumented transition system that logs
  linearization events; the forward-simulation invariant.
  Part 2: the commit protocol over an atomic compare-and-swap register.
-/
import DulwichModel.Model.RefsFS

namespace Dulwich.RefsFS
open Prog

/-! ## Part 1 — loose refs -/

/-- what an actor has learnt about its ref since it took the lock -/
inductive Know where
  | unknown
  | is (v : Option Val)
  | present

def Know.cons : Know → Option Val → Prop
  | .unknown, _ => True
  | .is v, x => x = v
  | .present, x => x.isSome = true

/-- ghost phase of one operation -/
inductive Phase where
  | outside                      -- no lock, not linearized yet
  | locked (k : Know)            -- holds `<target>.lock`, not linearized yet
  | lockedDone (o : Outcome)     -- holds the lock, linearized (delete: after the loose file is gone)
  | finished (o : Outcome)       -- no lock, linearized with outcome `o`

def Phase.cons : Phase → Option Val → Prop
  | .locked k, x => k.cons x
  | _, _ => True

def Phase.holds : Phase → Bool
  | .locked _ => true
  | .lockedDone _ => true
  | _ => false

def Phase.outcome : Phase → Option Outcome
  | .lockedDone o => some o
  | .finished o => some o
  | _ => none

def statKnow (k : Know) (res : Bool) : Know :=
  if res then (match k with | .is v => .is v | _ => .present) else .is none

/-- ghost phase after a call with result `res`, `x` being the value of the target ref when the call executes -/
def nextPhase (op : Op) (t : Ref) (ph : Phase) : (c : Call) → ResT c → Option Val → Phase
  | .openR r, res, _ =>
    match ph with
    | .outside =>
      if r = t then
        match op with
        | .read _ => .finished (.val res)
        | .add _ _ => if Option.isSome (α := Val) res then .finished (.bool false) else .outside
        | _ => .outside
      else .outside
    | .locked k => if r = t then .locked (.is res) else .locked k
    | ph => ph
  | .statR r, res, _ =>
    match ph with
    | .locked k => if r = t then .locked (statKnow k res) else .locked k
    | ph => ph
  | .lstatR r, res, _ =>
    match ph with
    | .locked k => if r = t then .locked (statKnow k res) else .locked k
    | ph => ph
  | .openX _, res, _ =>
    match ph with
    | .outside => if (show Bool from res) then .locked .unknown else .finished (.exc .locked)
    | ph => ph
  | .replaceL _ _, _, x =>
    match ph with
    | .locked _ => .finished (specVal op x).2
    | ph => ph
  | .removeR _, _, x =>
    match ph with
    | .locked _ => .lockedDone (specVal op x).2
    | ph => ph
  | .removeL _, _, x =>
    match ph with
    | .locked _ => .finished (specVal op x).2
    | .lockedDone o => .finished o
    | ph => ph
  | _, _, _ => ph

/-- what the invariant guarantees about the result of a call (`x` = current value of the target) -/
def Compat (t : Ref) (ph : Phase) : (c : Call) → ResT c → Option Val → Prop
  | .openR r, res, x => ph.cons x ∧ IsSha x ∧ IsSha res ∧ (r = t → res = x)
  | .statR r, res, x => ph.cons x ∧ IsSha x ∧ (r = t → res = x.isSome)
  | .lstatR r, res, x => ph.cons x ∧ IsSha x ∧ (r = t → res = x.isSome)
  | .removeR r, res, x => ph.cons x ∧ IsSha x ∧ (r = t → res = x.isSome)
  | .statP, res, x => ph.cons x ∧ IsSha x ∧ res = none
  | .openRP, res, x => ph.cons x ∧ IsSha x ∧ res = none
  | _, _, x => ph.cons x ∧ IsSha x

/-- which calls an operation may make in which phase (the lock discipline) -/
def Pre (op : Op) (t : Ref) (ph : Phase) : Call → Prop
  | .start => True
  | .openR _ => True
  | .statR _ => True
  | .lstatR _ => True
  | .statP => True
  | .openRP => True
  | .scan => True
  | .fsyncL _ => True
  | .openX r => r = t ∧ ph = .outside
  | .replaceL r v => r = t ∧ IsSha (some v) ∧ ∃ k, ph = .locked k ∧ ∀ x, k.cons x → (specVal op x).1 = some v
  | .removeR r => r = t ∧ ∃ k, ph = .locked k ∧ ∀ x, k.cons x → (specVal op x).1 = none
  | .removeL r => r = t ∧ ((∃ k, ph = .locked k ∧ ∀ x, k.cons x → (specVal op x).1 = x) ∨ ∃ o, ph = .lockedDone o)
  | _ => False

def CacheOK (c : Cache) : Prop := c.loaded = true → c.key = none ∧ c.map = []

/-- The discipline: every call is permitted in the current phase and, whatever result compatible with the
invariant comes back, the continuation is disciplined; the operation returns exactly its linearized outcome. -/
def Disc (op : Op) (t : Ref) : Phase → Prog → Prop
  | ph, .ret o c => ph = .finished o ∧ CacheOK c
  | ph, .call c k => Pre op t ph c ∧
      ∀ (res : ResT c) (x : Option Val), Compat t ph c res x → Disc op t (nextPhase op t ph c res x) (k res)

theorem disc_ret {op : Op} {t : Ref} {ph : Phase} {o : Outcome} {c : Cache} :
    Disc op t ph (.ret o c) ↔ (ph = .finished o ∧ CacheOK c) := by
  simp [Disc]

theorem disc_call {op : Op} {t : Ref} {ph : Phase} {c : Call} {k : ResT c → Prog} :
    Disc op t ph (.call c k) ↔ (Pre op t ph c ∧
      ∀ (res : ResT c) (x : Option Val), Compat t ph c res x → Disc op t (nextPhase op t ph c res x) (k res)) := by
  simp [Disc]

theorem cacheOK_empty : CacheOK Cache.empty := by simp [CacheOK, Cache.empty]
theorem cacheOK_loaded : CacheOK ⟨true, none, []⟩ := by simp [CacheOK]

/-- `get_packed_refs` in the loose fragment: no packed-refs file, the answer is the empty map. -/
theorem disc_getPacked {op : Op} {t : Ref} {ph : Phase} {c : Cache} {k : PMap → Cache → Prog}
    (hc : CacheOK c) (hk : ∀ c', CacheOK c' → Disc op t ph (k [] c')) : Disc op t ph (getPacked c k) := by
  unfold getPacked
  by_cases hl : c.loaded = true
  · obtain ⟨hkey, hmap⟩ := hc hl
    simp only [hl, if_true, sStatP]
    refine (disc_call (c := .statP)).mpr ⟨by simp [Pre], ?_⟩
    intro res x hx
    obtain ⟨_, _, hres⟩ := hx
    subst hres
    simp only [nextPhase, hkey, if_true, hmap]
    exact hk c hc
  · simp only [hl, sOpenRP]
    refine (disc_call (c := .openRP)).mpr ⟨by simp [Pre], ?_⟩
    intro res x hx
    obtain ⟨_, _, hres⟩ := hx
    subst hres
    simp only [nextPhase]
    exact hk _ cacheOK_loaded

@[simp] theorem pmGet_nil (r : Ref) : pmGet [] r = none := rfl

theorem isSha_cases {v : Option Val} (h : IsSha v) : v = none ∨ ∃ s, v = some (.sha s) := by
  cases v with
  | none => exact Or.inl rfl
  | some v => cases v with
    | sha s => exact Or.inr ⟨s, rfl⟩
    | sym r => exact absurd h (by simp [IsSha])

theorem disc_read (env : Env) (vr : Variant) (r : Ref) (c : Cache) (hc : CacheOK c) :
    Disc (.read r) r .outside (compile env vr (.read r) c) := by
  simp only [compile, readRef, sOpenR]
  refine disc_call.mpr ⟨by simp [Pre], fun res x hx => ?_⟩
  obtain ⟨_, _, _, hres⟩ := hx
  have hres := hres rfl
  subst hres
  simp only [nextPhase, if_true]
  cases res with
  | some v => exact disc_ret.mpr ⟨rfl, hc⟩
  | none =>
    refine disc_getPacked hc fun c' hc' => ?_
    exact disc_ret.mpr ⟨by simp, hc'⟩

theorem depth_ok : ¬ (0 + 1 > Gen.RefsFS.symrefMaxDepth) := by decide

/-- `follow` on a ref that holds an object id (or nothing): one read, no recursion. -/
theorem disc_follow_quiet {op : Op} {t : Ref} {c : Cache} {k : Option (Ref × Option Sha) → Cache → Prog}
    (hq : ∀ res x, nextPhase op t .outside (.openR t) res x = .outside)
    (hc : CacheOK c)
    (hk : ∀ s c', CacheOK c' → Disc op t .outside (k (some (t, s)) c')) :
    Disc op t .outside (follow t c k) := by
  have hf : Gen.RefsFS.symrefMaxDepth + 2 = (Gen.RefsFS.symrefMaxDepth + 1) + 1 := rfl
  unfold follow
  rw [hf]
  simp only [followAux, readRef, sOpenR]
  refine disc_call.mpr ⟨by simp [Pre], fun res x hx => ?_⟩
  obtain ⟨_, _, hsha, _⟩ := hx
  rw [hq]
  rcases isSha_cases hsha with rfl | ⟨s, rfl⟩
  · refine disc_getPacked hc fun c' hc' => ?_
    simpa using hk none c' hc'
  · simp only [depth_ok, if_false]
    exact hk (some s) c hc

/-- the write half of `set_if_equals` (after the comparison succeeded or was not asked for) -/
theorem disc_cas_write (op : Op) (t : Ref) (new : Sha) (kn : Know) (c : Cache) (hc : CacheOK c)
    (hop : ∀ x, kn.cons x → specVal op x = (some (.sha new), .bool true)) :
    Disc op t (.locked kn)
      (sOpenR t fun cur =>
        if (match cur with
            | some v => some v
            | none => (pmGet [] t).map Val.sha) = some (Val.sha new)
        then sRemoveL t fun _ => Prog.ret (.bool true) c
        else sFsyncL t fun _ => sReplaceL t (.sha new) fun _ => Prog.ret (.bool true) c) := by
  simp only [sOpenR]
  refine disc_call.mpr ⟨by simp [Pre], fun res x hx => ?_⟩
  obtain ⟨hcons, _, _, hres⟩ := hx
  have hres : x = res := (hres rfl).symm
  subst hres
  simp only [nextPhase, if_true]
  have hspec := hop x hcons
  have hwrite : Disc op t (.locked (.is x))
      (sFsyncL t fun _ => sReplaceL t (.sha new) fun _ => Prog.ret (.bool true) c) := by
    simp only [sFsyncL, sReplaceL]
    refine disc_call.mpr ⟨by simp [Pre], fun _ x' _ => ?_⟩
    simp only [nextPhase]
    refine disc_call.mpr ⟨?_, fun _ x' hx' => ?_⟩
    · refine ⟨rfl, by simp [IsSha], _, rfl, ?_⟩
      intro x' hx'
      simp only [Know.cons] at hx'
      subst hx'
      rw [hspec]
    · have hx'' : x' = x := hx'.1
      subst hx''
      simp only [nextPhase, hspec]
      exact disc_ret.mpr ⟨rfl, hc⟩
  by_cases hr : x = some (Val.sha new)
  · subst hr
    simp only [if_true, sRemoveL]
    refine disc_call.mpr ⟨?_, fun _ x' hx' => ?_⟩
    · refine ⟨rfl, Or.inl ⟨_, rfl, ?_⟩⟩
      intro x' hx'
      simp only [Know.cons] at hx'
      subst hx'
      rw [hspec]
    · have hx'' : x' = some (Val.sha new) := hx'.1
      subst hx''
      simp only [nextPhase, hspec]
      exact disc_ret.mpr ⟨rfl, hc⟩
  · cases x with
    | none => simpa using hwrite
    | some v =>
      have : ¬ (some v = some (Val.sha new)) := hr
      simpa [this] using hwrite

/-- releasing the lock without writing: the specification must say "no change" with this result -/
theorem disc_release (op : Op) (t : Ref) (kn : Know) (o : Outcome) (c : Cache) (hc : CacheOK c)
    (hop : ∀ x, kn.cons x → specVal op x = (x, o)) :
    Disc op t (.locked kn) (sRemoveL t fun _ => Prog.ret o c) := by
  simp only [sRemoveL]
  refine disc_call.mpr ⟨?_, fun _ x' hx' => ?_⟩
  · refine ⟨rfl, Or.inl ⟨_, rfl, ?_⟩⟩
    intro x' hx'
    rw [hop x' hx']
  · simp only [nextPhase, hop x' hx'.1]
    exact disc_ret.mpr ⟨rfl, hc⟩

theorem disc_cas (env : Env) (vr : Variant) (name : Ref) (old : Option (Option Val)) (new : Sha) (c : Cache)
    (hc : CacheOK c) :
    Disc (.cas name old (.sha new)) name .outside (compile env vr (.cas name old (.sha new)) c) := by
  simp only [compile, setIfEquals]
  refine disc_follow_quiet (fun res x => by simp [nextPhase]) hc fun s c'0 hc'0 => ?_
  refine disc_getPacked hc'0 fun c' hc' => ?_
  refine disc_getPacked hc' fun c'' hc'' => ?_
  simp only [sOpenX]
  refine disc_call.mpr ⟨⟨rfl, rfl⟩, fun ok x _ => ?_⟩
  cases ok with
  | false =>
    simp only [nextPhase]
    exact disc_ret.mpr ⟨by simp, hc''⟩
  | true =>
    simp only [nextPhase]
    cases old with
    | none =>
      simp only [Bool.not_true, Bool.false_eq_true, if_false]
      exact disc_cas_write _ name new .unknown c'' hc'' (fun x _ => by simp [specVal])
    | some o =>
      simp only [Bool.not_true, Bool.false_eq_true, if_false, sOpenR]
      refine disc_call.mpr ⟨by simp [Pre], fun res x hx => ?_⟩
      obtain ⟨_, _, _, hres⟩ := hx
      have hres : x = res := (hres rfl).symm
      subst hres
      simp only [nextPhase, if_true]
      cases x with
      | some v =>
        by_cases hv : some v = o
        · simp only [hv, if_true]
          subst hv
          exact disc_cas_write _ name new _ c'' hc'' (fun x hx => by simp [Know.cons] at hx; simp [specVal, hx])
        · simp only [hv, if_false]
          exact disc_release _ name _ _ c'' hc'' (fun x hx => by simp [Know.cons] at hx; simp [specVal, hx, hv])
      | none =>
        refine disc_getPacked hc'' fun c3 hc3 => ?_
        by_cases hv : none = o
        · subst hv
          simp only [pmGet_nil, Option.map_none, if_true]
          exact disc_cas_write _ name new _ c3 hc3 (fun x hx => by simp [Know.cons] at hx; simp [specVal, hx])
        · simp only [pmGet_nil, Option.map_none, hv, if_false]
          exact disc_release _ name _ _ c3 hc3 (fun x hx => by simp [Know.cons] at hx; simp [specVal, hx, hv])

theorem disc_add (env : Env) (vr : Variant) (name : Ref) (v : Sha) (c : Cache) (hc : CacheOK c) :
    Disc (.add name (.sha v)) name .outside (compile env vr (.add name (.sha v)) c) := by
  have hf : Gen.RefsFS.symrefMaxDepth + 2 = (Gen.RefsFS.symrefMaxDepth + 1) + 1 := rfl
  simp only [compile, addIfNew, follow]
  rw [hf]
  simp only [followAux, readRef, sOpenR]
  refine disc_call.mpr ⟨by simp [Pre], fun res x hx => ?_⟩
  obtain ⟨_, _, hsha, hres⟩ := hx
  have hres : x = res := (hres rfl).symm
  subst hres
  rcases isSha_cases hsha with rfl | ⟨s, rfl⟩
  · -- the ref does not exist (yet): take the lock and look again
    simp only [nextPhase, if_true, Option.isSome_none, Bool.false_eq_true, if_false]
    refine disc_getPacked hc fun c'0 hc'0 => ?_
    simp only [pmGet_nil, Option.map_none]
    refine disc_getPacked hc'0 fun c' hc' => ?_
    simp only [sOpenX]
    refine disc_call.mpr ⟨⟨rfl, rfl⟩, fun ok x _ => ?_⟩
    cases ok with
    | false =>
      simp only [nextPhase]
      exact disc_ret.mpr ⟨by simp, hc'⟩
    | true =>
      simp only [nextPhase, Bool.not_true, Bool.false_eq_true, if_false, sStatR]
      refine disc_call.mpr ⟨by simp [Pre], fun ex x hx => ?_⟩
      obtain ⟨_, _, hres⟩ := hx
      have hres : ex = x.isSome := hres rfl
      subst hres
      simp only [nextPhase, if_true]
      cases x with
      | some w =>
        simp only [Option.isSome_some, if_true, statKnow]
        exact disc_release _ name _ _ c' hc' (fun x hx => by
          simp only [Know.cons] at hx
          simp [specVal, hx])
      | none =>
        simp only [Option.isSome_none, Bool.false_eq_true, if_false, statKnow]
        refine disc_getPacked hc' fun c'' hc'' => ?_
        simp only [pmGet_nil, Option.isSome_none, Bool.false_eq_true, if_false, sFsyncL, sReplaceL]
        refine disc_call.mpr ⟨by simp [Pre], fun _ x' _ => ?_⟩
        simp only [nextPhase]
        refine disc_call.mpr ⟨?_, fun _ x' hx' => ?_⟩
        · refine ⟨rfl, by simp [IsSha], _, rfl, ?_⟩
          intro x' hx'
          simp only [Know.cons] at hx'
          subst hx'
          simp [specVal]
        · have hx'' : x' = none := hx'.1
          subst hx''
          simp only [nextPhase, specVal, Option.isSome_none, Bool.false_eq_true, if_false]
          exact disc_ret.mpr ⟨rfl, hc''⟩
  · -- the ref exists: add_if_new returns False without taking the lock
    simp only [nextPhase, if_true, Option.isSome_some, depth_ok, if_false]
    exact disc_ret.mpr ⟨rfl, hc⟩

theorem disc_removePacked {op : Op} {t : Ref} {ph : Phase} {name : Ref} {c : Cache} {kl k : Cache → Prog}
    (hc : CacheOK c) (hk : ∀ c', CacheOK c' → Disc op t ph (k c')) :
    Disc op t ph (removePacked name c kl k) := by
  unfold removePacked
  refine disc_getPacked hc fun c' hc' => ?_
  simpa using hk c' hc'

theorem statKnow_cons {k : Know} {x x' : Option Val} (hk : k.cons x) (h : (statKnow k x.isSome).cons x') :
    k.cons x' ∧ x'.isSome = x.isSome := by
  cases x with
  | none =>
    simp only [statKnow, Option.isSome_none, Bool.false_eq_true, if_false, Know.cons] at h
    subst h
    exact ⟨hk, rfl⟩
  | some v =>
    cases k with
    | unknown =>
      simp only [statKnow, Option.isSome_some, if_true, Know.cons] at h
      exact ⟨trivial, h⟩
    | is w =>
      simp only [statKnow, Option.isSome_some, if_true, Know.cons] at h hk
      subst h
      subst hk
      exact ⟨rfl, rfl⟩
    | present =>
      simp only [statKnow, Option.isSome_some, if_true, Know.cons] at h
      exact ⟨h, h⟩

/-- the delete half of `remove_if_equals`, whichever of the two orders the variant chooses -/
theorem disc_rm_body (op : Op) (t : Ref) (kn : Know) (vr : Variant) (c : Cache) (hc : CacheOK c)
    (kl k0 : Cache → Prog)
    (hop : ∀ x, kn.cons x → specVal op x = (none, .bool true)) :
    Disc op t (.locked kn)
      (if vr.rmLooseFirst then
        (sLstatR t fun found =>
          if found then sRemoveR t fun ok =>
            if ok then removePacked t c kl (fun c => sRemoveL t fun _ => Prog.ret (.bool true) c)
            else sRemoveL t fun _ => k0 c
          else removePacked t c kl (fun c => sRemoveL t fun _ => Prog.ret (.bool true) c))
      else
        (sLstatR t fun found =>
          removePacked t c kl fun c =>
            if found then sStatR t fun _ => sRemoveR t fun ok =>
              if ok then (sRemoveL t fun _ => Prog.ret (.bool true) c) else sRemoveL t fun _ => k0 c
            else (sRemoveL t fun _ => Prog.ret (.bool true) c))) := by
  have tail : ∀ (c : Cache) (kk ke : Prog), CacheOK c →
      Disc op t (.lockedDone (.bool true)) kk →
      (∀ kn', (∀ x, kn'.cons x → x = none ∧ kn.cons x) → Disc op t (.locked kn') kk) →
      Disc op t (.locked kn)
        (sLstatR t fun found => if found then sRemoveR t fun ok => if ok then kk else ke else kk) := by
    intro c kk ke _ h1 h2
    simp only [sLstatR]
    refine disc_call.mpr ⟨by simp [Pre], fun res x hx => ?_⟩
    obtain ⟨hcons, _, hres⟩ := hx
    have hres : res = x.isSome := hres rfl
    subst hres
    simp only [nextPhase, if_true]
    cases x with
    | some w =>
      simp only [Option.isSome_some, if_true, sRemoveR]
      refine disc_call.mpr ⟨?_, fun ok x' hx' => ?_⟩
      · refine ⟨rfl, _, rfl, ?_⟩
        intro x' hx'
        rw [hop x' (statKnow_cons hcons hx').1]
      · have hk := statKnow_cons hcons hx'.1
        have hok : ok = true := by
          have h := hx'.2.2 rfl
          rw [h, hk.2]
          rfl
        subst hok
        simp only [nextPhase, hop x' hk.1, if_true]
        exact h1
    | none =>
      simp only [Option.isSome_none, Bool.false_eq_true, if_false]
      refine h2 _ ?_
      intro x' hx'
      have := statKnow_cons hcons hx'
      refine ⟨?_, this.1⟩
      have h := this.2
      cases x' with
      | none => rfl
      | some _ => simp at h
  have finDone : ∀ c, CacheOK c →
      Disc op t (.lockedDone (.bool true)) (sRemoveL t fun _ => Prog.ret (.bool true) c) := by
    intro c hc
    simp only [sRemoveL]
    refine disc_call.mpr ⟨⟨rfl, Or.inr ⟨_, rfl⟩⟩, fun _ x' _ => ?_⟩
    simp only [nextPhase]
    exact disc_ret.mpr ⟨rfl, hc⟩
  have finNone : ∀ c kn', CacheOK c → (∀ x, kn'.cons x → x = none ∧ kn.cons x) →
      Disc op t (.locked kn') (sRemoveL t fun _ => Prog.ret (.bool true) c) := by
    intro c kn' hc h
    refine disc_release op t kn' _ c hc ?_
    intro x hx
    obtain ⟨rfl, hk⟩ := h x hx
    exact hop none hk
  by_cases hv : vr.rmLooseFirst = true
  · simp only [hv, if_true]
    refine tail c _ _ hc ?_ ?_
    · exact disc_removePacked hc fun c' hc' => finDone c' hc'
    · intro kn' h
      exact disc_removePacked hc fun c' hc' => finNone c' kn' hc' h
  · simp only [hv, if_false, sLstatR]
    refine disc_call.mpr ⟨by simp [Pre], fun res x hx => ?_⟩
    obtain ⟨hcons, _, hres⟩ := hx
    have hres : res = x.isSome := hres rfl
    subst hres
    simp only [nextPhase, if_true]
    refine disc_removePacked hc fun c' hc' => ?_
    cases x with
    | some w =>
      simp only [Option.isSome_some, if_true, sStatR, sRemoveR]
      -- `os.path.isdir`: one more look at the file under the lock
      refine disc_call.mpr ⟨by simp [Pre], fun res2 x2 hx2 => ?_⟩
      obtain ⟨hcons2, _, hres2⟩ := hx2
      have hk2 := statKnow_cons hcons hcons2
      have hres2 : res2 = x2.isSome := hres2 rfl
      subst hres2
      simp only [nextPhase, if_true]
      refine disc_call.mpr ⟨?_, fun ok x' hx' => ?_⟩
      · refine ⟨rfl, _, rfl, ?_⟩
        intro x' hx'
        rw [hop x' (statKnow_cons hcons (statKnow_cons hcons2 hx').1).1]
      · have hk3 := statKnow_cons hcons2 hx'.1
        have hk := statKnow_cons hcons hk3.1
        have hok : ok = true := by
          have h := hx'.2.2 rfl
          rw [h, hk.2]
          rfl
        subst hok
        simp only [nextPhase, hop x' hk.1, if_true]
        exact finDone c' hc'
    | none =>
      simp only [Option.isSome_none, Bool.false_eq_true, if_false]
      refine finNone c' _ hc' ?_
      intro x' hx'
      have := statKnow_cons hcons hx'
      refine ⟨?_, this.1⟩
      have h := this.2
      cases x' with
      | none => rfl
      | some _ => simp at h

theorem disc_rm (env : Env) (vr : Variant) (name : Ref) (old : Option (Option Val)) (c : Cache) (hc : CacheOK c) :
    Disc (.rm name old) name .outside (compile env vr (.rm name old) c) := by
  simp only [compile, removeIfEquals, sOpenX]
  refine disc_call.mpr ⟨⟨rfl, rfl⟩, fun ok x _ => ?_⟩
  cases ok with
  | false =>
    simp only [nextPhase]
    exact disc_ret.mpr ⟨by simp, hc⟩
  | true =>
    simp only [nextPhase, Bool.not_true, Bool.false_eq_true, if_false]
    cases old with
    | none =>
      exact disc_rm_body _ name .unknown vr c hc _ _ (fun x _ => by simp [specVal])
    | some o =>
      simp only [sOpenR]
      refine disc_call.mpr ⟨by simp [Pre], fun res x hx => ?_⟩
      obtain ⟨_, _, _, hres⟩ := hx
      have hres : x = res := (hres rfl).symm
      subst hres
      simp only [nextPhase, if_true]
      cases x with
      | some v =>
        by_cases hv : some v = o
        · simp only [hv, if_true]
          subst hv
          exact disc_rm_body _ name _ vr c hc _ _ (fun x hx => by simp [Know.cons] at hx; simp [specVal, hx])
        · simp only [hv, if_false]
          exact disc_release _ name _ _ c hc (fun x hx => by simp [Know.cons] at hx; simp [specVal, hx, hv])
      | none =>
        refine disc_getPacked hc fun c3 hc3 => ?_
        by_cases hv : none = o
        · subst hv
          simp only [pmGet_nil, Option.map_none, if_true]
          exact disc_rm_body _ name _ vr c3 hc3 _ _ (fun x hx => by simp [Know.cons] at hx; simp [specVal, hx])
        · simp only [pmGet_nil, Option.map_none, hv, if_false]
          exact disc_release _ name _ _ c3 hc3 (fun x hx => by simp [Know.cons] at hx; simp [specVal, hx, hv])

/-- Every operation of the loose fragment follows the discipline, from any cache state. -/
theorem compile_disc (env : Env) (vr : Variant) (op : Op) (hop : LooseOp op) (c : Cache) (hc : CacheOK c) :
    Disc op op.target .outside (compile env vr op c) := by
  cases op with
  | read r => exact disc_read env vr r c hc
  | cas name old new =>
    cases new with
    | sha n => exact disc_cas env vr name old n c hc
    | sym _ => exact absurd hop (by simp [LooseOp])
  | add name v =>
    cases v with
    | sha n => exact disc_add env vr name n c hc
    | sym _ => exact absurd hop (by simp [LooseOp])
  | rm name old => exact disc_rm env vr name old c hc
  | _ => exact absurd hop (by simp [LooseOp])

/-! ### the instrumented transition system -/

structure IState where
  cfg : Config
  phs : Actor → Phase
  log : List LinEv

def linEvent (a : Actor) (op : Op) (ph ph' : Phase) : List LinEv :=
  match ph.outcome, ph'.outcome with
  | none, some o => [⟨a, op, o⟩]
  | _, _ => []

/-- `step` plus ghost bookkeeping: the phase of the stepping actor and the log of linearization events. -/
def istep (env : Env) (vr : Variant) (ops : List Op) (s : IState) (a : Actor) : Option IState :=
  match s.cfg.actors[a]?, ops[a]? with
  | some st, some op =>
    match st.prog with
    | .ret _ _ => none
    | .call c k =>
      let r := exec env s.cfg.fs a c
      let ph' := nextPhase op op.target (s.phs a) c r.2 (s.cfg.fs.loose op.target)
      some { cfg := { fs := r.1, actors := s.cfg.actors.set a (settle env vr st.todo (k r.2) st.outs) }
             phs := fun b => if b = a then ph' else s.phs b
             log := s.log ++ linEvent a op (s.phs a) ph' }
  | _, _ => none

/-- what one disciplined step does to the file system and to the ghost phase (`x` = value of the target before) -/
structure StepSum (op : Op) (t : Ref) (a : Actor) (ph ph' : Phase) (fs fs' : FS) : Prop where
  packed : fs'.packed = none
  frame : ∀ r, r ≠ t → fs'.loose r = fs.loose r ∧ fs'.lock r = fs.lock r
  lockT : fs'.lock t = if ph'.holds then some a else (if ph.holds then none else fs.lock t)
  acquire : ph.holds = false → ph'.holds = true → fs.lock t = none
  isSha : IsSha (fs'.loose t)
  cons : ph'.cons (fs'.loose t)
  noLockNoWrite : ph.holds = false → fs'.loose t = fs.loose t
  lin : match ph.outcome, ph'.outcome with
    | none, some o => if o.isExc then fs'.loose t = fs.loose t else specVal op (fs.loose t) = (fs'.loose t, o)
    | none, none => fs'.loose t = fs.loose t
    | some o, some o' => o' = o ∧ fs'.loose t = fs.loose t
    | some _, none => False

theorem statKnow_cons_self {k : Know} {x : Option Val} (h : k.cons x) : (statKnow k x.isSome).cons x := by
  cases x with
  | none => simp [statKnow, Know.cons]
  | some v =>
    cases k with
    | unknown => simp [statKnow, Know.cons]
    | is w => simpa [statKnow, Know.cons] using h
    | present => simp [statKnow, Know.cons]

theorem specVal_not_exc (op : Op) (x : Option Val) : (specVal op x).2.isExc = false := by
  unfold specVal
  split <;> (try split) <;> simp [Outcome.isExc]

theorem stepSum_id (op : Op) (t : Ref) (a : Actor) (ph : Phase) (fs : FS)
    (hpacked : fs.packed = none) (hsha : ∀ r, IsSha (fs.loose r)) (hcons : ph.cons (fs.loose t))
    (hhold : ph.holds = true → fs.lock t = some a) : StepSum op t a ph ph fs fs := by
  refine ⟨hpacked, fun _ _ => ⟨rfl, rfl⟩, ?_, ?_, hsha t, hcons, fun _ => rfl, ?_⟩
  · cases h : ph.holds with
    | true => simp [hhold h]
    | false => simp
  · intro h1 h2
    rw [h1] at h2
    cases h2
  · cases ph.outcome with
    | none => rfl
    | some o => exact ⟨rfl, rfl⟩

/-- a step that only changes the ghost phase, keeping the lock status and not linearizing -/
theorem stepSum_know (op : Op) (t : Ref) (a : Actor) (k k' : Know) (fs : FS)
    (hpacked : fs.packed = none) (hsha : ∀ r, IsSha (fs.loose r)) (hcons : k'.cons (fs.loose t))
    (hhold : fs.lock t = some a) : StepSum op t a (.locked k) (.locked k') fs fs := by
  refine ⟨hpacked, fun _ _ => ⟨rfl, rfl⟩, ?_, ?_, hsha t, hcons, fun _ => rfl, ?_⟩
  · simp [Phase.holds, hhold]
  · intro h1
    simp [Phase.holds] at h1
  · simp [Phase.outcome]

theorem step_sum (env : Env) (op : Op) (t : Ref) (a : Actor) (ph : Phase) (fs : FS) (c : Call)
    (hpre : Pre op t ph c)
    (hpacked : fs.packed = none) (hsha : ∀ r, IsSha (fs.loose r))
    (hcons : ph.cons (fs.loose t))
    (hhold : ph.holds = true → fs.lock t = some a) :
    StepSum op t a ph (nextPhase op t ph c (exec env fs a c).2 (fs.loose t)) fs (exec env fs a c).1 := by
  have hid := stepSum_id op t a ph fs hpacked hsha hcons hhold
  cases c with
  | start => exact hid
  | statP => exact hid
  | openRP => exact hid
  | scan => exact hid
  | fsyncL r => exact hid
  | openXP => exact absurd hpre (by simp [Pre])
  | fsyncP => exact absurd hpre (by simp [Pre])
  | replaceP m => exact absurd hpre (by simp [Pre])
  | removeLP => exact absurd hpre (by simp [Pre])
  | openR r =>
    cases ph with
    | lockedDone o => exact hid
    | finished o => exact hid
    | locked k =>
      simp only [nextPhase, exec]
      by_cases hr : r = t
      · subst hr
        simp only [if_true]
        exact stepSum_know op r a k _ fs hpacked hsha rfl (hhold rfl)
      · simp only [hr, if_false]
        exact hid
    | outside =>
      simp only [nextPhase, exec]
      by_cases hr : r = t
      · subst hr
        simp only [if_true]
        have fin : ∀ o, o.isExc = false → specVal op (fs.loose r) = (fs.loose r, o) →
            StepSum op r a .outside (.finished o) fs fs := by
          intro o ho hs
          refine ⟨hpacked, fun _ _ => ⟨rfl, rfl⟩, by simp [Phase.holds], by simp [Phase.holds], hsha r, trivial,
            fun _ => rfl, ?_⟩
          simp only [Phase.outcome, ho]
          exact hs
        cases op with
        | read r' => exact fin _ rfl (by simp [specVal])
        | add n v =>
          by_cases hx : (fs.loose r).isSome = true
          · simp only [hx, if_true]
            exact fin _ rfl (by simp [specVal, hx])
          · simp only [hx]
            exact hid
        | _ => exact hid
      · simp only [hr, if_false]
        exact hid
  | statR r =>
    cases ph with
    | locked k =>
      simp only [nextPhase, exec]
      by_cases hr : r = t
      · subst hr
        simp only [if_true]
        exact stepSum_know op r a k _ fs hpacked hsha (statKnow_cons_self hcons) (hhold rfl)
      · simp only [hr, if_false]
        exact hid
    | _ => exact hid
  | lstatR r =>
    cases ph with
    | locked k =>
      simp only [nextPhase, exec]
      by_cases hr : r = t
      · subst hr
        simp only [if_true]
        exact stepSum_know op r a k _ fs hpacked hsha (statKnow_cons_self hcons) (hhold rfl)
      · simp only [hr, if_false]
        exact hid
    | _ => exact hid
  | openX r =>
    obtain ⟨rfl, rfl⟩ := hpre
    simp only [exec]
    cases hl : fs.lock r with
    | some b =>
      simp only [nextPhase]
      refine ⟨hpacked, fun _ _ => ⟨rfl, rfl⟩, by simp [Phase.holds], by simp [Phase.holds], hsha r, trivial,
        fun _ => rfl, ?_⟩
      simp [Phase.outcome, Outcome.isExc]
    | none =>
      simp only [nextPhase]
      refine ⟨hpacked, fun r' hr' => ⟨rfl, by simp [upd, hr']⟩, by simp [Phase.holds], fun _ _ => hl, hsha r, trivial,
        fun _ => rfl, ?_⟩
      simp [Phase.outcome]
  | replaceL r v =>
    obtain ⟨rfl, hv, k, rfl, hspec⟩ := hpre
    simp only [exec, nextPhase]
    refine ⟨hpacked, fun r' hr' => ⟨by simp [upd, hr'], by simp [upd, hr']⟩, by simp [Phase.holds], by simp [Phase.holds],
      by simpa using hv, trivial, by simp [Phase.holds], ?_⟩
    simp only [Phase.outcome, specVal_not_exc, upd_same]
    have := hspec _ hcons
    exact Prod.ext this rfl
  | removeR r =>
    obtain ⟨rfl, k, rfl, hspec⟩ := hpre
    have hl : fs.lock r = some a := hhold rfl
    have hs := hspec _ hcons
    simp only [exec, nextPhase]
    cases hx : fs.loose r with
    | some w =>
      refine ⟨hpacked, fun r' hr' => ⟨by simp [upd, hr'], rfl⟩, by simp [Phase.holds, hl], by simp [Phase.holds],
        by simp [IsSha], trivial, by simp [Phase.holds], ?_⟩
      simp only [Phase.outcome, specVal_not_exc, upd_same]
      rw [hx] at hs
      first
        | rw [hx]; exact Prod.ext hs rfl
        | exact Prod.ext hs rfl
    | none =>
      refine ⟨hpacked, fun r' hr' => ⟨rfl, rfl⟩, by simp [Phase.holds, hl], by simp [Phase.holds],
        by simp [hx, IsSha], trivial, by simp [Phase.holds], ?_⟩
      simp only [Phase.outcome, specVal_not_exc]
      rw [hx] at hs
      rw [hx]
      exact Prod.ext hs rfl
  | removeL r =>
    obtain ⟨rfl, h⟩ := hpre
    simp only [exec]
    rcases h with ⟨k, rfl, hspec⟩ | ⟨o, rfl⟩
    · simp only [nextPhase]
      refine ⟨hpacked, fun r' hr' => ⟨rfl, by simp [upd, hr']⟩, by simp [Phase.holds], by simp [Phase.holds],
        hsha r, trivial, by simp [Phase.holds], ?_⟩
      simp only [Phase.outcome, specVal_not_exc]
      have := hspec _ hcons
      exact Prod.ext this rfl
    · simp only [nextPhase]
      refine ⟨hpacked, fun r' hr' => ⟨rfl, by simp [upd, hr']⟩, by simp [Phase.holds], by simp [Phase.holds],
        hsha r, trivial, by simp [Phase.holds], ?_⟩
      simp [Phase.outcome]

theorem compat_exec (env : Env) (t : Ref) (a : Actor) (ph : Phase) (fs : FS) (c : Call)
    (hpacked : fs.packed = none) (hsha : ∀ r, IsSha (fs.loose r)) (hcons : ph.cons (fs.loose t)) :
    Compat t ph c (exec env fs a c).2 (fs.loose t) := by
  cases c with
  | openR r => exact ⟨hcons, hsha t, hsha r, fun h => by subst h; rfl⟩
  | statR r => exact ⟨hcons, hsha t, fun h => by subst h; rfl⟩
  | lstatR r => exact ⟨hcons, hsha t, fun h => by subst h; rfl⟩
  | removeR r =>
    refine ⟨hcons, hsha t, fun h => ?_⟩
    subst h
    simp only [exec]
    cases fs.loose r <;> rfl
  | statP => exact ⟨hcons, hsha t, by simp only [exec, hpacked]; rfl⟩
  | openRP => exact ⟨hcons, hsha t, by simp only [exec, hpacked]; rfl⟩
  | _ => exact ⟨hcons, hsha t⟩

theorem specRun_append (m0 : Ref → Option Val) (l1 l2 : List LinEv) :
    specRun m0 (l1 ++ l2) = match specRun m0 l1 with
      | some m => specRun m l2
      | none => none := by
  induction l1 generalizing m0 with
  | nil => simp [specRun]
  | cons e es ih =>
    simp only [List.cons_append, specRun]
    cases specStep m0 e with
    | none => rfl
    | some m' => exact ih m'

theorem linEvent_mem {a : Actor} {op : Op} {ph ph' : Phase} {e : LinEv} (h : e ∈ linEvent a op ph ph') :
    e.actor = a ∧ e.op = op := by
  unfold linEvent at h
  split at h
  · simp only [List.mem_singleton] at h
    subst h
    exact ⟨rfl, rfl⟩
  · simp at h

theorem settle_nil (env : Env) (vr : Variant) (p : Prog) (outs : List Outcome) :
    (settle env vr [] p outs).prog = p ∧ (settle env vr [] p outs).todo = [] ∧
    (settle env vr [] p outs).outs = match p with
      | .ret o _ => outs ++ [o]
      | .call _ _ => outs := by
  cases p <;> simp [settle]

/-- The forward-simulation invariant. -/
structure Inv (m0 : Ref → Option Val) (ops : List Op) (s : IState) : Prop where
  lenA : s.cfg.actors.length = ops.length
  packed : s.cfg.fs.packed = none
  nosym : ∀ r, IsSha (s.cfg.fs.loose r)
  lockOwner : ∀ r a, s.cfg.fs.lock r = some a →
    ∃ op, ops[a]? = some op ∧ (s.phs a).holds = true ∧ op.target = r
  holdsLock : ∀ a op, ops[a]? = some op → (s.phs a).holds = true → s.cfg.fs.lock op.target = some a
  act : ∀ a op st, ops[a]? = some op → s.cfg.actors[a]? = some st →
    st.todo = [] ∧ Disc op op.target (s.phs a) st.prog ∧ (s.phs a).cons (s.cfg.fs.loose op.target) ∧
    (∀ o c, st.prog = .ret o c → st.outs = [o]) ∧ (∀ c k, st.prog = .call c k → st.outs = [])
  logOut : ∀ a op, ops[a]? = some op →
    match (s.phs a).outcome with
    | some o => ∃ e, e ∈ s.log ∧ e.actor = a ∧ e.op = op ∧ e.out = o
    | none => ∀ e, e ∈ s.log → e.actor ≠ a
  spec : ∃ m, specRun m0 s.log = some m ∧ ∀ r, m r = s.cfg.fs.loose r

theorem inv_step (env : Env) (vr : Variant) (m0 : Ref → Option Val) (ops : List Op) (s s' : IState) (a : Actor)
    (hinv : Inv m0 ops s) (hstep : istep env vr ops s a = some s') : Inv m0 ops s' := by
  unfold istep at hstep
  cases hst : s.cfg.actors[a]? with
  | none => simp [hst] at hstep
  | some st =>
  cases hop : ops[a]? with
  | none => simp [hst, hop] at hstep
  | some op =>
  cases hprog : st.prog with
  | ret o c => simp [hst, hop, hprog] at hstep
  | call c k =>
  simp only [hst, hop, hprog, Option.some.injEq] at hstep
  subst hstep
  obtain ⟨htodo, hdisc, hcons, _, houts⟩ := hinv.act a op st hop hst
  rw [hprog] at hdisc
  obtain ⟨hpre, hcont⟩ := disc_call.mp hdisc
  have hhold : (s.phs a).holds = true → s.cfg.fs.lock op.target = some a := hinv.holdsLock a op hop
  have hsum := step_sum env op op.target a (s.phs a) s.cfg.fs c hpre hinv.packed hinv.nosym hcons hhold
  have hcompat := compat_exec env op.target a (s.phs a) s.cfg.fs c hinv.packed hinv.nosym hcons
  have hdisc' := hcont _ _ hcompat
  have halt : a < s.cfg.actors.length := by
    have := List.getElem?_eq_some_iff.mp hst
    exact this.1
  -- abbreviations
  generalize hph' : nextPhase op op.target (s.phs a) c (exec env s.cfg.fs a c).2 (s.cfg.fs.loose op.target) = ph' at *
  generalize hfs' : (exec env s.cfg.fs a c).1 = fs' at *
  refine ⟨?_, ?_, ?_, ?_, ?_, ?_, ?_, ?_⟩
  · simp [List.length_set, hinv.lenA]
  · exact hsum.packed
  · intro r
    by_cases hr : r = op.target
    · subst hr; exact hsum.isSha
    · rw [(hsum.frame r hr).1]; exact hinv.nosym r
  · -- lockOwner
    intro r b hl
    by_cases hr : r = op.target
    · subst hr
      rw [hsum.lockT] at hl
      by_cases h' : ph'.holds = true
      · simp only [h', if_true, Option.some.injEq] at hl
        subst hl
        exact ⟨op, hop, by simp [h'], rfl⟩
      · simp only [h', Bool.false_eq_true, if_false] at hl
        by_cases h : (s.phs a).holds = true
        · simp [h] at hl
        · simp only [h, Bool.false_eq_true, if_false] at hl
          obtain ⟨opb, hopb, hhb, htb⟩ := hinv.lockOwner _ b hl
          have hba : b ≠ a := by
            intro e; subst e; exact h hhb
          exact ⟨opb, hopb, by simp [hba, hhb], htb⟩
    · rw [(hsum.frame r hr).2] at hl
      obtain ⟨opb, hopb, hhb, htb⟩ := hinv.lockOwner _ b hl
      have hba : b ≠ a := by
        intro e; subst e
        rw [hop] at hopb
        cases hopb
        exact hr htb.symm
      exact ⟨opb, hopb, by simp [hba, hhb], htb⟩
  · -- holdsLock
    intro b opb hopb hhb
    by_cases hba : b = a
    · subst hba
      rw [hop] at hopb
      cases hopb
      simp only [if_true] at hhb
      rw [hsum.lockT, hhb]
      rfl
    · simp only [hba, if_false] at hhb
      have hold := hinv.holdsLock b opb hopb hhb
      by_cases ht : opb.target = op.target
      · rw [ht] at hold ⊢
        rw [hsum.lockT]
        by_cases h' : ph'.holds = true
        · by_cases h : (s.phs a).holds = true
          · have := hhold h
            rw [this] at hold
            cases hold
            exact absurd rfl hba
          · have h : (s.phs a).holds = false := by simpa using h
            have := hsum.acquire h h'
            rw [this] at hold
            cases hold
        · by_cases h : (s.phs a).holds = true
          · have := hhold h
            rw [this] at hold
            cases hold
            exact absurd rfl hba
          · simp [h', h, hold]
      · rw [(hsum.frame _ ht).2]
        exact hold
  · -- act
    intro b opb stb hopb hstb
    by_cases hba : b = a
    · subst hba
      rw [hop] at hopb
      cases hopb
      simp only [List.getElem?_set_self halt, Option.some.injEq] at hstb
      subst hstb
      have hs := settle_nil env vr (k (exec env s.cfg.fs b c).2) st.outs
      rw [htodo]
      refine ⟨hs.2.1, ?_, ?_, ?_, ?_⟩
      · simp only [if_true]
        rw [hs.1]
        exact hdisc'
      · simp only [if_true]
        exact hsum.cons
      · intro o c' hp
        rw [hs.1] at hp
        rw [hs.2.2, hp, houts c k hprog]
        rfl
      · intro c' k' hp
        rw [hs.1] at hp
        rw [hs.2.2, hp, houts c k hprog]
    · have hab : a ≠ b := fun e => hba e.symm
      simp only [List.getElem?_set_ne hab] at hstb
      obtain ⟨h1, h2, h3, h4, h5⟩ := hinv.act b opb stb hopb hstb
      refine ⟨h1, by simpa [hba] using h2, ?_, h4, h5⟩
      simp only [hba, if_false]
      by_cases ht : opb.target = op.target
      · cases hpb : s.phs b with
        | locked kb =>
          have hhb : (s.phs b).holds = true := by simp [hpb, Phase.holds]
          have hold := hinv.holdsLock b opb hopb hhb
          rw [ht] at hold
          by_cases h : (s.phs a).holds = true
          · have := hhold h
            rw [this] at hold
            cases hold
            exact absurd rfl hba
          · have h : (s.phs a).holds = false := by simpa using h
            rw [ht, hsum.noLockNoWrite h, ← ht, ← hpb]
            exact h3
        | outside => trivial
        | lockedDone o => trivial
        | finished o => trivial
      · rw [(hsum.frame _ ht).1]
        exact h3
  · -- logOut
    intro b opb hopb
    by_cases hba : b = a
    · subst hba
      rw [hop] at hopb
      cases hopb
      have hold := hinv.logOut b op hop
      have hlin := hsum.lin
      simp only [if_true]
      unfold linEvent
      cases h1 : (s.phs b).outcome with
      | none =>
        rw [h1] at hold hlin
        cases h2 : ph'.outcome with
        | none =>
          simp only [List.append_nil]
          exact hold
        | some o =>
          exact ⟨⟨b, op, o⟩, by simp, rfl, rfl, rfl⟩
      | some o =>
        rw [h1] at hold hlin
        cases h2 : ph'.outcome with
        | none => rw [h2] at hlin; exact hlin.elim
        | some o' =>
          rw [h2] at hlin
          obtain ⟨e, he, h⟩ := hold
          simp only [List.append_nil]
          rw [hlin.1]
          exact ⟨e, he, h⟩
    · simp only [hba, if_false]
      have hold := hinv.logOut b opb hopb
      cases h1 : (s.phs b).outcome with
      | none =>
        rw [h1] at hold
        intro e he
        rcases List.mem_append.mp he with he | he
        · exact hold e he
        · rw [(linEvent_mem he).1]
          exact fun e => hba e.symm
      | some o =>
        rw [h1] at hold
        obtain ⟨e, he, h⟩ := hold
        exact ⟨e, List.mem_append.mpr (Or.inl he), h⟩
  · -- spec
    obtain ⟨m, hm, hmr⟩ := hinv.spec
    have hlin := hsum.lin
    rw [specRun_append, hm]
    unfold linEvent
    have frame : fs'.loose op.target = s.cfg.fs.loose op.target → ∀ r, m r = fs'.loose r := by
      intro h r
      by_cases hr : r = op.target
      · subst hr; rw [h]; exact hmr _
      · rw [(hsum.frame r hr).1]; exact hmr r
    cases h1 : (s.phs a).outcome with
    | some o =>
      rw [h1] at hlin
      cases h2 : ph'.outcome with
      | none => rw [h2] at hlin; exact hlin.elim
      | some o' =>
        rw [h2] at hlin
        exact ⟨m, rfl, frame hlin.2⟩
    | none =>
      rw [h1] at hlin
      cases h2 : ph'.outcome with
      | none =>
        rw [h2] at hlin
        exact ⟨m, rfl, frame hlin⟩
      | some o =>
        rw [h2] at hlin
        simp only [specRun, specStep]
        by_cases hex : o.isExc = true
        · simp only [hex, if_true] at hlin ⊢
          exact ⟨m, rfl, frame hlin⟩
        · simp only [hex, Bool.false_eq_true, if_false] at hlin ⊢
          rw [hmr op.target, hlin]
          simp only [if_true]
          refine ⟨_, rfl, fun r => ?_⟩
          by_cases hr : r = op.target
          · subst hr; simp
          · simp only [upd, hr, if_false]
            rw [(hsum.frame r hr).1]; exact hmr r

/-! ### runs -/

def IState.init (env : Env) (vr : Variant) (fs : FS) (ops : List Op) : IState :=
  { cfg := Config.init env vr fs (ops.map fun op => [op]), phs := fun _ => .outside, log := [] }

def irun (env : Env) (vr : Variant) (ops : List Op) (s : IState) : List Actor → IState
  | [] => s
  | a :: rest =>
    match istep env vr ops s a with
    | some s' => irun env vr ops s' rest
    | none => irun env vr ops s rest

theorem inv_irun (env : Env) (vr : Variant) (m0 : Ref → Option Val) (ops : List Op) (s : IState)
    (sched : List Actor) (hinv : Inv m0 ops s) : Inv m0 ops (irun env vr ops s sched) := by
  induction sched generalizing s with
  | nil => exact hinv
  | cons a rest ih =>
    simp only [irun]
    cases h : istep env vr ops s a with
    | none => exact ih s hinv
    | some s' => exact ih s' (inv_step env vr m0 ops s s' a hinv h)

/-- the ghost bookkeeping does not influence the run: `istep` projects to the model's `step` -/
theorem istep_cfg (env : Env) (vr : Variant) (ops : List Op) (s : IState) (a : Actor)
    (hlen : s.cfg.actors.length = ops.length) :
    (istep env vr ops s a).map (·.cfg) = (step env vr s.cfg a).map (·.1) := by
  unfold istep step
  cases hst : s.cfg.actors[a]? with
  | none => simp
  | some st =>
    have halt : a < ops.length := by
      have h1 : a < s.cfg.actors.length := (List.getElem?_eq_some_iff.mp hst).1
      rw [hlen] at h1
      exact h1
    have : ops[a]? = some ops[a] := List.getElem?_eq_getElem halt
    rw [this]
    simp only
    generalize st.prog = p
    cases p <;> simp

theorem irun_cfg (env : Env) (vr : Variant) (m0 : Ref → Option Val) (ops : List Op) (s : IState)
    (sched : List Actor) (hinv : Inv m0 ops s) :
    (irun env vr ops s sched).cfg = runSched env vr s.cfg sched := by
  induction sched generalizing s with
  | nil => rfl
  | cons a rest ih =>
    have hc := istep_cfg env vr ops s a hinv.lenA
    simp only [irun, runSched]
    cases h : istep env vr ops s a with
    | none =>
      rw [h] at hc
      cases h2 : step env vr s.cfg a with
      | none => exact ih s hinv
      | some p => rw [h2] at hc; simp at hc
    | some s' =>
      rw [h] at hc
      cases h2 : step env vr s.cfg a with
      | none => rw [h2] at hc; simp at hc
      | some p =>
        rw [h2] at hc
        simp only [Option.map_some, Option.some.injEq] at hc
        obtain ⟨cfg', c⟩ := p
        simp only at hc
        rw [ih s' (inv_step env vr m0 ops s s' a hinv h), hc]

theorem inv_init (env : Env) (vr : Variant) (loose0 : Ref → Option Val) (ops : List Op)
    (hsha : ∀ r, IsSha (loose0 r)) (hops : ∀ op, op ∈ ops → LooseOp op) :
    Inv loose0 ops (IState.init env vr (FS.init loose0 none) ops) := by
  refine ⟨?_, rfl, hsha, ?_, ?_, ?_, ?_, ⟨loose0, rfl, fun _ => rfl⟩⟩
  · simp [IState.init, Config.init]
  · intro r a h
    simp [IState.init, Config.init, FS.init] at h
  · intro a op _ h
    simp [IState.init, Phase.holds] at h
  · intro a op st hop hst
    simp only [IState.init, Config.init, List.map_map, List.getElem?_map, hop, Option.map_some,
      Function.comp, Option.some.injEq] at hst
    subst hst
    have hl : LooseOp op := hops op (List.mem_of_getElem? hop)
    refine ⟨rfl, ?_, trivial, ?_, ?_⟩
    · simp only [ActorSt.init, sStart, IState.init]
      refine disc_call.mpr ⟨trivial, fun _ _ _ => ?_⟩
      simp only [nextPhase]
      exact compile_disc env vr op hl Cache.empty cacheOK_empty
    · intro o c h
      simp [ActorSt.init, sStart] at h
    · intro c k _
      rfl
  · intro a op _
    simp [IState.init, Phase.outcome]

/-! ### every operation is linearized at most once -/

def evCount (a : Actor) (log : List LinEv) : Nat := log.countP (fun e => e.actor == a)

/-- at most one linearization event per actor; none before its phase has an outcome -/
def Uniq (s : IState) : Prop :=
  ∀ a, evCount a s.log ≤ 1 ∧ ((s.phs a).outcome = none → evCount a s.log = 0)

theorem uniq_step (env : Env) (vr : Variant) (m0 : Ref → Option Val) (ops : List Op) (s s' : IState) (a : Actor)
    (hinv : Inv m0 ops s) (hu : Uniq s) (hstep : istep env vr ops s a = some s') : Uniq s' := by
  unfold istep at hstep
  cases hst : s.cfg.actors[a]? with
  | none => simp [hst] at hstep
  | some st =>
  cases hop : ops[a]? with
  | none => simp [hst, hop] at hstep
  | some op =>
  cases hprog : st.prog with
  | ret o c => simp [hst, hop, hprog] at hstep
  | call c k =>
  simp only [hst, hop, hprog, Option.some.injEq] at hstep
  subst hstep
  obtain ⟨_, hdisc, hcons, _, _⟩ := hinv.act a op st hop hst
  rw [hprog] at hdisc
  obtain ⟨hpre, _⟩ := disc_call.mp hdisc
  have hsum := step_sum env op op.target a (s.phs a) s.cfg.fs c hpre hinv.packed hinv.nosym hcons
    (hinv.holdsLock a op hop)
  have hlin := hsum.lin
  generalize nextPhase op op.target (s.phs a) c (exec env s.cfg.fs a c).2 (s.cfg.fs.loose op.target) = ph' at *
  intro b
  simp only [evCount, List.countP_append]
  by_cases hba : b = a
  · subst hba
    simp only [if_true]
    obtain ⟨h1, h2⟩ := hu b
    unfold linEvent
    cases ho : (s.phs b).outcome with
    | none =>
      have h0 := h2 ho
      simp only [evCount] at h0
      cases ho' : ph'.outcome with
      | none => simp [h0]
      | some o => simp [h0, List.countP_cons]
    | some o =>
      rw [ho] at hlin
      cases ho' : ph'.outcome with
      | none => rw [ho'] at hlin; exact hlin.elim
      | some o' =>
        simp only [evCount] at h1
        simp [h1]
  · simp only [hba, if_false]
    obtain ⟨h1, h2⟩ := hu b
    have hz : (linEvent a op (s.phs a) ph').countP (fun e => e.actor == b) = 0 := by
      rw [List.countP_eq_zero]
      intro e he
      have := (linEvent_mem he).1
      simp only [this, beq_iff_eq]
      exact fun e => hba e.symm
    simp only [evCount] at h1 h2
    rw [hz]
    exact ⟨by simpa using h1, fun h => by simpa using h2 h⟩

theorem uniq_irun (env : Env) (vr : Variant) (m0 : Ref → Option Val) (ops : List Op) (s : IState)
    (sched : List Actor) (hinv : Inv m0 ops s) (hu : Uniq s) : Uniq (irun env vr ops s sched) := by
  induction sched generalizing s with
  | nil => exact hu
  | cons a rest ih =>
    simp only [irun]
    cases h : istep env vr ops s a with
    | none => exact ih s hinv hu
    | some s' => exact ih s' (inv_step env vr m0 ops s s' a hinv h) (uniq_step env vr m0 ops s s' a hinv hu h)

/-! ### bounded exhaustive exploration (for model-checking style theorems on small scenarios) -/

/-- every configuration some schedule of length ≤ n leads to -/
def reachAll (env : Env) (vr : Variant) : Nat → Config → List Config
  | 0, cfg => [cfg]
  | n + 1, cfg =>
    cfg :: (List.range cfg.actors.length).flatMap fun a =>
      match step env vr cfg a with
      | some (cfg', _) => reachAll env vr n cfg'
      | none => []

theorem reachAll_self (env : Env) (vr : Variant) (n : Nat) (cfg : Config) : cfg ∈ reachAll env vr n cfg := by
  cases n <;> simp [reachAll]

theorem reachAll_mono (env : Env) (vr : Variant) (n : Nat) (cfg x : Config)
    (h : x ∈ reachAll env vr n cfg) : x ∈ reachAll env vr (n + 1) cfg := by
  induction n generalizing cfg with
  | zero =>
    simp only [reachAll, List.mem_singleton] at h
    subst h
    exact reachAll_self env vr 1 x
  | succ m ih =>
    simp only [reachAll, List.mem_cons, List.mem_flatMap, List.mem_range] at h ⊢
    rcases h with rfl | ⟨a, ha, hx⟩
    · exact Or.inl rfl
    · refine Or.inr ⟨a, ha, ?_⟩
      cases hs : step env vr cfg a with
      | none => rw [hs] at hx; simp at hx
      | some p =>
        rw [hs] at hx
        simp only at hx ⊢
        exact ih p.1 hx

theorem step_lt (env : Env) (vr : Variant) (cfg cfg' : Config) (a : Actor) (c : Call)
    (h : step env vr cfg a = some (cfg', c)) : a < cfg.actors.length := by
  unfold step at h
  cases hst : cfg.actors[a]? with
  | none => simp [hst] at h
  | some st => exact (List.getElem?_eq_some_iff.mp hst).1

theorem runSched_mem_reachAll (env : Env) (vr : Variant) (sched : List Actor) (n : Nat) (cfg : Config)
    (hlen : sched.length ≤ n) : runSched env vr cfg sched ∈ reachAll env vr n cfg := by
  induction sched generalizing n cfg with
  | nil => exact reachAll_self env vr n cfg
  | cons a rest ih =>
    cases n with
    | zero => simp at hlen
    | succ m =>
      have hl : rest.length ≤ m := by simpa using hlen
      simp only [runSched]
      cases hs : step env vr cfg a with
      | none => exact reachAll_mono env vr m cfg _ (ih m cfg hl)
      | some p =>
        obtain ⟨cfg', c⟩ := p
        simp only [reachAll, List.mem_cons, List.mem_flatMap, List.mem_range]
        refine Or.inr ⟨a, step_lt env vr cfg cfg' a c hs, ?_⟩
        rw [hs]
        exact ih m cfg' hl

/-! ## Part 2 — the commit protocol over an atomic compare-and-swap register -/

open Proto

/-- the successful swaps form a first-parent chain from the current head down to the initial head -/
def ChainOK (init : Option Sha) : List (Sha × Option Sha) → Option Sha → Prop
  | [], reg => reg = init
  | (c, p) :: rest, reg => reg = some c ∧ ChainOK init rest p

instance (init : Option Sha) : (l : List (Sha × Option Sha)) → (reg : Option Sha) → Decidable (ChainOK init l reg)
  | [], reg => by unfold ChainOK; infer_instance
  | (c, p) :: rest, reg => by
    unfold ChainOK
    have := instDecidableChainOK init rest p
    infer_instance

/-- invariant of the single-read protocol -/
def PInv (init : Option Sha) (s : PState) : Prop :=
  ChainOK init s.log s.reg ∧
  ∀ (a : Nat) (st : PActor), s.actors[a]? = some st →
    (∀ p, st.pc ≠ .read1 p) ∧ (∀ p o, st.pc = .ready p o → p = o) ∧
    (∀ p, st.pc = .done true p → (st.cid, p) ∈ s.log)

theorem pinv_step (init : Option Sha) (s s' : PState) (a : Nat) (e : PEvent) (h : PInv init s)
    (hs : pstep 1 s a = some (s', e)) : PInv init s' := by
  obtain ⟨hchain, hact⟩ := h
  unfold pstep at hs
  cases hst : s.actors[a]? with
  | none => simp [hst] at hs
  | some st =>
    have halt : a < s.actors.length := (List.getElem?_eq_some_iff.mp hst).1
    obtain ⟨h1, h2, h3⟩ := hact a st hst
    simp only [hst] at hs
    cases hpc : st.pc with
    | start =>
      simp only [hpc, Nat.le_refl, if_true, Option.some.injEq, Prod.mk.injEq] at hs
      obtain ⟨rfl, _⟩ := hs
      refine ⟨hchain, fun b stb hb => ?_⟩
      by_cases hba : a = b
      · subst hba
        simp only [List.getElem?_set_self halt, Option.some.injEq] at hb
        subst hb
        exact ⟨fun p => by simp, fun p o hp => by simp at hp; rw [← hp.1, ← hp.2], fun p hp => by simp at hp⟩
      · simp only [List.getElem?_set_ne hba] at hb
        exact hact b stb hb
    | read1 p => exact absurd hpc (h1 p)
    | done ok p => simp [hpc] at hs
    | ready parent old =>
      have hpo := h2 parent old hpc
      subst hpo
      simp only [hpc] at hs
      by_cases hreg : s.reg = parent
      · simp only [hreg, if_true, Option.some.injEq, Prod.mk.injEq] at hs
        obtain ⟨rfl, _⟩ := hs
        refine ⟨⟨rfl, by rw [← hreg]; exact hchain⟩, fun b stb hb => ?_⟩
        by_cases hba : a = b
        · subst hba
          simp only [List.getElem?_set_self halt, Option.some.injEq] at hb
          subst hb
          refine ⟨fun p => by simp, fun p o hp => by simp at hp, fun p hp => ?_⟩
          simp only [PC.done.injEq, true_and] at hp
          subst hp
          exact List.mem_cons_self
        · simp only [List.getElem?_set_ne hba] at hb
          obtain ⟨g1, g2, g3⟩ := hact b stb hb
          exact ⟨g1, g2, fun p hp => List.mem_cons_of_mem _ (g3 p hp)⟩
      · simp only [hreg, if_false, Option.some.injEq, Prod.mk.injEq] at hs
        obtain ⟨rfl, _⟩ := hs
        refine ⟨hchain, fun b stb hb => ?_⟩
        by_cases hba : a = b
        · subst hba
          simp only [List.getElem?_set_self halt, Option.some.injEq] at hb
          subst hb
          exact ⟨fun p => by simp, fun p o hp => by simp at hp, fun p hp => by simp at hp⟩
        · simp only [List.getElem?_set_ne hba] at hb
          exact hact b stb hb


end Dulwich.RefsFS
