/-
  Helper lemmas for Props/C15.lean (Rust ≡ Python).  No property statements here.
-/
import DulwichModel.Model.RsPy
import DulwichModel.Model.RsPyPack
import DulwichModel.Model.RsPyDiff

set_option linter.unusedSimpArgs false

namespace Dulwich.RsPy
open Dulwich

/-! ## octal tokens -/

def isOct (c : UInt8) : Bool := decide (48 ≤ c.toNat) && decide (c.toNat ≤ 55)

/-- value of a digit string read left to right from accumulator `acc` -/
def octFrom : Bytes → Nat → Nat
  | [], acc => acc
  | c :: cs, acc => octFrom cs (acc * 8 + (c.toNat - 48))

theorem le_octFrom (cs : Bytes) : ∀ acc, acc ≤ octFrom cs acc := by
  induction cs with
  | nil => intro acc; exact Nat.le_refl _
  | cons c cs ih => intro acc; have := ih (acc * 8 + (c.toNat - 48)); simp only [octFrom]; omega

theorem digit_of_isOct {c : UInt8} (h : isOct c = true) : digit? 8 c = some (c.toNat - 48) := by
  simp only [isOct, Bool.and_eq_true, decide_eq_true_eq] at h
  simp only [digit?]
  rw [if_pos (by omega)]

theorem isOct_of_digit {c : UInt8} {d : Nat} (h : digit? 8 c = some d) : isOct c = true ∧ d = c.toNat - 48 := by
  simp only [digit?] at h
  split at h
  · simp only [Option.some.injEq] at h
    simp only [isOct, Bool.and_eq_true, decide_eq_true_eq]
    omega
  · cases h

theorem rsDigits_of_oct : ∀ (cs : Bytes) (acc : Nat), cs.all isOct = true → octFrom cs acc < 2 ^ 32 →
    rsDigits 8 32 cs acc = some (octFrom cs acc) := by
  intro cs
  induction cs with
  | nil => intro acc _ _; rfl
  | cons c cs ih =>
    intro acc hall hlt
    simp only [List.all_cons, Bool.and_eq_true] at hall
    simp only [octFrom] at hlt
    have hle := le_octFrom cs (acc * 8 + (c.toNat - 48))
    simp only [rsDigits, digit_of_isOct hall.1, octFrom]
    rw [if_neg (by omega), if_neg (by omega)]
    exact ih _ hall.2 hlt

theorem oct_of_rsDigits : ∀ (cs : Bytes) (acc v : Nat), rsDigits 8 32 cs acc = some v →
    cs.all isOct = true ∧ v = octFrom cs acc ∧ (cs ≠ [] → v < 2 ^ 32) := by
  intro cs
  induction cs with
  | nil => intro acc v h; simp only [rsDigits, Option.some.injEq] at h; simp [octFrom, h]
  | cons c cs ih =>
    intro acc v h
    simp only [rsDigits] at h
    split at h
    · cases h
    · rename_i d hd
      obtain ⟨ho, rfl⟩ := isOct_of_digit hd
      split at h
      · cases h
      · split at h
        · cases h
        · rename_i h1 h2
          obtain ⟨ha, hv, hlt⟩ := ih _ _ h
          refine ⟨by simp [ho, ha], by simp [octFrom, hv], fun _ => ?_⟩
          cases cs with
          | nil => simp only [octFrom] at hv; omega
          | cons c' cs' => exact hlt (by simp)

theorem pyScan_of_oct : ∀ (cs : Bytes) (acc : Nat), cs.all isOct = true →
    pyScan 8 cs false acc = some (octFrom cs acc, []) := by
  intro cs
  induction cs with
  | nil => intro acc _; rfl
  | cons c cs ih =>
    intro acc hall
    simp only [List.all_cons, Bool.and_eq_true] at hall
    have h95 : ¬ c.toNat = 95 := by
      have := hall.1; simp only [isOct, Bool.and_eq_true, decide_eq_true_eq] at this; omega
    simp only [pyScan, h95, if_false, digit_of_isOct hall.1, octFrom]
    exact ih _ hall.2

theorem not_space_of_isOct {c : UInt8} (h : isOct c = true) : pyIsSpace c = false := by
  simp only [isOct, Bool.and_eq_true, decide_eq_true_eq] at h
  simp only [pyIsSpace, Bool.or_eq_false_iff, Bool.and_eq_false_iff, decide_eq_false_iff_not]
  omega

/-! ### canonical mode tokens: `+?[0-7]+`, value below 2^32 (definitions used in Props/C15 statements) -/

/-- the digit string of a token after at most one leading `+` (a lone `+` has none) -/
def canonDigits (tok : Bytes) : Option Bytes :=
  match tok with
  | [] => none
  | c :: r => if c.toNat = 43 then (if r.isEmpty then none else some r) else some (c :: r)

/-- `tok` matches `+?[0-7]+` and its octal value is below 2^32 -/
def isCanonical (tok : Bytes) : Bool :=
  match canonDigits tok with
  | none => false
  | some ds => ds.all isOct && decide (octFrom ds 0 < 2 ^ 32)

/-- the octal value of a canonical token -/
def canonValue (tok : Bytes) : Nat :=
  match canonDigits tok with
  | none => 0
  | some ds => octFrom ds 0

theorem canonical_rs {tok ds : Bytes} (hd : canonDigits tok = some ds) (ho : ds.all isOct = true)
    (hv : octFrom ds 0 < 2 ^ 32) : rsFromStrRadix 8 32 tok = some (octFrom ds 0) := by
  cases tok with
  | nil => simp [canonDigits] at hd
  | cons c r =>
    simp only [canonDigits] at hd
    by_cases h43 : c.toNat = 43
    · simp only [h43, if_true] at hd
      cases r with
      | nil => simp at hd
      | cons c2 r2 =>
        simp only [List.isEmpty_cons, Bool.false_eq_true, if_false, Option.some.injEq] at hd
        subst hd
        simp only [rsFromStrRadix, h43, if_true]
        exact rsDigits_of_oct _ _ ho hv
    · simp only [h43, if_false, Option.some.injEq] at hd
      subst hd
      have hc : isOct c = true := by simp only [List.all_cons, Bool.and_eq_true] at ho; exact ho.1
      have h45 : ¬ c.toNat = 45 := by
        simp only [isOct, Bool.and_eq_true, decide_eq_true_eq] at hc; omega
      cases r with
      | nil =>
        simp only [rsFromStrRadix, h43, h45, or_self, if_false]
        exact rsDigits_of_oct _ _ ho hv
      | cons c2 r2 =>
        simp only [rsFromStrRadix, h43, if_false]
        exact rsDigits_of_oct _ _ ho hv

theorem rs_canonical {tok : Bytes} {v : Nat} (h : rsFromStrRadix 8 32 tok = some v) :
    ∃ ds, canonDigits tok = some ds ∧ ds.all isOct = true ∧ v = octFrom ds 0 ∧ v < 2 ^ 32 := by
  cases tok with
  | nil => simp [rsFromStrRadix] at h
  | cons c r =>
    cases r with
    | nil =>
      simp only [rsFromStrRadix] at h
      split at h
      · cases h
      · rename_i hs
        obtain ⟨ho, hv, hlt⟩ := oct_of_rsDigits _ _ _ h
        refine ⟨[c], ?_, ho, hv, hlt (by simp)⟩
        have : ¬ c.toNat = 43 := by omega
        simp [canonDigits, this]
    | cons c2 r2 =>
      simp only [rsFromStrRadix] at h
      split at h
      · rename_i h43
        obtain ⟨ho, hv, hlt⟩ := oct_of_rsDigits _ _ _ h
        exact ⟨c2 :: r2, by simp [canonDigits, h43], ho, hv, hlt (by simp)⟩
      · rename_i h43
        obtain ⟨ho, hv, hlt⟩ := oct_of_rsDigits _ _ _ h
        exact ⟨c :: c2 :: r2, by simp [canonDigits, h43], ho, hv, hlt (by simp)⟩

theorem canonical_py {tok ds : Bytes} (hd : canonDigits tok = some ds) (ho : ds.all isOct = true) :
    pyInt 8 tok = some (Int.ofNat (octFrom ds 0)) := by
  -- the digit string is non-empty and starts with an octal digit
  have hds : ∃ d r, ds = d :: r := by
    cases tok with
    | nil => simp [canonDigits] at hd
    | cons c r =>
      simp only [canonDigits] at hd
      split at hd
      · split at hd
        · cases hd
        · rename_i hne
          simp only [Option.some.injEq] at hd; subst hd
          cases r with
          | nil => simp at hne
          | cons a b => exact ⟨a, b, rfl⟩
      · simp only [Option.some.injEq] at hd; exact ⟨c, r, hd.symm⟩
  obtain ⟨d, r, rfl⟩ := hds
  have hd0 : isOct d = true := by simp only [List.all_cons, Bool.and_eq_true] at ho; exact ho.1
  have hr : r.all isOct = true := by simp only [List.all_cons, Bool.and_eq_true] at ho; exact ho.2
  have hdn : 48 ≤ d.toNat ∧ d.toNat ≤ 55 := by
    simpa only [isOct, Bool.and_eq_true, decide_eq_true_eq] using hd0
  -- after sign handling the remaining string is `d :: r`
  have hsign : pySign (dropSpaces tok) = (false, d :: r) := by
    cases tok with
    | nil => simp [canonDigits] at hd
    | cons c r' =>
      simp only [canonDigits] at hd
      by_cases h43 : c.toNat = 43
      · simp only [h43, if_true] at hd
        split at hd
        · cases hd
        · simp only [Option.some.injEq] at hd; subst hd
          have : pyIsSpace c = false := by
            simp only [pyIsSpace, Bool.or_eq_false_iff, Bool.and_eq_false_iff, decide_eq_false_iff_not]; omega
          simp [dropSpaces, this, pySign, h43]
      · simp only [h43, if_false, Option.some.injEq] at hd
        obtain ⟨rfl, rfl⟩ := List.cons.inj hd
        have h45 : ¬ c.toNat = 45 := by omega
        simp [dropSpaces, not_space_of_isOct hd0, pySign, h43, h45]
  have hpre : pyPrefix 8 (d :: r) = d :: r := by
    cases r with
    | nil => rfl
    | cons o r2 =>
      have ho2 : isOct o = true := by simp only [List.all_cons, Bool.and_eq_true] at hr; exact hr.1
      have : 48 ≤ o.toNat ∧ o.toNat ≤ 55 := by
        simpa only [isOct, Bool.and_eq_true, decide_eq_true_eq] using ho2
      have hno : ¬ (d.toNat = 48 ∧ True ∧ (o.toNat = 111 ∨ o.toNat = 79)) := by omega
      simp only [pyPrefix]
      rw [if_neg hno]
  simp only [pyInt, hsign, hpre, pyDigits, digit_of_isOct hd0, pyScan_of_oct r _ hr]
  simp [dropSpaces, octFrom]

/-! ## parse_tree: the framing both parsers see -/

theorem findByte_spec (b : UInt8) : ∀ (l : Bytes) (k : Nat), findByte b l = some k →
    k < l.length ∧ l.drop k = b :: l.drop (k + 1) := by
  intro l
  induction l with
  | nil => intro k h; simp [findByte] at h
  | cons c cs ih =>
    intro k h
    simp only [findByte] at h
    split at h
    · rename_i hc
      simp only [Option.some.injEq] at h
      subst h; subst hc
      simp
    · simp only [Option.map_eq_some_iff] at h
      obtain ⟨k', hk', rfl⟩ := h
      obtain ⟨h1, h2⟩ := ih k' hk'
      exact ⟨by simp; omega, by simpa using h2⟩

/-- How the first entry of the remaining text `R` is framed, before looking at what the mode token
says: `used` = number of bytes of a complete entry. -/
inductive Frame where
  | done
  | noSpace
  | noNul (tok : Bytes)
  | short (tok name : Bytes)
  | entry (tok name sha : Bytes) (used : Nat)

def frame (n : Nat) (R : Bytes) : Frame :=
  if R.isEmpty then .done else
  match findByte 32 R with
  | none => .noSpace
  | some k =>
    match findByte 0 (R.drop (k + 1)) with
    | none => .noNul (R.take k)
    | some m =>
      if ((R.drop (k + 1)).drop (m + 1)).length < n then .short (R.take k) ((R.drop (k + 1)).take m)
      else .entry (R.take k) ((R.drop (k + 1)).take m) (((R.drop (k + 1)).drop (m + 1)).take n) (k + 1 + m + 1 + n)

/-- strict-mode check and mode parse of one token, as each side does it -/
def pyTokG (modeFn : Bytes → Option Int) (strict : Bool) (tok : Bytes) : Option Int :=
  if strict ∧ tok.head? = some 48 then none else modeFn tok

def rsTokG (tokFn : Bytes → Option Nat) (strict : Bool) (tok : Bytes) : Option Int :=
  match tokFn tok with
  | none => none
  | some v => if strict ∧ tok.head? = some 48 then none else some (Int.ofNat v)

theorem frame_entry_used {n : Nat} {R tok name sha : Bytes} {used : Nat}
    (h : frame n R = .entry tok name sha used) : 2 ≤ used ∧ used ≤ R.length := by
  unfold frame at h
  split at h
  · cases h
  · split at h
    · cases h
    · rename_i k hk
      split at h
      · cases h
      · rename_i m hm
        split at h
        · cases h
        · rename_i hlen
          simp only [Frame.entry.injEq] at h
          obtain ⟨_, _, _, rfl⟩ := h
          have := (findByte_spec 32 R k hk).1
          have := (findByte_spec 0 _ m hm).1
          simp only [List.length_drop] at *
          omega

theorem rsStepG_frame (modeOf : Bytes → Nat → Option Nat) (tokFn : Bytes → Option Nat)
    (h0 : ∀ R, modeOf R 0 = none) (ht0 : tokFn [] = none)
    (hmk : ∀ R k, k ≠ 0 → modeOf R k = tokFn (R.take k)) (n : Nat) (strict : Bool) (R : Bytes) :
    rsParseStepG modeOf n strict R =
      match frame n R with
      | .done => .done
      | .noSpace => .fail .objectFormat
      | .noNul _ => .fail .objectFormat
      | .short _ _ => .fail .objectFormat
      | .entry tok name sha used =>
        match rsTokG tokFn strict tok with
        | none => .fail .objectFormat
        | some mode => .entry ⟨name, mode, hexlify sha⟩ (R.drop used) := by
  have e1 : Gen.rsModeTerm = 32 := rfl
  have e2 : Gen.rsNameTerm = 0 := rfl
  have e3 : Gen.rsStrictLead = 48 := rfl
  unfold rsParseStepG frame
  rw [e1, e2, e3]
  by_cases hR : R.isEmpty = true
  · simp [hR]
  · simp only [hR, Bool.false_eq_true, if_false]
    cases hk : findByte 32 R with
    | none => rfl
    | some k =>
      simp only
      have hklt := (findByte_spec 32 R k hk).1
      -- the head of the token is the head of the text unless the token is empty
      have hhead : k ≠ 0 → (R.take k).head? = R.head? := by
        intro hk0
        cases R with
        | nil => simp
        | cons a as => cases k with
          | zero => exact absurd rfl hk0
          | succ k => simp
      cases hm : findByte 0 (R.drop (k + 1)) with
      | none =>
        simp only
        cases modeOf R k with
        | none => rfl
        | some v => simp only; split <;> rfl
      | some m =>
        simp only
        by_cases hlen : ((R.drop (k + 1)).drop (m + 1)).length < n
        · simp only [hlen, if_true]
          cases modeOf R k with
          | none => rfl
          | some v => simp only; split <;> rfl
        · simp only [hlen, if_false, rsTokG]
          cases hv : modeOf R k with
          | none =>
            by_cases hk0 : k = 0
            · subst hk0; simp [ht0]
            · rw [← hmk R k hk0, hv]
          | some v =>
            have hk0 : k ≠ 0 := by
              intro hz; subst hz; rw [h0] at hv; cases hv
            rw [← hmk R k hk0, hv]
            simp only
            rw [hhead hk0]
            by_cases hs : strict = true ∧ R.head? = some 48
            · simp only [hs, and_self, if_true]
            · simp only [hs, if_false]
              congr 1
              simp only [List.drop_drop]
              congr 1

theorem hexlify_length : ∀ b : Bytes, (hexlify b).length = 2 * b.length := by
  intro b
  induction b with
  | nil => rfl
  | cons c cs ih => simp only [hexlify, List.length_cons, ih]; omega

theorem pyStepG_frame (modeFn : Bytes → Option Int) (T : Bytes) (n : Nat) (hn : n = 20 ∨ n = 32)
    (strict : Bool) (count : Nat) (hc : count ≤ T.length) :
    pyParseStepG modeFn T (some n) strict count =
      match frame n (T.drop count) with
      | .done => .done
      | .noSpace => .fail .value
      | .noNul tok =>
        (match pyTokG modeFn strict tok with
         | none => .fail .objectFormat
         | some _ => .fail .value)
      | .short _ _ => .fail .objectFormat
      | .entry tok name sha used =>
        match pyTokG modeFn strict tok with
        | none => .fail .objectFormat
        | some mode => .entry ⟨name, mode, hexlify sha⟩ (count + used) := by
  have e1 : Gen.pyModeTerm = 32 := rfl
  have e2 : Gen.pyNameTerm = 0 := rfl
  have e3 : Gen.pyStrictLead = 48 := rfl
  have e5 : Gen.pyHexLens = [40, 64] := rfl
  unfold pyParseStepG frame
  rw [e1, e2, e3, e5]
  by_cases hlt : count < T.length
  · have hne : (T.drop count).isEmpty = false := by
      cases hd : T.drop count with
      | nil => have := congrArg List.length hd; simp at this; omega
      | cons a b => rfl
    simp only [hlt, not_true_eq_false, if_false, hne, Bool.false_eq_true, pyIndex]
    cases hk : findByte 32 (T.drop count) with
    | none => rfl
    | some k =>
      obtain ⟨hklt, hkd⟩ := findByte_spec 32 _ k hk
      simp only [List.length_drop] at hklt
      simp only [Option.map_some]
      -- the mode token
      have htok : pySlice T count (k + count) = (T.drop count).take k := by
        simp only [pySlice]; congr 1; omega
      rw [htok]
      -- searching the NUL from the space
      have hd1 : T.drop (k + count) = 32 :: (T.drop count).drop (k + 1) := by
        rw [← hkd, List.drop_drop]; congr 1; omega
      have hf0 : findByte 0 (T.drop (k + count)) = (findByte 0 ((T.drop count).drop (k + 1))).map (· + 1) := by
        rw [hd1]; simp [findByte]
      rw [hf0]
      cases hm : findByte 0 ((T.drop count).drop (k + 1)) with
      | none =>
        simp only [Option.map_none, pyTokG]
        by_cases hs : strict = true ∧ ((T.drop count).take k).head? = some 48
        · simp only [hs, and_self, if_true]
        · simp only [hs, if_false]; cases modeFn ((T.drop count).take k) <;> rfl
      | some m =>
        obtain ⟨hmlt, _⟩ := findByte_spec 0 _ m hm
        simp only [List.length_drop] at hmlt
        simp only [Option.map_some]
        have hname : pySlice T (k + count + 1) (m + 1 + (k + count)) = ((T.drop count).drop (k + 1)).take m := by
          simp only [pySlice, List.drop_drop]
          have a1 : m + 1 + (k + count) - (k + count + 1) = m := by omega
          have a2 : k + count + 1 = count + (k + 1) := by omega
          rw [a1, a2]
        have hsha : pySlice T (m + 1 + (k + count) + 1) (m + 1 + (k + count) + 1 + n)
            = (((T.drop count).drop (k + 1)).drop (m + 1)).take n := by
          simp only [pySlice, List.drop_drop]
          have a1 : m + 1 + (k + count) + 1 + n - (m + 1 + (k + count) + 1) = n := by omega
          have a2 : m + 1 + (k + count) + 1 = count + (k + 1) + (m + 1) := by omega
          rw [a1, a2]
        rw [hname, hsha]
        have hlen2 : (((T.drop count).drop (k + 1)).drop (m + 1)).length = T.length - count - (k + 1) - (m + 1) := by
          simp only [List.length_drop]
        by_cases hshort : (((T.drop count).drop (k + 1)).drop (m + 1)).length < n
        · have hgt : m + 1 + (k + count) + 1 + n > T.length := by rw [hlen2] at hshort; omega
          simp only [hshort, if_true, hgt]
          by_cases hs : strict = true ∧ ((T.drop count).take k).head? = some 48
          · simp only [hs, and_self, if_true]
          · simp only [hs, if_false]; cases modeFn ((T.drop count).take k) <;> rfl
        · have hgt : ¬ (m + 1 + (k + count) + 1 + n > T.length) := by rw [hlen2] at hshort; omega
          have hsl : ((((T.drop count).drop (k + 1)).drop (m + 1)).take n).length = n := by
            rw [List.length_take]; omega
          have hhex : (hexlify ((((T.drop count).drop (k + 1)).drop (m + 1)).take n)).length ∈ [40, 64] := by
            rw [hexlify_length, hsl]; rcases hn with rfl | rfl <;> simp
          have a3 : m + 1 + (k + count) + 1 + n = count + (k + 1 + m + 1 + n) := by omega
          have hgt' : ¬ (count + (k + 1 + m + 1 + n) > T.length) := by omega
          simp only [hshort, if_false, hsl, ne_eq, not_true_eq_false, hhex, pyTokG, a3, hgt']
          by_cases hs : strict = true ∧ ((T.drop count).take k).head? = some 48
          · simp only [hs, and_self, if_true]
          · simp only [hs, if_false]; cases modeFn ((T.drop count).take k) <;> rfl
  · have hnil : T.drop count = [] := by
      apply List.drop_eq_nil_of_le; omega
    simp [hlt, hnil]

/-! ### the repaired mode parsers agree on EVERY token -/

/-- token-level view of the repaired Rust mode parse -/
def rsModeTok (tok : Bytes) : Option Nat :=
  if tok.head? = some 43 then none else rsFromStrRadix 8 32 tok

theorem rsModeOf_zero (R : Bytes) : rsModeOf R 0 = none := by
  simp only [rsModeOf, List.take_zero, rsFromStrRadix]
  split <;> rfl

theorem rsModeOf_tok (R : Bytes) (k : Nat) (hk : k ≠ 0) : rsModeOf R k = rsModeTok (R.take k) := by
  have e1 : Gen.rsRejectLead = 43 := rfl
  have e2 : Gen.rsModeRadix = 8 := rfl
  have e3 : Gen.rsModeBits = 32 := rfl
  have hhead : (R.take k).head? = R.head? := by
    cases R with
    | nil => simp
    | cons a as => cases k with
      | zero => exact absurd rfl hk
      | succ k => simp
  simp only [rsModeOf, rsModeTok, e1, e2, e3, hhead]

theorem rsModeOfOld_zero (R : Bytes) : rsModeOfOld R 0 = none := by
  simp [rsModeOfOld, rsFromStrRadix]

theorem pyModeRegex_iff (tok : Bytes) : pyModeRegex tok = true ↔ (tok ≠ [] ∧ tok.all isOct = true) := by
  have e1 : Gen.pyModeReLo = 48 := rfl
  have e2 : Gen.pyModeReHi = 55 := rfl
  have hfun : (fun c : UInt8 => decide (Gen.pyModeReLo ≤ c.toNat) && decide (c.toNat ≤ Gen.pyModeReHi)) = isOct := by
    funext c; simp only [isOct, e1, e2]
  simp only [pyModeRegex, hfun, Bool.and_eq_true, Bool.not_eq_true', List.isEmpty_eq_false_iff]

theorem canonDigits_of_oct {tok : Bytes} (hne : tok ≠ []) (ho : tok.all isOct = true) : canonDigits tok = some tok := by
  cases tok with
  | nil => exact absurd rfl hne
  | cons c r =>
    have hc : isOct c = true := by simp only [List.all_cons, Bool.and_eq_true] at ho; exact ho.1
    have : ¬ c.toNat = 43 := by
      simp only [isOct, Bool.and_eq_true, decide_eq_true_eq] at hc; omega
    simp [canonDigits, this]

/-- after the pattern check `int(tok, 8)` cannot fail and is the plain octal value -/
theorem pyInt_of_regex {tok : Bytes} (h : pyModeRegex tok = true) : pyInt 8 tok = some (Int.ofNat (octFrom tok 0)) := by
  obtain ⟨hne, ho⟩ := (pyModeRegex_iff tok).1 h
  exact canonical_py (canonDigits_of_oct hne ho) ho

theorem mode_tok_eq (tok : Bytes) : (rsModeTok tok).map Int.ofNat = pyModeTok tok := by
  have e1 : Gen.pyModeBase = 8 := rfl
  have e2 : Gen.pyModeMax = 4294967295 := rfl
  simp only [pyModeTok, e1, e2]
  by_cases hre : pyModeRegex tok = true
  · obtain ⟨hne, ho⟩ := (pyModeRegex_iff tok).1 hre
    have hcd := canonDigits_of_oct hne ho
    have hplus : ¬ tok.head? = some 43 := by
      cases tok with
      | nil => simp
      | cons c r =>
        have hc : isOct c = true := by simp only [List.all_cons, Bool.and_eq_true] at ho; exact ho.1
        simp only [isOct, Bool.and_eq_true, decide_eq_true_eq] at hc
        simp only [List.head?_cons, Option.some.injEq]
        intro h; rw [h] at hc; simp at hc
    simp only [hre, if_true, pyInt_of_regex hre, rsModeTok, hplus, if_false]
    by_cases hbig : octFrom tok 0 < 2 ^ 32
    · rw [canonical_rs hcd ho hbig]
      have : ¬ (Int.ofNat (octFrom tok 0) > 4294967295) := by
        show ¬ ((octFrom tok 0 : Nat) : Int) > 4294967295
        omega
      simp only [this, if_false, Option.map_some]
    · have : (Int.ofNat (octFrom tok 0) > 4294967295) := by
        show ((octFrom tok 0 : Nat) : Int) > 4294967295
        omega
      simp only [this, if_true]
      cases hr : rsFromStrRadix 8 32 tok with
      | none => rfl
      | some v =>
        obtain ⟨ds, hd, _, hv, hlt⟩ := rs_canonical hr
        rw [hcd] at hd
        simp only [Option.some.injEq] at hd
        subst hd
        omega
  · simp only [hre, Bool.false_eq_true, if_false, rsModeTok]
    split
    · rfl
    · rename_i hplus
      cases hr : rsFromStrRadix 8 32 tok with
      | none => rfl
      | some v =>
        exfalso
        obtain ⟨ds, hd, ho, _, _⟩ := rs_canonical hr
        -- no leading '+': the digit string is the token itself
        have : ds = tok := by
          cases tok with
          | nil => simp [canonDigits] at hd
          | cons c r =>
            have hc : ¬ c.toNat = 43 := by
              intro h
              apply hplus
              simp only [List.head?_cons, Option.some.injEq]
              exact UInt8.toNat_inj.mp (by simpa using h)
            simp only [canonDigits, hc, if_false, Option.some.injEq] at hd
            exact hd.symm
        subst this
        apply hre
        apply (pyModeRegex_iff _).2
        refine ⟨?_, ho⟩
        intro hnil; subst hnil; simp [canonDigits] at hd

theorem tokG_agree (strict : Bool) (tok : Bytes) : rsTokG rsModeTok strict tok = pyTokG pyModeTok strict tok := by
  simp only [rsTokG, pyTokG, ← mode_tok_eq tok]
  cases rsModeTok tok with
  | none => simp
  | some v => simp only [Option.map_some]

/-! ### the loops: equal observable results whenever the two token functions agree -/

theorem loopsG_obs_eq (modeFn : Bytes → Option Int) (modeOf : Bytes → Nat → Option Nat) (tokFn : Bytes → Option Nat)
    (h0 : ∀ R, modeOf R 0 = none) (ht0 : tokFn [] = none) (hmk : ∀ R k, k ≠ 0 → modeOf R k = tokFn (R.take k))
    (hagree : ∀ strict tok, rsTokG tokFn strict tok = pyTokG modeFn strict tok)
    (T : Bytes) (n : Nat) (hn : n = 20 ∨ n = 32) (strict : Bool) :
    ∀ (fuel count : Nat), count ≤ T.length →
      obs (rsParseLoopG modeOf n strict fuel (T.drop count)) = obs (pyParseLoopG modeFn T (some n) strict fuel count) := by
  intro fuel
  induction fuel with
  | zero => intro count _; rfl
  | succ fuel ih =>
    intro count hc
    simp only [rsParseLoopG, rsStepG_frame modeOf tokFn h0 ht0 hmk, pyParseLoopG, pyStepG_frame modeFn T n hn strict count hc]
    cases hf : frame n (T.drop count) with
    | done => rfl
    | noSpace => rfl
    | noNul tok => simp only; cases pyTokG modeFn strict tok <;> rfl
    | short tok name => rfl
    | entry tok name sha used =>
      simp only
      obtain ⟨_, hused⟩ := frame_entry_used hf
      simp only [List.length_drop] at hused
      rw [hagree strict tok]
      cases pyTokG modeFn strict tok with
      | none => rfl
      | some mode =>
        simp only [List.drop_drop]
        have := ih (count + used) (by omega)
        cases h1 : rsParseLoopG modeOf n strict fuel (T.drop (count + used)) with
        | error e =>
          cases h2 : pyParseLoopG modeFn T (some n) strict fuel (count + used) with
          | error e2 => rfl
          | ok es2 => simp [h1, h2, obs] at this
        | ok es =>
          cases h2 : pyParseLoopG modeFn T (some n) strict fuel (count + used) with
          | error e2 => simp [h1, h2, obs] at this
          | ok es2 =>
            simp only [h1, h2, obs, Option.some.injEq] at this
            simp [obs, this]

theorem rsLoopG_fuel (modeOf : Bytes → Nat → Option Nat) (tokFn : Bytes → Option Nat)
    (h0 : ∀ R, modeOf R 0 = none) (ht0 : tokFn [] = none) (hmk : ∀ R k, k ≠ 0 → modeOf R k = tokFn (R.take k))
    (n : Nat) (strict : Bool) : ∀ (fuel : Nat) (R : Bytes), R.length < fuel →
    rsParseLoopG modeOf n strict fuel R ≠ .error .fuel := by
  intro fuel
  induction fuel with
  | zero => intro R h; omega
  | succ fuel ih =>
    intro R hlen
    simp only [rsParseLoopG, rsStepG_frame modeOf tokFn h0 ht0 hmk]
    cases hf : frame n R with
    | done => simp
    | noSpace => simp
    | noNul tok => simp
    | short tok name => simp
    | entry tok name sha used =>
      simp only
      obtain ⟨h2, hused⟩ := frame_entry_used hf
      cases rsTokG tokFn strict tok with
      | none => simp
      | some mode =>
        simp only
        have := ih (R.drop used) (by simp only [List.length_drop]; omega)
        cases h1 : rsParseLoopG modeOf n strict fuel (R.drop used) with
        | error e => simp only [ne_eq, Except.error.injEq]; intro he; exact this (by rw [h1, he])
        | ok es => simp

theorem pyLoopG_fuel (modeFn : Bytes → Option Int) (T : Bytes) (n : Nat) (hn : n = 20 ∨ n = 32) (strict : Bool) :
    ∀ (fuel count : Nat), count ≤ T.length → T.length - count < fuel →
      pyParseLoopG modeFn T (some n) strict fuel count ≠ .error .fuel := by
  intro fuel
  induction fuel with
  | zero => intro count _ h; omega
  | succ fuel ih =>
    intro count hc hlen
    simp only [pyParseLoopG, pyStepG_frame modeFn T n hn strict count hc]
    cases hf : frame n (T.drop count) with
    | done => simp
    | noSpace => simp
    | noNul tok => simp only; cases pyTokG modeFn strict tok <;> simp
    | short tok name => simp
    | entry tok name sha used =>
      simp only
      obtain ⟨h2, hused⟩ := frame_entry_used hf
      simp only [List.length_drop] at hused
      cases pyTokG modeFn strict tok with
      | none => simp
      | some mode =>
        simp only
        have := ih (count + used) (by omega) (by omega)
        cases h1 : pyParseLoopG modeFn T (some n) strict fuel (count + used) with
        | error e => simp only [ne_eq, Except.error.injEq]; intro he; exact this (by rw [h1, he])
        | ok es => simp


/-! ## byte-string order -/

theorem cmpBytes_self : ∀ a : Bytes, cmpBytes a a = .eq := by
  intro a
  induction a with
  | nil => rfl
  | cons x xs ih => simp [cmpBytes, ih]

theorem cmpBytes_swap : ∀ a b : Bytes, cmpBytes b a = (cmpBytes a b).swap := by
  intro a
  induction a with
  | nil => intro b; cases b <;> rfl
  | cons x xs ih =>
    intro b
    cases b with
    | nil => rfl
    | cons y ys =>
      simp only [cmpBytes]
      by_cases h1 : x.toNat < y.toNat
      · have : ¬ y.toNat < x.toNat := by omega
        simp [h1, this]
      · by_cases h2 : y.toNat < x.toNat
        · simp [h1, h2]
        · simp [h1, h2, ih ys]


theorem cmpBytes_append : ∀ (p p' u v : Bytes), p.length = p'.length →
    cmpBytes (p ++ u) (p' ++ v) = (if cmpBytes p p' = .eq then cmpBytes u v else cmpBytes p p') := by
  intro p
  induction p with
  | nil =>
    intro p' u v h
    cases p' with
    | nil => simp [cmpBytes]
    | cons y ys => simp at h
  | cons x xs ih =>
    intro p' u v h
    cases p' with
    | nil => simp at h
    | cons y ys =>
      simp only [List.length_cons, Nat.add_right_cancel_iff] at h
      simp only [List.cons_append, cmpBytes]
      by_cases h1 : x.toNat < y.toNat
      · simp [h1]
      · by_cases h2 : y.toNat < x.toNat
        · simp [h1, h2]
        · simp only [h1, h2, if_false]
          exact ih ys u v h

/-! ## tree order: `cmp_with_suffix` against the `/`-suffixed key -/

/-- Python's sort key for a name, given whether the mode is a directory -/
def pyKeyOf (dir : Bool) (name : Bytes) : Bytes := if dir then name ++ [47] else name

theorem pyKeyOf_eq (mode : Nat) (name : Bytes) : pyKeyOf (rsObjIsDir mode) name = name ++ rsSuffix mode := by
  have e1 : Gen.rsDirSuffix = 47 := rfl
  simp only [pyKeyOf, rsSuffix, e1]
  split <;> simp

/-- the repaired comparator is the byte order of the keys, for ALL names -/
theorem cmp_suffix_eq (xs ys : Bytes) (ma mb : Nat) :
    rsCmpWithSuffix (ma, xs) (mb, ys) = cmpBytes (pyKeyOf (rsObjIsDir ma) xs) (pyKeyOf (rsObjIsDir mb) ys) := by
  rw [pyKeyOf_eq, pyKeyOf_eq]
  simp only [rsCmpWithSuffix]
  have key := cmpBytes_append (xs.take (min xs.length ys.length)) (ys.take (min xs.length ys.length))
    (xs.drop (min xs.length ys.length) ++ rsSuffix ma) (ys.drop (min xs.length ys.length) ++ rsSuffix mb)
    (by simp only [List.length_take]; omega)
  rw [← List.append_assoc, ← List.append_assoc, List.take_append_drop, List.take_append_drop] at key
  rw [key]
  by_cases hc : cmpBytes (xs.take (min xs.length ys.length)) (ys.take (min xs.length ys.length)) = .eq
  · simp [hc]
  · simp [hc]

/-! ## stable sort: congruence and commutation with `map` -/

theorem mem_insertRev {α : Type} (lt : α → α → Bool) (x z : α) : ∀ rev : List α,
    z ∈ insertRev lt x rev ↔ z = x ∨ z ∈ rev := by
  intro rev
  induction rev with
  | nil => simp [insertRev]
  | cons y ys ih =>
    simp only [insertRev]
    split
    · simp only [List.mem_cons, ih]
      constructor
      · rintro (h | h | h) <;> simp [h]
      · rintro (h | h | h) <;> simp [h]
    · simp

theorem insertRev_map {α β : Type} (f : α → β) (lt : α → α → Bool) (lt' : β → β → Bool) (x : α) :
    ∀ rev : List α, (∀ y ∈ rev, lt' (f x) (f y) = lt x y) →
      insertRev lt' (f x) (rev.map f) = (insertRev lt x rev).map f := by
  intro rev
  induction rev with
  | nil => intro _; rfl
  | cons y ys ih =>
    intro h
    simp only [List.map_cons, insertRev, h y (by simp)]
    split
    · simp only [List.map_cons]
      rw [ih (fun z hz => h z (by simp [hz]))]
    · rfl

theorem foldl_insertRev_map {α β : Type} (f : α → β) (lt : α → α → Bool) (lt' : β → β → Bool)
    (P : α → Prop) (hP : ∀ a b, P a → P b → lt' (f a) (f b) = lt a b) :
    ∀ (l rev : List α), (∀ a ∈ l, P a) → (∀ a ∈ rev, P a) →
      (l.map f).foldl (fun r x => insertRev lt' x r) (rev.map f)
        = (l.foldl (fun r x => insertRev lt x r) rev).map f := by
  intro l
  induction l with
  | nil => intro rev _ _; rfl
  | cons x xs ih =>
    intro rev hl hr
    simp only [List.map_cons, List.foldl_cons]
    rw [insertRev_map f lt lt' x rev (fun y hy => hP x y (hl x (by simp)) (hr y hy))]
    apply ih
    · intro a ha; exact hl a (by simp [ha])
    · intro a ha
      rcases (mem_insertRev lt x a rev).1 ha with h | h
      · subst h; exact hl _ (by simp)
      · exact hr a h

theorem stableSort_map {α β : Type} (f : α → β) (lt : α → α → Bool) (lt' : β → β → Bool) (l : List α)
    (h : ∀ a ∈ l, ∀ b ∈ l, lt' (f a) (f b) = lt a b) :
    stableSort lt' (l.map f) = (stableSort lt l).map f := by
  unfold stableSort
  have := foldl_insertRev_map f lt lt' (fun a => a ∈ l) (fun a b ha hb => h a ha b hb) l []
    (fun a ha => ha) (fun a ha => by simp at ha)
  simp only [List.map_nil] at this
  rw [this, List.map_reverse]

theorem stableSort_congr {α : Type} (lt lt' : α → α → Bool) (l : List α)
    (h : ∀ a ∈ l, ∀ b ∈ l, lt' a b = lt a b) : stableSort lt' l = stableSort lt l := by
  have := stableSort_map id lt lt' l h
  simpa using this

theorem mem_foldl_insertRev {α : Type} (lt : α → α → Bool) (z : α) : ∀ (l rev : List α),
    z ∈ l.foldl (fun r x => insertRev lt x r) rev → z ∈ l ∨ z ∈ rev := by
  intro l
  induction l with
  | nil => intro rev h; exact Or.inr h
  | cons x xs ih =>
    intro rev h
    simp only [List.foldl_cons] at h
    rcases ih _ h with h | h
    · exact Or.inl (by simp [h])
    · rcases (mem_insertRev lt x z rev).1 h with h | h
      · exact Or.inl (by simp [h])
      · exact Or.inr h

theorem mem_stableSort {α : Type} (lt : α → α → Bool) (l : List α) (z : α) (h : z ∈ stableSort lt l) : z ∈ l := by
  unfold stableSort at h
  rw [List.mem_reverse] at h
  rcases mem_foldl_insertRev lt z l [] h with h | h
  · exact h
  · simp at h


theorem mem_foldl_insertRev_of {α : Type} (lt : α → α → Bool) (z : α) : ∀ (l rev : List α),
    (z ∈ l ∨ z ∈ rev) → z ∈ l.foldl (fun r x => insertRev lt x r) rev := by
  intro l
  induction l with
  | nil =>
    intro rev h
    rcases h with h | h
    · simp at h
    · exact h
  | cons x xs ih =>
    intro rev h
    simp only [List.foldl_cons]
    apply ih
    rcases h with h | h
    · rcases List.mem_cons.mp h with rfl | h
      · exact Or.inr ((mem_insertRev lt z z rev).2 (Or.inl rfl))
      · exact Or.inl h
    · exact Or.inr ((mem_insertRev lt x z rev).2 (Or.inr h))

theorem mem_stableSort_of {α : Type} (lt : α → α → Bool) (l : List α) (z : α) (h : z ∈ l) : z ∈ stableSort lt l := by
  unfold stableSort
  rw [List.mem_reverse]
  exact mem_foldl_insertRev_of lt z l [] (Or.inl h)

/-! ## sorted_tree_items -/

/-- every mode fits the 32-bit unsigned type both sides convert to -/
def modesU32 (es : List TreeEntry) : Prop := ∀ e ∈ es, 0 ≤ e.mode ∧ e.mode < 2 ^ 32

def toTriple (e : TreeEntry) : Bytes × Nat × Bytes := (e.name, e.mode.toNat, e.hexsha)

theorem rsExtractAll_ok : ∀ es : List TreeEntry, modesU32 es → rsExtractAll 32 es = .ok (es.map toTriple) := by
  intro es
  induction es with
  | nil => intro _; rfl
  | cons e es ih =>
    intro h
    have he := h e (by simp)
    have : ¬ (e.mode < 0 ∨ e.mode ≥ 2 ^ 32) := by omega
    simp only [rsExtractAll, this, if_false, ih (fun x hx => h x (by simp [hx])), List.map_cons, toTriple]

theorem rsExtractAll_err : ∀ es : List TreeEntry, ¬ modesU32 es → rsExtractAll 32 es = .error .type := by
  intro es
  induction es with
  | nil => intro h; exact absurd (fun e he => by simp at he) h
  | cons e es ih =>
    intro h
    simp only [rsExtractAll]
    by_cases he : e.mode < 0 ∨ e.mode ≥ 2 ^ 32
    · rw [if_pos he]
    · have hrest : ¬ modesU32 es := by
        intro hm
        apply h
        intro x hx
        rcases List.mem_cons.mp hx with rfl | hx
        · omega
        · exact hm x hx
      simp only [he, if_false, ih hrest]

theorem pyIsDir_ok {m : Int} (h : 0 ≤ m ∧ m < 2 ^ 32) : pyIsDir m = .ok (rsObjIsDir m.toNat) := by
  have e1 : Gen.pyModeTBits = 32 := rfl
  have e2 : Gen.pySIfmt = Gen.rsObjSIfmt := rfl
  have e3 : Gen.pySIfdir = Gen.rsObjSIfdir := rfl
  have : ¬ (m < 0 ∨ m ≥ 2 ^ 32) := by omega
  simp only [pyIsDir, e1, this, if_false, rsObjIsDir, e2, e3]

def keyed (e : TreeEntry) : Bytes × TreeEntry := (pyKeyOf (rsObjIsDir e.mode.toNat) e.name, e)

theorem pyKeyAll_ok : ∀ es : List TreeEntry, modesU32 es → pyKeyAll es = .ok (es.map keyed) := by
  have e1 : Gen.pyDirSuffix = 47 := rfl
  intro es
  induction es with
  | nil => intro _; rfl
  | cons e es ih =>
    intro h
    simp only [pyKeyAll, pyKeyEntry, pyIsDir_ok (h e (by simp)), ih (fun x hx => h x (by simp [hx])),
      List.map_cons, keyed, pyKeyOf, e1]

theorem pyKeyAll_err : ∀ es : List TreeEntry, ¬ modesU32 es → pyKeyAll es = .error .overflow := by
  have e1 : Gen.pyModeTBits = 32 := rfl
  intro es
  induction es with
  | nil => intro h; exact absurd (fun e he => by simp at he) h
  | cons e es ih =>
    intro h
    simp only [pyKeyAll, pyKeyEntry]
    by_cases he : e.mode < 0 ∨ e.mode ≥ 2 ^ 32
    · simp only [pyIsDir, e1]
      rw [if_pos he]
    · have hrest : ¬ modesU32 es := by
        intro hm
        apply h
        intro x hx
        rcases List.mem_cons.mp hx with rfl | hx
        · omega
        · exact hm x hx
      have hok : 0 ≤ e.mode ∧ e.mode < 2 ^ 32 := by omega
      simp only [pyIsDir_ok hok, ih hrest]

theorem back_toTriple {e : TreeEntry} (h : 0 ≤ e.mode) :
    (⟨(toTriple e).1, Int.ofNat (toTriple e).2.1, (toTriple e).2.2⟩ : TreeEntry) = e := by
  cases e with
  | mk name mode hexsha =>
    simp only [toTriple, TreeEntry.mk.injEq, true_and, and_true]
    simp only at h
    show ((mode.toNat : Nat) : Int) = mode
    omega

/-- with 32-bit modes the Rust sort is the pre-repair Python sort (which has no range check) -/
theorem sorted_eq_old (es : List TreeEntry) (nameOrder : Bool) (hm : modesU32 es) :
    sortedTreeItemsRs es nameOrder = sortedTreeItemsPyOld es nameOrder := by
  have e1 : Gen.rsSortModeBits = 32 := rfl
  simp only [sortedTreeItemsRs, sortedTreeItemsRsG, sortedTreeItemsPyOld, e1, rsExtractAll_ok es hm]
  cases nameOrder with
  | true =>
    simp only [if_true]
    rw [stableSort_map toTriple (fun a b => bytesLt a.name b.name) _ es (fun a _ b _ => rfl)]
    simp only [List.map_map]
    congr 1
    conv => rhs; rw [← List.map_id (stableSort _ es)]
    apply List.map_congr_left
    intro e he
    exact back_toTriple (hm e (mem_stableSort _ _ _ he)).1
  | false =>
    simp only [Bool.false_eq_true, if_false, pyKeyAll_ok es hm]
    rw [stableSort_map toTriple (fun a b => bytesLt (keyed a).1 (keyed b).1) _ es (by
      intro a ha b hb
      simp only [toTriple, keyed, bytesLt]
      rw [cmp_suffix_eq])]
    rw [stableSort_map keyed (fun a b => bytesLt (keyed a).1 (keyed b).1) _ es (fun a _ b _ => rfl)]
    simp only [List.map_map]
    congr 1
    apply List.map_congr_left
    intro e he
    simp only [Function.comp, keyed]
    exact back_toTriple (hm e (mem_stableSort _ _ _ he)).1

theorem inRange_iff (e : TreeEntry) : pyModeInRange e = true ↔ (0 ≤ e.mode ∧ e.mode < 2 ^ 32) := by
  have e1 : Gen.pySortModeMax = 4294967295 := rfl
  simp only [pyModeInRange, e1, Bool.and_eq_true, decide_eq_true_eq]
  omega

/-- the repaired Python function returns only lists whose modes are all 32-bit -/
theorem sortedPy_ok_modes {es L : List TreeEntry} {no : Bool} (h : sortedTreeItemsPy es no = .ok L) : modesU32 L := by
  simp only [sortedTreeItemsPy] at h
  split at h
  · cases h
  · rename_i sorted _
    split at h
    · rename_i hall
      simp only [Except.ok.injEq] at h
      subst h
      intro e he
      exact (inRange_iff e).1 (List.all_eq_true.mp hall e he)
    · cases h

theorem sorted_eq_u32 (es : List TreeEntry) (nameOrder : Bool) (hm : modesU32 es) :
    sortedTreeItemsRs es nameOrder = sortedTreeItemsPy es nameOrder := by
  rw [sorted_eq_old es nameOrder hm]
  simp only [sortedTreeItemsPy]
  cases hp : sortedTreeItemsPyOld es nameOrder with
  | error x => rfl
  | ok S =>
    simp only
    have hall : S.all pyModeInRange = true := by
      apply List.all_eq_true.mpr
      intro e he
      apply (inRange_iff e).2
      apply hm
      cases nameOrder with
      | true =>
        simp only [sortedTreeItemsPyOld, if_true, Except.ok.injEq] at hp
        subst hp
        exact mem_stableSort _ _ _ he
      | false =>
        simp only [sortedTreeItemsPyOld, Bool.false_eq_true, if_false, pyKeyAll_ok es hm, Except.ok.injEq] at hp
        subst hp
        obtain ⟨p, hp1, hp2⟩ := List.mem_map.mp he
        have := mem_stableSort _ _ _ hp1
        obtain ⟨e', he', hk⟩ := List.mem_map.mp this
        subst hk
        simp only [keyed] at hp2
        subst hp2
        exact he'
    simp [hall]

/-- name order: exactly equal results on EVERY dictionary (out-of-range modes: `TypeError` in both) -/
theorem sorted_eq_name_order (es : List TreeEntry) : sortedTreeItemsRs es true = sortedTreeItemsPy es true := by
  by_cases hm : modesU32 es
  · exact sorted_eq_u32 es true hm
  · have e1 : Gen.rsSortModeBits = 32 := rfl
    simp only [sortedTreeItemsRs, sortedTreeItemsRsG, e1, rsExtractAll_err es hm, sortedTreeItemsPy, sortedTreeItemsPyOld, if_true]
    have hnot : (stableSort (fun a b => bytesLt a.name b.name) es).all pyModeInRange = false := by
      apply Bool.eq_false_iff.mpr
      intro hall
      apply hm
      intro e he
      exact (inRange_iff e).1 (List.all_eq_true.mp hall e (mem_stableSort_of _ _ _ he))
    simp [hnot]

/-- tree order: equal observable results on EVERY dictionary (out-of-range modes: both fail) -/
theorem sorted_obs_eq (es : List TreeEntry) (nameOrder : Bool) :
    obs (sortedTreeItemsRs es nameOrder) = obs (sortedTreeItemsPy es nameOrder) := by
  cases nameOrder with
  | true => rw [sorted_eq_name_order]
  | false =>
    by_cases hm : modesU32 es
    · rw [sorted_eq_u32 es false hm]
    · have e1 : Gen.rsSortModeBits = 32 := rfl
      simp only [sortedTreeItemsRs, sortedTreeItemsRsG, e1, rsExtractAll_err es hm, sortedTreeItemsPy, sortedTreeItemsPyOld,
        Bool.false_eq_true, if_false, pyKeyAll_err es hm, obs]

/-! ## bisect_find_sha -/

theorem inSigned64 (x : Int) : inSigned 64 x = true ↔ (-9223372036854775808 ≤ x ∧ x < 9223372036854775808) := by
  simp [inSigned]

theorem bytesLt_of_cmp {a b : Bytes} :
    (cmpBytes a b = .lt → bytesLt a b = true ∧ bytesLt b a = false) ∧
    (cmpBytes a b = .gt → bytesLt a b = false ∧ bytesLt b a = true) ∧
    (cmpBytes a b = .eq → bytesLt a b = false ∧ bytesLt b a = false) := by
  simp only [bytesLt, cmpBytes_swap a b]
  cases cmpBytes a b <;> simp [Ordering.swap]

theorem bisectLoop_eq (unpack : Int → Except Exc Bytes) (sha : Bytes)
    (hun : ∀ i r, unpack i = .ok r → r.length = 20 ∨ r.length = 32) :
    ∀ (fuel : Nat) (s e : Int), 0 ≤ s → s < 2 ^ 63 → -1 ≤ e → e < 2 ^ 63 → (e - s + 1).toNat < fuel →
      bisectLoopRs unpack sha fuel s e = bisectLoopPy unpack sha fuel s e := by
  have eb : Gen.rsBisectBits = 64 := rfl
  have el : Gen.rsIsShaLens = [20, 32] := rfl
  intro fuel
  induction fuel with
  | zero => intro s e _ _ _ _ h; omega
  | succ fuel ih =>
    intro s e hs0 hs1 he0 he1 hf
    simp only [bisectLoopRs, bisectLoopPy, eb, el]
    by_cases hle : s ≤ e
    · have hgt : ¬ s > e := by omega
      have hin0 : inSigned 64 (e - s) = true := (inSigned64 _).2 (by omega)
      have hdiv : Int.tdiv (e - s) 2 = (e - s) / 2 := Int.tdiv_eq_ediv_of_nonneg (by omega)
      have hfdiv : Int.fdiv (s + e) 2 = (s + e) / 2 := Int.fdiv_eq_ediv_of_nonneg _ (by decide)
      have hmid : s + (e - s) / 2 = (s + e) / 2 := by omega
      have hin : inSigned 64 ((s + e) / 2) = true := (inSigned64 _).2 (by omega)
      simp only [hle, hgt, if_true, if_false, hin0, not_true_eq_false, hdiv, hfdiv, hmid, hin]
      cases hu : unpack ((s + e) / 2) with
      | error x => rfl
      | ok fs =>
        have hlen := hun _ _ hu
        have hmem : fs.length ∈ [20, 32] := by rcases hlen with h | h <;> simp [h]
        simp only [hmem, not_true_eq_false, if_false]
        obtain ⟨h1, h2, h3⟩ := @bytesLt_of_cmp fs sha
        cases hc : cmpBytes fs sha with
        | lt =>
          simp only [(h1 hc).1, if_true]
          by_cases hnext : (s + e) / 2 + 1 < 2 ^ 63
          · have hin2 : inSigned 64 ((s + e) / 2 + 1) = true := (inSigned64 _).2 (by omega)
            simp only [hin2, not_true_eq_false, if_false]
            exact ih _ _ (by omega) hnext he0 he1 (by omega)
          · have hin2 : ¬ inSigned 64 ((s + e) / 2 + 1) = true := by
              intro h; have := (inSigned64 _).1 h; omega
            simp only [hin2, not_false_eq_true, if_true]
            -- checked_add gave None: Python's next iteration sees start > end
            cases fuel with
            | zero => omega
            | succ f =>
              have : ¬ ((s + e) / 2 + 1 ≤ e) := by omega
              rw [bisectLoopPy, if_neg this]
              simp
        | gt =>
          have hin2 : inSigned 64 ((s + e) / 2 - 1) = true := (inSigned64 _).2 (by omega)
          simp only [hin2, not_true_eq_false, if_false, (h2 hc).1, (h2 hc).2, if_true, Bool.false_eq_true]
          exact ih _ _ hs0 hs1 (by omega) (by omega) (by omega)
        | eq =>
          simp only [(h3 hc).1, (h3 hc).2, Bool.false_eq_true, if_false]
    · have hgt : s > e := by omega
      simp only [hle, hgt, if_true, if_false]

theorem bisectLoopPy_fuel (unpack : Int → Except Exc Bytes) (sha : Bytes) :
    ∀ (fuel : Nat) (s e : Int), (e - s + 1).toNat < fuel →
      bisectLoopPy unpack sha fuel s e ≠ .error .fuel ∨ ∃ i, unpack i = .error .fuel := by
  intro fuel
  induction fuel with
  | zero => intro s e h; omega
  | succ fuel ih =>
    intro s e hf
    simp only [bisectLoopPy]
    by_cases hle : s ≤ e
    · have hfdiv : Int.fdiv (s + e) 2 = (s + e) / 2 := Int.fdiv_eq_ediv_of_nonneg _ (by decide)
      simp only [hle, if_true, hfdiv]
      cases hu : unpack ((s + e) / 2) with
      | error x =>
        by_cases hx : x = .fuel
        · exact Or.inr ⟨_, by rw [hu, hx]⟩
        · left; simp only [ne_eq, Except.error.injEq]; exact hx
      | ok fs =>
        simp only
        split
        · exact ih _ _ (by omega)
        · split
          · exact ih _ _ (by omega)
          · left; simp
    · left; simp [hle]

/-! ## _merge_entries -/

theorem mergeLoop_eq : ∀ (fuel : Nat) (l1 l2 : List TreeEntry),
    rsMergeLoop fuel l1 l2 = pyMergeLoop fuel l1 l2 := by
  intro fuel
  induction fuel with
  | zero => intro l1 l2; rfl
  | succ fuel ih =>
    intro l1 l2
    cases l1 with
    | nil => rfl
    | cons e1 r1 =>
      cases l2 with
      | nil => rfl
      | cons e2 r2 =>
        simp only [rsMergeLoop, pyMergeLoop]
        obtain ⟨h1, h2, h3⟩ := @bytesLt_of_cmp e1.name e2.name
        cases hc : cmpBytes e1.name e2.name with
        | lt => simp only [(h1 hc).1, if_true, ih]
        | gt => simp only [(h2 hc).1, (h2 hc).2, if_true, Bool.false_eq_true, if_false, ih]
        | eq => simp only [(h3 hc).1, (h3 hc).2, Bool.false_eq_true, if_false, ih]

theorem join_eq (path name : Bytes) : rsJoin path name = pyJoin path name := by
  have e1 : Gen.rsPathSep = Gen.pyPathSep := rfl
  simp only [rsJoin, pyJoin, e1]

theorem rsTreeEntriesMap_ok (path : Bytes) : ∀ L : List TreeEntry, modesU32 L →
    rsTreeEntriesMap path L = .ok (L.map fun e => ⟨pyJoin path e.name, e.mode, e.hexsha⟩) := by
  have e1 : Gen.rsMergeModeBits = 32 := rfl
  intro L
  induction L with
  | nil => intro _; rfl
  | cons e es ih =>
    intro hm
    have he := hm e (by simp)
    have : ¬ (e.mode < 0 ∨ e.mode ≥ 2 ^ 32) := by omega
    simp only [rsTreeEntriesMap, e1, this, if_false, ih (fun x hx => hm x (by simp [hx])), List.map_cons, join_eq]

theorem treeEntries_eq (path : Bytes) (t : Option (List TreeEntry)) :
    rsTreeEntries path t = pyTreeEntries path t := by
  cases t with
  | none => rfl
  | some es =>
    cases es with
    | nil => rfl
    | cons e es =>
      simp only [rsTreeEntries, pyTreeEntries, pyTreeEntriesG, sorted_eq_name_order]
      cases hp : sortedTreeItemsPy (e :: es) true with
      | error x => rfl
      | ok L => exact rsTreeEntriesMap_ok path L (sortedPy_ok_modes hp)

/-! ## _is_tree -/

theorem isTree_eq (a : IsTreeArg) : isTreeRs a = isTreePy a := by
  have e1 : Gen.rsIsTreeModeBits = Gen.pyModeTBits := rfl
  have e2 : Gen.rsDiffSIfmt = Gen.pySIfmt := rfl
  have e3 : Gen.rsDiffSIfdir = Gen.pySIfdir := rfl
  cases a with
  | noEntry => rfl
  | noMode => rfl
  | mode m => simp only [isTreeRs, isTreePy, pyIsDir, e1, e2, e3]

/-! ## _count_blocks -/

theorem chunkLoop_eq (bs : Nat) : ∀ (ch more block : Bytes),
    pyBlocksLoop bs (ch ++ more) block block.length
      = (rsChunkLoop bs ch block).1 ++ pyBlocksLoop bs more (rsChunkLoop bs ch block).2 (rsChunkLoop bs ch block).2.length := by
  have e1 : Gen.rsBlockNl = Gen.pyBlockNl := rfl
  intro ch
  induction ch with
  | nil => intro more block; rfl
  | cons c cs ih =>
    intro more block
    simp only [List.cons_append, pyBlocksLoop, rsChunkLoop, e1, List.length_append, List.length_cons, List.length_nil]
    by_cases hc : c = Gen.pyBlockNl ∨ block.length + 0 + 1 = bs
    · have hc' : c = Gen.pyBlockNl ∨ block.length + 1 = bs := by simpa using hc
      simp only [hc, hc', if_true, List.cons_append]
      have := ih more []
      simp only [List.length_nil] at this
      rw [this]
    · have hc' : ¬ (c = Gen.pyBlockNl ∨ block.length + 1 = bs) := by simpa using hc
      simp only [hc, hc', if_false]
      have := ih more (block ++ [c])
      simp only [List.length_append, List.length_cons, List.length_nil] at this
      exact this

theorem chunksLoop_eq (bs : Nat) : ∀ (chunks : List Bytes) (block : Bytes),
    rsChunksLoop bs chunks block = pyBlocksLoop bs chunks.flatten block block.length := by
  intro chunks
  induction chunks with
  | nil =>
    intro block
    simp only [rsChunksLoop, List.flatten_nil, pyBlocksLoop]
    cases block <;> simp
  | cons ch chs ih =>
    intro block
    simp only [rsChunksLoop, List.flatten_cons, chunkLoop_eq bs ch chs.flatten block, ih]

/-! ## Rust delta emitter -/

open Dulwich.Delta in
theorem rsEmitCopy_eq : ∀ fuel off len, rsEmitCopy fuel off len = emitCopy fuel off len := by
  have e : Gen.rsMaxCopyLen = Gen.maxCopyLen := rfl
  intro fuel
  induction fuel with
  | zero => intro off len; rfl
  | succ fuel ih => intro off len; simp only [rsEmitCopy, emitCopy, e, ih]

open Dulwich.Delta in
theorem rsEmitInsert_nil : ∀ fuel, rsEmitInsert fuel [] = [] := by
  intro fuel; cases fuel <;> simp [rsEmitInsert]

open Dulwich.Delta in
theorem rsEmitInsert_eq : ∀ (fuel : Nat) (data : Bytes), data ≠ [] → rsEmitInsert fuel data = emitInsert fuel data := by
  have e1 : Gen.rsMaxInsertLen = 127 := rfl
  have e2 : Gen.maxInsertLen = 127 := rfl
  intro fuel
  induction fuel with
  | zero => intro data _; rfl
  | succ fuel ih =>
    intro data hne
    have hlen : data.length ≠ 0 := by
      intro h; exact hne (List.eq_nil_of_length_eq_zero h)
    simp only [rsEmitInsert, emitInsert, e1, e2, hlen, if_false]
    by_cases hbig : data.length > 127
    · have hmin : min data.length 127 = 127 := by omega
      simp only [hbig, if_true, hmin]
      rw [ih (data.drop 127) (by
        intro h
        have := congrArg List.length h
        simp at this; omega)]
    · have hmin : min data.length 127 = data.length := by omega
      simp only [hbig, if_false, hmin, List.take_length, List.drop_length, rsEmitInsert_nil, List.append_nil]

open Dulwich.Delta in
theorem rsEmitOps_eq : ∀ ops : List Op, (∀ d, Op.insert d ∈ ops → d ≠ []) → rsEmitOps ops = emitOps ops := by
  intro ops
  induction ops with
  | nil => intro _; rfl
  | cons op ops ih =>
    intro h
    have ih' := ih (fun d hd => h d (List.mem_cons_of_mem _ hd))
    cases op with
    | copy off len => simp only [rsEmitOps, emitOps, rsEmitCopy_eq, ih']
    | insert data => simp only [rsEmitOps, emitOps, rsEmitInsert_eq _ data (h data List.mem_cons_self), ih']

end Dulwich.RsPy

